(* C07 - the grammar reader reconstructs exactly the grammar that was written.
   This file holds ONLY the pinned statements, the closing theorems, non-vacuity examples and Print Assumptions.

   Reader = pest_meta::parser::parse(Rule::grammar_rules, text) followed by consume_rules:
     [read fx extras text fuel] (PV.Meta.Consume) = grammar.pest (transcribed as Tokens.meta_grammar, compared with
     the real file on every run) under the documented PEG semantics Peg.Spec, then [consume] = the line-by-line model
     of consume_rules_with_spans / consume_expr / unaries / get_node_tag / unescape / convert_rule with the
     PrattParser instance taken from C13's model.  [fx] = which repairs the tree has ([shipped] / [repaired] =
     fixes/C07-1 + fixes/C07-2).  validate_ast (run by consume_rules) is not part of the reader (C06).
   Writing = [spells_grammar extras G text] (PV.Meta.Text): text spells a concrete grammar cg (PV.Meta.Spell:
     explicit parentheses, optional leading `|`, omitted PEEK start, doc lines) with abs cg = G, every operand at a
     level its position admits without parentheses ([wp]; levels derived from grammar.pest: `|` < `~` < `#t =` <
     `&` `!` < postfix < atoms), any gaps (blanks, newlines, nested block comments, line comments) between the tokens
     of non-atomic rules, any escape form for any character, leading zeros, `///` and `//!` lines.
   Stated restrictions of what can be written at all ([writable] / [ident_ok]): identifiers and rule names match
     ("_" | alpha)("_" | alnum)* and do not start with PUSH; \u{..} has 2-6 digits; counts fit u32 and {0} {,0} {m,0}
     are rejected by the reader with an error; PEEK indices fit i32; tags / PUSH_LITERAL need grammar-extras. *)
From Coq Require Import List NArith ZArith Bool String.
Import ListNotations.
Require Import PV.Comb.PState PV.Comb.Utf8 PV.Peg.Ast.
Require Import PV.Iter.Queue PV.Peg.Spec.
Require Import PV.Meta.Tokens PV.Meta.Unescape PV.Meta.Consume PV.Meta.Spell PV.Meta.Text PV.Meta.LexProofs PV.Meta.Proofs PV.Meta.Top.
Require Import PV.Meta.PegRules PV.Meta.LexPeg.
Require Import PV.Meta.TokFinal.

(* ---------------------------------------------------------------------------------------------
   THE FULL STATEMENT (pinned; proved modulo the tokenisation half, see C07_partial (6))
   --------------------------------------------------------------------------------------------- *)
Definition C07_statement : Prop :=
  forall (extras : bool) (G : grammar) (text : list byte),
    spells_grammar extras G text -> reads repaired extras text G.

(* the same statement about the code AS SHIPPED: false, two witnesses below *)
Definition C07_shipped_statement : Prop :=
  forall (extras : bool) (G : grammar) (text : list byte),
    spells_grammar extras G text -> reads shipped extras text G.

(* the missing half: grammar.pest tokenises every spelling of cg as tokens_of_grammar cg *)
Definition C07_tokenisation_statement : Prop :=
  forall (extras : bool) (cg : cgrammar) (text : list byte),
    prints_grammar cg text -> valid_utf8 text ->
    Forall (fun r => wp (cr_body r) = true /\ writable extras (cr_body r) = true /\ ident_ok (cr_name r) = true) (cg_rules cg) ->
    tokenises text cg.

(* ---------------------------------------------------------------------------------------------
   WHAT IS PROVED
   --------------------------------------------------------------------------------------------- *)
Definition C07_partial_statement : Prop :=
  (* (1) the second half of the reader, for every state of the tree: any token forest over any text whose shape is
         tokens_of_grammar cg and whose leaves cover legal lexemes is read back as abs cg: precedence (via C13),
         left grouping, prefix outside postfix, tag outermost in the term, counts, PEEK indices, literals.
         For the code as shipped: no leading `|` in a nested expression and `^` directly followed by the quote. *)
  (forall fx extras w cg forest,
     Forall (fun r => wp (cr_body r) = true /\ writable extras (cr_body r) = true /\
                      (fix_bar fx = false -> nested_bar (cr_body r) = false)) (cg_rules cg) ->
     smatch_list (negb (fix_insens fx)) w (tokens_of_grammar cg) forest ->
     consume fx extras w forest = COk (abs_grammar cg)) /\
  (* (2) every writable abstract tree is representable: its minimal-parentheses spelling is well-parenthesised,
         writable, has no leading `|`, and abstracts to the tree; parentheses appear exactly where [needs_parens] says *)
  (forall extras e, ewritable extras e ->
     abs (min_parens decode_all e) = e /\ wp (min_parens decode_all e) = true /\
     writable extras (min_parens decode_all e) = true /\ nested_bar (min_parens decode_all e) = false) /\
  (forall k c, paren_if k c = if lvl c <? k then CParen false c else c) /\
  (* (3) and they are needed there: without them the spelling is that of ANOTHER tree (which (1) then returns):
         a ~ (b ~ c), a | (b | c), a ~ (b | c), (a | b) ~ c, (!a)?  *)
  (forall a b c,
     fe (CSeq a (CSeq b c)) = fe (CSeq (CSeq a b) c) /\ fe (CChoice a (CChoice b c)) = fe (CChoice (CChoice a b) c) /\
     fe (CSeq a (CChoice b c)) = fe (CChoice (CSeq a b) c) /\ fe (CSeq (CChoice a b) c) = fe (CChoice a (CSeq b c)) /\
     tc (COpt (CNeg a)) = tc (CNeg (COpt a))) /\
  (* (4) literals: unescape is a left inverse of every spelling of every string of scalar values (= valid UTF-8) *)
  (forall q cs w, spells_string q cs w -> unescape w = Some (utf8 cs)) /\
  (forall s, valid_utf8 s -> utf8 (decode_all s) = s /\ scalars (decode_all s) = true) /\
  (* (5) numbers *)
  (forall n l, spells_num n l -> (n <= u32_max)%N -> parse_u32 l = Some n) /\
  (forall z l, spells_int z l -> i32_ok z = true -> parse_i32 l = Some z) /\
  (* (6) the whole reader, given the tokenisation of this text *)
  (forall extras G text,
     (forall cg, prints_grammar cg text -> valid_utf8 text ->
        Forall (fun r => wp (cr_body r) = true /\ writable extras (cr_body r) = true /\ ident_ok (cr_name r) = true) (cg_rules cg) ->
        tokenises text cg) ->
     spells_grammar extras G text -> reads repaired extras text G).

Theorem C07_partial : C07_partial_statement.
Proof.
  split; [exact consume_spelling|].
  split; [intros extras e H; destruct (min_parens_abs extras e H) as [A B]; destruct (min_parens_wp decode_all e) as [C D]; auto|].
  split; [reflexivity|].
  split; [intros a b c; repeat split; [apply collide_seq_right|apply collide_choice_right|apply collide_seq_choice|apply collide_choice_seq]|].
  split; [exact unescape_spelled|].
  split; [exact utf8_decode_all|].
  split; [exact parse_u32_spelled|].
  split; [exact parse_i32_spelled|].
  exact reduction.
Qed.

(* ---------------------------------------------------------------------------------------------
   THE TOKENISATION HALF, LEXICAL PART: grammar.pest under Peg.Spec ([evals]: the fuelled interpreter returns this
   result with every sufficiently large fuel) on a text w whose suffix at p is  lexeme ++ rest :
   every lexical rule of grammar.pest matches exactly the lexeme as Spell.v / Text.v spell it, and produces the
   token tree tokens_of expects.  [follow P rest]: rest is empty or starts with an ASCII byte outside P.
   --------------------------------------------------------------------------------------------- *)
Definition lexes (w : list byte) (a : PState.atom) (em : bool) (r : string) (p : nat) (sg : list str) (res : sres) : Prop :=
  evals meta_grammar false (fun _ => None) w a em (EIdent (nm r)) p sg res.

Definition C07_lexical_statement : Prop :=
  forall (w : list byte) (p : nat) (sg : list str) (rest : list byte),
  (* number = @{ '0'..'9'+ } *)
  (forall a em ds, ds <> [] -> Forall (fun b => (b < 128)%N /\ digitb b = true) ds -> follow digitb rest -> skipn p w = ds ++ rest ->
     lexes w a em "number" p sg (SMatch (p + List.length ds) sg (node_if (tok a em) MNumber p (p + List.length ds) []))) /\
  (* integer = @{ number | "-" ~ "0"* ~ '1'..'9' ~ number? } *)
  (forall a em z l, spells_int z l -> follow digitb rest -> skipn p w = l ++ rest ->
     lexes w a em "integer" p sg (SMatch (p + List.length l) sg (node_if (tok a em) MInteger p (p + List.length l) []))) /\
  (* identifier = @{ !"PUSH" ~ ("_" | alpha) ~ ("_" | alpha_num)* } ,  tag_id *)
  (forall a em n, ident_ok n = true -> follow ident_char rest -> skipn p w = n ++ rest ->
     lexes w a em "identifier" p sg (SMatch (p + List.length n) sg (node_if (tok a em) MIdentifier p (p + List.length n) []))) /\
  (forall a em t, tag_ok t = true -> follow ident_char rest -> skipn p w = 35%N :: t ++ rest ->
     lexes w a em "tag_id" p sg (SMatch (p + S (List.length t)) sg (node_if (tok a em) MTagId p (p + S (List.length t)) []))) /\
  (* WHITESPACE / COMMENT: the implicit skipping of a non-atomic rule consumes exactly a gap (blanks, newlines,
     nested block comments, line comments) when what follows is no blank and no comment opener *)
  (forall em g, gap g -> gap_end rest -> skipn p w = g ++ rest ->
     skips meta_grammar false (fun _ => None) w NonAtomic em p sg (SMatch (p + List.length g) sg [])) /\
  (* escape: the seven one-letter escapes, \xHH, \u{2-6 hex digits} *)
  (forall em esc, escape_text esc -> skipn p w = esc ++ rest -> lexes w Atomic em "escape" p sg (SMatch (p + List.length esc) sg [])) /\
  (* string = ${ quote ~ inner_str ~ quote },  character = ${ single_quote ~ inner_chr ~ single_quote } *)
  (forall a cs ew, spells_string 34%N cs ew -> skipn p w = quoted 34%N ew ++ rest ->
     lexes w a true "string" p sg (SMatch (p + List.length (quoted 34%N ew)) sg [string_node p ew])) /\
  (forall a c e, spells_char 39%N c e -> skipn p w = quoted 39%N e ++ rest ->
     lexes w a true "character" p sg (SMatch (p + List.length (quoted 39%N e)) sg [char_node p e])) /\
  (* insensitive_string = { "^" ~ string } and range = { character ~ range_operator ~ character }, gaps inside *)
  (forall cs ew g, spells_string 34%N cs ew -> gap g -> skipn p w = 94%N :: g ++ quoted 34%N ew ++ rest ->
     lexes w NonAtomic true "insensitive_string" p sg
       (SMatch (p + 1 + List.length g + List.length (quoted 34%N ew)) sg
          [Node (mid MInsensitiveString) None p (p + 1 + List.length g + List.length (quoted 34%N ew)) [string_node (p + 1 + List.length g) ew]])) /\
  (forall lo hi e1 e2 g1 g2, spells_char 39%N lo e1 -> spells_char 39%N hi e2 -> gap g1 -> gap g2 ->
     skipn p w = quoted 39%N e1 ++ g1 ++ [46%N; 46%N] ++ g2 ++ quoted 39%N e2 ++ rest ->
     let p1 := p + List.length (quoted 39%N e1) + List.length g1 in
     let p2 := p1 + 2 + List.length g2 in
     lexes w NonAtomic true "range" p sg
       (SMatch (p2 + List.length (quoted 39%N e2)) sg
          [Node (mid MRange) None p (p2 + List.length (quoted 39%N e2))
             [char_node p e1; Node (mid MRangeOperator) None p1 (p1 + 2) []; char_node p2 e2]])).

Theorem C07_lexical : C07_lexical_statement.
Proof.
  intros w p sg rest.
  split; [intros a em ds; apply lex_number|]. split; [intros a em z l; apply lex_integer|].
  split; [intros a em n; apply lex_identifier|]. split; [intros a em t; apply lex_tag_id|].
  split; [intros em g; apply gap_lex|]. split; [intros em esc; apply escape_lex|].
  split; [intros a cs ew; apply lex_string|]. split; [intros a c e; apply lex_character|].
  split; [intros cs ew g; apply lex_insens|]. intros lo hi e1 e2 g1 g2. apply lex_range.
Qed.

Theorem C07_reduction : C07_tokenisation_statement -> C07_statement.
Proof. intros T extras G text S. apply (reduction extras G text); [intros cg P V F; exact (T extras cg text P V F)|exact S]. Qed.

(* ---------------------------------------------------------------------------------------------
   THE TOKENISATION HALF, EXPRESSION LEVEL (coq/Meta/Tok*.v): grammar.pest under Peg.Spec tokenises EVERY spelling
   of every concrete grammar as tokens_of_grammar cg: grammar_rules, grammar_rule (modifiers, braces), grammar_doc /
   line_doc, expression (optional leading bar, infix chain), term (tag, prefix operators, node, postfix operators),
   node (parentheses | terminal), terminal (_push_literal, _push, peek_slice, identifier, string, insensitive_string,
   range, in this order), the counted repetitions in the order exact / min / max / min_max; by induction over the
   printed concrete expression.  Hence the full statement.
   --------------------------------------------------------------------------------------------- *)
Theorem C07_tokenisation : C07_tokenisation_statement.
Proof. exact tokenisation. Qed.

Theorem C07_reader_reconstructs : C07_statement.
Proof. exact (C07_reduction C07_tokenisation). Qed.

(* ---------------------------------------------------------------------------------------------
   THE CODE AS SHIPPED DEVIATES (witnesses replayed on the real code by the harness in every run)
   --------------------------------------------------------------------------------------------- *)
(* D1: a = { ^ "b" } - a blank between the caret and the literal, legal since insensitive_string is not atomic -
       is read as Insens of the two characters (double quote, b): parser.rs unescapes the text of the whole pair and
       slices [2..len-1].  fixes/C07-1 *)
Definition C07_insens_space_refuted_statement : Prop :=
  exists G text, spells_grammar false G text /\
    read shipped false text 200 = COk [ {| rname := nm "a"; rty := RNormal; rexpr := EInsens (nm """b") |} ] /\
    ~ reads shipped false text G /\ reads repaired false text G.
Theorem C07_insens_space_refuted : C07_insens_space_refuted_statement.
Proof. exists (abs_grammar (one_rule w1_body)), w1_text. exact insens_space_witness. Qed.

(* D2: `a = { (| b | c) }` - a leading `|` in a nested expression, legal since expression = { choice_operator? ~ .. } -
       panics: only consume_rules_with_spans skips it, the PrattParser gets an infix operator first.  fixes/C07-2 *)
Definition C07_nested_leading_bar_refuted_statement : Prop :=
  exists G text, spells_grammar false G text /\ read shipped false text 200 = CPanic /\
    ~ reads shipped false text G /\ reads repaired false text G.
Theorem C07_nested_leading_bar_refuted : C07_nested_leading_bar_refuted_statement.
Proof. exists (abs_grammar (one_rule w2_body)), w2_text. exact nested_leading_bar_witness. Qed.

Theorem C07_shipped_refuted : ~ C07_shipped_statement.
Proof.
  intros H. destruct insens_space_witness as (S & _ & N & _). exact (N (H false _ _ S)).
Qed.

(* ---------------------------------------------------------------------------------------------
   Non-vacuity: the reader (Spec run of grammar.pest + consume) on concrete texts
   --------------------------------------------------------------------------------------------- *)
Local Open Scope string_scope.
Example C07_ex_precedence :
  read repaired false (nm "a = { b | c ~ d ~ !e* | (f | g) ~ h }") 300 =
  COk [ {| rname := nm "a"; rty := RNormal;
           rexpr := EChoice (EChoice (EIdent (nm "b"))
                                     (ESeq (ESeq (EIdent (nm "c")) (EIdent (nm "d"))) (ENegPred (ERep (EIdent (nm "e"))))))
                            (ESeq (EChoice (EIdent (nm "f")) (EIdent (nm "g"))) (EIdent (nm "h"))) |} ].
Proof. vm_compute. reflexivity. Qed.

Example C07_ex_lexemes :
  read repaired true (nm "//! top
/// doc
r = _{ /* c /* nested */ */ ""\x41\u{e9}\n"" ~ '\''..'z' ~ PEEK[-01..] ~ x{002,3} // line
  ~ ^ ""q"" ~ #t = (| PUSH_LITERAL(""l"")) }") 500 =
  COk [ {| rname := nm "r"; rty := RSilent;
           rexpr := ESeq (ESeq (ESeq (ESeq (ESeq (EStr [65; 195; 169; 10]%N) (ERange 39 122)) (EPeekSlice (-1)%Z None))
                                     (ERepMinMax (EIdent (nm "x")) 2 3)) (EInsens (nm "q")))
                         (ENodeTag (EPushLiteral (nm "l")) (nm "t")) |} ].
Proof. vm_compute. reflexivity. Qed.

Example C07_ex_min_parens :
  min_parens decode_all (ESeq (EIdent (nm "a")) (ESeq (EIdent (nm "b")) (EChoice (EIdent (nm "c")) (ENegPred (EOpt (ENegPred (EIdent (nm "d"))))))))
  = CSeq (CIdent (nm "a")) (CParen false (CSeq (CIdent (nm "b")) (CParen false (CChoice (CIdent (nm "c"))
         (CNeg (COpt (CParen false (CNeg (CIdent (nm "d")))))))))).
Proof. vm_compute. reflexivity. Qed.

Example C07_ex_errors :
  read repaired false (nm "a = { b{0} }") 200 = CErr EZeroRepeat 8 9 /\
  read repaired false (nm "a = { b{4294967296} }") 200 = CErr ENumOverflow 8 18 /\
  read repaired false (nm "a = { ""\u{D800}"" }") 200 = CPanic /\
  read repaired false (nm "a = { PEEK[99999999999..] }") 200 = CPanic /\
  read repaired false (nm "a = { PUSH_LITERAL(""x"") }") 200 = CErr EPushLiteralFeature 6 23 /\
  read repaired false (nm "a = { b ") 200 = CErr ESyntax 0 0.
Proof. vm_compute. repeat split. Qed.

Print Assumptions C07_partial.
Print Assumptions C07_lexical.
Print Assumptions C07_reduction.
Print Assumptions C07_tokenisation.
Print Assumptions C07_reader_reconstructs.
Print Assumptions C07_insens_space_refuted.
Print Assumptions C07_nested_leading_bar_refuted.
Print Assumptions C07_shipped_refuted.
