(* Layer C proofs, part 1: the frame invariant of `exec`.
   For every program, every well-formed state and every fuel:
     - input, lookahead, atomicity, limit, the detail switch are preserved (both outcomes);
     - the call counter, the position and max_position never decrease, pos <= |input|;
     - the token queue only grows, and earlier tokens change at most in their tag;
     - the snapshot structure of the stack (ghost naive model of C11) is preserved;
     - no internal panic (Vec index, splice, drain, usize underflow, unreachable!) ever happens. *)
From Coq Require Import List Arith NArith ZArith Bool Lia.
Import ListNotations.
Require Import PV.Stack.Model PV.Stack.Proofs PV.Comb.PState PV.Comb.Bytes PV.Comb.Prog PV.Comb.Exec.

Arguments Nat.sub : simpl never.
Arguments Nat.ltb : simpl never.
Arguments Nat.leb : simpl never.
Arguments Nat.eqb : simpl never.
Arguments skipn : simpl never.
Arguments firstn : simpl never.

Definition untag (t : qtoken) : qtoken :=
  match t with QEnd s r _ p => QEnd s r None p | x => x end.
Definition untagq (q : list qtoken) := map untag q.

Notation sspec := (spec (list byte)).

Record frame (s s' : pst) : Prop := {
  f_input : input s' = input s;
  f_la : lookahead s' = lookahead s;
  f_at : atomicity s' = atomicity s;
  f_lim : limit s' = limit s;
  f_en : pa_enabled s' = pa_enabled s;
  f_calls : calls s <= calls s';
  f_pos : pos s <= pos s';
  f_mp : max_position s <= max_position s';
  f_cs : max_position s' = max_position s -> length (call_stacks s) <= length (call_stacks s');
  f_queue : exists new, untagq (queue s') = new ++ untagq (queue s)
}.

Definition wf (s : pst) : Prop := pos s <= length (input s).

Definition post (s : pst) (a : sspec) (r : res) : Prop :=
  match r with
  | ROk s' | RErr s' => frame s s' /\ wf s' /\ exists a', Inv (stack s') a' /\ snaps a' = snaps a
  | RPanic k => k <> PkInternal
  | ROutOfFuel => True
  end.

Lemma frame_refl s : frame s s.
Proof. split; auto. exists []; reflexivity. Qed.

Lemma frame_trans s1 s2 s3 : frame s1 s2 -> frame s2 s3 -> frame s1 s3.
Proof.
  intros [a1 a2 a3 a4 a5 a6 a7 a8 a9 [n1 E1]] [b1 b2 b3 b4 b5 b6 b7 b8 b9 [n2 E2]].
  split; try congruence; try lia.
  exists (n2 ++ n1). rewrite E2, E1, app_assoc. reflexivity.
Qed.

(* ---------- small facts about the byte primitives ---------- *)
Lemma prefixb_length a b : prefixb a b = true -> length a <= length b.
Proof.
  revert b; induction a as [|x a IH]; intros [|y b]; cbn; intros H; try lia; try discriminate.
  apply andb_true_iff in H. destruct H as [_ H]. apply IH in H. lia.
Qed.

Lemma skipn_length_le {A} n (l : list A) : n <= length l -> length (skipn n l) = length l - n.
Proof. intros. rewrite skipn_length. reflexivity. Qed.

Lemma decode1_length l c n : decode1 l = Some (c, n) -> 1 <= n <= length l.
Proof.
  unfold decode1. destruct l as [|b0 r]; [discriminate|].
  destruct (b0 <? 128)%N; [intros [= <- <-]; cbn; lia|].
  destruct (b0 <? 192)%N; [discriminate|].
  destruct (b0 <? 224)%N. { destruct r as [|b1 r]; [discriminate|]. intros [= <- <-]; cbn; lia. }
  destruct (b0 <? 240)%N. { destruct r as [|b1 [|b2 r]]; try discriminate. intros [= <- <-]; cbn; lia. }
  destruct r as [|b1 [|b2 [|b3 r]]]; try discriminate. intros [= <- <-]; cbn; lia.
Qed.

Lemma skip_len_le l n k : skip_len l n = Some k -> k <= length l.
Proof.
  revert l k; induction n as [|n IH]; intros l k; cbn [skip_len].
  - intros [= <-]. lia.
  - destruct (decode1 l) as [[c m]|] eqn:D; [|discriminate].
    destruct (skip_len (skipn m l) n) as [t|] eqn:S1; [|discriminate]. intros [= <-].
    apply decode1_length in D. apply IH in S1. rewrite skipn_length in S1. lia.
Qed.

Definition moved_ok (inp : list byte) (p : nat) (r : pres) : Prop :=
  match r with PMoved p' => p <= p' <= length inp | _ => True end.

Lemma match_string_ok inp p s : p <= length inp -> moved_ok inp p (match_string inp p s).
Proof.
  intros H. unfold match_string. destruct (prefixb s (skipn p inp)) eqn:E; cbn; auto.
  apply prefixb_length in E. rewrite skipn_length in E. lia.
Qed.

Lemma prefixb_ci_length a b : prefixb_ci a b = true -> length a <= length b.
Proof.
  revert b; induction a as [|x a IH]; intros [|y b]; cbn; intros H; try lia; try discriminate.
  apply andb_true_iff in H. destruct H as [_ H]. apply IH in H. lia.
Qed.

Lemma match_insensitive_ok inp p s : p <= length inp -> moved_ok inp p (match_insensitive inp p s).
Proof.
  intros H. unfold match_insensitive. destruct (boundaryb inp p); cbn; auto.
  destruct (boundaryb inp (p + length s) && prefixb_ci s (skipn p inp)) eqn:E; cbn; auto.
  apply andb_true_iff in E. destruct E as [_ E]. apply prefixb_ci_length in E. rewrite skipn_length in E. lia.
Qed.

Lemma char_at_ok inp p c n : p <= length inp -> char_at inp p = Some (Some (c, n)) -> p <= p + n <= length inp.
Proof.
  unfold char_at. intros H. destruct (boundaryb inp p); [|discriminate]. intros [= E].
  apply decode1_length in E. rewrite skipn_length in E. lia.
Qed.

Lemma match_range_ok inp p lo hi : p <= length inp -> moved_ok inp p (match_range inp p lo hi).
Proof.
  intros H. unfold match_range. destruct (char_at inp p) as [[[c n]|]|] eqn:E; cbn; auto.
  destruct (_ && _); cbn; auto. eapply char_at_ok; eauto.
Qed.

Lemma match_char_by_ok inp p rs : p <= length inp -> moved_ok inp p (match_char_by inp p rs).
Proof.
  intros H. unfold match_char_by. destruct (char_at inp p) as [[[c n]|]|] eqn:E; cbn; auto.
  destruct (in_ranges rs c); cbn; auto. eapply char_at_ok; eauto.
Qed.

Lemma skip_ok inp p n : p <= length inp -> moved_ok inp p (skip inp p n).
Proof.
  intros H. unfold skip. destruct (boundaryb inp p); cbn; auto.
  destruct (skip_len (skipn p inp) n) as [k|] eqn:E; cbn; auto.
  apply skip_len_le in E. rewrite skipn_length in E. lia.
Qed.

Lemma skip_until_basic_from_ok inp ss from count :
  from + count = length inp -> from <= skip_until_basic_from inp ss from count <= length inp.
Proof.
  revert from; induction count as [|c IH]; intros from H; cbn [skip_until_basic_from]; [lia|].
  destruct (_ && _); [lia|]. specialize (IH (S from)). lia.
Qed.

Lemma skip_until_basic_ok inp p ss : p <= length inp -> p <= skip_until_basic inp p ss <= length inp.
Proof. intros H. unfold skip_until_basic. apply skip_until_basic_from_ok. lia. Qed.

Lemma memmem_from_ok inp needle from count f :
  from + count = length inp -> memmem_from inp needle from count = Some f -> from <= f <= length inp.
Proof.
  revert from; induction count as [|c IH]; intros from H; cbn [memmem_from].
  - destruct (prefixb _ _); [|discriminate]. intros [= <-]. lia.
  - destruct (prefixb _ _); [intros [= <-]; lia|]. intros E. apply IH in E; lia.
Qed.

Lemma memchr_scan_ok inp firsts ss from count f :
  from + count = length inp -> memchr_scan inp firsts ss from count = Some (Some f) -> from <= f <= length inp.
Proof.
  revert from; induction count as [|c IH]; intros from H; cbn [memchr_scan]; [discriminate|].
  destruct (existsb (N.eqb (nth from inp 0%N)) firsts).
  - destruct (boundaryb inp from); [|discriminate].
    destruct (existsb (fun s => prefixb s (skipn from inp)) ss); [intros [= <-]; lia|]. intros E. apply IH in E; lia.
  - intros E. apply IH in E; lia.
Qed.

Lemma skip_until_ok cfg inp p ss f : p <= length inp -> skip_until cfg inp p ss = Some f -> p <= f <= length inp.
Proof.
  intros H. unfold skip_until. destruct (memchr cfg); [|intros [= <-]; now apply skip_until_basic_ok].
  unfold skip_until_memchr.
  assert (B : forall x, Some (skip_until_basic inp p ss) = Some x -> p <= x <= length inp)
    by (intros x [= <-]; now apply skip_until_basic_ok).
  destruct ss as [|s1 [|s2 [|s3 [|s4 r]]]]; auto.
  - intros [= <-]; lia.
  - destruct (memmem_from _ _ _ _) eqn:E; intros [= <-]; [|lia]. eapply memmem_from_ok in E; lia.
  - destruct (_ && _); auto. destruct (memchr_scan _ _ _ _ _) as [[x|]|] eqn:E; intros [= <-]; [|lia].
    eapply memchr_scan_ok in E; lia.
  - destruct (_ && _); auto. destruct (memchr_scan _ _ _ _ _) as [[x|]|] eqn:E; intros [= <-]; [|lia].
    eapply memchr_scan_ok in E; lia.
Qed.

(* ---------- parse-attempts bookkeeping touches only its own four fields ---------- *)
Record same_core (s s' : pst) : Prop := {
  c_input : input s' = input s; c_pos : pos s' = pos s; c_queue : queue s' = queue s;
  c_la : lookahead s' = lookahead s; c_pa : pos_attempts s' = pos_attempts s; c_na : neg_attempts s' = neg_attempts s;
  c_ap : attempt_pos s' = attempt_pos s; c_at : atomicity s' = atomicity s; c_stack : stack s' = stack s;
  c_calls : calls s' = calls s; c_lim : limit s' = limit s; c_en : pa_enabled s' = pa_enabled s
}.
Definition pa_mono (s s' : pst) : Prop :=
  max_position s <= max_position s' /\
  (max_position s' = max_position s -> length (call_stacks s) <= length (call_stacks s')).

Lemma same_core_refl s : same_core s s. Proof. split; reflexivity. Qed.
Lemma pa_mono_refl s : pa_mono s s. Proof. split; auto. Qed.

Lemma same_core_frame s s' : same_core s s' -> pa_mono s s' -> frame s s'.
Proof.
  intros [] [M1 M2]. split; try congruence; try lia; auto.
  exists []. cbn. congruence.
Qed.

Lemma push_token_core s t neg : same_core s (push_token s t neg) /\ max_position (push_token s t neg) = max_position s
  /\ call_stacks (push_token s t neg) = call_stacks s.
Proof. unfold push_token. destruct neg; (split; [split; reflexivity|split; reflexivity]). Qed.

Lemma try_add_new_token_core s t sp p neg :
  same_core s (try_add_new_token s t sp p neg) /\ pa_mono s (try_add_new_token s t sp p neg).
Proof.
  unfold try_add_new_token.
  destruct (Nat.ltb (max_position s) p) eqn:L.
  - destruct (neg && Nat.ltb (max_position s) sp); [split; [apply same_core_refl|apply pa_mono_refl]|].
    destruct (push_token_core s t neg) as [C [M K]].
    destruct neg.
    + split; auto. split; [lia|]. intros _. rewrite K. lia.
    + apply Nat.ltb_lt in L. destruct C. split; [split; cbn; auto|]. split; cbn; lia.
  - destruct (Nat.eqb p (max_position s)); [|split; [apply same_core_refl|apply pa_mono_refl]].
    destruct (push_token_core s t neg) as [C [M K]]. destruct C.
    split; [split; cbn; auto|]. split; cbn; [lia|]. rewrite K. lia.
Qed.

Lemma handle_token_core s sp t ok :
  same_core s (handle_token_parse_result s sp t ok) /\ pa_mono s (handle_token_parse_result s sp t ok).
Proof.
  unfold handle_token_parse_result. destruct ok.
  - destruct (lk_eqb (lookahead s) LNeg); [apply try_add_new_token_core|].
    destruct (Nat.ltb (max_position s) (pos s)) eqn:L; [|split; [apply same_core_refl|apply pa_mono_refl]].
    apply Nat.ltb_lt in L. split; [split; reflexivity|]. split; cbn; lia.
  - destruct (negb (lk_eqb (lookahead s) LNeg)); [apply try_add_new_token_core|].
    split; [apply same_core_refl|apply pa_mono_refl].
Qed.

(* ---------- post-condition helpers ---------- *)
Lemma post_ok_same s a s' : frame s s' -> wf s' -> stack s' = stack s -> Inv (stack s) a -> post s a (ROk s').
Proof. intros F W E I. cbn. split; [auto|split; [auto|exists a; rewrite E; auto]]. Qed.
Lemma post_err_same s a s' : frame s s' -> wf s' -> stack s' = stack s -> Inv (stack s) a -> post s a (RErr s').
Proof. intros F W E I. cbn. split; [auto|split; [auto|exists a; rewrite E; auto]]. Qed.

Lemma frame_set_pos s p : pos s <= p -> frame s (set_pos s p).
Proof. intros. split; cbn; auto. exists []; reflexivity. Qed.

Lemma apply_pres_post s a r t :
  wf s -> Inv (stack s) a -> moved_ok (input s) (pos s) r -> post s a (apply_pres s r t).
Proof.
  intros W I M. unfold apply_pres. destruct r as [p| |]; cbn in M.
  - assert (F0 : frame s (set_pos s p)) by (apply frame_set_pos; lia).
    destruct t as [tk|]; [destruct (pa_enabled s)|].
    + destruct (handle_token_core (set_pos s p) (pos s) tk true) as [C P].
      apply post_ok_same; auto.
      * eapply frame_trans; [exact F0|]. now apply same_core_frame.
      * unfold wf. destruct C. rewrite c_pos0, c_input0. cbn. lia.
      * destruct C. rewrite c_stack0. reflexivity.
    + apply post_ok_same; auto. unfold wf; cbn; lia.
    + apply post_ok_same; auto. unfold wf; cbn; lia.
  - destruct t as [tk|]; [destruct (pa_enabled s)|].
    + destruct (handle_token_core s (pos s) tk false) as [C P].
      apply post_err_same; auto.
      * now apply same_core_frame.
      * unfold wf. destruct C. rewrite c_pos0, c_input0. exact W.
      * destruct C. auto.
    + apply post_err_same; auto. apply frame_refl.
    + apply post_err_same; auto. apply frame_refl.
  - discriminate.
Qed.

Lemma st_match_string_post s a str : wf s -> Inv (stack s) a -> post s a (st_match_string s str).
Proof. intros W I. unfold st_match_string. apply apply_pres_post; auto. now apply match_string_ok. Qed.

Lemma post_trans s a s1 a1 r :
  frame s s1 -> snaps a1 = snaps a -> post s1 a1 r -> post s a r.
Proof.
  intros F E P. destruct r as [s'|s'|k|]; cbn in *; auto.
  - destruct P as (F' & W & a' & I & S). split; [eapply frame_trans; eauto|]. split; auto. exists a'. split; auto. congruence.
  - destruct P as (F' & W & a' & I & S). split; [eapply frame_trans; eauto|]. split; auto. exists a'. split; auto. congruence.
Qed.

Lemma frame_set_stack s st : frame s (set_stack s st).
Proof. split; cbn; auto. exists []; reflexivity. Qed.

Lemma spop_snaps (a : sspec) : snaps (fst (spop a)) = snaps a.
Proof. unfold spop. destruct (cur a); reflexivity. Qed.

Lemma match_all_ok inp p l p' : p <= length inp -> match_all inp p l = Some p' -> p <= p' <= length inp.
Proof.
  revert p; induction l as [|x l IH]; intros p H; cbn [match_all].
  - intros [= <-]. lia.
  - pose proof (match_string_ok inp p x H) as M. destruct (match_string inp p x) as [q| |]; try discriminate.
    cbn in M. intros E. apply IH in E; lia.
Qed.

Lemma match_pop_loop_ok fuel inp st p a st' p' b :
  p <= length inp -> Inv st a -> match_pop_loop fuel inp st p = Some (st', p', b) ->
  p <= p' <= length inp /\ exists a', Inv st' a' /\ snaps a' = snaps a.
Proof.
  revert st p a; induction fuel as [|f IH]; intros st p a H I; cbn [match_pop_loop].
  - intros [= <- <- <-]. split; [lia|]. exists a; auto.
  - destruct (inv_pop I) as [I1 O1]. destruct (pop st) as [st1 o] eqn:Ep. cbn in I1, O1.
    destruct o as [x|].
    + pose proof (match_string_ok inp p x H) as M. destruct (match_string inp p x) as [q| |].
      * cbn in M. intros E. assert (Hq : q <= length inp) by lia. apply (IH _ _ _ Hq I1) in E. destruct E as [E1 (a' & E2 & E3)].
        split; [lia|]. exists a'. split; auto. rewrite E3. apply spop_snaps.
      * intros [= <- <- <-]. split; [lia|]. eexists; split; [exact I1|apply spop_snaps].
      * intros [= <- <- <-]. split; [lia|]. eexists; split; [exact I1|apply spop_snaps].
    + intros [= <- <- <-]. split; [lia|]. eexists; split; [exact I1|apply spop_snaps].
Qed.

Lemma match_pop_loop_some f inp (st : stk (list byte)) p : match_pop_loop f inp st p <> None.
Proof.
  revert st p; induction f as [|f IH]; intros st p; cbn [match_pop_loop]; [discriminate|].
  destruct (pop st) as [st1 [x|]]; [|discriminate]. destruct (match_string inp p x); try discriminate. apply IH.
Qed.

Lemma untag_idem_head si r t t' p q : untagq (QEnd si r t p :: q) = untagq (QEnd si r t' p :: q).
Proof. reflexivity. Qed.

Lemma exec_prim_post cfg o s a : wf s -> Inv (stack s) a -> post s a (exec_prim cfg o s).
Proof.
  intros W I. destruct o; cbn [exec_prim].
  - apply post_ok_same; auto. apply frame_refl.
  - apply post_err_same; auto. apply frame_refl.
  - now apply st_match_string_post.
  - apply apply_pres_post; auto. now apply match_insensitive_ok.
  - apply apply_pres_post; auto. now apply match_range_ok.
  - apply apply_pres_post; auto. now apply match_char_by_ok.
  - apply apply_pres_post; auto. now apply skip_ok.
  - destruct (skip_until cfg (input s) (pos s) ss) as [p|] eqn:E; [|cbn; discriminate].
    apply skip_until_ok in E; [|exact W]. apply post_ok_same; auto; [apply frame_set_pos; lia|unfold wf; cbn; lia].
  - destruct (Nat.eqb (pos s) 0); [apply post_ok_same|apply post_err_same]; auto; apply frame_refl.
  - destruct (Nat.eqb (pos s) (length (input s))); [apply post_ok_same|apply post_err_same]; auto; apply frame_refl.
  - cbn. split; [apply frame_set_stack|]. split; [exact W|]. exists (spush a s0). split; [now apply inv_push|reflexivity].
  - rewrite (inv_peek I). destruct (speek a) as [str|] eqn:E; [|cbn; discriminate]. now apply st_match_string_post.
  - destruct (inv_pop I) as [I1 O1]. destruct (pop (stack s)) as [st1 o] eqn:Ep. cbn in I1, O1.
    destruct o as [str|]; [|cbn; discriminate].
    eapply post_trans with (s1 := set_stack s st1) (a1 := fst (spop a)); [apply frame_set_stack|apply spop_snaps|].
    apply st_match_string_post; [exact W|exact I1].
  - destruct (inv_pop I) as [I1 O1]. destruct (pop (stack s)) as [st1 o] eqn:Ep. cbn in I1, O1.
    destruct o as [str|].
    + cbn. split; [apply frame_set_stack|]. split; [exact W|]. exists (fst (spop a)). split; [exact I1|apply spop_snaps].
    + apply post_err_same; auto. apply frame_refl.
  - unfold peek_slice. destruct (constrain_idxs _ _ _) as [[x y]|]; [|apply post_err_same; auto; apply frame_refl].
    destruct (Nat.leb y x); [apply post_ok_same; auto; apply frame_refl|].
    destruct (match_all _ _ _) as [p|] eqn:E; [|apply post_err_same; auto; apply frame_refl].
    apply match_all_ok in E; [|exact W]. apply post_ok_same; auto; [apply frame_set_pos; lia|unfold wf; cbn; lia].
  - destruct (match_pop_loop _ _ _ _) as [[[st' p] b]|] eqn:E.
    + eapply match_pop_loop_ok in E; eauto. destruct E as [E1 (a' & E2 & E3)].
      destruct b; cbn.
      * split; [eapply frame_trans; [apply frame_set_stack|apply frame_set_pos; cbn; lia]|].
        split; [unfold wf; cbn; lia|]. exists a'; auto.
      * split; [apply frame_set_stack|]. split; [exact W|]. exists a'; auto.
    + exfalso. revert E. apply match_pop_loop_some.
  - unfold peek_slice. destruct (constrain_idxs _ _ _) as [[x y]|]; [|apply post_err_same; auto; apply frame_refl].
    destruct (Nat.leb y x); [apply post_ok_same; auto; apply frame_refl|].
    destruct (match_all _ _ _) as [p|] eqn:E; [|apply post_err_same; auto; apply frame_refl].
    apply match_all_ok in E; [|exact W]. apply post_ok_same; auto; [apply frame_set_pos; lia|unfold wf; cbn; lia].
  - destruct (negb (lk_eqb (lookahead s) LNone)); [apply post_ok_same; auto; apply frame_refl|].
    destruct (queue s) as [|[e p|si r tg p] q] eqn:Q; try (apply post_ok_same; auto; apply frame_refl).
    apply post_ok_same; auto. split; cbn; auto. exists []. rewrite Q. reflexivity.
Qed.

(* ---------- helpers for the combinators ---------- *)
Lemma inc_call_frame s s1 : inc_call s = Some s1 ->
  frame s s1 /\ stack s1 = stack s /\ pos s1 = pos s /\ queue s1 = queue s /\ input s1 = input s
  /\ call_stacks s1 = call_stacks s /\ max_position s1 = max_position s.
Proof.
  unfold inc_call. destruct (limit_reached s); [discriminate|].
  destruct (limit s); intros [= <-]; cbn; repeat split; cbn; auto; try lia; try (exists []; reflexivity).
Qed.

Lemma post_okerr s a s' : post s a (RErr s') -> post s a (ROk s').
Proof. auto. Qed.
Lemma post_errok s a s' : post s a (ROk s') -> post s a (RErr s').
Proof. auto. Qed.

Lemma untagq_length q : length (untagq q) = length q.
Proof. apply map_length. Qed.

Lemma vtruncate_app {A} (l1 l2 : list A) n : length l2 = n -> vtruncate n (l1 ++ l2) = l2.
Proof.
  intros <-. unfold vtruncate. rewrite app_length.
  destruct (Nat.ltb (length l2) (length l1 + length l2)) eqn:L.
  - replace (length l1 + length l2 - length l2) with (length l1 + 0) by lia.
    rewrite skipn_app. rewrite Nat.add_0_r, skipn_all. replace (length l1 - length l1) with 0 by lia. reflexivity.
  - apply Nat.ltb_ge in L. destruct l1; [reflexivity|cbn in L; lia].
Qed.

Lemma untagq_vtruncate n q : untagq (vtruncate n q) = vtruncate n (untagq q).
Proof.
  unfold vtruncate. rewrite untagq_length. destruct (Nat.ltb n (length q)); [|reflexivity].
  unfold untagq. now rewrite skipn_map.
Qed.

Lemma untagq_truncate_back q0 q n new : untagq q = new ++ untagq q0 -> n = length q0 ->
  untagq (vtruncate n q) = untagq q0.
Proof. intros E ->. rewrite untagq_vtruncate, E. apply vtruncate_app. apply untagq_length. Qed.

(* track only touches the three attempt fields *)
Record same_but_attempts (s s' : pst) : Prop := {
  t_input : input s' = input s; t_pos : pos s' = pos s; t_queue : queue s' = queue s;
  t_la : lookahead s' = lookahead s; t_at : atomicity s' = atomicity s; t_stack : stack s' = stack s;
  t_calls : calls s' = calls s; t_lim : limit s' = limit s; t_en : pa_enabled s' = pa_enabled s;
  t_cs : call_stacks s' = call_stacks s; t_mp : max_position s' = max_position s;
  t_ex : expected s' = expected s; t_un : unexpected s' = unexpected s
}.
Lemma track_same s r p pai nai prev : same_but_attempts s (track s r p pai nai prev).
Proof.
  unfold track. destruct (atom_eqb _ _); [split; reflexivity|].
  destruct (_ && _); [split; reflexivity|].
  destruct (Nat.eqb p (attempt_pos s)); cbn.
  - match goal with |- context [Nat.ltb ?a ?b] => destruct (Nat.ltb a b) end; cbn;
    match goal with |- context [Nat.eqb ?a ?b] => destruct (Nat.eqb a b) end; cbn;
    try (match goal with |- context [negb ?x] => destruct x end); cbn; split; reflexivity.
  - match goal with |- context [Nat.ltb ?a ?b] => destruct (Nat.ltb a b) end; cbn;
    match goal with |- context [Nat.eqb ?a ?b] => destruct (Nat.eqb a b) end; cbn;
    try (match goal with |- context [negb ?x] => destruct x end); cbn; split; reflexivity.
Qed.

Lemma try_add_new_stack_rule_ok s r k : k <= length (call_stacks s) ->
  exists s', try_add_new_stack_rule s r k = Some s' /\ same_core s s' /\ max_position s' = max_position s
             /\ k <= length (call_stacks s').
Proof.
  intros H. unfold try_add_new_stack_rule.
  destruct (Nat.ltb (length (call_stacks s)) k) eqn:L; [apply Nat.ltb_lt in L; lia|].
  set (tail := firstn (length (call_stacks s) - k) (call_stacks s)).
  set (keep := skipn (length (call_stacks s) - k) (call_stacks s)).
  assert (K : length keep = k) by (unfold keep; rewrite skipn_length; lia).
  match goal with |- context [Nat.leb _ (length ?x)] => set (nt := x) end.
  destruct (Nat.leb CALL_STACK_CHILDREN_THRESHOLD (length nt)).
  - eexists. split; [reflexivity|]. split; [split; reflexivity|]. split; [reflexivity|]. cbn. lia.
  - eexists. split; [reflexivity|]. split; [split; reflexivity|]. split; [reflexivity|]. cbn.
    rewrite app_length. lia.
Qed.

Lemma untag_start x e p : untag x = QStart e p -> x = QStart e p.
Proof. destruct x; cbn; congruence. Qed.

Lemma set_start_end_ok q new e p old ni :
  untagq q = new ++ QStart e p :: old ->
  exists q', set_start_end q (length old) ni = Some q' /\ untagq q' = new ++ QStart ni p :: old /\ length q' = length q.
Proof.
  intros H. unfold untagq in H. apply map_eq_app in H. destruct H as (qn & r & -> & Hn & Hr).
  apply map_eq_cons in Hr. destruct Hr as (x & qo & -> & Hx & Ho). apply untag_start in Hx. subst x.
  unfold set_start_end. rewrite app_length. cbn [length].
  assert (Lo : length old = length qo) by (rewrite <- Ho; apply map_length).
  rewrite Lo.
  destruct (Nat.ltb (length qo) (length qn + S (length qo))) eqn:L; [|apply Nat.ltb_ge in L; lia].
  replace (length qn + S (length qo) - 1 - length qo) with (length qn) by lia.
  rewrite nth_error_app2 by lia. rewrite Nat.sub_diag. cbn [nth_error].
  eexists. split; [reflexivity|]. split.
  - rewrite firstn_app, firstn_all, Nat.sub_diag. cbn [firstn]. rewrite app_nil_r.
    replace (S (length qn)) with (length qn + 1) by lia. rewrite skipn_app.
    rewrite skipn_all2 by lia. replace (length qn + 1 - length qn) with 1 by lia. cbn [app].
    unfold untagq. rewrite map_app. cbn [map untag]. rewrite Hn. f_equal. f_equal.
    change (skipn 1 (QStart e p :: qo)) with qo. exact Ho.
  - rewrite firstn_app, firstn_all, Nat.sub_diag. cbn [firstn]. rewrite app_nil_r.
    rewrite !app_length. cbn [length]. rewrite skipn_length, app_length. cbn [length]. lia.
Qed.

(* ---------- rule() ---------- *)
Record same_but_queue (s s' : pst) : Prop := {
  q_input : input s' = input s; q_pos : pos s' = pos s;
  q_la : lookahead s' = lookahead s; q_at : atomicity s' = atomicity s; q_stack : stack s' = stack s;
  q_calls : calls s' = calls s; q_lim : limit s' = limit s; q_en : pa_enabled s' = pa_enabled s;
  q_cs : call_stacks s' = call_stacks s; q_mp : max_position s' = max_position s;
  q_pa : pos_attempts s' = pos_attempts s; q_na : neg_attempts s' = neg_attempts s; q_ap : attempt_pos s' = attempt_pos s
}.

Lemma rule_enter_spec s1 :
  let fr := fst (rule_enter s1) in let s2 := snd (rule_enter s1) in
  rf_pos fr = pos s1 /\ rf_index fr = length (queue s1) /\ rf_csn fr = length (call_stacks s1) /\ rf_max fr = max_position s1 /\
  queue s2 = (if emits s1 then QStart 0 (pos s1) :: queue s1 else queue s1) /\ same_but_queue s1 s2.
Proof.
  unfold rule_enter. destruct (Nat.eqb (pos s1) (attempt_pos s1)); destruct (emits s1); cbn;
    repeat split; reflexivity.
Qed.

Lemma emits_frame s s' : lookahead s' = lookahead s -> atomicity s' = atomicity s -> emits s' = emits s.
Proof. unfold emits. intros -> ->. reflexivity. Qed.

Lemma frame_rule_enter s1 : frame s1 (snd (rule_enter s1)).
Proof.
  destruct (rule_enter_spec s1) as (_ & _ & _ & _ & Q & []).
  split; try congruence; try lia.
  - intros _. rewrite q_cs0. lia.
  - rewrite Q. destruct (emits s1); [exists [QStart 0 (pos s1)]|exists []]; reflexivity.
Qed.

Lemma csn_ok s2 s' (fr_csn fr_max : nat) :
  frame s2 s' -> fr_csn = length (call_stacks s2) -> fr_max = max_position s2 ->
  (if Nat.ltb fr_max (max_position s') then 0 else fr_csn) <= length (call_stacks s').
Proof.
  intros F -> ->. destruct (Nat.ltb (max_position s2) (max_position s')) eqn:L; [lia|].
  apply Nat.ltb_ge in L. destruct F. apply f_cs0. lia.
Qed.

Lemma try_add_rule_to_stack_ok s r csn mx : 
  (if Nat.ltb mx (max_position s) then 0 else csn) <= length (call_stacks s) ->
  exists s3, try_add_rule_to_stack s r csn mx = Some s3 /\ same_core s s3 /\ max_position s3 = max_position s /\
    ((if Nat.ltb mx (max_position s) then 0 else csn) <= length (call_stacks s3)).
Proof.
  intros H. unfold try_add_rule_to_stack. destruct (negb (atom_eqb (atomicity s) Atomic)).
  - apply try_add_new_stack_rule_ok. exact H.
  - exists s. split; [reflexivity|]. split; [apply same_core_refl|]. auto.
Qed.

(* finishing a frame from s1 given the body's frame from s2 = snd (rule_enter s1) *)
Lemma rule_finish_frame s1 s' s3 :
  frame (snd (rule_enter s1)) s' ->
  input s3 = input s' -> lookahead s3 = lookahead s' -> atomicity s3 = atomicity s' -> limit s3 = limit s' ->
  pa_enabled s3 = pa_enabled s' -> calls s3 = calls s' -> pos s3 = pos s' -> max_position s3 = max_position s' ->
  (max_position s' = max_position s1 -> length (call_stacks s1) <= length (call_stacks s3)) ->
  (exists new, untagq (queue s3) = new ++ untagq (queue s1)) ->
  frame s1 s3.
Proof.
  intros F. destruct (rule_enter_spec s1) as (_ & _ & _ & _ & Q & []). destruct F.
  intros. split; try congruence; try lia.
Qed.

Lemma rule_ok_post rule s1 s' a a' :
  wf s' -> frame (snd (rule_enter s1)) s' -> Inv (stack s') a' -> snaps a' = snaps a ->
  post s1 a (rule_ok rule (fst (rule_enter s1)) s').
Proof.
  intros W F I S.
  destruct (rule_enter_spec s1) as (Rp & Ri & Rc & Rm & Q & SQ). destruct SQ.
  set (fr := fst (rule_enter s1)) in *. set (s2 := snd (rule_enter s1)) in *.
  unfold rule_ok.
  set (sa := if lk_eqb (lookahead s') LNeg then track s' rule (rf_pos fr) (rf_pai fr) (rf_nai fr) (rf_attempts fr) else s').
  assert (T : same_but_attempts s' sa).
  { unfold sa. destruct (lk_eqb (lookahead s') LNeg); [apply track_same|split; reflexivity]. }
  destruct T. pose proof F as F0. destruct F0.
  assert (Em : emits sa = emits s1).
  { unfold emits. rewrite t_la0, t_at0, f_la0, f_at0, q_la0, q_at0. reflexivity. }
  rewrite Em.
  assert (CS : (if Nat.ltb (rf_max fr) (max_position s') then 0 else rf_csn fr) <= length (call_stacks s')).
  { apply (csn_ok s2); auto; congruence. }
  destruct (emits s1) eqn:Ee.
  - (* the rule emits its pair *)
    destruct f_queue0 as [new Eq]. rewrite Q in Eq. cbn [untagq map untag] in Eq. fold (untagq (queue s1)) in Eq.
    rewrite <- t_queue0 in Eq.
    destruct (set_start_end_ok (queue sa) new 0 (pos s1) (untagq (queue s1)) (length (queue sa)) Eq) as (q' & E1 & E2 & E3).
    rewrite untagq_length in E1. rewrite Ri, E1.
    set (sb := set_queue sa (QEnd (length (queue s1)) rule None (pos sa) :: q')).
    assert (QB : exists nw, untagq (queue sb) = nw ++ untagq (queue s1)).
    { exists (QEnd (length (queue s1)) rule None (pos sa) :: new ++ [QStart (length (queue sa)) (pos s1)]).
      cbn. fold (untagq q'). rewrite E2. rewrite <- app_assoc. reflexivity. }
    change (pa_enabled sb) with (pa_enabled sa).
    destruct (pa_enabled sa) eqn:En.
    + destruct (try_add_rule_to_stack_ok sb rule (rf_csn fr) (rf_max fr)) as (s3 & E & C & M & K).
      { cbn. rewrite t_mp0, t_cs0. exact CS. }
      rewrite E. cbn. destruct C. unfold sb in *. cbn in *.
      split; [|split; [unfold wf in *; rewrite c_pos0, c_input0; cbn; congruence|exists a'; split; [rewrite c_stack0; cbn; congruence|auto]]].
      apply (rule_finish_frame s1 s' s3 F); cbn in *; try congruence.
      * intros E'. rewrite t_mp0 in K. destruct (Nat.ltb (rf_max fr) (max_position s')) eqn:L.
        { apply Nat.ltb_lt in L. lia. } { lia. }
      * rewrite c_queue0. exact QB.
    + cbn. split; [|split; [unfold wf in *; cbn; congruence|exists a'; split; [cbn; congruence|auto]]].
      apply (rule_finish_frame s1 s' sb F); cbn in *; try congruence.
      intros E'. rewrite t_cs0. destruct (Nat.ltb (rf_max fr) (max_position s')) eqn:L; [apply Nat.ltb_lt in L; lia|lia].
  - (* silent: under look-ahead or in an atomic rule *)
    assert (QB : exists nw, untagq (queue sa) = nw ++ untagq (queue s1)).
    { destruct f_queue0 as [new Eq]. rewrite Q in Eq. exists new. congruence. }
    destruct (pa_enabled sa) eqn:En.
    + destruct (try_add_rule_to_stack_ok sa rule (rf_csn fr) (rf_max fr)) as (s3 & E & C & M & K).
      { rewrite t_mp0, t_cs0. exact CS. }
      rewrite E. cbn. destruct C.
      split; [|split; [unfold wf in *; rewrite c_pos0, c_input0; congruence|exists a'; split; [rewrite c_stack0; congruence|auto]]].
      apply (rule_finish_frame s1 s' s3 F); try congruence.
      * intros E'. rewrite t_mp0 in K. destruct (Nat.ltb (rf_max fr) (max_position s')) eqn:L; [apply Nat.ltb_lt in L; lia|lia].
      * rewrite c_queue0. exact QB.
    + cbn. split; [|split; [unfold wf in *; congruence|exists a'; split; [congruence|auto]]].
      apply (rule_finish_frame s1 s' sa F); try congruence.
      intros E'. rewrite t_cs0. destruct (Nat.ltb (rf_max fr) (max_position s')) eqn:L; [apply Nat.ltb_lt in L; lia|lia].
Qed.

Lemma rule_err_post rule s1 s' a a' :
  wf s' -> frame (snd (rule_enter s1)) s' -> Inv (stack s') a' -> snaps a' = snaps a ->
  post s1 a (rule_err rule (fst (rule_enter s1)) s').
Proof.
  intros W F I S.
  destruct (rule_enter_spec s1) as (Rp & Ri & Rc & Rm & Q & SQ). destruct SQ.
  set (fr := fst (rule_enter s1)) in *. set (s2 := snd (rule_enter s1)) in *.
  unfold rule_err. pose proof F as F0. destruct F0.
  assert (CS : (if Nat.ltb (rf_max fr) (max_position s') then 0 else rf_csn fr) <= length (call_stacks s')).
  { apply (csn_ok s2); auto; congruence. }
  (* the state after the optional tracking step *)
  assert (R1 : exists s3,
     (if negb (lk_eqb (lookahead s') LNeg)
      then let t := track s' rule (rf_pos fr) (rf_pai fr) (rf_nai fr) (rf_attempts fr) in
           if pa_enabled t then try_add_rule_to_stack t rule (rf_csn fr) (rf_max fr) else Some t
      else Some s') = Some s3 /\
     input s3 = input s' /\ pos s3 = pos s' /\ queue s3 = queue s' /\ lookahead s3 = lookahead s' /\
     atomicity s3 = atomicity s' /\ stack s3 = stack s' /\ calls s3 = calls s' /\ limit s3 = limit s' /\
     pa_enabled s3 = pa_enabled s' /\ max_position s3 = max_position s' /\
     (if Nat.ltb (rf_max fr) (max_position s') then 0 else rf_csn fr) <= length (call_stacks s3)).
  { destruct (negb (lk_eqb (lookahead s') LNeg)).
    - cbv zeta. set (t := track s' rule (rf_pos fr) (rf_pai fr) (rf_nai fr) (rf_attempts fr)).
      destruct (track_same s' rule (rf_pos fr) (rf_pai fr) (rf_nai fr) (rf_attempts fr)). fold t in t_input0, t_pos0, t_queue0, t_la0, t_at0, t_stack0, t_calls0, t_lim0, t_en0, t_cs0, t_mp0, t_ex0, t_un0.
      destruct (pa_enabled t) eqn:En.
      + destruct (try_add_rule_to_stack_ok t rule (rf_csn fr) (rf_max fr)) as (s3 & E & C & M & K).
        { rewrite t_mp0, t_cs0. exact CS. }
        exists s3. destruct C. rewrite t_mp0 in K. repeat split; try congruence.
      + exists t. rewrite t_cs0. repeat split; try congruence.
    - exists s'. repeat split; auto. }
  destruct R1 as (s3 & E & H1 & H2 & H3 & H4 & H5 & H6 & H7 & H8 & H9 & H10 & H11).
  cbv zeta in E. rewrite E.
  assert (Em : emits s3 = emits s1).
  { unfold emits. rewrite H4, H5, f_la0, f_at0, q_la0, q_at0. reflexivity. }
  rewrite Em.
  assert (CSF : max_position s' = max_position s1 -> length (call_stacks s1) <= length (call_stacks s3)).
  { intros E'. destruct (Nat.ltb (rf_max fr) (max_position s')) eqn:L; [apply Nat.ltb_lt in L; lia|lia]. }
  destruct (emits s1) eqn:Ee.
  - cbn. split; [|split; [unfold wf in *; cbn; congruence|exists a'; split; [cbn; congruence|auto]]].
    apply (rule_finish_frame s1 s' _ F); cbn; try congruence; try exact CSF.
    exists []. cbn. destruct f_queue0 as [new Eq]. rewrite Q in Eq. cbn [untagq map untag] in Eq. fold (untagq (queue s1)) in Eq.
    rewrite H3. rewrite Ri.
    apply (untagq_truncate_back (queue s1) (queue s') (length (queue s1)) (new ++ [QStart 0 (pos s1)])); auto.
    rewrite Eq, <- app_assoc. reflexivity.
  - cbn. split; [|split; [unfold wf in *; congruence|exists a'; split; [congruence|auto]]].
    apply (rule_finish_frame s1 s' s3 F); try congruence; try exact CSF.
    destruct f_queue0 as [new Eq]. rewrite Q in Eq. exists new. congruence.
Qed.

(* ---------- the frame theorem ---------- *)
Lemma snaps_ssnapshot (a : sspec) : snaps (ssnapshot a) = cur a :: snaps a.
Proof. reflexivity. Qed.

Lemma checkpoint_ok_post s0 a0 s' a' (k : pst -> res) (kk : forall x, k x = ROk x \/ k x = RErr x) :
  frame s0 s' -> wf s' -> Inv (stack s') a' -> snaps a' = cur a0 :: snaps a0 ->
  post s0 a0 (lift k (checkpoint_ok s')).
Proof.
  intros F W I S. unfold checkpoint_ok. destruct (inv_clear I) as (st & E & I2). rewrite E. cbn [option_map lift].
  assert (P : post s0 a0 (ROk (set_stack s' st))).
  { cbn. split; [eapply frame_trans; [exact F|apply frame_set_stack]|]. split; [exact W|].
    exists (sclear a'). split; [exact I2|]. cbn. rewrite S. reflexivity. }
  destruct (kk (set_stack s' st)) as [-> | ->]; exact P.
Qed.

Lemma restore_post s0 a0 s' a' (k : pst -> res) (kk : forall x, k x = ROk x \/ k x = RErr x) :
  frame s0 s' -> wf s' -> Inv (stack s') a' -> snaps a' = cur a0 :: snaps a0 ->
  post s0 a0 (lift k (restore_st s')).
Proof.
  intros F W I S. unfold restore_st. destruct (inv_restore I) as (st & E & I2). rewrite E. cbn [option_map lift].
  assert (P : post s0 a0 (ROk (set_stack s' st))).
  { cbn. split; [eapply frame_trans; [exact F|apply frame_set_stack]|]. split; [exact W|].
    exists (srestore a'). split; [exact I2|]. unfold srestore. rewrite S. reflexivity. }
  destruct (kk (set_stack s' st)) as [-> | ->]; exact P.
Qed.

Section FrameTheorem.
Variable cfg : config.
Variable E : env.

Theorem exec_post : forall fuel p s a, wf s -> Inv (stack s) a -> post s a (exec cfg E fuel p s).
Proof.
  induction fuel as [|fuel IH]; intros p s a W I; [exact Logic.I|].
  destruct p; cbn [exec].
  - (* PPrim *) now apply exec_prim_post.
  - (* PRule *)
    destruct (inc_call s) as [s1|] eqn:Ei; [|apply post_err_same; auto; apply frame_refl].
    destruct (inc_call_frame _ _ Ei) as (F1 & St & Po & Qu & In & _).
    destruct (rule_enter s1) as [fr s2] eqn:Er.
    assert (Hfr : fr = fst (rule_enter s1)) by now rewrite Er. assert (Hs2 : s2 = snd (rule_enter s1)) by now rewrite Er.
    destruct (rule_enter_spec s1) as (_ & _ & _ & _ & _ & SQ). rewrite <- Hs2 in SQ. destruct SQ.
    assert (W2 : wf s2) by (unfold wf in *; congruence).
    assert (I2 : Inv (stack s2) a) by (rewrite q_stack0, St; exact I).
    specialize (IH p s2 a W2 I2).
    eapply post_trans; [exact F1|reflexivity|].
    destruct (exec cfg E fuel p s2) as [s'|s'|k|]; cbn in IH; auto.
    + destruct IH as (F & W' & a' & I' & S'). subst fr s2. eapply rule_ok_post; eauto.
    + destruct IH as (F & W' & a' & I' & S'). subst fr s2. eapply rule_err_post; eauto.
  - (* PSequence *)
    destruct (inc_call s) as [s1|] eqn:Ei; [|apply post_err_same; auto; apply frame_refl].
    destruct (inc_call_frame _ _ Ei) as (F1 & St & Po & Qu & In & _).
    assert (W1 : wf s1) by (unfold wf in *; congruence).
    assert (I1 : Inv (stack (checkpoint s1)) (ssnapshot a)) by (cbn; rewrite St; now apply inv_snapshot).
    specialize (IH p (checkpoint s1) (ssnapshot a) W1 I1).
    eapply post_trans; [exact F1|reflexivity|].
    assert (Fc : frame s1 (checkpoint s1)) by apply frame_set_stack.
    destruct (exec cfg E fuel p (checkpoint s1)) as [s'|s'|k|]; cbn in IH; auto.
    + destruct IH as (F & W' & a' & I' & S').
      apply (checkpoint_ok_post s1 a s' a' ROk); auto. eapply frame_trans; eauto.
    + destruct IH as (F & W' & a' & I' & S').
      apply (restore_post s1 a _ a' RErr); auto.
      * destruct F. split; cbn in *; try congruence; try lia.
        exists []. cbn. destruct f_queue0 as [new Eq]. eapply untagq_truncate_back; eauto.
      * unfold wf in *. cbn. destruct F. cbn in *. congruence.
  - (* PRepeat *)
    destruct (inc_call s) as [s1|] eqn:Ei; [|apply post_err_same; auto; apply frame_refl].
    destruct (inc_call_frame _ _ Ei) as (F1 & St & Po & Qu & In & _).
    eapply post_trans; [exact F1|reflexivity|]. apply IH; [unfold wf in *; congruence|rewrite St; exact I].
  - (* PRepeatLoop *)
    specialize (IH p s a W I) as IH1.
    destruct (exec cfg E fuel p s) as [s'|s'|k|]; cbn in IH1; auto.
    destruct IH1 as (F & W' & a' & I' & S'). eapply post_trans; [exact F|exact S'|]. now apply IH.
  - (* POptional *)
    destruct (inc_call s) as [s1|] eqn:Ei; [|apply post_err_same; auto; apply frame_refl].
    destruct (inc_call_frame _ _ Ei) as (F1 & St & Po & Qu & In & _).
    eapply post_trans; [exact F1|reflexivity|].
    assert (P : post s1 a (exec cfg E fuel p s1)) by (apply IH; [unfold wf in *; congruence|rewrite St; exact I]).
    destruct (exec cfg E fuel p s1); auto.
  - (* PLookahead *)
    destruct (inc_call s) as [s1|] eqn:Ei; [|apply post_err_same; auto; apply frame_refl].
    destruct (inc_call_frame _ _ Ei) as (F1 & St & Po & Qu & In & _).
    eapply post_trans; [exact F1|reflexivity|].
    set (s2 := set_lookahead s1 (enter_lookahead positive (lookahead s1))).
    assert (W2 : wf (checkpoint s2)) by (unfold wf in *; cbn; congruence).
    assert (I2 : Inv (stack (checkpoint s2)) (ssnapshot a)) by (cbn; rewrite St; now apply inv_snapshot).
    specialize (IH p (checkpoint s2) (ssnapshot a) W2 I2).
    destruct (exec cfg E fuel p (checkpoint s2)) as [s'|s'|k|]; cbn in IH; auto.
    + destruct IH as (F & W' & a' & I' & S').
      apply (restore_post s1 a _ a' (fun x => if positive then ROk x else RErr x)); auto.
      * intros x; destruct positive; auto.
      * destruct F. split; cbn in *; try congruence; try lia. destruct f_queue0 as [new Eq]. exists new. exact Eq.
      * unfold wf in *. cbn. destruct F. cbn in *. congruence.
    + destruct IH as (F & W' & a' & I' & S').
      apply (restore_post s1 a _ a' (fun x => if positive then RErr x else ROk x)); auto.
      * intros x; destruct positive; auto.
      * destruct F. split; cbn in *; try congruence; try lia. destruct f_queue0 as [new Eq]. exists new. exact Eq.
      * unfold wf in *. cbn. destruct F. cbn in *. congruence.
  - (* PAtomic *)
    destruct (inc_call s) as [s1|] eqn:Ei; [|apply post_err_same; auto; apply frame_refl].
    destruct (inc_call_frame _ _ Ei) as (F1 & St & Po & Qu & In & _).
    eapply post_trans; [exact F1|reflexivity|].
    assert (W1 : wf s1) by (unfold wf in *; congruence).
    assert (I1 : Inv (stack s1) a) by (rewrite St; exact I).
    destruct (atom_eqb (atomicity s1) a0) eqn:T; cbn [negb].
    + specialize (IH p s1 a W1 I1). destruct (exec cfg E fuel p s1) as [s'|s'|k|]; auto.
    + assert (W2 : wf (set_atomicity s1 a0)) by exact W1.
      assert (I2 : Inv (stack (set_atomicity s1 a0)) a) by exact I1.
      specialize (IH p (set_atomicity s1 a0) a W2 I2).
      destruct (exec cfg E fuel p (set_atomicity s1 a0)) as [s'|s'|k|]; cbn in IH; auto.
      * destruct IH as (F & W' & a' & I' & S'). cbn.
        split; [|split; [exact W'|exists a'; split; [exact I'|exact S']]].
        destruct F. cbn in *. split; cbn; try congruence; try lia. exact f_queue0.
      * destruct IH as (F & W' & a' & I' & S'). cbn.
        split; [|split; [exact W'|exists a'; split; [exact I'|exact S']]].
        destruct F. cbn in *. split; cbn; try congruence; try lia. exact f_queue0.
  - (* PStackPush *)
    destruct (inc_call s) as [s1|] eqn:Ei; [|apply post_err_same; auto; apply frame_refl].
    destruct (inc_call_frame _ _ Ei) as (F1 & St & Po & Qu & In & _).
    eapply post_trans; [exact F1|reflexivity|].
    assert (P : post s1 a (exec cfg E fuel p s1)) by (apply IH; [unfold wf in *; congruence|rewrite St; exact I]).
    destruct (exec cfg E fuel p s1) as [s'|s'|k|]; auto.
    cbn in P. destruct P as (F & W' & a' & I' & S').
    destruct (Nat.ltb (pos s') (pos s1)) eqn:L; [apply Nat.ltb_lt in L; destruct F; lia|].
    cbn. split; [eapply frame_trans; [exact F|apply frame_set_stack]|]. split; [exact W'|].
    eexists. split; [apply inv_push; exact I'|exact S'].
  - (* PRestoreOnErr *)
    assert (I1 : Inv (stack (checkpoint s)) (ssnapshot a)) by (cbn; now apply inv_snapshot).
    specialize (IH p (checkpoint s) (ssnapshot a) W I1).
    assert (Fc : frame s (checkpoint s)) by apply frame_set_stack.
    destruct (exec cfg E fuel p (checkpoint s)) as [s'|s'|k|]; cbn in IH; auto.
    + destruct IH as (F & W' & a' & I' & S'). apply (checkpoint_ok_post s a s' a' ROk); auto. eapply frame_trans; eauto.
    + destruct IH as (F & W' & a' & I' & S'). apply (restore_post s a s' a' RErr); auto. eapply frame_trans; eauto.
  - (* PAndThen *)
    specialize (IH p1 s a W I) as IH1.
    destruct (exec cfg E fuel p1 s) as [s'|s'|k|]; cbn in IH1; auto.
    destruct IH1 as (F & W' & a' & I' & S'). eapply post_trans; [exact F|exact S'|]. now apply IH.
  - (* POrElse *)
    specialize (IH p1 s a W I) as IH1.
    destruct (exec cfg E fuel p1 s) as [s'|s'|k|]; cbn in IH1; auto.
    destruct IH1 as (F & W' & a' & I' & S'). eapply post_trans; [exact F|exact S'|]. now apply IH.
  - (* PIfNonAtomic *) destruct (atom_eqb (atomicity s) NonAtomic); now apply IH.
  - (* PCall *) destruct (E f); [now apply IH|cbn; discriminate].
Qed.

End FrameTheorem.
