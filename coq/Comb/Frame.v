(* Layer C proofs, part 1: the frame invariant of `exec`.
   For every program, every well-formed state and every fuel:
     - input, lookahead, atomicity, limit, the detail switch are preserved (both outcomes);
     - the call counter, the position and max_position never decrease, pos <= |input|;
     - the token queue only grows, and earlier tokens change at most in their tag;
     - the snapshot structure of the stack (ghost naive model of C11) is preserved;
     - no internal panic (Vec index, splice, drain, usize underflow, unreachable!) ever happens. *)
From Coq Require Import List Arith NArith ZArith Bool Lia.
Import ListNotations.
Require Import PV.Stack.Model PV.Stack.Proofs PV.Comb.PState PV.Comb.Bytes PV.Comb.Prog PV.Comb.Exec.

Arguments Nat.sub : simpl never.
Arguments Nat.ltb : simpl never.
Arguments Nat.leb : simpl never.
Arguments Nat.eqb : simpl never.
Arguments skipn : simpl never.
Arguments firstn : simpl never.

Definition untag (t : qtoken) : qtoken :=
  match t with QEnd s r _ p => QEnd s r None p | x => x end.
Definition untagq (q : list qtoken) := map untag q.

Notation sspec := (spec (list byte)).

Record frame (s s' : pst) : Prop := {
  f_input : input s' = input s;
  f_la : lookahead s' = lookahead s;
  f_at : atomicity s' = atomicity s;
  f_lim : limit s' = limit s;
  f_en : pa_enabled s' = pa_enabled s;
  f_calls : calls s <= calls s';
  f_pos : pos s <= pos s';
  f_mp : max_position s <= max_position s';
  f_cs : max_position s' = max_position s -> length (call_stacks s) <= length (call_stacks s');
  f_queue : exists new, untagq (queue s') = new ++ untagq (queue s)
}.

Definition wf (s : pst) : Prop := pos s <= length (input s).

Definition post (s : pst) (a : sspec) (r : res) : Prop :=
  match r with
  | ROk s' | RErr s' => frame s s' /\ wf s' /\ exists a', Inv (stack s') a' /\ snaps a' = snaps a
  | RPanic k => k <> PkInternal
  | ROutOfFuel => True
  end.

Lemma frame_refl s : frame s s.
Proof. split; auto. exists []; reflexivity. Qed.

Lemma frame_trans s1 s2 s3 : frame s1 s2 -> frame s2 s3 -> frame s1 s3.
Proof.
  intros [a1 a2 a3 a4 a5 a6 a7 a8 a9 [n1 E1]] [b1 b2 b3 b4 b5 b6 b7 b8 b9 [n2 E2]].
  split; try congruence; try lia.
  exists (n2 ++ n1). rewrite E2, E1, app_assoc. reflexivity.
Qed.

(* ---------- small facts about the byte primitives ---------- *)
Lemma prefixb_length a b : prefixb a b = true -> length a <= length b.
Proof.
  revert b; induction a as [|x a IH]; intros [|y b]; cbn; intros H; try lia; try discriminate.
  apply andb_true_iff in H. destruct H as [_ H]. apply IH in H. lia.
Qed.

Lemma skipn_length_le {A} n (l : list A) : n <= length l -> length (skipn n l) = length l - n.
Proof. intros. rewrite skipn_length. reflexivity. Qed.

Lemma decode1_length l c n : decode1 l = Some (c, n) -> 1 <= n <= length l.
Proof.
  unfold decode1. destruct l as [|b0 r]; [discriminate|].
  destruct (b0 <? 128)%N; [intros [= <- <-]; cbn; lia|].
  destruct (b0 <? 192)%N; [discriminate|].
  destruct (b0 <? 224)%N. { destruct r as [|b1 r]; [discriminate|]. intros [= <- <-]; cbn; lia. }
  destruct (b0 <? 240)%N. { destruct r as [|b1 [|b2 r]]; try discriminate. intros [= <- <-]; cbn; lia. }
  destruct r as [|b1 [|b2 [|b3 r]]]; try discriminate. intros [= <- <-]; cbn; lia.
Qed.

Lemma skip_len_le l n k : skip_len l n = Some k -> k <= length l.
Proof.
  revert l k; induction n as [|n IH]; intros l k; cbn [skip_len].
  - intros [= <-]. lia.
  - destruct (decode1 l) as [[c m]|] eqn:D; [|discriminate].
    destruct (skip_len (skipn m l) n) as [t|] eqn:S1; [|discriminate]. intros [= <-].
    apply decode1_length in D. apply IH in S1. rewrite skipn_length in S1. lia.
Qed.

Definition moved_ok (inp : list byte) (p : nat) (r : pres) : Prop :=
  match r with PMoved p' => p <= p' <= length inp | _ => True end.

Lemma match_string_ok inp p s : p <= length inp -> moved_ok inp p (match_string inp p s).
Proof.
  intros H. unfold match_string. destruct (prefixb s (skipn p inp)) eqn:E; cbn; auto.
  apply prefixb_length in E. rewrite skipn_length in E. lia.
Qed.

Lemma prefixb_ci_length a b : prefixb_ci a b = true -> length a <= length b.
Proof.
  revert b; induction a as [|x a IH]; intros [|y b]; cbn; intros H; try lia; try discriminate.
  apply andb_true_iff in H. destruct H as [_ H]. apply IH in H. lia.
Qed.

Lemma match_insensitive_ok inp p s : p <= length inp -> moved_ok inp p (match_insensitive inp p s).
Proof.
  intros H. unfold match_insensitive. destruct (boundaryb inp p); cbn; auto.
  destruct (boundaryb inp (p + length s) && prefixb_ci s (skipn p inp)) eqn:E; cbn; auto.
  apply andb_true_iff in E. destruct E as [_ E]. apply prefixb_ci_length in E. rewrite skipn_length in E. lia.
Qed.

Lemma char_at_ok inp p c n : p <= length inp -> char_at inp p = Some (Some (c, n)) -> p <= p + n <= length inp.
Proof.
  unfold char_at. intros H. destruct (boundaryb inp p); [|discriminate]. intros [= E].
  apply decode1_length in E. rewrite skipn_length in E. lia.
Qed.

Lemma match_range_ok inp p lo hi : p <= length inp -> moved_ok inp p (match_range inp p lo hi).
Proof.
  intros H. unfold match_range. destruct (char_at inp p) as [[[c n]|]|] eqn:E; cbn; auto.
  destruct (_ && _); cbn; auto. eapply char_at_ok; eauto.
Qed.

Lemma match_char_by_ok inp p rs : p <= length inp -> moved_ok inp p (match_char_by inp p rs).
Proof.
  intros H. unfold match_char_by. destruct (char_at inp p) as [[[c n]|]|] eqn:E; cbn; auto.
  destruct (in_ranges rs c); cbn; auto. eapply char_at_ok; eauto.
Qed.

Lemma skip_ok inp p n : p <= length inp -> moved_ok inp p (skip inp p n).
Proof.
  intros H. unfold skip. destruct (boundaryb inp p); cbn; auto.
  destruct (skip_len (skipn p inp) n) as [k|] eqn:E; cbn; auto.
  apply skip_len_le in E. rewrite skipn_length in E. lia.
Qed.

Lemma skip_until_basic_from_ok inp ss from count :
  from + count = length inp -> from <= skip_until_basic_from inp ss from count <= length inp.
Proof.
  revert from; induction count as [|c IH]; intros from H; cbn [skip_until_basic_from]; [lia|].
  destruct (_ && _); [lia|]. specialize (IH (S from)). lia.
Qed.

Lemma skip_until_basic_ok inp p ss : p <= length inp -> p <= skip_until_basic inp p ss <= length inp.
Proof. intros H. unfold skip_until_basic. apply skip_until_basic_from_ok. lia. Qed.

Lemma memmem_from_ok inp needle from count f :
  from + count = length inp -> memmem_from inp needle from count = Some f -> from <= f <= length inp.
Proof.
  revert from; induction count as [|c IH]; intros from H; cbn [memmem_from].
  - destruct (prefixb _ _); [|discriminate]. intros [= <-]. lia.
  - destruct (prefixb _ _); [intros [= <-]; lia|]. intros E. apply IH in E; lia.
Qed.

Lemma memchr_scan_ok inp firsts ss from count f :
  from + count = length inp -> memchr_scan inp firsts ss from count = Some (Some f) -> from <= f <= length inp.
Proof.
  revert from; induction count as [|c IH]; intros from H; cbn [memchr_scan]; [discriminate|].
  destruct (existsb (N.eqb (nth from inp 0%N)) firsts).
  - destruct (boundaryb inp from); [|discriminate].
    destruct (existsb (fun s => prefixb s (skipn from inp)) ss); [intros [= <-]; lia|]. intros E. apply IH in E; lia.
  - intros E. apply IH in E; lia.
Qed.

Lemma skip_until_ok cfg inp p ss f : p <= length inp -> skip_until cfg inp p ss = Some f -> p <= f <= length inp.
Proof.
  intros H. unfold skip_until. destruct (memchr cfg); [|intros [= <-]; now apply skip_until_basic_ok].
  unfold skip_until_memchr.
  assert (B : forall x, Some (skip_until_basic inp p ss) = Some x -> p <= x <= length inp)
    by (intros x [= <-]; now apply skip_until_basic_ok).
  destruct ss as [|s1 [|s2 [|s3 [|s4 r]]]]; auto.
  - intros [= <-]; lia.
  - destruct (memmem_from _ _ _ _) eqn:E; intros [= <-]; [|lia]. eapply memmem_from_ok in E; lia.
  - destruct (_ && _); auto. destruct (memchr_scan _ _ _ _ _) as [[x|]|] eqn:E; intros [= <-]; [|lia].
    eapply memchr_scan_ok in E; lia.
  - destruct (_ && _); auto. destruct (memchr_scan _ _ _ _ _) as [[x|]|] eqn:E; intros [= <-]; [|lia].
    eapply memchr_scan_ok in E; lia.
Qed.

(* ---------- parse-attempts bookkeeping touches only its own four fields ---------- *)
Record same_core (s s' : pst) : Prop := {
  c_input : input s' = input s; c_pos : pos s' = pos s; c_queue : queue s' = queue s;
  c_la : lookahead s' = lookahead s; c_pa : pos_attempts s' = pos_attempts s; c_na : neg_attempts s' = neg_attempts s;
  c_ap : attempt_pos s' = attempt_pos s; c_at : atomicity s' = atomicity s; c_stack : stack s' = stack s;
  c_calls : calls s' = calls s; c_lim : limit s' = limit s; c_en : pa_enabled s' = pa_enabled s
}.
Definition pa_mono (s s' : pst) : Prop :=
  max_position s <= max_position s' /\
  (max_position s' = max_position s -> length (call_stacks s) <= length (call_stacks s')).

Lemma same_core_refl s : same_core s s. Proof. split; reflexivity. Qed.
Lemma pa_mono_refl s : pa_mono s s. Proof. split; auto. Qed.

Lemma same_core_frame s s' : same_core s s' -> pa_mono s s' -> frame s s'.
Proof.
  intros [] [M1 M2]. split; try congruence; try lia; auto.
  exists []. cbn. congruence.
Qed.

Lemma push_token_core s t neg : same_core s (push_token s t neg) /\ max_position (push_token s t neg) = max_position s
  /\ call_stacks (push_token s t neg) = call_stacks s.
Proof. unfold push_token. destruct neg; (split; [split; reflexivity|split; reflexivity]). Qed.

Lemma try_add_new_token_core s t sp p neg :
  same_core s (try_add_new_token s t sp p neg) /\ pa_mono s (try_add_new_token s t sp p neg).
Proof.
  unfold try_add_new_token.
  destruct (Nat.ltb (max_position s) p) eqn:L.
  - destruct (neg && Nat.ltb (max_position s) sp); [split; [apply same_core_refl|apply pa_mono_refl]|].
    destruct (push_token_core s t neg) as [C [M K]].
    destruct neg.
    + split; auto. split; [lia|]. intros _. rewrite K. lia.
    + apply Nat.ltb_lt in L. destruct C. split; [split; cbn; auto|]. split; cbn; lia.
  - destruct (Nat.eqb p (max_position s)); [|split; [apply same_core_refl|apply pa_mono_refl]].
    destruct (push_token_core s t neg) as [C [M K]]. destruct C.
    split; [split; cbn; auto|]. split; cbn; [lia|]. rewrite K. lia.
Qed.

Lemma handle_token_core s sp t ok :
  same_core s (handle_token_parse_result s sp t ok) /\ pa_mono s (handle_token_parse_result s sp t ok).
Proof.
  unfold handle_token_parse_result. destruct ok.
  - destruct (lk_eqb (lookahead s) LNeg); [apply try_add_new_token_core|].
    destruct (Nat.ltb (max_position s) (pos s)) eqn:L; [|split; [apply same_core_refl|apply pa_mono_refl]].
    apply Nat.ltb_lt in L. split; [split; reflexivity|]. split; cbn; lia.
  - destruct (negb (lk_eqb (lookahead s) LNeg)); [apply try_add_new_token_core|].
    split; [apply same_core_refl|apply pa_mono_refl].
Qed.

(* ---------- post-condition helpers ---------- *)
Lemma post_ok_same s a s' : frame s s' -> wf s' -> stack s' = stack s -> Inv (stack s) a -> post s a (ROk s').
Proof. intros F W E I. cbn. split; [auto|split; [auto|exists a; rewrite E; auto]]. Qed.
Lemma post_err_same s a s' : frame s s' -> wf s' -> stack s' = stack s -> Inv (stack s) a -> post s a (RErr s').
Proof. intros F W E I. cbn. split; [auto|split; [auto|exists a; rewrite E; auto]]. Qed.

Lemma frame_set_pos s p : pos s <= p -> frame s (set_pos s p).
Proof. intros. split; cbn; auto. exists []; reflexivity. Qed.

Lemma apply_pres_post s a r t :
  wf s -> Inv (stack s) a -> moved_ok (input s) (pos s) r -> post s a (apply_pres s r t).
Proof.
  intros W I M. unfold apply_pres. destruct r as [p| |]; cbn in M.
  - assert (F0 : frame s (set_pos s p)) by (apply frame_set_pos; lia).
    destruct t as [tk|]; [destruct (pa_enabled s)|].
    + destruct (handle_token_core (set_pos s p) (pos s) tk true) as [C P].
      apply post_ok_same; auto.
      * eapply frame_trans; [exact F0|]. now apply same_core_frame.
      * unfold wf. destruct C. rewrite c_pos0, c_input0. cbn. lia.
      * destruct C. rewrite c_stack0. reflexivity.
    + apply post_ok_same; auto. unfold wf; cbn; lia.
    + apply post_ok_same; auto. unfold wf; cbn; lia.
  - destruct t as [tk|]; [destruct (pa_enabled s)|].
    + destruct (handle_token_core s (pos s) tk false) as [C P].
      apply post_err_same; auto.
      * now apply same_core_frame.
      * unfold wf. destruct C. rewrite c_pos0, c_input0. exact W.
      * destruct C. auto.
    + apply post_err_same; auto. apply frame_refl.
    + apply post_err_same; auto. apply frame_refl.
  - discriminate.
Qed.

Lemma st_match_string_post s a str : wf s -> Inv (stack s) a -> post s a (st_match_string s str).
Proof. intros W I. unfold st_match_string. apply apply_pres_post; auto. now apply match_string_ok. Qed.

Lemma post_trans s a s1 a1 r :
  frame s s1 -> snaps a1 = snaps a -> post s1 a1 r -> post s a r.
Proof.
  intros F E P. destruct r as [s'|s'|k|]; cbn in *; auto.
  - destruct P as (F' & W & a' & I & S). split; [eapply frame_trans; eauto|]. split; auto. exists a'. split; auto. congruence.
  - destruct P as (F' & W & a' & I & S). split; [eapply frame_trans; eauto|]. split; auto. exists a'. split; auto. congruence.
Qed.

Lemma frame_set_stack s st : frame s (set_stack s st).
Proof. split; cbn; auto. exists []; reflexivity. Qed.

Lemma spop_snaps (a : sspec) : snaps (fst (spop a)) = snaps a.
Proof. unfold spop. destruct (cur a); reflexivity. Qed.

Lemma match_all_ok inp p l p' : p <= length inp -> match_all inp p l = Some p' -> p <= p' <= length inp.
Proof.
  revert p; induction l as [|x l IH]; intros p H; cbn [match_all].
  - intros [= <-]. lia.
  - pose proof (match_string_ok inp p x H) as M. destruct (match_string inp p x) as [q| |]; try discriminate.
    cbn in M. intros E. apply IH in E; lia.
Qed.

Lemma match_pop_loop_ok fuel inp st p a st' p' b :
  p <= length inp -> Inv st a -> match_pop_loop fuel inp st p = Some (st', p', b) ->
  p <= p' <= length inp /\ exists a', Inv st' a' /\ snaps a' = snaps a.
Proof.
  revert st p a; induction fuel as [|f IH]; intros st p a H I; cbn [match_pop_loop].
  - intros [= <- <- <-]. split; [lia|]. exists a; auto.
  - destruct (inv_pop I) as [I1 O1]. destruct (pop st) as [st1 o] eqn:Ep. cbn in I1, O1.
    destruct o as [x|].
    + pose proof (match_string_ok inp p x H) as M. destruct (match_string inp p x) as [q| |].
      * cbn in M. intros E. assert (Hq : q <= length inp) by lia. apply (IH _ _ _ Hq I1) in E. destruct E as [E1 (a' & E2 & E3)].
        split; [lia|]. exists a'. split; auto. rewrite E3. apply spop_snaps.
      * intros [= <- <- <-]. split; [lia|]. eexists; split; [exact I1|apply spop_snaps].
      * intros [= <- <- <-]. split; [lia|]. eexists; split; [exact I1|apply spop_snaps].
    + intros [= <- <- <-]. split; [lia|]. eexists; split; [exact I1|apply spop_snaps].
Qed.

Lemma untag_idem_head si r t t' p q : untagq (QEnd si r t p :: q) = untagq (QEnd si r t' p :: q).
Proof. reflexivity. Qed.

Lemma exec_prim_post cfg o s a : wf s -> Inv (stack s) a -> post s a (exec_prim cfg o s).
Proof.
  intros W I. destruct o; cbn [exec_prim].
  - apply post_ok_same; auto. apply frame_refl.
  - apply post_err_same; auto. apply frame_refl.
  - now apply st_match_string_post.
  - apply apply_pres_post; auto. now apply match_insensitive_ok.
  - apply apply_pres_post; auto. now apply match_range_ok.
  - apply apply_pres_post; auto. now apply match_char_by_ok.
  - apply apply_pres_post; auto. now apply skip_ok.
  - destruct (skip_until cfg (input s) (pos s) ss) as [p|] eqn:E; [|cbn; discriminate].
    apply skip_until_ok in E; [|exact W]. apply post_ok_same; auto; [apply frame_set_pos; lia|unfold wf; cbn; lia].
  - destruct (Nat.eqb (pos s) 0); [apply post_ok_same|apply post_err_same]; auto; apply frame_refl.
  - destruct (Nat.eqb (pos s) (length (input s))); [apply post_ok_same|apply post_err_same]; auto; apply frame_refl.
  - cbn. split; [apply frame_set_stack|]. split; [exact W|]. exists (spush a s0). split; [now apply inv_push|reflexivity].
  - rewrite (inv_peek I). destruct (speek a) as [str|] eqn:E; [|cbn; discriminate]. now apply st_match_string_post.
  - destruct (inv_pop I) as [I1 O1]. destruct (pop (stack s)) as [st1 o] eqn:Ep. cbn in I1, O1.
    destruct o as [str|]; [|cbn; discriminate].
    eapply post_trans with (s1 := set_stack s st1) (a1 := fst (spop a)); [apply frame_set_stack|apply spop_snaps|].
    apply st_match_string_post; [exact W|exact I1].
  - destruct (inv_pop I) as [I1 O1]. destruct (pop (stack s)) as [st1 o] eqn:Ep. cbn in I1, O1.
    destruct o as [str|].
    + cbn. split; [apply frame_set_stack|]. split; [exact W|]. exists (fst (spop a)). split; [exact I1|apply spop_snaps].
    + apply post_err_same; auto. apply frame_refl.
  - unfold peek_slice. destruct (constrain_idxs _ _ _) as [[x y]|]; [|apply post_err_same; auto; apply frame_refl].
    destruct (Nat.leb y x); [apply post_ok_same; auto; apply frame_refl|].
    destruct (match_all _ _ _) as [p|] eqn:E; [|apply post_err_same; auto; apply frame_refl].
    apply match_all_ok in E; [|exact W]. apply post_ok_same; auto; [apply frame_set_pos; lia|unfold wf; cbn; lia].
  - destruct (match_pop_loop _ _ _ _) as [[[st' p] b]|] eqn:E.
    + eapply match_pop_loop_ok in E; eauto. destruct E as [E1 (a' & E2 & E3)].
      destruct b; cbn.
      * split; [eapply frame_trans; [apply frame_set_stack|apply frame_set_pos; cbn; lia]|].
        split; [unfold wf; cbn; lia|]. exists a'; auto.
      * split; [apply frame_set_stack|]. split; [exact W|]. exists a'; auto.
    + exfalso. clear -E. revert E. generalize (S (length (cache (stack s)))) (stack s) (pos s).
      intros f; induction f as [|f IH]; intros st p; cbn [match_pop_loop]; [discriminate|].
      destruct (pop st) as [st1 [x|]]; [|discriminate]. destruct (match_string _ _ _); try discriminate. apply IH.
  - unfold peek_slice. destruct (constrain_idxs _ _ _) as [[x y]|]; [|apply post_err_same; auto; apply frame_refl].
    destruct (Nat.leb y x); [apply post_ok_same; auto; apply frame_refl|].
    destruct (match_all _ _ _) as [p|] eqn:E; [|apply post_err_same; auto; apply frame_refl].
    apply match_all_ok in E; [|exact W]. apply post_ok_same; auto; [apply frame_set_pos; lia|unfold wf; cbn; lia].
  - destruct (negb (lk_eqb (lookahead s) LNone)); [apply post_ok_same; auto; apply frame_refl|].
    destruct (queue s) as [|[e p|si r tg p] q] eqn:Q; try (apply post_ok_same; auto; apply frame_refl).
    apply post_ok_same; auto. split; cbn; auto. exists []. rewrite Q. reflexivity.
Qed.
