(* C04, parser half, part 3: the boundary clause discharged with the UTF-8 theory of Utf8c.v, and
   non-vacuity examples.

   exec_preserves_wfq_utf8: for valid UTF-8 input, a program whose string constants are valid UTF-8
   (they are &str in Rust), an environment of such programs and a configuration covered by Utf8c
   (no memchr, or the repaired three-needle arm), every successful run from the initial state leaves a
   queue that is well-formed in the full sense of PV.Iter.Queue.wfq: balanced, nested, cross-links
   correct, positions non-decreasing, every position a char boundary of the input and <= its length. *)
From Coq Require Import List Arith NArith ZArith Bool Lia.
Import ListNotations.
Require Import PV.Iter.Queue PV.Iter.QueueFacts.
Require Import PV.Stack.Model PV.Stack.Proofs PV.Comb.PState PV.Comb.Bytes PV.Comb.Prog PV.Comb.Exec PV.Comb.Frame.
Require Import PV.Comb.Utf8 PV.Comb.Utf8b PV.Comb.Utf8c.
Require Import PV.Comb.Wfq1 PV.Comb.Wfq.

Lemma prog_valid_children p q : prog_valid p -> In q (children p) -> prog_valid q.
Proof. destruct p; cbn; intros Vp Hin; intuition (subst; auto). Qed.

Theorem exec_preserves_wfq_utf8 cfg E fuel p inp lim detail s :
  cfg_ok cfg -> env_valid E -> prog_valid p -> valid_utf8 inp ->
  exec cfg E fuel p (init inp lim detail) = ROk s ->
  wfq (boundaryb inp) (length inp) (stream (queue s)).
Proof.
  intros Hc HE Vp Vi H.
  apply (exec_preserves_wfq_from_boundary cfg E boundaryb utf8_ok prog_valid)
    with (fuel := fuel) (p := p) (lim := lim) (detail := detail).
  - exact utf8_ok_same.
  - intros s0 (_ & B & _). exact B.
  - exact prog_valid_children.
  - intros f q _ Ef. exact (HE f q Ef).
  - intros fl q s0 a Vq W I U0. pose proof (exec_boundary cfg E Hc HE fl q s0 a Vq W I U0) as P.
    destruct (exec cfg E fl q s0); cbn in P; auto.
  - exact Vp.
  - apply init_utf8_ok. exact Vi.
  - exact H.
Qed.

(* ---------- non-vacuity ---------- *)
(* a( b#7("é") c( d("y") ) ) on the 3-byte input "éy": nested pairs a(b, c(d)), a tag, a 2-byte char *)
Definition ex_cfg : config := {| memchr := false; fixed3 := true; fixedlim := true |}.
Definition ex_prog : prog :=
  PRule 0 (PSequence (PAndThen (PAndThen (PRule 1 (PPrim (MMatchString [195; 169]%N))) (PPrim (MTagNode 7)))
                               (PRule 2 (PRule 3 (PPrim (MMatchString [121]%N)))))).
Definition ex_inp : list byte := [195; 169; 121]%N.

Example ex_run_wfq :
  match exec ex_cfg (fun _ => None) 20 ex_prog (init ex_inp None false) with
  | ROk s =>
      wfqb (boundaryb ex_inp) (length ex_inp) (stream (queue s)) &&
      list_eqb qtoken_eqb (stream (queue s))
        (tokens_of [Node 0 None 0 3 [Node 1 (Some 7) 0 2 []; Node 2 None 2 3 [Node 3 None 2 3 []]]])
  | _ => false
  end = true.
Proof. vm_compute. reflexivity. Qed.

(* the stream itself, with its cross-links *)
Example ex_run_stream :
  match exec ex_cfg (fun _ => None) 20 ex_prog (init ex_inp None false) with
  | ROk s => stream (queue s)
  | _ => []
  end = [Queue.QStart 7 0; Queue.QStart 2 0; Queue.QEnd 1 1 (Some 7) 2; Queue.QStart 6 2; Queue.QStart 5 2;
         Queue.QEnd 4 3 None 3; Queue.QEnd 3 2 None 3; Queue.QEnd 0 0 None 3].
Proof. vm_compute. reflexivity. Qed.

(* offset 1 is inside the 2-byte char: the boundary clause is not trivially true *)
Example ex_inside_char : boundaryb ex_inp 1 = false.
Proof. vm_compute. reflexivity. Qed.

(* a failing alternative that had already emitted a pair leaves nothing behind: (a("é") "x") | b("é") *)
Example ex_backtrack :
  match exec ex_cfg (fun _ => None) 20
          (POrElse (PSequence (PAndThen (PRule 0 (PPrim (MMatchString [195; 169]%N))) (PPrim (MMatchString [120]%N))))
                   (PRule 1 (PPrim (MMatchString [195; 169]%N))))
          (init ex_inp None false) with
  | ROk s => list_eqb qtoken_eqb (stream (queue s)) (tokens_of [Node 1 None 0 2 []])
  | _ => false
  end = true.
Proof. vm_compute. reflexivity. Qed.

(* ---------- the public entry point state(): a successful parse ---------- *)
Lemma parse_with_pairs cfg E fuel p inp lim detail q :
  parse_with cfg E fuel p inp lim detail = OPairs q ->
  exists s, exec cfg E fuel p (init inp lim detail) = ROk s /\ q = rev (queue s).
Proof.
  unfold parse_with, run_state, outcome_of.
  destruct (exec cfg E fuel p (init inp lim detail)) as [s|s|k|]; try discriminate.
  - destruct (fixedlim cfg && limit_reached s); [discriminate|]. intros H. inversion H; subst. exists s. auto.
  - destruct (limit_reached s); discriminate.
Qed.

Theorem parse_wfq_utf8 cfg E fuel p inp lim detail q :
  cfg_ok cfg -> env_valid E -> prog_valid p -> valid_utf8 inp ->
  parse_with cfg E fuel p inp lim detail = OPairs q ->
  wfq (boundaryb inp) (length inp) (map conv q).
Proof.
  intros Hc HE Vp Vi H. destruct (parse_with_pairs _ _ _ _ _ _ _ _ H) as (s & Ex & ->).
  exact (exec_preserves_wfq_utf8 cfg E fuel p inp lim detail s Hc HE Vp Vi Ex).
Qed.
