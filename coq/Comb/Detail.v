(* Layer C, C15 part 1: definitions for "detailed error tracking is observationally transparent".
   erase_detail resets the five ParseAttempts fields of the state model (enabled, call_stacks,
   expected_tokens, unexpected_tokens, max_position) to the values of ParseAttempts::new() with the
   switch off.  Everything else of the state is "the core".  Proofs: DetailProofs.v.            *)
From Coq Require Import List Arith NArith Bool.
Import ListNotations.
Require Import PV.Stack.Model PV.Comb.PState PV.Comb.Bytes PV.Comb.Prog PV.Comb.Exec.

Definition erase_detail (s : pst) : pst :=
  {| input := input s; pos := pos s; queue := queue s; lookahead := lookahead s; pos_attempts := pos_attempts s;
     neg_attempts := neg_attempts s; attempt_pos := attempt_pos s; atomicity := atomicity s; stack := stack s;
     calls := calls s; limit := limit s;
     pa_enabled := false; call_stacks := []; expected := []; unexpected := []; max_position := 0 |}.

Definition map_res (f : pst -> pst) (r : res) : res :=
  match r with ROk s => ROk (f s) | RErr s => RErr (f s) | RPanic k => RPanic k | ROutOfFuel => ROutOfFuel end.

(* a predicate holds of the final state, when there is one *)
Definition res_all (P : pst -> Prop) (r : res) : Prop :=
  match r with ROk s | RErr s => P s | RPanic _ | ROutOfFuel => True end.

(* the rule_frame fields that the core of rule() reads (rf_csn / rf_max are detail-only) *)
Definition fr_core_eq (a b : rule_frame) : Prop :=
  rf_pos a = rf_pos b /\ rf_index a = rf_index b /\ rf_pai a = rf_pai b /\ rf_nai a = rf_nai b /\ rf_attempts a = rf_attempts b.

(* the state-entering steps of the combinators: what happens to the state between the entry of a
   combinator and the entry of its body (used by the reduction lemma for max_position) *)
Inductive enter_step : pst -> pst -> Prop :=
| es_inc s s1 : inc_call s = Some s1 -> enter_step s s1
| es_rule s : enter_step s (snd (rule_enter s))
| es_checkpoint s : enter_step s (checkpoint s)
| es_lookahead s l : enter_step s (set_lookahead s l)
| es_atomicity s a : enter_step s (set_atomicity s a).

(* immediate sub-programs *)
Definition children (p : prog) : list prog :=
  match p with
  | PPrim _ | PCall _ => []
  | PRule _ q | PSequence q | PRepeatLoop q | POptional q | PLookahead _ q | PAtomic _ q | PStackPush q | PRestoreOnErr q => [q]
  | PRepeat q => [PRepeatLoop q]
  | PAndThen a b | POrElse a b | PIfNonAtomic a b => [a; b]
  end.

Definition pos_boundary_inv (s : pst) : Prop := boundaryb (input s) (pos s) = true.
Definition max_boundary_inv (s : pst) : Prop := boundaryb (input s) (max_position s) = true.
