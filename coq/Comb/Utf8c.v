(* Layer C proofs, part 3c: the boundary invariant of `exec`.  On valid UTF-8 input, from a char boundary,
   with a stack of valid strings and a program whose string constants are valid UTF-8 (they are &str in
   Rust), every reachable state is again of that kind and no slice is ever taken off a char boundary;
   the memchr version of skip_until (with the repaired three-needle arm) is then indistinguishable from
   the plain loop. *)
From Coq Require Import List Arith NArith ZArith Bool Lia.
Import ListNotations.
Require Import PV.Stack.Model PV.Stack.Proofs PV.Comb.PState PV.Comb.Bytes PV.Comb.Prog PV.Comb.Exec PV.Comb.Frame.
Require Import PV.Comb.Utf8 PV.Comb.Utf8b.

Definition utf8_ok (s : pst) : Prop :=
  valid_utf8 (input s) /\ boundaryb (input s) (pos s) = true /\ Forall valid_utf8 (cache (stack s)).

Definition prim_valid (o : prim) : Prop :=
  match o with
  | MMatchString s | MMatchInsens s | MStackPushLit s => valid_utf8 s
  | MSkipUntil ss => Forall valid_utf8 ss
  | _ => True
  end.

Fixpoint prog_valid (p : prog) : Prop :=
  match p with
  | PPrim o => prim_valid o
  | PRule _ p | PSequence p | PRepeat p | PRepeatLoop p | POptional p | PLookahead _ p | PAtomic _ p
  | PStackPush p | PRestoreOnErr p => prog_valid p
  | PAndThen p q | POrElse p q | PIfNonAtomic p q => prog_valid p /\ prog_valid q
  | PCall _ => True
  end.

Definition env_valid (E : env) : Prop := forall f q, E f = Some q -> prog_valid q.

(* the configurations covered: without the memchr feature, or with it and the repaired arm *)
Definition cfg_ok (cfg : config) : Prop := memchr cfg = true -> fixed3 cfg = true.

Definition upost (r : res) : Prop :=
  match r with
  | ROk s' | RErr s' => utf8_ok s'
  | RPanic k => k <> PkBoundary
  | ROutOfFuel => True
  end.

Lemma utf8_ok_same s s' :
  input s' = input s -> pos s' = pos s -> cache (stack s') = cache (stack s) -> utf8_ok s -> utf8_ok s'.
Proof. intros E1 E2 E3 (V & B & F). unfold utf8_ok. rewrite E1, E2, E3. auto. Qed.

Lemma utf8_ok_set_pos s p : utf8_ok s -> boundaryb (input s) p = true -> utf8_ok (set_pos s p).
Proof. intros (V & B & F) Bp. split; [exact V|]. split; [exact Bp|exact F]. Qed.

Lemma utf8_ok_set_stack s st : utf8_ok s -> Forall valid_utf8 (cache st) -> utf8_ok (set_stack s st).
Proof. intros (V & B & F) Fs. split; [exact V|]. split; [exact B|exact Fs]. Qed.

Definition pres_ok (inp : list byte) (r : pres) : Prop :=
  match r with PMoved p => boundaryb inp p = true | PStay => True | PPanic => False end.

Lemma apply_pres_upost s r t : utf8_ok s -> pres_ok (input s) r -> upost (apply_pres s r t).
Proof.
  intros U R. unfold apply_pres. destruct r as [p| |]; cbn [pres_ok] in R; [| |contradiction].
  - pose proof (utf8_ok_set_pos s p U R) as U1. cbn [upost].
    destruct t as [tk|]; [|exact U1]. destruct (pa_enabled s); [|exact U1].
    destruct (handle_token_core (set_pos s p) (pos s) tk true) as [[] _].
    eapply utf8_ok_same; [| | |exact U1]; congruence.
  - cbn [upost]. destruct t as [tk|]; [|exact U]. destruct (pa_enabled s); [|exact U].
    destruct (handle_token_core s (pos s) tk false) as [[] _].
    eapply utf8_ok_same; [| | |exact U]; congruence.
Qed.

Lemma st_match_string_upost s str : utf8_ok s -> valid_utf8 str -> upost (st_match_string s str).
Proof.
  intros U Vs. unfold st_match_string. apply apply_pres_upost; [exact U|].
  destruct U as (V & B & _). pose proof (match_string_contract (input s) (pos s) str V B Vs) as C.
  destruct (match_string (input s) (pos s) str); cbn [pres_ok]; tauto.
Qed.

Lemma char_contract_ok inp p ok r : char_contract inp p ok r -> pres_ok inp r.
Proof. destruct r; cbn; auto. intros (c & _ & _ & _ & _ & _ & B). exact B. Qed.

Lemma match_all_boundary inp l : valid_utf8 inp -> Forall valid_utf8 l -> forall p p',
  boundaryb inp p = true -> match_all inp p l = Some p' -> boundaryb inp p' = true.
Proof.
  intros V F. induction F as [|x l Vx F IH]; intros p p' B; cbn [match_all].
  - intros [= <-]. exact B.
  - destruct (match_string inp p x) as [q| |] eqn:M; try discriminate.
    apply IH. eapply match_string_boundary; eauto.
Qed.

Lemma pop_cache {T} (st : stk T) : cache (fst (pop st)) = tl (cache st) /\ snd (pop st) = hd_error (cache st).
Proof.
  unfold pop. destruct (cache st) as [|x c] eqn:Ec; [cbn; rewrite Ec; auto|].
  destruct (lengths st) as [|[l r] ls]; [cbn; auto|]. destruct (Nat.eqb _ _); cbn; auto.
Qed.

Lemma match_pop_loop_boundary inp fuel : valid_utf8 inp -> forall st p st' p' b,
  boundaryb inp p = true -> Forall valid_utf8 (cache st) -> match_pop_loop fuel inp st p = Some (st', p', b) ->
  boundaryb inp p' = true /\ Forall valid_utf8 (cache st').
Proof.
  intros V. induction fuel as [|f IH]; intros st p st' p' b B F; cbn [match_pop_loop].
  - intros [= <- <- <-]. auto.
  - destruct (pop_cache st) as [C1 C2]. destruct (pop st) as [st1 o]. cbn [fst snd] in C1, C2.
    assert (F1 : Forall valid_utf8 (cache st1)).
    { rewrite C1. destruct (cache st); [constructor|]. now inversion F. }
    destruct o as [x|]; [|intros [= <- <- <-]; auto].
    assert (Vx : valid_utf8 x).
    { destruct (cache st); [discriminate|]. cbn in C2. inversion C2; subst. now inversion F. }
    destruct (match_string inp p x) as [q| |] eqn:M; try (intros [= <- <- <-]; auto).
    apply IH; [eapply match_string_boundary; eauto|exact F1].
Qed.

Lemma Forall_vslice {A} (P : A -> Prop) a b l : Forall P l -> Forall P (vslice a b l).
Proof. intros F. unfold vslice. apply Forall_firstn', Forall_skipn'. now apply Forall_rev. Qed.

Lemma peek_slice_upost s i j d : utf8_ok s -> upost (peek_slice s i j d).
Proof.
  intros U. unfold peek_slice. destruct (constrain_idxs _ _ _) as [[x y]|]; [|exact U].
  destruct (Nat.leb y x); [exact U|].
  destruct (match_all _ _ _) as [p|] eqn:M; [|exact U].
  cbn [upost]. apply utf8_ok_set_pos; [exact U|]. destruct U as (V & B & F).
  eapply match_all_boundary; [exact V| |exact B|exact M].
  destruct d; [|apply Forall_rev]; now apply Forall_vslice.
Qed.

Lemma exec_prim_upost cfg o s : cfg_ok cfg -> prim_valid o -> utf8_ok s -> upost (exec_prim cfg o s).
Proof.
  intros Hc Vo U. pose proof U as (V & B & F). destruct o; cbn [exec_prim prim_valid] in *.
  - exact U.
  - exact U.
  - now apply st_match_string_upost.
  - apply apply_pres_upost; [exact U|]. pose proof (match_insensitive_contract (input s) (pos s) s0 B) as C.
    destruct (match_insensitive _ _ _); cbn [pres_ok]; tauto.
  - apply apply_pres_upost; [exact U|]. eapply char_contract_ok. now apply match_range_contract.
  - apply apply_pres_upost; [exact U|]. eapply char_contract_ok. now apply match_char_by_contract.
  - apply apply_pres_upost; [exact U|]. pose proof (skip_contract (input s) (pos s) n V B) as C.
    destruct (skip _ _ _); cbn [pres_ok]; tauto.
  - rewrite (skip_until_eq_basic cfg _ _ _ Hc B Vo). cbn [upost]. apply utf8_ok_set_pos; [exact U|].
    apply skip_until_basic_boundary. now apply boundaryb_le.
  - destruct (Nat.eqb _ _); exact U.
  - destruct (Nat.eqb _ _); exact U.
  - cbn [upost]. apply utf8_ok_set_stack; [exact U|]. cbn. constructor; auto.
  - unfold peek. destruct (cache (stack s)) as [|x c] eqn:Ec; cbn [hd_error]; [cbn; discriminate|].
    apply st_match_string_upost; [exact U|]. now inversion F.
  - destruct (pop_cache (stack s)) as [C1 C2]. destruct (pop (stack s)) as [st1 o]. cbn [fst snd] in C1, C2.
    destruct o as [x|]; [|cbn; discriminate].
    destruct (cache (stack s)) as [|y c]; [discriminate|]. cbn in C1, C2. injection C2 as ->.
    apply st_match_string_upost; [|now inversion F]. apply utf8_ok_set_stack; [exact U|]. rewrite C1. now inversion F.
  - destruct (pop_cache (stack s)) as [C1 C2]. destruct (pop (stack s)) as [st1 o]. cbn [fst snd] in C1, C2.
    destruct o as [x|]; [|exact U]. cbn [upost]. apply utf8_ok_set_stack; [exact U|]. rewrite C1.
    destruct (cache (stack s)); [constructor|now inversion F].
  - now apply peek_slice_upost.
  - destruct (match_pop_loop _ _ _ _) as [[[st' p] b]|] eqn:M; [|cbn; discriminate].
    destruct (match_pop_loop_boundary _ _ V _ _ _ _ _ B F M) as [B' F'].
    destruct b; cbn [upost].
    + apply utf8_ok_set_pos; [|exact B']. now apply utf8_ok_set_stack.
    + now apply utf8_ok_set_stack.
  - now apply peek_slice_upost.
  - destruct (negb _); [exact U|]. destruct (queue s) as [|[e p|si r tg p] q]; try exact U.
Qed.

(* ---------- rule(): the bookkeeping leaves input, position and stack alone ---------- *)
Definition ips (s : pst) (r : res) : Prop :=
  match r with
  | ROk s' | RErr s' => input s' = input s /\ pos s' = pos s /\ stack s' = stack s
  | RPanic k => k <> PkBoundary
  | ROutOfFuel => True
  end.

Lemma try_add_rule_to_stack_ips s r csn mx s' :
  try_add_rule_to_stack s r csn mx = Some s' -> input s' = input s /\ pos s' = pos s /\ stack s' = stack s.
Proof.
  unfold try_add_rule_to_stack, try_add_new_stack_rule.
  destruct (negb _); [|intros [= <-]; auto].
  destruct (Nat.ltb _ _); [discriminate|]. destruct (Nat.leb _ _); intros [= <-]; auto.
Qed.

Lemma rule_ok_ips rule fr s : ips s (rule_ok rule fr s).
Proof.
  unfold rule_ok.
  set (s1 := if lk_eqb (lookahead s) LNeg then track s rule (rf_pos fr) (rf_pai fr) (rf_nai fr) (rf_attempts fr) else s).
  assert (T : input s1 = input s /\ pos s1 = pos s /\ stack s1 = stack s).
  { unfold s1. destruct (lk_eqb _ _); [|auto]. destruct (track_same s rule (rf_pos fr) (rf_pai fr) (rf_nai fr) (rf_attempts fr)); auto. }
  destruct T as (T1 & T2 & T3).
  assert (K : forall s2, input s2 = input s -> pos s2 = pos s -> stack s2 = stack s ->
     ips s (if pa_enabled s2 then lift ROk (try_add_rule_to_stack s2 rule (rf_csn fr) (rf_max fr)) else ROk s2)).
  { intros s2 E1 E2 E3. destruct (pa_enabled s2); [|cbn; auto].
    destruct (try_add_rule_to_stack s2 rule (rf_csn fr) (rf_max fr)) as [s3|] eqn:Et; [|cbn; discriminate].
    apply try_add_rule_to_stack_ips in Et. cbn. destruct Et as (? & ? & ?). repeat split; congruence. }
  destruct (emits s1).
  - destruct (set_start_end _ _ _) as [q|]; [|cbn; discriminate]. apply K; cbn; auto.
  - apply K; auto.
Qed.

Lemma rule_err_ips rule fr s : ips s (rule_err rule fr s).
Proof.
  unfold rule_err.
  match goal with |- ips s (match ?r with _ => _ end) => destruct r as [s2|] eqn:R1 end; [|cbn; discriminate].
  assert (T : input s2 = input s /\ pos s2 = pos s /\ stack s2 = stack s).
  { destruct (negb _); [|injection R1 as <-; auto].
    destruct (track_same s rule (rf_pos fr) (rf_pai fr) (rf_nai fr) (rf_attempts fr)).
    cbv zeta in R1. destruct (pa_enabled _).
    - apply try_add_rule_to_stack_ips in R1. destruct R1 as (? & ? & ?). repeat split; congruence.
    - injection R1 as <-. auto. }
  destruct T as (T1 & T2 & T3). cbn. destruct (emits s2); cbn; auto.
Qed.

Lemma ips_upost s r : utf8_ok s -> ips s r -> upost r.
Proof.
  intros U. destruct r as [s'|s'|k|]; cbn; auto; intros (E1 & E2 & E3); eapply utf8_ok_same; eauto; congruence.
Qed.

(* ---------- checkpoints ---------- *)
Lemma checkpoint_ok_upost s' a' (k : pst -> res) (kk : forall x, k x = ROk x \/ k x = RErr x) :
  Inv (stack s') a' -> utf8_ok s' -> upost (lift k (checkpoint_ok s')).
Proof.
  intros I U. unfold checkpoint_ok. destruct (inv_clear I) as (st & E & [C _]). rewrite E. cbn [option_map lift].
  assert (P : utf8_ok (set_stack s' st)).
  { apply utf8_ok_set_stack; [exact U|]. rewrite C. cbn. destruct I as [<- _]. apply U. }
  destruct (kk (set_stack s' st)) as [-> | ->]; exact P.
Qed.

Lemma restore_upost s' a' c0 rest (k : pst -> res) (kk : forall x, k x = ROk x \/ k x = RErr x) :
  Inv (stack s') a' -> snaps a' = c0 :: rest -> Forall valid_utf8 c0 ->
  valid_utf8 (input s') -> boundaryb (input s') (pos s') = true -> upost (lift k (restore_st s')).
Proof.
  intros I S F V B. unfold restore_st. destruct (inv_restore I) as (st & E & [C _]). rewrite E. cbn [option_map lift].
  assert (P : utf8_ok (set_stack s' st)).
  { split; [exact V|]. split; [exact B|]. cbn. rewrite C. unfold srestore. rewrite S. exact F. }
  destruct (kk (set_stack s' st)) as [-> | ->]; exact P.
Qed.

Lemma inc_call_utf8 s s1 : inc_call s = Some s1 -> utf8_ok s -> utf8_ok s1.
Proof.
  intros Ei U. destruct (inc_call_frame _ _ Ei) as (_ & St & Po & _ & In & _).
  eapply utf8_ok_same; [| | |exact U]; congruence.
Qed.

(* ---------- the boundary theorem ---------- *)
Section Boundary.
Variable cfg : config.
Variable E : env.
Hypothesis Hcfg : cfg_ok cfg.
Hypothesis HE : env_valid E.

Theorem exec_boundary : forall fuel p s a,
  prog_valid p -> wf s -> Inv (stack s) a -> utf8_ok s -> upost (exec cfg E fuel p s).
Proof.
  induction fuel as [|fuel IH]; intros p s a Vp W I U; [exact Logic.I|].
  destruct p; cbn [exec]; cbn [prog_valid] in Vp.
  - (* PPrim *) now apply exec_prim_upost.
  - (* PRule *)
    destruct (inc_call s) as [s1|] eqn:Ei; [|exact U].
    destruct (inc_call_frame _ _ Ei) as (F1 & St & Po & Qu & In & _).
    pose proof (inc_call_utf8 _ _ Ei U) as U1.
    destruct (rule_enter s1) as [fr s2] eqn:Er.
    assert (Hs2 : s2 = snd (rule_enter s1)) by now rewrite Er.
    destruct (rule_enter_spec s1) as (_ & _ & _ & _ & _ & SQ). rewrite <- Hs2 in SQ. destruct SQ as [qi qp _ _ qs _ _ _ _ _ _ _ _].
    assert (W2 : wf s2) by (unfold wf in *; congruence).
    assert (I2 : Inv (stack s2) a) by (rewrite qs, St; exact I).
    assert (U2 : utf8_ok s2) by (eapply utf8_ok_same; [| | |exact U1]; congruence).
    specialize (IH p s2 a Vp W2 I2 U2).
    destruct (exec cfg E fuel p s2) as [s'|s'|k|]; cbn [upost] in IH; auto.
    + eapply ips_upost; [exact IH|apply rule_ok_ips].
    + eapply ips_upost; [exact IH|apply rule_err_ips].
  - (* PSequence *)
    destruct (inc_call s) as [s1|] eqn:Ei; [|exact U].
    destruct (inc_call_frame _ _ Ei) as (F1 & St & Po & Qu & In & _).
    pose proof (inc_call_utf8 _ _ Ei U) as U1.
    assert (W1 : wf (checkpoint s1)) by (unfold wf in *; cbn; congruence).
    assert (I1 : Inv (stack (checkpoint s1)) (ssnapshot a)) by (cbn; rewrite St; now apply inv_snapshot).
    assert (Uc : utf8_ok (checkpoint s1)) by (eapply utf8_ok_same; [| | |exact U1]; reflexivity).
    specialize (IH p (checkpoint s1) (ssnapshot a) Vp W1 I1 Uc).
    pose proof (exec_post cfg E fuel p (checkpoint s1) (ssnapshot a) W1 I1) as P.
    destruct (exec cfg E fuel p (checkpoint s1)) as [s'|s'|k|]; cbn [upost post] in IH, P; auto.
    + destruct P as (F & W' & a' & I' & S'). apply (checkpoint_ok_upost s' a' ROk); auto.
    + destruct P as (F & W' & a' & I' & S'). destruct F as [fi _ _ _ _ _ _ _ _ _]. cbn in fi.
      apply (restore_upost _ a' (cur a) (snaps a) RErr); auto.
      * destruct I as [<- _]. apply U.
      * cbn. apply IH.
      * cbn. rewrite fi. apply U1.
  - (* PRepeat *)
    destruct (inc_call s) as [s1|] eqn:Ei; [|exact U].
    destruct (inc_call_frame _ _ Ei) as (F1 & St & Po & Qu & In & _).
    apply (IH (PRepeatLoop p) s1 a); [exact Vp|unfold wf in *; congruence|rewrite St; exact I|now apply (inc_call_utf8 s)].
  - (* PRepeatLoop *)
    specialize (IH p s a Vp W I U) as IH1.
    pose proof (exec_post cfg E fuel p s a W I) as P.
    destruct (exec cfg E fuel p s) as [s'|s'|k|]; cbn [upost post] in IH1, P; auto.
    destruct P as (F & W' & a' & I' & S'). now apply (IH (PRepeatLoop p) s' a').
  - (* POptional *)
    destruct (inc_call s) as [s1|] eqn:Ei; [|exact U].
    destruct (inc_call_frame _ _ Ei) as (F1 & St & Po & Qu & In & _).
    assert (P : upost (exec cfg E fuel p s1)).
    { apply (IH p s1 a); [exact Vp|unfold wf in *; congruence|rewrite St; exact I|now apply (inc_call_utf8 s)]. }
    destruct (exec cfg E fuel p s1); auto.
  - (* PLookahead *)
    destruct (inc_call s) as [s1|] eqn:Ei; [|exact U].
    destruct (inc_call_frame _ _ Ei) as (F1 & St & Po & Qu & In & _).
    pose proof (inc_call_utf8 _ _ Ei U) as U1.
    set (s2 := set_lookahead s1 (enter_lookahead positive (lookahead s1))).
    assert (W2 : wf (checkpoint s2)) by (unfold wf in *; cbn; congruence).
    assert (I2 : Inv (stack (checkpoint s2)) (ssnapshot a)) by (cbn; rewrite St; now apply inv_snapshot).
    assert (Uc : utf8_ok (checkpoint s2)) by (eapply utf8_ok_same; [| | |exact U1]; reflexivity).
    specialize (IH p (checkpoint s2) (ssnapshot a) Vp W2 I2 Uc).
    pose proof (exec_post cfg E fuel p (checkpoint s2) (ssnapshot a) W2 I2) as P.
    destruct (exec cfg E fuel p (checkpoint s2)) as [s'|s'|k|]; cbn [upost post] in IH, P; auto.
    + destruct P as (F & W' & a' & I' & S'). destruct F as [fi _ _ _ _ _ _ _ _ _]. cbn in fi.
      apply (restore_upost _ a' (cur a) (snaps a) (fun x => if positive then ROk x else RErr x)); auto.
      * intros x; destruct positive; auto.
      * destruct I as [<- _]. apply U.
      * cbn. apply IH.
      * cbn. rewrite fi. apply U1.
    + destruct P as (F & W' & a' & I' & S'). destruct F as [fi _ _ _ _ _ _ _ _ _]. cbn in fi.
      apply (restore_upost _ a' (cur a) (snaps a) (fun x => if positive then RErr x else ROk x)); auto.
      * intros x; destruct positive; auto.
      * destruct I as [<- _]. apply U.
      * cbn. apply IH.
      * cbn. rewrite fi. apply U1.
  - (* PAtomic *)
    destruct (inc_call s) as [s1|] eqn:Ei; [|exact U].
    destruct (inc_call_frame _ _ Ei) as (F1 & St & Po & Qu & In & _).
    pose proof (inc_call_utf8 _ _ Ei U) as U1.
    assert (W1 : wf s1) by (unfold wf in *; congruence).
    assert (I1 : Inv (stack s1) a) by (rewrite St; exact I).
    destruct (atom_eqb (atomicity s1) a0) eqn:T; cbn [negb].
    + specialize (IH p s1 a Vp W1 I1 U1). destruct (exec cfg E fuel p s1) as [s'|s'|k|]; auto.
    + specialize (IH p (set_atomicity s1 a0) a Vp W1 I1 U1).
      destruct (exec cfg E fuel p (set_atomicity s1 a0)) as [s'|s'|k|]; cbn [upost] in *; auto.
  - (* PStackPush *)
    destruct (inc_call s) as [s1|] eqn:Ei; [|exact U].
    destruct (inc_call_frame _ _ Ei) as (F1 & St & Po & Qu & In & _).
    pose proof (inc_call_utf8 _ _ Ei U) as U1.
    assert (W1 : wf s1) by (unfold wf in *; congruence).
    assert (I1 : Inv (stack s1) a) by (rewrite St; exact I).
    specialize (IH p s1 a Vp W1 I1 U1).
    pose proof (exec_post cfg E fuel p s1 a W1 I1) as P.
    destruct (exec cfg E fuel p s1) as [s'|s'|k|]; cbn [upost post] in IH, P; auto.
    destruct P as (F & W' & a' & I' & S').
    destruct (Nat.ltb (pos s') (pos s1)) eqn:L; [cbn; discriminate|]. apply Nat.ltb_ge in L.
    cbn [upost]. apply utf8_ok_set_stack; [exact IH|]. cbn. constructor; [|apply IH].
    destruct IH as (V' & B' & _). apply valid_slice; auto.
    destruct F as [fi _ _ _ _ _ _ _ _ _]. rewrite fi. apply U1.
  - (* PRestoreOnErr *)
    assert (I1 : Inv (stack (checkpoint s)) (ssnapshot a)) by (cbn; now apply inv_snapshot).
    assert (Uc : utf8_ok (checkpoint s)) by (eapply utf8_ok_same; [| | |exact U]; reflexivity).
    specialize (IH p (checkpoint s) (ssnapshot a) Vp W I1 Uc).
    pose proof (exec_post cfg E fuel p (checkpoint s) (ssnapshot a) W I1) as P.
    destruct (exec cfg E fuel p (checkpoint s)) as [s'|s'|k|]; cbn [upost post] in IH, P; auto.
    + destruct P as (F & W' & a' & I' & S'). apply (checkpoint_ok_upost s' a' ROk); auto.
    + destruct P as (F & W' & a' & I' & S').
      apply (restore_upost _ a' (cur a) (snaps a) RErr); auto; try apply IH.
      destruct I as [<- _]. apply U.
  - (* PAndThen *)
    destruct Vp as [Vp1 Vp2]. specialize (IH p1 s a Vp1 W I U) as IH1.
    pose proof (exec_post cfg E fuel p1 s a W I) as P.
    destruct (exec cfg E fuel p1 s) as [s'|s'|k|]; cbn [upost post] in IH1, P; auto.
    destruct P as (F & W' & a' & I' & S'). now apply (IH p2 s' a').
  - (* POrElse *)
    destruct Vp as [Vp1 Vp2]. specialize (IH p1 s a Vp1 W I U) as IH1.
    pose proof (exec_post cfg E fuel p1 s a W I) as P.
    destruct (exec cfg E fuel p1 s) as [s'|s'|k|]; cbn [upost post] in IH1, P; auto.
    destruct P as (F & W' & a' & I' & S'). now apply (IH p2 s' a').
  - (* PIfNonAtomic *) destruct Vp as [Vp1 Vp2]. destruct (atom_eqb (atomicity s) NonAtomic); eapply IH; eauto.
  - (* PCall *) destruct (E f) as [q|] eqn:Ef; [|cbn; discriminate]. eapply IH; eauto.
Qed.

Corollary exec_no_boundary_panic fuel p s a :
  prog_valid p -> wf s -> Inv (stack s) a -> utf8_ok s -> exec cfg E fuel p s <> RPanic PkBoundary.
Proof.
  intros Vp W I U Ex. pose proof (exec_boundary fuel p s a Vp W I U) as P. rewrite Ex in P. now apply P.
Qed.

End Boundary.

(* ---------- memchr = plain loop, at the level of exec ---------- *)
Lemma exec_prim_cfg_eq cfg1 cfg2 o s : cfg_ok cfg1 -> cfg_ok cfg2 -> prim_valid o -> utf8_ok s ->
  exec_prim cfg1 o s = exec_prim cfg2 o s.
Proof.
  intros H1 H2 Vo (V & B & F). destruct o; try reflexivity. cbn [exec_prim prim_valid] in *.
  now rewrite (skip_until_eq_basic cfg1 _ _ _ H1 B Vo), (skip_until_eq_basic cfg2 _ _ _ H2 B Vo).
Qed.

Section CfgEq.
Variables cfg1 cfg2 : config.
Variable E : env.
Hypothesis H1 : cfg_ok cfg1.
Hypothesis H2 : cfg_ok cfg2.
Hypothesis HE : env_valid E.

Theorem exec_cfg_eq : forall fuel p s a,
  prog_valid p -> wf s -> Inv (stack s) a -> utf8_ok s -> exec cfg1 E fuel p s = exec cfg2 E fuel p s.
Proof.
  induction fuel as [|fuel IH]; intros p s a Vp W I U; [reflexivity|].
  destruct p; cbn [exec]; cbn [prog_valid] in Vp.
  - (* PPrim *) now apply exec_prim_cfg_eq.
  - (* PRule *)
    destruct (inc_call s) as [s1|] eqn:Ei; [|reflexivity].
    destruct (inc_call_frame _ _ Ei) as (F1 & St & Po & Qu & In & _).
    pose proof (inc_call_utf8 _ _ Ei U) as U1.
    destruct (rule_enter s1) as [fr s2] eqn:Er.
    assert (Hs2 : s2 = snd (rule_enter s1)) by now rewrite Er.
    destruct (rule_enter_spec s1) as (_ & _ & _ & _ & _ & SQ). rewrite <- Hs2 in SQ.
    destruct SQ as [qi qp _ _ qs _ _ _ _ _ _ _ _].
    rewrite (IH p s2 a); [reflexivity|exact Vp|unfold wf in *; congruence|rewrite qs, St; exact I|].
    eapply utf8_ok_same; [| | |exact U1]; congruence.
  - (* PSequence *)
    destruct (inc_call s) as [s1|] eqn:Ei; [|reflexivity].
    destruct (inc_call_frame _ _ Ei) as (F1 & St & Po & Qu & In & _).
    pose proof (inc_call_utf8 _ _ Ei U) as U1.
    rewrite (IH p (checkpoint s1) (ssnapshot a)); [reflexivity|exact Vp|unfold wf in *; cbn; congruence| |].
    + cbn; rewrite St; now apply inv_snapshot.
    + eapply utf8_ok_same; [| | |exact U1]; reflexivity.
  - (* PRepeat *)
    destruct (inc_call s) as [s1|] eqn:Ei; [|reflexivity].
    destruct (inc_call_frame _ _ Ei) as (F1 & St & Po & Qu & In & _).
    apply (IH (PRepeatLoop p) s1 a); [exact Vp|unfold wf in *; congruence|rewrite St; exact I|now apply (inc_call_utf8 s)].
  - (* PRepeatLoop *)
    rewrite <- (IH p s a Vp W I U).
    pose proof (exec_post cfg1 E fuel p s a W I) as P.
    pose proof (exec_boundary cfg1 E H1 HE fuel p s a Vp W I U) as Q.
    destruct (exec cfg1 E fuel p s) as [s'|s'|k|]; cbn [upost post] in P, Q; auto.
    destruct P as (F & W' & a' & I' & S'). now apply (IH (PRepeatLoop p) s' a').
  - (* POptional *)
    destruct (inc_call s) as [s1|] eqn:Ei; [|reflexivity].
    destruct (inc_call_frame _ _ Ei) as (F1 & St & Po & Qu & In & _).
    rewrite (IH p s1 a); [reflexivity|exact Vp|unfold wf in *; congruence|rewrite St; exact I|now apply (inc_call_utf8 s)].
  - (* PLookahead *)
    destruct (inc_call s) as [s1|] eqn:Ei; [|reflexivity].
    destruct (inc_call_frame _ _ Ei) as (F1 & St & Po & Qu & In & _).
    pose proof (inc_call_utf8 _ _ Ei U) as U1.
    set (s2 := set_lookahead s1 (enter_lookahead positive (lookahead s1))).
    rewrite (IH p (checkpoint s2) (ssnapshot a)); [reflexivity|exact Vp|unfold wf in *; cbn; congruence| |].
    + cbn; rewrite St; now apply inv_snapshot.
    + eapply utf8_ok_same; [| | |exact U1]; reflexivity.
  - (* PAtomic *)
    destruct (inc_call s) as [s1|] eqn:Ei; [|reflexivity].
    destruct (inc_call_frame _ _ Ei) as (F1 & St & Po & Qu & In & _).
    pose proof (inc_call_utf8 _ _ Ei U) as U1.
    assert (W1 : wf s1) by (unfold wf in *; congruence).
    assert (I1 : Inv (stack s1) a) by (rewrite St; exact I).
    destruct (negb (atom_eqb (atomicity s1) a0)).
    + rewrite (IH p (set_atomicity s1 a0) a Vp W1 I1 U1). reflexivity.
    + rewrite (IH p s1 a Vp W1 I1 U1). reflexivity.
  - (* PStackPush *)
    destruct (inc_call s) as [s1|] eqn:Ei; [|reflexivity].
    destruct (inc_call_frame _ _ Ei) as (F1 & St & Po & Qu & In & _).
    rewrite (IH p s1 a); [reflexivity|exact Vp|unfold wf in *; congruence|rewrite St; exact I|now apply (inc_call_utf8 s)].
  - (* PRestoreOnErr *)
    rewrite (IH p (checkpoint s) (ssnapshot a)); [reflexivity|exact Vp|exact W| |].
    + cbn; now apply inv_snapshot.
    + eapply utf8_ok_same; [| | |exact U]; reflexivity.
  - (* PAndThen *)
    destruct Vp as [Vp1 Vp2]. rewrite <- (IH p1 s a Vp1 W I U).
    pose proof (exec_post cfg1 E fuel p1 s a W I) as P.
    pose proof (exec_boundary cfg1 E H1 HE fuel p1 s a Vp1 W I U) as Q.
    destruct (exec cfg1 E fuel p1 s) as [s'|s'|k|]; cbn [upost post] in P, Q; auto.
    destruct P as (F & W' & a' & I' & S'). now apply (IH p2 s' a').
  - (* POrElse *)
    destruct Vp as [Vp1 Vp2]. rewrite <- (IH p1 s a Vp1 W I U).
    pose proof (exec_post cfg1 E fuel p1 s a W I) as P.
    pose proof (exec_boundary cfg1 E H1 HE fuel p1 s a Vp1 W I U) as Q.
    destruct (exec cfg1 E fuel p1 s) as [s'|s'|k|]; cbn [upost post] in P, Q; auto.
    destruct P as (F & W' & a' & I' & S'). now apply (IH p2 s' a').
  - (* PIfNonAtomic *) destruct Vp as [Vp1 Vp2]. destruct (atom_eqb (atomicity s) NonAtomic); eapply IH; eauto.
  - (* PCall *) destruct (E f) as [q|] eqn:Ef; [|reflexivity]. eapply IH; eauto.
Qed.

End CfgEq.

(* the statement for the two feature settings: memchr (repaired arm) against the plain loop *)
Corollary exec_memchr_eq_basic E fuel p s a l1 l2 f2 :
  env_valid E -> prog_valid p -> wf s -> Inv (stack s) a -> utf8_ok s ->
  exec {| memchr := true; fixed3 := true; fixedlim := l1 |} E fuel p s =
  exec {| memchr := false; fixed3 := f2; fixedlim := l2 |} E fuel p s.
Proof.
  intros HE Vp W I U. apply (exec_cfg_eq _ _ E) with (a := a); auto.
  - intros _. reflexivity.
  - intros Hm. discriminate Hm.
Qed.

(* non-vacuity: the initial state of a parse of valid input satisfies the hypotheses *)
Lemma init_utf8_ok inp lim detail : valid_utf8 inp -> utf8_ok (init inp lim detail).
Proof. intros V. split; [exact V|]. split; [cbn; now apply boundaryb_0|constructor]. Qed.

Lemma init_wf_inv inp lim detail : wf (init inp lim detail) /\ Inv (stack (init inp lim detail)) (@sempty (list byte)).
Proof. split; [unfold wf; cbn; lia|apply inv_empty]. Qed.

Corollary run_state_no_boundary_panic cfg E fuel p inp lim detail :
  cfg_ok cfg -> env_valid E -> prog_valid p -> valid_utf8 inp ->
  run_state cfg E fuel p inp lim detail <> RPanic PkBoundary.
Proof.
  intros Hc HE Vp V. unfold run_state. destruct (init_wf_inv inp lim detail) as [W I].
  eapply exec_no_boundary_panic; eauto. now apply init_utf8_ok.
Qed.

(* with the arm as found the equivalence fails already for a single skip_until (same witness as
   skip_until_memchr_unfixed_refuted): the parse goes on from offset 2 instead of 0 *)
Example exec_memchr_unfixed_refuted :
  let inp := [120; 120; 97]%N in let p := PPrim (MSkipUntil [[97]; [98]; []]%N) in
  let E : env := fun _ => None in
  match run_state {| memchr := true; fixed3 := false; fixedlim := true |} E 1 p inp None false,
        run_state {| memchr := false; fixed3 := false; fixedlim := true |} E 1 p inp None false with
  | ROk s1, ROk s2 => pos s1 = 2 /\ pos s2 = 0
  | _, _ => False
  end.
Proof. vm_compute. auto. Qed.
