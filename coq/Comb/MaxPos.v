(* Layer C, C15 part 3: max_position.
   max_position is only ever assigned the position of the state in which a token match has just
   succeeded or failed.  Hence ANY property Q of (input, position) that holds of the position of every
   state the interpreter passes through also holds of max_position.  The reduction is stated for an
   abstract state invariant Inv0 (preserved by exec on the admitted programs and by the five
   "entering" steps of the combinators) and instantiated (a) with Q = "<= |input|" unconditionally
   and (b) with Q = "is a char boundary" in MaxPosUtf8.v.                                         *)
From Coq Require Import List Arith NArith ZArith Bool Lia.
Import ListNotations.
Require Import PV.Stack.Model PV.Stack.Proofs PV.Comb.PState PV.Comb.Bytes PV.Comb.Prog PV.Comb.Exec PV.Comb.Frame
               PV.Comb.Detail PV.Comb.DetailProofs.

Arguments Nat.sub : simpl never.
Arguments Nat.ltb : simpl never.
Arguments Nat.leb : simpl never.
Arguments Nat.eqb : simpl never.

Lemma res_all_lift (P : pst -> Prop) (k : pst -> res) (o : option pst) :
  (forall x, k x = ROk x \/ k x = RErr x) -> (forall x, o = Some x -> P x) -> res_all P (lift k o).
Proof. intros K H. destruct o as [x|]; cbn; [|exact I]. destruct (K x) as [-> | ->]; cbn; auto. Qed.

Lemma res_all_imp (P R : pst -> Prop) r : (forall x, P x -> R x) -> res_all P r -> res_all R r.
Proof. destruct r; cbn; auto. Qed.

Section Reduction.
Variable cfg : config.
Variable E : env.
Variable Inv0 : pst -> Prop.
Variable okp : prog -> Prop.
Variable Q : list byte -> nat -> Prop.
Hypothesis I_Q : forall s, Inv0 s -> Q (input s) (pos s).
Hypothesis I_exec : forall fuel p s, okp p -> Inv0 s -> res_all Inv0 (exec cfg E fuel p s).
Hypothesis I_enter : forall s t, Inv0 s -> enter_step s t -> Inv0 t.
Hypothesis okp_children : forall p q, okp p -> In q (children p) -> okp q.
Hypothesis okp_env : forall f q, E f = Some q -> okp q.

Definition mq (s : pst) : Prop := Q (input s) (max_position s).

Lemma mq_dsame s s' : dsame s s' -> mq s -> mq s'.
Proof. intros (_ & M & _ & In). unfold mq. rewrite M, In. auto. Qed.

Lemma mq_rule_exit fr s' r : mq s' -> rule_exit fr s' r -> res_all mq r.
Proof.
  intros H X. unfold rule_exit in X. eapply res_all_imp; [|exact X].
  intros x (_ & M & In & _). unfold mq. rewrite M, In. exact H.
Qed.

Theorem max_position_Q : forall fuel p s, okp p -> Inv0 s -> mq s -> res_all mq (exec cfg E fuel p s).
Proof.
  induction fuel as [|fuel IH]; intros p s Vp Is Ms; [exact I|].
  pose proof (fun q => okp_children p q Vp) as Ch.
  destruct p; cbn [exec]; cbn [children] in Ch.
  - (* PPrim: max_position is unchanged or is the position of the result, a state exec has reached *)
    pose proof (I_exec (S fuel) (PPrim o) s Vp Is) as Ir. cbn [exec] in Ir.
    pose proof (exec_prim_mp cfg o s) as Mp. pose proof (proj2 (exec_prim_erase cfg o s)) as D.
    unfold mp_step in Mp.
    destruct (exec_prim cfg o s) as [s'|s'|k|]; cbn in *; auto;
      destruct D as (_ & _ & In); (destruct Mp as [M|M]; unfold mq; rewrite M; [rewrite In; exact Ms|apply I_Q; exact Ir]).
  - (* PRule *)
    destruct (inc_call s) as [s1|] eqn:Ei; [|exact Ms].
    pose proof (inc_call_dsame _ _ Ei) as D1. pose proof (I_enter _ _ Is (es_inc _ _ Ei)) as I1.
    pose proof (I_enter _ _ I1 (es_rule s1)) as I2. pose proof (rule_enter_dsame s1) as D2.
    pose proof (csn_cond_enter s1) as CE.
    pose proof (fun s' => rule_ok_erase r (fst (rule_enter s1)) (fst (rule_enter s1)) s') as RO.
    pose proof (fun s' => rule_err_erase r (fst (rule_enter s1)) (fst (rule_enter s1)) s') as RE.
    assert (FE : fr_core_eq (fst (rule_enter s1)) (fst (rule_enter s1))) by (repeat split).
    destruct (rule_enter s1) as [fr s2]. cbn [fst snd] in *.
    assert (M2 : mq s2) by (eapply mq_dsame; [exact D2|]; eapply mq_dsame; eauto).
    specialize (IH p s2 (Ch p (or_introl eq_refl)) I2 M2).
    pose proof (proj2 (exec_erase cfg E fuel p s2)) as D.
    destruct (exec cfg E fuel p s2) as [s'|s'|k|]; cbn in IH, D; try exact I.
    + eapply mq_rule_exit; [exact IH|]. apply (RO s' FE (CE s' D)).
    + eapply mq_rule_exit; [exact IH|]. apply (RE s' FE (CE s' D)).
  - (* PSequence *)
    destruct (inc_call s) as [s1|] eqn:Ei; [|exact Ms].
    pose proof (inc_call_dsame _ _ Ei) as D1. pose proof (I_enter _ _ Is (es_inc _ _ Ei)) as I1.
    pose proof (I_enter _ _ I1 (es_checkpoint s1)) as I2.
    assert (M2 : mq (checkpoint s1)) by (eapply mq_dsame; [apply dsame_set_stack|]; eapply mq_dsame; eauto).
    specialize (IH p (checkpoint s1) (Ch p (or_introl eq_refl)) I2 M2).
    destruct (exec cfg E fuel p (checkpoint s1)) as [s'|s'|k|]; cbn in IH; try exact I.
    + apply res_all_lift; [auto|]. intros x Hx. eapply mq_dsame; [apply checkpoint_ok_dsame; exact Hx|exact IH].
    + apply res_all_lift; [auto|]. intros x Hx. eapply mq_dsame; [apply restore_st_dsame; exact Hx|].
      eapply mq_dsame; [|exact IH]. repeat split.
  - (* PRepeat *)
    destruct (inc_call s) as [s1|] eqn:Ei; [|exact Ms].
    pose proof (inc_call_dsame _ _ Ei) as D1. pose proof (I_enter _ _ Is (es_inc _ _ Ei)) as I1.
    apply IH; [apply Ch; left; reflexivity|exact I1|eapply mq_dsame; eauto].
  - (* PRepeatLoop *)
    pose proof (I_exec fuel p s (Ch p (or_introl eq_refl)) Is) as Ir.
    specialize (IH p s (Ch p (or_introl eq_refl)) Is Ms) as IH1.
    destruct (exec cfg E fuel p s) as [s'|s'|k|]; cbn in IH1, Ir; try exact I; [|exact IH1].
    apply IH; auto.
  - (* POptional *)
    destruct (inc_call s) as [s1|] eqn:Ei; [|exact Ms].
    pose proof (inc_call_dsame _ _ Ei) as D1. pose proof (I_enter _ _ Is (es_inc _ _ Ei)) as I1.
    assert (M1 : mq s1) by (eapply mq_dsame; eauto).
    specialize (IH p s1 (Ch p (or_introl eq_refl)) I1 M1).
    destruct (exec cfg E fuel p s1); cbn in *; auto.
  - (* PLookahead *)
    destruct (inc_call s) as [s1|] eqn:Ei; [|exact Ms].
    pose proof (inc_call_dsame _ _ Ei) as D1. pose proof (I_enter _ _ Is (es_inc _ _ Ei)) as I1.
    set (s2 := set_lookahead s1 (enter_lookahead positive (lookahead s1))).
    pose proof (I_enter _ _ I1 (es_lookahead s1 (enter_lookahead positive (lookahead s1)))) as I2. fold s2 in I2.
    pose proof (I_enter _ _ I2 (es_checkpoint s2)) as I3.
    assert (M3 : mq (checkpoint s2)).
    { eapply mq_dsame; [apply dsame_set_stack|]. eapply mq_dsame; [apply dsame_set_lookahead|]. eapply mq_dsame; eauto. }
    specialize (IH p (checkpoint s2) (Ch p (or_introl eq_refl)) I3 M3).
    destruct (exec cfg E fuel p (checkpoint s2)) as [s'|s'|k|]; cbn in IH; try exact I.
    + apply res_all_lift; [intros x; destruct positive; auto|]. intros x Hx.
      eapply mq_dsame; [apply restore_st_dsame; exact Hx|]. eapply mq_dsame; [|exact IH]. repeat split.
    + apply res_all_lift; [intros x; destruct positive; auto|]. intros x Hx.
      eapply mq_dsame; [apply restore_st_dsame; exact Hx|]. eapply mq_dsame; [|exact IH]. repeat split.
  - (* PAtomic *)
    destruct (inc_call s) as [s1|] eqn:Ei; [|exact Ms].
    pose proof (inc_call_dsame _ _ Ei) as D1. pose proof (I_enter _ _ Is (es_inc _ _ Ei)) as I1.
    assert (M1 : mq s1) by (eapply mq_dsame; eauto).
    destruct (negb (atom_eqb (atomicity s1) a)).
    + pose proof (I_enter _ _ I1 (es_atomicity s1 a)) as I2.
      assert (M2 : mq (set_atomicity s1 a)) by (eapply mq_dsame; [apply dsame_set_atomicity|exact M1]).
      specialize (IH p (set_atomicity s1 a) (Ch p (or_introl eq_refl)) I2 M2).
      destruct (exec cfg E fuel p (set_atomicity s1 a)); cbn in *; auto.
    + specialize (IH p s1 (Ch p (or_introl eq_refl)) I1 M1).
      destruct (exec cfg E fuel p s1); cbn in *; auto.
  - (* PStackPush *)
    destruct (inc_call s) as [s1|] eqn:Ei; [|exact Ms].
    pose proof (inc_call_dsame _ _ Ei) as D1. pose proof (I_enter _ _ Is (es_inc _ _ Ei)) as I1.
    assert (M1 : mq s1) by (eapply mq_dsame; eauto).
    specialize (IH p s1 (Ch p (or_introl eq_refl)) I1 M1).
    destruct (exec cfg E fuel p s1) as [s'|s'|k|]; cbn in *; auto.
    destruct (Nat.ltb (pos s') (pos s1)); cbn; auto.
  - (* PRestoreOnErr *)
    pose proof (I_enter _ _ Is (es_checkpoint s)) as I2.
    assert (M2 : mq (checkpoint s)) by (eapply mq_dsame; [apply dsame_set_stack|exact Ms]).
    specialize (IH p (checkpoint s) (Ch p (or_introl eq_refl)) I2 M2).
    destruct (exec cfg E fuel p (checkpoint s)) as [s'|s'|k|]; cbn in IH; try exact I.
    + apply res_all_lift; [auto|]. intros x Hx. eapply mq_dsame; [apply checkpoint_ok_dsame; exact Hx|exact IH].
    + apply res_all_lift; [auto|]. intros x Hx. eapply mq_dsame; [apply restore_st_dsame; exact Hx|exact IH].
  - (* PAndThen *)
    pose proof (I_exec fuel p1 s (Ch p1 (or_introl eq_refl)) Is) as Ir.
    specialize (IH p1 s (Ch p1 (or_introl eq_refl)) Is Ms) as IH1.
    destruct (exec cfg E fuel p1 s) as [s'|s'|k|]; cbn in IH1, Ir; try exact I; [|exact IH1].
    apply IH; auto. apply Ch. right; left; reflexivity.
  - (* POrElse *)
    pose proof (I_exec fuel p1 s (Ch p1 (or_introl eq_refl)) Is) as Ir.
    specialize (IH p1 s (Ch p1 (or_introl eq_refl)) Is Ms) as IH1.
    destruct (exec cfg E fuel p1 s) as [s'|s'|k|]; cbn in IH1, Ir; try exact I; [exact IH1|].
    apply IH; auto. apply Ch. right; left; reflexivity.
  - (* PIfNonAtomic *)
    destruct (atom_eqb (atomicity s) NonAtomic); apply IH; auto; apply Ch; [left|right; left]; reflexivity.
  - (* PCall *)
    destruct (E f) as [q|] eqn:Ef; [|exact I]. apply IH; auto. eapply okp_env; eauto.
Qed.

End Reduction.

(* ---------- the entering steps keep input, position, the stack contents and its snapshot structure ---------- *)
Lemma enter_step_core s t : enter_step s t ->
  input t = input s /\ pos t = pos s /\ cache (stack t) = cache (stack s) /\ dsame s t.
Proof.
  intros H. destruct H as [s s1 Ei|s|s|s l|s a].
  - destruct (inc_call_frame _ _ Ei) as (_ & St & Po & _ & In & _). repeat split; try congruence;
      destruct (inc_call_dsame _ _ Ei) as (A & B & C & D); auto.
  - destruct (rule_enter_spec s) as (_ & _ & _ & _ & _ & SQ). destruct SQ.
    repeat split; try congruence; destruct (rule_enter_dsame s) as (A & B & C & D); auto.
  - repeat split.
  - repeat split.
  - repeat split.
Qed.

Lemma enter_step_wf_inv s t : enter_step s t -> wf s /\ (exists a, Inv (stack s) a) -> wf t /\ (exists a, Inv (stack t) a).
Proof.
  intros H [W [a I]]. destruct H as [s s1 Ei|s|s|s l|s x].
  - destruct (inc_call_frame _ _ Ei) as (_ & St & Po & _ & In & _). split; [unfold wf in *; congruence|exists a; congruence].
  - destruct (rule_enter_spec s) as (_ & _ & _ & _ & _ & SQ). destruct SQ. split; [unfold wf in *; congruence|exists a; congruence].
  - split; [exact W|]. exists (ssnapshot a). cbn. now apply inv_snapshot.
  - split; [exact W|exists a; exact I].
  - split; [exact W|exists a; exact I].
Qed.

(* (a) max_position never exceeds the input length: unconditional *)
Theorem max_position_le cfg E fuel p s a :
  wf s -> Inv (stack s) a -> max_position s <= length (input s) ->
  res_all (fun s' => max_position s' <= length (input s')) (exec cfg E fuel p s).
Proof.
  intros W I M.
  apply (max_position_Q cfg E (fun s => wf s /\ exists a, Inv (stack s) a) (fun _ => True) (fun inp p => p <= length inp)); auto.
  - intros x [Wx _]. exact Wx.
  - intros f q x _ [Wx [b Ix]]. pose proof (exec_post cfg E f q x b Wx Ix) as P.
    destruct (exec cfg E f q x); cbn in *; auto; destruct P as (_ & W' & a' & I' & _); split; eauto.
  - intros x t Hx St. eapply enter_step_wf_inv; eauto.
  - split; [exact W|exists a; exact I].
Qed.

Corollary run_state_max_position_le cfg E fuel p inp lim detail :
  res_all (fun s' => max_position s' <= length inp /\ input s' = inp) (run_state cfg E fuel p inp lim detail).
Proof.
  unfold run_state.
  assert (W : wf (init inp lim detail)) by (unfold wf; cbn; lia).
  assert (I : Inv (stack (init inp lim detail)) (@sempty (list byte))) by apply inv_empty.
  pose proof (max_position_le cfg E fuel p (init inp lim detail) _ W I (Nat.le_0_l _)) as H.
  pose proof (proj2 (exec_erase cfg E fuel p (init inp lim detail))) as D.
  destruct (exec cfg E fuel p (init inp lim detail)); cbn in *; auto; destruct D as (_ & _ & In); rewrite In in H; auto.
Qed.

(* (b) the reduction for "is a char boundary", in the two forms:
   - from an arbitrary state invariant that implies a boundary position (general form),
   - from the bare statement "exec keeps the position on a boundary" (the form asked for). *)
Theorem max_position_boundary_from_invariant cfg E (Inv0 : pst -> Prop) (okp : prog -> Prop) :
  (forall s, Inv0 s -> pos_boundary_inv s) ->
  (forall fuel p s, okp p -> Inv0 s -> res_all Inv0 (exec cfg E fuel p s)) ->
  (forall s t, Inv0 s -> enter_step s t -> Inv0 t) ->
  (forall p q, okp p -> In q (children p) -> okp q) ->
  (forall f q, E f = Some q -> okp q) ->
  forall fuel p s, okp p -> Inv0 s -> max_boundary_inv s -> res_all max_boundary_inv (exec cfg E fuel p s).
Proof.
  intros H1 H2 H3 H4 H5 fuel p s Vp Is Ms.
  exact (max_position_Q cfg E Inv0 okp (fun inp q => boundaryb inp q = true) H1 H2 H3 H4 H5 fuel p s Vp Is Ms).
Qed.

Theorem max_position_boundary_from_pos_boundary cfg E :
  (forall fuel p s, pos_boundary_inv s -> res_all pos_boundary_inv (exec cfg E fuel p s)) ->
  forall fuel p s, pos_boundary_inv s -> max_boundary_inv s -> res_all max_boundary_inv (exec cfg E fuel p s).
Proof.
  intros H fuel p s Ps Ms.
  apply (max_position_boundary_from_invariant cfg E pos_boundary_inv (fun _ => True)); auto.
  intros x t Hx St. destruct (enter_step_core _ _ St) as (In & Po & _). unfold pos_boundary_inv in *. rewrite In, Po. exact Hx.
Qed.
