(* Layer C proofs, part 3a (C12): the state functions of the model never read `calls`/`limit`
   except through `inc_call` and `limit_reached`.  This is expressed as commutation with `recl`
   (replace the two call-limit fields): f (recl s c l) = recl (f s) c l.                      *)
From Coq Require Import List Arith NArith ZArith Bool Lia.
Import ListNotations.
Require Import PV.Stack.Model PV.Comb.PState PV.Comb.Bytes PV.Comb.Prog PV.Comb.Exec.

Arguments Nat.sub : simpl never.
Arguments Nat.ltb : simpl never.
Arguments Nat.leb : simpl never.
Arguments Nat.eqb : simpl never.
Arguments skipn : simpl never.
Arguments firstn : simpl never.
Arguments match_string : simpl never.
Arguments match_insensitive : simpl never.
Arguments match_range : simpl never.
Arguments match_char_by : simpl never.
Arguments skip : simpl never.
Arguments skip_until : simpl never.
Arguments match_all : simpl never.
Arguments match_pop_loop : simpl never.
Arguments constrain_idxs : simpl never.
Arguments vslice : simpl never.
Arguments vtruncate : simpl never.
Arguments push : simpl never.
Arguments pop : simpl never.
Arguments peek : simpl never.
Arguments snapshot : simpl never.
Arguments restore : simpl never.
Arguments clear_snapshot : simpl never.
Arguments set_start_end : simpl never.
Arguments existsb : simpl never.
Arguments filter : simpl never.
Arguments map : simpl never.
Arguments app : simpl never.
Arguments length : simpl never.
Arguments rev : simpl never.

(* ---------- replacing the two call-limit fields ---------- *)
Definition recl (s : pst) (c : nat) (l : option nat) : pst := set_calls (set_limit s l) c.

Definition rmap (f : pst -> pst) (r : res) : res :=
  match r with ROk s => ROk (f s) | RErr s => RErr (f s) | RPanic k => RPanic k | ROutOfFuel => ROutOfFuel end.

Lemma recl_id s : recl s (calls s) (limit s) = s.
Proof. destruct s; reflexivity. Qed.
Lemma recl_recl s c l c' l' : recl (recl s c l) c' l' = recl s c' l'.
Proof. reflexivity. Qed.
Lemma calls_recl s c l : calls (recl s c l) = c. Proof. reflexivity. Qed.
Lemma limit_recl s c l : limit (recl s c l) = l. Proof. reflexivity. Qed.

(* a state function / continuation that never looks at calls/limit *)
Definition scomm (f : pst -> pst) : Prop := forall s c l, f (recl s c l) = recl (f s) c l.
Definition ocomm (g : pst -> option pst) : Prop :=
  forall s c l, g (recl s c l) = option_map (fun x => recl x c l) (g s).
Definition kcomm (k : pst -> res) : Prop := forall s c l, k (recl s c l) = rmap (fun x => recl x c l) (k s).

Lemma scomm_keeps f : scomm f -> forall s, calls (f s) = calls s /\ limit (f s) = limit s.
Proof.
  intros H s. specialize (H s (calls s) (limit s)). rewrite recl_id in H.
  rewrite H. split; reflexivity.
Qed.

Lemma kcomm_keeps k : kcomm k -> forall s s', (k s = ROk s' \/ k s = RErr s') -> calls s' = calls s /\ limit s' = limit s.
Proof.
  intros H s s' K. specialize (H s (calls s) (limit s)). rewrite recl_id in H.
  destruct K as [K|K]; rewrite K in H; cbn in H; injection H as H; rewrite H; split; reflexivity.
Qed.

(* destruct every `match`/`if` scrutinee in the goal, innermost conditions first *)
Ltac split_matches :=
  repeat (match goal with
          | |- context [match ?x with _ => _ end] =>
              match x with
              | context [match _ with _ => _ end] => fail 1
              | _ => destruct x eqn:?
              end
          end; cbn).

Ltac comm_tac :=
  intros [inp po qu la pa na ap at_ st ca li en cs ex un mp] c l; cbn; split_matches; try reflexivity; try congruence.

(* ---------- every helper of the model commutes with recl ---------- *)
Lemma push_token_comm t neg : scomm (fun s => push_token s t neg).
Proof. unfold push_token. comm_tac. Qed.

Lemma try_add_new_token_comm t sp p neg : scomm (fun s => try_add_new_token s t sp p neg).
Proof. unfold try_add_new_token, push_token. comm_tac. Qed.

Lemma handle_token_comm sp t ok : scomm (fun s => handle_token_parse_result s sp t ok).
Proof. unfold handle_token_parse_result, nullify_expected_tokens, try_add_new_token, push_token. comm_tac. Qed.

Lemma track_comm r p pai nai prev : scomm (fun s => track s r p pai nai prev).
Proof. unfold track, attempts_at. comm_tac. Qed.

Lemma apply_pres_comm r t : kcomm (fun s => apply_pres s r t).
Proof.
  unfold apply_pres, handle_token_parse_result, nullify_expected_tokens, try_add_new_token, push_token.
  comm_tac.
Qed.

Lemma st_match_string_comm str : kcomm (fun s => st_match_string s str).
Proof.
  intros s c l. unfold st_match_string.
  change (input (recl s c l)) with (input s). change (pos (recl s c l)) with (pos s).
  apply (apply_pres_comm _ _ s c l).
Qed.

Lemma peek_slice_comm i j d : kcomm (fun s => peek_slice s i j d).
Proof. unfold peek_slice. comm_tac. Qed.

Lemma exec_prim_comm cfg o : kcomm (exec_prim cfg o).
Proof.
  destruct o; cbn [exec_prim]; try (apply st_match_string_comm); try (apply peek_slice_comm);
    try (intros s0 c0 l0;
         change (input (recl s0 c0 l0)) with (input s0); change (pos (recl s0 c0 l0)) with (pos s0);
         apply (apply_pres_comm _ _ s0 c0 l0)).
  - comm_tac.
  - comm_tac.
  - comm_tac.
  - comm_tac.
  - comm_tac.
  - comm_tac.
  - (* peek *) intros s c l. cbn [exec_prim]. change (stack (recl s c l)) with (stack s).
    destruct (peek (stack s)) as [str|]; [apply (st_match_string_comm str s c l)|reflexivity].
  - (* pop *) intros s c l. cbn [exec_prim]. change (stack (recl s c l)) with (stack s).
    destruct (pop (stack s)) as [st' [str|]]; [|reflexivity].
    apply (st_match_string_comm str (set_stack s st') c l).
  - comm_tac.
  - comm_tac.
  - comm_tac.
Qed.

(* ---------- continuations of the combinators ---------- *)
Lemma k_checkpoint_ok : kcomm (fun s' => lift ROk (checkpoint_ok s')).
Proof. unfold lift, checkpoint_ok, option_map. comm_tac. Qed.

Lemma k_restore_err : kcomm (fun s' => lift RErr (restore_st s')).
Proof. unfold lift, restore_st, option_map. comm_tac. Qed.

Lemma k_seq_err ip ti :
  kcomm (fun s' => lift RErr (restore_st (set_queue (set_pos s' ip) (vtruncate ti (queue s'))))).
Proof. unfold lift, restore_st, option_map. comm_tac. Qed.

Lemma k_look (b : bool) ip il :
  kcomm (fun s' => lift (fun x => if b then ROk x else RErr x) (restore_st (set_lookahead (set_pos s' ip) il))).
Proof. unfold lift, restore_st, option_map. comm_tac. Qed.

Lemma k_atomic_ok (toggle : bool) initial :
  kcomm (fun s' => ROk (if toggle then set_atomicity s' initial else s')).
Proof. comm_tac. Qed.
Lemma k_atomic_err (toggle : bool) initial :
  kcomm (fun s' => RErr (if toggle then set_atomicity s' initial else s')).
Proof. comm_tac. Qed.

Lemma k_push start :
  kcomm (fun s' => if Nat.ltb (pos s') start then RPanic PkInternal
                   else ROk (set_stack s' (push (stack s') (firstn (pos s' - start) (skipn start (input s')))))).
Proof. comm_tac. Qed.

Lemma k_ok : kcomm ROk. Proof. intros s c l. reflexivity. Qed.
Lemma k_err : kcomm RErr. Proof. intros s c l. reflexivity. Qed.

Lemma try_add_new_stack_rule_comm rule k : ocomm (fun s => try_add_new_stack_rule s rule k).
Proof. unfold try_add_new_stack_rule. comm_tac. Qed.

Lemma try_add_rule_to_stack_comm rule a b : ocomm (fun s => try_add_rule_to_stack s rule a b).
Proof. unfold try_add_rule_to_stack, try_add_new_stack_rule. comm_tac. Qed.

Lemma k_rule_ok rule fr : kcomm (rule_ok rule fr).
Proof.
  unfold rule_ok, lift, try_add_rule_to_stack, try_add_new_stack_rule, track, attempts_at, emits.
  comm_tac.
Qed.

Lemma k_rule_err rule fr : kcomm (rule_err rule fr).
Proof.
  unfold rule_err, lift, try_add_rule_to_stack, try_add_new_stack_rule, track, attempts_at, emits.
  comm_tac.
Qed.

Lemma rule_enter_comm s c l :
  rule_enter (recl s c l) = (fst (rule_enter s), recl (snd (rule_enter s)) c l).
Proof. revert s c l. unfold rule_enter, attempts_at, emits. comm_tac. Qed.

