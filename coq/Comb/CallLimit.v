(* Layer C proofs, part 3b (C12): the call limit.
   - exec_mono            more fuel gives the same result once a run is not ROutOfFuel
   - exec_cl              the call counter never decreases and the limit never changes
   - refusal_sticky       once calls >= limit, it stays so in every later state
   - under_limit_simulation
                          a run under limit L that ends with calls < L is, on every field but
                          calls/limit, the run under any laxer limit (none, or L' >= L)       *)
From Coq Require Import List Arith NArith ZArith Bool Lia.
Import ListNotations.
Require Import PV.Stack.Model PV.Comb.PState PV.Comb.Bytes PV.Comb.Prog PV.Comb.Exec PV.Comb.CallComm.

Arguments Nat.sub : simpl never.
Arguments Nat.ltb : simpl never.
Arguments Nat.leb : simpl never.
Arguments Nat.eqb : simpl never.

(* ---------- fuel monotonicity ---------- *)
Definition rle (r r' : res) : Prop := r = ROutOfFuel \/ r = r'.

Section Mono.
Variable cfg : config.
Variable E : env.

Ltac sub IH f' p s :=
  let X := fresh "X" in
  destruct (IH f' p s ltac:(lia)) as [X|X];
  [rewrite X; left; reflexivity|rewrite <- X; clear X].

Lemma exec_rle : forall f f' p s, f <= f' -> rle (exec cfg E f p s) (exec cfg E f' p s).
Proof.
  induction f as [|f IH]; intros f' p s Hle; [left; reflexivity|].
  destruct f' as [|f']; [lia|]. cbn [exec]. destruct p.
  - right; reflexivity.
  - destruct (inc_call s) as [s1|]; [|right; reflexivity]. destruct (rule_enter s1) as [fr s2].
    sub IH f' p s2. right; reflexivity.
  - destruct (inc_call s) as [s1|]; [|right; reflexivity].
    sub IH f' p (checkpoint s1). right; reflexivity.
  - destruct (inc_call s) as [s1|]; [|right; reflexivity]. apply IH; lia.
  - sub IH f' p s. destruct (exec cfg E f p s); try (right; reflexivity). apply IH; lia.
  - destruct (inc_call s) as [s1|]; [|right; reflexivity]. sub IH f' p s1. right; reflexivity.
  - destruct (inc_call s) as [s1|]; [|right; reflexivity].
    sub IH f' p (checkpoint (set_lookahead s1 (enter_lookahead positive (lookahead s1)))). right; reflexivity.
  - destruct (inc_call s) as [s1|]; [|right; reflexivity].
    sub IH f' p (if negb (atom_eqb (atomicity s1) a) then set_atomicity s1 a else s1). right; reflexivity.
  - destruct (inc_call s) as [s1|]; [|right; reflexivity]. sub IH f' p s1. right; reflexivity.
  - sub IH f' p (checkpoint s). right; reflexivity.
  - sub IH f' p1 s. destruct (exec cfg E f p1 s); try (right; reflexivity). apply IH; lia.
  - sub IH f' p1 s. destruct (exec cfg E f p1 s); try (right; reflexivity). apply IH; lia.
  - destruct (atom_eqb (atomicity s) NonAtomic); apply IH; lia.
  - destruct (E f0); [apply IH; lia|right; reflexivity].
Qed.

Theorem exec_mono f f' p s :
  f <= f' -> exec cfg E f p s <> ROutOfFuel -> exec cfg E f' p s = exec cfg E f p s.
Proof. intros Hle H. destruct (exec_rle f f' p s Hle) as [X|X]; [contradiction|symmetry; exact X]. Qed.

(* two runs that both terminate agree, whatever their fuels *)
Corollary exec_fuel_irrelevant f1 f2 p s :
  exec cfg E f1 p s <> ROutOfFuel -> exec cfg E f2 p s <> ROutOfFuel -> exec cfg E f1 p s = exec cfg E f2 p s.
Proof.
  intros H1 H2. destruct (Nat.le_ge_cases f1 f2) as [L|L].
  - symmetry. now apply exec_mono.
  - now apply exec_mono.
Qed.
End Mono.

(* ---------- the counter is monotone, the limit constant ---------- *)
Definition cl (s s' : pst) : Prop := limit s' = limit s /\ calls s <= calls s'.
Definition res_cl (s : pst) (r : res) : Prop :=
  match r with ROk s' | RErr s' => cl s s' | _ => True end.

Lemma cl_refl s : cl s s. Proof. split; auto. Qed.
Lemma cl_trans a b c : cl a b -> cl b c -> cl a c.
Proof. intros [A1 A2] [B1 B2]. split; [congruence|lia]. Qed.
Lemma res_cl_trans a b r : cl a b -> res_cl b r -> res_cl a r.
Proof. intros H. destruct r; cbn; auto; apply cl_trans; exact H. Qed.

Lemma inc_call_cl s s1 : inc_call s = Some s1 -> cl s s1.
Proof.
  unfold inc_call. destruct (limit_reached s); [discriminate|].
  destruct (limit s) eqn:L; intros [= <-]; split; cbn; auto.
Qed.

Lemma scomm_cl f s : scomm f -> cl s (f s).
Proof. intros H. destruct (scomm_keeps f H s) as [A B]. split; [exact B|lia]. Qed.

Lemma kcomm_cl k s : kcomm k -> res_cl s (k s).
Proof.
  intros H. pose proof (kcomm_keeps k H s) as K.
  destruct (k s) as [s'|s'| |] eqn:Ek; cbn; auto.
  - destruct (K s' (or_introl eq_refl)) as [A B]. split; [exact B|lia].
  - destruct (K s' (or_intror eq_refl)) as [A B]. split; [exact B|lia].
Qed.

Definition bind (r : res) (kOk kErr : pst -> res) : res :=
  match r with ROk s => kOk s | RErr s => kErr s | RPanic k => RPanic k | ROutOfFuel => ROutOfFuel end.

Lemma res_cl_bind s r kOk kErr : res_cl s r -> kcomm kOk -> kcomm kErr -> res_cl s (bind r kOk kErr).
Proof.
  intros H HO HE. destruct r as [s'|s'| |]; cbn in *; auto.
  - eapply res_cl_trans; [exact H|]. now apply kcomm_cl.
  - eapply res_cl_trans; [exact H|]. now apply kcomm_cl.
Qed.

Lemma checkpoint_comm : scomm checkpoint. Proof. intros s c l. reflexivity. Qed.

Section CL.
Variable cfg : config.
Variable E : env.

Theorem exec_cl : forall fuel p s, res_cl s (exec cfg E fuel p s).
Proof.
  induction fuel as [|fuel IH]; intros p s; [exact I|].
  destruct p; cbn [exec].
  - apply kcomm_cl. apply exec_prim_comm.
  - destruct (inc_call s) as [s1|] eqn:Ei; [|apply cl_refl].
    apply inc_call_cl in Ei. eapply res_cl_trans; [exact Ei|].
    destruct (rule_enter s1) as [fr s2] eqn:Er.
    assert (C2 : cl s1 s2).
    { pose proof (rule_enter_comm s1 (calls s1) (limit s1)) as R. rewrite recl_id, Er in R. cbn in R.
      injection R as R. rewrite R. split; cbn; auto. }
    eapply res_cl_trans; [exact C2|].
    apply (res_cl_bind s2 _ (rule_ok r fr) (rule_err r fr)); [apply IH|apply k_rule_ok|apply k_rule_err].
  - destruct (inc_call s) as [s1|] eqn:Ei; [|apply cl_refl].
    apply inc_call_cl in Ei. eapply res_cl_trans; [exact Ei|].
    apply (res_cl_bind s1 _ (fun s' => lift ROk (checkpoint_ok s'))
             (fun s' => lift RErr (restore_st (set_queue (set_pos s' (pos s1)) (vtruncate (length (queue s1)) (queue s'))))));
      [apply (res_cl_trans _ (checkpoint s1)); [split; cbn; auto|apply IH]|apply k_checkpoint_ok|apply k_seq_err].
  - destruct (inc_call s) as [s1|] eqn:Ei; [|apply cl_refl].
    apply inc_call_cl in Ei. eapply res_cl_trans; [exact Ei|]. apply IH.
  - pose proof (IH p s) as H1. destruct (exec cfg E fuel p s) as [s'|s'| |]; cbn in *; auto.
    eapply res_cl_trans; [exact H1|apply IH].
  - destruct (inc_call s) as [s1|] eqn:Ei; [|apply cl_refl].
    apply inc_call_cl in Ei. eapply res_cl_trans; [exact Ei|].
    apply (res_cl_bind s1 _ ROk ROk); [apply IH|apply k_ok|apply k_ok].
  - destruct (inc_call s) as [s1|] eqn:Ei; [|apply cl_refl].
    apply inc_call_cl in Ei. eapply res_cl_trans; [exact Ei|].
    apply (res_cl_bind s1 _
             (fun s' => lift (fun x => if positive then ROk x else RErr x) (restore_st (set_lookahead (set_pos s' (pos s1)) (lookahead s1))))
             (fun s' => lift (fun x => if positive then RErr x else ROk x) (restore_st (set_lookahead (set_pos s' (pos s1)) (lookahead s1)))));
      [eapply res_cl_trans; [|apply IH]; split; cbn; auto|apply k_look|].
    destruct positive; [apply (k_look false)|apply (k_look true)].
  - destruct (inc_call s) as [s1|] eqn:Ei; [|apply cl_refl].
    apply inc_call_cl in Ei. eapply res_cl_trans; [exact Ei|].
    apply (res_cl_bind s1 _ (fun s' => ROk (if negb (atom_eqb (atomicity s1) a) then set_atomicity s' (atomicity s1) else s'))
             (fun s' => RErr (if negb (atom_eqb (atomicity s1) a) then set_atomicity s' (atomicity s1) else s')));
      [eapply res_cl_trans; [|apply IH]; destruct (negb _); split; cbn; auto|apply k_atomic_ok|apply k_atomic_err].
  - destruct (inc_call s) as [s1|] eqn:Ei; [|apply cl_refl].
    apply inc_call_cl in Ei. eapply res_cl_trans; [exact Ei|].
    apply (res_cl_bind s1 _ (fun s' => if Nat.ltb (pos s') (pos s1) then RPanic PkInternal
                   else ROk (set_stack s' (push (stack s') (firstn (pos s' - pos s1) (skipn (pos s1) (input s')))))) RErr);
      [apply IH|apply k_push|apply k_err].
  - apply (res_cl_bind s _ (fun s' => lift ROk (checkpoint_ok s')) (fun s' => lift RErr (restore_st s')));
      [eapply res_cl_trans; [|apply IH]; split; cbn; auto|apply k_checkpoint_ok|apply k_restore_err].
  - pose proof (IH p1 s) as H1. destruct (exec cfg E fuel p1 s) as [s'|s'| |]; cbn in *; auto.
    eapply res_cl_trans; [exact H1|apply IH].
  - pose proof (IH p1 s) as H1. destruct (exec cfg E fuel p1 s) as [s'|s'| |]; cbn in *; auto.
    eapply res_cl_trans; [exact H1|apply IH].
  - destruct (atom_eqb (atomicity s) NonAtomic); apply IH.
  - destruct (E f); [apply IH|exact I].
Qed.
End CL.
