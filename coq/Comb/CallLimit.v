(* Layer C proofs, part 3b (C12): the call limit.
   - exec_mono            more fuel gives the same result once a run is not ROutOfFuel
   - exec_cl              the call counter never decreases and the limit never changes
   - refusal_sticky       once calls >= limit, it stays so in every later state
   - under_limit_simulation
                          a run under limit L that ends with calls < L is, on every field but
                          calls/limit, the run under any laxer limit (none, or L' >= L)       *)
From Coq Require Import List Arith NArith ZArith Bool Lia.
Import ListNotations.
Require Import PV.Stack.Model PV.Comb.PState PV.Comb.Bytes PV.Comb.Prog PV.Comb.Exec PV.Comb.CallComm.

Arguments Nat.sub : simpl never.
Arguments Nat.ltb : simpl never.
Arguments Nat.leb : simpl never.
Arguments Nat.eqb : simpl never.

(* ---------- fuel monotonicity ---------- *)
Definition rle (r r' : res) : Prop := r = ROutOfFuel \/ r = r'.

Section Mono.
Variable cfg : config.
Variable E : env.

Ltac sub IH f' p s :=
  let X := fresh "X" in
  destruct (IH f' p s ltac:(lia)) as [X|X];
  [rewrite X; left; reflexivity|rewrite <- X; clear X].

Lemma exec_rle : forall f f' p s, f <= f' -> rle (exec cfg E f p s) (exec cfg E f' p s).
Proof.
  induction f as [|f IH]; intros f' p s Hle; [left; reflexivity|].
  destruct f' as [|f']; [lia|]. cbn [exec]. destruct p.
  - right; reflexivity.
  - destruct (inc_call s) as [s1|]; [|right; reflexivity]. destruct (rule_enter s1) as [fr s2].
    sub IH f' p s2. right; reflexivity.
  - destruct (inc_call s) as [s1|]; [|right; reflexivity].
    sub IH f' p (checkpoint s1). right; reflexivity.
  - destruct (inc_call s) as [s1|]; [|right; reflexivity]. apply IH; lia.
  - sub IH f' p s. destruct (exec cfg E f p s); try (right; reflexivity). apply IH; lia.
  - destruct (inc_call s) as [s1|]; [|right; reflexivity]. sub IH f' p s1. right; reflexivity.
  - destruct (inc_call s) as [s1|]; [|right; reflexivity].
    sub IH f' p (checkpoint (set_lookahead s1 (enter_lookahead positive (lookahead s1)))). right; reflexivity.
  - destruct (inc_call s) as [s1|]; [|right; reflexivity].
    sub IH f' p (if negb (atom_eqb (atomicity s1) a) then set_atomicity s1 a else s1). right; reflexivity.
  - destruct (inc_call s) as [s1|]; [|right; reflexivity]. sub IH f' p s1. right; reflexivity.
  - sub IH f' p (checkpoint s). right; reflexivity.
  - sub IH f' p1 s. destruct (exec cfg E f p1 s); try (right; reflexivity). apply IH; lia.
  - sub IH f' p1 s. destruct (exec cfg E f p1 s); try (right; reflexivity). apply IH; lia.
  - destruct (atom_eqb (atomicity s) NonAtomic); apply IH; lia.
  - destruct (E f0); [apply IH; lia|right; reflexivity].
Qed.

Theorem exec_mono f f' p s :
  f <= f' -> exec cfg E f p s <> ROutOfFuel -> exec cfg E f' p s = exec cfg E f p s.
Proof. intros Hle H. destruct (exec_rle f f' p s Hle) as [X|X]; [contradiction|symmetry; exact X]. Qed.

(* two runs that both terminate agree, whatever their fuels *)
Corollary exec_fuel_irrelevant f1 f2 p s :
  exec cfg E f1 p s <> ROutOfFuel -> exec cfg E f2 p s <> ROutOfFuel -> exec cfg E f1 p s = exec cfg E f2 p s.
Proof.
  intros H1 H2. destruct (Nat.le_ge_cases f1 f2) as [L|L].
  - symmetry. now apply exec_mono.
  - now apply exec_mono.
Qed.
End Mono.

(* ---------- the counter is monotone, the limit constant ---------- *)
Definition cl (s s' : pst) : Prop := limit s' = limit s /\ calls s <= calls s'.
Definition res_cl (s : pst) (r : res) : Prop :=
  match r with ROk s' | RErr s' => cl s s' | _ => True end.

Lemma cl_refl s : cl s s. Proof. split; auto. Qed.
Lemma cl_trans a b c : cl a b -> cl b c -> cl a c.
Proof. intros [A1 A2] [B1 B2]. split; [congruence|lia]. Qed.
Lemma res_cl_trans a b r : cl a b -> res_cl b r -> res_cl a r.
Proof. intros H. destruct r; cbn; auto; apply cl_trans; exact H. Qed.

Lemma inc_call_cl s s1 : inc_call s = Some s1 -> cl s s1.
Proof.
  unfold inc_call. destruct (limit_reached s); [discriminate|].
  destruct (limit s) eqn:L; intros [= <-]; split; cbn; auto.
Qed.

Lemma scomm_cl f s : scomm f -> cl s (f s).
Proof. intros H. destruct (scomm_keeps f H s) as [A B]. split; [exact B|lia]. Qed.

Lemma kcomm_cl k s : kcomm k -> res_cl s (k s).
Proof.
  intros H. pose proof (kcomm_keeps k H s) as K.
  destruct (k s) as [s'|s'| |] eqn:Ek; cbn; auto.
  - destruct (K s' (or_introl eq_refl)) as [A B]. split; [exact B|lia].
  - destruct (K s' (or_intror eq_refl)) as [A B]. split; [exact B|lia].
Qed.

Definition bind (r : res) (kOk kErr : pst -> res) : res :=
  match r with ROk s => kOk s | RErr s => kErr s | RPanic k => RPanic k | ROutOfFuel => ROutOfFuel end.

Lemma res_cl_bind s r kOk kErr : res_cl s r -> kcomm kOk -> kcomm kErr -> res_cl s (bind r kOk kErr).
Proof.
  intros H HO HE. destruct r as [s'|s'| |]; cbn in *; auto.
  - eapply res_cl_trans; [exact H|]. now apply kcomm_cl.
  - eapply res_cl_trans; [exact H|]. now apply kcomm_cl.
Qed.

Lemma checkpoint_comm : scomm checkpoint. Proof. intros s c l. reflexivity. Qed.

Section CL.
Variable cfg : config.
Variable E : env.

Theorem exec_cl : forall fuel p s, res_cl s (exec cfg E fuel p s).
Proof.
  induction fuel as [|fuel IH]; intros p s; [exact I|].
  destruct p; cbn [exec].
  - apply kcomm_cl. apply exec_prim_comm.
  - destruct (inc_call s) as [s1|] eqn:Ei; [|apply cl_refl].
    apply inc_call_cl in Ei. eapply res_cl_trans; [exact Ei|].
    destruct (rule_enter s1) as [fr s2] eqn:Er.
    assert (C2 : cl s1 s2).
    { pose proof (rule_enter_comm s1 (calls s1) (limit s1)) as R. rewrite recl_id, Er in R. cbn in R.
      injection R as R. rewrite R. split; cbn; auto. }
    eapply res_cl_trans; [exact C2|].
    apply (res_cl_bind s2 _ (rule_ok r fr) (rule_err r fr)); [apply IH|apply k_rule_ok|apply k_rule_err].
  - destruct (inc_call s) as [s1|] eqn:Ei; [|apply cl_refl].
    apply inc_call_cl in Ei. eapply res_cl_trans; [exact Ei|].
    apply (res_cl_bind s1 _ (fun s' => lift ROk (checkpoint_ok s'))
             (fun s' => lift RErr (restore_st (set_queue (set_pos s' (pos s1)) (vtruncate (length (queue s1)) (queue s'))))));
      [apply (res_cl_trans _ (checkpoint s1)); [split; cbn; auto|apply IH]|apply k_checkpoint_ok|apply k_seq_err].
  - destruct (inc_call s) as [s1|] eqn:Ei; [|apply cl_refl].
    apply inc_call_cl in Ei. eapply res_cl_trans; [exact Ei|]. apply IH.
  - pose proof (IH p s) as H1. destruct (exec cfg E fuel p s) as [s'|s'| |]; cbn in *; auto.
    eapply res_cl_trans; [exact H1|apply IH].
  - destruct (inc_call s) as [s1|] eqn:Ei; [|apply cl_refl].
    apply inc_call_cl in Ei. eapply res_cl_trans; [exact Ei|].
    apply (res_cl_bind s1 _ ROk ROk); [apply IH|apply k_ok|apply k_ok].
  - destruct (inc_call s) as [s1|] eqn:Ei; [|apply cl_refl].
    apply inc_call_cl in Ei. eapply res_cl_trans; [exact Ei|].
    apply (res_cl_bind s1 _
             (fun s' => lift (fun x => if positive then ROk x else RErr x) (restore_st (set_lookahead (set_pos s' (pos s1)) (lookahead s1))))
             (fun s' => lift (fun x => if positive then RErr x else ROk x) (restore_st (set_lookahead (set_pos s' (pos s1)) (lookahead s1)))));
      [eapply res_cl_trans; [|apply IH]; split; cbn; auto|apply k_look|].
    destruct positive; [apply (k_look false)|apply (k_look true)].
  - destruct (inc_call s) as [s1|] eqn:Ei; [|apply cl_refl].
    apply inc_call_cl in Ei. eapply res_cl_trans; [exact Ei|].
    apply (res_cl_bind s1 _ (fun s' => ROk (if negb (atom_eqb (atomicity s1) a) then set_atomicity s' (atomicity s1) else s'))
             (fun s' => RErr (if negb (atom_eqb (atomicity s1) a) then set_atomicity s' (atomicity s1) else s')));
      [eapply res_cl_trans; [|apply IH]; destruct (negb _); split; cbn; auto|apply k_atomic_ok|apply k_atomic_err].
  - destruct (inc_call s) as [s1|] eqn:Ei; [|apply cl_refl].
    apply inc_call_cl in Ei. eapply res_cl_trans; [exact Ei|].
    apply (res_cl_bind s1 _ (fun s' => if Nat.ltb (pos s') (pos s1) then RPanic PkInternal
                   else ROk (set_stack s' (push (stack s') (firstn (pos s' - pos s1) (skipn (pos s1) (input s')))))) RErr);
      [apply IH|apply k_push|apply k_err].
  - apply (res_cl_bind s _ (fun s' => lift ROk (checkpoint_ok s')) (fun s' => lift RErr (restore_st s')));
      [eapply res_cl_trans; [|apply IH]; split; cbn; auto|apply k_checkpoint_ok|apply k_restore_err].
  - pose proof (IH p1 s) as H1. destruct (exec cfg E fuel p1 s) as [s'|s'| |]; cbn in *; auto.
    eapply res_cl_trans; [exact H1|apply IH].
  - pose proof (IH p1 s) as H1. destruct (exec cfg E fuel p1 s) as [s'|s'| |]; cbn in *; auto.
    eapply res_cl_trans; [exact H1|apply IH].
  - destruct (atom_eqb (atomicity s) NonAtomic); apply IH.
  - destruct (E f); [apply IH|exact I].
Qed.
End CL.

(* ---------- a refusal is sticky ---------- *)
Lemma reached_cl s s' : cl s s' -> limit_reached s = true -> limit_reached s' = true.
Proof.
  unfold limit_reached. intros [A B]. rewrite A. destruct (limit s) as [l|]; [|discriminate].
  intros H. apply Nat.leb_le in H. apply Nat.leb_le. lia.
Qed.

Definition res_reached (r : res) : Prop :=
  match r with ROk s' | RErr s' => limit_reached s' = true | _ => True end.

Theorem refusal_sticky cfg E fuel p s :
  limit_reached s = true -> res_reached (exec cfg E fuel p s).
Proof.
  intros H. pose proof (exec_cl cfg E fuel p s) as C.
  destruct (exec cfg E fuel p s); cbn in *; auto; eapply reached_cl; eauto.
Qed.

(* a refusal by inc_call happens exactly when the limit is reached *)
Lemma inc_call_none s : inc_call s = None <-> limit_reached s = true.
Proof.
  unfold inc_call. destruct (limit_reached s); [tauto|]. destruct (limit s); split; discriminate.
Qed.

(* ---------- simulation by a laxer limit ---------- *)
(* the other run has no limit, or a limit L' >= L and the same count *)
Definition lax (L cA cB : nat) (l : option nat) : Prop :=
  match l with None => True | Some L' => L <= L' /\ cB = cA end.

Definition simpost (L : nat) (l : option nat) (rA rB : res) : Prop :=
  match rA with
  | ROk sA' => limit_reached sA' = true \/ exists c', rB = ROk (recl sA' c' l) /\ lax L (calls sA') c' l
  | RErr sA' => limit_reached sA' = true \/ exists c', rB = RErr (recl sA' c' l) /\ lax L (calls sA') c' l
  | _ => True
  end.

Lemma simpost_reached L l rA rB : res_reached rA -> simpost L l rA rB.
Proof. destruct rA; cbn; auto. Qed.

Lemma inc_call_sim L l sA c :
  limit sA = Some L -> lax L (calls sA) c l ->
  match inc_call sA with
  | None => limit_reached sA = true
  | Some sA1 => exists c1, inc_call (recl sA c l) = Some (recl sA1 c1 l) /\ lax L (calls sA1) c1 l /\ limit sA1 = Some L
  end.
Proof.
  intros HL HX. unfold inc_call, limit_reached. rewrite HL. cbn [limit recl set_calls set_limit calls].
  destruct (Nat.leb L (calls sA)) eqn:R; [reflexivity|]. apply Nat.leb_gt in R.
  destruct l as [L'|]; cbn in HX.
  - destruct HX as [H1 ->]. assert (Q : Nat.leb L' (calls sA) = false) by (apply Nat.leb_gt; lia). rewrite Q.
    exists (S (calls sA)). split; [reflexivity|]. split; [cbn; auto|exact HL].
  - exists c. split; [reflexivity|]. split; [exact I|exact HL].
Qed.

Lemma sim_bind L l rA rB kOk kErr :
  simpost L l rA rB -> kcomm kOk -> kcomm kErr -> simpost L l (bind rA kOk kErr) (bind rB kOk kErr).
Proof.
  intros H HO HE.
  assert (G : forall k sA', kcomm k ->
     forall c', (limit_reached sA' = true \/ lax L (calls sA') c' l) -> simpost L l (k sA') (k (recl sA' c' l))).
  { intros k sA' Hk c' D. pose proof (kcomm_keeps k Hk sA') as K. rewrite (Hk sA' c' l).
    destruct (k sA') as [s2|s2| |]; cbn; auto.
    - destruct (K s2 (or_introl eq_refl)) as [K1 K2]. destruct D as [D|D].
      + left. unfold limit_reached in *. rewrite K1, K2. exact D.
      + right. exists c'. split; [reflexivity|]. rewrite K1. exact D.
    - destruct (K s2 (or_intror eq_refl)) as [K1 K2]. destruct D as [D|D].
      + left. unfold limit_reached in *. rewrite K1, K2. exact D.
      + right. exists c'. split; [reflexivity|]. rewrite K1. exact D. }
  destruct rA as [sA'|sA'| |]; cbn in H |- *; auto.
  - destruct H as [H|[c' [-> H]]].
    + apply simpost_reached. pose proof (kcomm_cl kOk sA' HO) as C.
      destruct (kOk sA'); cbn in *; auto; eapply reached_cl; eauto.
    + cbn. apply G; auto.
  - destruct H as [H|[c' [-> H]]].
    + apply simpost_reached. pose proof (kcomm_cl kErr sA' HE) as C.
      destruct (kErr sA'); cbn in *; auto; eapply reached_cl; eauto.
    + cbn. apply G; auto.
Qed.

Section Sim.
Variable cfg : config.
Variable E : env.
Variable L : nat.
Variable l : option nat.

(* after the first half of p ; q: continue with the induction hypothesis or by stickiness *)
Lemma sim_then fuel (q : prog) rA rB
  (IH : forall sA c, limit sA = Some L -> lax L (calls sA) c l ->
        simpost L l (exec cfg E fuel q sA) (exec cfg E fuel q (recl sA c l))) s0 :
  limit s0 = Some L -> res_cl s0 rA -> simpost L l rA rB ->
  simpost L l (match rA with ROk s' => exec cfg E fuel q s' | RErr s' => RErr s' | RPanic k => RPanic k | ROutOfFuel => ROutOfFuel end)
              (match rB with ROk s' => exec cfg E fuel q s' | RErr s' => RErr s' | RPanic k => RPanic k | ROutOfFuel => ROutOfFuel end).
Proof.
  intros HL C H. destruct rA as [sA'|sA'| |]; cbn in *; auto.
  - destruct H as [H|[c' [-> H]]].
    + apply simpost_reached. now apply refusal_sticky.
    + apply IH; [destruct C; congruence|exact H].
  - destruct H as [H|[c' [-> H]]]; [left; exact H|right; exists c'; auto].
Qed.

Lemma sim_else fuel (q : prog) rA rB
  (IH : forall sA c, limit sA = Some L -> lax L (calls sA) c l ->
        simpost L l (exec cfg E fuel q sA) (exec cfg E fuel q (recl sA c l))) s0 :
  limit s0 = Some L -> res_cl s0 rA -> simpost L l rA rB ->
  simpost L l (match rA with ROk s' => ROk s' | RErr s' => exec cfg E fuel q s' | RPanic k => RPanic k | ROutOfFuel => ROutOfFuel end)
              (match rB with ROk s' => ROk s' | RErr s' => exec cfg E fuel q s' | RPanic k => RPanic k | ROutOfFuel => ROutOfFuel end).
Proof.
  intros HL C H. destruct rA as [sA'|sA'| |]; cbn in *; auto.
  - destruct H as [H|[c' [-> H]]]; [left; exact H|right; exists c'; auto].
  - destruct H as [H|[c' [-> H]]].
    + apply simpost_reached. now apply refusal_sticky.
    + apply IH; [destruct C; congruence|exact H].
Qed.

Theorem under_limit_simulation : forall fuel p sA c,
  limit sA = Some L -> lax L (calls sA) c l ->
  simpost L l (exec cfg E fuel p sA) (exec cfg E fuel p (recl sA c l)).
Proof.
  induction fuel as [|fuel IH]; intros p sA c HL HX; [exact I|].
  destruct p; cbn [exec].
  - (* PPrim *)
    apply (sim_bind L l (ROk sA) (ROk (recl sA c l)) (exec_prim cfg o) (exec_prim cfg o));
      [right; exists c; auto|apply exec_prim_comm|apply exec_prim_comm].
  - (* PRule *)
    pose proof (inc_call_sim L l sA c HL HX) as HI.
    destruct (inc_call sA) as [s1|]; [|left; exact HI].
    destruct HI as (c1 & -> & HX1 & HL1).
    rewrite rule_enter_comm. destruct (rule_enter s1) as [fr s2] eqn:Er. cbn [fst snd].
    assert (HL2 : limit s2 = Some L /\ calls s2 = calls s1).
    { pose proof (rule_enter_comm s1 (calls s1) (limit s1)) as R. rewrite recl_id, Er in R. cbn in R.
      injection R as R. rewrite R. cbn. auto. }
    destruct HL2 as [HL2 HC2].
    apply (sim_bind L l _ _ (rule_ok r fr) (rule_err r fr)); [|apply k_rule_ok|apply k_rule_err].
    apply IH; [exact HL2|rewrite HC2; exact HX1].
  - (* PSequence *)
    pose proof (inc_call_sim L l sA c HL HX) as HI.
    destruct (inc_call sA) as [s1|]; [|left; exact HI].
    destruct HI as (c1 & -> & HX1 & HL1).
    apply (sim_bind L l (exec cfg E fuel p (checkpoint s1)) (exec cfg E fuel p (recl (checkpoint s1) c1 l))
             (fun s' => lift ROk (checkpoint_ok s'))
             (fun s' => lift RErr (restore_st (set_queue (set_pos s' (pos s1)) (vtruncate (length (queue s1)) (queue s'))))));
      [apply IH; assumption|apply k_checkpoint_ok|apply k_seq_err].
  - (* PRepeat *)
    pose proof (inc_call_sim L l sA c HL HX) as HI.
    destruct (inc_call sA) as [s1|]; [|left; exact HI].
    destruct HI as (c1 & -> & HX1 & HL1). apply IH; assumption.
  - (* PRepeatLoop *)
    pose proof (IH p sA c HL HX) as H1. pose proof (exec_cl cfg E fuel p sA) as C1.
    destruct (exec cfg E fuel p sA) as [sA'|sA'| |]; cbn in H1, C1 |- *; auto.
    + destruct H1 as [H1|[c' [-> H1]]].
      * apply simpost_reached. now apply refusal_sticky.
      * apply IH; [destruct C1; congruence|exact H1].
    + destruct H1 as [H1|[c' [-> H1]]]; [left; exact H1|right; exists c'; auto].
  - (* POptional *)
    pose proof (inc_call_sim L l sA c HL HX) as HI.
    destruct (inc_call sA) as [s1|]; [|left; exact HI].
    destruct HI as (c1 & -> & HX1 & HL1).
    apply (sim_bind L l _ _ ROk ROk); [apply IH; assumption|apply k_ok|apply k_ok].
  - (* PLookahead *)
    pose proof (inc_call_sim L l sA c HL HX) as HI.
    destruct (inc_call sA) as [s1|]; [|left; exact HI].
    destruct HI as (c1 & -> & HX1 & HL1).
    apply (sim_bind L l
             (exec cfg E fuel p (checkpoint (set_lookahead s1 (enter_lookahead positive (lookahead s1)))))
             (exec cfg E fuel p (recl (checkpoint (set_lookahead s1 (enter_lookahead positive (lookahead s1)))) c1 l))
             (fun s' => lift (fun x => if positive then ROk x else RErr x) (restore_st (set_lookahead (set_pos s' (pos s1)) (lookahead s1))))
             (fun s' => lift (fun x => if positive then RErr x else ROk x) (restore_st (set_lookahead (set_pos s' (pos s1)) (lookahead s1)))));
      [apply IH; assumption|apply k_look|].
    destruct positive; [apply (k_look false)|apply (k_look true)].
  - (* PAtomic *)
    pose proof (inc_call_sim L l sA c HL HX) as HI.
    destruct (inc_call sA) as [s1|]; [|left; exact HI].
    destruct HI as (c1 & -> & HX1 & HL1).
    change (atomicity (recl s1 c1 l)) with (atomicity s1).
    destruct (negb (atom_eqb (atomicity s1) a)) eqn:T.
    + apply (sim_bind L l (exec cfg E fuel p (set_atomicity s1 a)) (exec cfg E fuel p (recl (set_atomicity s1 a) c1 l))
               (fun s' => ROk (if true then set_atomicity s' (atomicity s1) else s'))
               (fun s' => RErr (if true then set_atomicity s' (atomicity s1) else s')));
        [apply IH; assumption|apply (k_atomic_ok true)|apply (k_atomic_err true)].
    + apply (sim_bind L l (exec cfg E fuel p s1) (exec cfg E fuel p (recl s1 c1 l))
               (fun s' => ROk (if false then set_atomicity s' (atomicity s1) else s'))
               (fun s' => RErr (if false then set_atomicity s' (atomicity s1) else s')));
        [apply IH; assumption|apply (k_atomic_ok false (atomicity s1))|apply (k_atomic_err false (atomicity s1))].
  - (* PStackPush *)
    pose proof (inc_call_sim L l sA c HL HX) as HI.
    destruct (inc_call sA) as [s1|]; [|left; exact HI].
    destruct HI as (c1 & -> & HX1 & HL1).
    apply (sim_bind L l _ _ (fun s' => if Nat.ltb (pos s') (pos s1) then RPanic PkInternal
                   else ROk (set_stack s' (push (stack s') (firstn (pos s' - pos s1) (skipn (pos s1) (input s')))))) RErr);
      [apply IH; assumption|apply k_push|apply k_err].
  - (* PRestoreOnErr *)
    apply (sim_bind L l (exec cfg E fuel p (checkpoint sA)) (exec cfg E fuel p (recl (checkpoint sA) c l))
             (fun s' => lift ROk (checkpoint_ok s')) (fun s' => lift RErr (restore_st s')));
      [apply IH; assumption|apply k_checkpoint_ok|apply k_restore_err].
  - (* PAndThen *)
    apply (sim_then fuel p2 _ _ (IH p2) sA HL (exec_cl cfg E fuel p1 sA)). apply IH; assumption.
  - (* POrElse *)
    apply (sim_else fuel p2 _ _ (IH p2) sA HL (exec_cl cfg E fuel p1 sA)). apply IH; assumption.
  - (* PIfNonAtomic *)
    change (atomicity (recl sA c l)) with (atomicity sA).
    destruct (atom_eqb (atomicity sA) NonAtomic); apply IH; assumption.
  - (* PCall *) destruct (E f); [apply IH; assumption|exact I].
Qed.
End Sim.

(* ---------- the public entry point ---------- *)
(* a parse "completes": state() returned Ok(pairs) or the ordinary ParsingError *)
Definition completes (o : outcome) : Prop :=
  match o with OPairs _ | OParsingError _ _ _ => True | _ => False end.
Definition completesb (o : outcome) : bool :=
  match o with OPairs _ | OParsingError _ _ _ => true | _ => false end.
Lemma completesb_spec o : completesb o = true <-> completes o.
Proof. destruct o; cbn; split; auto; discriminate. Qed.

(* the limited run absorbed a refusal: the closure returned Ok although the limit was hit *)
Definition absorbed (cfg : config) (E : env) (fuel : nat) (p : prog) (inp : list byte) (L : nat) (detail : bool) : bool :=
  match run_state cfg E fuel p inp (Some L) detail with ROk s => limit_reached s | _ => false end.

Lemma outcome_oof cfg r : outcome_of cfg r = OOutOfFuel <-> r = ROutOfFuel.
Proof.
  destruct r as [s|s| |]; cbn; split; try discriminate; auto.
  - destruct (fixedlim cfg && limit_reached s); discriminate.
  - destruct (limit_reached s); discriminate.
Qed.

Lemma outcome_recl_unreached cfg r c l :
  match r with
  | ROk s | RErr s => limit_reached s = false /\ limit_reached (recl s c l) = false
  | _ => True
  end -> outcome_of cfg (rmap (fun x => recl x c l) r) = outcome_of cfg r.
Proof.
  destruct r as [s|s| |]; cbn [rmap outcome_of]; auto.
  - intros [-> ->]. rewrite !andb_false_r. reflexivity.
  - intros [-> ->]. reflexivity.
Qed.

Lemma lax_unreached L s c l :
  limit s = Some L -> lax L (calls s) c l -> limit_reached s = false -> limit_reached (recl s c l) = false.
Proof.
  unfold limit_reached. intros -> HX R. cbn. destruct l as [L'|]; [|reflexivity].
  destruct HX as [H ->]. apply Nat.leb_gt in R. apply Nat.leb_gt. lia.
Qed.

Section Top.
Variable cfg : config.
Variable E : env.

(* same fuel: the core of both clauses *)
Lemma parse_sim fuel p inp L l detail :
  lax L 0 0 l ->
  let a := parse_with cfg E fuel p inp (Some L) detail in
  let b := parse_with cfg E fuel p inp l detail in
  (completes a /\ absorbed cfg E fuel p inp L detail = false -> b = a) /\
  (a = b \/ (exists ap, a = OCallLimit ap) \/ a = OPanic \/ a = OOutOfFuel
   \/ (fixedlim cfg = false /\ absorbed cfg E fuel p inp L detail = true)).
Proof.
  intros HX a b. subst a b. unfold parse_with, absorbed, run_state.
  pose proof (under_limit_simulation cfg E L l fuel p (init inp (Some L) detail) 0 eq_refl HX) as S.
  pose proof (exec_cl cfg E fuel p (init inp (Some L) detail)) as C.
  change (recl (init inp (Some L) detail) 0 l) with (init inp l detail) in S.
  destruct (exec cfg E fuel p (init inp (Some L) detail)) as [sA|sA|k|] eqn:EA; cbn [simpost res_cl] in S, C.
  - destruct C as [CL _]. cbn in CL.
    destruct (limit_reached sA) eqn:R.
    + split; [intros [_ H]; discriminate|].
      cbn [outcome_of]. rewrite R. destruct (fixedlim cfg); cbn [andb]; eauto 7.
    + destruct S as [S|[c' [-> S]]]; [congruence|].
      pose proof (lax_unreached L sA c' l CL S R) as R'.
      assert (Q : outcome_of cfg (ROk (recl sA c' l)) = outcome_of cfg (ROk sA)).
      { apply (outcome_recl_unreached cfg (ROk sA) c' l). auto. }
      rewrite Q. split; auto.
  - destruct C as [CL _]. cbn in CL.
    destruct (limit_reached sA) eqn:R.
    + split; [cbn [outcome_of]; rewrite R; intros [[] _]|].
      cbn [outcome_of]. rewrite R. eauto 7.
    + destruct S as [S|[c' [-> S]]]; [congruence|].
      pose proof (lax_unreached L sA c' l CL S R) as R'.
      assert (Q : outcome_of cfg (RErr (recl sA c' l)) = outcome_of cfg (RErr sA)).
      { apply (outcome_recl_unreached cfg (RErr sA) c' l). auto. }
      rewrite Q. split; auto.
  - split; [intros [[] _]|]. cbn. auto.
  - split; [intros [[] _]|]. cbn. auto 6.
Qed.
End Top.

Section Top2.
Variable cfg : config.
Variable E : env.

Lemma parse_with_mono f f' p inp lim detail :
  f <= f' -> parse_with cfg E f p inp lim detail <> OOutOfFuel ->
  parse_with cfg E f' p inp lim detail = parse_with cfg E f p inp lim detail.
Proof.
  unfold parse_with, run_state. intros Hle H. rewrite (exec_mono cfg E f f'); auto.
  intros C. apply H. rewrite C. reflexivity.
Qed.

Lemma parse_with_fuel_irrelevant f1 f2 p inp lim detail :
  parse_with cfg E f1 p inp lim detail <> OOutOfFuel -> parse_with cfg E f2 p inp lim detail <> OOutOfFuel ->
  parse_with cfg E f1 p inp lim detail = parse_with cfg E f2 p inp lim detail.
Proof.
  intros H1 H2. destruct (Nat.le_ge_cases f1 f2) as [Hle|Hle].
  - symmetry. now apply parse_with_mono.
  - now apply parse_with_mono.
Qed.

Lemma absorbed_mono f f' p inp L detail :
  f <= f' -> parse_with cfg E f p inp (Some L) detail <> OOutOfFuel ->
  absorbed cfg E f' p inp L detail = absorbed cfg E f p inp L detail.
Proof.
  unfold parse_with, absorbed, run_state. intros Hle H. rewrite (exec_mono cfg E f f'); auto.
  intros C. apply H. rewrite C. reflexivity.
Qed.

(* Clause 1, for the code as it is and as repaired: the only way a limit changes a result
   without the error is an absorbed refusal reaching the Ok arm of an unrepaired state(). *)
Theorem limit_result_general p inp detail L f1 f2 :
  let a := parse_with cfg E f1 p inp (Some L) detail in
  let b := parse_with cfg E f2 p inp None detail in
  a <> OOutOfFuel -> b <> OOutOfFuel ->
  a = b \/ (exists ap, a = OCallLimit ap) \/ a = OPanic
  \/ (fixedlim cfg = false /\ absorbed cfg E f1 p inp L detail = true).
Proof.
  intros a b Ha Hb. subst a b.
  set (f := Nat.max f1 f2).
  assert (Ea : parse_with cfg E f p inp (Some L) detail = parse_with cfg E f1 p inp (Some L) detail)
    by (apply parse_with_mono; [lia|exact Ha]).
  assert (Eb : parse_with cfg E f p inp None detail = parse_with cfg E f2 p inp None detail)
    by (apply parse_with_mono; [lia|exact Hb]).
  assert (Ab : absorbed cfg E f p inp L detail = absorbed cfg E f1 p inp L detail)
    by (apply absorbed_mono; [lia|exact Ha]).
  destruct (parse_sim cfg E f p inp L None detail I) as [_ D].
  rewrite Ea, Eb, Ab in D.
  destruct D as [D|[D|[D|[D|D]]]]; auto. contradiction.
Qed.

(* Clause 2: completion under L is completion under every laxer limit (and under no limit). *)
Theorem completion_stable_general p inp detail L l f1 f2 :
  lax L 0 0 l ->
  let a := parse_with cfg E f1 p inp (Some L) detail in
  let b := parse_with cfg E f2 p inp l detail in
  completes a -> absorbed cfg E f1 p inp L detail = false ->
  (f1 <= f2 \/ b <> OOutOfFuel) -> b = a.
Proof.
  intros HX a b Hc Hab Hf. subst a b.
  destruct (parse_sim cfg E f1 p inp L l detail HX) as [S _].
  specialize (S (conj Hc Hab)).
  assert (N : parse_with cfg E f1 p inp l detail <> OOutOfFuel).
  { rewrite S. intros C. rewrite C in Hc. exact Hc. }
  rewrite <- S. destruct Hf as [Hf|Hf].
  - now apply parse_with_mono.
  - now apply parse_with_fuel_irrelevant.
Qed.

Lemma completes_not_absorbed f p inp L detail :
  fixedlim cfg = true -> completes (parse_with cfg E f p inp (Some L) detail) -> absorbed cfg E f p inp L detail = false.
Proof.
  unfold parse_with, absorbed. intros F. destruct (run_state cfg E f p inp (Some L) detail) as [s|s| |]; auto.
  cbn. rewrite F. destruct (limit_reached s); cbn; [intros []|auto].
Qed.
End Top2.

(* a panic of a parse is never an internal one (Vec index, splice, underflow, unreachable!):
   only stack_pop/stack_peek on an empty stack, an undefined closure, or a bad slice position *)
Require Import PV.Stack.Proofs PV.Comb.Frame.
Lemma parse_no_internal_panic cfg E f p inp lim detail k :
  run_state cfg E f p inp lim detail = RPanic k -> k <> PkInternal.
Proof.
  unfold run_state. intros H.
  pose proof (exec_post cfg E f p (init inp lim detail) (@sempty (list byte))) as P.
  rewrite H in P. apply P.
  - unfold wf. cbn. lia.
  - apply inv_empty.
Qed.
