(* Layer C, ghost instrumentation for C08: `exec_log` is `exec` (PV.Comb.Exec) that additionally
   returns the forest of rule attempts, in execution order.  Nothing else changes: the first
   component is proved equal to `exec` (AttemptsProofs.exec_log_erasure).

   An attempt is one call of ParserState::rule whose closure was entered (a refusal by the call
   limit is not an attempt).  It records
     a_rule      the rule,
     a_pos       the position at entry,
     a_matched   whether the body matched,
     a_sign      the look-ahead mode at entry (LNeg = under a negative predicate),
     a_atomic    whether the atomicity at entry was Atomic (the interior of an atomic rule:
                 `track` ignores such attempts),
     a_children  the attempts made while running the body.
   Silent rules never call rule(), so they never appear.

   The second half of the file is the SPECIFICATION side of C08: which attempts are reportable,
   the furthest position, soundness of the two lists, and the report read off the forest.     *)
From Coq Require Import List Arith NArith ZArith Bool.
Import ListNotations.
Require Import PV.Stack.Model PV.Comb.PState PV.Comb.Bytes PV.Comb.Prog PV.Comb.Exec.

Inductive attempt :=
| Attempt (a_rule : nat) (a_pos : nat) (a_matched : bool) (a_sign : lk) (a_atomic : bool) (a_children : list attempt).

Section ExecLog.
Variable cfg : config.
Variable E : env.

Fixpoint exec_log (fuel : nat) (p : prog) (s : pst) {struct fuel} : res * list attempt :=
  match fuel with
  | O => (ROutOfFuel, [])
  | S fuel' =>
    match p with
    | PPrim o => (exec_prim cfg o s, [])
    | PAndThen p q =>
        match exec_log fuel' p s with
        | (ROk s', l1) => let '(r, l2) := exec_log fuel' q s' in (r, l1 ++ l2)
        | x => x
        end
    | POrElse p q =>
        match exec_log fuel' p s with
        | (RErr s', l1) => let '(r, l2) := exec_log fuel' q s' in (r, l1 ++ l2)
        | x => x
        end
    | PIfNonAtomic p q => if atom_eqb (atomicity s) NonAtomic then exec_log fuel' p s else exec_log fuel' q s
    | PCall f => match E f with None => (RPanic PkUndefined, []) | Some q => exec_log fuel' q s end
    | POptional p =>
        match inc_call s with
        | None => (RErr s, [])
        | Some s1 =>
          let '(r, l) := exec_log fuel' p s1 in
          (match r with ROk s' | RErr s' => ROk s' | r => r end, l)
        end
    | PRepeat p =>
        match inc_call s with None => (RErr s, []) | Some s1 => exec_log fuel' (PRepeatLoop p) s1 end
    | PRepeatLoop p =>
        match exec_log fuel' p s with
        | (ROk s', l1) => let '(r, l2) := exec_log fuel' (PRepeatLoop p) s' in (r, l1 ++ l2)
        | (RErr s', l1) => (ROk s', l1)
        | x => x
        end
    | PSequence p =>
        match inc_call s with
        | None => (RErr s, [])
        | Some s1 =>
          let token_index := length (queue s1) in
          let initial_pos := pos s1 in
          let '(r, l) := exec_log fuel' p (checkpoint s1) in
          (match r with
           | ROk s' => lift ROk (checkpoint_ok s')
           | RErr s' => lift RErr (restore_st (set_queue (set_pos s' initial_pos) (vtruncate token_index (queue s'))))
           | r => r
           end, l)
        end
    | PLookahead positive p =>
        match inc_call s with
        | None => (RErr s, [])
        | Some s1 =>
          let initial_lookahead := lookahead s1 in
          let initial_pos := pos s1 in
          let s2 := set_lookahead s1 (enter_lookahead positive initial_lookahead) in
          let '(r, l) := exec_log fuel' p (checkpoint s2) in
          (match r with
           | ROk s' =>
               lift (fun x => if positive then ROk x else RErr x)
                    (restore_st (set_lookahead (set_pos s' initial_pos) initial_lookahead))
           | RErr s' =>
               lift (fun x => if positive then RErr x else ROk x)
                    (restore_st (set_lookahead (set_pos s' initial_pos) initial_lookahead))
           | r => r
           end, l)
        end
    | PAtomic a p =>
        match inc_call s with
        | None => (RErr s, [])
        | Some s1 =>
          let initial := atomicity s1 in
          let toggle := negb (atom_eqb initial a) in
          let s2 := if toggle then set_atomicity s1 a else s1 in
          let '(r, l) := exec_log fuel' p s2 in
          (match r with
           | ROk s' => ROk (if toggle then set_atomicity s' initial else s')
           | RErr s' => RErr (if toggle then set_atomicity s' initial else s')
           | r => r
           end, l)
        end
    | PStackPush p =>
        match inc_call s with
        | None => (RErr s, [])
        | Some s1 =>
          let start := pos s1 in
          let '(r, l) := exec_log fuel' p s1 in
          (match r with
           | ROk s' =>
               if Nat.ltb (pos s') start then RPanic PkInternal
               else ROk (set_stack s' (push (stack s') (firstn (pos s' - start) (skipn start (input s')))))
           | r => r
           end, l)
        end
    | PRestoreOnErr p =>
        let '(r, l) := exec_log fuel' p (checkpoint s) in
        (match r with
         | ROk s' => lift ROk (checkpoint_ok s')
         | RErr s' => lift RErr (restore_st s')
         | r => r
         end, l)
    | PRule rule p =>
        match inc_call s with
        | None => (RErr s, [])                     (* refused by the call limit: not an attempt *)
        | Some s1 =>
          let '(fr, s2) := rule_enter s1 in
          let '(r, l) := exec_log fuel' p s2 in
          let node m := [Attempt rule (pos s1) m (lookahead s1) (atom_eqb (atomicity s1) Atomic) l] in
          match r with
          | ROk s' => (rule_ok rule fr s', node true)
          | RErr s' => (rule_err rule fr s', node false)
          | r => (r, l)
          end
        end
    end
  end.

End ExecLog.

Definition run_state_log (cfg : config) (E : env) (fuel : nat) (p : prog) (inp : list byte) (lim : option nat) (detail : bool)
  : res * list attempt :=
  exec_log cfg E fuel p (init inp lim detail).
Definition parse_with_log (cfg : config) (E : env) (fuel : nat) (p : prog) (inp : list byte) (lim : option nat) (detail : bool)
  : outcome * list attempt :=
  let '(r, l) := run_state_log cfg E fuel p inp lim detail in (outcome_of cfg r, l).

(* ============================ specification side ============================ *)

(* An attempt is REPORTABLE when it was not made in Atomic mode.  It COUNTS AS A FAILURE of the
   parse ("was tried and did not match, or matched under a negative predicate") when it is
   reportable and either failed under a non-negative sign or matched under the negative sign. *)
Definition is_neg (sg : lk) : bool := lk_eqb sg LNeg.
Definition counts (matched : bool) (sg : lk) (atomic : bool) : bool :=
  negb atomic && (if is_neg sg then matched else negb matched).

(* all attempts of a forest, flattened (pre-order) *)
Fixpoint nodes (a : attempt) : list (nat * nat * bool * lk * bool) :=
  match a with Attempt r p m sg at_ ch => (r, p, m, sg, at_) :: flat_map nodes ch end.
Definition nodes_of (log : list attempt) := flat_map nodes log.

(* (a) the furthest position of an attempt that counts as a failure; 0 if there is none *)
Fixpoint maxpos (a : attempt) : nat :=
  match a with Attempt r p m sg at_ ch =>
    Nat.max (if counts m sg at_ then p else 0) (list_max (map maxpos ch)) end.
Definition max_reportable_pos (log : list attempt) : nat := list_max (map maxpos log).

(* (b) soundness of the two lists *)
Definition failed_at (log : list attempt) (r P : nat) : Prop :=
  exists sg, In (r, P, false, sg, false) (nodes_of log) /\ sg <> LNeg.
Definition matched_negated_at (log : list attempt) (r P : nat) : Prop :=
  In (r, P, true, LNeg, false) (nodes_of log).

(* (c) sorted without duplicates *)
Fixpoint strictly_increasing (l : list nat) : Prop :=
  match l with
  | [] => True
  | x :: t => match t with [] => True | y :: _ => x < y end /\ strictly_increasing t
  end.

(* (d) the report read off the forest.  An entry is (negative?, rule).
   The report of an attempt that counts as a failure at the final position P is the report of
   its children if "exactly one such rule was tried", otherwise the rule itself; every other
   attempt (matched, failed under negation, atomic, or at another position) is transparent:
   it contributes what its children contribute.  Siblings are combined by union.

   Two readings of "exactly one such rule was tried" are formalised:
     report_of_log   (the literal reading, by SETS of rules: the children's report is a
                      singleton set - the same rule reported twice is still one rule)
     report_counted  (the reading of the comment in `track`: "only one attempt has been made
                      during the children rules" - the children's report has ONE entry)
   They differ exactly on the decidable class KnownClass below.                             *)
Definition entry := (bool * nat)%type.
Definition entry_eqb (x y : entry) : bool := Bool.eqb (fst x) (fst y) && Nat.eqb (snd x) (snd y).
Definition singleton_set (c : list entry) : bool :=
  match c with [] => false | x :: t => forallb (entry_eqb x) t end.

Fixpoint rep_set (P : nat) (a : attempt) : list entry :=
  match a with Attempt r p m sg at_ ch =>
    let c := flat_map (rep_set P) ch in
    if counts m sg at_ && Nat.eqb p P then (if singleton_set c then c else [(is_neg sg, r)]) else c
  end.
Fixpoint rep_cnt (P : nat) (a : attempt) : list entry :=
  match a with Attempt r p m sg at_ ch =>
    let c := flat_map (rep_cnt P) ch in
    if counts m sg at_ && Nat.eqb p P then (if Nat.eqb (length c) 1 then c else [(is_neg sg, r)]) else c
  end.

Definition positives_of (c : list entry) : list nat := map snd (filter (fun e => negb (fst e)) c).
Definition negatives_of (c : list entry) : list nat := map snd (filter (fun e => fst e) c).

(* the report as state() presents it: two sorted duplicate-free lists *)
Definition present (c : list entry) : list nat * list nat :=
  (sort_dedup (positives_of c), sort_dedup (negatives_of c)).
Definition report_of_log (log : list attempt) : list nat * list nat :=
  present (flat_map (rep_set (max_reportable_pos log)) log).
Definition report_counted (log : list attempt) : list nat * list nat :=
  present (flat_map (rep_cnt (max_reportable_pos log)) log).

(* The class on which the two readings part: some attempt that counts as a failure at the
   final position whose children's report is one rule listed more than once.              *)
Fixpoint known_at (P : nat) (a : attempt) : bool :=
  match a with Attempt r p m sg at_ ch =>
    let c := flat_map (rep_set P) ch in
    (counts m sg at_ && Nat.eqb p P && singleton_set c && negb (Nat.eqb (length c) 1))
    || existsb (known_at P) ch
  end.
Definition KnownClass (log : list attempt) : bool := existsb (known_at (max_reportable_pos log)) log.
