(* Layer C, C15 part 4: max_position is a char boundary - unconditional form.
   Instantiates the reduction of MaxPos.v with the UTF-8 invariant of Utf8c.v (valid input, position
   on a boundary, stack of valid strings), preserved by exec for programs whose string constants are
   valid UTF-8 (theorem exec_boundary).                                                          *)
From Coq Require Import List Arith NArith ZArith Bool Lia.
Import ListNotations.
Require Import PV.Stack.Model PV.Stack.Proofs PV.Comb.PState PV.Comb.Bytes PV.Comb.Prog PV.Comb.Exec PV.Comb.Frame.
Require Import PV.Comb.Utf8 PV.Comb.Utf8b PV.Comb.Utf8c PV.Comb.Detail PV.Comb.DetailProofs PV.Comb.MaxPos.

Definition uinv (s : pst) : Prop := wf s /\ (exists a, Inv (stack s) a) /\ utf8_ok s.

Lemma prog_valid_children p q : prog_valid p -> In q (children p) -> prog_valid q.
Proof.
  destruct p; cbn [children prog_valid In]; intros V H;
    repeat match goal with H : _ \/ _ |- _ => destruct H | H : False |- _ => destruct H end; subst; cbn [prog_valid]; tauto.
Qed.

Lemma uinv_enter s t : uinv s -> enter_step s t -> uinv t.
Proof.
  intros (W & I & U) St. destruct (enter_step_wf_inv _ _ St (conj W I)) as [W' I'].
  destruct (enter_step_core _ _ St) as (In & Po & Ca & _).
  split; [exact W'|]. split; [exact I'|]. eapply utf8_ok_same; eauto.
Qed.

Theorem max_position_boundary cfg E : cfg_ok cfg -> env_valid E ->
  forall fuel p s a, prog_valid p -> wf s -> Inv (stack s) a -> utf8_ok s -> max_boundary_inv s ->
  res_all max_boundary_inv (exec cfg E fuel p s).
Proof.
  intros Hc HE fuel p s a Vp W I U M.
  apply (max_position_boundary_from_invariant cfg E uinv prog_valid); auto.
  - intros x (_ & _ & (_ & B & _)). exact B.
  - intros f q x Vq (Wx & [b Ix] & Ux).
    pose proof (exec_boundary cfg E Hc HE f q x b Vq Wx Ix Ux) as P1.
    pose proof (exec_post cfg E f q x b Wx Ix) as P2.
    destruct (exec cfg E f q x); cbn in *; auto; destruct P2 as (_ & W' & a' & I' & _); (split; [exact W'|split; [eauto|exact P1]]).
  - intros x t. apply uinv_enter.
  - apply prog_valid_children.
  - split; [exact W|]. split; [eauto|exact U].
Qed.

(* a whole parse of valid UTF-8 input: the recorded max_position is a char boundary of the input *)
Corollary run_state_max_position_boundary cfg E fuel p inp lim detail :
  cfg_ok cfg -> env_valid E -> prog_valid p -> valid_utf8 inp ->
  res_all (fun s' => boundaryb inp (max_position s') = true /\ max_position s' <= length inp)
          (run_state cfg E fuel p inp lim detail).
Proof.
  intros Hc HE Vp V.
  pose proof (run_state_max_position_le cfg E fuel p inp lim detail) as L.
  unfold run_state in *. destruct (init_wf_inv inp lim detail) as [W I].
  pose proof (max_position_boundary cfg E Hc HE fuel p _ _ Vp W I (init_utf8_ok inp lim detail V)) as B.
  assert (M0 : max_boundary_inv (init inp lim detail)) by (unfold max_boundary_inv; cbn; now apply boundaryb_0).
  specialize (B M0).
  destruct (exec cfg E fuel p (init inp lim detail)); cbn in *; auto;
    destruct L as [L1 L2]; unfold max_boundary_inv in B; rewrite L2 in B; auto.
Qed.
