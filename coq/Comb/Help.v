(* Layer C, C15 part 5: model of the help message derived from ParseAttempts.
   pest/src/error.rs: ParsingToken::is_whitespace, ParseAttempts::tokens_helper_messages,
   Error::parse_attempts_error;  pest/src/parser_state.rs: Display for ParsingToken,
   ParseAttempts::{expected_tokens, unexpected_tokens, call_stacks} (BTreeSet round trips).
   Strings are lists of code points (PV.Pos.Model.str) so that the result plugs into C10's model of
   Error::new_from_pos / Display (PV.Pos.ErrorFmt).  Token strings are the byte strings of the state
   model, decoded with decode1 (they are Rust `String`s, hence valid UTF-8).
   Panic sites of the Rust code modelled here: building the message has none (Vec::pop on an empty
   vector returns None; format!/join/BTreeSet/BTreeMap do not panic; the two user callbacks are total
   functions); Position::new_internal (debug_assert) and Error::new_from_pos (slicing at the offset)
   and Display are the ones of PV.Pos.ErrorFmt, where a bad offset is `Panic`.                      *)
From Coq Require Import String Ascii.
From Coq Require Import List Arith NArith Bool.
Import ListNotations.
Require Import PV.Comb.PState PV.Comb.Bytes.
Require Import PV.Pos.Model PV.Pos.ErrorFmt.
Open Scope list_scope.

(* String -> chars *)
Fixpoint decode_all (fuel : nat) (l : list byte) : str :=
  match fuel with
  | O => []
  | S f => match l with
           | [] => []
           | _ :: r => match decode1 l with
                       | Some (c, n) => c :: decode_all f (skipn n l)
                       | None => 65533%N :: decode_all f r      (* unreachable for a Rust String *)
                       end
           end
  end.
Definition chars_of (l : list byte) : str := decode_all (length l) l.

(* ---- orders (derive(Ord): variants in declaration order, then fields; String by bytes) ---- *)
Fixpoint list_cmp (a b : list N) : comparison :=
  match a, b with
  | [], [] => Eq
  | [], _ :: _ => Lt
  | _ :: _, [] => Gt
  | x :: a', y :: b' => match N.compare x y with Eq => list_cmp a' b' | c => c end
  end.

Definition ptoken_cmp (a b : ptoken) : comparison :=
  match a, b with
  | TSens x, TSens y => list_cmp x y
  | TSens _, _ => Lt
  | _, TSens _ => Gt
  | TInsens x, TInsens y => list_cmp x y
  | TInsens _, _ => Lt
  | _, TInsens _ => Gt
  | TRange a1 b1, TRange a2 b2 => match N.compare a1 a2 with Eq => N.compare b1 b2 | c => c end
  | TRange _ _, _ => Lt
  | _, TRange _ _ => Gt
  | TBuiltin, TBuiltin => Eq
  end.

Definition optnat_cmp (a b : option nat) : comparison :=      (* Option<R>: None < Some *)
  match a, b with
  | None, None => Eq | None, Some _ => Lt | Some _, None => Gt | Some x, Some y => Nat.compare x y
  end.
Definition deepest_cmp (a b : option nat) : comparison :=     (* ParseAttempt<R>: Rule(r) < Token (= None) *)
  match a, b with
  | None, None => Eq | None, Some _ => Gt | Some _, None => Lt | Some x, Some y => Nat.compare x y
  end.
Definition cstack_cmp (a b : cstack) : comparison :=
  match deepest_cmp (deepest a) (deepest b) with Eq => optnat_cmp (parent a) (parent b) | c => c end.

(* BTreeSet: insertion into a strictly increasing list *)
Fixpoint set_insert {A} (cmp : A -> A -> comparison) (x : A) (l : list A) : list A :=
  match l with
  | [] => [x]
  | y :: r => match cmp x y with Lt => x :: l | Eq => l | Gt => y :: set_insert cmp x r end
  end.
Definition to_set {A} (cmp : A -> A -> comparison) (l : list A) : list A :=
  fold_left (fun acc x => set_insert cmp x acc) l [].

Fixpoint join (sep : str) (l : list str) : str :=
  match l with
  | [] => []
  | [x] => x
  | x :: r => x ++ sep ++ join sep r
  end.

Section Help.
Variable rule_to_message : nat -> option str.        (* RuleToMessageFn *)
Variable is_whitespace : list byte -> bool.           (* IsWhitespaceFn, on the bytes of the String *)
Variable to_uppercase : str -> str.                   (* str::to_uppercase *)

(* ParseAttempts::expected_tokens() / unexpected_tokens() / call_stacks(): Vec -> BTreeSet -> Vec.
   The state model keeps Vecs reversed (last element first). *)
Definition pa_expected (s : pst) : list ptoken := to_set ptoken_cmp (rev (expected s)).
Definition pa_unexpected (s : pst) : list ptoken := to_set ptoken_cmp (rev (unexpected s)).
Definition pa_call_stacks (s : pst) : list cstack := to_set cstack_cmp (rev (call_stacks s)).

Definition token_is_whitespace (t : ptoken) : bool :=
  match t with TSens s | TInsens s => is_whitespace s | TRange _ _ | TBuiltin => false end.

(* impl Display for ParsingToken *)
Definition token_display (t : ptoken) : str :=
  match t with
  | TSens s => chars_of s
  | TInsens s => to_uppercase (chars_of s)
  | TRange a b => [a] ++ lit ".." ++ [b]
  | TBuiltin => lit "BUILTIN_RULE"
  end.

Definition token_text (t : ptoken) : str :=
  if token_is_whitespace t then lit "WHITESPACE" else lit "`" ++ token_display t ++ lit "`".

Definition tokens_line (spacing : str) (tokens : list ptoken) (header : str) : list str :=
  match tokens with
  | [] => []                                                            (* `continue` *)
  | _ =>
    [spacing ++ lit "note: " ++ header ++ lit " " ++
     (if Nat.eqb (length tokens) 1 then lit "token: " else lit "one of tokens: ") ++
     join (lit ", ") (to_set list_cmp (map token_text tokens))]
  end.

Definition tokens_helper_messages (spacing : str) (s : pst) : list str :=
  tokens_line spacing (pa_expected s) (lit "expected") ++ tokens_line spacing (pa_unexpected s) (lit "unexpected").

Definition optnat_eqb (a b : option nat) : bool :=
  match optnat_cmp a b with Eq => true | _ => false end.

(* the body of `for (group_parent, group) in call_stacks_parents_groups`, appending to help_lines *)
Definition group_lines (spacing : str) (help_lines : list str) (group_parent : option nat) (group : list cstack) : list str :=
  match group_parent with
  | Some parent_rule =>
    let header := spacing ++ lit "help: " ++
                  (match rule_to_message parent_rule with Some m => m | None => lit "[Unknown parent rule]" end) in
    let subs := flat_map (fun c => match deepest c with
                                   | Some r => match rule_to_message r with
                                               | Some m => [spacing ++ lit "      - " ++ m]
                                               | None => []
                                               end
                                   | None => []
                                   end) group in
    let contains_meaningful_info :=
      (match rule_to_message parent_rule with Some _ => true | None => false end) ||
      (match subs with [] => false | _ => true end) in
    let lines := help_lines ++ [header] ++ subs in
    if contains_meaningful_info then lines else removelast lines        (* help_lines.pop() *)
  | None =>
    help_lines ++
    flat_map (fun c => match deepest c with
                       | Some r => match rule_to_message r with
                                   | Some m => [spacing ++ lit "help: " ++ m]
                                   | None => []
                                   end
                       | None => []
                       end) group
  end.

(* BTreeMap<Option<R>, Vec<RulesCallStack<R>>>: keys ascending, values in insertion order *)
Definition help_message (spacing : str) (s : pst) : str :=
  let help_lines := [lit "error: parsing error occurred."] ++ tokens_helper_messages spacing s in
  let cs := pa_call_stacks s in
  let keys := to_set optnat_cmp (map parent cs) in
  let help_lines := fold_left (fun acc k => group_lines spacing acc k (filter (fun c => optnat_eqb (parent c) k) cs))
                              keys help_lines in
  join [LF] help_lines.

(* Error::parse_attempts_error(&self, input, rule_to_message, is_whitespace): `self` is the error
   returned by state() (only its line number is read, through spacing()); None when the error carries
   no ParseAttempts, i.e. when the detail switch was off. *)
Definition parse_attempts_error (self : error) (inp : str) (s : pst) : option (res error) :=
  if pa_enabled s then
    let spacing := spacing self ++ lit "   " in
    Some (new_from_pos inp (max_position s) (help_message spacing s))
  else None.

(* format!("{}", parse_attempts_error(..).unwrap()) *)
Definition help_render (self : error) (inp : str) (s : pst) : option (res str) :=
  match parse_attempts_error self inp s with
  | Some r => Some (e <- r ;; format e)
  | None => None
  end.

End Help.
