(* C04, parser half, part 1: the bridge between the token queue of the parser state
   (PV.Comb.PState, a reversed list: head = last pushed token) and the token streams / forests of
   PV.Iter.Queue.

     conv            constructor-wise conversion of a queue token
     stream q        the queue in stream order, as Iter tokens:   map conv (rev q)
     ustream q       the same with every node tag erased (the frame theorem and the rule contract of
                     Frame.v/Contracts.v speak about queues up to tags: `untagq`)
     retag           a stream whose tag-erasure is `tokens_at b f` is itself `tokens_at b f'`
     D bnd s s'      "delta": between s and s' the queue grew by the tokens of a CLOSED forest f placed at
                     absolute index |queue s| (old tokens changed at most in tags), the spans of f are
                     nested inside [pos s, pos s'] and every position of f satisfies `bnd (input s)`.
   Names: after the imports below the short names qtoken/QStart/QEnd are those of PState; the Iter ones
   are written Queue.qtoken/Queue.QStart/Queue.QEnd. *)
From Coq Require Import List Arith NArith ZArith Bool Lia.
Import ListNotations.
Require Import PV.Iter.Queue PV.Iter.QueueFacts.
Require Import PV.Stack.Model PV.Stack.Proofs PV.Comb.PState PV.Comb.Bytes PV.Comb.Prog PV.Comb.Exec PV.Comb.Frame PV.Comb.Contracts.

Arguments Nat.sub : simpl never.
Arguments Nat.mul : simpl never.
Arguments Nat.ltb : simpl never.
Arguments Nat.leb : simpl never.
Arguments Nat.eqb : simpl never.
Arguments skipn : simpl never.
Arguments firstn : simpl never.

(* ---------- conversion ---------- *)
Definition conv (t : qtoken) : Queue.qtoken :=
  match t with
  | QStart e p => Queue.QStart e p
  | QEnd si r tg p => Queue.QEnd si r tg p
  end.
Definition iuntag (t : Queue.qtoken) : Queue.qtoken :=
  match t with Queue.QEnd si r _ p => Queue.QEnd si r None p | x => x end.
Definition stream (q : list qtoken) : list Queue.qtoken := map conv (rev q).
Definition ustream (q : list qtoken) : list Queue.qtoken := map iuntag (stream q).

Lemma iuntag_conv_untag t : iuntag (conv (untag t)) = iuntag (conv t).
Proof. destruct t; reflexivity. Qed.

Lemma qpos_iuntag t : qpos (iuntag t) = qpos t.
Proof. destruct t; reflexivity. Qed.

Lemma ustream_untagq q : ustream (untagq q) = ustream q.
Proof.
  unfold ustream, stream, untagq. rewrite <- map_rev, !map_map. apply map_ext. intros t. apply iuntag_conv_untag.
Qed.

Lemma ustream_app a b : ustream (a ++ b) = ustream b ++ ustream a.
Proof. unfold ustream, stream. rewrite rev_app_distr, !map_app. reflexivity. Qed.

Lemma ustream_cons t q : ustream (t :: q) = ustream q ++ [iuntag (conv t)].
Proof. unfold ustream, stream. cbn [rev]. rewrite !map_app. reflexivity. Qed.

Lemma length_ustream q : length (ustream q) = length q.
Proof. unfold ustream, stream. rewrite !map_length, rev_length. reflexivity. Qed.

Lemma ustream_ueq q q' : untagq q = untagq q' -> ustream q = ustream q'.
Proof. intros H. rewrite <- (ustream_untagq q), H. apply ustream_untagq. Qed.

Lemma length_ueq q q' : untagq q = untagq q' -> length q = length q'.
Proof. intros H. rewrite <- (untagq_length q), H. apply untagq_length. Qed.

Lemma map_qpos_ustream q : map qpos (ustream q) = map qpos (stream q).
Proof. unfold ustream. rewrite map_map. apply map_ext. intros t. apply qpos_iuntag. Qed.

(* ---------- erasing tags does not change the shape ---------- *)
Lemma iuntag_start t e p : iuntag t = Queue.QStart e p -> t = Queue.QStart e p.
Proof. destruct t; cbn; congruence. Qed.

Lemma iuntag_end t si r tg p : iuntag t = Queue.QEnd si r tg p -> exists tg', t = Queue.QEnd si r tg' p.
Proof. destruct t; cbn; [discriminate|]. intros H. inversion H; subst. eexists; reflexivity. Qed.

Lemma retag f : forall b l, map iuntag l = tokens_at b f -> exists f', l = tokens_at b f'.
Proof.
  induction f as [|r tg s e ch f IHc IHf] using forest_ind; intros b l H.
  - cbn [tokens_at] in H. apply map_eq_nil in H. subst l. exists []. reflexivity.
  - rewrite tokens_at_cons in H.
    apply map_eq_cons in H. destruct H as (x & l1 & -> & Hx & H).
    apply map_eq_app in H. destruct H as (lc & l2 & -> & Hc & H).
    apply map_eq_cons in H. destruct H as (y & lf & -> & Hy & Hf).
    apply iuntag_start in Hx. subst x. apply iuntag_end in Hy. destruct Hy as [tg' ->].
    destruct (IHc _ _ Hc) as [ch' Ec]. destruct (IHf _ _ Hf) as [f' Ef]. subst lc lf.
    assert (L : fsize ch' = fsize ch).
    { apply (f_equal (@length _)) in Hc. rewrite map_length, !length_tokens_at in Hc. lia. }
    exists (Node r tg' s e ch' :: f'). rewrite tokens_at_cons, L. reflexivity.
Qed.

(* ---------- nesting ---------- *)
Lemma fnested_app a f1 b f2 c : fnested a f1 b -> fnested b f2 c -> fnested a (f1 ++ f2) c.
Proof.
  intros H1. revert c. induction H1 as [lo hi H|lo hi r tg s e ch f H Hc _ Hf IHf]; intros c H2.
  - cbn [app]. apply (fnested_weaken hi lo c c); [exact H|apply Nat.le_refl|exact H2].
  - cbn [app]. constructor; [exact H|exact Hc|apply IHf; exact H2].
Qed.

Lemma fnested_bounds lo f hi : fnested lo f hi -> Forall (fun x => lo <= x <= hi) (fposl f).
Proof.
  induction 1 as [lo hi H|lo hi r tg s e ch f H Hc IHc Hf IHf]; [constructor|].
  rewrite fposl_cons. pose proof (fnested_le _ _ _ Hc) as L1. pose proof (fnested_le _ _ _ Hf) as L2.
  constructor; [lia|]. apply Forall_app. split.
  - eapply Forall_impl; [|exact IHc]. cbn. intros x Hx; lia.
  - constructor; [lia|]. eapply Forall_impl; [|exact IHf]. cbn. intros x Hx; lia.
Qed.

(* ---------- the delta relation ---------- *)
Definition D (bnd : list byte -> nat -> bool) (s s' : pst) : Prop :=
  exists f, ustream (queue s') = ustream (queue s) ++ tokens_at (length (queue s)) f /\
            fnested (pos s) f (pos s') /\
            Forall (fun p => bnd (input s) p = true) (fposl f).

Lemma D_nil bnd s s' : untagq (queue s') = untagq (queue s) -> pos s <= pos s' -> D bnd s s'.
Proof.
  intros Q P. exists []. cbn [tokens_at fposl]. rewrite app_nil_r.
  split; [apply ustream_ueq; exact Q|]. split; constructor. exact P.
Qed.

(* the same delta seen from an earlier state with the same tokens / by a later state with the same tokens *)
Lemma D_glue bnd s s1 x s' :
  D bnd s1 x ->
  untagq (queue s1) = untagq (queue s) -> pos s <= pos s1 -> input s1 = input s ->
  untagq (queue s') = untagq (queue x) -> pos x <= pos s' ->
  D bnd s s'.
Proof.
  intros (f & A & B & C) Q1 P1 I1 Q2 P2. exists f. split; [|split].
  - rewrite (ustream_ueq _ _ Q2), A, (ustream_ueq _ _ Q1), (length_ueq _ _ Q1). reflexivity.
  - apply (fnested_weaken (pos s1) (pos s) (pos x) (pos s')); [exact P1|exact P2|exact B].
  - rewrite <- I1. exact C.
Qed.

Lemma D_trans bnd s1 s2 s3 : D bnd s1 s2 -> D bnd s2 s3 -> input s2 = input s1 -> D bnd s1 s3.
Proof.
  intros (f1 & A1 & B1 & C1) (f2 & A2 & B2 & C2) I. exists (f1 ++ f2). split; [|split].
  - assert (L : length (queue s2) = length (queue s1) + 2 * fsize f1).
    { rewrite <- (length_ustream (queue s2)), A1, app_length, length_ustream, length_tokens_at. reflexivity. }
    rewrite A2, A1, L, tokens_at_app, <- app_assoc. reflexivity.
  - eapply fnested_app; [exact B1|exact B2].
  - rewrite fposl_app. apply Forall_app. split; [exact C1|rewrite <- I; exact C2].
Qed.

(* closing a rule: Start pushed at entry (s1 -> s2), closed forest `ch` emitted by the body (s2 -> sb),
   then the Start gets its End index and the End token is pushed (sb -> s'): one more tree *)
Lemma D_rule bnd s1 s2 sb s' r body :
  queue s2 = QStart 0 (pos s1) :: queue s1 -> pos s2 = pos s1 -> input s2 = input s1 ->
  D bnd s2 sb ->
  untagq (queue sb) = body ++ QStart 0 (pos s1) :: untagq (queue s1) ->
  untagq (queue s') = QEnd (length (queue s1)) r None (pos s') :: body ++
                      QStart (S (length body + length (queue s1))) (pos s1) :: untagq (queue s1) ->
  pos s' = pos sb -> bnd (input s1) (pos s1) = true -> bnd (input s1) (pos s') = true ->
  D bnd s1 s'.
Proof.
  intros Q2 P2 I2 (ch & A & B & C) Eb Es Ps B1 B2.
  assert (Hb : ustream body = tokens_at (S (length (queue s1))) ch).
  { rewrite <- (ustream_untagq (queue sb)), Eb in A. rewrite Q2 in A. cbn [length] in A.
    rewrite ustream_app, !ustream_cons, ustream_untagq in A.
    apply app_inv_head in A. exact A. }
  assert (Lb : length body = 2 * fsize ch).
  { rewrite <- (length_ustream body), Hb. apply length_tokens_at. }
  exists [Node r None (pos s1) (pos s') ch]. split; [|split].
  - rewrite <- (ustream_untagq (queue s')), Es.
    rewrite ustream_cons, ustream_app, ustream_cons, ustream_untagq, Hb, Lb.
    rewrite tokens_at_cons. cbn [tokens_at conv iuntag]. rewrite <- !app_assoc. cbn [app].
    replace (S (2 * fsize ch + length (queue s1))) with (S (length (queue s1)) + 2 * fsize ch) by lia.
    reflexivity.
  - constructor; [apply Nat.le_refl| |constructor; apply Nat.le_refl].
    rewrite <- P2, Ps. exact B.
  - rewrite fposl_cons. cbn [fposl]. constructor; [exact B1|]. apply Forall_app. split.
    + rewrite <- I2. exact C.
    + constructor; [exact B2|constructor].
Qed.

(* ---------- primitives never change the queue except for the tag of its last token ---------- *)
Lemma exec_prim_ueq cfg o s s' :
  (exec_prim cfg o s = ROk s' \/ exec_prim cfg o s = RErr s') -> untagq (queue s') = untagq (queue s).
Proof.
  intros H.
  assert (HP : forall s0 r t x, (apply_pres s0 r t = ROk x \/ apply_pres s0 r t = RErr x) -> queue x = queue s0).
  { intros s0 r t x. unfold apply_pres. destruct r as [p| |].
    - destruct t as [tk|]; [destruct (pa_enabled s0)|]; intros [[= <-]|Hx]; try discriminate; try reflexivity.
      destruct (handle_token_core (set_pos s0 p) (pos s0) tk true) as [C _].
      change (queue (handle_token_parse_result (set_pos s0 p) (pos s0) tk true) = queue s0). rewrite (c_queue _ _ C). reflexivity.
    - destruct t as [tk|]; [destruct (pa_enabled s0)|]; intros [Hx|[= <-]]; try discriminate; try reflexivity.
      destruct (handle_token_core s0 (pos s0) tk false) as [C _].
      change (queue (handle_token_parse_result s0 (pos s0) tk false) = queue s0). rewrite (c_queue _ _ C). reflexivity.
    - intros [Hx|Hx]; discriminate. }
  assert (HS : forall s0 str x, (st_match_string s0 str = ROk x \/ st_match_string s0 str = RErr x) -> queue x = queue s0)
    by (intros; eapply HP; eauto).
  assert (HK : forall i j d, (peek_slice s i j d = ROk s' \/ peek_slice s i j d = RErr s') -> queue s' = queue s).
  { intros i j d. unfold peek_slice. destruct (constrain_idxs _ _ _) as [[x y]|]; [|intros [Hx|[= <-]]; try discriminate; auto].
    destruct (Nat.leb y x); [intros [[= <-]|Hx]; try discriminate; auto|].
    destruct (match_all _ _ _); intros [Hx|Hx]; inversion Hx; subst; auto. }
  destruct o; cbn [exec_prim] in H;
    try (f_equal; eapply HP; eassumption); try (f_equal; eapply HS; eassumption); try (f_equal; eapply HK; eassumption).
  - destruct H as [[= <-]|H]; [reflexivity|discriminate].
  - destruct H as [H|[= <-]]; [discriminate|reflexivity].
  - destruct (skip_until cfg (input s) (pos s) ss); destruct H as [H|H]; inversion H; subst; reflexivity.
  - destruct (Nat.eqb (pos s) 0); destruct H as [H|H]; inversion H; subst; reflexivity.
  - destruct (Nat.eqb (pos s) (length (input s))); destruct H as [H|H]; inversion H; subst; reflexivity.
  - destruct H as [[= <-]|H]; [reflexivity|discriminate].
  - destruct (peek (stack s)); [f_equal; eapply HS; eassumption|destruct H; discriminate].
  - destruct (pop (stack s)) as [st [x|]]; [|destruct H; discriminate]. apply HS in H. f_equal. exact H.
  - destruct (pop (stack s)) as [st [x|]]; destruct H as [H|H]; inversion H; subst; reflexivity.
  - destruct (match_pop_loop _ _ _ _) as [[[st p] [|]]|]; destruct H as [H|H]; inversion H; subst; reflexivity.
  - destruct (negb (lk_eqb (lookahead s) LNone)); [destruct H as [[= <-]|H]; [reflexivity|discriminate]|].
    destruct (queue s) as [|[e p|si r tg p] q] eqn:Q; destruct H as [H|H]; inversion H; subst; try rewrite Q; reflexivity.
Qed.

(* ---------- the rule contract with the intermediate states named ----------
   (Contracts.rule_contract hides the state handed to the body behind an existential; the induction
   below needs to run the body from it, so the same proof is replayed with s1/s2 explicit) *)
Section RuleShape.
Variable cfg : config.
Variable E : env.

Lemma rule_shape fuel r p s s1 a :
  wf s -> Inv (stack s) a -> inc_call s = Some s1 ->
  match exec cfg E fuel p (snd (rule_enter s1)), exec cfg E (S fuel) (PRule r p) s with
  | ROk sb, ROk s' =>
      pos s' = pos sb /\
      (if emits s1
       then exists body, untagq (queue sb) = body ++ QStart 0 (pos s1) :: untagq (queue s1) /\
                         untagq (queue s') = QEnd (length (queue s1)) r None (pos s') :: body ++
                                            QStart (S (length body + length (queue s1))) (pos s1) :: untagq (queue s1)
       else queue s' = queue sb)
  | RErr sb, RErr s' =>
      pos s' = pos sb /\ (if emits s1 then untagq (queue s') = untagq (queue s1) else queue s' = queue sb)
  | RPanic k, RPanic k' => k = k'
  | ROutOfFuel, ROutOfFuel => True
  | _, _ => False
  end.
Proof.
  intros W I Ei. cbn [exec]. rewrite Ei.
  destruct (inc_call_frame _ _ Ei) as (F1 & e4 & e2 & e3 & e1 & _).
  destruct (rule_enter s1) as [fr s2] eqn:Er. cbn [snd].
  assert (Hfr : fr = fst (rule_enter s1)) by now rewrite Er. assert (Hs2 : s2 = snd (rule_enter s1)) by now rewrite Er.
  destruct (rule_enter_spec s1) as (Rp & Ri & Rc & Rm & Q & SQ). rewrite <- Hs2 in SQ, Q. rewrite <- Hfr in Rp, Ri, Rc, Rm. dsq SQ.
  assert (W2 : wf s2) by (unfold wf in *; congruence).
  assert (I2 : Inv (stack s2) a) by (rewrite q_stack0, e4; exact I).
  pose proof (exec_post cfg E fuel p s2 a W2 I2) as P.
  destruct (exec cfg E fuel p s2) as [sb|sb|k|] eqn:Eb; auto.
  - (* body Ok *)
    cbn in P. destruct P as (F & Wb & ab & Ib & Sb).
    pose proof (rule_ok_post r s1 sb a ab Wb) as PO. rewrite <- Hs2, <- Hfr in PO. specialize (PO F Ib Sb).
    destruct F as [f_input0 f_la0 f_at0 f_lim0 f_en0 f_calls0 f_pos0 f_mp0 f_cs0 f_queue0].
    unfold rule_ok in *.
    set (sa := if lk_eqb (lookahead sb) LNeg then track sb r (rf_pos fr) (rf_pai fr) (rf_nai fr) (rf_attempts fr) else sb) in *.
    assert (T : same_but_attempts sb sa) by (unfold sa; destruct (lk_eqb (lookahead sb) LNeg); [apply track_same|split; reflexivity]).
    dtr T.
    assert (Em : emits sa = emits s1). { unfold emits. rewrite t_la0, t_at0, f_la0, f_at0, q_la0, q_at0. reflexivity. }
    rewrite Em in *.
    destruct (emits s1) eqn:Ee.
    + destruct f_queue0 as [body Eq]. rewrite Q in Eq. cbn [untagq map untag] in Eq. fold (untagq (queue s1)) in Eq.
      rewrite <- t_queue0 in Eq.
      destruct (set_start_end_ok (queue sa) body 0 (pos s1) (untagq (queue s1)) (length (queue sa)) Eq) as (q' & E1 & E2 & E3).
      rewrite untagq_length in E1. rewrite Ri in *. rewrite E1 in *.
      assert (LQ : length (queue sa) = S (length body + length (queue s1))).
      { rewrite <- (untagq_length (queue sa)), Eq, app_length. cbn [length]. rewrite untagq_length. lia. }
      set (sb' := set_queue sa (QEnd (length (queue s1)) r None (pos sa) :: q')) in *.
      assert (FIN : forall y, same_core sb' y -> pos y = pos sb /\
                 exists body0, untagq (queue sb) = body0 ++ QStart 0 (pos s1) :: untagq (queue s1) /\
                   untagq (queue y) = QEnd (length (queue s1)) r None (pos y) :: body0 ++
                       QStart (S (length body0 + length (queue s1))) (pos s1) :: untagq (queue s1)).
      { intros y C. pose proof (c_queue _ _ C) as cq. pose proof (c_pos _ _ C) as cp. cbn in cq, cp.
        split; [congruence|]. exists body. split; [rewrite <- t_queue0, Eq; reflexivity|].
        rewrite cq. cbn. fold (untagq q'). rewrite E2, LQ, cp. reflexivity. }
      change (pa_enabled sb') with (pa_enabled sa) in *.
      destruct (pa_enabled sa).
      * destruct (try_add_rule_to_stack sb' r (rf_csn fr) (rf_max fr)) as [y|] eqn:Ey; cbn [lift] in *.
        -- apply FIN. eapply try_add_rule_to_stack_core; eauto.
        -- cbn in PO. congruence.
      * apply FIN. apply same_core_refl.
    + destruct (pa_enabled sa).
      * destruct (try_add_rule_to_stack sa r (rf_csn fr) (rf_max fr)) as [y|] eqn:Ey; cbn [lift] in *.
        -- apply try_add_rule_to_stack_core in Ey. pose proof (c_queue _ _ Ey). pose proof (c_pos _ _ Ey). split; congruence.
        -- cbn in PO. congruence.
      * split; congruence.
  - (* body Err *)
    cbn in P. destruct P as (F & Wb & ab & Ib & Sb).
    pose proof (rule_err_post r s1 sb a ab Wb) as PO. rewrite <- Hs2, <- Hfr in PO. specialize (PO F Ib Sb).
    destruct F as [f_input0 f_la0 f_at0 f_lim0 f_en0 f_calls0 f_pos0 f_mp0 f_cs0 f_queue0].
    unfold rule_err in *.
    assert (FIN : forall y, queue y = queue sb -> pos y = pos sb -> lookahead y = lookahead sb -> atomicity y = atomicity sb ->
              let z := (if emits y then set_queue y (vtruncate (rf_index fr) (queue y)) else y) in
              pos z = pos sb /\ (if emits s1 then untagq (queue z) = untagq (queue s1) else queue z = queue sb)).
    { intros y Qy Py Ly Ay. assert (Em : emits y = emits s1).
      { unfold emits. rewrite Ly, Ay, f_la0, f_at0, q_la0, q_at0. reflexivity. }
      cbv zeta. rewrite Em. destruct (emits s1) eqn:Ee; cbn; [|split; congruence]. split; [congruence|].
      destruct f_queue0 as [body Eq]. rewrite Q in Eq. cbn [untagq map untag] in Eq. fold (untagq (queue s1)) in Eq.
      rewrite Qy, Ri.
      apply (untagq_truncate_back (queue s1) (queue sb) (length (queue s1)) (body ++ [QStart 0 (pos s1)])); auto.
      rewrite Eq, <- app_assoc. reflexivity. }
    destruct (negb (lk_eqb (lookahead sb) LNeg)).
    + set (t := track sb r (rf_pos fr) (rf_pai fr) (rf_nai fr) (rf_attempts fr)) in *.
      pose proof (track_same sb r (rf_pos fr) (rf_pai fr) (rf_nai fr) (rf_attempts fr)) as T. fold t in T. dtr T.
      destruct (pa_enabled t).
      * destruct (try_add_rule_to_stack t r (rf_csn fr) (rf_max fr)) as [y|] eqn:Ey.
        -- apply try_add_rule_to_stack_core in Ey.
           apply (FIN y); [rewrite (c_queue _ _ Ey)|rewrite (c_pos _ _ Ey)|rewrite (c_la _ _ Ey)|rewrite (c_at _ _ Ey)]; congruence.
        -- cbn in PO. congruence.
      * apply (FIN t); congruence.
    + apply (FIN sb); reflexivity.
Qed.

End RuleShape.
