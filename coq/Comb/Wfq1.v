(* C04, parser half, part 1: the bridge between the token queue of the parser state
   (PV.Comb.PState, a reversed list: head = last pushed token) and the token streams / forests of
   PV.Iter.Queue.

     conv            constructor-wise conversion of a queue token
     stream q        the queue in stream order, as Iter tokens:   map conv (rev q)
     ustream q       the same with every node tag erased (the frame theorem and the rule contract of
                     Frame.v/Contracts.v speak about queues up to tags: `untagq`)
     retag           a stream whose tag-erasure is `tokens_at b f` is itself `tokens_at b f'`
     D bnd s s'      "delta": between s and s' the queue grew by the tokens of a CLOSED forest f placed at
                     absolute index |queue s| (old tokens changed at most in tags), the spans of f are
                     nested inside [pos s, pos s'] and every position of f satisfies `bnd (input s)`.
   Names: after the imports below the short names qtoken/QStart/QEnd are those of PState; the Iter ones
   are written Queue.qtoken/Queue.QStart/Queue.QEnd. *)
From Coq Require Import List Arith NArith ZArith Bool Lia.
Import ListNotations.
Require Import PV.Iter.Queue PV.Iter.QueueFacts.
Require Import PV.Stack.Model PV.Stack.Proofs PV.Comb.PState PV.Comb.Bytes PV.Comb.Prog PV.Comb.Exec PV.Comb.Frame PV.Comb.Contracts.

Arguments Nat.sub : simpl never.
Arguments Nat.mul : simpl never.
Arguments Nat.ltb : simpl never.
Arguments Nat.leb : simpl never.
Arguments Nat.eqb : simpl never.
Arguments skipn : simpl never.
Arguments firstn : simpl never.

(* ---------- conversion ---------- *)
Definition conv (t : qtoken) : Queue.qtoken :=
  match t with
  | QStart e p => Queue.QStart e p
  | QEnd si r tg p => Queue.QEnd si r tg p
  end.
Definition iuntag (t : Queue.qtoken) : Queue.qtoken :=
  match t with Queue.QEnd si r _ p => Queue.QEnd si r None p | x => x end.
Definition stream (q : list qtoken) : list Queue.qtoken := map conv (rev q).
Definition ustream (q : list qtoken) : list Queue.qtoken := map iuntag (stream q).

Lemma iuntag_conv_untag t : iuntag (conv (untag t)) = iuntag (conv t).
Proof. destruct t; reflexivity. Qed.

Lemma qpos_iuntag t : qpos (iuntag t) = qpos t.
Proof. destruct t; reflexivity. Qed.

Lemma ustream_untagq q : ustream (untagq q) = ustream q.
Proof.
  unfold ustream, stream, untagq. rewrite <- map_rev, !map_map. apply map_ext. intros t. apply iuntag_conv_untag.
Qed.

Lemma ustream_app a b : ustream (a ++ b) = ustream b ++ ustream a.
Proof. unfold ustream, stream. rewrite rev_app_distr, !map_app. reflexivity. Qed.

Lemma ustream_cons t q : ustream (t :: q) = ustream q ++ [iuntag (conv t)].
Proof. unfold ustream, stream. cbn [rev]. rewrite !map_app. reflexivity. Qed.

Lemma length_ustream q : length (ustream q) = length q.
Proof. unfold ustream, stream. rewrite !map_length, rev_length. reflexivity. Qed.

Lemma ustream_ueq q q' : untagq q = untagq q' -> ustream q = ustream q'.
Proof. intros H. rewrite <- (ustream_untagq q), H. apply ustream_untagq. Qed.

Lemma length_ueq q q' : untagq q = untagq q' -> length q = length q'.
Proof. intros H. rewrite <- (untagq_length q), H. apply untagq_length. Qed.

Lemma map_qpos_ustream q : map qpos (ustream q) = map qpos (stream q).
Proof. unfold ustream. rewrite map_map. apply map_ext. intros t. apply qpos_iuntag. Qed.

(* ---------- erasing tags does not change the shape ---------- *)
Lemma iuntag_start t e p : iuntag t = Queue.QStart e p -> t = Queue.QStart e p.
Proof. destruct t; cbn; congruence. Qed.

Lemma iuntag_end t si r tg p : iuntag t = Queue.QEnd si r tg p -> exists tg', t = Queue.QEnd si r tg' p.
Proof. destruct t; cbn; [discriminate|]. intros H. inversion H; subst. eexists; reflexivity. Qed.

Lemma retag f : forall b l, map iuntag l = tokens_at b f -> exists f', l = tokens_at b f'.
Proof.
  induction f as [|r tg s e ch f IHc IHf] using forest_ind; intros b l H.
  - cbn [tokens_at] in H. apply map_eq_nil in H. subst l. exists []. reflexivity.
  - rewrite tokens_at_cons in H.
    apply map_eq_cons in H. destruct H as (x & l1 & -> & Hx & H).
    apply map_eq_app in H. destruct H as (lc & l2 & -> & Hc & H).
    apply map_eq_cons in H. destruct H as (y & lf & -> & Hy & Hf).
    apply iuntag_start in Hx. subst x. apply iuntag_end in Hy. destruct Hy as [tg' ->].
    destruct (IHc _ _ Hc) as [ch' Ec]. destruct (IHf _ _ Hf) as [f' Ef]. subst lc lf.
    assert (L : fsize ch' = fsize ch).
    { apply (f_equal (@length _)) in Hc. rewrite map_length, !length_tokens_at in Hc. lia. }
    exists (Node r tg' s e ch' :: f'). rewrite tokens_at_cons, L. reflexivity.
Qed.

(* ---------- nesting ---------- *)
Lemma fnested_app a f1 b f2 c : fnested a f1 b -> fnested b f2 c -> fnested a (f1 ++ f2) c.
Proof.
  intros H1. revert c. induction H1 as [lo hi H|lo hi r tg s e ch f H Hc _ Hf IHf]; intros c H2.
  - cbn [app]. apply (fnested_weaken hi lo c c); [exact H|apply Nat.le_refl|exact H2].
  - cbn [app]. constructor; [exact H|exact Hc|apply IHf; exact H2].
Qed.

Lemma fnested_bounds lo f hi : fnested lo f hi -> Forall (fun x => lo <= x <= hi) (fposl f).
Proof.
  induction 1 as [lo hi H|lo hi r tg s e ch f H Hc IHc Hf IHf]; [constructor|].
  rewrite fposl_cons. pose proof (fnested_le _ _ _ Hc) as L1. pose proof (fnested_le _ _ _ Hf) as L2.
  constructor; [lia|]. apply Forall_app. split.
  - eapply Forall_impl; [|exact IHc]. cbn. intros x Hx; lia.
  - constructor; [lia|]. eapply Forall_impl; [|exact IHf]. cbn. intros x Hx; lia.
Qed.

(* ---------- the delta relation ---------- *)
Definition D (bnd : list byte -> nat -> bool) (s s' : pst) : Prop :=
  exists f, ustream (queue s') = ustream (queue s) ++ tokens_at (length (queue s)) f /\
            fnested (pos s) f (pos s') /\
            Forall (fun p => bnd (input s) p = true) (fposl f).

Lemma D_nil bnd s s' : untagq (queue s') = untagq (queue s) -> pos s <= pos s' -> D bnd s s'.
Proof.
  intros Q P. exists []. cbn [tokens_at fposl]. rewrite app_nil_r.
  split; [apply ustream_ueq; exact Q|]. split; constructor. exact P.
Qed.

(* the same delta seen from an earlier state with the same tokens / by a later state with the same tokens *)
Lemma D_glue bnd s s1 x s' :
  D bnd s1 x ->
  untagq (queue s1) = untagq (queue s) -> pos s <= pos s1 -> input s1 = input s ->
  untagq (queue s') = untagq (queue x) -> pos x <= pos s' ->
  D bnd s s'.
Proof.
  intros (f & A & B & C) Q1 P1 I1 Q2 P2. exists f. split; [|split].
  - rewrite (ustream_ueq _ _ Q2), A, (ustream_ueq _ _ Q1), (length_ueq _ _ Q1). reflexivity.
  - apply (fnested_weaken (pos s1) (pos s) (pos x) (pos s')); [exact P1|exact P2|exact B].
  - rewrite <- I1. exact C.
Qed.

Lemma D_trans bnd s1 s2 s3 : D bnd s1 s2 -> D bnd s2 s3 -> input s2 = input s1 -> D bnd s1 s3.
Proof.
  intros (f1 & A1 & B1 & C1) (f2 & A2 & B2 & C2) I. exists (f1 ++ f2). split; [|split].
  - assert (L : length (queue s2) = length (queue s1) + 2 * fsize f1).
    { rewrite <- (length_ustream (queue s2)), A1, app_length, length_ustream, length_tokens_at. reflexivity. }
    rewrite A2, A1, L, tokens_at_app, <- app_assoc. reflexivity.
  - eapply fnested_app; [exact B1|exact B2].
  - rewrite fposl_app. apply Forall_app. split; [exact C1|rewrite <- I; exact C2].
Qed.
