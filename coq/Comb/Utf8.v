(* Layer C proofs, part 3a: UTF-8.  `encode`, `valid_utf8`, decode1 (encode c ++ l), leading / continuation
   bytes, and the characterisation of the char boundaries of a valid string as the partial sums of the
   encoded lengths.  Everything is unbounded; code points range over all of [0, 0x110000). *)
From Coq Require Import List Arith NArith Bool Lia ZifyN ZifyBool.
Import ListNotations.
Require Import PV.Comb.PState PV.Comb.Bytes PV.Comb.Frame.

Arguments N.land : simpl never.
Arguments N.shiftr : simpl never.
Arguments N.add : simpl never.
Arguments N.mul : simpl never.
Arguments N.div : simpl never.
Arguments N.modulo : simpl never.
Arguments N.ltb : simpl never.
Arguments N.leb : simpl never.
Arguments N.eqb : simpl never.

(* ---------- encoding ---------- *)
Definition encode (c : N) : list byte :=
  if (c <? 128)%N then [c]
  else if (c <? 2048)%N then [(192 + c / 64)%N; (128 + c mod 64)%N]
  else if (c <? 65536)%N then [(224 + c / 4096)%N; (128 + (c / 64) mod 64)%N; (128 + c mod 64)%N]
  else [(240 + c / 262144)%N; (128 + (c / 4096) mod 64)%N; (128 + (c / 64) mod 64)%N; (128 + c mod 64)%N].

(* Unicode scalar values: [0, 0xD800) and [0xE000, 0x10FFFF] *)
Definition scalar (c : N) : Prop := (c < 55296)%N \/ (57344 <= c <= 1114111)%N.
Definition scalarb (c : N) : bool := (c <? 55296)%N || ((57344 <=? c)%N && (c <=? 1114111)%N).

Lemma scalarb_spec c : scalarb c = true <-> scalar c.
Proof. unfold scalarb, scalar. lia. Qed.

Lemma scalar_lt c : scalar c -> (c < 1114112)%N.
Proof. unfold scalar. lia. Qed.

Definition valid_utf8 (l : list byte) : Prop := exists cs, Forall scalar cs /\ l = flat_map encode cs.

(* length of a char from its first byte, as decode1 reads it *)
Definition clen (b : byte) : nat :=
  if (b <? 128)%N then 1 else if (b <? 224)%N then 2 else if (b <? 240)%N then 3 else 4.

Lemma land_7 x : N.land x 7 = (x mod 8)%N.   Proof. exact (N.land_ones x 3). Qed.
Lemma land_15 x : N.land x 15 = (x mod 16)%N. Proof. exact (N.land_ones x 4). Qed.
Lemma land_31 x : N.land x 31 = (x mod 32)%N. Proof. exact (N.land_ones x 5). Qed.
Lemma land_63 x : N.land x 63 = (x mod 64)%N. Proof. exact (N.land_ones x 6). Qed.

Lemma encode_length c : 1 <= length (encode c) <= 4.
Proof. unfold encode. destruct (c <? 128)%N, (c <? 2048)%N, (c <? 65536)%N; cbn; lia. Qed.

Lemma encode_nonempty c : encode c <> [].
Proof. pose proof (encode_length c). destruct (encode c); [cbn in *; lia|discriminate]. Qed.

(* decode1 inverts encode on every code point below 0x110000 (surrogates included: decode1 does not look) *)
Theorem decode1_encode c l : (c < 1114112)%N -> decode1 (encode c ++ l) = Some (c, length (encode c)).
Proof.
  intros H. unfold encode.
  destruct (N.ltb_spec c 128) as [H1|H1].
  { cbn [app decode1 length]. destruct (N.ltb_spec c 128); [reflexivity|lia]. }
  destruct (N.ltb_spec c 2048) as [H2|H2].
  { cbn [app decode1 length].
    destruct (N.ltb_spec (192 + c / 64) 128); [lia|].
    destruct (N.ltb_spec (192 + c / 64) 192); [lia|].
    destruct (N.ltb_spec (192 + c / 64) 224); [|lia].
    rewrite land_31, land_63. f_equal. f_equal. lia. }
  destruct (N.ltb_spec c 65536) as [H3|H3].
  { cbn [app decode1 length].
    destruct (N.ltb_spec (224 + c / 4096) 128); [lia|].
    destruct (N.ltb_spec (224 + c / 4096) 192); [lia|].
    destruct (N.ltb_spec (224 + c / 4096) 224); [lia|].
    destruct (N.ltb_spec (224 + c / 4096) 240); [|lia].
    rewrite land_15, !land_63. f_equal. f_equal. lia. }
  cbn [app decode1 length].
  destruct (N.ltb_spec (240 + c / 262144) 128); [lia|].
  destruct (N.ltb_spec (240 + c / 262144) 192); [lia|].
  destruct (N.ltb_spec (240 + c / 262144) 224); [lia|].
  destruct (N.ltb_spec (240 + c / 262144) 240); [lia|].
  rewrite land_7, !land_63. f_equal. f_equal. lia.
Qed.

Corollary decode1_encode_scalar c l : scalar c -> decode1 (encode c ++ l) = Some (c, length (encode c)).
Proof. intros H. apply decode1_encode. now apply scalar_lt. Qed.

(* shape of an encoded char: a leading byte that is not a continuation byte, then continuation bytes;
   the length is the one decode1 derives from the leading byte *)
Lemma encode_shape c : (c < 1114112)%N ->
  exists b0 t, encode c = b0 :: t /\ is_cont b0 = false /\ forallb is_cont t = true /\ length (encode c) = clen b0.
Proof.
  intros H. unfold encode, clen, is_cont.
  destruct (N.ltb_spec c 128) as [H1|H1].
  { exists c, []. cbn. repeat split; try lia. destruct (N.ltb_spec c 128); [reflexivity|lia]. }
  destruct (N.ltb_spec c 2048) as [H2|H2].
  { eexists _, _. split; [reflexivity|]. cbn [forallb length]. repeat split; try lia.
    destruct (N.ltb_spec (192 + c / 64) 128); [lia|]. destruct (N.ltb_spec (192 + c / 64) 224); [reflexivity|lia]. }
  destruct (N.ltb_spec c 65536) as [H3|H3].
  { eexists _, _. split; [reflexivity|]. cbn [forallb length]. repeat split; try lia.
    destruct (N.ltb_spec (224 + c / 4096) 128); [lia|]. destruct (N.ltb_spec (224 + c / 4096) 224); [lia|].
    destruct (N.ltb_spec (224 + c / 4096) 240); [reflexivity|lia]. }
  eexists _, _. split; [reflexivity|]. cbn [forallb length]. repeat split; try lia.
  destruct (N.ltb_spec (240 + c / 262144) 128); [lia|]. destruct (N.ltb_spec (240 + c / 262144) 224); [lia|].
  destruct (N.ltb_spec (240 + c / 262144) 240); [lia|reflexivity].
Qed.

Lemma encode_first_not_cont c : (c < 1114112)%N -> is_cont (hd 0%N (encode c)) = false.
Proof. intros H. destruct (encode_shape c H) as (b0 & t & -> & Hb & _). exact Hb. Qed.

Lemma encode_rest_cont c : (c < 1114112)%N -> forallb is_cont (tl (encode c)) = true.
Proof. intros H. destruct (encode_shape c H) as (b0 & t & -> & _ & Ht & _). exact Ht. Qed.

Lemma encode_nth_cont c i : (c < 1114112)%N -> 0 < i < length (encode c) -> is_cont (nth i (encode c) 0%N) = true.
Proof.
  intros H Hi. destruct (encode_shape c H) as (b0 & t & E & _ & Ht & _). rewrite E in *.
  destruct i as [|i]; [lia|]. cbn [nth]. cbn [length] in Hi.
  rewrite forallb_forall in Ht. apply Ht. apply nth_In. lia.
Qed.

Lemma encode_clen c : (c < 1114112)%N -> length (encode c) = clen (hd 0%N (encode c)).
Proof. intros H. destruct (encode_shape c H) as (b0 & t & E & _ & _ & L). rewrite L, E. reflexivity. Qed.

(* ---------- valid strings: constructors, inversion, induction ---------- *)
Lemma valid_nil : valid_utf8 [].
Proof. exists []. split; [constructor|reflexivity]. Qed.

Lemma valid_cons c l : scalar c -> valid_utf8 l -> valid_utf8 (encode c ++ l).
Proof. intros Hc (cs & F & ->). exists (c :: cs). split; [constructor; auto|reflexivity]. Qed.

Lemma valid_inv l : valid_utf8 l -> l = [] \/ exists c l', scalar c /\ l = encode c ++ l' /\ valid_utf8 l'.
Proof.
  intros (cs & F & ->). destruct cs as [|c cs]; [left; reflexivity|right].
  inversion F; subst. exists c, (flat_map encode cs). split; [auto|]. split; [reflexivity|]. exists cs; auto.
Qed.

Lemma valid_ind (P : list byte -> Prop) :
  P [] -> (forall c l, scalar c -> valid_utf8 l -> P l -> P (encode c ++ l)) -> forall l, valid_utf8 l -> P l.
Proof.
  intros H0 HS l (cs & F & ->). induction F as [|c cs Hc F IH]; [exact H0|].
  cbn [flat_map]. apply HS; auto. exists cs; auto.
Qed.

Lemma valid_app a b : valid_utf8 a -> valid_utf8 b -> valid_utf8 (a ++ b).
Proof.
  intros (ca & Fa & ->) (cb & Fb & ->). exists (ca ++ cb). split; [apply Forall_app; auto|].
  now rewrite flat_map_app.
Qed.

Lemma valid_first_not_cont l : valid_utf8 l -> l <> [] -> is_cont (hd 0%N l) = false.
Proof.
  intros V N. destruct (valid_inv l V) as [->|(c & l' & Hc & -> & _)]; [congruence|].
  destruct (encode_shape c (scalar_lt c Hc)) as (b0 & t & -> & Hb & _). exact Hb.
Qed.

(* ---------- char boundaries ---------- *)
Lemma boundaryb_spec inp p :
  boundaryb inp p = true <-> p = length inp \/ (p < length inp /\ is_cont (nth p inp 0%N) = false).
Proof.
  unfold boundaryb. destruct (Nat.compare_spec p (length inp)) as [H|H|H].
  - split; auto.
  - rewrite negb_true_iff. split; [intros E; right; auto|intros [E|[_ E]]; [lia|exact E]].
  - split; [discriminate|lia].
Qed.

Lemma boundaryb_le inp p : boundaryb inp p = true -> p <= length inp.
Proof. rewrite boundaryb_spec. lia. Qed.

Lemma boundaryb_0 inp : valid_utf8 inp -> boundaryb inp 0 = true.
Proof.
  intros V. apply boundaryb_spec. destruct inp as [|b r]; [left; reflexivity|right].
  split; [cbn; lia|]. apply (valid_first_not_cont (b :: r) V). discriminate.
Qed.

Lemma boundaryb_len inp : boundaryb inp (length inp) = true.
Proof. apply boundaryb_spec. left; reflexivity. Qed.

Lemma boundaryb_app_ge a l p : length a <= p -> boundaryb (a ++ l) p = boundaryb l (p - length a).
Proof.
  intros H. unfold boundaryb. rewrite app_length, app_nth2 by lia.
  destruct (Nat.compare_spec p (length a + length l)), (Nat.compare_spec (p - length a) (length l)); try lia; reflexivity.
Qed.

Lemma boundaryb_inside c l p : (c < 1114112)%N -> 0 < p < length (encode c) -> boundaryb (encode c ++ l) p = false.
Proof.
  intros Hc Hp. apply not_true_iff_false. rewrite boundaryb_spec, app_length. intros [E|[_ E]]; [lia|].
  rewrite app_nth1 in E by lia. rewrite encode_nth_cont in E by auto. discriminate.
Qed.

(* the boundaries of a valid string are exactly the partial sums of the encoded lengths *)
Theorem boundary_iff cs p : Forall scalar cs ->
  (boundaryb (flat_map encode cs) p = true <-> exists k, p = length (flat_map encode (firstn k cs))).
Proof.
  intros F. revert p. induction F as [|c cs Hc F IH]; intros p.
  - cbn [flat_map]. rewrite boundaryb_spec. cbn [length]. split.
    + intros [->|[H _]]; [exists 0; reflexivity|lia].
    + intros [k ->]. left. destruct k; reflexivity.
  - cbn [flat_map]. pose proof (scalar_lt c Hc) as Lc. pose proof (encode_length c) as Le.
    destruct (Nat.eq_dec p 0) as [->|P0].
    { split; [intros _; exists 0; reflexivity|intros _]. apply boundaryb_0. apply valid_cons; auto. exists cs; auto. }
    destruct (Nat.lt_ge_cases p (length (encode c))) as [Lt|Ge].
    { rewrite boundaryb_inside by (auto; lia). split; [discriminate|]. intros [[|k] E]; [rewrite firstn_O in E; cbn [flat_map length] in E; lia|].
      rewrite firstn_cons in E. cbn [flat_map] in E. rewrite app_length in E. lia. }
    rewrite boundaryb_app_ge by exact Ge. rewrite IH. split.
    + intros [k E]. exists (S k). rewrite firstn_cons. cbn [flat_map]. rewrite app_length. lia.
    + intros [[|k] E]; [rewrite firstn_O in E; cbn [flat_map length] in E; lia|]. exists k.
      rewrite firstn_cons in E. cbn [flat_map] in E. rewrite app_length in E. lia.
Qed.

Lemma Forall_firstn' {A} (P : A -> Prop) n l : Forall P l -> Forall P (firstn n l).
Proof. intros H. rewrite <- (firstn_skipn n l) in H. apply Forall_app in H. tauto. Qed.
Lemma Forall_skipn' {A} (P : A -> Prop) n l : Forall P l -> Forall P (skipn n l).
Proof. intros H. rewrite <- (firstn_skipn n l) in H. apply Forall_app in H. tauto. Qed.

(* splitting a valid string at a boundary gives two valid strings, and conversely *)
Lemma boundary_split inp p : valid_utf8 inp -> boundaryb inp p = true ->
  valid_utf8 (firstn p inp) /\ valid_utf8 (skipn p inp).
Proof.
  intros (cs & F & ->) B. apply (boundary_iff cs p F) in B. destruct B as [k ->].
  rewrite <- (firstn_skipn k cs) at 2 4. rewrite flat_map_app.
  rewrite firstn_app, firstn_all, Nat.sub_diag, skipn_app, skipn_all, Nat.sub_diag. rewrite firstn_O, skipn_O.
  rewrite app_nil_r. cbn [app]. split.
  - exists (firstn k cs). split; [|reflexivity]. now apply Forall_firstn'.
  - exists (skipn k cs). split; [|reflexivity]. now apply Forall_skipn'.
Qed.

Lemma boundary_join a b : valid_utf8 b -> boundaryb (a ++ b) (length a) = true.
Proof.
  intros V. rewrite boundaryb_app_ge, Nat.sub_diag by lia. now apply boundaryb_0.
Qed.

Lemma boundary_shift inp p q : p <= length inp -> p <= q -> boundaryb inp q = boundaryb (skipn p inp) (q - p).
Proof.
  intros L H. rewrite <- (firstn_skipn p inp) at 1. rewrite boundaryb_app_ge; rewrite firstn_length_le by lia; auto.
Qed.

(* a slice between two boundaries of a valid string is valid (what stack_push stores) *)
Lemma valid_slice inp p q : valid_utf8 inp -> boundaryb inp p = true -> boundaryb inp q = true -> p <= q ->
  valid_utf8 (firstn (q - p) (skipn p inp)).
Proof.
  intros V Bp Bq H. destruct (boundary_split inp p V Bp) as [_ V2].
  rewrite (boundary_shift inp p q (boundaryb_le _ _ Bp) H) in Bq. now apply (boundary_split _ _ V2 Bq).
Qed.

(* sanity: the standard encodings of U+0041, U+00E9, U+20AC, U+1F600, and the extremes of each length *)
Example encode_samples :
  encode 65 = [65]%N /\ encode 233 = [195; 169]%N /\ encode 8364 = [226; 130; 172]%N /\
  encode 128512 = [240; 159; 152; 128]%N /\ encode 127 = [127]%N /\ encode 128 = [194; 128]%N /\
  encode 2047 = [223; 191]%N /\ encode 2048 = [224; 160; 128]%N /\ encode 65535 = [239; 191; 191]%N /\
  encode 65536 = [240; 144; 128; 128]%N /\ encode 1114111 = [244; 143; 191; 191]%N.
Proof. vm_compute. repeat split. Qed.
