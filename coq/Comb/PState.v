(* Layer C, part 1: the parser state of pest/src/parser_state.rs as a record.
   Vec<T> fields are lists with the LAST Vec element at the head (push = cons), except `input`
   (bytes in order).  Rules and tags are numeric ids.  The stack holds the matched/literal byte
   strings (SpanOrLiteral is observed only through as_str).  *)
From Coq Require Import List Arith NArith Bool.
Import ListNotations.
Require Import PV.Stack.Model.

Definition byte := N.
Inductive lk := LPos | LNeg | LNone.
Inductive atom := Atomic | CompoundAtomic | NonAtomic.
(* iterators/queueable_token.rs *)
Inductive qtoken :=
| QStart (end_idx : nat) (pos : nat)
| QEnd (start_idx : nat) (rule : nat) (tag : option nat) (pos : nat).
(* ParsingToken *)
Inductive ptoken := TSens (s : list byte) | TInsens (s : list byte) | TRange (lo hi : N) | TBuiltin.
(* RulesCallStack: deepest = None stands for ParseAttempt::Token *)
Record cstack := { deepest : option nat; parent : option nat }.

Definition lk_eqb (a b : lk) : bool :=
  match a, b with LPos, LPos | LNeg, LNeg | LNone, LNone => true | _, _ => false end.
Definition atom_eqb (a b : atom) : bool :=
  match a, b with Atomic, Atomic | CompoundAtomic, CompoundAtomic | NonAtomic, NonAtomic => true | _, _ => false end.

Record pst := {
  input : list byte;
  pos : nat;
  queue : list qtoken;
  lookahead : lk;
  pos_attempts : list nat;
  neg_attempts : list nat;
  attempt_pos : nat;
  atomicity : atom;
  stack : stk (list byte);
  calls : nat;
  limit : option nat;
  pa_enabled : bool;
  call_stacks : list cstack;
  expected : list ptoken;
  unexpected : list ptoken;
  max_position : nat }.

Definition set_pos (s : pst) (v : nat) : pst :=
  {| input := input s; pos := v; queue := queue s; lookahead := lookahead s; pos_attempts := pos_attempts s; neg_attempts := neg_attempts s; attempt_pos := attempt_pos s; atomicity := atomicity s; stack := stack s; calls := calls s; limit := limit s; pa_enabled := pa_enabled s; call_stacks := call_stacks s; expected := expected s; unexpected := unexpected s; max_position := max_position s |}.
Definition set_queue (s : pst) (v : list qtoken) : pst :=
  {| input := input s; pos := pos s; queue := v; lookahead := lookahead s; pos_attempts := pos_attempts s; neg_attempts := neg_attempts s; attempt_pos := attempt_pos s; atomicity := atomicity s; stack := stack s; calls := calls s; limit := limit s; pa_enabled := pa_enabled s; call_stacks := call_stacks s; expected := expected s; unexpected := unexpected s; max_position := max_position s |}.
Definition set_lookahead (s : pst) (v : lk) : pst :=
  {| input := input s; pos := pos s; queue := queue s; lookahead := v; pos_attempts := pos_attempts s; neg_attempts := neg_attempts s; attempt_pos := attempt_pos s; atomicity := atomicity s; stack := stack s; calls := calls s; limit := limit s; pa_enabled := pa_enabled s; call_stacks := call_stacks s; expected := expected s; unexpected := unexpected s; max_position := max_position s |}.
Definition set_pos_attempts (s : pst) (v : list nat) : pst :=
  {| input := input s; pos := pos s; queue := queue s; lookahead := lookahead s; pos_attempts := v; neg_attempts := neg_attempts s; attempt_pos := attempt_pos s; atomicity := atomicity s; stack := stack s; calls := calls s; limit := limit s; pa_enabled := pa_enabled s; call_stacks := call_stacks s; expected := expected s; unexpected := unexpected s; max_position := max_position s |}.
Definition set_neg_attempts (s : pst) (v : list nat) : pst :=
  {| input := input s; pos := pos s; queue := queue s; lookahead := lookahead s; pos_attempts := pos_attempts s; neg_attempts := v; attempt_pos := attempt_pos s; atomicity := atomicity s; stack := stack s; calls := calls s; limit := limit s; pa_enabled := pa_enabled s; call_stacks := call_stacks s; expected := expected s; unexpected := unexpected s; max_position := max_position s |}.
Definition set_attempt_pos (s : pst) (v : nat) : pst :=
  {| input := input s; pos := pos s; queue := queue s; lookahead := lookahead s; pos_attempts := pos_attempts s; neg_attempts := neg_attempts s; attempt_pos := v; atomicity := atomicity s; stack := stack s; calls := calls s; limit := limit s; pa_enabled := pa_enabled s; call_stacks := call_stacks s; expected := expected s; unexpected := unexpected s; max_position := max_position s |}.
Definition set_atomicity (s : pst) (v : atom) : pst :=
  {| input := input s; pos := pos s; queue := queue s; lookahead := lookahead s; pos_attempts := pos_attempts s; neg_attempts := neg_attempts s; attempt_pos := attempt_pos s; atomicity := v; stack := stack s; calls := calls s; limit := limit s; pa_enabled := pa_enabled s; call_stacks := call_stacks s; expected := expected s; unexpected := unexpected s; max_position := max_position s |}.
Definition set_stack (s : pst) (v : stk (list byte)) : pst :=
  {| input := input s; pos := pos s; queue := queue s; lookahead := lookahead s; pos_attempts := pos_attempts s; neg_attempts := neg_attempts s; attempt_pos := attempt_pos s; atomicity := atomicity s; stack := v; calls := calls s; limit := limit s; pa_enabled := pa_enabled s; call_stacks := call_stacks s; expected := expected s; unexpected := unexpected s; max_position := max_position s |}.
Definition set_calls (s : pst) (v : nat) : pst :=
  {| input := input s; pos := pos s; queue := queue s; lookahead := lookahead s; pos_attempts := pos_attempts s; neg_attempts := neg_attempts s; attempt_pos := attempt_pos s; atomicity := atomicity s; stack := stack s; calls := v; limit := limit s; pa_enabled := pa_enabled s; call_stacks := call_stacks s; expected := expected s; unexpected := unexpected s; max_position := max_position s |}.
Definition set_limit (s : pst) (v : option nat) : pst :=
  {| input := input s; pos := pos s; queue := queue s; lookahead := lookahead s; pos_attempts := pos_attempts s; neg_attempts := neg_attempts s; attempt_pos := attempt_pos s; atomicity := atomicity s; stack := stack s; calls := calls s; limit := v; pa_enabled := pa_enabled s; call_stacks := call_stacks s; expected := expected s; unexpected := unexpected s; max_position := max_position s |}.
Definition set_pa_enabled (s : pst) (v : bool) : pst :=
  {| input := input s; pos := pos s; queue := queue s; lookahead := lookahead s; pos_attempts := pos_attempts s; neg_attempts := neg_attempts s; attempt_pos := attempt_pos s; atomicity := atomicity s; stack := stack s; calls := calls s; limit := limit s; pa_enabled := v; call_stacks := call_stacks s; expected := expected s; unexpected := unexpected s; max_position := max_position s |}.
Definition set_call_stacks (s : pst) (v : list cstack) : pst :=
  {| input := input s; pos := pos s; queue := queue s; lookahead := lookahead s; pos_attempts := pos_attempts s; neg_attempts := neg_attempts s; attempt_pos := attempt_pos s; atomicity := atomicity s; stack := stack s; calls := calls s; limit := limit s; pa_enabled := pa_enabled s; call_stacks := v; expected := expected s; unexpected := unexpected s; max_position := max_position s |}.
Definition set_expected (s : pst) (v : list ptoken) : pst :=
  {| input := input s; pos := pos s; queue := queue s; lookahead := lookahead s; pos_attempts := pos_attempts s; neg_attempts := neg_attempts s; attempt_pos := attempt_pos s; atomicity := atomicity s; stack := stack s; calls := calls s; limit := limit s; pa_enabled := pa_enabled s; call_stacks := call_stacks s; expected := v; unexpected := unexpected s; max_position := max_position s |}.
Definition set_unexpected (s : pst) (v : list ptoken) : pst :=
  {| input := input s; pos := pos s; queue := queue s; lookahead := lookahead s; pos_attempts := pos_attempts s; neg_attempts := neg_attempts s; attempt_pos := attempt_pos s; atomicity := atomicity s; stack := stack s; calls := calls s; limit := limit s; pa_enabled := pa_enabled s; call_stacks := call_stacks s; expected := expected s; unexpected := v; max_position := max_position s |}.
Definition set_max_position (s : pst) (v : nat) : pst :=
  {| input := input s; pos := pos s; queue := queue s; lookahead := lookahead s; pos_attempts := pos_attempts s; neg_attempts := neg_attempts s; attempt_pos := attempt_pos s; atomicity := atomicity s; stack := stack s; calls := calls s; limit := limit s; pa_enabled := pa_enabled s; call_stacks := call_stacks s; expected := expected s; unexpected := unexpected s; max_position := v |}.

Definition init (inp : list byte) (lim : option nat) (detail : bool) : pst :=
  {| input := inp; pos := 0; queue := []; lookahead := LNone; pos_attempts := []; neg_attempts := [];
     attempt_pos := 0; atomicity := NonAtomic; stack := @empty (list byte); calls := 0; limit := lim;
     pa_enabled := detail; call_stacks := []; expected := []; unexpected := []; max_position := 0 |}.

(* why the Rust code would panic:
   PkEmptyStack  stack_peek/stack_pop on an empty stack (documented `expect`)
   PkUndefined   call of a closure that does not exist (harness artefact, no Rust counterpart)
   PkBoundary    slicing the input at a non-char-boundary offset
   PkInternal    everything else: Vec index / splice / drain / usize underflow / unreachable!  *)
Inductive pkind := PkEmptyStack | PkUndefined | PkBoundary | PkInternal.
Inductive res := ROk (s : pst) | RErr (s : pst) | RPanic (k : pkind) | ROutOfFuel.
