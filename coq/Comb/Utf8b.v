(* Layer C proofs, part 3b: contracts of the matching primitives of position.rs on valid UTF-8 input,
   at a char boundary, with valid needles: the result is a boundary again and no primitive panics. *)
From Coq Require Import List Arith NArith Bool Lia ZifyN ZifyBool.
Import ListNotations.
Require Import PV.Comb.PState PV.Comb.Bytes PV.Comb.Frame PV.Comb.Utf8.

(* ---------- byte prefixes ---------- *)
Lemma prefixb_iff a b : prefixb a b = true <-> exists r, b = a ++ r.
Proof.
  revert b; induction a as [|x a IH]; intros b; cbn [prefixb].
  - split; [intros _; exists b; reflexivity|auto].
  - destruct b as [|y b]; [split; [discriminate|intros [r E]; discriminate]|].
    rewrite andb_true_iff, N.eqb_eq, IH. split.
    + intros [-> [r ->]]. exists r. reflexivity.
    + intros [r E]. cbn in E. inversion E; subst. split; [reflexivity|exists r; reflexivity].
Qed.

Lemma prefixb_firstn a b : prefixb a b = true -> firstn (length a) b = a.
Proof.
  rewrite prefixb_iff. intros [r ->]. rewrite firstn_app, firstn_all, Nat.sub_diag, firstn_O. apply app_nil_r.
Qed.

Lemma app_eq_length {A} (a c b d : list A) : a ++ b = c ++ d -> length a = length c -> a = c /\ b = d.
Proof.
  revert c; induction a as [|x a IH]; intros [|y c]; cbn; intros E L; try discriminate; [auto|].
  inversion E; subst. destruct (IH c H1) as [-> ->]; [lia|auto].
Qed.

(* a valid string that is a byte prefix of a valid string leaves a valid remainder *)
Lemma prefix_valid s : valid_utf8 s -> forall l, valid_utf8 l -> prefixb s l = true ->
  exists l', l = s ++ l' /\ valid_utf8 l'.
Proof.
  intros Vs. induction Vs as [|c s Hc Vs IH] using valid_ind; intros l Vl P.
  - exists l. auto.
  - apply prefixb_iff in P. destruct P as [r E].
    destruct (valid_inv l Vl) as [->|(d & l2 & Hd & -> & V2)].
    { exfalso. apply (encode_nonempty c). destruct (encode c); [reflexivity|discriminate]. }
    pose proof (encode_clen c (scalar_lt c Hc)) as Lc. pose proof (encode_clen d (scalar_lt d Hd)) as Ld.
    assert (Hh : hd 0%N (encode d) = hd 0%N (encode c)).
    { pose proof (encode_nonempty c). pose proof (encode_nonempty d).
      destruct (encode c), (encode d); try congruence. cbn in E. inversion E; reflexivity. }
    rewrite <- app_assoc in E. apply app_eq_length in E; [|congruence]. destruct E as [E1 E2].
    destruct (IH l2 V2) as (l' & -> & V'); [apply prefixb_iff; exists r; exact E2|].
    exists l'. split; [|exact V']. rewrite E1, app_assoc. reflexivity.
Qed.

(* ---------- match_string ---------- *)
Theorem match_string_contract inp p s :
  valid_utf8 inp -> boundaryb inp p = true -> valid_utf8 s ->
  match match_string inp p s with
  | PMoved p' => p' = p + length s /\ firstn (length s) (skipn p inp) = s /\ boundaryb inp p' = true
  | PStay => prefixb s (skipn p inp) = false
  | PPanic => False
  end.
Proof.
  intros V B Vs. unfold match_string. destruct (prefixb s (skipn p inp)) eqn:P; [|reflexivity].
  split; [reflexivity|]. split; [now apply prefixb_firstn|].
  destruct (boundary_split inp p V B) as [V1 V2].
  destruct (prefix_valid s Vs _ V2 P) as (l' & E & V').
  pose proof (boundaryb_le _ _ B) as Lp.
  rewrite <- (firstn_skipn p inp), E, app_assoc.
  replace (p + length s) with (length (firstn p inp ++ s)) by (rewrite app_length, firstn_length_le; lia).
  now apply boundary_join.
Qed.

Corollary match_string_boundary inp p s p' :
  valid_utf8 inp -> boundaryb inp p = true -> valid_utf8 s -> match_string inp p s = PMoved p' ->
  boundaryb inp p' = true.
Proof. intros V B Vs E. pose proof (match_string_contract inp p s V B Vs) as C. rewrite E in C. tauto. Qed.

Lemma match_string_no_panic inp p s : match_string inp p s <> PPanic.
Proof. unfold match_string. destruct (prefixb _ _); discriminate. Qed.

(* ---------- match_insensitive ---------- *)
Lemma prefixb_ci_firstn a b : prefixb_ci a b = true ->
  length a <= length b /\ map ascii_lower (firstn (length a) b) = map ascii_lower a.
Proof.
  revert b; induction a as [|x a IH]; intros b; cbn [prefixb_ci length].
  - intros _. rewrite firstn_O. split; [lia|reflexivity].
  - destruct b as [|y b]; [discriminate|]. rewrite andb_true_iff, N.eqb_eq. intros [E P].
    destruct (IH b P) as [L M]. rewrite firstn_cons. cbn [map length]. split; [lia|]. now rewrite M, E.
Qed.

Theorem match_insensitive_contract inp p s :
  boundaryb inp p = true ->
  match match_insensitive inp p s with
  | PMoved p' => p' = p + length s /\ boundaryb inp p' = true /\
                 map ascii_lower (firstn (length s) (skipn p inp)) = map ascii_lower s
  | PStay => boundaryb inp (p + length s) && prefixb_ci s (skipn p inp) = false
  | PPanic => False
  end.
Proof.
  intros B. unfold match_insensitive. rewrite B.
  destruct (boundaryb inp (p + length s)) eqn:B2; cbn [andb]; [|reflexivity].
  destruct (prefixb_ci s (skipn p inp)) eqn:P; [|reflexivity].
  split; [reflexivity|]. split; [exact B2|]. now apply prefixb_ci_firstn.
Qed.

(* ---------- the char at a boundary ---------- *)
Lemma char_at_valid inp p : valid_utf8 inp -> boundaryb inp p = true ->
  (p = length inp /\ char_at inp p = Some None) \/
  (exists c l', scalar c /\ skipn p inp = encode c ++ l' /\ valid_utf8 l' /\
                char_at inp p = Some (Some (c, length (encode c))) /\
                boundaryb inp (p + length (encode c)) = true).
Proof.
  intros V B. unfold char_at. rewrite B. pose proof (boundaryb_le _ _ B) as Lp.
  destruct (boundary_split inp p V B) as [V1 V2].
  destruct (valid_inv _ V2) as [E|(c & l' & Hc & E & V')].
  - left. assert (length (skipn p inp) = 0) by now rewrite E. rewrite skipn_length in H.
    split; [lia|]. rewrite E. reflexivity.
  - right. exists c, l'. split; [exact Hc|]. split; [exact E|]. split; [exact V'|]. split.
    + rewrite E. now rewrite decode1_encode_scalar.
    + rewrite <- (firstn_skipn p inp), E, app_assoc.
      replace (p + length (encode c)) with (length (firstn p inp ++ encode c))
        by (rewrite app_length, firstn_length_le; lia).
      now apply boundary_join.
Qed.

Definition char_contract (inp : list byte) (p : nat) (ok : N -> bool) (r : pres) : Prop :=
  match r with
  | PMoved p' => exists c, scalar c /\ decode1 (skipn p inp) = Some (c, length (encode c)) /\ ok c = true /\
                           firstn (length (encode c)) (skipn p inp) = encode c /\
                           p' = p + length (encode c) /\ boundaryb inp p' = true
  | PStay => p = length inp \/ exists c n, decode1 (skipn p inp) = Some (c, n) /\ ok c = false
  | PPanic => False
  end.

Lemma char_prim_contract inp p ok : valid_utf8 inp -> boundaryb inp p = true ->
  char_contract inp p ok
    (match char_at inp p with
     | None => PPanic | Some None => PStay
     | Some (Some (c, n)) => if ok c then PMoved (p + n) else PStay end).
Proof.
  intros V B. destruct (char_at_valid inp p V B) as [[E ->]|(c & l' & Hc & E & V' & -> & B')].
  - left. exact E.
  - assert (D : decode1 (skipn p inp) = Some (c, length (encode c))) by (rewrite E; now apply decode1_encode_scalar).
    destruct (ok c) eqn:O; cbn [char_contract].
    + exists c. repeat split; auto. rewrite E, firstn_app, firstn_all, Nat.sub_diag, firstn_O. apply app_nil_r.
    + right. exists c, (length (encode c)). auto.
Qed.

Theorem match_range_contract inp p lo hi : valid_utf8 inp -> boundaryb inp p = true ->
  char_contract inp p (fun c => (lo <=? c)%N && (c <=? hi)%N) (match_range inp p lo hi).
Proof. intros V B. exact (char_prim_contract inp p _ V B). Qed.

Theorem match_char_by_contract inp p rs : valid_utf8 inp -> boundaryb inp p = true ->
  char_contract inp p (in_ranges rs) (match_char_by inp p rs).
Proof. intros V B. exact (char_prim_contract inp p _ V B). Qed.

(* ---------- skip(n) ---------- *)
Lemma flat_map_firstn_skipn cs k :
  firstn (length (flat_map encode (firstn k cs))) (flat_map encode cs) = flat_map encode (firstn k cs) /\
  skipn (length (flat_map encode (firstn k cs))) (flat_map encode cs) = flat_map encode (skipn k cs).
Proof.
  rewrite <- (firstn_skipn k cs) at 2 5.
  rewrite flat_map_app, firstn_app, firstn_all, Nat.sub_diag, skipn_app, skipn_all, Nat.sub_diag, firstn_O, skipn_O, app_nil_r.
  auto.
Qed.

Lemma skipn_app_exact {A} (a b : list A) : skipn (length a) (a ++ b) = b.
Proof. rewrite skipn_app, skipn_all, Nat.sub_diag, skipn_O. reflexivity. Qed.

Lemma firstn_plus {A} k n (l : list A) : firstn (k + n) l = firstn k l ++ firstn n (skipn k l).
Proof.
  revert l; induction k as [|k IH]; intros l; [rewrite firstn_O, skipn_O; reflexivity|].
  destruct l as [|x l]; [rewrite skipn_nil, !firstn_nil; reflexivity|].
  cbn [Nat.add]. rewrite !firstn_cons, skipn_cons, IH. reflexivity.
Qed.

Lemma skip_len_chars n : forall cs, Forall scalar cs ->
  skip_len (flat_map encode cs) n =
  if n <=? length cs then Some (length (flat_map encode (firstn n cs))) else None.
Proof.
  induction n as [|n IH]; intros cs F; cbn [skip_len].
  - destruct (Nat.leb_spec 0 (length cs)); [rewrite firstn_O; reflexivity|lia].
  - destruct F as [|c cs Hc F].
    + cbn [flat_map decode1 length]. destruct (Nat.leb_spec (S n) 0); [lia|reflexivity].
    + cbn [flat_map length]. rewrite decode1_encode_scalar by exact Hc. rewrite skipn_app_exact, IH by exact F.
      destruct (Nat.leb_spec n (length cs)), (Nat.leb_spec (S n) (S (length cs))); try lia; [|reflexivity].
      rewrite firstn_cons. cbn [flat_map]. now rewrite app_length.
Qed.

(* in terms of chars: from the offset of char k, skip(n) lands on the offset of char k+n, and fails
   exactly when fewer than n chars remain *)
Theorem skip_chars cs k n : Forall scalar cs -> k <= length cs ->
  skip (flat_map encode cs) (length (flat_map encode (firstn k cs))) n =
  if k + n <=? length cs then PMoved (length (flat_map encode (firstn (k + n) cs))) else PStay.
Proof.
  intros F K. unfold skip.
  rewrite (proj2 (boundary_iff cs _ F)) by (exists k; reflexivity).
  rewrite (proj2 (flat_map_firstn_skipn cs k)), skip_len_chars by now apply Forall_skipn'.
  rewrite skipn_length.
  destruct (Nat.leb_spec n (length cs - k)), (Nat.leb_spec (k + n) (length cs)); try lia; [|reflexivity].
  rewrite firstn_plus, flat_map_app, app_length. reflexivity.
Qed.

Lemma boundary_index inp p : valid_utf8 inp -> boundaryb inp p = true ->
  exists cs k, Forall scalar cs /\ inp = flat_map encode cs /\ k <= length cs /\ p = length (flat_map encode (firstn k cs)).
Proof.
  intros (cs & F & ->) B. apply (boundary_iff cs p F) in B. destruct B as [k ->].
  exists cs, (Nat.min k (length cs)). split; [exact F|]. split; [reflexivity|]. split; [lia|].
  destruct (Nat.le_gt_cases k (length cs)) as [L|L].
  - now rewrite Nat.min_l.
  - rewrite Nat.min_r, firstn_all, firstn_all2 by lia. reflexivity.
Qed.

Theorem skip_contract inp p n : valid_utf8 inp -> boundaryb inp p = true ->
  match skip inp p n with
  | PMoved p' => p <= p' /\ boundaryb inp p' = true
  | PStay => skip_len (skipn p inp) n = None
  | PPanic => False
  end.
Proof.
  intros V B. destruct (boundary_index inp p V B) as (cs & k & F & -> & K & ->).
  rewrite skip_chars by auto.
  destruct (Nat.leb_spec (k + n) (length cs)).
  - split.
    + rewrite firstn_plus, flat_map_app, app_length. lia.
    + apply (boundary_iff cs _ F). exists (k + n). reflexivity.
  - rewrite (proj2 (flat_map_firstn_skipn cs k)), skip_len_chars by now apply Forall_skipn'.
    rewrite skipn_length. destruct (Nat.leb_spec n (length cs - k)); [lia|reflexivity].
Qed.

(* ---------- skip_until, the plain loop ---------- *)
Definition hit (inp : list byte) (ss : list (list byte)) (q : nat) : bool :=
  boundaryb inp q && existsb (fun s => prefixb s (skipn q inp)) ss.

Lemma skip_until_basic_from_spec inp ss count : forall from, from + count = length inp ->
  let r := skip_until_basic_from inp ss from count in
  from <= r <= length inp /\ (r = length inp \/ hit inp ss r = true) /\
  forall q, from <= q < r -> hit inp ss q = false.
Proof.
  induction count as [|c IH]; intros from H; cbn [skip_until_basic_from].
  - cbv zeta. split; [lia|]. split; [left; reflexivity|]. intros q Hq. lia.
  - fold (hit inp ss from). destruct (hit inp ss from) eqn:Hh; cbv zeta.
    + split; [lia|]. split; [right; exact Hh|]. intros q Hq. lia.
    + specialize (IH (S from)). cbv zeta in IH. destruct IH as (I1 & I2 & I3); [lia|].
      split; [lia|]. split; [exact I2|]. intros q Hq.
      destruct (Nat.eq_dec q from) as [->|Ne]; [exact Hh|apply I3; lia].
Qed.

(* skip_until_basic returns the first boundary offset q >= p at which some needle is a byte prefix of the
   rest of the input, and the length of the input when there is none *)
Theorem skip_until_basic_spec inp p ss : p <= length inp ->
  let r := skip_until_basic inp p ss in
  p <= r <= length inp /\ (r = length inp \/ hit inp ss r = true) /\
  forall q, p <= q < r -> hit inp ss q = false.
Proof. intros H. unfold skip_until_basic. apply skip_until_basic_from_spec. lia. Qed.

Corollary skip_until_basic_boundary inp p ss : p <= length inp ->
  boundaryb inp (skip_until_basic inp p ss) = true.
Proof.
  intros H. destruct (skip_until_basic_spec inp p ss H) as (_ & [E|E] & _).
  - rewrite E. apply boundaryb_len.
  - unfold hit in E. apply andb_true_iff in E. tauto.
Qed.

(* ---------- skip_until, the memchr / memmem arms ---------- *)
Lemma nth_skipn_hd {A} n (l : list A) d : nth n l d = hd d (skipn n l).
Proof.
  revert l; induction n as [|n IH]; intros [|x l]; try reflexivity.
  rewrite skipn_cons. cbn [nth]. apply IH.
Qed.

(* a non-empty needle whose first byte is a leading byte can only be found at a boundary *)
Lemma prefix_first_byte s inp q : s <> [] -> prefixb s (skipn q inp) = true ->
  q < length inp /\ nth q inp 0%N = first_byte s.
Proof.
  intros N P. apply prefixb_iff in P. destruct P as [r E]. split.
  - destruct (Nat.lt_ge_cases q (length inp)) as [L|L]; [exact L|].
    rewrite skipn_all2 in E by lia. destruct s; [congruence|discriminate].
  - rewrite nth_skipn_hd, E. destruct s; [congruence|reflexivity].
Qed.

Lemma prefix_hit_boundary s inp q : s <> [] -> is_cont (first_byte s) = false ->
  prefixb s (skipn q inp) = true -> boundaryb inp q = true.
Proof.
  intros N C P. destruct (prefix_first_byte s inp q N P) as [L E].
  apply boundaryb_spec. right. split; [exact L|]. now rewrite E.
Qed.

Lemma skip_until_basic_from_nil inp count : forall from, from + count = length inp ->
  skip_until_basic_from inp [] from count = length inp.
Proof.
  induction count as [|c IH]; intros from H; cbn [skip_until_basic_from existsb]; [reflexivity|].
  rewrite andb_false_r. apply IH. lia.
Qed.

Definition opt_or_len (inp : list byte) (o : option nat) : option nat :=
  match o with Some f => Some f | None => Some (length inp) end.

Lemma memmem_from_basic inp s count : s <> [] -> is_cont (first_byte s) = false ->
  forall from, from + count = length inp ->
  opt_or_len inp (memmem_from inp s from count) = Some (skip_until_basic_from inp [s] from count).
Proof.
  intros N C. induction count as [|c IH]; intros from H; cbn [memmem_from skip_until_basic_from existsb].
  - rewrite skipn_all2 by lia. destruct s; [congruence|reflexivity].
  - rewrite orb_false_r. destruct (prefixb s (skipn from inp)) eqn:P.
    + rewrite (prefix_hit_boundary s inp from N C P). reflexivity.
    + rewrite andb_false_r. apply IH. lia.
Qed.

Lemma memmem_from_empty inp from count : memmem_from inp [] from count = Some from.
Proof. destruct count; reflexivity. Qed.

Definition scan_or_len (inp : list byte) (o : option (option nat)) : option nat :=
  match o with None => None | Some (Some f) => Some f | Some None => Some (length inp) end.

Lemma existsb_eqb_In b l : existsb (N.eqb b) l = true <-> In b l.
Proof.
  rewrite existsb_exists. split.
  - intros (x & Hx & E). apply N.eqb_eq in E. now subst.
  - intros H. exists b. split; [exact H|apply N.eqb_refl].
Qed.

Lemma memchr_scan_basic inp firsts ss count :
  Forall (fun b => is_cont b = false) firsts ->
  Forall (fun s => s <> [] /\ In (first_byte s) firsts) ss ->
  forall from, from + count = length inp ->
  scan_or_len inp (memchr_scan inp firsts ss from count) = Some (skip_until_basic_from inp ss from count).
Proof.
  intros Ff Fs. induction count as [|c IH]; intros from H; cbn [memchr_scan skip_until_basic_from]; [reflexivity|].
  destruct (existsb (N.eqb (nth from inp 0%N)) firsts) eqn:Ex.
  - apply existsb_eqb_In in Ex. rewrite Forall_forall in Ff. apply Ff in Ex.
    assert (B : boundaryb inp from = true) by (apply boundaryb_spec; right; split; [lia|exact Ex]).
    rewrite B. cbn [andb]. destruct (existsb (fun s => prefixb s (skipn from inp)) ss); [reflexivity|]. apply IH. lia.
  - assert (Hn : existsb (fun s => prefixb s (skipn from inp)) ss = false).
    { apply not_true_iff_false. intros Hs. apply existsb_exists in Hs. destruct Hs as (s & Hs & P).
      rewrite Forall_forall in Fs. destruct (Fs s Hs) as [N I].
      destruct (prefix_first_byte s inp from N P) as [_ E]. rewrite <- E in I.
      apply existsb_eqb_In in I. congruence. }
    rewrite Hn, andb_false_r. apply IH. lia.
Qed.

Lemma nonempty_true s : nonempty s = true -> s <> [].
Proof. destruct s; [discriminate|discriminate]. Qed.

Lemma valid_first_byte s : valid_utf8 s -> s <> [] -> is_cont (first_byte s) = false.
Proof. intros V N. now apply valid_first_not_cont. Qed.

(* with the repaired three-needle arm the memchr version computes the same offset as the plain loop and
   never slices off a boundary.  (Only the needles have to be valid; the input may be any byte string.) *)
Theorem skip_until_memchr_eq_basic inp p ss :
  boundaryb inp p = true -> Forall valid_utf8 ss ->
  skip_until_memchr true inp p ss = Some (skip_until_basic inp p ss).
Proof.
  intros B Fs. pose proof (boundaryb_le _ _ B) as Lp.
  assert (Hc : p + (length inp - p) = length inp) by lia.
  unfold skip_until_memchr, skip_until_basic.
  destruct ss as [|s1 [|s2 [|s3 [|s4 r]]]]; try reflexivity.
  - now rewrite skip_until_basic_from_nil.
  - inversion Fs as [|? ? V1 _]; subst. destruct s1 as [|b1 t1].
    + rewrite memmem_from_empty. destruct (length inp - p) eqn:Ec; cbn [skip_until_basic_from existsb prefixb].
      * f_equal. lia.
      * rewrite B. reflexivity.
    + apply (memmem_from_basic inp (b1 :: t1)); [discriminate|apply valid_first_byte; [exact V1|discriminate]|exact Hc].
  - inversion Fs as [|? ? V1 Fs1]; subst. inversion Fs1 as [|? ? V2 _]; subst.
    destruct (nonempty s1) eqn:N1; [|reflexivity]. destruct (nonempty s2) eqn:N2; [|reflexivity]. cbn [andb].
    apply nonempty_true in N1. apply nonempty_true in N2.
    apply (memchr_scan_basic inp [first_byte s1; first_byte s2] [s1; s2]); [| |exact Hc].
    + repeat constructor; now apply valid_first_byte.
    + constructor; [split; [exact N1|left; reflexivity]|].
      constructor; [split; [exact N2|right; left; reflexivity]|constructor].
  - inversion Fs as [|? ? V1 Fs1]; subst. inversion Fs1 as [|? ? V2 Fs2]; subst. inversion Fs2 as [|? ? V3 _]; subst.
    destruct (nonempty s1) eqn:N1; [|reflexivity]. destruct (nonempty s2) eqn:N2; [|reflexivity].
    destruct (nonempty s3) eqn:N3; [|reflexivity]. cbn [andb].
    apply nonempty_true in N1. apply nonempty_true in N2. apply nonempty_true in N3.
    apply (memchr_scan_basic inp [first_byte s1; first_byte s2; first_byte s3] [s1; s2; s3]); [| |exact Hc].
    + repeat constructor; now apply valid_first_byte.
    + constructor; [split; [exact N1|left; reflexivity]|].
      constructor; [split; [exact N2|right; left; reflexivity]|].
      constructor; [split; [exact N3|right; right; left; reflexivity]|constructor].
Qed.

Corollary skip_until_eq_basic cfg inp p ss :
  (memchr cfg = true -> fixed3 cfg = true) -> boundaryb inp p = true -> Forall valid_utf8 ss ->
  skip_until cfg inp p ss = Some (skip_until_basic inp p ss).
Proof.
  intros Hc B Fs. unfold skip_until. destruct (memchr cfg); [|reflexivity].
  rewrite Hc by reflexivity. now apply skip_until_memchr_eq_basic.
Qed.

(* the arm as found (guard `s3.is_empty()`, third byte taken from s2): input "xxa", needles "a", "b", "".
   The plain loop stops at 0 (the empty needle matches there), the memchr arm runs on to the 'a' at 2. *)
Example skip_until_memchr_unfixed_refuted :
  let inp := [120; 120; 97]%N in let ss := [[97]; [98]; []]%N in
  valid_utf8 inp /\ Forall valid_utf8 ss /\ boundaryb inp 0 = true /\
  skip_until_basic inp 0 ss = 0 /\ skip_until_memchr false inp 0 ss = Some 2 /\
  skip_until_memchr true inp 0 ss = Some 0.
Proof.
  cbv zeta. split; [exists [120; 120; 97]%N; split; [repeat constructor; unfold scalar; lia|reflexivity]|].
  split.
  - repeat constructor.
    + exists [97%N]. split; [repeat constructor; unfold scalar; lia|reflexivity].
    + exists [98%N]. split; [repeat constructor; unfold scalar; lia|reflexivity].
    + apply valid_nil.
  - vm_compute. auto.
Qed.
