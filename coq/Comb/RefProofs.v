(* Layer C proofs: the model of parser_state.rs (Exec.exec, over the three-vector snapshot stack,
   with call counting, attempt tracking and parse-attempt bookkeeping) against the reference
   reading of the documented contracts (Ref.rexec, over a plain stack).

     abs : pst -> rst      forgets everything the documentation does not mention and reads the
                           snapshot stack through its live contents `cache`.

   Results:
     exec_refines_tagleak     abs_res (exec s) = rexec_gen TagLeak (abs s)   for ALL programs (exact)
     exec_refines_ref_refuted the same against the fully documented reading is FALSE (tag_node
                              inside a failing sequence: known finding C03-tag-in-failed-sequence)
     exec_refines_ref_notag   ... and TRUE (exact) for programs that never call tag_node
     exec_refines_ref_untag   ... and TRUE for all programs up to the node tags of the tokens  *)
From Coq Require Import List Arith NArith ZArith Bool Lia.
Import ListNotations.
Require Import PV.Stack.Model PV.Stack.Proofs PV.Comb.PState PV.Comb.Bytes PV.Comb.Prog PV.Comb.Exec
               PV.Comb.Frame PV.Comb.Contracts PV.Comb.Utf8c PV.Comb.Ref.

Arguments Nat.sub : simpl never.
Arguments Nat.ltb : simpl never.
Arguments Nat.leb : simpl never.
Arguments Nat.eqb : simpl never.
Arguments skipn : simpl never.
Arguments firstn : simpl never.

(* ---------- the abstraction ---------- *)
Definition abs (s : pst) : rst :=
  {| r_input := input s; r_pos := pos s; r_queue := queue s; r_stack := cache (stack s);
     r_look := lookahead s; r_atom := atomicity s |}.

Definition abs_res (x : res) : rres :=
  match x with
  | ROk s => RROk (abs s)
  | RErr s => RRErr (abs s)
  | RPanic k => RRPanic k
  | ROutOfFuel => RRFuel
  end.

Lemma abs_same_core s s' : same_core s s' -> abs s' = abs s.
Proof. intros C. unfold abs. rewrite (c_input _ _ C), (c_pos _ _ C), (c_queue _ _ C), (c_stack _ _ C), (c_la _ _ C), (c_at _ _ C). reflexivity. Qed.

Lemma abs_same_attempts s s' : same_but_attempts s s' -> abs s' = abs s.
Proof. intros C. unfold abs. rewrite (t_input _ _ C), (t_pos _ _ C), (t_queue _ _ C), (t_stack _ _ C), (t_la _ _ C), (t_at _ _ C). reflexivity. Qed.

Lemma abs_set_stack s st : cache st = cache (stack s) -> abs (set_stack s st) = abs s.
Proof. intros H. unfold abs. cbn. rewrite H. reflexivity. Qed.

Lemma atom_eqb_true a b : atom_eqb a b = true -> a = b.
Proof. destruct a, b; cbn; congruence. Qed.

(* ---------- the primitives ---------- *)
Lemma apply_pres_abs s x t : abs_res (apply_pres s x t) = rmoved (abs s) x.
Proof.
  unfold apply_pres. destruct x as [p| |]; cbn [rmoved abs_res]; [| |reflexivity].
  - f_equal. destruct t as [tk|]; [destruct (pa_enabled s)|]; try reflexivity.
    destruct (handle_token_core (set_pos s p) (pos s) tk true) as [C _]. rewrite (abs_same_core _ _ C). reflexivity.
  - f_equal. destruct t as [tk|]; [destruct (pa_enabled s)|]; try reflexivity.
    destruct (handle_token_core s (pos s) tk false) as [C _]. apply (abs_same_core _ _ C).
Qed.

Lemma pop_cache (st : stk (list byte)) :
  match cache st with
  | [] => pop st = (st, None)
  | x :: c => exists st', pop st = (st', Some x) /\ cache st' = c
  end.
Proof.
  unfold pop. destruct (cache st) as [|x c]; [reflexivity|].
  destruct (lengths st) as [|[l r] ls]; [|destruct (Nat.eqb (S (length c)) r)]; eexists; split; reflexivity.
Qed.

Lemma match_pop_loop_abs f inp : forall (st : stk (list byte)) p, length (cache st) < f ->
  exists st', match_pop_loop f inp st p =
              Some (st', snd (fst (rmatch_pop inp (cache st) p)), snd (rmatch_pop inp (cache st) p)) /\
              cache st' = fst (fst (rmatch_pop inp (cache st) p)).
Proof.
  induction f as [|f IH]; intros st p H; [lia|]. cbn [match_pop_loop].
  pose proof (pop_cache st) as PC. destruct (cache st) as [|x c] eqn:Ec.
  - rewrite PC. exists st. cbn [rmatch_pop fst snd]. split; [reflexivity|exact Ec].
  - destruct PC as (st' & Ep & Ec'). rewrite Ep. cbn [rmatch_pop].
    destruct (match_string inp p x) as [p'| |].
    + cbn [length] in H. destruct (IH st' p') as (st2 & E1 & E2); [rewrite Ec'; lia|].
      rewrite Ec' in E1, E2. exists st2. split; assumption.
    + exists st'. cbn [fst snd]. split; [reflexivity|exact Ec'].
    + exists st'. cbn [fst snd]. split; [reflexivity|exact Ec'].
Qed.

Lemma peek_slice_abs s i j d : abs_res (peek_slice s i j d) = rpeek_slice (abs s) i j d.
Proof.
  unfold peek_slice, rpeek_slice. cbn [abs r_stack r_input r_pos].
  destruct (constrain_idxs i j (length (cache (stack s)))) as [[a b]|]; [|reflexivity].
  destruct (Nat.leb b a); [reflexivity|]. cbv zeta.
  destruct (match_all _ _ _); reflexivity.
Qed.

Lemma vslice_all {A} (l : list A) : vslice 0 (length l) l = rev l.
Proof.
  unfold vslice. change (skipn 0 (rev l)) with (rev l).
  replace (length l - 0) with (length (rev l)) by (rewrite rev_length; lia). apply firstn_all.
Qed.

Lemma constrain_all n : constrain_idxs 0 None n = Some (0, n).
Proof.
  unfold constrain_idxs, normalize_index. destruct (Z.of_nat n <? 0)%Z eqn:Z0; [apply Z.ltb_lt in Z0; lia|]. reflexivity.
Qed.

Lemma exec_prim_abs cfg o s : abs_res (exec_prim cfg o s) = rprim cfg o (abs s).
Proof.
  destruct o; cbn [exec_prim rprim]; cbv zeta; cbn [abs r_input r_pos r_stack r_queue r_look]; fold (abs s);
    try reflexivity; try apply apply_pres_abs.
  - (* skip_until *) destruct (skip_until cfg (input s) (pos s) ss); reflexivity.
  - destruct (Nat.eqb (pos s) 0); reflexivity.
  - destruct (Nat.eqb (pos s) (length (input s))); reflexivity.
  - (* stack_peek *) unfold peek. destruct (cache (stack s)) as [|x c]; [reflexivity|]. apply apply_pres_abs.
  - (* stack_pop *) pose proof (pop_cache (stack s)) as PC. destruct (cache (stack s)) as [|x c] eqn:Ec.
    + rewrite PC. reflexivity.
    + destruct PC as (st' & Ep & Ec'). rewrite Ep. unfold st_match_string. rewrite apply_pres_abs.
      cbn [input pos set_stack]. f_equal. unfold abs, with_stack. cbn. rewrite Ec'. reflexivity.
  - (* stack_drop *) pose proof (pop_cache (stack s)) as PC. destruct (cache (stack s)) as [|x c] eqn:Ec.
    + rewrite PC. cbn. unfold abs. rewrite Ec. reflexivity.
    + destruct PC as (st' & Ep & Ec'). rewrite Ep. cbn [abs_res]. f_equal. unfold abs, with_stack. cbn. rewrite Ec'. reflexivity.
  - (* stack_match_peek *) unfold peek_slice. rewrite constrain_all.
    destruct (Nat.leb (length (cache (stack s))) 0) eqn:L0.
    + apply Nat.leb_le in L0.
      assert (Ec : cache (stack s) = []) by (destruct (cache (stack s)); [reflexivity|cbn in L0; lia]).
      rewrite Ec. reflexivity.
    + rewrite vslice_all, rev_involutive. destruct (match_all _ _ _); reflexivity.
  - (* stack_match_pop *)
    destruct (match_pop_loop_abs (S (length (cache (stack s)))) (input s) (stack s) (pos s)) as (st' & E1 & E2); [lia|].
    rewrite E1. destruct (rmatch_pop (input s) (cache (stack s)) (pos s)) as [[rest p] ok]. cbn [fst snd] in *.
    destruct ok; cbn [abs_res]; f_equal; unfold abs, with_pos, with_stack; cbn; rewrite E2; reflexivity.
  - (* peek_slice *) apply peek_slice_abs.
  - (* tag_node *) destruct (lookahead s); cbn [negb lk_eqb]; try reflexivity.
    destruct (queue s) as [|[e p|si r tg p] q]; reflexivity.
Qed.

(* ---------- the exact queue frame of the reference interpreter ----------
   Whatever a program does, the queue afterwards is the old queue with new tokens on top; the
   only thing that can have happened to an old token is a new node tag on the LAST one.
   With `strict` (programs that never call tag_node) not even that.                             *)
Definition retag_head (t : option (option nat)) (q : list qtoken) : list qtoken :=
  match t, q with
  | Some tg, QEnd si r _ p :: q0 => QEnd si r tg p :: q0
  | _, _ => q
  end.
Definition qext (strict : bool) (q q' : list qtoken) : Prop :=
  exists new t, q' = new ++ retag_head t q /\ (strict = true -> t = None).

Lemma qext_refl b q : qext b q q.
Proof. exists [], None. split; reflexivity. Qed.

Lemma qext_of_app b q new : qext b q (new ++ q).
Proof. exists new, None. split; reflexivity. Qed.

Lemma retag_retag t2 t1 q :
  retag_head t2 (retag_head t1 q) = retag_head (match t2 with Some _ => t2 | None => t1 end) q.
Proof. destruct t2, t1, q as [|[e p|si r tg p] q]; reflexivity. Qed.

Lemma retag_head_cons t x l : exists x', retag_head t (x :: l) = x' :: l.
Proof. destruct t, x; cbn; eauto. Qed.

Lemma retag_head_length t q : length (retag_head t q) = length q.
Proof. destruct t, q as [|[e p|si r tg p] q]; reflexivity. Qed.

Lemma retag_head_untag t q : untagq (retag_head t q) = untagq q.
Proof. destruct t, q as [|[e p|si r tg p] q]; reflexivity. Qed.

Lemma qext_trans b q1 q2 q3 : qext b q1 q2 -> qext b q2 q3 -> qext b q1 q3.
Proof.
  intros (n1 & t1 & E1 & S1) (n2 & t2 & E2 & S2). subst q2 q3. destruct n1 as [|x n1].
  - cbn [app]. rewrite retag_retag. eexists n2, _. split; [reflexivity|].
    intros Hb. rewrite (S1 Hb), (S2 Hb). reflexivity.
  - cbn [app]. destruct (retag_head_cons t2 x (n1 ++ retag_head t1 q1)) as (x' & ->).
    exists (n2 ++ x' :: n1), t1. split; [rewrite <- app_assoc; reflexivity|exact S1].
Qed.

Lemma qext_start b e p q q' : qext b (QStart e p :: q) q' -> exists new, q' = new ++ QStart e p :: q.
Proof. intros (new & t & -> & _). exists new. destruct t; reflexivity. Qed.

Lemma qext_strict q q' : qext true q q' -> exists new, q' = new ++ q.
Proof. intros (new & t & -> & S). rewrite (S eq_refl). exists new. reflexivity. Qed.

Lemma qext_truncate b q q' : qext b q q' -> qext b q (vtruncate (length q) q').
Proof.
  intros (new & t & -> & S). rewrite vtruncate_app by apply retag_head_length.
  exists [], t. split; [reflexivity|exact S].
Qed.

Lemma qext_untag b q q' : qext b q q' -> untagq (vtruncate (length q) q') = untagq q.
Proof.
  intros (new & t & -> & S). rewrite vtruncate_app by apply retag_head_length. apply retag_head_untag.
Qed.

Lemma rmoved_qext b r0 r x : r_queue r0 = r_queue r ->
  match rmoved r0 x with RROk r' | RRErr r' => qext b (r_queue r) (r_queue r') | _ => True end.
Proof. intros H. destruct x; cbn; auto; rewrite H; apply qext_refl. Qed.

Lemma rprim_qext b cfg o r : (b = true -> notag_prim o = true) ->
  match rprim cfg o r with RROk r' | RRErr r' => qext b (r_queue r) (r_queue r') | _ => True end.
Proof.
  intros NT. destruct o; cbn [rprim]; cbv zeta; try (apply rmoved_qext; reflexivity); try apply qext_refl.
  - destruct (skip_until _ _ _ _); [apply qext_refl|exact I].
  - destruct (Nat.eqb _ _); apply qext_refl.
  - destruct (Nat.eqb _ _); apply qext_refl.
  - destruct (r_stack r); [exact I|apply rmoved_qext; reflexivity].
  - destruct (r_stack r); [exact I|apply rmoved_qext; reflexivity].
  - destruct (r_stack r); apply qext_refl.
  - destruct (match_all _ _ _); apply qext_refl.
  - destruct (rmatch_pop _ _ _) as [[rest p] ok]. destruct ok; apply qext_refl.
  - unfold rpeek_slice. destruct (constrain_idxs _ _ _) as [[x y]|]; [|apply qext_refl].
    destruct (Nat.leb y x); [apply qext_refl|]. cbv zeta. destruct (match_all _ _ _); apply qext_refl.
  - destruct (r_look r); try apply qext_refl.
    destruct (r_queue r) as [|[e p|si rl tg p] q] eqn:Eq; cbn [r_queue with_queue]; try (rewrite Eq; apply qext_refl).
    exists [], (Some (Some t)). split; [reflexivity|].
    intros Hb. specialize (NT Hb). discriminate NT.
Qed.

Section QueueFrame.
Variable rd : reading.
Variable cfg : config.
Variable E : env.
Variable strict : bool.
Hypothesis HE : strict = true -> notag_env E.

Theorem rexec_qext : forall fuel p r, (strict = true -> notag p = true) ->
  match rexec_gen rd cfg E fuel p r with
  | RROk r' | RRErr r' => qext strict (r_queue r) (r_queue r')
  | _ => True
  end.
Proof.
  induction fuel as [|fuel IH]; intros p r NT; [exact I|].
  destruct p; cbn [rexec_gen]; cbn [notag] in NT.
  - (* PPrim *) now apply rprim_qext.
  - (* PRule *)
    destruct (remits r); [|now apply IH].
    specialize (IH p (with_queue r (QStart 0 (r_pos r) :: r_queue r)) NT).
    destruct (rexec_gen rd cfg E fuel p _) as [r'|r'|k|]; auto; cbn [r_queue with_queue] in *.
    + unfold close_rule. cbv zeta.
      match goal with |- qext _ _ (?x :: ?bd ++ ?y :: ?q) => exists (x :: bd ++ [y]), None end.
      split; [cbn; rewrite <- app_assoc; reflexivity|reflexivity].
    + apply qext_refl.
  - (* PSequence *)
    specialize (IH p r NT). destruct (rexec_gen rd cfg E fuel p r) as [r'|r'|k|]; auto.
    destruct rd; cbn [r_queue with_queue]; [apply qext_refl|now apply qext_truncate].
  - (* PRepeat *) now apply IH.
  - (* PRepeatLoop *)
    pose proof (IH p r NT) as H1. destruct (rexec_gen rd cfg E fuel p r) as [r'|r'|k|]; auto.
    pose proof (IH (PRepeatLoop p) r' NT) as H2.
    destruct (rexec_gen rd cfg E fuel (PRepeatLoop p) r') as [r2|r2|k|]; auto; eapply qext_trans; eauto.
  - (* POptional *) specialize (IH p r NT). destruct (rexec_gen rd cfg E fuel p r); auto.
  - (* PLookahead *)
    destruct (rexec_gen rd cfg E fuel p _); auto; destruct positive; apply qext_refl.
  - (* PAtomic *)
    specialize (IH p (with_atom r a) NT). destruct (rexec_gen rd cfg E fuel p _); auto.
  - (* PStackPush *) specialize (IH p r NT). destruct (rexec_gen rd cfg E fuel p r); auto.
  - (* PRestoreOnErr *) specialize (IH p r NT). destruct (rexec_gen rd cfg E fuel p r); auto.
  - (* PAndThen *)
    assert (NT1 : strict = true -> notag p1 = true) by (intros Hb; apply NT in Hb; apply andb_true_iff in Hb; tauto).
    assert (NT2 : strict = true -> notag p2 = true) by (intros Hb; apply NT in Hb; apply andb_true_iff in Hb; tauto).
    pose proof (IH p1 r NT1) as H1. destruct (rexec_gen rd cfg E fuel p1 r) as [r'|r'|k|]; auto.
    pose proof (IH p2 r' NT2) as H2.
    destruct (rexec_gen rd cfg E fuel p2 r') as [r2|r2|k|]; auto; eapply qext_trans; eauto.
  - (* POrElse *)
    assert (NT1 : strict = true -> notag p1 = true) by (intros Hb; apply NT in Hb; apply andb_true_iff in Hb; tauto).
    assert (NT2 : strict = true -> notag p2 = true) by (intros Hb; apply NT in Hb; apply andb_true_iff in Hb; tauto).
    pose proof (IH p1 r NT1) as H1. destruct (rexec_gen rd cfg E fuel p1 r) as [r'|r'|k|]; auto.
    pose proof (IH p2 r' NT2) as H2.
    destruct (rexec_gen rd cfg E fuel p2 r') as [r2|r2|k|]; auto; eapply qext_trans; eauto.
  - (* PIfNonAtomic *)
    destruct (atom_eqb (r_atom r) NonAtomic); apply IH; intros Hb; apply NT in Hb; apply andb_true_iff in Hb; tauto.
  - (* PCall *)
    destruct (E f) as [q|] eqn:Ef; [|exact I]. apply IH. intros Hb. eapply HE; eauto.
Qed.

End QueueFrame.
