(* Layer C proofs: the model of parser_state.rs (Exec.exec, over the three-vector snapshot stack,
   with call counting, attempt tracking and parse-attempt bookkeeping) against the reference
   reading of the documented contracts (Ref.rexec, over a plain stack).

     abs : pst -> rst      forgets everything the documentation does not mention and reads the
                           snapshot stack through its live contents `cache`.

   Results:
     exec_refines_tagleak     abs_res (exec s) = rexec_gen TagLeak (abs s)   for ALL programs (exact)
     exec_refines_ref_refuted the same against the fully documented reading is FALSE (tag_node
                              inside a failing sequence: known finding C03-tag-in-failed-sequence)
     exec_refines_ref_notag   ... and TRUE (exact) for programs that never call tag_node
     exec_refines_ref_untag   ... and TRUE for all programs up to the node tags of the tokens  *)
From Coq Require Import List Arith NArith ZArith Bool Lia.
Import ListNotations.
Require Import PV.Stack.Model PV.Stack.Proofs PV.Comb.PState PV.Comb.Bytes PV.Comb.Prog PV.Comb.Exec
               PV.Comb.Frame PV.Comb.Contracts PV.Comb.Utf8c PV.Comb.Ref.

Arguments Nat.sub : simpl never.
Arguments Nat.ltb : simpl never.
Arguments Nat.leb : simpl never.
Arguments Nat.eqb : simpl never.
Arguments skipn : simpl never.
Arguments firstn : simpl never.

(* ---------- the abstraction ---------- *)
Definition abs (s : pst) : rst :=
  {| r_input := input s; r_pos := pos s; r_queue := queue s; r_stack := cache (stack s);
     r_look := lookahead s; r_atom := atomicity s |}.

Definition abs_res (x : res) : rres :=
  match x with
  | ROk s => RROk (abs s)
  | RErr s => RRErr (abs s)
  | RPanic k => RRPanic k
  | ROutOfFuel => RRFuel
  end.

Lemma abs_same_core s s' : same_core s s' -> abs s' = abs s.
Proof. intros C. unfold abs. rewrite (c_input _ _ C), (c_pos _ _ C), (c_queue _ _ C), (c_stack _ _ C), (c_la _ _ C), (c_at _ _ C). reflexivity. Qed.

Lemma abs_same_attempts s s' : same_but_attempts s s' -> abs s' = abs s.
Proof. intros C. unfold abs. rewrite (t_input _ _ C), (t_pos _ _ C), (t_queue _ _ C), (t_stack _ _ C), (t_la _ _ C), (t_at _ _ C). reflexivity. Qed.

Lemma abs_set_stack s st : cache st = cache (stack s) -> abs (set_stack s st) = abs s.
Proof. intros H. unfold abs. cbn. rewrite H. reflexivity. Qed.

Lemma atom_eqb_true a b : atom_eqb a b = true -> a = b.
Proof. destruct a, b; cbn; congruence. Qed.

(* ---------- the primitives ---------- *)
Lemma apply_pres_abs s x t : abs_res (apply_pres s x t) = rmoved (abs s) x.
Proof.
  unfold apply_pres. destruct x as [p| |]; cbn [rmoved abs_res]; [| |reflexivity].
  - f_equal. destruct t as [tk|]; [destruct (pa_enabled s)|]; try reflexivity.
    destruct (handle_token_core (set_pos s p) (pos s) tk true) as [C _]. rewrite (abs_same_core _ _ C). reflexivity.
  - f_equal. destruct t as [tk|]; [destruct (pa_enabled s)|]; try reflexivity.
    destruct (handle_token_core s (pos s) tk false) as [C _]. apply (abs_same_core _ _ C).
Qed.

Lemma pop_cache (st : stk (list byte)) :
  match cache st with
  | [] => pop st = (st, None)
  | x :: c => exists st', pop st = (st', Some x) /\ cache st' = c
  end.
Proof.
  unfold pop. destruct (cache st) as [|x c]; [reflexivity|].
  destruct (lengths st) as [|[l r] ls]; [|destruct (Nat.eqb (S (length c)) r)]; eexists; split; reflexivity.
Qed.

Lemma match_pop_loop_abs f inp : forall (st : stk (list byte)) p, length (cache st) < f ->
  exists st', match_pop_loop f inp st p =
              Some (st', snd (fst (rmatch_pop inp (cache st) p)), snd (rmatch_pop inp (cache st) p)) /\
              cache st' = fst (fst (rmatch_pop inp (cache st) p)).
Proof.
  induction f as [|f IH]; intros st p H; [lia|]. cbn [match_pop_loop].
  pose proof (pop_cache st) as PC. destruct (cache st) as [|x c] eqn:Ec.
  - rewrite PC. exists st. cbn [rmatch_pop fst snd]. split; [reflexivity|exact Ec].
  - destruct PC as (st' & Ep & Ec'). rewrite Ep. cbn [rmatch_pop].
    destruct (match_string inp p x) as [p'| |].
    + cbn [length] in H. destruct (IH st' p') as (st2 & E1 & E2); [rewrite Ec'; lia|].
      rewrite Ec' in E1, E2. exists st2. split; assumption.
    + exists st'. cbn [fst snd]. split; [reflexivity|exact Ec'].
    + exists st'. cbn [fst snd]. split; [reflexivity|exact Ec'].
Qed.

Lemma peek_slice_abs s i j d : abs_res (peek_slice s i j d) = rpeek_slice (abs s) i j d.
Proof.
  unfold peek_slice, rpeek_slice. cbn [abs r_stack r_input r_pos].
  destruct (constrain_idxs i j (length (cache (stack s)))) as [[a b]|]; [|reflexivity].
  destruct (Nat.leb b a); [reflexivity|]. cbv zeta.
  destruct (match_all _ _ _); reflexivity.
Qed.

Lemma vslice_all {A} (l : list A) : vslice 0 (length l) l = rev l.
Proof.
  unfold vslice. change (skipn 0 (rev l)) with (rev l).
  replace (length l - 0) with (length (rev l)) by (rewrite rev_length; lia). apply firstn_all.
Qed.

Lemma constrain_all n : constrain_idxs 0 None n = Some (0, n).
Proof.
  unfold constrain_idxs, normalize_index. destruct (Z.of_nat n <? 0)%Z eqn:Z0; [apply Z.ltb_lt in Z0; lia|]. reflexivity.
Qed.

Lemma exec_prim_abs cfg o s : abs_res (exec_prim cfg o s) = rprim cfg o (abs s).
Proof.
  destruct o; cbn [exec_prim rprim]; cbv zeta; cbn [abs r_input r_pos r_stack r_queue r_look]; fold (abs s);
    try reflexivity; try apply apply_pres_abs.
  - (* skip_until *) destruct (skip_until cfg (input s) (pos s) ss); reflexivity.
  - destruct (Nat.eqb (pos s) 0); reflexivity.
  - destruct (Nat.eqb (pos s) (length (input s))); reflexivity.
  - (* stack_peek *) unfold peek. destruct (cache (stack s)) as [|x c]; [reflexivity|]. apply apply_pres_abs.
  - (* stack_pop *) pose proof (pop_cache (stack s)) as PC. destruct (cache (stack s)) as [|x c] eqn:Ec.
    + rewrite PC. reflexivity.
    + destruct PC as (st' & Ep & Ec'). rewrite Ep. unfold st_match_string. rewrite apply_pres_abs.
      cbn [input pos set_stack]. f_equal. unfold abs, with_stack. cbn. rewrite Ec'. reflexivity.
  - (* stack_drop *) pose proof (pop_cache (stack s)) as PC. destruct (cache (stack s)) as [|x c] eqn:Ec.
    + rewrite PC. cbn. unfold abs. rewrite Ec. reflexivity.
    + destruct PC as (st' & Ep & Ec'). rewrite Ep. cbn [abs_res]. f_equal. unfold abs, with_stack. cbn. rewrite Ec'. reflexivity.
  - (* stack_match_peek *) unfold peek_slice. rewrite constrain_all.
    destruct (Nat.leb (length (cache (stack s))) 0) eqn:L0.
    + apply Nat.leb_le in L0.
      assert (Ec : cache (stack s) = []) by (destruct (cache (stack s)); [reflexivity|cbn in L0; lia]).
      rewrite Ec. reflexivity.
    + rewrite vslice_all, rev_involutive. destruct (match_all _ _ _); reflexivity.
  - (* stack_match_pop *)
    destruct (match_pop_loop_abs (S (length (cache (stack s)))) (input s) (stack s) (pos s)) as (st' & E1 & E2); [lia|].
    rewrite E1. destruct (rmatch_pop (input s) (cache (stack s)) (pos s)) as [[rest p] ok]. cbn [fst snd] in *.
    destruct ok; cbn [abs_res]; f_equal; unfold abs, with_pos, with_stack; cbn; rewrite E2; reflexivity.
  - (* peek_slice *) apply peek_slice_abs.
  - (* tag_node *) destruct (lookahead s); cbn [negb lk_eqb]; try reflexivity.
    destruct (queue s) as [|[e p|si r tg p] q]; reflexivity.
Qed.

(* ---------- the exact queue frame of the reference interpreter ----------
   Whatever a program does, the queue afterwards is the old queue with new tokens on top; the
   only thing that can have happened to an old token is a new node tag on the LAST one.
   With `strict` (programs that never call tag_node) not even that.                             *)
Definition retag_head (t : option (option nat)) (q : list qtoken) : list qtoken :=
  match t, q with
  | Some tg, QEnd si r _ p :: q0 => QEnd si r tg p :: q0
  | _, _ => q
  end.
Definition qext (strict : bool) (q q' : list qtoken) : Prop :=
  exists new t, q' = new ++ retag_head t q /\ (strict = true -> t = None).

Lemma qext_refl b q : qext b q q.
Proof. exists [], None. split; reflexivity. Qed.

Lemma qext_of_app b q new : qext b q (new ++ q).
Proof. exists new, None. split; reflexivity. Qed.

Lemma retag_retag t2 t1 q :
  retag_head t2 (retag_head t1 q) = retag_head (match t2 with Some _ => t2 | None => t1 end) q.
Proof. destruct t2, t1, q as [|[e p|si r tg p] q]; reflexivity. Qed.

Lemma retag_head_cons t x l : exists x', retag_head t (x :: l) = x' :: l.
Proof. destruct t, x; cbn; eauto. Qed.

Lemma retag_head_length t q : length (retag_head t q) = length q.
Proof. destruct t, q as [|[e p|si r tg p] q]; reflexivity. Qed.

Lemma retag_head_untag t q : untagq (retag_head t q) = untagq q.
Proof. destruct t, q as [|[e p|si r tg p] q]; reflexivity. Qed.

Lemma qext_trans b q1 q2 q3 : qext b q1 q2 -> qext b q2 q3 -> qext b q1 q3.
Proof.
  intros (n1 & t1 & E1 & S1) (n2 & t2 & E2 & S2). subst q2 q3. destruct n1 as [|x n1].
  - cbn [app]. rewrite retag_retag. eexists n2, _. split; [reflexivity|].
    intros Hb. rewrite (S1 Hb), (S2 Hb). reflexivity.
  - cbn [app]. destruct (retag_head_cons t2 x (n1 ++ retag_head t1 q1)) as (x' & ->).
    exists (n2 ++ x' :: n1), t1. split; [rewrite <- app_assoc; reflexivity|exact S1].
Qed.

Lemma qext_start b e p q q' : qext b (QStart e p :: q) q' -> exists new, q' = new ++ QStart e p :: q.
Proof. intros (new & t & -> & _). exists new. destruct t; reflexivity. Qed.

Lemma qext_strict q q' : qext true q q' -> exists new, q' = new ++ q.
Proof. intros (new & t & -> & S). rewrite (S eq_refl). exists new. reflexivity. Qed.

Lemma qext_truncate b q q' : qext b q q' -> qext b q (vtruncate (length q) q').
Proof.
  intros (new & t & -> & S). rewrite vtruncate_app by apply retag_head_length.
  exists [], t. split; [reflexivity|exact S].
Qed.

Lemma qext_untag b q q' : qext b q q' -> untagq (vtruncate (length q) q') = untagq q.
Proof.
  intros (new & t & -> & S). rewrite vtruncate_app by apply retag_head_length. apply retag_head_untag.
Qed.

Lemma rmoved_qext b r0 r x : r_queue r0 = r_queue r ->
  match rmoved r0 x with RROk r' | RRErr r' => qext b (r_queue r) (r_queue r') | _ => True end.
Proof. intros H. destruct x; cbn; auto; rewrite H; apply qext_refl. Qed.

Lemma rprim_qext b cfg o r : (b = true -> notag_prim o = true) ->
  match rprim cfg o r with RROk r' | RRErr r' => qext b (r_queue r) (r_queue r') | _ => True end.
Proof.
  intros NT. destruct o; cbn [rprim]; cbv zeta; try (apply rmoved_qext; reflexivity); try apply qext_refl.
  - destruct (skip_until _ _ _ _); [apply qext_refl|exact I].
  - destruct (Nat.eqb _ _); apply qext_refl.
  - destruct (Nat.eqb _ _); apply qext_refl.
  - destruct (r_stack r); [exact I|apply rmoved_qext; reflexivity].
  - destruct (r_stack r); [exact I|apply rmoved_qext; reflexivity].
  - destruct (r_stack r); apply qext_refl.
  - destruct (match_all _ _ _); apply qext_refl.
  - destruct (rmatch_pop _ _ _) as [[rest p] ok]. destruct ok; apply qext_refl.
  - unfold rpeek_slice. destruct (constrain_idxs _ _ _) as [[x y]|]; [|apply qext_refl].
    destruct (Nat.leb y x); [apply qext_refl|]. cbv zeta. destruct (match_all _ _ _); apply qext_refl.
  - destruct (r_look r); try apply qext_refl.
    destruct (r_queue r) as [|[e p|si rl tg p] q] eqn:Eq; cbn [r_queue with_queue]; try (rewrite Eq; apply qext_refl).
    exists [], (Some (Some t)). split; [reflexivity|].
    intros Hb. specialize (NT Hb). discriminate NT.
Qed.

Section QueueFrame.
Variable rd : reading.
Variable cfg : config.
Variable E : env.
Variable strict : bool.
Hypothesis HE : strict = true -> notag_env E.

Theorem rexec_qext : forall fuel p r, (strict = true -> notag p = true) ->
  match rexec_gen rd cfg E fuel p r with
  | RROk r' | RRErr r' => qext strict (r_queue r) (r_queue r')
  | _ => True
  end.
Proof.
  induction fuel as [|fuel IH]; intros p r NT; [exact I|].
  destruct p; cbn [rexec_gen]; cbn [notag] in NT.
  - (* PPrim *) now apply rprim_qext.
  - (* PRule *)
    destruct (remits r); [|now apply IH].
    specialize (IH p (with_queue r (QStart 0 (r_pos r) :: r_queue r)) NT).
    destruct (rexec_gen rd cfg E fuel p _) as [r'|r'|k|]; auto; cbn [r_queue with_queue] in *.
    + unfold close_rule. cbv zeta.
      match goal with |- qext _ _ (?x :: ?bd ++ ?y :: ?q) => exists (x :: bd ++ [y]), None end.
      split; [cbn; rewrite <- app_assoc; reflexivity|reflexivity].
    + apply qext_refl.
  - (* PSequence *)
    specialize (IH p r NT). destruct (rexec_gen rd cfg E fuel p r) as [r'|r'|k|]; auto.
    destruct rd; cbn [r_queue with_queue]; [apply qext_refl|now apply qext_truncate].
  - (* PRepeat *) now apply IH.
  - (* PRepeatLoop *)
    pose proof (IH p r NT) as H1. destruct (rexec_gen rd cfg E fuel p r) as [r'|r'|k|]; auto.
    pose proof (IH (PRepeatLoop p) r' NT) as H2.
    destruct (rexec_gen rd cfg E fuel (PRepeatLoop p) r') as [r2|r2|k|]; auto; eapply qext_trans; eauto.
  - (* POptional *) specialize (IH p r NT). destruct (rexec_gen rd cfg E fuel p r); auto.
  - (* PLookahead *)
    destruct (rexec_gen rd cfg E fuel p _); auto; destruct positive; apply qext_refl.
  - (* PAtomic *)
    specialize (IH p (with_atom r a) NT). destruct (rexec_gen rd cfg E fuel p _); auto.
  - (* PStackPush *) specialize (IH p r NT). destruct (rexec_gen rd cfg E fuel p r); auto.
  - (* PRestoreOnErr *) specialize (IH p r NT). destruct (rexec_gen rd cfg E fuel p r); auto.
  - (* PAndThen *)
    assert (NT1 : strict = true -> notag p1 = true) by (intros Hb; apply NT in Hb; apply andb_true_iff in Hb; tauto).
    assert (NT2 : strict = true -> notag p2 = true) by (intros Hb; apply NT in Hb; apply andb_true_iff in Hb; tauto).
    pose proof (IH p1 r NT1) as H1. destruct (rexec_gen rd cfg E fuel p1 r) as [r'|r'|k|]; auto.
    pose proof (IH p2 r' NT2) as H2.
    destruct (rexec_gen rd cfg E fuel p2 r') as [r2|r2|k|]; auto; eapply qext_trans; eauto.
  - (* POrElse *)
    assert (NT1 : strict = true -> notag p1 = true) by (intros Hb; apply NT in Hb; apply andb_true_iff in Hb; tauto).
    assert (NT2 : strict = true -> notag p2 = true) by (intros Hb; apply NT in Hb; apply andb_true_iff in Hb; tauto).
    pose proof (IH p1 r NT1) as H1. destruct (rexec_gen rd cfg E fuel p1 r) as [r'|r'|k|]; auto.
    pose proof (IH p2 r' NT2) as H2.
    destruct (rexec_gen rd cfg E fuel p2 r') as [r2|r2|k|]; auto; eapply qext_trans; eauto.
  - (* PIfNonAtomic *)
    destruct (atom_eqb (r_atom r) NonAtomic); apply IH; intros Hb; apply NT in Hb; apply andb_true_iff in Hb; tauto.
  - (* PCall *)
    destruct (E f) as [q|] eqn:Ef; [|exact I]. apply IH. intros Hb. eapply HE; eauto.
Qed.

End QueueFrame.

(* ---------- rule(): what it does to the abstract state ---------- *)
Lemma set_start_end_exact new e p old ni :
  set_start_end (new ++ QStart e p :: old) (length old) ni = Some (new ++ QStart ni p :: old).
Proof.
  unfold set_start_end. rewrite app_length. cbn [length].
  destruct (Nat.ltb (length old) (length new + S (length old))) eqn:L; [|apply Nat.ltb_ge in L; lia].
  replace (length new + S (length old) - 1 - length old) with (length new) by lia.
  rewrite nth_error_app2 by lia. rewrite Nat.sub_diag. cbn [nth_error]. f_equal.
  rewrite firstn_app, firstn_all, Nat.sub_diag. cbn [firstn]. rewrite app_nil_r. f_equal.
  replace (S (length new)) with (length new + 1) by lia. rewrite skipn_app.
  rewrite skipn_all2 by lia. replace (length new + 1 - length new) with 1 by lia. reflexivity.
Qed.

Lemma emits_abs s : remits (abs s) = emits s.
Proof. reflexivity. Qed.

(* the attempt-tracking and call-stack steps of rule() are invisible through abs *)
Lemma rule_ok_abs rule fr s' :
  (forall k, rule_ok rule fr s' = RPanic k -> k <> PkInternal) ->
  abs_res (rule_ok rule fr s') =
  if emits s' then
    match set_start_end (queue s') (rf_index fr) (length (queue s')) with
    | None => RRPanic PkInternal
    | Some q => RROk (with_queue (abs s') (QEnd (rf_index fr) rule None (pos s') :: q))
    end
  else RROk (abs s').
Proof.
  intros NP. unfold rule_ok in *.
  set (sa := if lk_eqb (lookahead s') LNeg then track s' rule (rf_pos fr) (rf_pai fr) (rf_nai fr) (rf_attempts fr) else s') in *.
  assert (T : same_but_attempts s' sa) by (unfold sa; destruct (lk_eqb (lookahead s') LNeg); [apply track_same|split; reflexivity]).
  assert (Em : emits sa = emits s') by (unfold emits; rewrite (t_la _ _ T), (t_at _ _ T); reflexivity).
  rewrite Em in *. rewrite (t_queue _ _ T), (t_pos _ _ T) in *.
  pose proof (abs_same_attempts _ _ T) as A.
  destruct (emits s').
  - destruct (set_start_end (queue s') (rf_index fr) (length (queue s'))) as [q|]; [|reflexivity].
    set (sb := set_queue sa (QEnd (rf_index fr) rule None (pos s') :: q)) in *.
    assert (AB : abs sb = with_queue (abs s') (QEnd (rf_index fr) rule None (pos s') :: q)) by (rewrite <- A; reflexivity).
    change (pa_enabled sb) with (pa_enabled sa) in *.
    destruct (pa_enabled sa).
    + destruct (try_add_rule_to_stack sb rule (rf_csn fr) (rf_max fr)) as [y|] eqn:Ey; cbn [lift] in *.
      * apply try_add_rule_to_stack_core in Ey. cbn [abs_res]. rewrite (abs_same_core _ _ Ey), AB. reflexivity.
      * exfalso. eapply NP; reflexivity.
    + cbn [abs_res]. rewrite AB. reflexivity.
  - destruct (pa_enabled sa).
    + destruct (try_add_rule_to_stack sa rule (rf_csn fr) (rf_max fr)) as [y|] eqn:Ey; cbn [lift] in *.
      * apply try_add_rule_to_stack_core in Ey. cbn [abs_res]. rewrite (abs_same_core _ _ Ey), A. reflexivity.
      * exfalso. eapply NP; reflexivity.
    + cbn [abs_res]. rewrite A. reflexivity.
Qed.

Lemma rule_err_abs rule fr s' :
  (forall k, rule_err rule fr s' = RPanic k -> k <> PkInternal) ->
  abs_res (rule_err rule fr s') =
  RRErr (if emits s' then with_queue (abs s') (vtruncate (rf_index fr) (queue s')) else abs s').
Proof.
  intros NP. unfold rule_err in *.
  assert (FIN : forall y, abs y = abs s' ->
            abs_res (RErr (if emits y then set_queue y (vtruncate (rf_index fr) (queue y)) else y)) =
            RRErr (if emits s' then with_queue (abs s') (vtruncate (rf_index fr) (queue s')) else abs s')).
  { intros y A. cbn [abs_res]. f_equal. rewrite <- (emits_abs y), <- (emits_abs s'), A.
    destruct (remits (abs s')); [|exact A].
    change (abs (set_queue y (vtruncate (rf_index fr) (queue y)))) with (with_queue (abs y) (vtruncate (rf_index fr) (r_queue (abs y)))).
    rewrite A. reflexivity. }
  destruct (negb (lk_eqb (lookahead s') LNeg)).
  - set (t := track s' rule (rf_pos fr) (rf_pai fr) (rf_nai fr) (rf_attempts fr)) in *.
    pose proof (track_same s' rule (rf_pos fr) (rf_pai fr) (rf_nai fr) (rf_attempts fr)) as T. fold t in T.
    pose proof (abs_same_attempts _ _ T) as A.
    destruct (pa_enabled t).
    + destruct (try_add_rule_to_stack t rule (rf_csn fr) (rf_max fr)) as [y|] eqn:Ey.
      * apply try_add_rule_to_stack_core in Ey. apply FIN. rewrite (abs_same_core _ _ Ey). exact A.
      * exfalso. eapply NP; reflexivity.
    + apply FIN. exact A.
  - apply FIN. reflexivity.
Qed.

Lemma vtruncate_start {A} (new : list A) x q : vtruncate (length q) (new ++ x :: q) = q.
Proof.
  change (x :: q) with ([x] ++ q). rewrite app_assoc. apply vtruncate_app. reflexivity.
Qed.

Lemma firstn_body {A} (new : list A) x q : firstn (length (new ++ x :: q) - S (length q)) (new ++ x :: q) = new.
Proof.
  rewrite app_length. cbn [length]. replace (length new + S (length q) - S (length q)) with (length new + 0) by lia.
  rewrite firstn_app_2. cbn [firstn]. apply app_nil_r.
Qed.

(* ---------- the refinement theorem ---------- *)
Lemma inc_call_nolimit s : limit s = None -> inc_call s = Some s.
Proof. intros L. unfold inc_call, limit_reached. rewrite L. reflexivity. Qed.

Section Refinement.
Variable cfg : config.
Variable E : env.

Theorem exec_refines_tagleak : forall fuel p s a,
  wf s -> Inv (stack s) a -> limit s = None ->
  abs_res (exec cfg E fuel p s) = rexec_gen TagLeak cfg E fuel p (abs s).
Proof.
  induction fuel as [|fuel IH]; intros p s a W I L; [reflexivity|].
  pose proof (inc_call_nolimit s L) as IC.
  (* a sub-run: the induction hypothesis together with the frame facts of exec_post *)
  assert (SUB : forall q s0 a0, wf s0 -> Inv (stack s0) a0 -> limit s0 = None ->
            abs_res (exec cfg E fuel q s0) = rexec_gen TagLeak cfg E fuel q (abs s0) /\
            match exec cfg E fuel q s0 with
            | ROk s' | RErr s' =>
                frame s0 s' /\ wf s' /\ limit s' = None /\ exists a', Inv (stack s') a' /\ snaps a' = snaps a0
            | RPanic k => k <> PkInternal
            | ROutOfFuel => True
            end).
  { intros q s0 a0 W0 I0 L0. split; [now apply (IH q s0 a0)|].
    pose proof (exec_post cfg E fuel q s0 a0 W0 I0) as P.
    destruct (exec cfg E fuel q s0) as [s'|s'|k|]; cbn [post] in P; auto;
      destruct P as (F & W' & a' & I' & S'); (split; [exact F|split; [exact W'|split; [rewrite (f_lim _ _ F); exact L0|eauto]]]). }
  destruct p as [o|rule p|p|p|p|p|positive p|a0 p|p|p|p1 p2|p1 p2|p1 p2|f]; cbn [exec rexec_gen]; try rewrite IC.
  - (* PPrim *) apply exec_prim_abs.
  - (* PRule *)
    destruct (rule_enter s) as [fr s2] eqn:Er.
    assert (Hfr : fr = fst (rule_enter s)) by now rewrite Er. assert (Hs2 : s2 = snd (rule_enter s)) by now rewrite Er.
    destruct (rule_enter_spec s) as (_ & Ri & _ & _ & Q & SQ). rewrite <- Hs2 in SQ, Q. rewrite <- Hfr in Ri.
    assert (W2 : wf s2) by (unfold wf in *; rewrite (q_pos _ _ SQ), (q_input _ _ SQ); exact W).
    assert (I2 : Inv (stack s2) a) by (rewrite (q_stack _ _ SQ); exact I).
    assert (L2 : limit s2 = None) by (rewrite (q_lim _ _ SQ); exact L).
    assert (A2 : abs s2 = if emits s then with_queue (abs s) (QStart 0 (r_pos (abs s)) :: r_queue (abs s)) else abs s).
    { unfold abs at 1. rewrite (q_input _ _ SQ), (q_pos _ _ SQ), (q_stack _ _ SQ), (q_la _ _ SQ), (q_at _ _ SQ), Q.
      destruct (emits s); reflexivity. }
    destruct (SUB p s2 a W2 I2 L2) as (R & P).
    pose proof (rule_ok_post rule s) as POK. pose proof (rule_err_post rule s) as PERR.
    rewrite <- Hs2, <- Hfr in POK, PERR.
    pose proof (rexec_qext TagLeak cfg E false (fun H => False_ind _ (Bool.diff_false_true H)) fuel p (abs s2)
                  (fun H => False_ind _ (Bool.diff_false_true H))) as QX.
    rewrite <- R in QX. rewrite emits_abs.
    assert (EM : forall s', frame s2 s' -> emits s' = emits s).
    { intros s' F. unfold emits. rewrite (f_la _ _ F), (f_at _ _ F), (q_la _ _ SQ), (q_at _ _ SQ). reflexivity. }
    destruct (emits s) eqn:Em; rewrite <- A2, <- R.
    + (* the rule emits its pair *)
      destruct (exec cfg E fuel p s2) as [s'|s'|k|] eqn:Ex; cbn [abs_res] in *; try reflexivity.
      * destruct P as (F & W' & L' & a' & I' & S'). specialize (POK s' a a' W' F I' S').
        rewrite rule_ok_abs by (intros k Hk; rewrite Hk in POK; exact POK).
        rewrite (EM s' F). cbn [r_queue abs] in QX. rewrite Q in QX.
        destruct (qext_start _ _ _ _ _ QX) as (new & Eq).
        rewrite Ri. rewrite Eq at 1. rewrite set_start_end_exact.
        unfold close_rule. cbn [r_queue r_pos abs]. fold (abs s').
        assert (B : firstn (length (queue s') - S (length (queue s))) (queue s') = new) by (rewrite Eq; apply firstn_body).
        rewrite B. reflexivity.
      * destruct P as (F & W' & L' & a' & I' & S'). specialize (PERR s' a a' W' F I' S').
        rewrite rule_err_abs by (intros k Hk; rewrite Hk in PERR; exact PERR).
        rewrite (EM s' F). cbn [r_queue abs] in QX. rewrite Q in QX.
        destruct (qext_start _ _ _ _ _ QX) as (new & Eq).
        rewrite Ri, Eq, vtruncate_start. reflexivity.
    + (* silent: under look-ahead or in an atomic rule *)
      destruct (exec cfg E fuel p s2) as [s'|s'|k|] eqn:Ex; cbn [abs_res] in *; try reflexivity.
      * destruct P as (F & W' & L' & a' & I' & S'). specialize (POK s' a a' W' F I' S').
        rewrite rule_ok_abs by (intros k Hk; rewrite Hk in POK; exact POK).
        rewrite (EM s' F). reflexivity.
      * destruct P as (F & W' & L' & a' & I' & S'). specialize (PERR s' a a' W' F I' S').
        rewrite rule_err_abs by (intros k Hk; rewrite Hk in PERR; exact PERR).
        rewrite (EM s' F). reflexivity.
  - (* PSequence *)
    assert (I1 : Inv (stack (checkpoint s)) (ssnapshot a)) by (cbn; now apply inv_snapshot).
    destruct (SUB p (checkpoint s) (ssnapshot a) W I1 L) as (R & P).
    change (abs (checkpoint s)) with (abs s) in R. rewrite <- R.
    destruct (exec cfg E fuel p (checkpoint s)) as [s'|s'|k|] eqn:Ex; cbn [abs_res]; try reflexivity.
    + destruct P as (F & W' & L' & a' & I' & S'). unfold checkpoint_ok.
      destruct (inv_clear I') as (st & Ec & I3). rewrite Ec. cbn [option_map lift abs_res]. f_equal.
      apply abs_set_stack. rewrite (inv_cache _ _ I3), (inv_cache _ _ I'). reflexivity.
    + destruct P as (F & W' & L' & a' & I' & S'). unfold restore_st. cbn [stack set_queue set_pos].
      destruct (inv_restore I') as (st & Er & I3). rewrite Er. cbn [option_map lift abs_res]. f_equal.
      unfold abs, with_queue. cbn.
      rewrite (f_input _ _ F), (f_la _ _ F), (f_at _ _ F). cbn [input lookahead atomicity checkpoint set_stack].
      rewrite (inv_cache _ _ I3). unfold srestore. rewrite S'. cbn [snaps ssnapshot]. rewrite <- (inv_cache _ _ I). reflexivity.
  - (* PRepeat *) now apply (IH (PRepeatLoop p) s a).
  - (* PRepeatLoop *)
    destruct (SUB p s a W I L) as (R & P). rewrite <- R.
    destruct (exec cfg E fuel p s) as [s'|s'|k|] eqn:Ex; cbn [abs_res]; try reflexivity.
    destruct P as (F & W' & L' & a' & I' & S'). now apply (IH (PRepeatLoop p) s' a').
  - (* POptional *)
    destruct (SUB p s a W I L) as (R & P). rewrite <- R.
    destruct (exec cfg E fuel p s) as [s'|s'|k|]; reflexivity.
  - (* PLookahead *)
    set (s2 := set_lookahead s (enter_lookahead positive (lookahead s))).
    assert (W2 : wf (checkpoint s2)) by exact W.
    assert (I2 : Inv (stack (checkpoint s2)) (ssnapshot a)) by (cbn; now apply inv_snapshot).
    assert (L2 : limit (checkpoint s2) = None) by exact L.
    assert (N2 : lookahead (checkpoint s2) <> LNone) by (cbn; destruct positive, (lookahead s); cbn; congruence).
    destruct (SUB p (checkpoint s2) (ssnapshot a) W2 I2 L2) as (R & P).
    change (abs (checkpoint s2)) with (with_look (abs s) (enter_lookahead positive (r_look (abs s)))) in R. rewrite <- R.
    assert (FIN : forall x, (exec cfg E fuel p (checkpoint s2) = ROk x \/ exec cfg E fuel p (checkpoint s2) = RErr x) ->
              frame (checkpoint s2) x -> (exists a', Inv (stack x) a' /\ snaps a' = snaps (ssnapshot a)) ->
              exists y, restore_st (set_lookahead (set_pos x (pos s)) (lookahead s)) = Some y /\ abs y = abs s).
    { intros x Hx F (a' & I' & S').
      pose proof (exec_quiet cfg E fuel p (checkpoint s2) (ssnapshot a) x W2 I2 N2 Hx) as Qx.
      unfold restore_st. cbn [stack set_lookahead set_pos].
      destruct (inv_restore I') as (st & Er & I3). rewrite Er. cbn [option_map]. eexists. split; [reflexivity|].
      unfold abs. cbn. rewrite (f_input _ _ F), (f_at _ _ F), Qx. cbn [input atomicity queue checkpoint set_stack set_lookahead s2].
      rewrite (inv_cache _ _ I3). unfold srestore. rewrite S'. cbn [snaps ssnapshot]. rewrite <- (inv_cache _ _ I). reflexivity. }
    destruct (exec cfg E fuel p (checkpoint s2)) as [x|x|k|] eqn:Ex; cbn [abs_res]; try reflexivity.
    + destruct P as (F & W' & L' & P'). destruct (FIN x (or_introl eq_refl) F P') as (y & Ey & Ay).
      rewrite Ey. cbn [lift]. destruct positive; cbn [abs_res]; rewrite Ay; reflexivity.
    + destruct P as (F & W' & L' & P'). destruct (FIN x (or_intror eq_refl) F P') as (y & Ey & Ay).
      rewrite Ey. cbn [lift]. destruct positive; cbn [abs_res]; rewrite Ay; reflexivity.
  - (* PAtomic *)
    destruct (atom_eqb (atomicity s) a0) eqn:T; cbn [negb].
    + apply atom_eqb_true in T.
      assert (A0 : with_atom (abs s) a0 = abs s) by (rewrite <- T; reflexivity). rewrite A0.
      destruct (SUB p s a W I L) as (R & P). rewrite <- R.
      destruct (exec cfg E fuel p s) as [s'|s'|k|]; cbn [abs_res]; try reflexivity;
        destruct P as (F & _); f_equal; unfold abs, with_atom; cbn; rewrite (f_at _ _ F); reflexivity.
    + destruct (SUB p (set_atomicity s a0) a W I L) as (R & P).
      change (abs (set_atomicity s a0)) with (with_atom (abs s) a0) in R. rewrite <- R.
      destruct (exec cfg E fuel p (set_atomicity s a0)) as [s'|s'|k|]; reflexivity.
  - (* PStackPush *)
    destruct (SUB p s a W I L) as (R & P). rewrite <- R.
    destruct (exec cfg E fuel p s) as [s'|s'|k|]; cbn [abs_res]; try reflexivity.
    destruct P as (F & _). pose proof (f_pos _ _ F) as Hp.
    destruct (Nat.ltb (pos s') (pos s)) eqn:Lt; [apply Nat.ltb_lt in Lt; lia|]. reflexivity.
  - (* PRestoreOnErr *)
    assert (I1 : Inv (stack (checkpoint s)) (ssnapshot a)) by (cbn; now apply inv_snapshot).
    destruct (SUB p (checkpoint s) (ssnapshot a) W I1 L) as (R & P).
    change (abs (checkpoint s)) with (abs s) in R. rewrite <- R.
    destruct (exec cfg E fuel p (checkpoint s)) as [s'|s'|k|] eqn:Ex; cbn [abs_res]; try reflexivity.
    + destruct P as (F & W' & L' & a' & I' & S'). unfold checkpoint_ok.
      destruct (inv_clear I') as (st & Ec & I3). rewrite Ec. cbn [option_map lift abs_res]. f_equal.
      apply abs_set_stack. rewrite (inv_cache _ _ I3), (inv_cache _ _ I'). reflexivity.
    + destruct P as (F & W' & L' & a' & I' & S'). unfold restore_st.
      destruct (inv_restore I') as (st & Er & I3). rewrite Er. cbn [option_map lift abs_res]. f_equal.
      unfold abs, with_stack. cbn.
      rewrite (inv_cache _ _ I3). unfold srestore. rewrite S'. cbn [snaps ssnapshot]. rewrite <- (inv_cache _ _ I). reflexivity.
  - (* PAndThen *)
    destruct (SUB p1 s a W I L) as (R & P). rewrite <- R.
    destruct (exec cfg E fuel p1 s) as [s'|s'|k|] eqn:Ex; cbn [abs_res]; try reflexivity.
    destruct P as (F & W' & L' & a' & I' & S'). now apply (IH p2 s' a').
  - (* POrElse *)
    destruct (SUB p1 s a W I L) as (R & P). rewrite <- R.
    destruct (exec cfg E fuel p1 s) as [s'|s'|k|] eqn:Ex; cbn [abs_res]; try reflexivity.
    destruct P as (F & W' & L' & a' & I' & S'). now apply (IH p2 s' a').
  - (* PIfNonAtomic *)
    change (r_atom (abs s)) with (atomicity s). destruct (atom_eqb (atomicity s) NonAtomic); now apply (IH _ s a).
  - (* PCall *) destruct (E f) as [q|]; [now apply (IH q s a)|reflexivity].
Qed.

End Refinement.

(* ---------- the fully documented reading is refuted ----------
   rule(2, "a") ; sequence(tag_node(0) ; fail)  on "a": the documentation says the failed
   sequence returns the state it was given; the code returns it with tag 0 on the End of rule 2. *)
Definition ref_tag_witness : prog :=
  PAndThen (PRule 2 (PPrim (MMatchString [97%N])))
           (PSequence (PAndThen (PPrim (MTagNode 0)) (PPrim MErr))).
Definition ref_witness_cfg : config := {| memchr := true; fixed3 := true; fixedlim := true |}.

Example exec_refines_ref_refuted_witness :
  let s := init [97%N] None false in let E : env := fun _ => None in
  abs_res (exec ref_witness_cfg E 10 ref_tag_witness s) <> rexec ref_witness_cfg E 10 ref_tag_witness (abs s) /\
  abs_res (exec ref_witness_cfg E 10 ref_tag_witness s) = rexec_gen TagLeak ref_witness_cfg E 10 ref_tag_witness (abs s) /\
  rexec ref_witness_cfg E 10 ref_tag_witness (abs s) =
    RRErr (with_queue (with_pos (rinit [97%N]) 1) [QEnd 0 2 None 1; QStart 1 0]).
Proof. vm_compute. split; [discriminate|split; reflexivity]. Qed.

Definition exec_refines_ref_statement : Prop :=
  forall cfg E fuel p s a, wf s -> Inv (stack s) a -> limit s = None ->
    abs_res (exec cfg E fuel p s) = rexec cfg E fuel p (abs s).

Theorem exec_refines_ref_refuted : ~ exec_refines_ref_statement.
Proof.
  intros H.
  assert (W : wf (init [97%N] None false)) by (unfold wf; cbn; lia).
  specialize (H ref_witness_cfg (fun _ => None) 10 ref_tag_witness (init [97%N] None false) (@sempty (list byte)) W
                (@inv_empty (list byte)) eq_refl).
  revert H. apply exec_refines_ref_refuted_witness.
Qed.

(* ---------- the two readings of `sequence` ---------- *)
Section Readings.
Variable cfg : config.
Variable E : env.

(* (a) they coincide exactly on programs that never call tag_node *)
Theorem readings_agree_notag : notag_env E -> forall fuel p r, notag p = true ->
  rexec_gen Documented cfg E fuel p r = rexec_gen TagLeak cfg E fuel p r.
Proof.
  intros HE. induction fuel as [|fuel IH]; intros p r NT; [reflexivity|].
  destruct p as [o|rule p|p|p|p|p|positive p|a0 p|p|p|p1 p2|p1 p2|p1 p2|f]; cbn [rexec_gen]; cbn [notag] in NT.
  - reflexivity.
  - destruct (remits r); rewrite IH by exact NT; reflexivity.
  - rewrite (IH p r NT).
    pose proof (rexec_qext TagLeak cfg E true (fun _ => HE) fuel p r (fun _ => NT)) as QX.
    destruct (rexec_gen TagLeak cfg E fuel p r) as [r'|r'|k|]; try reflexivity. f_equal.
    destruct (qext_strict _ _ QX) as (new & ->). rewrite vtruncate_app by reflexivity. destruct r; reflexivity.
  - now apply IH.
  - rewrite (IH p r NT). destruct (rexec_gen TagLeak cfg E fuel p r); try reflexivity. now apply IH.
  - rewrite (IH p r NT). reflexivity.
  - rewrite IH by exact NT. reflexivity.
  - rewrite IH by exact NT. reflexivity.
  - rewrite (IH p r NT). reflexivity.
  - rewrite (IH p r NT). reflexivity.
  - apply andb_true_iff in NT. destruct NT as [N1 N2]. rewrite (IH p1 r N1).
    destruct (rexec_gen TagLeak cfg E fuel p1 r); try reflexivity. now apply IH.
  - apply andb_true_iff in NT. destruct NT as [N1 N2]. rewrite (IH p1 r N1).
    destruct (rexec_gen TagLeak cfg E fuel p1 r); try reflexivity. now apply IH.
  - apply andb_true_iff in NT. destruct NT as [N1 N2]. destruct (atom_eqb (r_atom r) NonAtomic); now apply IH.
  - destruct (E f) as [q|] eqn:Ef; [|reflexivity]. apply IH. eapply HE; eauto.
Qed.

(* (b) on all programs they coincide up to the node tags, whatever tags the start states carry *)
Ltac req_solve :=
  unfold req in *;
  cbn [r_input r_pos r_queue r_stack r_look r_atom with_pos with_queue with_stack with_look with_atom] in *;
  intuition congruence.

Lemma req_refl r : req r r. Proof. req_solve. Qed.
Lemma req_sym r1 r2 : req r1 r2 -> req r2 r1. Proof. req_solve. Qed.
Lemma req_trans r1 r2 r3 : req r1 r2 -> req r2 r3 -> req r1 r3. Proof. req_solve. Qed.

Lemma rmoved_req r1 r2 x : req r1 r2 -> rreq (rmoved r1 x) (rmoved r2 x).
Proof. intros H. destruct x; cbn [rmoved rreq]; auto. req_solve. Qed.

Lemma rprim_req o r1 r2 : req r1 r2 -> rreq (rprim cfg o r1) (rprim cfg o r2).
Proof.
  intros H. pose proof H as (Hi & Hp & Hq & Hs & Hl & Ha).
  destruct o; cbn [rprim]; cbv zeta; rewrite ?Hi, ?Hp, ?Hs, ?Hl; try (apply rmoved_req; exact H); try exact H.
  - destruct (skip_until _ _ _ _); cbn [rreq]; auto. req_solve.
  - destruct (Nat.eqb _ _); exact H.
  - destruct (Nat.eqb _ _); exact H.
  - cbn [rreq]. req_solve.
  - destruct (r_stack r2); [reflexivity|apply rmoved_req; exact H].
  - destruct (r_stack r2); [reflexivity|]. apply rmoved_req. req_solve.
  - destruct (r_stack r2); cbn [rreq]; [exact H|req_solve].
  - destruct (match_all _ _ _); cbn [rreq]; [req_solve|exact H].
  - destruct (rmatch_pop _ _ _) as [[rest p] ok]. destruct ok; cbn [rreq]; req_solve.
  - unfold rpeek_slice. rewrite Hs, Hi, Hp. destruct (constrain_idxs _ _ _) as [[x y]|]; [|exact H].
    destruct (Nat.leb y x); [exact H|]. cbv zeta. destruct (match_all _ _ _); cbn [rreq]; [req_solve|exact H].
  - destruct (r_look r2) eqn:El2; try exact H. revert Hq.
    destruct (r_queue r1) as [|[e1 p1|s1 rl1 tg1 p1] q1] eqn:E1, (r_queue r2) as [|[e2 p2|s2 rl2 tg2 p2] q2] eqn:E2;
      cbn [map untag_tok]; intros Hq; try discriminate Hq; try exact H.
    injection Hq as -> -> -> Hq. cbn [rreq]. unfold req. cbn. repeat split; auto; congruence.
Qed.

Lemma close_rule_req rule q0 q0' p0 q' q'' pe :
  map untag_tok q0 = map untag_tok q0' -> map untag_tok q' = map untag_tok q'' ->
  map untag_tok (close_rule rule q0 p0 q' pe) = map untag_tok (close_rule rule q0' p0 q'' pe).
Proof.
  intros H0 H1.
  assert (L0 : length q0 = length q0') by (apply (f_equal (@length _)) in H0; now rewrite !map_length in H0).
  assert (L1 : length q' = length q'') by (apply (f_equal (@length _)) in H1; now rewrite !map_length in H1).
  unfold close_rule. cbv zeta. cbn [map untag_tok]. rewrite !map_app. cbn [map untag_tok].
  rewrite <- !firstn_map. rewrite H0, H1, L0, L1. reflexivity.
Qed.

Lemma seq_err_req rd r q' : qext false (r_queue r) q' ->
  req (match rd with Documented => r | TagLeak => with_queue r (vtruncate (length (r_queue r)) q') end) r.
Proof.
  intros QX. destruct rd; [apply req_refl|].
  pose proof (qext_untag _ _ _ QX) as U. unfold req. cbn. repeat split; auto.
Qed.

Theorem rexec_req rd1 rd2 : forall fuel p r1 r2, req r1 r2 ->
  rreq (rexec_gen rd1 cfg E fuel p r1) (rexec_gen rd2 cfg E fuel p r2).
Proof.
  induction fuel as [|fuel IH]; intros p r1 r2 H; [exact I|].
  pose proof H as (Hi & Hp & Hq & Hs & Hl & Ha).
  destruct p as [o|rule p|p|p|p|p|positive p|a0 p|p|p|p1 p2|p1 p2|p1 p2|f]; cbn [rexec_gen].
  - now apply rprim_req.
  - (* PRule *)
    assert (Em : remits r1 = remits r2) by (unfold remits; now rewrite Hl, Ha). rewrite Em.
    destruct (remits r2); [|now apply IH].
    assert (H2 : req (with_queue r1 (QStart 0 (r_pos r1) :: r_queue r1)) (with_queue r2 (QStart 0 (r_pos r2) :: r_queue r2))).
    { unfold req. cbn. rewrite Hp, Hq. repeat split; auto. }
    pose proof (IH p _ _ H2) as H1.
    destruct (rexec_gen rd1 cfg E fuel p _) as [x|x|k|], (rexec_gen rd2 cfg E fuel p _) as [y|y|k'|];
      cbn [rreq] in *; try contradiction; auto.
    + destruct H1 as (Xi & Xp & Xq & Xs & Xl & Xa). unfold req. cbn. rewrite Xp, Hp.
      repeat split; auto. now apply close_rule_req.
    + destruct H1 as (Xi & Xp & Xq & Xs & Xl & Xa). unfold req. cbn. repeat split; auto.
  - (* PSequence *)
    pose proof (IH p r1 r2 H) as H1.
    pose proof (rexec_qext rd1 cfg E false (fun h => False_ind _ (Bool.diff_false_true h)) fuel p r1
                  (fun h => False_ind _ (Bool.diff_false_true h))) as Q1.
    pose proof (rexec_qext rd2 cfg E false (fun h => False_ind _ (Bool.diff_false_true h)) fuel p r2
                  (fun h => False_ind _ (Bool.diff_false_true h))) as Q2.
    destruct (rexec_gen rd1 cfg E fuel p r1) as [x|x|k|], (rexec_gen rd2 cfg E fuel p r2) as [y|y|k'|];
      cbn [rreq] in *; try contradiction; auto.
    eapply req_trans; [apply seq_err_req; exact Q1|]. eapply req_trans; [exact H|]. apply req_sym, seq_err_req. exact Q2.
  - (* PRepeat *) now apply IH.
  - (* PRepeatLoop *)
    pose proof (IH p r1 r2 H) as H1.
    destruct (rexec_gen rd1 cfg E fuel p r1) as [x|x|k|], (rexec_gen rd2 cfg E fuel p r2) as [y|y|k'|];
      cbn [rreq] in *; try contradiction; auto.
  - (* POptional *)
    pose proof (IH p r1 r2 H) as H1.
    destruct (rexec_gen rd1 cfg E fuel p r1) as [x|x|k|], (rexec_gen rd2 cfg E fuel p r2) as [y|y|k'|];
      cbn [rreq] in *; try contradiction; auto.
  - (* PLookahead *)
    assert (H2 : req (with_look r1 (enter_lookahead positive (r_look r1))) (with_look r2 (enter_lookahead positive (r_look r2))))
      by (rewrite Hl; req_solve).
    pose proof (IH p _ _ H2) as H1.
    destruct (rexec_gen rd1 cfg E fuel p _) as [x|x|k|], (rexec_gen rd2 cfg E fuel p _) as [y|y|k'|];
      cbn [rreq] in *; try contradiction; auto; destruct positive; exact H.
  - (* PAtomic *)
    assert (H2 : req (with_atom r1 a0) (with_atom r2 a0)) by req_solve.
    pose proof (IH p _ _ H2) as H1.
    destruct (rexec_gen rd1 cfg E fuel p _) as [x|x|k|], (rexec_gen rd2 cfg E fuel p _) as [y|y|k'|];
      cbn [rreq] in *; try contradiction; auto; rewrite Ha; req_solve.
  - (* PStackPush *)
    pose proof (IH p r1 r2 H) as H1.
    destruct (rexec_gen rd1 cfg E fuel p r1) as [x|x|k|], (rexec_gen rd2 cfg E fuel p r2) as [y|y|k'|];
      cbn [rreq] in *; try contradiction; auto.
    destruct H1 as (Xi & Xp & Xq & Xs & Xl & Xa). rewrite Xi, Xp, Xs, Hp. unfold req. cbn. repeat split; auto.
  - (* PRestoreOnErr *)
    pose proof (IH p r1 r2 H) as H1.
    destruct (rexec_gen rd1 cfg E fuel p r1) as [x|x|k|], (rexec_gen rd2 cfg E fuel p r2) as [y|y|k'|];
      cbn [rreq] in *; try contradiction; auto. rewrite Hs. req_solve.
  - (* PAndThen *)
    pose proof (IH p1 r1 r2 H) as H1.
    destruct (rexec_gen rd1 cfg E fuel p1 r1) as [x|x|k|], (rexec_gen rd2 cfg E fuel p1 r2) as [y|y|k'|];
      cbn [rreq] in *; try contradiction; auto.
  - (* POrElse *)
    pose proof (IH p1 r1 r2 H) as H1.
    destruct (rexec_gen rd1 cfg E fuel p1 r1) as [x|x|k|], (rexec_gen rd2 cfg E fuel p1 r2) as [y|y|k'|];
      cbn [rreq] in *; try contradiction; auto.
  - (* PIfNonAtomic *) rewrite Ha. destruct (atom_eqb (r_atom r2) NonAtomic); now apply IH.
  - (* PCall *) destruct (E f) as [q|]; [now apply IH|reflexivity].
Qed.

End Readings.

(* ---------- corollaries: the code against the documented reading ---------- *)
(* exact, for every program that never calls tag_node (closures included) *)
Theorem exec_refines_ref_notag cfg E fuel p s a :
  notag_env E -> notag p = true -> wf s -> Inv (stack s) a -> limit s = None ->
  abs_res (exec cfg E fuel p s) = rexec cfg E fuel p (abs s).
Proof.
  intros HE NT W I L. unfold rexec. rewrite (readings_agree_notag cfg E HE fuel p (abs s) NT).
  now apply exec_refines_tagleak with (a := a).
Qed.

(* every program, up to the node tags of the tokens *)
Theorem exec_refines_ref_untag cfg E fuel p s a :
  wf s -> Inv (stack s) a -> limit s = None ->
  rreq (abs_res (exec cfg E fuel p s)) (rexec cfg E fuel p (abs s)).
Proof.
  intros W I L. rewrite (exec_refines_tagleak cfg E fuel p s a W I L). apply rexec_req. apply req_refl.
Qed.

(* from the initial state of a parse (no call limit, either setting of the error-detail switch) *)
Lemma abs_init inp lim detail : abs (init inp lim detail) = rinit inp.
Proof. reflexivity. Qed.

Corollary exec_refines_tagleak_init cfg E fuel p inp detail :
  abs_res (run_state cfg E fuel p inp None detail) = rexec_gen TagLeak cfg E fuel p (rinit inp).
Proof.
  unfold run_state. destruct (init_wf_inv inp None detail) as [W I].
  rewrite (exec_refines_tagleak cfg E fuel p _ _ W I eq_refl). reflexivity.
Qed.

Corollary exec_refines_ref_init cfg E fuel p inp detail :
  notag_env E -> notag p = true ->
  abs_res (run_state cfg E fuel p inp None detail) = rexec cfg E fuel p (rinit inp).
Proof.
  intros HE NT. unfold run_state. destruct (init_wf_inv inp None detail) as [W I].
  rewrite (exec_refines_ref_notag cfg E fuel p _ _ HE NT W I eq_refl). reflexivity.
Qed.

Corollary exec_refines_ref_untag_init cfg E fuel p inp detail :
  rreq (abs_res (run_state cfg E fuel p inp None detail)) (rexec cfg E fuel p (rinit inp)).
Proof.
  unfold run_state. destruct (init_wf_inv inp None detail) as [W I].
  apply (exec_refines_ref_untag cfg E fuel p _ _ W I eq_refl).
Qed.

(* with and without the memchr-accelerated search (hypotheses of Utf8c.exec_cfg_eq): the
   reference outcome does not depend on the feature, and the code built WITH memchr (repaired
   three-string arm) refines the reference that uses the plain loop *)
Theorem ref_independent_of_memchr cfg1 cfg2 E fuel p s a :
  cfg_ok cfg1 -> cfg_ok cfg2 -> env_valid E -> prog_valid p ->
  wf s -> Inv (stack s) a -> utf8_ok s -> limit s = None ->
  rexec_gen TagLeak cfg1 E fuel p (abs s) = rexec_gen TagLeak cfg2 E fuel p (abs s).
Proof.
  intros H1 H2 HE Vp W I U L.
  rewrite <- (exec_refines_tagleak cfg1 E fuel p s a W I L), <- (exec_refines_tagleak cfg2 E fuel p s a W I L).
  f_equal. now apply (exec_cfg_eq cfg1 cfg2 E H1 H2 HE fuel p s a).
Qed.

Theorem ref_independent_of_memchr_doc cfg1 cfg2 E fuel p s a :
  cfg_ok cfg1 -> cfg_ok cfg2 -> env_valid E -> prog_valid p -> notag_env E -> notag p = true ->
  wf s -> Inv (stack s) a -> utf8_ok s -> limit s = None ->
  rexec cfg1 E fuel p (abs s) = rexec cfg2 E fuel p (abs s).
Proof.
  intros H1 H2 HE Vp NE NT W I U L. unfold rexec. rewrite !(readings_agree_notag _ E NE fuel p (abs s) NT).
  now apply ref_independent_of_memchr with (a := a).
Qed.

Corollary exec_memchr_refines_plain_ref E fuel p s a l1 l2 f2 :
  env_valid E -> prog_valid p -> wf s -> Inv (stack s) a -> utf8_ok s -> limit s = None ->
  abs_res (exec {| memchr := true; fixed3 := true; fixedlim := l1 |} E fuel p s) =
  rexec_gen TagLeak {| memchr := false; fixed3 := f2; fixedlim := l2 |} E fuel p (abs s).
Proof.
  intros HE Vp W I U L. rewrite (exec_memchr_eq_basic E fuel p s a l1 l2 f2 HE Vp W I U).
  now apply exec_refines_tagleak with (a := a).
Qed.

(* ---------- non-vacuity ----------
   repeat( sequence( stack_push( rule(1, "a") ; tag_node(7) ) ; "b" ) )  on "ababac":
   two full iterations, then a third one in which rule 1 matches, emits, is tagged and pushed
   before "b" fails: the sequence rolls everything back and the repeat succeeds.
   Both interpreters (the code with error detail and the memchr feature on) agree, also with the
   fully documented reading, and the outcome has tokens, tags, a stack and a moved position.   *)
Definition ref_example_prog : prog :=
  PRepeat (PSequence (PAndThen
     (PStackPush (PAndThen (PRule 1 (PPrim (MMatchString [97%N]))) (PPrim (MTagNode 7))))
     (PPrim (MMatchString [98%N])))).
Definition ref_example_input : list byte := [97; 98; 97; 98; 97; 99]%N.

Example ref_example_agree :
  let E : env := fun _ => None in
  let x := exec ref_witness_cfg E 30 ref_example_prog (init ref_example_input None true) in
  abs_res x = rexec ref_witness_cfg E 30 ref_example_prog (rinit ref_example_input) /\
  abs_res x = rexec_gen TagLeak ref_witness_cfg E 30 ref_example_prog (rinit ref_example_input) /\
  abs_res x = RROk {| r_input := ref_example_input; r_pos := 4;
                      r_queue := [QEnd 2 1 (Some 7) 3; QStart 3 2; QEnd 0 1 (Some 7) 1; QStart 1 0];
                      r_stack := [[97%N]; [97%N]]; r_look := LNone; r_atom := NonAtomic |} /\
  (* the model really went through snapshots and bookkeeping that abs forgets *)
  match x with ROk s => popped (stack s) = [] /\ lengths (stack s) = [] /\ max_position s = 5 /\ expected s = [TSens [98%N]] | _ => False end.
Proof. vm_compute. repeat split; reflexivity. Qed.

(* the failing third iteration alone, from the state after two iterations: position, tokens
   and stack had really moved before the roll-back *)
Example ref_example_third_iteration :
  let E : env := fun _ => None in
  let body := PAndThen (PStackPush (PAndThen (PRule 1 (PPrim (MMatchString [97%N]))) (PPrim (MTagNode 7))))
                       (PPrim (MMatchString [98%N])) in
  let r := {| r_input := ref_example_input; r_pos := 4;
              r_queue := [QEnd 2 1 (Some 7) 3; QStart 3 2; QEnd 0 1 (Some 7) 1; QStart 1 0];
              r_stack := [[97%N]; [97%N]]; r_look := LNone; r_atom := NonAtomic |} in
  match rexec ref_witness_cfg E 10 body r with
  | RRErr r' => r_pos r' = 5 /\ length (r_queue r') = 6 /\ length (r_stack r') = 3
  | _ => False
  end /\ rexec ref_witness_cfg E 11 (PSequence body) r = RRErr r.
Proof. vm_compute. repeat split; reflexivity. Qed.
