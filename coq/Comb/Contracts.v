(* Layer C proofs, part 2: the documented contracts of the combinators (C03), as corollaries of
   the frame theorem: failed sequences and look-aheads restore position, tokens and stack;
   nothing is emitted under look-ahead; the rule contract.                                  *)
From Coq Require Import List Arith NArith ZArith Bool Lia.
Import ListNotations.
Require Import PV.Stack.Model PV.Stack.Proofs PV.Comb.PState PV.Comb.Bytes PV.Comb.Prog PV.Comb.Exec PV.Comb.Frame.

Arguments Nat.sub : simpl never.
Arguments Nat.ltb : simpl never.
Arguments Nat.leb : simpl never.
Arguments Nat.eqb : simpl never.
Arguments skipn : simpl never.
Arguments firstn : simpl never.

Ltac dsq SQ :=
  pose proof (q_input _ _ SQ) as q_input0; pose proof (q_pos _ _ SQ) as q_pos0; pose proof (q_la _ _ SQ) as q_la0;
  pose proof (q_at _ _ SQ) as q_at0; pose proof (q_stack _ _ SQ) as q_stack0; pose proof (q_calls _ _ SQ) as q_calls0;
  pose proof (q_lim _ _ SQ) as q_lim0; pose proof (q_en _ _ SQ) as q_en0; pose proof (q_cs _ _ SQ) as q_cs0;
  pose proof (q_mp _ _ SQ) as q_mp0.
Ltac dtr T :=
  pose proof (t_input _ _ T) as t_input0; pose proof (t_pos _ _ T) as t_pos0; pose proof (t_queue _ _ T) as t_queue0;
  pose proof (t_la _ _ T) as t_la0; pose proof (t_at _ _ T) as t_at0; pose proof (t_stack _ _ T) as t_stack0;
  pose proof (t_calls _ _ T) as t_calls0; pose proof (t_lim _ _ T) as t_lim0; pose proof (t_en _ _ T) as t_en0;
  pose proof (t_cs _ _ T) as t_cs0; pose proof (t_mp _ _ T) as t_mp0.

Lemma try_add_rule_to_stack_core s r c m y : try_add_rule_to_stack s r c m = Some y -> same_core s y.
Proof.
  unfold try_add_rule_to_stack. destruct (negb (atom_eqb (atomicity s) Atomic)); [|intros [= <-]; apply same_core_refl].
  unfold try_add_new_stack_rule. destruct (Nat.ltb (length (call_stacks s)) _); [discriminate|].
  match goal with |- context [if Nat.leb ?c ?d then _ else _] => destruct (Nat.leb c d) end; intros [= <-]; split; reflexivity.
Qed.

Section Contracts.
Variable cfg : config.
Variable E : env.

(* what "exactly as they were" means for position, tokens (up to node tags, see the tag
   witness below) and stack contents *)
Definition restored (s s' : pst) : Prop :=
  pos s' = pos s /\ untagq (queue s') = untagq (queue s) /\ cache (stack s') = cache (stack s) /\
  lookahead s' = lookahead s /\ atomicity s' = atomicity s /\ input s' = input s.

Lemma inv_cache (st : stk (list byte)) (a : sspec) : Inv st a -> cache st = cur a.
Proof. intros [H _]. exact H. Qed.

Theorem sequence_err_restores fuel p s a s' :
  wf s -> Inv (stack s) a -> exec cfg E fuel (PSequence p) s = RErr s' -> restored s s'.
Proof.
  intros W I. destruct fuel as [|fuel]; [discriminate|]. cbn [exec].
  destruct (inc_call s) as [s1|] eqn:Ei.
  2:{ intros [= <-]. repeat split; reflexivity. }
  destruct (inc_call_frame _ _ Ei) as (F1 & St & Po & Qu & In & _).
  assert (W1 : wf (checkpoint s1)) by (unfold wf in *; cbn; congruence).
  assert (I1 : Inv (stack (checkpoint s1)) (ssnapshot a)) by (cbn; rewrite St; now apply inv_snapshot).
  pose proof (exec_post cfg E fuel p (checkpoint s1) (ssnapshot a) W1 I1) as P.
  destruct (exec cfg E fuel p (checkpoint s1)) as [s2|s2|k|]; try discriminate.
  - (* body Ok: the sequence cannot return Err *)
    cbn in P. destruct P as (F & W2 & a2 & I2 & S2). unfold checkpoint_ok.
    destruct (inv_clear I2) as (st & Ec & _). rewrite Ec. discriminate.
  - cbn in P. destruct P as (F & W2 & a2 & I2 & S2). unfold restore_st. cbn [stack set_queue set_pos].
    destruct (inv_restore I2) as (st & Er & I3). rewrite Er. cbn [option_map lift]. intros [= <-].
    destruct F as [f_input0 f_la0 f_at0 f_lim0 f_en0 f_calls0 f_pos0 f_mp0 f_cs0 f_queue0]. cbn in *.
    repeat split; cbn; try congruence.
    + destruct f_queue0 as [new Eq]. rewrite <- Qu. eapply untagq_truncate_back; eauto.
    + rewrite (inv_cache _ _ I3). unfold srestore. rewrite S2. cbn. symmetry. apply inv_cache. exact I.
    + destruct F1 as [g1 g2 g3 g4 g5 g6 g7 g8 g9 g10]. congruence.
    + destruct F1 as [g1 g2 g3 g4 g5 g6 g7 g8 g9 g10]. congruence.
Qed.

(* under look-ahead nothing touches the queue, not even a node tag *)
Lemma exec_prim_quiet o s s' : lookahead s <> LNone ->
  (exec_prim cfg o s = ROk s' \/ exec_prim cfg o s = RErr s') -> queue s' = queue s.
Proof.
  intros L H.
  assert (HP : forall s0 r t x, (apply_pres s0 r t = ROk x \/ apply_pres s0 r t = RErr x) -> queue x = queue s0).
  { intros s0 r t x. unfold apply_pres. destruct r as [p| |].
    - destruct t as [tk|]; [destruct (pa_enabled s0)|]; intros [[= <-]|Hx]; try discriminate; try reflexivity.
      destruct (handle_token_core (set_pos s0 p) (pos s0) tk true) as [C _].
      change (queue (handle_token_parse_result (set_pos s0 p) (pos s0) tk true) = queue s0). rewrite (c_queue _ _ C). reflexivity.
    - destruct t as [tk|]; [destruct (pa_enabled s0)|]; intros [Hx|[= <-]]; try discriminate; try reflexivity.
      destruct (handle_token_core s0 (pos s0) tk false) as [C _].
      change (queue (handle_token_parse_result s0 (pos s0) tk false) = queue s0). rewrite (c_queue _ _ C). reflexivity.
    - intros [Hx|Hx]; discriminate. }
  assert (HS : forall s0 str x, (st_match_string s0 str = ROk x \/ st_match_string s0 str = RErr x) -> queue x = queue s0)
    by (intros; eapply HP; eauto).
  assert (HK : forall i j d, (peek_slice s i j d = ROk s' \/ peek_slice s i j d = RErr s') -> queue s' = queue s).
  { intros i j d. unfold peek_slice. destruct (constrain_idxs _ _ _) as [[x y]|]; [|intros [Hx|[= <-]]; try discriminate; auto].
    destruct (Nat.leb y x); [intros [[= <-]|Hx]; try discriminate; auto|].
    destruct (match_all _ _ _); intros [Hx|Hx]; inversion Hx; subst; auto. }
  destruct o; cbn [exec_prim] in H; try (eapply HP; eassumption); try (eapply HS; eassumption); try (eapply HK; eassumption).
  - destruct H as [[= <-]|H]; [reflexivity|discriminate].
  - destruct H as [H|[= <-]]; [discriminate|reflexivity].
  - destruct (skip_until cfg (input s) (pos s) ss); destruct H as [H|H]; inversion H; subst; reflexivity.
  - destruct (Nat.eqb (pos s) 0); destruct H as [H|H]; inversion H; subst; reflexivity.
  - destruct (Nat.eqb (pos s) (length (input s))); destruct H as [H|H]; inversion H; subst; reflexivity.
  - destruct H as [[= <-]|H]; [reflexivity|discriminate].
  - destruct (peek (stack s)); [eapply HS; eassumption|destruct H; discriminate].
  - destruct (pop (stack s)) as [st [x|]]; [|destruct H; discriminate]. apply HS in H. exact H.
  - destruct (pop (stack s)) as [st [x|]]; destruct H as [H|H]; inversion H; subst; reflexivity.
  - destruct (match_pop_loop _ _ _ _) as [[[st p] [|]]|]; destruct H as [H|H]; inversion H; subst; reflexivity.
  - destruct (lookahead s); try congruence; cbn in H; destruct H as [H|H]; inversion H; subst; reflexivity.
Qed.

Lemma track_queue s r p pai nai prev : queue (track s r p pai nai prev) = queue s.
Proof. destruct (track_same s r p pai nai prev). auto. Qed.

Lemma exec_quiet : forall fuel p s a s', wf s -> Inv (stack s) a -> lookahead s <> LNone ->
  (exec cfg E fuel p s = ROk s' \/ exec cfg E fuel p s = RErr s') -> queue s' = queue s.
Proof.
  induction fuel as [|fuel IH]; intros p s a s' W I L H; [destruct H; discriminate|].
  (* generic step: run a sub-program from a state with the same queue and a non-None lookahead *)
  assert (STEP : forall q s0 a0 x, wf s0 -> Inv (stack s0) a0 -> lookahead s0 <> LNone ->
            (exec cfg E fuel q s0 = ROk x \/ exec cfg E fuel q s0 = RErr x) ->
            queue x = queue s0 /\ wf x /\ lookahead x = lookahead s0 /\ exists a1, Inv (stack x) a1).
  { intros q s0 a0 x W0 I0 L0 H0. split; [eapply IH; eauto|].
    pose proof (exec_post cfg E fuel q s0 a0 W0 I0) as P.
    destruct H0 as [H0|H0]; rewrite H0 in P; cbn in P; destruct P as (F & Wx & ax & Ix & _); destruct F as [f_input0 f_la0 f_at0 f_lim0 f_en0 f_calls0 f_pos0 f_mp0 f_cs0 f_queue0]; repeat split; auto; eauto. }
  destruct p; cbn [exec] in H.
  - eapply exec_prim_quiet; eauto.
  - (* PRule: does not emit under look-ahead *)
    destruct (inc_call s) as [s1|] eqn:Ei; [|destruct H as [H|[= <-]]; [discriminate|reflexivity]].
    destruct (inc_call_frame _ _ Ei) as (F1 & St & Po & Qu & In & _). destruct F1 as [f_input0 f_la0 f_at0 f_lim0 f_en0 f_calls0 f_pos0 f_mp0 f_cs0 f_queue0].
    destruct (rule_enter s1) as [fr s2] eqn:Er.
    assert (Hs2 : s2 = snd (rule_enter s1)) by now rewrite Er.
    destruct (rule_enter_spec s1) as (_ & _ & _ & _ & Q & SQ). rewrite <- Hs2 in SQ, Q. dsq SQ.
    assert (Em : emits s1 = false). { unfold emits. rewrite f_la0. destruct (lookahead s); try congruence; reflexivity. }
    rewrite Em in Q.
    assert (W2 : wf s2) by (unfold wf in *; congruence).
    assert (I2 : Inv (stack s2) a) by (rewrite q_stack0, St; exact I).
    assert (L2 : lookahead s2 <> LNone) by congruence.
    destruct (exec cfg E fuel p s2) as [x|x|k|] eqn:Ex; try (destruct H; discriminate).
    + destruct (STEP p s2 a x W2 I2 L2 (or_introl Ex)) as (Qx & Wx & Lx & ax & Ix).
      unfold rule_ok in H.
      set (sa := if lk_eqb (lookahead x) LNeg then track x r (rf_pos fr) (rf_pai fr) (rf_nai fr) (rf_attempts fr) else x) in *.
      assert (T : same_but_attempts x sa) by (unfold sa; destruct (lk_eqb (lookahead x) LNeg); [apply track_same|split; reflexivity]).
      dtr T.
      assert (Ema : emits sa = false). { unfold emits. rewrite t_la0, Lx, q_la0, f_la0. destruct (lookahead s); try congruence; reflexivity. }
      rewrite Ema in H.
      destruct (pa_enabled sa).
      * destruct (try_add_rule_to_stack sa r (rf_csn fr) (rf_max fr)) as [y|] eqn:Ey; cbn in H; [|destruct H; discriminate].
        apply try_add_rule_to_stack_core in Ey. pose proof (c_queue _ _ Ey). destruct H as [H|H]; inversion H; subst. congruence.
      * destruct H as [H|H]; inversion H; subst. congruence.
    + destruct (STEP p s2 a x W2 I2 L2 (or_intror Ex)) as (Qx & Wx & Lx & ax & Ix).
      unfold rule_err in H.
      destruct (negb (lk_eqb (lookahead x) LNeg)).
      * set (t := track x r (rf_pos fr) (rf_pai fr) (rf_nai fr) (rf_attempts fr)) in *.
        pose proof (track_same x r (rf_pos fr) (rf_pai fr) (rf_nai fr) (rf_attempts fr)) as T. fold t in T. dtr T.
        assert (Emt : forall y, queue y = queue t -> lookahead y = lookahead t -> atomicity y = atomicity t ->
                   queue (if emits y then set_queue y (vtruncate (rf_index fr) (queue y)) else y) = queue s).
        { intros y Qy Ly Ay. assert (emits y = false) as ->; [|congruence].
          unfold emits. rewrite Ly, t_la0, Lx, q_la0, f_la0. destruct (lookahead s); try congruence; reflexivity. }
        destruct (pa_enabled t).
        -- destruct (try_add_rule_to_stack t r (rf_csn fr) (rf_max fr)) as [y|] eqn:Ey; [|destruct H; discriminate].
           apply try_add_rule_to_stack_core in Ey.
           pose proof (Emt y (c_queue _ _ Ey) (c_la _ _ Ey) (c_at _ _ Ey)) as Q1.
           destruct H as [H|H]; inversion H; subst. exact Q1.
        -- pose proof (Emt t eq_refl eq_refl eq_refl) as Q1. destruct H as [H|H]; inversion H; subst. exact Q1.
      * assert (emits x = false) as Hem.
        { unfold emits. rewrite Lx, q_la0, f_la0. destruct (lookahead s); try congruence; reflexivity. }
        rewrite Hem in H. destruct H as [H|H]; inversion H; subst. congruence.
  - (* PSequence *)
    destruct (inc_call s) as [s1|] eqn:Ei; [|destruct H as [H|[= <-]]; [discriminate|reflexivity]].
    destruct (inc_call_frame _ _ Ei) as (F1 & St & Po & Qu & In & _). destruct F1 as [f_input0 f_la0 f_at0 f_lim0 f_en0 f_calls0 f_pos0 f_mp0 f_cs0 f_queue0].
    assert (W1 : wf (checkpoint s1)) by (unfold wf in *; cbn; congruence).
    assert (I1 : Inv (stack (checkpoint s1)) (ssnapshot a)) by (cbn; rewrite St; now apply inv_snapshot).
    assert (L1 : lookahead (checkpoint s1) <> LNone) by (cbn; congruence).
    destruct (exec cfg E fuel p (checkpoint s1)) as [x|x|k|] eqn:Ex; try (destruct H; discriminate).
    + destruct (STEP p _ _ x W1 I1 L1 (or_introl Ex)) as (Qx & _). unfold checkpoint_ok in H.
      destruct (clear_snapshot (stack x)); cbn in H; destruct H as [H|H]; inversion H; subst. cbn in *. congruence.
    + destruct (STEP p _ _ x W1 I1 L1 (or_intror Ex)) as (Qx & _). unfold restore_st in H. cbn [stack set_queue set_pos] in H.
      destruct (restore (stack x)); cbn in H; destruct H as [H|H]; inversion H; subst. cbn in *.
      rewrite Qx. rewrite <- Qu. unfold vtruncate. rewrite Nat.ltb_irrefl. reflexivity.
  - (* PRepeat *)
    destruct (inc_call s) as [s1|] eqn:Ei; [|destruct H as [H|[= <-]]; [discriminate|reflexivity]].
    destruct (inc_call_frame _ _ Ei) as (F1 & St & Po & Qu & In & _). destruct F1 as [f_input0 f_la0 f_at0 f_lim0 f_en0 f_calls0 f_pos0 f_mp0 f_cs0 f_queue0].
    rewrite <- Qu. eapply IH; eauto; [unfold wf in *; congruence|rewrite St; exact I|congruence].
  - (* PRepeatLoop *)
    destruct (exec cfg E fuel p s) as [x|x|k|] eqn:Ex; try (destruct H; discriminate).
    + destruct (STEP p s a x W I L (or_introl Ex)) as (Qx & Wx & Lx & ax & Ix).
      rewrite <- Qx. eapply IH; eauto. congruence.
    + destruct (STEP p s a x W I L (or_intror Ex)) as (Qx & _). destruct H as [H|H]; inversion H; subst; exact Qx.
  - (* POptional *)
    destruct (inc_call s) as [s1|] eqn:Ei; [|destruct H as [H|[= <-]]; [discriminate|reflexivity]].
    destruct (inc_call_frame _ _ Ei) as (F1 & St & Po & Qu & In & _). destruct F1 as [f_input0 f_la0 f_at0 f_lim0 f_en0 f_calls0 f_pos0 f_mp0 f_cs0 f_queue0].
    assert (W1 : wf s1) by (unfold wf in *; congruence). assert (I1 : Inv (stack s1) a) by (rewrite St; exact I).
    assert (L1 : lookahead s1 <> LNone) by congruence.
    destruct (exec cfg E fuel p s1) as [x|x|k|] eqn:Ex; try (destruct H; discriminate).
    + destruct (STEP p s1 a x W1 I1 L1 (or_introl Ex)) as (Qx & _). destruct H as [H|H]; inversion H; subst; congruence.
    + destruct (STEP p s1 a x W1 I1 L1 (or_intror Ex)) as (Qx & _). destruct H as [H|H]; inversion H; subst; congruence.
  - (* PLookahead *)
    destruct (inc_call s) as [s1|] eqn:Ei; [|destruct H as [H|[= <-]]; [discriminate|reflexivity]].
    destruct (inc_call_frame _ _ Ei) as (F1 & St & Po & Qu & In & _). destruct F1 as [f_input0 f_la0 f_at0 f_lim0 f_en0 f_calls0 f_pos0 f_mp0 f_cs0 f_queue0].
    set (s2 := set_lookahead s1 (enter_lookahead positive (lookahead s1))) in *.
    assert (W2 : wf (checkpoint s2)) by (unfold wf in *; cbn; congruence).
    assert (I2 : Inv (stack (checkpoint s2)) (ssnapshot a)) by (cbn; rewrite St; now apply inv_snapshot).
    assert (L2 : lookahead (checkpoint s2) <> LNone).
    { cbn. rewrite f_la0. destruct positive, (lookahead s); cbn; congruence. }
    destruct (exec cfg E fuel p (checkpoint s2)) as [x|x|k|] eqn:Ex; try (destruct H; discriminate).
    + destruct (STEP p _ _ x W2 I2 L2 (or_introl Ex)) as (Qx & _). unfold restore_st in H. cbn [stack set_lookahead set_pos] in H.
      destruct (restore (stack x)); cbn in H; destruct positive; destruct H as [H|H]; inversion H; subst; cbn in *; congruence.
    + destruct (STEP p _ _ x W2 I2 L2 (or_intror Ex)) as (Qx & _). unfold restore_st in H. cbn [stack set_lookahead set_pos] in H.
      destruct (restore (stack x)); cbn in H; destruct positive; destruct H as [H|H]; inversion H; subst; cbn in *; congruence.
  - (* PAtomic *)
    destruct (inc_call s) as [s1|] eqn:Ei; [|destruct H as [H|[= <-]]; [discriminate|reflexivity]].
    destruct (inc_call_frame _ _ Ei) as (F1 & St & Po & Qu & In & _). destruct F1 as [f_input0 f_la0 f_at0 f_lim0 f_en0 f_calls0 f_pos0 f_mp0 f_cs0 f_queue0].
    set (s2 := if negb (atom_eqb (atomicity s1) a0) then set_atomicity s1 a0 else s1) in *.
    assert (E2 : input s2 = input s1 /\ pos s2 = pos s1 /\ stack s2 = stack s1 /\ queue s2 = queue s1 /\ lookahead s2 = lookahead s1).
    { unfold s2. destruct (negb _); cbn; auto. }
    destruct E2 as (e1 & e2 & e3 & e4 & e5).
    assert (W2 : wf s2) by (unfold wf in *; congruence). assert (I2 : Inv (stack s2) a) by (rewrite e3, St; exact I).
    assert (L2 : lookahead s2 <> LNone) by congruence.
    destruct (exec cfg E fuel p s2) as [x|x|k|] eqn:Ex; try (destruct H; discriminate).
    + destruct (STEP p s2 a x W2 I2 L2 (or_introl Ex)) as (Qx & _).
      destruct (negb (atom_eqb (atomicity s1) a0)); destruct H as [H|H]; inversion H; subst; cbn; congruence.
    + destruct (STEP p s2 a x W2 I2 L2 (or_intror Ex)) as (Qx & _).
      destruct (negb (atom_eqb (atomicity s1) a0)); destruct H as [H|H]; inversion H; subst; cbn; congruence.
  - (* PStackPush *)
    destruct (inc_call s) as [s1|] eqn:Ei; [|destruct H as [H|[= <-]]; [discriminate|reflexivity]].
    destruct (inc_call_frame _ _ Ei) as (F1 & St & Po & Qu & In & _). destruct F1 as [f_input0 f_la0 f_at0 f_lim0 f_en0 f_calls0 f_pos0 f_mp0 f_cs0 f_queue0].
    assert (W1 : wf s1) by (unfold wf in *; congruence). assert (I1 : Inv (stack s1) a) by (rewrite St; exact I).
    assert (L1 : lookahead s1 <> LNone) by congruence.
    destruct (exec cfg E fuel p s1) as [x|x|k|] eqn:Ex; try (destruct H; discriminate).
    + destruct (STEP p s1 a x W1 I1 L1 (or_introl Ex)) as (Qx & _).
      destruct (Nat.ltb (pos x) (pos s1)); destruct H as [H|H]; inversion H; subst; cbn; congruence.
    + destruct (STEP p s1 a x W1 I1 L1 (or_intror Ex)) as (Qx & _). destruct H as [H|H]; inversion H; subst; congruence.
  - (* PRestoreOnErr *)
    assert (I1 : Inv (stack (checkpoint s)) (ssnapshot a)) by (cbn; now apply inv_snapshot).
    assert (L1 : lookahead (checkpoint s) <> LNone) by exact L.
    assert (W1 : wf (checkpoint s)) by exact W.
    destruct (exec cfg E fuel p (checkpoint s)) as [x|x|k|] eqn:Ex; try (destruct H; discriminate).
    + destruct (STEP p _ _ x W1 I1 L1 (or_introl Ex)) as (Qx & _). unfold checkpoint_ok in H.
      destruct (clear_snapshot (stack x)); cbn in H; destruct H as [H|H]; inversion H; subst; cbn in *; congruence.
    + destruct (STEP p _ _ x W1 I1 L1 (or_intror Ex)) as (Qx & _). unfold restore_st in H.
      destruct (restore (stack x)); cbn in H; destruct H as [H|H]; inversion H; subst; cbn in *; congruence.
  - (* PAndThen *)
    destruct (exec cfg E fuel p1 s) as [x|x|k|] eqn:Ex; try (destruct H; discriminate).
    + destruct (STEP p1 s a x W I L (or_introl Ex)) as (Qx & Wx & Lx & ax & Ix). rewrite <- Qx. eapply IH; eauto. congruence.
    + destruct (STEP p1 s a x W I L (or_intror Ex)) as (Qx & _). destruct H as [H|H]; inversion H; subst; exact Qx.
  - (* POrElse *)
    destruct (exec cfg E fuel p1 s) as [x|x|k|] eqn:Ex; try (destruct H; discriminate).
    + destruct (STEP p1 s a x W I L (or_introl Ex)) as (Qx & _). destruct H as [H|H]; inversion H; subst; exact Qx.
    + destruct (STEP p1 s a x W I L (or_intror Ex)) as (Qx & Wx & Lx & ax & Ix). rewrite <- Qx. eapply IH; eauto. congruence.
  - destruct (atom_eqb (atomicity s) NonAtomic); eapply IH; eauto.
  - destruct (E f); [eapply IH; eauto|destruct H; discriminate].
Qed.

(* any look-ahead, whether it succeeds or fails, leaves position, tokens (exactly) and stack as they were *)
Theorem lookahead_restores fuel b p s a s' :
  wf s -> Inv (stack s) a ->
  (exec cfg E fuel (PLookahead b p) s = ROk s' \/ exec cfg E fuel (PLookahead b p) s = RErr s') ->
  restored s s' /\ queue s' = queue s.
Proof.
  intros W I H. destruct fuel as [|fuel]; [destruct H; discriminate|]. cbn [exec] in H.
  destruct (inc_call s) as [s1|] eqn:Ei.
  2:{ destruct H as [H|[= <-]]; [discriminate|]. repeat split; reflexivity. }
  destruct (inc_call_frame _ _ Ei) as (F1 & St & Po & Qu & In & _).
  destruct F1 as [g1 g2 g3 g4 g5 g6 g7 g8 g9 g10].
  set (s2 := set_lookahead s1 (enter_lookahead b (lookahead s1))) in *.
  assert (W2 : wf (checkpoint s2)) by (unfold wf in *; cbn; congruence).
  assert (I2 : Inv (stack (checkpoint s2)) (ssnapshot a)) by (cbn; rewrite St; now apply inv_snapshot).
  assert (L2 : lookahead (checkpoint s2) <> LNone).
  { cbn. destruct b, (lookahead s1); cbn; congruence. }
  pose proof (exec_post cfg E fuel p (checkpoint s2) (ssnapshot a) W2 I2) as P.
  assert (FIN : forall x (k : pst -> res), (forall y, k y = ROk y \/ k y = RErr y) ->
            (exec cfg E fuel p (checkpoint s2) = ROk x \/ exec cfg E fuel p (checkpoint s2) = RErr x) ->
            (lift k (restore_st (set_lookahead (set_pos x (pos s1)) (lookahead s1))) = ROk s' \/
             lift k (restore_st (set_lookahead (set_pos x (pos s1)) (lookahead s1))) = RErr s') ->
            restored s s' /\ queue s' = queue s).
  { intros x k kk Hx Hk.
    pose proof (exec_quiet fuel p (checkpoint s2) (ssnapshot a) x W2 I2 L2 Hx) as Qx.
    assert (Px : frame (checkpoint s2) x /\ exists a2, Inv (stack x) a2 /\ snaps a2 = snaps (ssnapshot a)).
    { destruct Hx as [Hx|Hx]; rewrite Hx in P; cbn in P; destruct P as (F & _ & a2 & I3 & S3); eauto. }
    destruct Px as (F & a2 & I3 & S3).
    destruct F as [f_input0 f_la0 f_at0 f_lim0 f_en0 f_calls0 f_pos0 f_mp0 f_cs0 f_queue0].
    unfold restore_st in Hk. cbn [stack set_lookahead set_pos] in Hk.
    destruct (inv_restore I3) as (st & Er & I4). rewrite Er in Hk. cbn [option_map lift] in Hk.
    assert (s' = set_stack (set_lookahead (set_pos x (pos s1)) (lookahead s1)) st) as ->.
    { destruct (kk (set_stack (set_lookahead (set_pos x (pos s1)) (lookahead s1)) st)) as [K|K]; rewrite K in Hk;
        destruct Hk as [Hk|Hk]; congruence. }
    cbn in *. repeat split; cbn; try congruence.
    { unfold untagq. congruence. }
    rewrite (inv_cache _ _ I4). unfold srestore. rewrite S3. cbn. symmetry. apply inv_cache. exact I. }
  destruct (exec cfg E fuel p (checkpoint s2)) as [x|x|k|] eqn:Ex; try (destruct H; discriminate).
  - apply (FIN x (fun y => if b then ROk y else RErr y)); auto. intros y; destruct b; auto.
  - apply (FIN x (fun y => if b then RErr y else ROk y)); auto. intros y; destruct b; auto.
Qed.

(* ---------- the rule contract ---------- *)
(* rule(r, f): with s2 the state handed to the body (s after counting the call and, when the rule
   emits, pushing its Start token) and rb the body's result:
     - the rule succeeds iff the body does, fails iff the body fails;
     - if it emits (outside look-ahead and atomic mode) and succeeds, the queue afterwards is
       [old tokens] Start(-> index of End, pos s) [body tokens] End(-> index of Start, r, pos s');
     - if it emits and fails, the queue is the old one;
     - if it does not emit, the queue is whatever the body left (the rule adds nothing).        *)
Theorem rule_contract fuel r p s a :
  wf s -> Inv (stack s) a -> limit_reached s = false ->
  exists s2, queue s2 = (if emits s then QStart 0 (pos s) :: queue s else queue s) /\ pos s2 = pos s /\
  match exec cfg E fuel p s2, exec cfg E (S fuel) (PRule r p) s with
  | ROk sb, ROk s' =>
      pos s' = pos sb /\
      (if emits s
       then exists body, untagq (queue sb) = body ++ QStart 0 (pos s) :: untagq (queue s) /\
                         untagq (queue s') = QEnd (length (queue s)) r None (pos s') :: body ++
                                            QStart (S (length body + length (queue s))) (pos s) :: untagq (queue s)
       else queue s' = queue sb)
  | RErr sb, RErr s' =>
      pos s' = pos sb /\ (if emits s then untagq (queue s') = untagq (queue s) else queue s' = queue sb)
  | RPanic k, RPanic k' => k = k'
  | ROutOfFuel, ROutOfFuel => True
  | _, _ => False
  end.
Proof.
  intros W I LR. cbn [exec]. unfold inc_call. rewrite LR.
  set (s1 := match limit s with Some _ => set_calls s (S (calls s)) | None => s end).
  assert (E1 : input s1 = input s /\ pos s1 = pos s /\ queue s1 = queue s /\ stack s1 = stack s /\ emits s1 = emits s).
  { unfold s1. destruct (limit s); cbn; auto. }
  destruct E1 as (e1 & e2 & e3 & e4 & e5).
  replace (match limit s with Some _ => Some (set_calls s (S (calls s))) | None => Some s end) with (Some s1)
    by (unfold s1; destruct (limit s); reflexivity).
  destruct (rule_enter s1) as [fr s2] eqn:Er.
  assert (Hfr : fr = fst (rule_enter s1)) by now rewrite Er. assert (Hs2 : s2 = snd (rule_enter s1)) by now rewrite Er.
  destruct (rule_enter_spec s1) as (Rp & Ri & Rc & Rm & Q & SQ). rewrite <- Hs2 in SQ, Q. rewrite <- Hfr in Rp, Ri, Rc, Rm. dsq SQ.
  exists s2. split; [rewrite Q, e5, e2, e3; reflexivity|]. split; [congruence|].
  assert (W2 : wf s2) by (unfold wf in *; congruence).
  assert (I2 : Inv (stack s2) a) by (rewrite q_stack0, e4; exact I).
  pose proof (exec_post cfg E fuel p s2 a W2 I2) as P.
  destruct (exec cfg E fuel p s2) as [sb|sb|k|] eqn:Eb; auto.
  - (* body Ok *)
    cbn in P. destruct P as (F & Wb & ab & Ib & Sb).
    pose proof (rule_ok_post r s1 sb a ab Wb) as PO. rewrite <- Hs2, <- Hfr in PO. specialize (PO F Ib Sb).
    destruct F as [f_input0 f_la0 f_at0 f_lim0 f_en0 f_calls0 f_pos0 f_mp0 f_cs0 f_queue0].
    unfold rule_ok in *.
    set (sa := if lk_eqb (lookahead sb) LNeg then track sb r (rf_pos fr) (rf_pai fr) (rf_nai fr) (rf_attempts fr) else sb) in *.
    assert (T : same_but_attempts sb sa) by (unfold sa; destruct (lk_eqb (lookahead sb) LNeg); [apply track_same|split; reflexivity]).
    dtr T.
    assert (Em : emits sa = emits s). { unfold emits. rewrite t_la0, t_at0, f_la0, f_at0, q_la0, q_at0. exact e5. }
    rewrite Em in *.
    destruct (emits s) eqn:Ee.
    + destruct f_queue0 as [body Eq]. rewrite Q, e5 in Eq. cbn [untagq map untag] in Eq. fold (untagq (queue s1)) in Eq.
      rewrite <- t_queue0 in Eq.
      destruct (set_start_end_ok (queue sa) body 0 (pos s1) (untagq (queue s1)) (length (queue sa)) Eq) as (q' & E1 & E2 & E3).
      rewrite untagq_length in E1. rewrite Ri in *. rewrite E1 in *.
      assert (LQ : length (queue sa) = S (length body + length (queue s))).
      { rewrite <- (untagq_length (queue sa)), Eq, app_length. cbn [length]. rewrite untagq_length, e3. lia. }
      set (sb' := set_queue sa (QEnd (length (queue s1)) r None (pos sa) :: q')) in *.
      assert (FIN : forall y, same_core sb' y -> pos y = pos sb /\
                 exists body0, untagq (queue sb) = body0 ++ QStart 0 (pos s) :: untagq (queue s) /\
                   untagq (queue y) = QEnd (length (queue s)) r None (pos y) :: body0 ++
                       QStart (S (length body0 + length (queue s))) (pos s) :: untagq (queue s)).
      { intros y C. pose proof (c_queue _ _ C) as cq. pose proof (c_pos _ _ C) as cp. cbn in cq, cp.
        split; [congruence|]. exists body. split; [rewrite <- t_queue0, Eq, e2, e3; reflexivity|].
        rewrite cq. cbn. fold (untagq q'). rewrite E2, LQ, cp, e2, e3. reflexivity. }
      change (pa_enabled sb') with (pa_enabled sa) in *.
      destruct (pa_enabled sa).
      * destruct (try_add_rule_to_stack sb' r (rf_csn fr) (rf_max fr)) as [y|] eqn:Ey; cbn [lift] in *.
        -- apply FIN. eapply try_add_rule_to_stack_core; eauto.
        -- cbn in PO. congruence.
      * apply FIN. apply same_core_refl.
    + destruct (pa_enabled sa).
      * destruct (try_add_rule_to_stack sa r (rf_csn fr) (rf_max fr)) as [y|] eqn:Ey; cbn [lift] in *.
        -- apply try_add_rule_to_stack_core in Ey. pose proof (c_queue _ _ Ey). pose proof (c_pos _ _ Ey). split; congruence.
        -- cbn in PO. congruence.
      * split; congruence.
  - (* body Err *)
    cbn in P. destruct P as (F & Wb & ab & Ib & Sb).
    pose proof (rule_err_post r s1 sb a ab Wb) as PO. rewrite <- Hs2, <- Hfr in PO. specialize (PO F Ib Sb).
    destruct F as [f_input0 f_la0 f_at0 f_lim0 f_en0 f_calls0 f_pos0 f_mp0 f_cs0 f_queue0].
    unfold rule_err in *.
    assert (FIN : forall y, queue y = queue sb -> pos y = pos sb -> lookahead y = lookahead sb -> atomicity y = atomicity sb ->
              let z := (if emits y then set_queue y (vtruncate (rf_index fr) (queue y)) else y) in
              pos z = pos sb /\ (if emits s then untagq (queue z) = untagq (queue s) else queue z = queue sb)).
    { intros y Qy Py Ly Ay. assert (Em : emits y = emits s).
      { unfold emits. rewrite Ly, Ay, f_la0, f_at0, q_la0, q_at0. exact e5. }
      cbv zeta. rewrite Em. destruct (emits s) eqn:Ee; cbn; [|split; congruence]. split; [congruence|].
      destruct f_queue0 as [body Eq]. rewrite Q, e5 in Eq. cbn [untagq map untag] in Eq. fold (untagq (queue s1)) in Eq.
      rewrite Qy, Ri, <- e3.
      apply (untagq_truncate_back (queue s1) (queue sb) (length (queue s1)) (body ++ [QStart 0 (pos s1)])); auto.
      rewrite Eq, <- app_assoc. reflexivity. }
    destruct (negb (lk_eqb (lookahead sb) LNeg)).
    + set (t := track sb r (rf_pos fr) (rf_pai fr) (rf_nai fr) (rf_attempts fr)) in *.
      pose proof (track_same sb r (rf_pos fr) (rf_pai fr) (rf_nai fr) (rf_attempts fr)) as T. fold t in T. dtr T.
      destruct (pa_enabled t).
      * destruct (try_add_rule_to_stack t r (rf_csn fr) (rf_max fr)) as [y|] eqn:Ey.
        -- apply try_add_rule_to_stack_core in Ey.
           apply (FIN y); [rewrite (c_queue _ _ Ey)|rewrite (c_pos _ _ Ey)|rewrite (c_la _ _ Ey)|rewrite (c_at _ _ Ey)]; congruence.
        -- cbn in PO. congruence.
      * apply (FIN t); congruence.
    + apply (FIN sb); reflexivity.
Qed.

End Contracts.
