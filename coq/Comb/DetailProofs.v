(* Layer C, C15 part 2: proofs.
   exec_erase: for EVERY program, state and fuel, running on the erased state gives the erased result
   (the core never reads the detail fields; the detail bookkeeping never panics because the number of
   call stacks remembered by rule() is <= the current number unless max_position grew).            *)
From Coq Require Import List Arith NArith ZArith Bool Lia.
Import ListNotations.
Require Import PV.Stack.Model PV.Stack.Proofs PV.Comb.PState PV.Comb.Bytes PV.Comb.Prog PV.Comb.Exec PV.Comb.Frame PV.Comb.Detail.

Arguments Nat.sub : simpl never.
Arguments Nat.ltb : simpl never.
Arguments Nat.leb : simpl never.
Arguments Nat.eqb : simpl never.
Arguments skipn : simpl never.
Arguments firstn : simpl never.

(* ---------- the detail order: switch and input constant, (max_position, #call_stacks) monotone ---------- *)
Definition dle (s s' : pst) : Prop :=
  pa_enabled s' = pa_enabled s /\ pa_mono s s' /\ input s' = input s.
Definition dpost (s : pst) (r : res) : Prop := res_all (dle s) r.

Lemma dle_refl s : dle s s.
Proof. split; [reflexivity|split; [apply pa_mono_refl|reflexivity]]. Qed.

Lemma pa_mono_trans a b c : pa_mono a b -> pa_mono b c -> pa_mono a c.
Proof. unfold pa_mono. intros [H1 H2] [H3 H4]. split; [lia|]. intros H. assert (max_position b = max_position a) by lia.
  assert (max_position c = max_position b) by lia. specialize (H2 H0). specialize (H4 H5). lia. Qed.

Lemma dle_trans a b c : dle a b -> dle b c -> dle a c.
Proof. intros (A1 & A2 & A3) (B1 & B2 & B3). split; [congruence|split; [eapply pa_mono_trans; eauto|congruence]]. Qed.

(* two states with the same five detail-relevant observations *)
Definition dsame (s s' : pst) : Prop :=
  pa_enabled s' = pa_enabled s /\ max_position s' = max_position s /\ call_stacks s' = call_stacks s /\ input s' = input s.
Lemma dsame_dle s s' : dsame s s' -> dle s s'.
Proof. intros (A & B & C & D). split; [auto|split; [|auto]]. split; [lia|]. intros _. rewrite C. lia. Qed.
Lemma dle_dsame_r a b c : dle a b -> dsame b c -> dle a c.
Proof. intros H1 H2. apply (dle_trans a b c); [exact H1|now apply dsame_dle]. Qed.
Lemma dle_dsame_l a b c : dsame a b -> dle b c -> dle a c.
Proof. intros H1 H2. apply (dle_trans a b c); [now apply dsame_dle|exact H2]. Qed.

Lemma same_core_erase s s' : same_core s s' -> erase_detail s' = erase_detail s.
Proof. intros []. unfold erase_detail. congruence. Qed.

Lemma same_core_dle s s' : same_core s s' -> pa_mono s s' -> dle s s'.
Proof. intros [] M. split; [auto|split; auto]. Qed.

Lemma map_res_dpost s r : dpost s r -> forall s', r = ROk s' \/ r = RErr s' -> dle s s'.
Proof. intros D s' [-> | ->]; exact D. Qed.

(* ---------- erase commutes with the core helpers ---------- *)
Lemma inc_call_erase s : inc_call (erase_detail s) = option_map erase_detail (inc_call s).
Proof.
  unfold inc_call, limit_reached. cbn [erase_detail limit calls].
  destruct (limit s) as [l|]; [destruct (Nat.leb l (calls s))|]; reflexivity.
Qed.

Lemma inc_call_dsame s s1 : inc_call s = Some s1 -> dsame s s1.
Proof.
  unfold inc_call. destruct (limit_reached s); [discriminate|].
  destruct (limit s); intros [= <-]; repeat split.
Qed.

Lemma track_erase s r p a b c : track (erase_detail s) r p a b c = erase_detail (track s r p a b c).
Proof.
  unfold track, attempts_at. cbn [erase_detail atomicity attempt_pos pos_attempts neg_attempts lookahead].
  destruct (atom_eqb (atomicity s) Atomic); [reflexivity|].
  destruct (_ && _); [reflexivity|].
  destruct (Nat.eqb p (attempt_pos s)) eqn:E1; cbn; destruct (Nat.ltb (attempt_pos s) p) eqn:E2; cbn;
    try rewrite E1; try rewrite Nat.eqb_refl; cbn; destruct (lk_eqb (lookahead s) LNeg); reflexivity.
Qed.

Lemma track_dsame s r p a b c : dsame s (track s r p a b c).
Proof. destruct (track_same s r p a b c). repeat split; auto. Qed.

Lemma emits_erase s : emits (erase_detail s) = emits s.
Proof. reflexivity. Qed.

Lemma rule_enter_erase s :
  snd (rule_enter (erase_detail s)) = erase_detail (snd (rule_enter s)) /\
  fr_core_eq (fst (rule_enter s)) (fst (rule_enter (erase_detail s))).
Proof.
  unfold rule_enter, fr_core_eq. cbn [erase_detail pos attempt_pos pos_attempts neg_attempts queue].
  rewrite emits_erase.
  destruct (Nat.eqb (pos s) (attempt_pos s)); destruct (emits s); cbn; repeat split; reflexivity.
Qed.

Lemma rule_enter_dsame s : dsame s (snd (rule_enter s)).
Proof. destruct (rule_enter_spec s) as (_ & _ & _ & _ & _ & []). repeat split; auto. Qed.

(* ---------- primitives ---------- *)
Lemma handle_token_erase x sp tk b :
  erase_detail (handle_token_parse_result x sp tk b) = erase_detail x /\ dle x (handle_token_parse_result x sp tk b).
Proof.
  destruct (handle_token_core x sp tk b) as [C M]. split; [now apply same_core_erase|now apply same_core_dle].
Qed.

Lemma dsame_set_pos s p : dsame s (set_pos s p).
Proof. repeat split. Qed.
Lemma dsame_set_stack s st : dsame s (set_stack s st).
Proof. repeat split. Qed.
Lemma dsame_set_queue s q : dsame s (set_queue s q).
Proof. repeat split. Qed.
Lemma dsame_set_lookahead s l : dsame s (set_lookahead s l).
Proof. repeat split. Qed.
Lemma dsame_set_atomicity s a : dsame s (set_atomicity s a).
Proof. repeat split. Qed.
Lemma dsame_refl s : dsame s s.
Proof. repeat split. Qed.
Lemma dsame_trans a b c : dsame a b -> dsame b c -> dsame a c.
Proof. intros (A1 & A2 & A3 & A4) (B1 & B2 & B3 & B4). repeat split; congruence. Qed.

Lemma apply_pres_erase s r t :
  map_res erase_detail (apply_pres s r t) = apply_pres (erase_detail s) r t /\ dpost s (apply_pres s r t).
Proof.
  unfold apply_pres. cbn [erase_detail pa_enabled pos]. destruct r as [p| |]; cbn [map_res dpost res_all].
  - destruct t as [tk|]; [destruct (pa_enabled s)|].
    + destruct (handle_token_erase (set_pos s p) (pos s) tk true) as [H1 H2]. rewrite H1. split; [reflexivity|].
      apply (dle_dsame_l s (set_pos s p)); [apply dsame_set_pos|exact H2].
    + split; [reflexivity|apply dsame_dle, dsame_set_pos].
    + split; [reflexivity|apply dsame_dle, dsame_set_pos].
  - destruct t as [tk|]; [destruct (pa_enabled s)|].
    + destruct (handle_token_erase s (pos s) tk false) as [H1 H2]. rewrite H1. split; [reflexivity|exact H2].
    + split; [reflexivity|apply dle_refl].
    + split; [reflexivity|apply dle_refl].
  - split; [reflexivity|exact I].
Qed.

Lemma dpost_dsame_l a b r : dsame a b -> dpost b r -> dpost a r.
Proof. intros H. destruct r; cbn; auto; intros D; eapply dle_dsame_l; eauto. Qed.

Lemma peek_slice_erase s i j d :
  map_res erase_detail (peek_slice s i j d) = peek_slice (erase_detail s) i j d /\ dpost s (peek_slice s i j d).
Proof.
  unfold peek_slice. cbn [erase_detail stack input pos].
  destruct (constrain_idxs i j (length (cache (stack s)))) as [[a b]|]; [|split; [reflexivity|apply dle_refl]].
  destruct (Nat.leb b a); [split; [reflexivity|apply dle_refl]|].
  destruct (match_all _ _ _); (split; [reflexivity|]); [apply dsame_dle, dsame_set_pos|apply dle_refl].
Qed.

Lemma exec_prim_erase cfg o s :
  map_res erase_detail (exec_prim cfg o s) = exec_prim cfg o (erase_detail s) /\ dpost s (exec_prim cfg o s).
Proof.
  destruct o; cbn [exec_prim]; unfold st_match_string; cbn [erase_detail input pos stack lookahead queue];
    try apply apply_pres_erase; try apply peek_slice_erase;
    try (split; [reflexivity|apply dle_refl]).
  - (* skip_until *) destruct (skip_until cfg (input s) (pos s) ss); (split; [reflexivity|]); [apply dsame_dle, dsame_set_pos|exact I].
  - (* soi *) destruct (Nat.eqb (pos s) 0); (split; [reflexivity|apply dle_refl]).
  - (* eoi *) destruct (Nat.eqb (pos s) (length (input s))); (split; [reflexivity|apply dle_refl]).
  - (* push literal *) split; [reflexivity|apply dsame_dle, dsame_set_stack].
  - (* peek *) destruct (peek (stack s)); [apply apply_pres_erase|split; [reflexivity|exact I]].
  - (* pop *) destruct (pop (stack s)) as [st' [str|]]; [|split; [reflexivity|exact I]].
    destruct (apply_pres_erase (set_stack s st') (match_string (input s) (pos s) str) (Some (TSens str))) as [H1 H2].
    split; [exact H1|]. eapply dpost_dsame_l; [apply dsame_set_stack|exact H2].
  - (* drop *) destruct (pop (stack s)) as [st' [str|]]; (split; [reflexivity|]); [apply dsame_dle, dsame_set_stack|apply dle_refl].
  - (* match_pop *) destruct (match_pop_loop _ _ _ _) as [[[st' p] [|]]|]; (split; [reflexivity|]); cbn.
    + apply dsame_dle. repeat split.
    + apply dsame_dle. repeat split.
    + exact I.
  - (* tag *) destruct (negb (lk_eqb (lookahead s) LNone)); [split; [reflexivity|apply dle_refl]|].
    destruct (queue s) as [|[e p|si r tg p] q]; (split; [reflexivity|]); try apply dle_refl.
    apply dsame_dle, dsame_set_queue.
Qed.

(* ---------- rule(): the remembered call-stack count is safe, the core of the exit path ignores the detail ---------- *)
Definition csn_cond (fr : rule_frame) (s : pst) : Prop :=
  (if Nat.ltb (rf_max fr) (max_position s) then 0 else rf_csn fr) <= length (call_stacks s).

(* what rule_ok / rule_err guarantee about the detail fields of their result *)
Definition rule_exit (fr : rule_frame) (s' : pst) (r : res) : Prop :=
  res_all (fun x => pa_enabled x = pa_enabled s' /\ max_position x = max_position s' /\ input x = input s' /\ csn_cond fr x) r.

Lemma try_add_rule_to_stack_good s rule fr : csn_cond fr s ->
  exists s3, try_add_rule_to_stack s rule (rf_csn fr) (rf_max fr) = Some s3 /\ erase_detail s3 = erase_detail s /\
             pa_enabled s3 = pa_enabled s /\ max_position s3 = max_position s /\ input s3 = input s /\ csn_cond fr s3.
Proof.
  intros H. destruct (try_add_rule_to_stack_ok s rule (rf_csn fr) (rf_max fr) H) as (s3 & E & C & M & K).
  exists s3. split; [exact E|]. split; [now apply same_core_erase|]. destruct C.
  split; [auto|]. split; [auto|]. split; [auto|]. unfold csn_cond. rewrite M. exact K.
Qed.

Lemma rule_ok_erase rule fr fr' s' : fr_core_eq fr fr' -> csn_cond fr s' ->
  map_res erase_detail (rule_ok rule fr s') = rule_ok rule fr' (erase_detail s') /\ rule_exit fr s' (rule_ok rule fr s').
Proof.
  intros (Ep & Ei & Ea & En & Et) CS. unfold rule_ok. cbn [erase_detail lookahead].
  rewrite <- Ep, <- Ei, <- Ea, <- En, <- Et.
  set (sa := if lk_eqb (lookahead s') LNeg then track s' rule (rf_pos fr) (rf_pai fr) (rf_nai fr) (rf_attempts fr) else s').
  assert (Ha : (if lk_eqb (lookahead s') LNeg then track (erase_detail s') rule (rf_pos fr) (rf_pai fr) (rf_nai fr) (rf_attempts fr)
                else erase_detail s') = erase_detail sa).
  { unfold sa. destruct (lk_eqb (lookahead s') LNeg); [apply track_erase|reflexivity]. }
  rewrite Ha. clear Ha.
  assert (Da : dsame s' sa) by (unfold sa; destruct (lk_eqb (lookahead s') LNeg); [apply track_dsame|apply dsame_refl]).
  destruct Da as (D1 & D2 & D3 & D4).
  assert (CSa : csn_cond fr sa) by (unfold csn_cond in *; rewrite D2, D3; exact CS).
  rewrite emits_erase. cbn [erase_detail queue pos].
  destruct (emits sa).
  - destruct (set_start_end (queue sa) (rf_index fr) (length (queue sa))) as [q|]; [|split; [reflexivity|exact I]].
    set (sb := set_queue sa (QEnd (rf_index fr) rule None (pos sa) :: q)).
    change (set_queue (erase_detail sa) (QEnd (rf_index fr) rule None (pos sa) :: q)) with (erase_detail sb).
    cbn [erase_detail pa_enabled].
    change (pa_enabled sb) with (pa_enabled sa).
    destruct (pa_enabled sa) eqn:En'.
    + destruct (try_add_rule_to_stack_good sb rule fr CSa) as (s3 & E3 & Er & P3 & M3 & I3 & C3).
      rewrite E3. cbn [lift map_res]. rewrite Er. split; [reflexivity|].
      unfold sb in P3, M3, I3. cbn in P3, M3, I3. cbn. repeat split; try congruence; try exact C3.
    + cbn [map_res]. split; [reflexivity|]. cbn. repeat split; try congruence; try exact CSa.
  - cbn [erase_detail pa_enabled]. destruct (pa_enabled sa) eqn:En'.
    + destruct (try_add_rule_to_stack_good sa rule fr CSa) as (s3 & E3 & Er & P3 & M3 & I3 & C3).
      rewrite E3. cbn [lift map_res]. rewrite Er. split; [reflexivity|].
      cbn. repeat split; try congruence; try exact C3.
    + cbn [map_res]. split; [reflexivity|]. cbn. repeat split; try congruence; try exact CSa.
Qed.

Lemma rule_err_erase rule fr fr' s' : fr_core_eq fr fr' -> csn_cond fr s' ->
  map_res erase_detail (rule_err rule fr s') = rule_err rule fr' (erase_detail s') /\ rule_exit fr s' (rule_err rule fr s').
Proof.
  intros (Ep & Ei & Ea & En & Et) CS. unfold rule_err. cbn [erase_detail lookahead].
  rewrite <- Ep, <- Ei, <- Ea, <- En, <- Et. cbv zeta.
  (* the state after the optional tracking step, on both sides *)
  assert (R1 : exists s3,
     (if negb (lk_eqb (lookahead s') LNeg)
      then if pa_enabled (track s' rule (rf_pos fr) (rf_pai fr) (rf_nai fr) (rf_attempts fr))
           then try_add_rule_to_stack (track s' rule (rf_pos fr) (rf_pai fr) (rf_nai fr) (rf_attempts fr)) rule (rf_csn fr) (rf_max fr)
           else Some (track s' rule (rf_pos fr) (rf_pai fr) (rf_nai fr) (rf_attempts fr))
      else Some s') = Some s3 /\
     (if negb (lk_eqb (lookahead s') LNeg)
      then if pa_enabled (track (erase_detail s') rule (rf_pos fr) (rf_pai fr) (rf_nai fr) (rf_attempts fr))
           then try_add_rule_to_stack (track (erase_detail s') rule (rf_pos fr) (rf_pai fr) (rf_nai fr) (rf_attempts fr)) rule (rf_csn fr') (rf_max fr')
           else Some (track (erase_detail s') rule (rf_pos fr) (rf_pai fr) (rf_nai fr) (rf_attempts fr))
      else Some (erase_detail s')) = Some (erase_detail s3) /\
     pa_enabled s3 = pa_enabled s' /\ max_position s3 = max_position s' /\ input s3 = input s' /\ csn_cond fr s3).
  { destruct (negb (lk_eqb (lookahead s') LNeg)).
    - rewrite track_erase. cbn [erase_detail pa_enabled].
      set (t := track s' rule (rf_pos fr) (rf_pai fr) (rf_nai fr) (rf_attempts fr)).
      destruct (track_dsame s' rule (rf_pos fr) (rf_pai fr) (rf_nai fr) (rf_attempts fr)) as (D1 & D2 & D3 & D4). fold t in D1, D2, D3, D4.
      assert (CSt : csn_cond fr t) by (unfold csn_cond in *; rewrite D2, D3; exact CS).
      destruct (pa_enabled t) eqn:En'.
      + destruct (try_add_rule_to_stack_good t rule fr CSt) as (s3 & E3 & Er & P3 & M3 & I3 & C3).
        exists s3. rewrite E3, Er. repeat split; try congruence; try exact C3.
      + exists t. repeat split; try congruence; try exact CSt.
    - exists s'. repeat split; auto. }
  destruct R1 as (s3 & E1 & E2 & P3 & M3 & I3 & C3).
  rewrite E1, E2. cbn [map_res]. rewrite emits_erase. cbn [erase_detail queue].
  destruct (emits s3); (split; [reflexivity|]); cbn; repeat split; try congruence; try exact C3.
Qed.

(* rule(): entry + exit *)
Lemma csn_cond_enter s1 s' :
  dle (snd (rule_enter s1)) s' -> csn_cond (fst (rule_enter s1)) s'.
Proof.
  intros (_ & [M1 M2] & _).
  destruct (rule_enter_spec s1) as (_ & _ & Rc & Rm & _ & _).
  destruct (rule_enter_dsame s1) as (_ & Q2 & Q3 & _).
  unfold csn_cond. rewrite Rc, Rm. rewrite Q2 in M1, M2. rewrite Q3 in M2.
  destruct (Nat.ltb (max_position s1) (max_position s')) eqn:L; [lia|]. apply Nat.ltb_ge in L. apply M2. lia.
Qed.

Lemma rule_exit_dle s1 s' r :
  dle (snd (rule_enter s1)) s' -> rule_exit (fst (rule_enter s1)) s' r -> dpost s1 r.
Proof.
  intros D X.
  assert (G : forall x, pa_enabled x = pa_enabled s' /\ max_position x = max_position s' /\ input x = input s' /\
                        csn_cond (fst (rule_enter s1)) x -> dle s1 x).
  { intros x (P & M & In & C). destruct D as (D1 & [M1 M2] & D3).
    destruct (rule_enter_dsame s1) as (Q1 & Q2 & Q3 & Q4).
    destruct (rule_enter_spec s1) as (_ & _ & Rc & Rm & _ & _).
    unfold csn_cond in C. rewrite Rc, Rm, M in C.
    split; [congruence|]. split; [|congruence]. split; [lia|]. intros Hx.
    destruct (Nat.ltb (max_position s1) (max_position s')) eqn:L; [apply Nat.ltb_lt in L; lia|exact C]. }
  destruct r; cbn in *; auto.
Qed.

(* ---------- checkpoints ---------- *)
Lemma restore_st_erase x : restore_st (erase_detail x) = option_map erase_detail (restore_st x).
Proof. unfold restore_st. cbn [erase_detail stack]. destruct (restore (stack x)); reflexivity. Qed.
Lemma checkpoint_ok_erase x : checkpoint_ok (erase_detail x) = option_map erase_detail (checkpoint_ok x).
Proof. unfold checkpoint_ok. cbn [erase_detail stack]. destruct (clear_snapshot (stack x)); reflexivity. Qed.
Lemma restore_st_dsame y x : restore_st y = Some x -> dsame y x.
Proof. unfold restore_st. destruct (restore (stack y)); cbn; [intros [= <-]; repeat split|discriminate]. Qed.
Lemma checkpoint_ok_dsame y x : checkpoint_ok y = Some x -> dsame y x.
Proof. unfold checkpoint_ok. destruct (clear_snapshot (stack y)); cbn; [intros [= <-]; repeat split|discriminate]. Qed.

(* exit glue: `lift k o` where k tags the state with Ok or Err *)
Lemma lift_erase (k : pst -> res) (o : option pst) (s0 y : pst) :
  (forall x, k x = ROk x) \/ (forall x, k x = RErr x) ->
  (forall x, o = Some x -> dsame y x) -> dle s0 y ->
  map_res erase_detail (lift k o) = lift k (option_map erase_detail o) /\ dpost s0 (lift k o).
Proof.
  intros K H D. destruct o as [x|]; cbn [lift option_map]; [|split; [reflexivity|exact I]].
  specialize (H x eq_refl). destruct K as [K|K]; rewrite !K; cbn; (split; [reflexivity|]); eapply dle_dsame_r; eauto.
Qed.

Section Erase.
Variable cfg : config.
Variable E : env.

Theorem exec_erase : forall fuel p s,
  map_res erase_detail (exec cfg E fuel p s) = exec cfg E fuel p (erase_detail s) /\ dpost s (exec cfg E fuel p s).
Proof.
  induction fuel as [|fuel IH]; intros p s; [split; [reflexivity|exact I]|].
  destruct p; cbn [exec].
  - (* PPrim *) apply exec_prim_erase.
  - (* PRule *)
    rewrite inc_call_erase. destruct (inc_call s) as [s1|] eqn:Ei; cbn [option_map]; [|split; [reflexivity|apply dle_refl]].
    pose proof (inc_call_dsame _ _ Ei) as D1.
    destruct (rule_enter_erase s1) as [Es Ef].
    pose proof (csn_cond_enter s1) as CE. pose proof (rule_exit_dle s1) as RX.
    destruct (rule_enter s1) as [fr s2]. destruct (rule_enter (erase_detail s1)) as [fr' s2'].
    cbn [fst snd] in Es, Ef, CE, RX. subst s2'.
    destruct (IH p s2) as [C D]. rewrite <- C.
    destruct (exec cfg E fuel p s2) as [s'|s'|k|]; cbn [map_res]; cbn in D.
    + destruct (rule_ok_erase r fr fr' s' Ef (CE s' D)) as [H1 H2]. split; [exact H1|].
      eapply dpost_dsame_l; [exact D1|]. eapply RX; eauto.
    + destruct (rule_err_erase r fr fr' s' Ef (CE s' D)) as [H1 H2]. split; [exact H1|].
      eapply dpost_dsame_l; [exact D1|]. eapply RX; eauto.
    + split; [reflexivity|exact I].
    + split; [reflexivity|exact I].
  - (* PSequence *)
    rewrite inc_call_erase. destruct (inc_call s) as [s1|] eqn:Ei; cbn [option_map]; [|split; [reflexivity|apply dle_refl]].
    pose proof (inc_call_dsame _ _ Ei) as D1.
    change (checkpoint (erase_detail s1)) with (erase_detail (checkpoint s1)).
    destruct (IH p (checkpoint s1)) as [C D]. rewrite <- C.
    assert (Dc : dsame s (checkpoint s1)) by (eapply dsame_trans; [exact D1|apply dsame_set_stack]).
    destruct (exec cfg E fuel p (checkpoint s1)) as [s'|s'|k|]; cbn [map_res]; cbn in D.
    + rewrite checkpoint_ok_erase. apply lift_erase with (y := s'); auto.
      * apply checkpoint_ok_dsame.
      * eapply dle_dsame_l; eauto.
    + cbn [erase_detail queue pos].
      change (set_queue (set_pos (erase_detail s') (pos s1)) (vtruncate (length (queue s1)) (queue s')))
        with (erase_detail (set_queue (set_pos s' (pos s1)) (vtruncate (length (queue s1)) (queue s')))).
      rewrite restore_st_erase. apply lift_erase with (y := set_queue (set_pos s' (pos s1)) (vtruncate (length (queue s1)) (queue s'))); auto.
      * apply restore_st_dsame.
      * eapply dle_dsame_l; [exact Dc|]. eapply dle_dsame_r; [exact D|]. repeat split.
    + split; [reflexivity|exact I].
    + split; [reflexivity|exact I].
  - (* PRepeat *)
    rewrite inc_call_erase. destruct (inc_call s) as [s1|] eqn:Ei; cbn [option_map]; [|split; [reflexivity|apply dle_refl]].
    pose proof (inc_call_dsame _ _ Ei) as D1.
    destruct (IH (PRepeatLoop p) s1) as [C D]. split; [exact C|]. eapply dpost_dsame_l; eauto.
  - (* PRepeatLoop *)
    destruct (IH p s) as [C D]. rewrite <- C.
    destruct (exec cfg E fuel p s) as [s'|s'|k|]; cbn [map_res]; cbn in D.
    + destruct (IH (PRepeatLoop p) s') as [C' D']. split; [exact C'|].
      destruct (exec cfg E fuel (PRepeatLoop p) s'); cbn in *; auto; eapply dle_trans; eauto.
    + split; [reflexivity|exact D].
    + split; [reflexivity|exact I].
    + split; [reflexivity|exact I].
  - (* POptional *)
    rewrite inc_call_erase. destruct (inc_call s) as [s1|] eqn:Ei; cbn [option_map]; [|split; [reflexivity|apply dle_refl]].
    pose proof (inc_call_dsame _ _ Ei) as D1.
    destruct (IH p s1) as [C D]. rewrite <- C.
    destruct (exec cfg E fuel p s1) as [s'|s'|k|]; cbn [map_res]; cbn in D; (split; [reflexivity|]); try exact I;
      cbn; eapply dle_dsame_l; eauto.
  - (* PLookahead *)
    rewrite inc_call_erase. destruct (inc_call s) as [s1|] eqn:Ei; cbn [option_map]; [|split; [reflexivity|apply dle_refl]].
    pose proof (inc_call_dsame _ _ Ei) as D1.
    cbn [erase_detail lookahead pos].
    set (s2 := set_lookahead s1 (enter_lookahead positive (lookahead s1))).
    change (checkpoint (set_lookahead (erase_detail s1) (enter_lookahead positive (lookahead s1)))) with (erase_detail (checkpoint s2)).
    destruct (IH p (checkpoint s2)) as [C D]. rewrite <- C.
    assert (Dc : dsame s (checkpoint s2)).
    { eapply dsame_trans; [exact D1|]. eapply dsame_trans; [apply dsame_set_lookahead|apply dsame_set_stack]. }
    destruct (exec cfg E fuel p (checkpoint s2)) as [s'|s'|k|]; cbn [map_res]; cbn in D.
    + change (set_lookahead (set_pos (erase_detail s') (pos s1)) (lookahead s1))
        with (erase_detail (set_lookahead (set_pos s' (pos s1)) (lookahead s1))).
      rewrite restore_st_erase. apply lift_erase with (y := set_lookahead (set_pos s' (pos s1)) (lookahead s1)).
      * destruct positive; [left|right]; reflexivity.
      * apply restore_st_dsame.
      * eapply dle_dsame_l; [exact Dc|]. eapply dle_dsame_r; [exact D|]. repeat split.
    + change (set_lookahead (set_pos (erase_detail s') (pos s1)) (lookahead s1))
        with (erase_detail (set_lookahead (set_pos s' (pos s1)) (lookahead s1))).
      rewrite restore_st_erase. apply lift_erase with (y := set_lookahead (set_pos s' (pos s1)) (lookahead s1)).
      * destruct positive; [right|left]; reflexivity.
      * apply restore_st_dsame.
      * eapply dle_dsame_l; [exact Dc|]. eapply dle_dsame_r; [exact D|]. repeat split.
    + split; [reflexivity|exact I].
    + split; [reflexivity|exact I].
  - (* PAtomic *)
    rewrite inc_call_erase. destruct (inc_call s) as [s1|] eqn:Ei; cbn [option_map]; [|split; [reflexivity|apply dle_refl]].
    pose proof (inc_call_dsame _ _ Ei) as D1.
    cbn [erase_detail atomicity].
    destruct (negb (atom_eqb (atomicity s1) a)).
    + change (set_atomicity (erase_detail s1) a) with (erase_detail (set_atomicity s1 a)).
      destruct (IH p (set_atomicity s1 a)) as [C D]. rewrite <- C.
      assert (Dc : dsame s (set_atomicity s1 a)) by (eapply dsame_trans; [exact D1|apply dsame_set_atomicity]).
      destruct (exec cfg E fuel p (set_atomicity s1 a)) as [s'|s'|k|]; cbn [map_res]; cbn in D; (split; [reflexivity|]); try exact I;
        cbn; (eapply dle_dsame_l; [exact Dc|]); (eapply dle_dsame_r; [exact D|]); repeat split.
    + destruct (IH p s1) as [C D]. rewrite <- C.
      destruct (exec cfg E fuel p s1) as [s'|s'|k|]; cbn [map_res]; cbn in D; (split; [reflexivity|]); try exact I;
        cbn; eapply dle_dsame_l; eauto.
  - (* PStackPush *)
    rewrite inc_call_erase. destruct (inc_call s) as [s1|] eqn:Ei; cbn [option_map]; [|split; [reflexivity|apply dle_refl]].
    pose proof (inc_call_dsame _ _ Ei) as D1.
    destruct (IH p s1) as [C D]. rewrite <- C. cbn [erase_detail pos].
    destruct (exec cfg E fuel p s1) as [s'|s'|k|]; cbn [map_res]; cbn in D.
    + cbn [erase_detail pos stack input]. destruct (Nat.ltb (pos s') (pos s1)); (split; [reflexivity|]); [exact I|].
      cbn. eapply dle_dsame_l; [exact D1|]. eapply dle_dsame_r; [exact D|]. repeat split.
    + split; [reflexivity|]. cbn. eapply dle_dsame_l; eauto.
    + split; [reflexivity|exact I].
    + split; [reflexivity|exact I].
  - (* PRestoreOnErr *)
    change (checkpoint (erase_detail s)) with (erase_detail (checkpoint s)).
    destruct (IH p (checkpoint s)) as [C D]. rewrite <- C.
    assert (Dc : dsame s (checkpoint s)) by apply dsame_set_stack.
    destruct (exec cfg E fuel p (checkpoint s)) as [s'|s'|k|]; cbn [map_res]; cbn in D.
    + rewrite checkpoint_ok_erase.
      apply lift_erase with (y := s'); [left; reflexivity|apply checkpoint_ok_dsame|eapply dle_dsame_l; eauto].
    + rewrite restore_st_erase.
      apply lift_erase with (y := s'); [right; reflexivity|apply restore_st_dsame|eapply dle_dsame_l; eauto].
    + split; [reflexivity|exact I].
    + split; [reflexivity|exact I].
  - (* PAndThen *)
    destruct (IH p1 s) as [C D]. rewrite <- C.
    destruct (exec cfg E fuel p1 s) as [s'|s'|k|]; cbn [map_res]; cbn in D.
    + destruct (IH p2 s') as [C' D']. split; [exact C'|].
      destruct (exec cfg E fuel p2 s'); cbn in *; auto; eapply dle_trans; eauto.
    + split; [reflexivity|exact D].
    + split; [reflexivity|exact I].
    + split; [reflexivity|exact I].
  - (* POrElse *)
    destruct (IH p1 s) as [C D]. rewrite <- C.
    destruct (exec cfg E fuel p1 s) as [s'|s'|k|]; cbn [map_res]; cbn in D.
    + split; [reflexivity|exact D].
    + destruct (IH p2 s') as [C' D']. split; [exact C'|].
      destruct (exec cfg E fuel p2 s'); cbn in *; auto; eapply dle_trans; eauto.
    + split; [reflexivity|exact I].
    + split; [reflexivity|exact I].
  - (* PIfNonAtomic *)
    cbn [erase_detail atomicity]. destruct (atom_eqb (atomicity s) NonAtomic); apply IH.
  - (* PCall *)
    destruct (E f); [apply IH|split; [reflexivity|exact I]].
Qed.

End Erase.

(* ---------- (1) transparency ---------- *)
Theorem detail_transparent cfg E fuel p s :
  map_res erase_detail (exec cfg E fuel p s) = map_res erase_detail (exec cfg E fuel p (set_pa_enabled s false)).
Proof.
  rewrite (proj1 (exec_erase cfg E fuel p s)), (proj1 (exec_erase cfg E fuel p (set_pa_enabled s false))). reflexivity.
Qed.

Lemma outcome_of_erase cfg r : outcome_of cfg (map_res erase_detail r) = outcome_of cfg r.
Proof. destruct r; reflexivity. Qed.

Theorem parse_with_detail_irrelevant cfg E fuel p inp lim :
  parse_with cfg E fuel p inp lim true = parse_with cfg E fuel p inp lim false.
Proof.
  unfold parse_with, run_state.
  rewrite <- (outcome_of_erase cfg (exec cfg E fuel p (init inp lim true))).
  rewrite (proj1 (exec_erase cfg E fuel p (init inp lim true))). reflexivity.
Qed.

(* the same kind of result in both modes: in particular the same panics (none added by the bookkeeping) *)
Theorem detail_same_result_kind cfg E fuel p s :
  match exec cfg E fuel p s, exec cfg E fuel p (set_pa_enabled s false) with
  | ROk a, ROk b | RErr a, RErr b => erase_detail a = erase_detail b
  | RPanic k, RPanic k' => k = k'
  | ROutOfFuel, ROutOfFuel => True
  | _, _ => False
  end.
Proof.
  pose proof (detail_transparent cfg E fuel p s) as H.
  destruct (exec cfg E fuel p s), (exec cfg E fuel p (set_pa_enabled s false)); cbn in H; try discriminate; try congruence; auto.
Qed.

Theorem detail_no_internal_panic cfg E fuel p s a :
  wf s -> Inv (stack s) a -> exec cfg E fuel p s <> RPanic PkInternal.
Proof. intros W I H. pose proof (exec_post cfg E fuel p s a W I) as P. rewrite H in P. cbn in P. congruence. Qed.

(* the final state of a detail-off run carries no attempt information (nothing is recorded) *)
Lemma detail_off_untouched cfg E fuel p s : pa_enabled s = false ->
  res_all (fun s' => pa_enabled s' = false) (exec cfg E fuel p s).
Proof.
  intros H. pose proof (proj2 (exec_erase cfg E fuel p s)) as D.
  destruct (exec cfg E fuel p s); cbn in *; auto; destruct D as (D1 & _); congruence.
Qed.

(* ---------- (2) max_position ---------- *)
Lemma push_token_mp s t neg : max_position (push_token s t neg) = max_position s /\ pos (push_token s t neg) = pos s.
Proof. unfold push_token. destruct neg; split; reflexivity. Qed.

Lemma try_add_new_token_mp s t sp p neg :
  max_position (try_add_new_token s t sp p neg) = max_position s \/ max_position (try_add_new_token s t sp p neg) = p.
Proof.
  unfold try_add_new_token. destruct (Nat.ltb (max_position s) p).
  - destruct (neg && Nat.ltb (max_position s) sp); [left; reflexivity|].
    destruct neg; [left; apply push_token_mp|right; reflexivity].
  - destruct (Nat.eqb p (max_position s)); [left; cbn; apply push_token_mp|left; reflexivity].
Qed.

Lemma handle_token_mp x sp tk b :
  max_position (handle_token_parse_result x sp tk b) = max_position x \/
  max_position (handle_token_parse_result x sp tk b) = pos x.
Proof.
  unfold handle_token_parse_result. destruct b.
  - destruct (lk_eqb (lookahead x) LNeg); [apply try_add_new_token_mp|].
    destruct (Nat.ltb (max_position x) (pos x)); [right; reflexivity|left; reflexivity].
  - destruct (negb (lk_eqb (lookahead x) LNeg)); [apply try_add_new_token_mp|left; reflexivity].
Qed.

Definition mp_step (s : pst) (r : res) : Prop :=
  res_all (fun s' => max_position s' = max_position s \/ max_position s' = pos s') r.

Lemma apply_pres_mp s r t : mp_step s (apply_pres s r t).
Proof.
  unfold apply_pres, mp_step. destruct r as [p| |]; cbn [res_all]; [| |exact I].
  - destruct t as [tk|]; [destruct (pa_enabled s)|]; try (left; reflexivity).
    destruct (handle_token_core (set_pos s p) (pos s) tk true) as [C _]. rewrite (c_pos _ _ C).
    apply (handle_token_mp (set_pos s p) (pos s) tk true).
  - destruct t as [tk|]; [destruct (pa_enabled s)|]; try (left; reflexivity).
    destruct (handle_token_core s (pos s) tk false) as [C _]. rewrite (c_pos _ _ C).
    apply (handle_token_mp s (pos s) tk false).
Qed.

Lemma exec_prim_mp cfg o s : mp_step s (exec_prim cfg o s).
Proof.
  destruct o; cbn [exec_prim]; unfold st_match_string; try apply apply_pres_mp; unfold mp_step.
  - left; reflexivity.
  - left; reflexivity.
  - destruct (skip_until cfg (input s) (pos s) ss); cbn; auto.
  - destruct (Nat.eqb (pos s) 0); left; reflexivity.
  - destruct (Nat.eqb (pos s) (length (input s))); left; reflexivity.
  - left; reflexivity.
  - destruct (peek (stack s)); [apply apply_pres_mp|exact I].
  - destruct (pop (stack s)) as [st' [str|]]; [|exact I].
    apply (apply_pres_mp (set_stack s st')).
  - destruct (pop (stack s)) as [st' [str|]]; left; reflexivity.
  - unfold peek_slice. destruct (constrain_idxs _ _ _) as [[a b]|]; [|left; reflexivity].
    destruct (Nat.leb b a); [left; reflexivity|]. destruct (match_all _ _ _); left; reflexivity.
  - destruct (match_pop_loop _ _ _ _) as [[[st' p] [|]]|]; cbn; auto.
  - unfold peek_slice. destruct (constrain_idxs _ _ _) as [[a b]|]; [|left; reflexivity].
    destruct (Nat.leb b a); [left; reflexivity|]. destruct (match_all _ _ _); left; reflexivity.
  - destruct (negb (lk_eqb (lookahead s) LNone)); [left; reflexivity|].
    destruct (queue s) as [|[e p|si r tg p] q]; left; reflexivity.
Qed.
