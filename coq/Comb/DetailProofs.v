(* Layer C, C15 part 2: proofs.
   exec_erase: for EVERY program, state and fuel, running on the erased state gives the erased result
   (the core never reads the detail fields; the detail bookkeeping never panics because the number of
   call stacks remembered by rule() is <= the current number unless max_position grew).            *)
From Coq Require Import List Arith NArith ZArith Bool Lia.
Import ListNotations.
Require Import PV.Stack.Model PV.Stack.Proofs PV.Comb.PState PV.Comb.Bytes PV.Comb.Prog PV.Comb.Exec PV.Comb.Frame PV.Comb.Detail.

Arguments Nat.sub : simpl never.
Arguments Nat.ltb : simpl never.
Arguments Nat.leb : simpl never.
Arguments Nat.eqb : simpl never.
Arguments skipn : simpl never.
Arguments firstn : simpl never.

(* ---------- the detail order: switch and input constant, (max_position, #call_stacks) monotone ---------- *)
Definition dle (s s' : pst) : Prop :=
  pa_enabled s' = pa_enabled s /\ pa_mono s s' /\ input s' = input s.
Definition dpost (s : pst) (r : res) : Prop := res_all (dle s) r.

Lemma dle_refl s : dle s s.
Proof. split; [reflexivity|split; [apply pa_mono_refl|reflexivity]]. Qed.

Lemma pa_mono_trans a b c : pa_mono a b -> pa_mono b c -> pa_mono a c.
Proof. unfold pa_mono. intros [H1 H2] [H3 H4]. split; [lia|]. intros H. assert (max_position b = max_position a) by lia.
  assert (max_position c = max_position b) by lia. specialize (H2 H0). specialize (H4 H5). lia. Qed.

Lemma dle_trans a b c : dle a b -> dle b c -> dle a c.
Proof. intros (A1 & A2 & A3) (B1 & B2 & B3). split; [congruence|split; [eapply pa_mono_trans; eauto|congruence]]. Qed.

(* two states with the same five detail-relevant observations *)
Definition dsame (s s' : pst) : Prop :=
  pa_enabled s' = pa_enabled s /\ max_position s' = max_position s /\ call_stacks s' = call_stacks s /\ input s' = input s.
Lemma dsame_dle s s' : dsame s s' -> dle s s'.
Proof. intros (A & B & C & D). split; [auto|split; [|auto]]. split; [lia|]. intros _. rewrite C. lia. Qed.
Lemma dle_dsame_r a b c : dle a b -> dsame b c -> dle a c.
Proof. intros H1 H2. apply (dle_trans a b c); [exact H1|now apply dsame_dle]. Qed.
Lemma dle_dsame_l a b c : dsame a b -> dle b c -> dle a c.
Proof. intros H1 H2. apply (dle_trans a b c); [now apply dsame_dle|exact H2]. Qed.

Lemma same_core_erase s s' : same_core s s' -> erase_detail s' = erase_detail s.
Proof. intros []. unfold erase_detail. congruence. Qed.

Lemma same_core_dle s s' : same_core s s' -> pa_mono s s' -> dle s s'.
Proof. intros [] M. split; [auto|split; auto]. Qed.

Lemma map_res_dpost s r : dpost s r -> forall s', r = ROk s' \/ r = RErr s' -> dle s s'.
Proof. intros D s' [-> | ->]; exact D. Qed.

(* ---------- erase commutes with the core helpers ---------- *)
Lemma inc_call_erase s : inc_call (erase_detail s) = option_map erase_detail (inc_call s).
Proof.
  unfold inc_call, limit_reached. cbn [erase_detail limit calls].
  destruct (limit s) as [l|]; [destruct (Nat.leb l (calls s))|]; reflexivity.
Qed.

Lemma inc_call_dsame s s1 : inc_call s = Some s1 -> dsame s s1.
Proof.
  unfold inc_call. destruct (limit_reached s); [discriminate|].
  destruct (limit s); intros [= <-]; repeat split.
Qed.

Lemma track_erase s r p a b c : track (erase_detail s) r p a b c = erase_detail (track s r p a b c).
Proof.
  unfold track, attempts_at. cbn [erase_detail atomicity attempt_pos pos_attempts neg_attempts lookahead].
  destruct (atom_eqb (atomicity s) Atomic); [reflexivity|].
  destruct (_ && _); [reflexivity|].
  destruct (Nat.eqb p (attempt_pos s)) eqn:E1; cbn; destruct (Nat.ltb (attempt_pos s) p) eqn:E2; cbn;
    try rewrite E1; try rewrite Nat.eqb_refl; cbn; destruct (lk_eqb (lookahead s) LNeg); reflexivity.
Qed.

Lemma track_dsame s r p a b c : dsame s (track s r p a b c).
Proof. destruct (track_same s r p a b c). repeat split; auto. Qed.

Lemma emits_erase s : emits (erase_detail s) = emits s.
Proof. reflexivity. Qed.

Lemma rule_enter_erase s :
  snd (rule_enter (erase_detail s)) = erase_detail (snd (rule_enter s)) /\
  fr_core_eq (fst (rule_enter s)) (fst (rule_enter (erase_detail s))).
Proof.
  unfold rule_enter, fr_core_eq. cbn [erase_detail pos attempt_pos pos_attempts neg_attempts queue].
  rewrite emits_erase.
  destruct (Nat.eqb (pos s) (attempt_pos s)); destruct (emits s); cbn; repeat split; reflexivity.
Qed.

Lemma rule_enter_dsame s : dsame s (snd (rule_enter s)).
Proof. destruct (rule_enter_spec s) as (_ & _ & _ & _ & _ & []). repeat split; auto. Qed.

(* ---------- primitives ---------- *)
Lemma handle_token_erase x sp tk b :
  erase_detail (handle_token_parse_result x sp tk b) = erase_detail x /\ dle x (handle_token_parse_result x sp tk b).
Proof.
  destruct (handle_token_core x sp tk b) as [C M]. split; [now apply same_core_erase|now apply same_core_dle].
Qed.

Lemma dsame_set_pos s p : dsame s (set_pos s p).
Proof. repeat split. Qed.
Lemma dsame_set_stack s st : dsame s (set_stack s st).
Proof. repeat split. Qed.
Lemma dsame_set_queue s q : dsame s (set_queue s q).
Proof. repeat split. Qed.
Lemma dsame_set_lookahead s l : dsame s (set_lookahead s l).
Proof. repeat split. Qed.
Lemma dsame_set_atomicity s a : dsame s (set_atomicity s a).
Proof. repeat split. Qed.
Lemma dsame_refl s : dsame s s.
Proof. repeat split. Qed.
Lemma dsame_trans a b c : dsame a b -> dsame b c -> dsame a c.
Proof. intros (A1 & A2 & A3 & A4) (B1 & B2 & B3 & B4). repeat split; congruence. Qed.

Lemma apply_pres_erase s r t :
  map_res erase_detail (apply_pres s r t) = apply_pres (erase_detail s) r t /\ dpost s (apply_pres s r t).
Proof.
  unfold apply_pres. cbn [erase_detail pa_enabled pos]. destruct r as [p| |]; cbn [map_res dpost res_all].
  - destruct t as [tk|]; [destruct (pa_enabled s)|].
    + destruct (handle_token_erase (set_pos s p) (pos s) tk true) as [H1 H2]. rewrite H1. split; [reflexivity|].
      apply (dle_dsame_l s (set_pos s p)); [apply dsame_set_pos|exact H2].
    + split; [reflexivity|apply dsame_dle, dsame_set_pos].
    + split; [reflexivity|apply dsame_dle, dsame_set_pos].
  - destruct t as [tk|]; [destruct (pa_enabled s)|].
    + destruct (handle_token_erase s (pos s) tk false) as [H1 H2]. rewrite H1. split; [reflexivity|exact H2].
    + split; [reflexivity|apply dle_refl].
    + split; [reflexivity|apply dle_refl].
  - split; [reflexivity|exact I].
Qed.

Lemma dpost_dsame_l a b r : dsame a b -> dpost b r -> dpost a r.
Proof. intros H. destruct r; cbn; auto; intros D; eapply dle_dsame_l; eauto. Qed.

Lemma peek_slice_erase s i j d :
  map_res erase_detail (peek_slice s i j d) = peek_slice (erase_detail s) i j d /\ dpost s (peek_slice s i j d).
Proof.
  unfold peek_slice. cbn [erase_detail stack input pos].
  destruct (constrain_idxs i j (length (cache (stack s)))) as [[a b]|]; [|split; [reflexivity|apply dle_refl]].
  destruct (Nat.leb b a); [split; [reflexivity|apply dle_refl]|].
  destruct (match_all _ _ _); (split; [reflexivity|]); [apply dsame_dle, dsame_set_pos|apply dle_refl].
Qed.

Lemma exec_prim_erase cfg o s :
  map_res erase_detail (exec_prim cfg o s) = exec_prim cfg o (erase_detail s) /\ dpost s (exec_prim cfg o s).
Proof.
  destruct o; cbn [exec_prim]; unfold st_match_string; cbn [erase_detail input pos stack lookahead queue];
    try apply apply_pres_erase; try apply peek_slice_erase;
    try (split; [reflexivity|apply dle_refl]).
  - (* skip_until *) destruct (skip_until cfg (input s) (pos s) ss); (split; [reflexivity|]); [apply dsame_dle, dsame_set_pos|exact I].
  - (* soi *) destruct (Nat.eqb (pos s) 0); (split; [reflexivity|apply dle_refl]).
  - (* eoi *) destruct (Nat.eqb (pos s) (length (input s))); (split; [reflexivity|apply dle_refl]).
  - (* push literal *) split; [reflexivity|apply dsame_dle, dsame_set_stack].
  - (* peek *) destruct (peek (stack s)); [apply apply_pres_erase|split; [reflexivity|exact I]].
  - (* pop *) destruct (pop (stack s)) as [st' [str|]]; [|split; [reflexivity|exact I]].
    destruct (apply_pres_erase (set_stack s st') (match_string (input s) (pos s) str) (Some (TSens str))) as [H1 H2].
    split; [exact H1|]. eapply dpost_dsame_l; [apply dsame_set_stack|exact H2].
  - (* drop *) destruct (pop (stack s)) as [st' [str|]]; (split; [reflexivity|]); [apply dsame_dle, dsame_set_stack|apply dle_refl].
  - (* match_pop *) destruct (match_pop_loop _ _ _ _) as [[[st' p] [|]]|]; (split; [reflexivity|]); cbn.
    + apply dsame_dle. repeat split.
    + apply dsame_dle. repeat split.
    + exact I.
  - (* tag *) destruct (negb (lk_eqb (lookahead s) LNone)); [split; [reflexivity|apply dle_refl]|].
    destruct (queue s) as [|[e p|si r tg p] q]; (split; [reflexivity|]); try apply dle_refl.
    apply dsame_dle, dsame_set_queue.
Qed.
