(* Layer C, C15 part 2: proofs.
   exec_erase: for EVERY program, state and fuel, running on the erased state gives the erased result
   (the core never reads the detail fields; the detail bookkeeping never panics because the number of
   call stacks remembered by rule() is <= the current number unless max_position grew).            *)
From Coq Require Import List Arith NArith ZArith Bool Lia.
Import ListNotations.
Require Import PV.Stack.Model PV.Stack.Proofs PV.Comb.PState PV.Comb.Bytes PV.Comb.Prog PV.Comb.Exec PV.Comb.Frame PV.Comb.Detail.

Arguments Nat.sub : simpl never.
Arguments Nat.ltb : simpl never.
Arguments Nat.leb : simpl never.
Arguments Nat.eqb : simpl never.
Arguments skipn : simpl never.
Arguments firstn : simpl never.

(* ---------- the detail order: switch and input constant, (max_position, #call_stacks) monotone ---------- *)
Definition dle (s s' : pst) : Prop :=
  pa_enabled s' = pa_enabled s /\ pa_mono s s' /\ input s' = input s.
Definition dpost (s : pst) (r : res) : Prop := res_all (dle s) r.

Lemma dle_refl s : dle s s.
Proof. split; [reflexivity|split; [apply pa_mono_refl|reflexivity]]. Qed.

Lemma pa_mono_trans a b c : pa_mono a b -> pa_mono b c -> pa_mono a c.
Proof. unfold pa_mono. intros [H1 H2] [H3 H4]. split; [lia|]. intros H. assert (max_position b = max_position a) by lia.
  assert (max_position c = max_position b) by lia. specialize (H2 H0). specialize (H4 H5). lia. Qed.

Lemma dle_trans a b c : dle a b -> dle b c -> dle a c.
Proof. intros (A1 & A2 & A3) (B1 & B2 & B3). split; [congruence|split; [eapply pa_mono_trans; eauto|congruence]]. Qed.

(* two states with the same five detail-relevant observations *)
Definition dsame (s s' : pst) : Prop :=
  pa_enabled s' = pa_enabled s /\ max_position s' = max_position s /\ call_stacks s' = call_stacks s /\ input s' = input s.
Lemma dsame_dle s s' : dsame s s' -> dle s s'.
Proof. intros (A & B & C & D). split; [auto|split; [|auto]]. split; [lia|]. intros _. rewrite C. lia. Qed.
Lemma dle_dsame_r a b c : dle a b -> dsame b c -> dle a c.
Proof. intros H1 H2. apply (dle_trans a b c); [exact H1|now apply dsame_dle]. Qed.
Lemma dle_dsame_l a b c : dsame a b -> dle b c -> dle a c.
Proof. intros H1 H2. apply (dle_trans a b c); [now apply dsame_dle|exact H2]. Qed.

Lemma same_core_erase s s' : same_core s s' -> erase_detail s' = erase_detail s.
Proof. intros []. unfold erase_detail. congruence. Qed.

Lemma same_core_dle s s' : same_core s s' -> pa_mono s s' -> dle s s'.
Proof. intros [] M. split; [auto|split; auto]. Qed.

Lemma map_res_dpost s r : dpost s r -> forall s', r = ROk s' \/ r = RErr s' -> dle s s'.
Proof. intros D s' [-> | ->]; exact D. Qed.

(* ---------- erase commutes with the core helpers ---------- *)
Lemma inc_call_erase s : inc_call (erase_detail s) = option_map erase_detail (inc_call s).
Proof.
  unfold inc_call, limit_reached. cbn [erase_detail limit calls].
  destruct (limit s) as [l|]; [destruct (Nat.leb l (calls s))|]; reflexivity.
Qed.

Lemma inc_call_dsame s s1 : inc_call s = Some s1 -> dsame s s1.
Proof.
  unfold inc_call. destruct (limit_reached s); [discriminate|].
  destruct (limit s); intros [= <-]; repeat split.
Qed.

Lemma track_erase s r p a b c : track (erase_detail s) r p a b c = erase_detail (track s r p a b c).
Proof.
  unfold track, attempts_at. cbn [erase_detail atomicity attempt_pos pos_attempts neg_attempts lookahead].
  destruct (atom_eqb (atomicity s) Atomic); [reflexivity|].
  destruct (_ && _); [reflexivity|].
  destruct (Nat.eqb p (attempt_pos s)); cbn;
    repeat match goal with |- context [if ?c then _ else _] => destruct c; cbn end; reflexivity.
Qed.

Lemma track_dsame s r p a b c : dsame s (track s r p a b c).
Proof. destruct (track_same s r p a b c). repeat split; auto. Qed.

Lemma emits_erase s : emits (erase_detail s) = emits s.
Proof. reflexivity. Qed.

Lemma rule_enter_erase s :
  snd (rule_enter (erase_detail s)) = erase_detail (snd (rule_enter s)) /\
  fr_core_eq (fst (rule_enter s)) (fst (rule_enter (erase_detail s))).
Proof.
  unfold rule_enter, fr_core_eq. cbn [erase_detail pos attempt_pos pos_attempts neg_attempts queue].
  rewrite emits_erase.
  destruct (Nat.eqb (pos s) (attempt_pos s)); destruct (emits s); cbn; repeat split; reflexivity.
Qed.

Lemma rule_enter_dsame s : dsame s (snd (rule_enter s)).
Proof. destruct (rule_enter_spec s) as (_ & _ & _ & _ & _ & []). repeat split; auto. Qed.
