(* Layer C, reference semantics: the combinators of pest/src/parser_state.rs read DIRECTLY from
   their rustdoc ("documented contracts"), as an executable interpreter over a small state:

     input, position, token queue, a PLAIN stack (a list, top first - no snapshot vectors),
     look-ahead mode, atomicity.

   No call counter, no call limit, no attempt tracking, no parse-attempt bookkeeping, no
   checkpoint/restore machinery: a combinator that the documentation says "returns the current
   state" simply returns the state it was given.

   `rexec_gen rd cfg E fuel p r` is the interpreter.  `rd : reading` selects how ONE clause is
   read, the failure of `sequence`:
     Documented  "Err with the current Box<ParserState>": the state as it was, tokens included;
     TagLeak     the same, except that the tokens are the queue truncated to its old length,
                 so a node tag written by the failed body on the last old token survives
                 (known finding C03-tag-in-failed-sequence).
   `rexec := rexec_gen Documented` is the specification.  Fuel is consumed exactly as in
   Exec.exec (one unit per closure call / loop iteration), so the two can be compared by `=`. *)
From Coq Require Import List Arith NArith ZArith Bool.
Import ListNotations.
Require Import PV.Comb.PState PV.Comb.Bytes PV.Comb.Prog PV.Comb.Exec.
(* from Exec we only use pure list/index functions: vtruncate, vslice, constrain_idxs, match_all,
   enter_lookahead *)

Record rst := {
  r_input : list byte;
  r_pos : nat;
  r_queue : list qtoken;            (* head = last pushed, as PState.queue *)
  r_stack : list (list byte);       (* head = top *)
  r_look : lk;
  r_atom : atom }.

Inductive rres := RROk (r : rst) | RRErr (r : rst) | RRPanic (k : pkind) | RRFuel.

Definition with_pos (r : rst) (v : nat) : rst :=
  {| r_input := r_input r; r_pos := v; r_queue := r_queue r; r_stack := r_stack r; r_look := r_look r; r_atom := r_atom r |}.
Definition with_queue (r : rst) (v : list qtoken) : rst :=
  {| r_input := r_input r; r_pos := r_pos r; r_queue := v; r_stack := r_stack r; r_look := r_look r; r_atom := r_atom r |}.
Definition with_stack (r : rst) (v : list (list byte)) : rst :=
  {| r_input := r_input r; r_pos := r_pos r; r_queue := r_queue r; r_stack := v; r_look := r_look r; r_atom := r_atom r |}.
Definition with_look (r : rst) (v : lk) : rst :=
  {| r_input := r_input r; r_pos := r_pos r; r_queue := r_queue r; r_stack := r_stack r; r_look := v; r_atom := r_atom r |}.
Definition with_atom (r : rst) (v : atom) : rst :=
  {| r_input := r_input r; r_pos := r_pos r; r_queue := r_queue r; r_stack := r_stack r; r_look := r_look r; r_atom := v |}.

Definition rinit (inp : list byte) : rst :=
  {| r_input := inp; r_pos := 0; r_queue := []; r_stack := []; r_look := LNone; r_atom := NonAtomic |}.

Inductive reading := Documented | TagLeak.

(* ---------- primitives ---------- *)
(* a matcher of position.rs: Ok at the new position, Err where it was, or a slicing panic *)
Definition rmoved (r : rst) (x : pres) : rres :=
  match x with
  | PMoved p => RROk (with_pos r p)
  | PStay => RRErr r
  | PPanic => RRPanic PkBoundary
  end.

(* stack_match_pop: "matches the full state of the stack, clearing it as it evaluates": pops
   while the popped string matches; the string that did not match stays popped *)
Fixpoint rmatch_pop (inp : list byte) (st : list (list byte)) (p : nat) : list (list byte) * nat * bool :=
  match st with
  | [] => ([], p, true)
  | x :: rest =>
    match match_string inp p x with
    | PMoved p' => rmatch_pop inp rest p'
    | _ => (rest, p, false)
    end
  end.

(* stack_match_peek_slice(start, end, dir): indices count from the bottom, negative from the top *)
Definition rpeek_slice (r : rst) (i : Z) (j : option Z) (d : dir) : rres :=
  match constrain_idxs i j (length (r_stack r)) with
  | None => RRErr r
  | Some (a, b) =>
    if Nat.leb b a then RROk r else
    let bottom_up := vslice a b (r_stack r) in
    let sl := match d with BottomToTop => bottom_up | TopToBottom => rev bottom_up end in
    match match_all (r_input r) (r_pos r) sl with Some p => RROk (with_pos r p) | None => RRErr r end
  end.

Definition rprim (cfg : config) (o : prim) (r : rst) : rres :=
  let inp := r_input r in let pos := r_pos r in
  match o with
  | MOk => RROk r
  | MErr => RRErr r
  | MMatchString str => rmoved r (match_string inp pos str)
  | MMatchInsens str => rmoved r (match_insensitive inp pos str)
  | MMatchRange lo hi => rmoved r (match_range inp pos lo hi)
  | MMatchCharBy rs => rmoved r (match_char_by inp pos rs)
  | MSkip n => rmoved r (skip inp pos n)
  | MSkipUntil ss => match skip_until cfg inp pos ss with None => RRPanic PkBoundary | Some p => RROk (with_pos r p) end
  | MSoi => if Nat.eqb pos 0 then RROk r else RRErr r
  | MEoi => if Nat.eqb pos (length inp) then RROk r else RRErr r
  | MStackPushLit str => RROk (with_stack r (str :: r_stack r))
  | MStackPeek =>                       (* "Panics if the stack is empty." *)
      match r_stack r with [] => RRPanic PkEmptyStack | top :: _ => rmoved r (match_string inp pos top) end
  | MStackPop =>
      match r_stack r with [] => RRPanic PkEmptyStack | top :: rest => rmoved (with_stack r rest) (match_string inp pos top) end
  | MStackDrop =>                       (* Ok "if there was a value to drop", Err otherwise *)
      match r_stack r with [] => RRErr r | _ :: rest => RROk (with_stack r rest) end
  | MStackMatchPeek =>                  (* the whole stack, top to bottom *)
      match match_all inp pos (r_stack r) with Some p => RROk (with_pos r p) | None => RRErr r end
  | MPeekSlice i j d => rpeek_slice r i j d
  | MStackMatchPop =>
      let '(rest, p, ok) := rmatch_pop inp (r_stack r) pos in
      if ok then RROk (with_pos (with_stack r rest) p) else RRErr (with_stack r rest)
  | MTagNode t =>                       (* tags the last End token; nothing under look-ahead *)
      match r_look r, r_queue r with
      | LNone, QEnd si rule _ p :: q => RROk (with_queue r (QEnd si rule (Some t) p :: q))
      | _, _ => RROk r
      end
  end.

(* rule(): tokens are generated outside look-ahead and outside Atomic *)
Definition remits (r : rst) : bool := lk_eqb (r_look r) LNone && negb (atom_eqb (r_atom r) Atomic).

(* The pair of a successful rule.  q0: the tokens before the rule, p0: where it started; q': the
   queue returned by the body, which ran on Start :: q0; pend: where the body stopped.
   In Vec order:  q0 ; Start{end_token_index = index of End, p0} ; body tokens ;
                  End{start_token_index = index of Start = |q0|, rule, no tag, pend}          *)
Definition close_rule (rule : nat) (q0 : list qtoken) (p0 : nat) (q' : list qtoken) (pend : nat) : list qtoken :=
  let body := firstn (length q' - S (length q0)) q' in
  QEnd (length q0) rule None pend :: body ++ QStart (length q') p0 :: q0.

(* ---------- the combinators ---------- *)
Section Ref.
Variable rd : reading.
Variable cfg : config.
Variable E : env.

Fixpoint rexec_gen (fuel : nat) (p : prog) (r : rst) {struct fuel} : rres :=
  match fuel with
  | O => RRFuel
  | S fuel' =>
    match p with
    | PPrim o => rprim cfg o r
    (* Result::and_then / or_else, `if state.atomicity() == NonAtomic`, a named closure *)
    | PAndThen p q => match rexec_gen fuel' p r with RROk r' => rexec_gen fuel' q r' | x => x end
    | POrElse p q => match rexec_gen fuel' p r with RRErr r' => rexec_gen fuel' q r' | x => x end
    | PIfNonAtomic p q => if atom_eqb (r_atom r) NonAtomic then rexec_gen fuel' p r else rexec_gen fuel' q r
    | PCall f => match E f with None => RRPanic PkUndefined | Some q => rexec_gen fuel' q r end
    (* optional: "Ok with the updated state returned by f regardless of the Result" *)
    | POptional p =>
        match rexec_gen fuel' p r with RROk r' | RRErr r' => RROk r' | x => x end
    (* repeat: apply f until it fails; "Ok with the updated state returned by f wrapped up in an Err" *)
    | PRepeat p => rexec_gen fuel' (PRepeatLoop p) r
    | PRepeatLoop p =>
        match rexec_gen fuel' p r with
        | RROk r' => rexec_gen fuel' (PRepeatLoop p) r'
        | RRErr r' => RROk r'
        | x => x
        end
    (* sequence: "the same Result returned by f in the case of an Ok, or Err with the current
       state otherwise" *)
    | PSequence p =>
        match rexec_gen fuel' p r with
        | RROk r' => RROk r'
        | RRErr r' =>
            RRErr (match rd with
                   | Documented => r
                   | TagLeak => with_queue r (vtruncate (length (r_queue r)) (r_queue r'))
                   end)
        | x => x
        end
    (* lookahead: f runs in the switched mode; "Ok with the current state if f also returns an
       Ok, or Err with the current state otherwise"; negative look-ahead swaps the two *)
    | PLookahead positive p =>
        match rexec_gen fuel' p (with_look r (enter_lookahead positive (r_look r))) with
        | RROk _ => if positive then RROk r else RRErr r
        | RRErr _ => if positive then RRErr r else RROk r
        | x => x
        end
    (* atomic: f runs with the requested atomicity, which is then switched back *)
    | PAtomic a p =>
        match rexec_gen fuel' p (with_atom r a) with
        | RROk r' => RROk (with_atom r' (r_atom r))
        | RRErr r' => RRErr (with_atom r' (r_atom r))
        | x => x
        end
    (* stack_push: "pushes the span of the input consumed from before f is called to after" *)
    | PStackPush p =>
        match rexec_gen fuel' p r with
        | RROk r' => RROk (with_stack r' (firstn (r_pos r' - r_pos r) (skipn (r_pos r) (r_input r')) :: r_stack r'))
        | x => x
        end
    (* restore_on_err: "Currently, this method only restores the stack." *)
    | PRestoreOnErr p =>
        match rexec_gen fuel' p r with
        | RROk r' => RROk r'
        | RRErr r' => RRErr (with_stack r' (r_stack r))
        | x => x
        end
    (* rule: "wrapper needed to generate tokens".  A failed rule leaves no token of its own;
       position and stack stay where the body left them (rule is not a sequence). *)
    | PRule rule p =>
        if remits r then
          match rexec_gen fuel' p (with_queue r (QStart 0 (r_pos r) :: r_queue r)) with
          | RROk r' => RROk (with_queue r' (close_rule rule (r_queue r) (r_pos r) (r_queue r') (r_pos r')))
          | RRErr r' => RRErr (with_queue r' (r_queue r))
          | x => x
          end
        else rexec_gen fuel' p r
    end
  end.

End Ref.

(* the specification: every clause as documented *)
Definition rexec : config -> env -> nat -> prog -> rst -> rres := rexec_gen Documented.

(* programs (and closure environments) that never call tag_node: on these the two readings of
   `sequence` coincide (RefProofs.readings_agree_notag) *)
Definition notag_prim (o : prim) : bool := match o with MTagNode _ => false | _ => true end.
Fixpoint notag (p : prog) : bool :=
  match p with
  | PPrim o => notag_prim o
  | PRule _ p | PSequence p | PRepeat p | PRepeatLoop p | POptional p | PLookahead _ p | PAtomic _ p
  | PStackPush p | PRestoreOnErr p => notag p
  | PAndThen p q | POrElse p q | PIfNonAtomic p q => notag p && notag q
  | PCall _ => true
  end.
Definition notag_env (E : env) : Prop := forall f q, E f = Some q -> notag q = true.

(* equality of reference states / results up to the node tags of the tokens *)
Definition untag_tok (t : qtoken) : qtoken := match t with QEnd s r _ p => QEnd s r None p | x => x end.
Definition req (r1 r2 : rst) : Prop :=
  r_input r1 = r_input r2 /\ r_pos r1 = r_pos r2 /\ map untag_tok (r_queue r1) = map untag_tok (r_queue r2) /\
  r_stack r1 = r_stack r2 /\ r_look r1 = r_look r2 /\ r_atom r1 = r_atom r2.
Definition rreq (x y : rres) : Prop :=
  match x, y with
  | RROk a, RROk b | RRErr a, RRErr b => req a b
  | RRPanic k, RRPanic k' => k = k'
  | RRFuel, RRFuel => True
  | _, _ => False
  end.
