(* C04, parser half, part 2: every successful run of the parser-state model leaves a well-formed token
   queue (`exec_preserves_wfq*`).

   exec_delta   (induction on fuel, generalised over the start state): whatever the queue of the start state
                is, a run - successful or failed - leaves it (up to node tags) and appends the tokens of a
                closed forest at absolute index |queue|, whose spans are nested inside [pos before, pos after]
                and whose positions all satisfy the boundary predicate.  The rules in progress ("open" Start
                tokens) are simply part of the old queue: the rule case pushes its Start, gets the delta of
                its body on top of it, and closes it into one more tree (D_rule); a failing rule or
                sequence truncates back to the old queue (empty delta).
   The boundary predicate enters as a hypothesis schema (state invariant U preserved by every run of
   programs satisfying V, U s -> bnd (input s) (pos s) = true); it is instantiated twice at the end:
   trivially (exec_preserves_wfq) and with the UTF-8 theory of Utf8c.v (exec_preserves_wfq_utf8).   *)
From Coq Require Import List Arith NArith ZArith Bool Lia.
Import ListNotations.
Require Import PV.Iter.Queue PV.Iter.QueueFacts.
Require Import PV.Stack.Model PV.Stack.Proofs PV.Comb.PState PV.Comb.Bytes PV.Comb.Prog PV.Comb.Exec PV.Comb.Frame PV.Comb.Contracts.
Require Import PV.Comb.Wfq1.

Arguments Nat.sub : simpl never.
Arguments Nat.mul : simpl never.
Arguments Nat.ltb : simpl never.
Arguments Nat.leb : simpl never.
Arguments Nat.eqb : simpl never.
Arguments skipn : simpl never.
Arguments firstn : simpl never.

(* the programs `exec` runs when it runs p *)
Definition children (p : prog) : list prog :=
  match p with
  | PPrim _ | PCall _ => []
  | PRule _ q | PSequence q | PRepeatLoop q | POptional q | PLookahead _ q | PAtomic _ q
  | PStackPush q | PRestoreOnErr q => [q]
  | PRepeat q => [PRepeatLoop q]
  | PAndThen q1 q2 | POrElse q1 q2 | PIfNonAtomic q1 q2 => [q1; q2]
  end.

Section WfqMain.
Variable cfg : config.
Variable E : env.
Variable bnd : list byte -> nat -> bool.
Variable U : pst -> Prop.
Variable V : prog -> Prop.
Hypothesis HUsame : forall s s', input s' = input s -> pos s' = pos s -> cache (stack s') = cache (stack s) -> U s -> U s'.
Hypothesis HUpos : forall s, U s -> bnd (input s) (pos s) = true.
Hypothesis HVsub : forall p q, V p -> In q (children p) -> V q.
Hypothesis HVenv : forall f q, V (PCall f) -> E f = Some q -> V q.
Hypothesis HU : forall fuel p s a, V p -> wf s -> Inv (stack s) a -> U s ->
  match exec cfg E fuel p s with ROk s' | RErr s' => U s' | _ => True end.

Lemma inc_call_U s s1 : inc_call s = Some s1 -> U s -> U s1.
Proof.
  intros Ei Us. destruct (inc_call_frame _ _ Ei) as (_ & St & Po & _ & In & _).
  apply (HUsame s); [exact In|exact Po|rewrite St; reflexivity|exact Us].
Qed.

Theorem exec_delta : forall fuel p s a s', V p -> wf s -> Inv (stack s) a -> U s ->
  (exec cfg E fuel p s = ROk s' \/ exec cfg E fuel p s = RErr s') -> D bnd s s'.
Proof.
  induction fuel as [|fuel IH]; intros p s a s' Vp W I Us H; [destruct H; discriminate|].
  assert (STEP : forall q s0 a0 x, V q -> wf s0 -> Inv (stack s0) a0 -> U s0 ->
            (exec cfg E fuel q s0 = ROk x \/ exec cfg E fuel q s0 = RErr x) ->
            D bnd s0 x /\ frame s0 x /\ wf x /\ U x /\ exists a1, Inv (stack x) a1).
  { intros q s0 a0 x Vq W0 I0 U0 H0. split; [eapply IH; eauto|].
    pose proof (exec_post cfg E fuel q s0 a0 W0 I0) as P.
    pose proof (HU fuel q s0 a0 Vq W0 I0 U0) as PU.
    destruct H0 as [H0|H0]; rewrite H0 in P, PU; cbn in P; destruct P as (F & Wx & ax & Ix & _);
      (split; [exact F|split; [exact Wx|split; [exact PU|exists ax; exact Ix]]]). }
  assert (SELF : forall x, x = s -> D bnd s x) by (intros x ->; apply D_nil; [reflexivity|apply Nat.le_refl]).
  destruct p as [o|r p|p|p|p|p|positive p|at0 p|p|p|p1 p2|p1 p2|p1 p2|fn].
  - (* PPrim *)
    cbn [exec] in H. apply D_nil; [eapply exec_prim_ueq; exact H|].
    pose proof (exec_prim_post cfg o s a W I) as P.
    destruct H as [H|H]; rewrite H in P; cbn in P; destruct P as (F & _); exact (f_pos _ _ F).
  - (* PRule *)
    destruct (inc_call s) as [s1|] eqn:Ei.
    2:{ cbn [exec] in H. rewrite Ei in H. destruct H as [H|H]; [discriminate|]. apply SELF. congruence. }
    pose proof (rule_shape cfg E fuel r p s s1 a W I Ei) as RS.
    destruct (inc_call_frame _ _ Ei) as (F1 & St & Po & Qu & In & _).
    destruct (rule_enter_spec s1) as (_ & _ & _ & _ & Q & SQ).
    set (s2 := snd (rule_enter s1)) in *. dsq SQ.
    assert (W2 : wf s2) by (unfold wf in *; congruence).
    assert (I2 : Inv (stack s2) a) by (rewrite q_stack0, St; exact I).
    assert (U2 : U s2) by (apply (HUsame s); [congruence|congruence|rewrite q_stack0, St; reflexivity|exact Us]).
    assert (Vb : V p) by (apply (HVsub (PRule r p)); [exact Vp|cbn; auto]).
    assert (G : D bnd s1 s' -> D bnd s s').
    { intros G. eapply D_glue; [exact G|rewrite Qu; reflexivity|lia|exact In|reflexivity|lia]. }
    destruct (exec cfg E fuel p s2) as [sb|sb|k|] eqn:Eb.
    + destruct H as [H|H]; rewrite H in RS; [|contradiction].
      destruct (STEP p s2 a sb Vb W2 I2 U2 (or_introl Eb)) as (Db & Fb & Wb & Ub & _).
      destruct RS as (Ps & RS). apply G.
      destruct (emits s1) eqn:Em.
      * destruct RS as (body & Eb1 & Es).
        apply (D_rule bnd s1 s2 sb s' r body); auto.
        -- rewrite In, Po. apply HUpos. exact Us.
        -- rewrite Ps, <- q_input0, <- (f_input _ _ Fb). apply HUpos. exact Ub.
      * eapply D_glue; [exact Db|rewrite Q; reflexivity|lia|exact q_input0|rewrite RS; reflexivity|lia].
    + destruct H as [H|H]; rewrite H in RS; [contradiction|].
      destruct (STEP p s2 a sb Vb W2 I2 U2 (or_intror Eb)) as (Db & Fb & Wb & Ub & _).
      destruct RS as (Ps & RS). apply G.
      destruct (emits s1) eqn:Em.
      * apply D_nil; [exact RS|]. pose proof (f_pos _ _ Fb). lia.
      * eapply D_glue; [exact Db|rewrite Q; reflexivity|lia|exact q_input0|rewrite RS; reflexivity|lia].
    + destruct H as [H|H]; rewrite H in RS; contradiction.
    + destruct H as [H|H]; rewrite H in RS; contradiction.
  - (* PSequence *)
    destruct H as [H|H].
    2:{ destruct (sequence_err_restores cfg E _ _ _ _ _ W I H) as (Rp & Rq & _). apply D_nil; [exact Rq|lia]. }
    cbn [exec] in H.
    destruct (inc_call s) as [s1|] eqn:Ei; [|discriminate].
    destruct (inc_call_frame _ _ Ei) as (F1 & St & Po & Qu & In & _).
    assert (W1 : wf (checkpoint s1)) by (unfold wf in *; cbn; congruence).
    assert (I1 : Inv (stack (checkpoint s1)) (ssnapshot a)) by (cbn; rewrite St; now apply inv_snapshot).
    assert (U1 : U (checkpoint s1)) by (apply (HUsame s); [exact In|exact Po|cbn; rewrite St; reflexivity|exact Us]).
    assert (Vb : V p) by (apply (HVsub (PSequence p)); [exact Vp|cbn; auto]).
    destruct (exec cfg E fuel p (checkpoint s1)) as [x|x|k|] eqn:Ex; try discriminate.
    + destruct (STEP p _ _ x Vb W1 I1 U1 (or_introl Ex)) as (Dx & Fx & _).
      unfold checkpoint_ok in H. destruct (clear_snapshot (stack x)) as [st|]; cbn in H; [|discriminate].
      inversion H; subst s'.
      eapply D_glue; [exact Dx|cbn; rewrite Qu; reflexivity|cbn; lia|exact In|reflexivity|cbn; lia].
    + unfold restore_st in H. cbn [stack set_queue set_pos] in H. destruct (restore (stack x)); cbn in H; discriminate.
  - (* PRepeat *)
    cbn [exec] in H.
    destruct (inc_call s) as [s1|] eqn:Ei; [|destruct H as [H|H]; [discriminate|apply SELF; congruence]].
    destruct (inc_call_frame _ _ Ei) as (F1 & St & Po & Qu & In & _).
    assert (W1 : wf s1) by (unfold wf in *; congruence). assert (I1 : Inv (stack s1) a) by (rewrite St; exact I).
    assert (Vb : V (PRepeatLoop p)) by (apply (HVsub (PRepeat p)); [exact Vp|cbn; auto]).
    eapply D_glue; [exact (IH _ _ _ _ Vb W1 I1 (inc_call_U _ _ Ei Us) H)|rewrite Qu; reflexivity|lia|exact In|reflexivity|lia].
  - (* PRepeatLoop *)
    cbn [exec] in H.
    assert (Vb : V p) by (apply (HVsub (PRepeatLoop p)); [exact Vp|cbn; auto]).
    destruct (exec cfg E fuel p s) as [x|x|k|] eqn:Ex; try (destruct H; discriminate).
    + destruct (STEP p s a x Vb W I Us (or_introl Ex)) as (Dx & Fx & Wx & Ux & ax & Ix).
      eapply D_trans; [exact Dx|exact (IH _ _ _ _ Vp Wx Ix Ux H)|exact (f_input _ _ Fx)].
    + destruct (STEP p s a x Vb W I Us (or_intror Ex)) as (Dx & _).
      destruct H as [H|H]; inversion H; subst; exact Dx.
  - (* POptional *)
    cbn [exec] in H.
    destruct (inc_call s) as [s1|] eqn:Ei; [|destruct H as [H|H]; [discriminate|apply SELF; congruence]].
    destruct (inc_call_frame _ _ Ei) as (F1 & St & Po & Qu & In & _).
    assert (W1 : wf s1) by (unfold wf in *; congruence). assert (I1 : Inv (stack s1) a) by (rewrite St; exact I).
    assert (Vb : V p) by (apply (HVsub (POptional p)); [exact Vp|cbn; auto]).
    assert (G : forall x, D bnd s1 x -> D bnd s x).
    { intros x G. eapply D_glue; [exact G|rewrite Qu; reflexivity|lia|exact In|reflexivity|lia]. }
    destruct (exec cfg E fuel p s1) as [x|x|k|] eqn:Ex; try (destruct H; discriminate).
    + destruct (STEP p s1 a x Vb W1 I1 (inc_call_U _ _ Ei Us) (or_introl Ex)) as (Dx & _).
      destruct H as [H|H]; inversion H; subst; apply G; exact Dx.
    + destruct (STEP p s1 a x Vb W1 I1 (inc_call_U _ _ Ei Us) (or_intror Ex)) as (Dx & _).
      destruct H as [H|H]; inversion H; subst; apply G; exact Dx.
  - (* PLookahead: nothing is emitted, the position is put back *)
    cbn [exec] in H.
    destruct (inc_call s) as [s1|] eqn:Ei; [|destruct H as [H|H]; [discriminate|apply SELF; congruence]].
    destruct (inc_call_frame _ _ Ei) as (F1 & St & Po & Qu & In & _).
    set (s2 := set_lookahead s1 (enter_lookahead positive (lookahead s1))) in *.
    assert (W2 : wf (checkpoint s2)) by (unfold wf in *; cbn; congruence).
    assert (I2 : Inv (stack (checkpoint s2)) (ssnapshot a)) by (cbn; rewrite St; now apply inv_snapshot).
    assert (L2 : lookahead (checkpoint s2) <> LNone).
    { cbn. destruct positive, (lookahead s1); cbn; congruence. }
    assert (FIN : forall x (k : pst -> res), (forall y, k y = ROk y \/ k y = RErr y) ->
              (exec cfg E fuel p (checkpoint s2) = ROk x \/ exec cfg E fuel p (checkpoint s2) = RErr x) ->
              (lift k (restore_st (set_lookahead (set_pos x (pos s1)) (lookahead s1))) = ROk s' \/
               lift k (restore_st (set_lookahead (set_pos x (pos s1)) (lookahead s1))) = RErr s') ->
              D bnd s s').
    { intros x k kk Hx Hk.
      pose proof (exec_quiet cfg E fuel p (checkpoint s2) (ssnapshot a) x W2 I2 L2 Hx) as Qx.
      unfold restore_st in Hk. cbn [stack set_lookahead set_pos] in Hk.
      destruct (restore (stack x)) as [st|]; cbn [option_map lift] in Hk; [|destruct Hk; discriminate].
      assert (s' = set_stack (set_lookahead (set_pos x (pos s1)) (lookahead s1)) st) as ->.
      { destruct (kk (set_stack (set_lookahead (set_pos x (pos s1)) (lookahead s1)) st)) as [K|K]; rewrite K in Hk;
          destruct Hk as [Hk|Hk]; congruence. }
      apply D_nil; cbn; [rewrite Qx; cbn; rewrite Qu; reflexivity|lia]. }
    destruct (exec cfg E fuel p (checkpoint s2)) as [x|x|k|] eqn:Ex; try (destruct H; discriminate).
    + apply (FIN x (fun y => if positive then ROk y else RErr y)); auto. intros y; destruct positive; auto.
    + apply (FIN x (fun y => if positive then RErr y else ROk y)); auto. intros y; destruct positive; auto.
  - (* PAtomic *)
    cbn [exec] in H.
    destruct (inc_call s) as [s1|] eqn:Ei; [|destruct H as [H|H]; [discriminate|apply SELF; congruence]].
    destruct (inc_call_frame _ _ Ei) as (F1 & St & Po & Qu & In & _).
    set (s2 := if negb (atom_eqb (atomicity s1) at0) then set_atomicity s1 at0 else s1) in *.
    assert (E2 : input s2 = input s1 /\ pos s2 = pos s1 /\ stack s2 = stack s1 /\ queue s2 = queue s1).
    { unfold s2. destruct (negb _); cbn; auto. }
    destruct E2 as (e1 & e2 & e3 & e4).
    assert (W2 : wf s2) by (unfold wf in *; congruence). assert (I2 : Inv (stack s2) a) by (rewrite e3, St; exact I).
    assert (U2 : U s2) by (apply (HUsame s); [congruence|congruence|rewrite e3, St; reflexivity|exact Us]).
    assert (Vb : V p) by (apply (HVsub (PAtomic at0 p)); [exact Vp|cbn; auto]).
    assert (G : forall x y, D bnd s2 x -> queue y = queue x -> pos y = pos x -> D bnd s y).
    { intros x y G Qy Py. eapply D_glue; [exact G|rewrite e4, Qu; reflexivity|lia|congruence|rewrite Qy; reflexivity|lia]. }
    destruct (exec cfg E fuel p s2) as [x|x|k|] eqn:Ex; try (destruct H; discriminate).
    + destruct (STEP p s2 a x Vb W2 I2 U2 (or_introl Ex)) as (Dx & _).
      destruct (negb (atom_eqb (atomicity s1) at0)); destruct H as [H|H]; inversion H; subst; (eapply G; [exact Dx|reflexivity|reflexivity]).
    + destruct (STEP p s2 a x Vb W2 I2 U2 (or_intror Ex)) as (Dx & _).
      destruct (negb (atom_eqb (atomicity s1) at0)); destruct H as [H|H]; inversion H; subst; (eapply G; [exact Dx|reflexivity|reflexivity]).
  - (* PStackPush *)
    cbn [exec] in H.
    destruct (inc_call s) as [s1|] eqn:Ei; [|destruct H as [H|H]; [discriminate|apply SELF; congruence]].
    destruct (inc_call_frame _ _ Ei) as (F1 & St & Po & Qu & In & _).
    assert (W1 : wf s1) by (unfold wf in *; congruence). assert (I1 : Inv (stack s1) a) by (rewrite St; exact I).
    assert (Vb : V p) by (apply (HVsub (PStackPush p)); [exact Vp|cbn; auto]).
    assert (G : forall x y, D bnd s1 x -> queue y = queue x -> pos y = pos x -> D bnd s y).
    { intros x y G Qy Py. eapply D_glue; [exact G|rewrite Qu; reflexivity|lia|exact In|rewrite Qy; reflexivity|lia]. }
    destruct (exec cfg E fuel p s1) as [x|x|k|] eqn:Ex; try (destruct H; discriminate).
    + destruct (STEP p s1 a x Vb W1 I1 (inc_call_U _ _ Ei Us) (or_introl Ex)) as (Dx & _).
      destruct (Nat.ltb (pos x) (pos s1)); destruct H as [H|H]; inversion H; subst; (eapply G; [exact Dx|reflexivity|reflexivity]).
    + destruct (STEP p s1 a x Vb W1 I1 (inc_call_U _ _ Ei Us) (or_intror Ex)) as (Dx & _).
      destruct H as [H|H]; inversion H; subst; (eapply G; [exact Dx|reflexivity|reflexivity]).
  - (* PRestoreOnErr *)
    cbn [exec] in H.
    assert (I1 : Inv (stack (checkpoint s)) (ssnapshot a)) by (cbn; now apply inv_snapshot).
    assert (W1 : wf (checkpoint s)) by exact W.
    assert (U1 : U (checkpoint s)) by (apply (HUsame s); [reflexivity|reflexivity|reflexivity|exact Us]).
    assert (Vb : V p) by (apply (HVsub (PRestoreOnErr p)); [exact Vp|cbn; auto]).
    assert (G : forall x y, D bnd (checkpoint s) x -> queue y = queue x -> pos y = pos x -> D bnd s y).
    { intros x y G Qy Py. eapply D_glue; [exact G|reflexivity|apply Nat.le_refl|reflexivity|rewrite Qy; reflexivity|lia]. }
    destruct (exec cfg E fuel p (checkpoint s)) as [x|x|k|] eqn:Ex; try (destruct H; discriminate).
    + destruct (STEP p _ _ x Vb W1 I1 U1 (or_introl Ex)) as (Dx & _). unfold checkpoint_ok in H.
      destruct (clear_snapshot (stack x)); cbn in H; destruct H as [H|H]; inversion H; subst; (eapply G; [exact Dx|reflexivity|reflexivity]).
    + destruct (STEP p _ _ x Vb W1 I1 U1 (or_intror Ex)) as (Dx & _). unfold restore_st in H.
      destruct (restore (stack x)); cbn in H; destruct H as [H|H]; inversion H; subst; (eapply G; [exact Dx|reflexivity|reflexivity]).
  - (* PAndThen *)
    cbn [exec] in H.
    assert (V1 : V p1) by (apply (HVsub (PAndThen p1 p2)); [exact Vp|cbn; auto]).
    assert (V2 : V p2) by (apply (HVsub (PAndThen p1 p2)); [exact Vp|cbn; auto]).
    destruct (exec cfg E fuel p1 s) as [x|x|k|] eqn:Ex; try (destruct H; discriminate).
    + destruct (STEP p1 s a x V1 W I Us (or_introl Ex)) as (Dx & Fx & Wx & Ux & ax & Ix).
      eapply D_trans; [exact Dx|exact (IH _ _ _ _ V2 Wx Ix Ux H)|exact (f_input _ _ Fx)].
    + destruct (STEP p1 s a x V1 W I Us (or_intror Ex)) as (Dx & _).
      destruct H as [H|H]; inversion H; subst; exact Dx.
  - (* POrElse *)
    cbn [exec] in H.
    assert (V1 : V p1) by (apply (HVsub (POrElse p1 p2)); [exact Vp|cbn; auto]).
    assert (V2 : V p2) by (apply (HVsub (POrElse p1 p2)); [exact Vp|cbn; auto]).
    destruct (exec cfg E fuel p1 s) as [x|x|k|] eqn:Ex; try (destruct H; discriminate).
    + destruct (STEP p1 s a x V1 W I Us (or_introl Ex)) as (Dx & _).
      destruct H as [H|H]; inversion H; subst; exact Dx.
    + destruct (STEP p1 s a x V1 W I Us (or_intror Ex)) as (Dx & Fx & Wx & Ux & ax & Ix).
      eapply D_trans; [exact Dx|exact (IH _ _ _ _ V2 Wx Ix Ux H)|exact (f_input _ _ Fx)].
  - (* PIfNonAtomic *)
    cbn [exec] in H.
    assert (V1 : V p1) by (apply (HVsub (PIfNonAtomic p1 p2)); [exact Vp|cbn; auto]).
    assert (V2 : V p2) by (apply (HVsub (PIfNonAtomic p1 p2)); [exact Vp|cbn; auto]).
    revert H. destruct (atom_eqb (atomicity s) NonAtomic); intros H;
      [exact (IH _ _ _ _ V1 W I Us H)|exact (IH _ _ _ _ V2 W I Us H)].
  - (* PCall *)
    cbn [exec] in H. destruct (E fn) as [q|] eqn:Ef; [|destruct H; discriminate].
    exact (IH _ _ _ _ (HVenv _ _ Vp Ef) W I Us H).
Qed.

(* a run from the initial state: nothing is open, the whole queue is the delta *)
Theorem exec_wfq_gen fuel p inp lim detail s :
  V p -> U (init inp lim detail) ->
  exec cfg E fuel p (init inp lim detail) = ROk s ->
  wfq (bnd inp) (length inp) (stream (queue s)).
Proof.
  intros Vp U0 H.
  assert (W0 : wf (init inp lim detail)) by (unfold wf; cbn; lia).
  assert (I0 : Inv (stack (init inp lim detail)) (@sempty (list byte))) by apply inv_empty.
  pose proof (exec_delta fuel p _ _ s Vp W0 I0 U0 (or_introl H)) as Dl.
  pose proof (exec_post cfg E fuel p _ _ W0 I0) as P. rewrite H in P. cbn in P. destruct P as (F & Ws & _).
  assert (Dl' : exists f, map iuntag (stream (queue s)) = tokens_at 0 f /\ fnested 0 f (pos s) /\
                          Forall (fun x => bnd inp x = true) (fposl f)).
  { destruct Dl as (f & A & B & C). exists f. exact (conj A (conj B C)). }
  destruct Dl' as (f & A & B & C).
  destruct (retag f 0 (stream (queue s)) A) as [f' Ef].
  assert (Pos : map qpos (stream (queue s)) = fposl f).
  { rewrite <- (map_qpos_tokens_at f 0), <- A, map_map. apply map_ext. intros t. symmetry. apply qpos_iuntag. }
  split; [exists f'; exact Ef|]. rewrite Pos. split.
  - apply (proj2 (chain_fnested f 0 (pos s))) in B. apply chain_app in B. tauto.
  - apply fnested_bounds in B. rewrite Forall_forall in *. intros x Hx. split; [apply C; exact Hx|].
    specialize (B x Hx). unfold wf in Ws. rewrite (f_input _ _ F) in Ws. cbn in Ws. lia.
Qed.

End WfqMain.

(* ---------- instance 1: no assumption at all (positions bounded by the input length) ---------- *)
Theorem exec_preserves_wfq cfg E fuel p inp lim detail s :
  exec cfg E fuel p (init inp lim detail) = ROk s ->
  (exists f, stream (queue s) = tokens_of f) /\
  chain 0 (map qpos (stream (queue s))) /\
  Forall (fun x => x <= length inp) (map qpos (stream (queue s))).
Proof.
  intros H.
  assert (G : wfq (fun _ => true) (length inp) (stream (queue s))).
  { apply (exec_wfq_gen cfg E (fun _ _ => true) (fun _ => True) (fun _ => True)) with (fuel := fuel) (p := p) (lim := lim) (detail := detail);
      auto.
    intros fl q s0 a _ _ _ _. destruct (exec cfg E fl q s0); exact Logic.I. }
  destruct G as (A & B & C). split; [exact A|split; [exact B|]].
  eapply Forall_impl; [|exact C]. intros x [_ Hx]. exact Hx.
Qed.

(* ---------- instance 2: the hypothesis schema, as a closed statement ---------- *)
Theorem exec_preserves_wfq_from_boundary
  cfg E (bnd : list byte -> nat -> bool) (U : pst -> Prop) (V : prog -> Prop) :
  (forall s s', input s' = input s -> pos s' = pos s -> cache (stack s') = cache (stack s) -> U s -> U s') ->
  (forall s, U s -> bnd (input s) (pos s) = true) ->
  (forall p q, V p -> In q (children p) -> V q) ->
  (forall f q, V (PCall f) -> E f = Some q -> V q) ->
  (forall fuel p s a, V p -> wf s -> Inv (stack s) a -> U s ->
     match exec cfg E fuel p s with ROk s' | RErr s' => U s' | _ => True end) ->
  forall fuel p inp lim detail s,
    V p -> U (init inp lim detail) ->
    exec cfg E fuel p (init inp lim detail) = ROk s ->
    wfq (bnd inp) (length inp) (stream (queue s)).
Proof. intros H1 H2 H3 H4 H5 fuel p inp lim detail s. apply exec_wfq_gen; assumption. Qed.
