(* Layer C, C15 part 6: the help message can always be rendered.
   Building the message is a total function (Help.v).  The rendering is C10's model of
   Error::new_from_pos + Display, which never panics at a char boundary of the input
   (PV.Pos.ErrorProofs.render_pos_no_panic, the `render_pos` conjunct of C10_outside_known_classes).
   The boundary comes from MaxPosUtf8.run_state_max_position_boundary through the bridge below
   (byte-level boundaryb on the UTF-8 encoding = char-level boundary of C10).                     *)
From Coq Require Import String Ascii.
From Coq Require Import List Arith NArith ZArith Bool Lia.
Import ListNotations.
Require Import PV.Stack.Model PV.Stack.Proofs PV.Comb.PState PV.Comb.Bytes PV.Comb.Prog PV.Comb.Exec PV.Comb.Frame.
Require Import PV.Comb.Utf8 PV.Comb.Utf8c PV.Comb.Detail PV.Comb.DetailProofs PV.Comb.MaxPos PV.Comb.MaxPosUtf8 PV.Comb.Help.
Require PV.Pos.Model PV.Pos.Spec PV.Pos.ErrorFmt PV.Pos.ErrorProofs.
Open Scope list_scope.

(* ---------- bridge: bytes <-> code points ---------- *)
Lemma encode_len_utf8 c : length (encode c) = PV.Pos.Model.len_utf8 c.
Proof.
  unfold encode, PV.Pos.Model.len_utf8.
  destruct (c <? 128)%N; [reflexivity|]. destruct (c <? 2048)%N; [reflexivity|]. destruct (c <? 65536)%N; reflexivity.
Qed.

Lemma flat_encode_blen cs : length (flat_map encode cs) = PV.Pos.Model.blen cs.
Proof.
  induction cs as [|c cs IH]; [reflexivity|]. cbn [flat_map PV.Pos.Model.blen]. rewrite app_length, encode_len_utf8, IH. reflexivity.
Qed.

Lemma boundaryb_boundary cs p : Forall scalar cs -> boundaryb (flat_map encode cs) p = true -> PV.Pos.Spec.boundary cs p.
Proof.
  intros F B. apply (boundary_iff cs p F) in B. destruct B as [k ->].
  exists (firstn k cs), (skipn k cs). split; [symmetry; apply firstn_skipn|]. symmetry. apply flat_encode_blen.
Qed.

(* ---------- the rendering ---------- *)
Section Renders.
Variable rule_to_message : nat -> option PV.Pos.Model.str.
Variable is_whitespace : list byte -> bool.
Variable to_uppercase : PV.Pos.Model.str -> PV.Pos.Model.str.

Theorem help_renders (self : PV.Pos.ErrorFmt.error) (cs : PV.Pos.Model.str) (s : pst) :
  pa_enabled s = true -> PV.Pos.Spec.boundary cs (max_position s) ->
  exists e out, parse_attempts_error rule_to_message is_whitespace to_uppercase self cs s = Some (PV.Pos.Model.Ok e) /\
                help_render rule_to_message is_whitespace to_uppercase self cs s = Some (PV.Pos.Model.Ok out).
Proof.
  intros En (p & q & -> & Eo). unfold help_render, parse_attempts_error. rewrite En. rewrite <- Eo.
  set (msg := help_message _ _ _ _ _).
  destruct (PV.Pos.ErrorProofs.render_pos_no_panic p q msg) as [out H]. unfold PV.Pos.ErrorFmt.render_pos in H.
  destruct (PV.Pos.ErrorFmt.new_from_pos (p ++ q) (PV.Pos.Model.blen p) msg) as [e| |]; cbn in H; try discriminate.
  exists e, out. split; [reflexivity|]. cbn. rewrite H. reflexivity.
Qed.

Theorem help_absent_when_off self cs s : pa_enabled s = false ->
  help_render rule_to_message is_whitespace to_uppercase self cs s = None.
Proof. intros En. unfold help_render, parse_attempts_error. rewrite En. reflexivity. Qed.

(* a whole parse of valid UTF-8 input in detail mode: whatever state it ends in, the help message renders *)
Theorem run_help_renders cfg E fuel p cs lim :
  cfg_ok cfg -> env_valid E -> prog_valid p -> Forall scalar cs ->
  res_all (fun s' => forall self, exists e out,
             parse_attempts_error rule_to_message is_whitespace to_uppercase self cs s' = Some (PV.Pos.Model.Ok e) /\
             help_render rule_to_message is_whitespace to_uppercase self cs s' = Some (PV.Pos.Model.Ok out))
          (run_state cfg E fuel p (flat_map encode cs) lim true).
Proof.
  intros Hc HE Vp F.
  assert (V : valid_utf8 (flat_map encode cs)) by (exists cs; auto).
  pose proof (run_state_max_position_boundary cfg E fuel p _ lim true Hc HE Vp V) as B.
  unfold run_state in *.
  pose proof (proj2 (exec_erase cfg E fuel p (init (flat_map encode cs) lim true))) as D.
  destruct (exec cfg E fuel p (init (flat_map encode cs) lim true)) as [s'|s'|k|]; cbn in *; auto;
    destruct D as (En & _); destruct B as [B _]; intros self; apply help_renders; auto; now apply boundaryb_boundary.
Qed.

End Renders.
