(* C08 proofs.
   1. sort_dedup (= Vec::sort + Vec::dedup of state()) returns a strictly increasing list of the
      same elements; it depends only on the set of elements.
   2. Erasure: exec_log is exec plus a log.
   3. The attempt fields (attempt_pos, pos_attempts, neg_attempts) after ANY execution, from ANY
      start state, are a function of the fields before and of the attempt forest (`Tr`).
   4. The four clauses of the property for top-level failing runs.                            *)
From Coq Require Import List Arith NArith ZArith Bool Lia.
Import ListNotations.
Require Import PV.Stack.Model PV.Comb.PState PV.Comb.Bytes PV.Comb.Prog PV.Comb.Exec PV.Comb.Frame PV.Comb.Contracts PV.Comb.Attempts.

Arguments Nat.sub : simpl never.
Arguments Nat.ltb : simpl never.
Arguments Nat.leb : simpl never.
Arguments Nat.eqb : simpl never.
Arguments Nat.max : simpl never.
Arguments skipn : simpl never.
Arguments firstn : simpl never.

(* ===================== 1. sort_dedup ===================== *)
Definition lt_all (x : nat) (l : list nat) : Prop := forall y, In y l -> x < y.

Lemma strictly_increasing_cons x l : strictly_increasing (x :: l) <-> (lt_all x l /\ strictly_increasing l).
Proof.
  revert x. induction l as [|y l IH]; intros x.
  - cbn. split; [intros _; split; [intros y []|exact I]|tauto].
  - change (strictly_increasing (x :: y :: l)) with (x < y /\ strictly_increasing (y :: l)).
    split.
    + intros [H1 H2]. split; [|exact H2]. intros z [<-|Hz]; [exact H1|].
      apply IH in H2. destruct H2 as [H2 _]. specialize (H2 z Hz). lia.
    + intros [H1 H2]. split; [apply H1; left; reflexivity|exact H2].
Qed.

Lemma insert_sorted_in x l y : In y (insert_sorted x l) <-> y = x \/ In y l.
Proof.
  induction l as [|z l IH]; cbn [insert_sorted].
  - cbn. intuition.
  - destruct (Nat.ltb x z) eqn:L; [cbn; intuition|].
    destruct (Nat.eqb x z) eqn:Q.
    + apply Nat.eqb_eq in Q. subst z. cbn. intuition.
    + cbn. rewrite IH. intuition.
Qed.

Lemma insert_sorted_inc x l : strictly_increasing l -> strictly_increasing (insert_sorted x l).
Proof.
  induction l as [|z l IH]; intros H; cbn [insert_sorted].
  - cbn. auto.
  - destruct (Nat.ltb x z) eqn:L.
    + apply Nat.ltb_lt in L. apply strictly_increasing_cons. split; [|exact H].
      apply strictly_increasing_cons in H. destruct H as [H1 H2].
      intros y [<-|Hy]; [exact L|]. specialize (H1 y Hy). lia.
    + destruct (Nat.eqb x z) eqn:Q; [exact H|].
      apply Nat.ltb_ge in L. apply Nat.eqb_neq in Q.
      apply strictly_increasing_cons in H. destruct H as [H1 H2].
      apply strictly_increasing_cons. split; [|now apply IH].
      intros y Hy. apply insert_sorted_in in Hy. destruct Hy as [->|Hy]; [lia|now apply H1].
Qed.

Theorem sort_dedup_sorted l : strictly_increasing (sort_dedup l).
Proof. induction l as [|x l IH]; cbn; [exact I|]. now apply insert_sorted_inc. Qed.

Theorem sort_dedup_in l x : In x (sort_dedup l) <-> In x l.
Proof.
  induction l as [|y l IH]; cbn; [tauto|].
  rewrite insert_sorted_in, IH. intuition.
Qed.

Lemma strictly_increasing_nodup l : strictly_increasing l -> NoDup l.
Proof.
  induction l as [|x l IH]; intros H; [constructor|].
  apply strictly_increasing_cons in H. destruct H as [H1 H2].
  constructor; [|now apply IH]. intros Hx. specialize (H1 x Hx). lia.
Qed.

(* a strictly increasing list is determined by its elements *)
Lemma strictly_increasing_unique l1 : forall l2, strictly_increasing l1 -> strictly_increasing l2 ->
  (forall x, In x l1 <-> In x l2) -> l1 = l2.
Proof.
  induction l1 as [|a l1 IH]; intros [|b l2] H1 H2 E.
  - reflexivity.
  - exfalso. apply (E b). left; reflexivity.
  - exfalso. apply (E a). left; reflexivity.
  - apply strictly_increasing_cons in H1. apply strictly_increasing_cons in H2.
    destruct H1 as [A1 S1]. destruct H2 as [A2 S2].
    assert (a = b).
    { destruct (proj1 (E a) (or_introl eq_refl)) as [->|Ha]; [reflexivity|].
      destruct (proj2 (E b) (or_introl eq_refl)) as [->|Hb]; [reflexivity|].
      specialize (A1 b Hb). specialize (A2 a Ha). lia. }
    subst b. f_equal. apply IH; auto.
    intros x. split; intros Hx.
    + destruct (proj1 (E x) (or_intror Hx)) as [->|]; [|assumption]. specialize (A1 x Hx). lia.
    + destruct (proj2 (E x) (or_intror Hx)) as [->|]; [|assumption]. specialize (A2 x Hx). lia.
Qed.

Lemma sort_dedup_ext l1 l2 : (forall x, In x l1 <-> In x l2) -> sort_dedup l1 = sort_dedup l2.
Proof.
  intros E. apply strictly_increasing_unique; try apply sort_dedup_sorted.
  intros x. rewrite !sort_dedup_in. apply E.
Qed.

Lemma sort_dedup_rev l : sort_dedup (rev l) = sort_dedup l.
Proof. apply sort_dedup_ext. intros x. symmetry. apply in_rev. Qed.

(* ===================== 2. erasure ===================== *)
Section Erasure.
Variable cfg : config.
Variable E : env.

Theorem exec_log_erasure : forall fuel p s, fst (exec_log cfg E fuel p s) = exec cfg E fuel p s.
Proof.
  induction fuel as [|fuel IH]; intros p s; [reflexivity|].
  destruct p; cbn [exec_log exec].
  - reflexivity.
  - (* PRule *)
    destruct (inc_call s) as [s1|]; [|reflexivity].
    destruct (rule_enter s1) as [fr s2].
    rewrite <- (IH p s2). destruct (exec_log cfg E fuel p s2) as [[s'|s'|k|] l]; reflexivity.
  - (* PSequence *)
    destruct (inc_call s) as [s1|]; [|reflexivity].
    rewrite <- (IH p (checkpoint s1)). destruct (exec_log cfg E fuel p (checkpoint s1)) as [[s'|s'|k|] l]; reflexivity.
  - (* PRepeat *)
    destruct (inc_call s) as [s1|]; [|reflexivity]. apply IH.
  - (* PRepeatLoop *)
    rewrite <- (IH p s). destruct (exec_log cfg E fuel p s) as [[s'|s'|k|] l]; cbn [fst]; try reflexivity.
    rewrite <- (IH (PRepeatLoop p) s'). destruct (exec_log cfg E fuel (PRepeatLoop p) s') as [[s2|s2|k2|] l2]; reflexivity.
  - (* POptional *)
    destruct (inc_call s) as [s1|]; [|reflexivity].
    rewrite <- (IH p s1). destruct (exec_log cfg E fuel p s1) as [[s'|s'|k|] l]; reflexivity.
  - (* PLookahead *)
    destruct (inc_call s) as [s1|]; [|reflexivity].
    match goal with |- context [exec_log cfg E fuel p ?x] => rewrite <- (IH p x); destruct (exec_log cfg E fuel p x) as [[s'|s'|k|] l] end; try
    reflexivity.
  - (* PAtomic *)
    destruct (inc_call s) as [s1|]; [|reflexivity].
    match goal with |- context [exec_log cfg E fuel p ?x] => rewrite <- (IH p x); destruct (exec_log cfg E fuel p x) as [[s'|s'|k|] l] end; try
    reflexivity.
  - (* PStackPush *)
    destruct (inc_call s) as [s1|]; [|reflexivity].
    rewrite <- (IH p s1). destruct (exec_log cfg E fuel p s1) as [[s'|s'|k|] l]; reflexivity.
  - (* PRestoreOnErr *)
    rewrite <- (IH p (checkpoint s)). destruct (exec_log cfg E fuel p (checkpoint s)) as [[s'|s'|k|] l]; reflexivity.
  - (* PAndThen *)
    rewrite <- (IH p1 s). destruct (exec_log cfg E fuel p1 s) as [[s'|s'|k|] l]; cbn [fst]; try reflexivity.
    rewrite <- (IH p2 s'). destruct (exec_log cfg E fuel p2 s') as [[s2|s2|k2|] l2]; reflexivity.
  - (* POrElse *)
    rewrite <- (IH p1 s). destruct (exec_log cfg E fuel p1 s) as [[s'|s'|k|] l]; cbn [fst]; try reflexivity.
    rewrite <- (IH p2 s'). destruct (exec_log cfg E fuel p2 s') as [[s2|s2|k2|] l2]; reflexivity.
  - (* PIfNonAtomic *) destruct (atom_eqb (atomicity s) NonAtomic); apply IH.
  - (* PCall *) destruct (E f); [apply IH|reflexivity].
Qed.

End Erasure.

(* ===================== 3. what no combinator but `rule` touches ===================== *)
(* look-ahead mode, atomicity and the three attempt fields *)
Record keeps (s s' : pst) : Prop := {
  k_la : lookahead s' = lookahead s; k_at : atomicity s' = atomicity s;
  k_ap : attempt_pos s' = attempt_pos s; k_pa : pos_attempts s' = pos_attempts s; k_na : neg_attempts s' = neg_attempts s }.

Lemma keeps_refl s : keeps s s. Proof. split; reflexivity. Qed.
Lemma keeps_trans s1 s2 s3 : keeps s1 s2 -> keeps s2 s3 -> keeps s1 s3.
Proof. intros [] []. split; congruence. Qed.
Lemma same_core_keeps s s' : same_core s s' -> keeps s s'.
Proof. intros []. split; assumption. Qed.

Ltac fin := let H := fresh "H" in intros [H|H]; try discriminate H; injection H as <-; try (split; reflexivity).

Lemma apply_pres_keeps s r t s' : apply_pres s r t = ROk s' \/ apply_pres s r t = RErr s' -> keeps s s'.
Proof.
  unfold apply_pres. destruct r as [p| |].
  - destruct t as [tk|]; [destruct (pa_enabled s)|]; fin.
    eapply keeps_trans; [|exact (same_core_keeps _ _ (proj1 (handle_token_core (set_pos s p) (pos s) tk true)))]. split; reflexivity.
  - destruct t as [tk|]; [destruct (pa_enabled s)|]; fin.
    exact (same_core_keeps _ _ (proj1 (handle_token_core s (pos s) tk false))).
  - fin.
Qed.

Lemma peek_slice_keeps s i j d s' : peek_slice s i j d = ROk s' \/ peek_slice s i j d = RErr s' -> keeps s s'.
Proof.
  unfold peek_slice. destruct (constrain_idxs _ _ _) as [[a b]|]; [|fin].
  destruct (Nat.leb b a); [fin|]. destruct (match_all _ _ _); fin.
Qed.

Lemma exec_prim_keeps cfg o s s' : exec_prim cfg o s = ROk s' \/ exec_prim cfg o s = RErr s' -> keeps s s'.
Proof.
  destruct o; cbn [exec_prim]; unfold st_match_string; try (apply apply_pres_keeps); try (apply peek_slice_keeps).
  - fin.
  - fin.
  - destruct (skip_until _ _ _ _); fin.
  - destruct (Nat.eqb _ _); fin.
  - destruct (Nat.eqb _ _); fin.
  - fin.
  - destruct (peek (stack s)); [apply apply_pres_keeps|fin].
  - destruct (pop (stack s)) as [st' [str|]]; [|fin].
    intros H. apply apply_pres_keeps in H. eapply keeps_trans; [|exact H]. split; reflexivity.
  - destruct (pop (stack s)) as [st' [str|]]; fin.
  - destruct (match_pop_loop _ _ _ _) as [[[st' p] [|]]|]; fin.
  - destruct (negb _); [fin|]. destruct (queue s) as [|[e p|si r tg p] q]; fin.
Qed.

Lemma inc_call_keeps s s1 : inc_call s = Some s1 -> keeps s s1.
Proof. unfold inc_call. destruct (limit_reached s); [discriminate|]. destruct (limit s); intros [= <-]; split; reflexivity. Qed.

Lemma lift_keeps (k : pst -> res) s0 o s' :
  (forall x, k x = ROk x \/ k x = RErr x) ->
  lift k (option_map (set_stack s0) o) = ROk s' \/ lift k (option_map (set_stack s0) o) = RErr s' -> keeps s0 s'.
Proof.
  intros kk. destruct o as [st|]; cbn; [|intros [H|H]; discriminate H].
  destruct (kk (set_stack s0 st)) as [-> | ->]; fin.
Qed.

(* ===================== 4. forests ===================== *)
Section AttemptInd.
Variable Q : attempt -> Prop.
Hypothesis HQ : forall r p m sg at_ ch, Forall Q ch -> Q (Attempt r p m sg at_ ch).
Fixpoint attempt_forall_ind (a : attempt) : Q a :=
  match a with
  | Attempt r p m sg at_ ch =>
    HQ r p m sg at_ ch
      ((fix go (l : list attempt) : Forall Q l :=
          match l with [] => Forall_nil Q | x :: t => Forall_cons x (attempt_forall_ind x) (go t) end) ch)
  end.
End AttemptInd.

Definition repl (P : nat) (log : list attempt) : list entry := flat_map (rep_cnt P) log.

Lemma positives_of_app a b : positives_of (a ++ b) = positives_of a ++ positives_of b.
Proof. unfold positives_of. now rewrite filter_app, map_app. Qed.
Lemma negatives_of_app a b : negatives_of (a ++ b) = negatives_of a ++ negatives_of b.
Proof. unfold negatives_of. now rewrite filter_app, map_app. Qed.
Lemma length_pos_neg c : length (positives_of c) + length (negatives_of c) = length c.
Proof.
  unfold positives_of, negatives_of. rewrite !map_length.
  induction c as [|[b r] c IH]; cbn; [reflexivity|]. destruct b; cbn; lia.
Qed.

Lemma max_reportable_pos_app l1 l2 :
  max_reportable_pos (l1 ++ l2) = Nat.max (max_reportable_pos l1) (max_reportable_pos l2).
Proof. unfold max_reportable_pos. now rewrite map_app, list_max_app. Qed.
Lemma repl_app P l1 l2 : repl P (l1 ++ l2) = repl P l1 ++ repl P l2.
Proof. unfold repl. apply flat_map_app. Qed.

Lemma flat_map_nil {A B} (f : A -> list B) l : Forall (fun x => f x = []) l -> flat_map f l = [].
Proof. induction 1 as [|x l H _ IH]; cbn; [reflexivity|]. now rewrite H, IH. Qed.

Lemma rep_cnt_above P : forall a, maxpos a < P -> rep_cnt P a = [].
Proof.
  refine (attempt_forall_ind (fun a => maxpos a < P -> rep_cnt P a = []) _).
  intros r p m sg at_ ch IH H. cbn [maxpos] in H. cbn [rep_cnt].
  assert (C : flat_map (rep_cnt P) ch = []).
  { apply flat_map_nil. 
    assert (L : list_max (map maxpos ch) <= P - 1) by lia.
    apply list_max_le in L. rewrite Forall_map in L.
    rewrite Forall_forall in *. intros x Hx. apply IH; [exact Hx|]. specialize (L x Hx). cbn in L. lia. }
  rewrite C. destruct (counts m sg at_); [|reflexivity].
  replace (Nat.eqb p P) with false; [reflexivity|]. symmetry. apply Nat.eqb_neq. lia.
Qed.

Lemma repl_above P l : max_reportable_pos l < P -> repl P l = [].
Proof.
  intros H. apply flat_map_nil. unfold max_reportable_pos in H.
  assert (L : list_max (map maxpos l) <= P - 1) by lia.
  apply list_max_le in L. rewrite Forall_map in L. rewrite Forall_forall in *.
  intros x Hx. apply rep_cnt_above. specialize (L x Hx). cbn in L. lia.
Qed.

(* the transfer relation: attempt fields after = function of attempt fields before and the forest *)
Definition Tr (s : pst) (log : list attempt) (s' : pst) : Prop :=
  attempt_pos s' = Nat.max (attempt_pos s) (max_reportable_pos log) /\
  pos_attempts s' = rev (positives_of (repl (attempt_pos s') log))
                    ++ (if Nat.eqb (attempt_pos s) (attempt_pos s') then pos_attempts s else []) /\
  neg_attempts s' = rev (negatives_of (repl (attempt_pos s') log))
                    ++ (if Nat.eqb (attempt_pos s) (attempt_pos s') then neg_attempts s else []).

Lemma Tr_keeps_l s0 s l s' : keeps s0 s -> Tr s l s' -> Tr s0 l s'.
Proof. intros [] (A & B & C). unfold Tr. rewrite <- k_ap0, <- k_pa0, <- k_na0. auto. Qed.
Lemma Tr_keeps_r s l s' s'' : Tr s l s' -> keeps s' s'' -> Tr s l s''.
Proof. intros (A & B & C) []. unfold Tr. rewrite k_ap0, k_pa0, k_na0. auto. Qed.
Lemma Tr_nil s s' : keeps s s' -> Tr s [] s'.
Proof.
  intros []. unfold Tr. cbn. rewrite k_ap0, k_pa0, k_na0, Nat.eqb_refl, Nat.max_0_r. auto.
Qed.

Lemma Tr_app s1 l1 s2 l2 s3 : Tr s1 l1 s2 -> Tr s2 l2 s3 -> Tr s1 (l1 ++ l2) s3.
Proof.
  intros (A1 & P1 & N1) (A2 & P2 & N2). unfold Tr.
  rewrite max_reportable_pos_app, repl_app, positives_of_app, negatives_of_app, !rev_app_distr, <- !app_assoc.
  split; [lia|].
  destruct (Nat.eqb_spec (attempt_pos s2) (attempt_pos s3)) as [E|NE].
  - rewrite <- E in *. rewrite P2, N2, P1, N1. auto.
  - assert (L : max_reportable_pos l1 < attempt_pos s3) by lia.
    rewrite (repl_above _ _ L). cbn [positives_of negatives_of filter map rev app].
    replace (Nat.eqb (attempt_pos s1) (attempt_pos s3)) with false by (symmetry; apply Nat.eqb_neq; lia).
    rewrite P2, N2, !app_nil_r. auto.
Qed.

Lemma mrp_single a : max_reportable_pos [a] = maxpos a.
Proof. unfold max_reportable_pos. cbn. apply Nat.max_0_r. Qed.
Lemma repl_single P a : repl P [a] = rep_cnt P a.
Proof. unfold repl. cbn. apply app_nil_r. Qed.
Lemma maxpos_node r p m sg at_ ch :
  maxpos (Attempt r p m sg at_ ch) = Nat.max (if counts m sg at_ then p else 0) (max_reportable_pos ch).
Proof. reflexivity. Qed.
Lemma rep_cnt_node P r p m sg at_ ch :
  rep_cnt P (Attempt r p m sg at_ ch) =
  if counts m sg at_ && Nat.eqb p P then (if Nat.eqb (length (repl P ch)) 1 then repl P ch else [(is_neg sg, r)]) else repl P ch.
Proof. reflexivity. Qed.

Lemma Tr_node_transparent s l s' r p m sg at_ :
  counts m sg at_ = false -> Tr s l s' -> Tr s [Attempt r p m sg at_ l] s'.
Proof.
  intros C (A & B & D). unfold Tr. rewrite mrp_single, repl_single, maxpos_node, rep_cnt_node, C.
  cbn [andb]. rewrite Nat.max_0_l. auto.
Qed.

(* ---------- track ---------- *)
Lemma one_more prev n : (Nat.ltb prev (n + prev)) && Nat.eqb (n + prev - prev) 1 = Nat.eqb n 1.
Proof.
  replace (n + prev - prev) with n by lia.
  destruct (Nat.eqb_spec n 1) as [->|NE].
  - replace (Nat.ltb prev (1 + prev)) with true; [reflexivity|]. symmetry. apply Nat.ltb_lt. lia.
  - apply andb_false_r.
Qed.

Lemma ltb_0 x : Nat.ltb x 0 = false.
Proof. apply Nat.ltb_ge. lia. Qed.

Lemma track_atomic s r p pai nai prev : atom_eqb (atomicity s) Atomic = true -> track s r p pai nai prev = s.
Proof. unfold track. now intros ->. Qed.

Lemma positives_single b r : positives_of [(b, r)] = if b then [] else [r].
Proof. destruct b; reflexivity. Qed.
Lemma negatives_single b r : negatives_of [(b, r)] = if b then [r] else [].
Proof. destruct b; reflexivity. Qed.

Lemma track_Tr s1 s' rule m l :
  counts m (lookahead s1) (atom_eqb (atomicity s1) Atomic) = true ->
  lookahead s' = lookahead s1 -> atomicity s' = atomicity s1 ->
  Tr s1 l s' ->
  Tr s1 [Attempt rule (pos s1) m (lookahead s1) (atom_eqb (atomicity s1) Atomic) l]
     (track s' rule (pos s1)
        (if Nat.eqb (pos s1) (attempt_pos s1) then length (pos_attempts s1) else 0)
        (if Nat.eqb (pos s1) (attempt_pos s1) then length (neg_attempts s1) else 0)
        (attempts_at s1 (pos s1))).
Proof.
  intros C La At (HA & HP & HN).
  assert (NA : atom_eqb (atomicity s1) Atomic = false).
  { unfold counts in C. destruct (atom_eqb (atomicity s1) Atomic); [discriminate C|reflexivity]. }
  unfold Tr. rewrite mrp_single, repl_single, maxpos_node, rep_cnt_node, C. cbn [andb].
  set (p := pos s1) in *. set (A := attempt_pos s1) in *. set (A' := attempt_pos s') in *.
  set (M := max_reportable_pos l) in *.
  unfold track. rewrite At, NA. unfold attempts_at. fold A A' p.
  set (neg := is_neg (lookahead s1)).
  assert (SG : negb (lk_eqb (lookahead s') LNeg) = negb neg) by (rewrite La; reflexivity).
  clearbody neg.
  destruct (lt_eq_lt_dec p A') as [[Hlt|Heq]|Hgt].
  - (* the rule started before the furthest failure: nothing to record *)
    replace (Nat.eqb A' p) with false by (symmetry; apply Nat.eqb_neq; lia).
    rewrite ltb_0. cbn [andb].
    replace (Nat.eqb p A') with false by (symmetry; apply Nat.eqb_neq; lia).
    fold A'. replace (Nat.ltb A' p) with false by (symmetry; apply Nat.ltb_ge; lia).
    fold A'. replace (Nat.eqb p A') with false by (symmetry; apply Nat.eqb_neq; lia).
    fold A'. replace (Nat.eqb p A') with false by (symmetry; apply Nat.eqb_neq; lia).
    split; [lia|]. auto.
  - (* the rule started exactly at the furthest failure *)
    subst p. rewrite Heq in *. clear Heq.
    rewrite Nat.eqb_refl.
    set (c := repl A' l) in *.
    set (Pold := if Nat.eqb A A' then pos_attempts s1 else []) in *.
    set (Nold := if Nat.eqb A A' then neg_attempts s1 else []) in *.
    assert (Epai : (if Nat.eqb A' A then length (pos_attempts s1) else 0) = length Pold).
    { unfold Pold. rewrite (Nat.eqb_sym A' A). destruct (Nat.eqb A A'); reflexivity. }
    assert (Enai : (if Nat.eqb A' A then length (neg_attempts s1) else 0) = length Nold).
    { unfold Nold. rewrite (Nat.eqb_sym A' A). destruct (Nat.eqb A A'); reflexivity. }
    assert (Eprev : (if Nat.eqb A A' then length (pos_attempts s1) + length (neg_attempts s1) else 0) = length Pold + length Nold).
    { unfold Pold, Nold. destruct (Nat.eqb A A'); reflexivity. }
    rewrite Epai, Enai, Eprev.
    assert (Ecurr : length (pos_attempts s') + length (neg_attempts s') = length c + (length Pold + length Nold)).
    { rewrite HP, HN, !app_length, !rev_length. pose proof (length_pos_neg c). lia. }
    rewrite Ecurr, one_more.
    destruct (Nat.eqb (length c) 1) eqn:One.
    + (* exactly one attempt was recorded inside: it stays *)
      split; [lia|]. fold A'. fold c. rewrite Nat.eqb_refl, One. fold Pold Nold. auto.
    + cbn [attempt_pos pos_attempts neg_attempts set_pos_attempts set_neg_attempts set_attempt_pos lookahead].
      fold A'. rewrite Nat.ltb_irrefl.
      cbn [attempt_pos pos_attempts neg_attempts set_pos_attempts set_neg_attempts set_attempt_pos lookahead].
      fold A'. rewrite Nat.eqb_refl, SG.
      rewrite HP, HN, !vtruncate_app by reflexivity.
      destruct neg; cbn [negb attempt_pos pos_attempts neg_attempts set_pos_attempts set_neg_attempts];
        fold A'; fold c; rewrite Nat.eqb_refl, One, positives_single, negatives_single; fold Pold Nold;
        (split; [lia|]); split; reflexivity.
  - (* the rule started beyond every earlier failure: it becomes the furthest one *)
    replace (Nat.eqb A' p) with false by (symmetry; apply Nat.eqb_neq; lia).
    rewrite ltb_0. cbn [andb].
    replace (Nat.eqb p A') with false by (symmetry; apply Nat.eqb_neq; lia).
    fold A'. replace (Nat.ltb A' p) with true by (symmetry; apply Nat.ltb_lt; lia).
    cbn [attempt_pos pos_attempts neg_attempts set_pos_attempts set_neg_attempts set_attempt_pos lookahead].
    rewrite Nat.eqb_refl, SG.
    assert (L : M < p) by lia.
    assert (EA : Nat.eqb A p = false) by (apply Nat.eqb_neq; lia).
    destruct neg; cbn [negb attempt_pos pos_attempts neg_attempts set_pos_attempts set_neg_attempts set_attempt_pos];
      rewrite Nat.eqb_refl, (repl_above _ _ L), EA; cbn [length]; change (Nat.eqb 0 1) with false; cbv iota; rewrite positives_single, negatives_single;
      (split; [lia|]); split; reflexivity.
Qed.

(* ---------- rule() ---------- *)
Lemma rule_enter_facts s1 :
  let fr := fst (rule_enter s1) in let s2 := snd (rule_enter s1) in
  rf_pos fr = pos s1 /\
  rf_pai fr = (if Nat.eqb (pos s1) (attempt_pos s1) then length (pos_attempts s1) else 0) /\
  rf_nai fr = (if Nat.eqb (pos s1) (attempt_pos s1) then length (neg_attempts s1) else 0) /\
  rf_attempts fr = attempts_at s1 (pos s1) /\ keeps s1 s2.
Proof.
  unfold rule_enter. destruct (Nat.eqb (pos s1) (attempt_pos s1)); destruct (emits s1); cbn;
    repeat split; reflexivity.
Qed.

Definition mode_eq (s s' : pst) : Prop := lookahead s' = lookahead s /\ atomicity s' = atomicity s.

Lemma counts_true_ok sg at_ : counts true sg at_ = negb at_ && is_neg sg.
Proof. unfold counts. destruct (is_neg sg); reflexivity. Qed.
Lemma counts_false_err sg at_ : counts false sg at_ = negb at_ && negb (is_neg sg).
Proof. unfold counts. destruct (is_neg sg); reflexivity. Qed.

(* the state after the `track` step of rule(): called on Ok under negation, on Err outside it *)
Lemma tracked_step rule s1 s' l (m : bool) :
  let fr := fst (rule_enter s1) in
  mode_eq s1 s' -> Tr s1 l s' ->
  let sa := if (if m then lk_eqb (lookahead s') LNeg else negb (lk_eqb (lookahead s') LNeg))
            then track s' rule (rf_pos fr) (rf_pai fr) (rf_nai fr) (rf_attempts fr) else s' in
  mode_eq s1 sa /\ Tr s1 [Attempt rule (pos s1) m (lookahead s1) (atom_eqb (atomicity s1) Atomic) l] sa.
Proof.
  intros fr [La At] T sa.
  destruct (rule_enter_facts s1) as (F1 & F2 & F3 & F4 & _). fold fr in F1, F2, F3, F4.
  assert (TS := track_same s' rule (rf_pos fr) (rf_pai fr) (rf_nai fr) (rf_attempts fr)).
  subst sa. split.
  - destruct (if m then _ else _); [|split; assumption].
    destruct TS. split; congruence.
  - rewrite La. fold (is_neg (lookahead s1)).
    destruct (counts m (lookahead s1) (atom_eqb (atomicity s1) Atomic)) eqn:C.
    + (* counts as a failure: track records it *)
      assert (Cond : (if m then is_neg (lookahead s1) else negb (is_neg (lookahead s1))) = true).
      { destruct m; [rewrite counts_true_ok in C|rewrite counts_false_err in C]; apply andb_prop in C; tauto. }
      rewrite Cond, F1, F2, F3, F4. apply track_Tr; auto.
    + destruct (if m then _ else _) eqn:Cond; [|now apply Tr_node_transparent].
      (* called in Atomic mode: track returns at once *)
      assert (AT : atom_eqb (atomicity s') Atomic = true).
      { rewrite At. destruct m; [rewrite counts_true_ok in C|rewrite counts_false_err in C]; rewrite Cond, andb_true_r in C;
          destruct (atom_eqb (atomicity s1) Atomic); [reflexivity|discriminate C| reflexivity|discriminate C]. }
      rewrite track_atomic by exact AT. now apply Tr_node_transparent.
Qed.

Definition Post (s : pst) (r : res) (l : list attempt) : Prop :=
  match r with ROk s' | RErr s' => mode_eq s s' /\ Tr s l s' | _ => True end.

Lemma keeps_mode s s' : keeps s s' -> mode_eq s s'.
Proof. intros []. split; assumption. Qed.
Lemma mode_trans s1 s2 s3 : mode_eq s1 s2 -> mode_eq s2 s3 -> mode_eq s1 s3.
Proof. intros [] []. split; congruence. Qed.

Lemma rule_ok_Post rule s1 s' l :
  mode_eq s1 s' -> Tr s1 l s' ->
  Post s1 (rule_ok rule (fst (rule_enter s1)) s') [Attempt rule (pos s1) true (lookahead s1) (atom_eqb (atomicity s1) Atomic) l].
Proof.
  intros Mo T. destruct (tracked_step rule s1 s' l true Mo T) as [M2 T2]. cbv zeta in M2, T2.
  unfold rule_ok.
  set (sa := if lk_eqb (lookahead s') LNeg then track s' rule _ _ _ _ else s') in *.
  assert (K : forall y, keeps sa y -> Post s1 (if pa_enabled y then lift ROk (try_add_rule_to_stack y rule (rf_csn (fst (rule_enter s1))) (rf_max (fst (rule_enter s1)))) else ROk y)
                                    [Attempt rule (pos s1) true (lookahead s1) (atom_eqb (atomicity s1) Atomic) l]).
  { intros y Ky. destruct (pa_enabled y).
    - destruct (try_add_rule_to_stack y rule _ _) as [z|] eqn:Ez; cbn [lift]; [|exact I].
      apply try_add_rule_to_stack_core, same_core_keeps in Ez. pose proof (keeps_trans _ _ _ Ky Ez) as Kz.
      split; [eapply mode_trans; [exact M2|now apply keeps_mode]|eapply Tr_keeps_r; eauto].
    - split; [eapply mode_trans; [exact M2|now apply keeps_mode]|eapply Tr_keeps_r; eauto]. }
  destruct (emits sa).
  - destruct (set_start_end (queue sa) _ _) as [q|]; [|exact I]. apply K. split; reflexivity.
  - apply K. apply keeps_refl.
Qed.

Lemma rule_err_Post rule s1 s' l :
  mode_eq s1 s' -> Tr s1 l s' ->
  Post s1 (rule_err rule (fst (rule_enter s1)) s') [Attempt rule (pos s1) false (lookahead s1) (atom_eqb (atomicity s1) Atomic) l].
Proof.
  intros Mo T. destruct (tracked_step rule s1 s' l false Mo T) as [M2 T2]. cbv zeta in M2, T2.
  unfold rule_err.
  assert (K : forall y, keeps (if negb (lk_eqb (lookahead s') LNeg) then track s' rule (rf_pos (fst (rule_enter s1))) (rf_pai (fst (rule_enter s1))) (rf_nai (fst (rule_enter s1))) (rf_attempts (fst (rule_enter s1))) else s') y ->
             Post s1 (RErr (if emits y then set_queue y (vtruncate (rf_index (fst (rule_enter s1))) (queue y)) else y))
                  [Attempt rule (pos s1) false (lookahead s1) (atom_eqb (atomicity s1) Atomic) l]).
  { intros y Ky.
    assert (Kz : keeps y (if emits y then set_queue y (vtruncate (rf_index (fst (rule_enter s1))) (queue y)) else y))
      by (destruct (emits y); split; reflexivity).
    pose proof (keeps_trans _ _ _ Ky Kz) as K2.
    split; [eapply mode_trans; [exact M2|now apply keeps_mode]|eapply Tr_keeps_r; eauto]. }
  destruct (negb (lk_eqb (lookahead s') LNeg)).
  - destruct (pa_enabled _).
    + destruct (try_add_rule_to_stack _ rule _ _) as [z|] eqn:Ez; [|exact I].
      apply K. apply try_add_rule_to_stack_core, same_core_keeps in Ez. exact Ez.
    + apply K. apply keeps_refl.
  - apply K. apply keeps_refl.
Qed.

(* ===================== the invariant over all executions ===================== *)
Lemma Post_nil s s' : keeps s s' -> Post s (ROk s') [] /\ Post s (RErr s') [].
Proof. intros K. split; (split; [now apply keeps_mode|now apply Tr_nil]). Qed.
Lemma Post_pre s0 s r l : keeps s0 s -> Post s r l -> Post s0 r l.
Proof.
  intros K. destruct r as [s'|s'|k|]; cbn; auto; intros [M T];
    (split; [apply (mode_trans _ s); [apply keeps_mode, K|exact M]|eapply Tr_keeps_l; eauto]).
Qed.
Lemma Post_seq s s' r l1 l2 : mode_eq s s' /\ Tr s l1 s' -> Post s' r l2 -> Post s r (l1 ++ l2).
Proof.
  intros [M T]. destruct r as [s2|s2|k|]; cbn; auto; intros [M2 T2];
    (split; [eapply mode_trans; eauto|eapply Tr_app; eauto]).
Qed.
(* results of the shape  lift k (option_map (set_stack x) o)  with k = ROk / RErr / a choice of them *)
Lemma Post_lift s x l (k : pst -> res) o :
  (forall y, k y = ROk y \/ k y = RErr y) -> mode_eq s x /\ Tr s l x ->
  Post s (lift k (option_map (set_stack x) o)) l.
Proof.
  intros kk [M T]. destruct o as [st|]; cbn [option_map lift]; [|exact I].
  assert (K : keeps x (set_stack x st)) by (split; reflexivity).
  destruct (kk (set_stack x st)) as [-> | ->]; cbn;
    (split; [eapply mode_trans; [exact M|now apply keeps_mode]|eapply Tr_keeps_r; eauto]).
Qed.

Section Invariant.
Variable cfg : config.
Variable E : env.

Theorem exec_log_Post : forall fuel p s, Post s (fst (exec_log cfg E fuel p s)) (snd (exec_log cfg E fuel p s)).
Proof.
  induction fuel as [|fuel IH]; intros p s; [exact I|].
  destruct p; cbn [exec_log].
  - (* PPrim *)
    cbn [fst snd]. destruct (exec_prim cfg o s) as [s'|s'|k|] eqn:Ep; try exact I.
    + apply Post_nil. eapply exec_prim_keeps. left; exact Ep.
    + apply Post_nil. eapply exec_prim_keeps. right; exact Ep.
  - (* PRule *)
    destruct (inc_call s) as [s1|] eqn:Ei; [|apply Post_nil, keeps_refl].
    apply inc_call_keeps in Ei.
    destruct (rule_enter s1) as [fr s2] eqn:Er.
    assert (Hfr : fr = fst (rule_enter s1)) by now rewrite Er. assert (Hs2 : s2 = snd (rule_enter s1)) by now rewrite Er.
    destruct (rule_enter_facts s1) as (_ & _ & _ & _ & K2). rewrite <- Hs2 in K2.
    specialize (IH p s2). destruct (exec_log cfg E fuel p s2) as [[s'|s'|k|] l]; cbn [fst snd] in *; try exact I.
    + destruct IH as [M T]. eapply Post_pre; [exact Ei|]. subst fr. apply rule_ok_Post.
      * apply (mode_trans _ s2); [apply keeps_mode, K2|exact M].
      * eapply Tr_keeps_l; eauto.
    + destruct IH as [M T]. eapply Post_pre; [exact Ei|]. subst fr. apply rule_err_Post.
      * apply (mode_trans _ s2); [apply keeps_mode, K2|exact M].
      * eapply Tr_keeps_l; eauto.
  - (* PSequence *)
    destruct (inc_call s) as [s1|] eqn:Ei; [|apply Post_nil, keeps_refl].
    apply inc_call_keeps in Ei.
    specialize (IH p (checkpoint s1)).
    destruct (exec_log cfg E fuel p (checkpoint s1)) as [[s'|s'|k|] l]; cbn [fst snd] in *; try exact I;
      eapply Post_pre; try exact Ei; destruct IH as [M T].
    + unfold checkpoint_ok. apply Post_lift; [auto|]. split; [exact M|exact T].
    + unfold restore_st. apply Post_lift; [auto|].
      split; [destruct M; split; assumption|destruct T as (a & b & c); repeat split; assumption].
  - (* PRepeat *)
    destruct (inc_call s) as [s1|] eqn:Ei; [|apply Post_nil, keeps_refl].
    apply inc_call_keeps in Ei. eapply Post_pre; [exact Ei|]. apply IH.
  - (* PRepeatLoop *)
    pose proof (IH p s) as H1.
    destruct (exec_log cfg E fuel p s) as [[s'|s'|k|] l1]; cbn [fst snd] in *; try exact I.
    + pose proof (IH (PRepeatLoop p) s') as H2.
      destruct (exec_log cfg E fuel (PRepeatLoop p) s') as [r l2]. cbn [fst snd] in *. eapply Post_seq; eauto.
    + exact H1.
  - (* POptional *)
    destruct (inc_call s) as [s1|] eqn:Ei; [|apply Post_nil, keeps_refl].
    apply inc_call_keeps in Ei. eapply Post_pre; [exact Ei|].
    specialize (IH p s1). destruct (exec_log cfg E fuel p s1) as [[s'|s'|k|] l]; cbn [fst snd] in *; auto.
  - (* PLookahead *)
    destruct (inc_call s) as [s1|] eqn:Ei; [|apply Post_nil, keeps_refl].
    apply inc_call_keeps in Ei. eapply Post_pre; [exact Ei|].
    match goal with |- context [exec_log cfg E fuel p ?x] => specialize (IH p x); destruct (exec_log cfg E fuel p x) as [[s'|s'|k|] l] end;
      cbn [fst snd] in *; try exact I; destruct IH as [[M1 M2] (a & b & c)]; unfold restore_st;
      (apply Post_lift; [intros y; destruct positive; auto|]);
      (split; [split; [reflexivity|exact M2]|repeat split; assumption]).
  - (* PAtomic *)
    destruct (inc_call s) as [s1|] eqn:Ei; [|apply Post_nil, keeps_refl].
    apply inc_call_keeps in Ei. eapply Post_pre; [exact Ei|].
    destruct (atom_eqb (atomicity s1) a) eqn:Ta; cbn [negb].
    + specialize (IH p s1). destruct (exec_log cfg E fuel p s1) as [[s'|s'|k|] l]; cbn [fst snd] in *; auto.
    + specialize (IH p (set_atomicity s1 a)).
      destruct (exec_log cfg E fuel p (set_atomicity s1 a)) as [[s'|s'|k|] l]; cbn [fst snd] in *; try exact I;
        destruct IH as [[M1 M2] (a1 & b1 & c1)];
        (split; [split; [exact M1|reflexivity]|repeat split; assumption]).
  - (* PStackPush *)
    destruct (inc_call s) as [s1|] eqn:Ei; [|apply Post_nil, keeps_refl].
    apply inc_call_keeps in Ei. eapply Post_pre; [exact Ei|].
    specialize (IH p s1). destruct (exec_log cfg E fuel p s1) as [[s'|s'|k|] l]; cbn [fst snd] in *; auto.
    destruct (Nat.ltb (pos s') (pos s1)); [exact I|].
    destruct IH as [M (a1 & b1 & c1)]. split; [exact M|repeat split; assumption].
  - (* PRestoreOnErr *)
    specialize (IH p (checkpoint s)).
    destruct (exec_log cfg E fuel p (checkpoint s)) as [[s'|s'|k|] l]; cbn [fst snd] in *; try exact I; destruct IH as [M T].
    + unfold checkpoint_ok. apply Post_lift; [auto|]. split; [exact M|exact T].
    + unfold restore_st. apply Post_lift; [auto|]. split; [exact M|exact T].
  - (* PAndThen *)
    pose proof (IH p1 s) as H1.
    destruct (exec_log cfg E fuel p1 s) as [[s'|s'|k|] l1]; cbn [fst snd] in *; try exact I.
    + pose proof (IH p2 s') as H2.
      destruct (exec_log cfg E fuel p2 s') as [r l2]. cbn [fst snd] in *. eapply Post_seq; eauto.
    + exact H1.
  - (* POrElse *)
    pose proof (IH p1 s) as H1.
    destruct (exec_log cfg E fuel p1 s) as [[s'|s'|k|] l1]; cbn [fst snd] in *; try exact I.
    + exact H1.
    + pose proof (IH p2 s') as H2.
      destruct (exec_log cfg E fuel p2 s') as [r l2]. cbn [fst snd] in *. eapply Post_seq; eauto.
  - (* PIfNonAtomic *) destruct (atom_eqb (atomicity s) NonAtomic); apply IH.
  - (* PCall *) destruct (E f); [apply IH|exact I].
Qed.

End Invariant.

(* ===================== 4. the clauses of the property ===================== *)
Lemma in_positives c r : In r (positives_of c) <-> In (false, r) c.
Proof.
  unfold positives_of. rewrite in_map_iff. split.
  - intros ([b x] & <- & H). apply filter_In in H. destruct H as [H1 H2]. cbn in *. destruct b; [discriminate|exact H1].
  - intros H. exists (false, r). split; [reflexivity|]. apply filter_In. split; [exact H|reflexivity].
Qed.
Lemma in_negatives c r : In r (negatives_of c) <-> In (true, r) c.
Proof.
  unfold negatives_of. rewrite in_map_iff. split.
  - intros ([b x] & <- & H). apply filter_In in H. destruct H as [H1 H2]. cbn in *. destruct b; [exact H1|discriminate].
  - intros H. exists (true, r). split; [reflexivity|]. apply filter_In. split; [exact H|reflexivity].
Qed.

(* every entry of the report stems from a reportable attempt at P that counts as a failure *)
Lemma rep_cnt_sound P : forall a b r, In (b, r) (rep_cnt P a) ->
  exists m sg, In (r, P, m, sg, false) (nodes a) /\ counts m sg false = true /\ is_neg sg = b.
Proof.
  refine (attempt_forall_ind (fun a => forall b r, In (b, r) (rep_cnt P a) ->
            exists m sg, In (r, P, m, sg, false) (nodes a) /\ counts m sg false = true /\ is_neg sg = b) _).
  intros rule p m sg at_ ch IH b r H. rewrite rep_cnt_node in H. cbn [nodes].
  assert (FromChildren : In (b, r) (repl P ch) ->
            exists m0 sg0, In (r, P, m0, sg0, false) ((rule, p, m, sg, at_) :: flat_map nodes ch) /\ counts m0 sg0 false = true /\ is_neg sg0 = b).
  { intros Hc. unfold repl in Hc. apply in_flat_map in Hc. destruct Hc as (x & Hx & Hin).
    rewrite Forall_forall in IH. destruct (IH x Hx b r Hin) as (m0 & sg0 & N & C & S).
    exists m0, sg0. split; [right; apply in_flat_map; eauto|auto]. }
  destruct (counts m sg at_ && Nat.eqb p P) eqn:T; [|auto].
  destruct (Nat.eqb (length (repl P ch)) 1); [auto|].
  destruct H as [H|[]]. injection H as <- <-.
  apply andb_prop in T. destruct T as [C Q]. apply Nat.eqb_eq in Q. subst p.
  assert (at_ = false) by (unfold counts in C; destruct at_; [discriminate C|reflexivity]). subst at_.
  exists m, sg. split; [left; reflexivity|auto].
Qed.

Lemma repl_sound P log b r : In (b, r) (repl P log) ->
  exists m sg, In (r, P, m, sg, false) (nodes_of log) /\ counts m sg false = true /\ is_neg sg = b.
Proof.
  intros H. unfold repl in H. apply in_flat_map in H. destruct H as (x & Hx & Hin).
  destruct (rep_cnt_sound P x b r Hin) as (m & sg & N & C & S).
  exists m, sg. split; [apply in_flat_map; eauto|auto].
Qed.

Lemma is_neg_true sg : is_neg sg = true -> sg = LNeg.
Proof. destruct sg; cbn; congruence. Qed.
Lemma is_neg_false sg : is_neg sg = false -> sg <> LNeg.
Proof. destruct sg; cbn; congruence. Qed.

Lemma repl_failed_at P log r : In (false, r) (repl P log) -> failed_at log r P.
Proof.
  intros H. destruct (repl_sound _ _ _ _ H) as (m & sg & N & C & S).
  unfold counts in C. rewrite S in C. cbn in C. destruct m; [discriminate C|].
  exists sg. split; [exact N|now apply is_neg_false].
Qed.
Lemma repl_matched_negated_at P log r : In (true, r) (repl P log) -> matched_negated_at log r P.
Proof.
  intros H. destruct (repl_sound _ _ _ _ H) as (m & sg & N & C & S).
  unfold counts in C. rewrite S in C. cbn in C. destruct m; [|discriminate C].
  apply is_neg_true in S. subst sg. exact N.
Qed.

(* the two readings coincide outside KnownClass *)
Lemma singleton_one (c : list entry) : length c = 1 -> singleton_set c = true.
Proof. destruct c as [|x [|y c]]; cbn; intros H; try discriminate H. reflexivity. Qed.

Lemma rep_set_cnt P : forall a, known_at P a = false -> rep_set P a = rep_cnt P a.
Proof.
  refine (attempt_forall_ind (fun a => known_at P a = false -> rep_set P a = rep_cnt P a) _).
  intros rule p m sg at_ ch IH K. cbn [known_at] in K. apply orb_false_elim in K. destruct K as [K1 K2].
  assert (Ech : flat_map (rep_set P) ch = flat_map (rep_cnt P) ch).
  { clear K1. induction ch as [|x ch IHch]; [reflexivity|]. cbn [existsb] in K2. apply orb_false_elim in K2.
    destruct K2 as [Kx Kc]. inversion IH as [|? ? Hx Hc]; subst. cbn [flat_map]. rewrite (Hx Kx), (IHch Hc Kc). reflexivity. }
  cbn [rep_set rep_cnt]. rewrite Ech in *.
  destruct (counts m sg at_ && Nat.eqb p P); [|reflexivity]. cbn [andb] in K1.
  destruct (Nat.eqb (length (flat_map (rep_cnt P) ch)) 1) eqn:L.
  - apply Nat.eqb_eq in L. rewrite (singleton_one _ L). reflexivity.
  - cbn [negb] in K1. rewrite andb_true_r in K1. rewrite K1. reflexivity.
Qed.

Lemma report_readings_agree log : KnownClass log = false -> report_of_log log = report_counted log.
Proof.
  unfold KnownClass, report_of_log, report_counted. intros K. f_equal.
  set (P := max_reportable_pos log) in *. clearbody P.
  induction log as [|a log IH]; [reflexivity|]. cbn [existsb] in K. apply orb_false_elim in K. destruct K as [Ka Kl].
  cbn [flat_map]. rewrite (rep_set_cnt P a Ka), (IH Kl). reflexivity.
Qed.

Section TopLevel.
Variable cfg : config.
Variable E : env.

(* from ANY start state: mode preserved, attempt fields = function of the old ones and the forest *)
Theorem exec_log_transfer fuel p s r log s' :
  exec_log cfg E fuel p s = (r, log) -> r = ROk s' \/ r = RErr s' ->
  lookahead s' = lookahead s /\ atomicity s' = atomicity s /\ Tr s log s'.
Proof.
  intros H R. pose proof (exec_log_Post cfg E fuel p s) as P. rewrite H in P. cbn [fst snd] in P.
  destruct R as [-> | ->]; destruct P as [[M1 M2] T]; auto.
Qed.

Theorem top_level_fields fuel p inp lim detail r log s :
  exec_log cfg E fuel p (init inp lim detail) = (r, log) -> r = ROk s \/ r = RErr s ->
  attempt_pos s = max_reportable_pos log /\
  pos_attempts s = rev (positives_of (repl (max_reportable_pos log) log)) /\
  neg_attempts s = rev (negatives_of (repl (max_reportable_pos log) log)).
Proof.
  intros H R. destruct (exec_log_transfer _ _ _ _ _ _ H R) as (_ & _ & A & B & C).
  cbn [init attempt_pos pos_attempts neg_attempts] in A, B, C. rewrite Nat.max_0_l in A.
  rewrite A in B, C. split; [exact A|].
  destruct (Nat.eqb 0 (max_reportable_pos log)); rewrite app_nil_r in B, C; auto.
Qed.

(* what state() reports on failure *)
Theorem failure_report fuel p inp lim detail positives negatives position log :
  parse_with_log cfg E fuel p inp lim detail = (OParsingError positives negatives position, log) ->
  position = max_reportable_pos log /\
  (forall r, In r positives -> failed_at log r position) /\
  (forall r, In r negatives -> matched_negated_at log r position) /\
  strictly_increasing positives /\ strictly_increasing negatives /\
  (positives, negatives) = report_counted log /\
  (KnownClass log = false -> (positives, negatives) = report_of_log log).
Proof.
  unfold parse_with_log, run_state_log. destruct (exec_log cfg E fuel p (init inp lim detail)) as [r l] eqn:H.
  intros [= O <-]. unfold outcome_of in O.
  destruct r as [s|s|k|]; try discriminate O.
  { destruct (fixedlim cfg && limit_reached s); discriminate O. }
  destruct (limit_reached s); [discriminate O|]. injection O as <- <- <-.
  destruct (top_level_fields _ _ _ _ _ _ _ _ H (or_intror eq_refl)) as (A & B & C).
  assert (RC : (sort_dedup (pos_attempts s), sort_dedup (neg_attempts s)) = report_counted l).
  { unfold report_counted, present. fold (repl (max_reportable_pos l) l). rewrite B, C, !sort_dedup_rev. reflexivity. }
  split; [exact A|]. rewrite A.
  split; [intros r Hr; apply (proj1 (sort_dedup_in _ _)) in Hr; rewrite B in Hr; apply (proj2 (in_rev _ _)) in Hr;
          apply (proj1 (in_positives _ _)) in Hr; now apply repl_failed_at|].
  split; [intros r Hr; apply (proj1 (sort_dedup_in _ _)) in Hr; rewrite C in Hr; apply (proj2 (in_rev _ _)) in Hr;
          apply (proj1 (in_negatives _ _)) in Hr; now apply repl_matched_negated_at|].
  split; [apply sort_dedup_sorted|]. split; [apply sort_dedup_sorted|].
  split; [exact RC|]. intros K. rewrite (report_readings_agree _ K). exact RC.
Qed.

Theorem parse_with_log_erasure fuel p inp lim detail :
  fst (parse_with_log cfg E fuel p inp lim detail) = parse_with cfg E fuel p inp lim detail.
Proof.
  unfold parse_with_log, parse_with, run_state_log, run_state.
  rewrite <- exec_log_erasure. destruct (exec_log cfg E fuel p (init inp lim detail)); reflexivity.
Qed.

End TopLevel.
