(* Layer C proofs, part 3c (C12): the statements of coq/props/C12.v, proved.
   The Definitions here are repeated verbatim in props/C12.v (pinned there); the theorems of that
   file are closed by `exact` with the lemmas below. *)
From Coq Require Import List Arith NArith Bool.
Import ListNotations.
Require Import PV.Comb.PState PV.Comb.Bytes PV.Comb.Prog PV.Comb.Exec PV.Comb.CallComm PV.Comb.CallLimit.

Definition c12_case (cfg : config) (E : env) (p : prog) (inp : list byte) (detail : bool) (L f1 f2 : nat) : Prop :=
  let a := parse_with cfg E f1 p inp (Some L) detail in
  let b := parse_with cfg E f2 p inp None detail in
  a <> OOutOfFuel -> b <> OOutOfFuel ->
  (a = b \/ exists ap, a = OCallLimit ap) /\
  (completes a -> forall L' f3, L <= L' ->
     parse_with cfg E f3 p inp (Some L') detail <> OOutOfFuel ->
     parse_with cfg E f3 p inp (Some L') detail = a).

Definition absorbed_class cfg E p inp detail L f1 : Prop := absorbed cfg E f1 p inp L detail = true.
Definition panic_class cfg E p inp detail L f1 : Prop := parse_with cfg E f1 p inp (Some L) detail = OPanic.

Definition shipped : config := {| memchr := true; fixed3 := true; fixedlim := false |}.
Definition repaired : config := {| memchr := true; fixed3 := true; fixedlim := true |}.

(* rule 0 = repeat(rule 1 = match_string "x") on "xxxx" *)
Definition w_prog : prog := PRule 0 (PRepeat (PRule 1 (PPrim (MMatchString [120%N])))).
Definition w_input : list byte := [120; 120; 120; 120]%N.
Definition w_env : env := fun _ => None.
(* optional(optional(push_literal "a")) ; stack_pop   on "a" *)
Definition wp_prog : prog :=
  PAndThen (POptional (POptional (PPrim (MStackPushLit [97%N])))) (PPrim MStackPop).

(* repeat(or_else(sequence(push_literal "q" ; "a"), stack_match_peek)) on "aab": under limit 1 the sequence
   is refused, or_else falls through to stack_match_peek, which matches the empty stack without consuming:
   the loop never ends, although the unlimited parse does *)
Definition wd_prog : prog :=
  PRepeat (POrElse (PSequence (PAndThen (PPrim (MStackPushLit [113%N])) (PPrim (MMatchString [97%N])))) (PPrim MStackMatchPeek)).
Definition wd_input : list byte := [97; 97; 98]%N.

(* limit 3: Ok with one pair instead of four *)
Lemma c12_refuted :
  exists E p inp detail L f,
    let a := parse_with shipped E f p inp (Some L) detail in
    let b := parse_with shipped E f p inp None detail in
    completes a /\ completes b /\ a <> b.
Proof.
  exists w_env, w_prog, w_input, false, 3, 20. vm_compute.
  split; [exact I|split; [exact I|discriminate]].
Qed.

Lemma c12_shipped_not_statement :
  ~ (forall E p inp detail L f1 f2, c12_case shipped E p inp detail L f1 f2).
Proof.
  intros H. pose proof (H w_env w_prog w_input false 3 20 20) as H1. unfold c12_case in H1.
  assert (N1 : parse_with shipped w_env 20 w_prog w_input (Some 3) false <> OOutOfFuel) by (vm_compute; discriminate).
  assert (N2 : parse_with shipped w_env 20 w_prog w_input None false <> OOutOfFuel) by (vm_compute; discriminate).
  destruct (H1 N1 N2) as [[D|[ap D]] _]; vm_compute in D; discriminate.
Qed.

Lemma c12_shipped_outside_classes :
  forall cfg E p inp detail L f1 f2,
    ~ absorbed_class cfg E p inp detail L f1 -> ~ panic_class cfg E p inp detail L f1 ->
    c12_case cfg E p inp detail L f1 f2.
Proof.
  intros cfg E p inp detail L f1 f2 NA NP Ha Hb. unfold absorbed_class in NA. unfold panic_class in NP.
  apply not_true_is_false in NA. split.
  - destruct (limit_result_general cfg E p inp detail L f1 f2 Ha Hb) as [D|[D|[D|[_ D]]]]; auto; congruence.
  - intros Hc L' f3 HL Hf.
    apply (completion_stable_general cfg E p inp detail L (Some L') f1 f3); auto. split; auto.
Qed.

Lemma c12_repaired :
  forall cfg, fixedlim cfg = true ->
  forall E p inp detail L f1 f2,
    ~ panic_class cfg E p inp detail L f1 -> c12_case cfg E p inp detail L f1 f2.
Proof.
  intros cfg F E p inp detail L f1 f2 NP Ha Hb. unfold panic_class in NP. split.
  - destruct (limit_result_general cfg E p inp detail L f1 f2 Ha Hb) as [D|[D|[D|[D _]]]]; auto; congruence.
  - intros Hc L' f3 HL Hf.
    apply (completion_stable_general cfg E p inp detail L (Some L') f1 f3); auto.
    + split; auto.
    + now apply completes_not_absorbed.
Qed.

(* the same, as one disjunction without a class hypothesis *)
Lemma c12_repaired_trichotomy :
  forall cfg, fixedlim cfg = true ->
  forall E p inp detail L f1 f2,
    let a := parse_with cfg E f1 p inp (Some L) detail in
    let b := parse_with cfg E f2 p inp None detail in
    a <> OOutOfFuel -> b <> OOutOfFuel ->
    a = b \/ (exists ap, a = OCallLimit ap) \/ a = OPanic.
Proof.
  intros cfg F E p inp detail L f1 f2 a b Ha Hb.
  destruct (limit_result_general cfg E p inp detail L f1 f2 Ha Hb) as [D|[D|[D|[D _]]]]; auto; congruence.
Qed.

Lemma c12_panic_class_inhabited :
  exists E p inp detail L f,
    parse_with repaired E f p inp (Some L) detail = OPanic /\
    completes (parse_with repaired E f p inp None detail).
Proof. exists w_env, wp_prog, [97%N], false, 1, 20. vm_compute. split; [reflexivity|exact I]. Qed.

Lemma c12_lemmas :
  (forall cfg E fuel p s, res_cl s (exec cfg E fuel p s)) /\
  (forall cfg E fuel p s, limit_reached s = true -> res_reached (exec cfg E fuel p s)) /\
  (forall cfg E f f' p s, f <= f' -> exec cfg E f p s <> ROutOfFuel -> exec cfg E f' p s = exec cfg E f p s) /\
  (forall cfg E L l fuel p sA c, limit sA = Some L -> lax L (calls sA) c l ->
     simpost L l (exec cfg E fuel p sA) (exec cfg E fuel p (recl sA c l))).
Proof.
  split; [exact exec_cl|]. split; [exact refusal_sticky|]. split; [exact exec_mono|exact under_limit_simulation].
Qed.
