(* Layer C, part 4: executable model of pest/src/parser_state.rs.
   `exec cfg E fuel p s` runs the closure tree `p` on the state `s`.  Every Rust panic site is
   an explicit RPanic; fuel bounds recursion depth + loop iterations (ROutOfFuel).            *)
From Coq Require Import List Arith NArith ZArith Bool.
Import ListNotations.
Require Import PV.Stack.Model PV.Comb.PState PV.Comb.Bytes PV.Comb.Prog.

(* ---------- Vec helpers on the reversed representation (head = last element) ---------- *)
Definition vtruncate {A} (n : nat) (l : list A) : list A :=      (* Vec::truncate(n) *)
  if Nat.ltb n (length l) then skipn (length l - n) l else l.
(* Vec order slice [a, b) of a reversed list *)
Definition vslice {A} (a b : nat) (l : list A) : list A := firstn (b - a) (skipn a (rev l)).

(* ---------- call limit ---------- *)
Definition limit_reached (s : pst) : bool :=
  match limit s with Some l => Nat.leb l (calls s) | None => false end.
Definition inc_call (s : pst) : option pst :=          (* None = Err(self) *)
  if limit_reached s then None
  else match limit s with Some _ => Some (set_calls s (S (calls s))) | None => Some s end.

(* ---------- ParseAttempts ---------- *)
Definition token_cs : cstack := {| deepest := None; parent := None |}.
Definition is_token (c : cstack) : bool := match deepest c with None => true | Some _ => false end.

Definition push_token (s : pst) (t : ptoken) (neg : bool) : pst :=
  if neg then set_unexpected s (t :: unexpected s) else set_expected s (t :: expected s).

Definition try_add_new_token (s : pst) (t : ptoken) (start_position position : nat) (neg : bool) : pst :=
  if Nat.ltb (max_position s) position then
    if neg && Nat.ltb (max_position s) start_position then s
    else
      let s1 := push_token s t neg in
      if neg then s1
      else set_call_stacks (set_unexpected (set_expected (set_max_position s1 position) []) []) [token_cs]
  else if Nat.eqb position (max_position s) then
    let s1 := push_token s t neg in
    set_call_stacks s1 (token_cs :: call_stacks s1)
  else s.

Definition nullify_expected_tokens (s : pst) (p : nat) : pst :=
  set_max_position (set_unexpected (set_expected (set_call_stacks s []) []) []) p.

Definition handle_token_parse_result (s : pst) (start_position : nat) (t : ptoken) (succeeded : bool) : pst :=
  let current_pos := pos s in
  if succeeded then
    if lk_eqb (lookahead s) LNeg then try_add_new_token s t start_position current_pos true
    else if Nat.ltb (max_position s) current_pos then nullify_expected_tokens s current_pos
    else s
  else if negb (lk_eqb (lookahead s) LNeg) then try_add_new_token s t start_position current_pos false
  else s.

Definition CALL_STACK_CHILDREN_THRESHOLD := 4.

(* None = panic (splice range start beyond the length) *)
Definition try_add_new_stack_rule (s : pst) (rule : nat) (start_index : nat) : option pst :=
  let cs := call_stacks s in
  let len := length cs in
  if Nat.ltb len start_index then None else
  let tail := firstn (len - start_index) cs in          (* elements from start_index on, newest first *)
  let keep := skipn (len - start_index) cs in
  let token_met := existsb is_token tail in
  let non_token := filter (fun c => negb (is_token c)) tail in
  let non_token := if token_met && (match non_token with [] => true | _ => false end) then [token_cs] else non_token in
  if Nat.leb CALL_STACK_CHILDREN_THRESHOLD (length non_token) then
    Some (set_call_stacks s ({| deepest := Some rule; parent := None |} :: keep))
  else
    Some (set_call_stacks s
      (map (fun c => if is_token c then {| deepest := Some rule; parent := parent c |}
                     else {| deepest := deepest c; parent := Some rule |}) non_token ++ keep)).

(* ---------- attempts tracking ---------- *)
Definition attempts_at (s : pst) (p : nat) : nat :=
  if Nat.eqb (attempt_pos s) p then length (pos_attempts s) + length (neg_attempts s) else 0.

Definition track (s : pst) (rule p pai nai prev_attempts : nat) : pst :=
  if atom_eqb (atomicity s) Atomic then s else
  let curr := attempts_at s p in
  if Nat.ltb prev_attempts curr && Nat.eqb (curr - prev_attempts) 1 then s else
  let s1 := if Nat.eqb p (attempt_pos s)
            then set_neg_attempts (set_pos_attempts s (vtruncate pai (pos_attempts s))) (vtruncate nai (neg_attempts s))
            else s in
  let s2 := if Nat.ltb (attempt_pos s1) p
            then set_attempt_pos (set_neg_attempts (set_pos_attempts s1 []) []) p
            else s1 in
  if Nat.eqb p (attempt_pos s2) then
    if negb (lk_eqb (lookahead s2) LNeg) then set_pos_attempts s2 (rule :: pos_attempts s2)
    else set_neg_attempts s2 (rule :: neg_attempts s2)
  else s2.

(* ---------- matching primitives at the ParserState level ---------- *)
Definition apply_pres (s : pst) (r : pres) (t : option ptoken) : res :=
  match r with
  | PPanic => RPanic PkBoundary
  | PMoved p =>
      let s1 := set_pos s p in
      ROk (match t with Some tk => if pa_enabled s then handle_token_parse_result s1 (pos s) tk true else s1 | None => s1 end)
  | PStay =>
      RErr (match t with Some tk => if pa_enabled s then handle_token_parse_result s (pos s) tk false else s | None => s end)
  end.

Definition st_match_string (s : pst) (str : list byte) : res :=
  apply_pres s (match_string (input s) (pos s) str) (Some (TSens str)).

(* i32 index normalisation *)
Definition normalize_index (i : Z) (len : nat) : option nat :=
  if (Z.of_nat len <? i)%Z then None
  else if (0 <=? i)%Z then Some (Z.to_nat i)
  else let real := (Z.of_nat len + i)%Z in if (0 <=? real)%Z then Some (Z.to_nat real) else None.
Definition constrain_idxs (i : Z) (j : option Z) (len : nat) : option (nat * nat) :=
  match normalize_index i len with
  | None => None
  | Some a => match j with
              | None => Some (a, len)
              | Some e => match normalize_index e len with None => None | Some b => Some (a, b) end
              end
  end.

(* `iter.all(|span| position.match_string(span))` on a copy of the position *)
Fixpoint match_all (inp : list byte) (p : nat) (l : list (list byte)) : option nat :=
  match l with
  | [] => Some p
  | x :: r => match match_string inp p x with PMoved p' => match_all inp p' r | _ => None end
  end.

(* stack_match_pop's loop: pops while the popped element matches; returns the final stack,
   the position reached and whether every popped element matched.  None = stack panic. *)
Fixpoint match_pop_loop (fuel : nat) (inp : list byte) (st : stk (list byte)) (p : nat) : option (stk (list byte) * nat * bool) :=
  match fuel with
  | O => Some (st, p, true)
  | S f =>
    match pop st with
    | (st', None) => Some (st', p, true)
    | (st', Some x) =>
      match match_string inp p x with
      | PMoved p' => match_pop_loop f inp st' p'
      | _ => Some (st', p, false)
      end
    end
  end.

Definition peek_slice (s : pst) (i : Z) (j : option Z) (d : dir) : res :=
  match constrain_idxs i j (length (cache (stack s))) with
  | None => RErr s
  | Some (a, b) =>
    if Nat.leb b a then ROk s else
    let sl := vslice a b (cache (stack s)) in
    let sl := match d with BottomToTop => sl | TopToBottom => rev sl end in
    match match_all (input s) (pos s) sl with Some p => ROk (set_pos s p) | None => RErr s end
  end.

Definition exec_prim (cfg : config) (o : prim) (s : pst) : res :=
  match o with
  | MOk => ROk s
  | MErr => RErr s
  | MMatchString str => st_match_string s str
  | MMatchInsens str => apply_pres s (match_insensitive (input s) (pos s) str) (Some (TInsens str))
  | MMatchRange lo hi => apply_pres s (match_range (input s) (pos s) lo hi) (Some (TRange lo hi))
  | MMatchCharBy rs => apply_pres s (match_char_by (input s) (pos s) rs) (Some TBuiltin)
  | MSkip n => apply_pres s (skip (input s) (pos s) n) None
  | MSkipUntil ss => match skip_until cfg (input s) (pos s) ss with None => RPanic PkBoundary | Some p => ROk (set_pos s p) end
  | MSoi => if Nat.eqb (pos s) 0 then ROk s else RErr s
  | MEoi => if Nat.eqb (pos s) (length (input s)) then ROk s else RErr s
  | MStackPushLit str => ROk (set_stack s (push (stack s) str))
  | MStackPeek => match peek (stack s) with None => RPanic PkEmptyStack | Some str => st_match_string s str end
  | MStackPop => match pop (stack s) with
                 | (_, None) => RPanic PkEmptyStack
                 | (st', Some str) => st_match_string (set_stack s st') str
                 end
  | MStackDrop => match pop (stack s) with (_, None) => RErr s | (st', Some _) => ROk (set_stack s st') end
  | MStackMatchPeek => peek_slice s 0%Z None TopToBottom
  | MPeekSlice i j d => peek_slice s i j d
  | MStackMatchPop =>
      match match_pop_loop (S (length (cache (stack s)))) (input s) (stack s) (pos s) with
      | None => RPanic PkInternal
      | Some (st', p, true) => ROk (set_pos (set_stack s st') p)
      | Some (st', _, false) => RErr (set_stack s st')
      end
  | MTagNode t =>
      if negb (lk_eqb (lookahead s) LNone) then ROk s else
      match queue s with
      | QEnd si r _ p :: q => ROk (set_queue s (QEnd si r (Some t) p :: q))
      | _ => ROk s
      end
  end.

(* ---------- checkpoints ---------- *)
Definition checkpoint (s : pst) : pst := set_stack s (snapshot (stack s)).
Definition checkpoint_ok (s : pst) : option pst := option_map (set_stack s) (clear_snapshot (stack s)).
Definition restore_st (s : pst) : option pst := option_map (set_stack s) (restore (stack s)).
Definition lift (f : pst -> res) (o : option pst) : res := match o with None => RPanic PkInternal | Some s => f s end.

(* ---------- rule() ---------- *)
Definition emits (s : pst) : bool := lk_eqb (lookahead s) LNone && negb (atom_eqb (atomicity s) Atomic).

(* queue[index] = Start{..} => set end_token_index; anything else panics (index OOB / unreachable!) *)
Definition set_start_end (q : list qtoken) (index new_index : nat) : option (list qtoken) :=
  let len := length q in
  if Nat.ltb index len then
    let k := len - 1 - index in          (* offset from the head of the reversed list *)
    match nth_error q k with
    | Some (QStart _ p) => Some (firstn k q ++ QStart new_index p :: skipn (S k) q)
    | _ => None
    end
  else None.

Definition try_add_rule_to_stack (s : pst) (rule remember_csn remember_max : nat) : option pst :=
  let csn := if Nat.ltb remember_max (max_position s) then 0 else remember_csn in
  if negb (atom_eqb (atomicity s) Atomic) then try_add_new_stack_rule s rule csn else Some s.

Record rule_frame := { rf_pos : nat; rf_index : nat; rf_pai : nat; rf_nai : nat; rf_attempts : nat; rf_csn : nat; rf_max : nat }.

Definition rule_enter (s : pst) : rule_frame * pst :=
  let actual_pos := pos s in
  let index := length (queue s) in
  let '(pai, nai) := if Nat.eqb actual_pos (attempt_pos s)
                     then (length (pos_attempts s), length (neg_attempts s)) else (0, 0) in
  let s1 := if emits s then set_queue s (QStart 0 actual_pos :: queue s) else s in
  ({| rf_pos := actual_pos; rf_index := index; rf_pai := pai; rf_nai := nai;
      rf_attempts := attempts_at s1 actual_pos; rf_csn := length (call_stacks s1); rf_max := max_position s1 |}, s1).

Definition rule_ok (rule : nat) (fr : rule_frame) (s : pst) : res :=
  let s1 := if lk_eqb (lookahead s) LNeg then track s rule (rf_pos fr) (rf_pai fr) (rf_nai fr) (rf_attempts fr) else s in
  let r2 := if emits s1 then
              match set_start_end (queue s1) (rf_index fr) (length (queue s1)) with
              | None => None
              | Some q => Some (set_queue s1 (QEnd (rf_index fr) rule None (pos s1) :: q))
              end
            else Some s1 in
  match r2 with
  | None => RPanic PkInternal
  | Some s2 =>
    if pa_enabled s2 then lift ROk (try_add_rule_to_stack s2 rule (rf_csn fr) (rf_max fr)) else ROk s2
  end.

Definition rule_err (rule : nat) (fr : rule_frame) (s : pst) : res :=
  let r1 := if negb (lk_eqb (lookahead s) LNeg) then
              let s1 := track s rule (rf_pos fr) (rf_pai fr) (rf_nai fr) (rf_attempts fr) in
              if pa_enabled s1 then try_add_rule_to_stack s1 rule (rf_csn fr) (rf_max fr) else Some s1
            else Some s in
  match r1 with
  | None => RPanic PkInternal
  | Some s2 => RErr (if emits s2 then set_queue s2 (vtruncate (rf_index fr) (queue s2)) else s2)
  end.

Definition enter_lookahead (positive : bool) (l : lk) : lk :=
  if positive then match l with LNeg => LNeg | _ => LPos end
  else match l with LNeg => LPos | _ => LNeg end.

(* ---------- the interpreter ---------- *)
Section Exec.
Variable cfg : config.
Variable E : env.

Fixpoint exec (fuel : nat) (p : prog) (s : pst) {struct fuel} : res :=
  match fuel with
  | O => ROutOfFuel
  | S fuel' =>
    match p with
    | PPrim o => exec_prim cfg o s
    | PAndThen p q => match exec fuel' p s with ROk s' => exec fuel' q s' | r => r end
    | POrElse p q => match exec fuel' p s with RErr s' => exec fuel' q s' | r => r end
    | PIfNonAtomic p q => if atom_eqb (atomicity s) NonAtomic then exec fuel' p s else exec fuel' q s
    | PCall f => match E f with None => RPanic PkUndefined | Some q => exec fuel' q s end
    | POptional p =>
        match inc_call s with
        | None => RErr s
        | Some s1 => match exec fuel' p s1 with ROk s' | RErr s' => ROk s' | r => r end
        end
    | PRepeat p =>
        match inc_call s with None => RErr s | Some s1 => exec fuel' (PRepeatLoop p) s1 end
    | PRepeatLoop p =>
        match exec fuel' p s with
        | ROk s' => exec fuel' (PRepeatLoop p) s'
        | RErr s' => ROk s'
        | r => r
        end
    | PSequence p =>
        match inc_call s with
        | None => RErr s
        | Some s1 =>
          let token_index := length (queue s1) in
          let initial_pos := pos s1 in
          match exec fuel' p (checkpoint s1) with
          | ROk s' => lift ROk (checkpoint_ok s')
          | RErr s' => lift RErr (restore_st (set_queue (set_pos s' initial_pos) (vtruncate token_index (queue s'))))
          | r => r
          end
        end
    | PLookahead positive p =>
        match inc_call s with
        | None => RErr s
        | Some s1 =>
          let initial_lookahead := lookahead s1 in
          let initial_pos := pos s1 in
          let s2 := set_lookahead s1 (enter_lookahead positive initial_lookahead) in
          match exec fuel' p (checkpoint s2) with
          | ROk s' =>
              lift (fun x => if positive then ROk x else RErr x)
                   (restore_st (set_lookahead (set_pos s' initial_pos) initial_lookahead))
          | RErr s' =>
              lift (fun x => if positive then RErr x else ROk x)
                   (restore_st (set_lookahead (set_pos s' initial_pos) initial_lookahead))
          | r => r
          end
        end
    | PAtomic a p =>
        match inc_call s with
        | None => RErr s
        | Some s1 =>
          let initial := atomicity s1 in
          let toggle := negb (atom_eqb initial a) in
          let s2 := if toggle then set_atomicity s1 a else s1 in
          match exec fuel' p s2 with
          | ROk s' => ROk (if toggle then set_atomicity s' initial else s')
          | RErr s' => RErr (if toggle then set_atomicity s' initial else s')
          | r => r
          end
        end
    | PStackPush p =>
        match inc_call s with
        | None => RErr s
        | Some s1 =>
          let start := pos s1 in
          match exec fuel' p s1 with
          | ROk s' =>
              if Nat.ltb (pos s') start then RPanic PkInternal     (* &input[start..end] with start > end *)
              else ROk (set_stack s' (push (stack s') (firstn (pos s' - start) (skipn start (input s')))))
          | r => r
          end
        end
    | PRestoreOnErr p =>
        match exec fuel' p (checkpoint s) with
        | ROk s' => lift ROk (checkpoint_ok s')
        | RErr s' => lift RErr (restore_st s')
        | r => r
        end
    | PRule rule p =>
        match inc_call s with
        | None => RErr s
        | Some s1 =>
          let '(fr, s2) := rule_enter s1 in
          match exec fuel' p s2 with
          | ROk s' => rule_ok rule fr s'
          | RErr s' => rule_err rule fr s'
          | r => r
          end
        end
    end
  end.

End Exec.

(* state(): the public entry point.  Observable result of a parse. *)
Fixpoint insert_sorted (x : nat) (l : list nat) : list nat :=
  match l with
  | [] => [x]
  | y :: r => if Nat.ltb x y then x :: l else if Nat.eqb x y then l else y :: insert_sorted x r
  end.
(* Vec::sort followed by Vec::dedup, as one function: a strictly increasing list of the elements *)
Definition sort_dedup (l : list nat) : list nat := fold_right insert_sorted [] l.

Inductive outcome :=
| OPairs (q : list qtoken)                                   (* Ok: the token queue in stream order *)
| OCallLimit (apos : nat)                                    (* Err: CustomError "call limit reached" *)
| OParsingError (positives negatives : list nat) (apos : nat)
| OPanic
| OOutOfFuel.

Definition outcome_of (cfg : config) (r : res) : outcome :=
  match r with
  | ROk s => if fixedlim cfg && limit_reached s then OCallLimit (attempt_pos s) else OPairs (rev (queue s))
  | RErr s => if limit_reached s then OCallLimit (attempt_pos s)
              else OParsingError (sort_dedup (pos_attempts s)) (sort_dedup (neg_attempts s)) (attempt_pos s)
  | RPanic _ => OPanic
  | ROutOfFuel => OOutOfFuel
  end.

Definition run_state (cfg : config) (E : env) (fuel : nat) (p : prog) (inp : list byte) (lim : option nat) (detail : bool) : res :=
  exec cfg E fuel p (init inp lim detail).
Definition parse_with (cfg : config) (E : env) (fuel : nat) (p : prog) (inp : list byte) (lim : option nat) (detail : bool) : outcome :=
  outcome_of cfg (run_state cfg E fuel p inp lim detail).
