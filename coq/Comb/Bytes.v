(* Layer C, part 2: byte-level model of the matching primitives of pest/src/position.rs.
   The input is the UTF-8 byte sequence of a Rust &str; `pos` is a byte offset.  Each function
   returns `option (option nat)`-like results through the small type `pres`:
     PMoved p   the primitive succeeded and the position is now p
     PStay      it failed, position unchanged
     PPanic     the Rust code would panic here (slice on a non-boundary / out of range)      *)
From Coq Require Import List Arith NArith Bool Lia.
Import ListNotations.
Require Import PV.Comb.PState.

Inductive pres := PMoved (p : nat) | PStay | PPanic.

Definition is_cont (b : byte) : bool := (128 <=? b)%N && (b <? 192)%N.

(* str::is_char_boundary *)
Definition boundaryb (inp : list byte) (p : nat) : bool :=
  match Nat.compare p (length inp) with
  | Eq => true
  | Gt => false
  | Lt => negb (is_cont (nth p inp 0%N))
  end.

Fixpoint prefixb (a b : list byte) : bool :=
  match a, b with
  | [], _ => true
  | x :: a', y :: b' => N.eqb x y && prefixb a' b'
  | _, _ => false
  end.

Definition ascii_lower (b : byte) : byte := if (65 <=? b)%N && (b <=? 90)%N then (b + 32)%N else b.
Fixpoint prefixb_ci (a b : list byte) : bool :=
  match a, b with
  | [], _ => true
  | x :: a', y :: b' => N.eqb (ascii_lower x) (ascii_lower y) && prefixb_ci a' b'
  | _, _ => false
  end.

(* first char of a valid UTF-8 byte sequence: (code point, length in bytes) *)
Definition decode1 (l : list byte) : option (N * nat) :=
  match l with
  | [] => None
  | b0 :: r =>
    if (b0 <? 128)%N then Some (b0, 1)
    else if (b0 <? 192)%N then None
    else if (b0 <? 224)%N then
      match r with b1 :: _ => Some ((N.land b0 31 * 64 + N.land b1 63)%N, 2) | _ => None end
    else if (b0 <? 240)%N then
      match r with b1 :: b2 :: _ => Some (((N.land b0 15 * 64 + N.land b1 63) * 64 + N.land b2 63)%N, 3) | _ => None end
    else
      match r with b1 :: b2 :: b3 :: _ =>
        Some ((((N.land b0 7 * 64 + N.land b1 63) * 64 + N.land b2 63) * 64 + N.land b3 63)%N, 4) | _ => None end
  end.

(* `self.input[self.pos..].chars().next()`: panics when pos is not a boundary *)
Definition char_at (inp : list byte) (p : nat) : option (option (N * nat)) :=
  if boundaryb inp p then Some (decode1 (skipn p inp)) else None.

(* match_string: byte comparison through `as_bytes().get(pos..to)` *)
Definition match_string (inp : list byte) (p : nat) (s : list byte) : pres :=
  if prefixb s (skipn p inp) then PMoved (p + length s) else PStay.

(* match_insensitive: `&input[pos..]` then `.get(0..len)` (None unless pos+len is a boundary) *)
Definition match_insensitive (inp : list byte) (p : nat) (s : list byte) : pres :=
  if boundaryb inp p then
    if boundaryb inp (p + length s) && prefixb_ci s (skipn p inp) then PMoved (p + length s) else PStay
  else PPanic.

Definition match_range (inp : list byte) (p : nat) (lo hi : N) : pres :=
  match char_at inp p with
  | None => PPanic
  | Some None => PStay
  | Some (Some (c, n)) => if (lo <=? c)%N && (c <=? hi)%N then PMoved (p + n) else PStay
  end.

(* character classes of match_char_by: a finite union of inclusive code-point ranges *)
Definition in_ranges (rs : list (N * N)) (c : N) : bool :=
  existsb (fun r => (fst r <=? c)%N && (c <=? snd r)%N) rs.

Definition match_char_by (inp : list byte) (p : nat) (rs : list (N * N)) : pres :=
  match char_at inp p with
  | None => PPanic
  | Some None => PStay
  | Some (Some (c, n)) => if in_ranges rs c then PMoved (p + n) else PStay
  end.

(* skip(n): n chars forward *)
Fixpoint skip_len (l : list byte) (n : nat) : option nat :=
  match n with
  | O => Some 0
  | S n' => match decode1 l with
            | None => None
            | Some (_, k) => match skip_len (skipn k l) n' with None => None | Some t => Some (k + t) end
            end
  end.
Definition skip (inp : list byte) (p : nat) (n : nat) : pres :=
  if boundaryb inp p then
    match skip_len (skipn p inp) n with Some k => PMoved (p + k) | None => PStay end
  else PPanic.

(* skip_until_basic: first boundary offset >= pos where some string is a byte prefix, else len *)
Fixpoint skip_until_basic_from (inp : list byte) (ss : list (list byte)) (from : nat) (count : nat) : nat :=
  match count with
  | O => length inp
  | S c =>
    if boundaryb inp from && existsb (fun s => prefixb s (skipn from inp)) ss then from
    else skip_until_basic_from inp ss (S from) c
  end.
Definition skip_until_basic (inp : list byte) (p : nat) (ss : list (list byte)) : nat :=
  skip_until_basic_from inp ss p (length inp - p).

(* memmem::find(haystack = input[pos..], needle): first byte offset where needle is a prefix
   (offset len included: an empty needle is found in an empty haystack) *)
Fixpoint memmem_from (inp : list byte) (needle : list byte) (from : nat) (count : nat) : option nat :=
  if prefixb needle (skipn from inp) then Some from
  else match count with O => None | S c => memmem_from inp needle (S from) c end.

(* memchr{2,3}_iter + the starts_with test of the loop body; `&input[pos+from..]` panics off a boundary *)
Fixpoint memchr_scan (inp : list byte) (firsts : list byte) (ss : list (list byte)) (from : nat) (count : nat)
  : option (option nat) :=   (* None = panic; Some None = not found *)
  match count with
  | O => Some None
  | S c =>
    if existsb (N.eqb (nth from inp 0%N)) firsts then
      if boundaryb inp from then
        if existsb (fun s => prefixb s (skipn from inp)) ss then Some (Some from)
        else memchr_scan inp firsts ss (S from) c
      else None
    else memchr_scan inp firsts ss (S from) c
  end.

Definition nonempty (s : list byte) : bool := match s with [] => false | _ => true end.
Definition first_byte (s : list byte) : byte := hd 0%N s.

(* skip_until with the `memchr` feature, arm by arm as written in position.rs.
   `fixed3 = false` is the code as found at the pinned commit (guard `s3.is_empty()`, b3 taken from s2);
   `fixed3 = true` the repaired arm (`!s3.is_empty()`, b3 from s3). *)
Definition skip_until_memchr (fixed3 : bool) (inp : list byte) (p : nat) (ss : list (list byte)) : option nat :=
  let len := length inp in
  match ss with
  | [] => Some len
  | [s1] => match memmem_from inp s1 p (len - p) with Some f => Some f | None => Some len end
  | [s1; s2] =>
    if nonempty s1 && nonempty s2 then
      match memchr_scan inp [first_byte s1; first_byte s2] ss p (len - p) with
      | None => None | Some (Some f) => Some f | Some None => Some len end
    else Some (skip_until_basic inp p ss)
  | [s1; s2; s3] =>
    if nonempty s1 && nonempty s2 && (if fixed3 then nonempty s3 else negb (nonempty s3)) then
      match memchr_scan inp [first_byte s1; first_byte s2; if fixed3 then first_byte s3 else first_byte s2] ss p (len - p) with
      | None => None | Some (Some f) => Some f | Some None => Some len end
    else Some (skip_until_basic inp p ss)
  | _ => Some (skip_until_basic inp p ss)
  end.

(* feature configuration *)
(* memchr: the cargo feature; fixed3: the repaired three-string memchr arm (fix: commit in /repo);
   fixedlim: state() also consults the call limit when the closure returned Ok (repair of C12) *)
Record config := { memchr : bool; fixed3 : bool; fixedlim : bool }.
Definition skip_until (cfg : config) (inp : list byte) (p : nat) (ss : list (list byte)) : option nat :=
  if memchr cfg then skip_until_memchr (fixed3 cfg) inp p ss else Some (skip_until_basic inp p ss).
