(* Layer C, part 3: deep embedding of the closures a client of ParserState can build.
   `prim` are the non-recursive state operations, `prog` the combinators.  *)
From Coq Require Import List Arith NArith ZArith Bool.
Import ListNotations.
Require Import PV.Comb.PState.

Inductive dir := BottomToTop | TopToBottom.

Inductive prim :=
| MOk                                   (* |s| Ok(s)  *)
| MErr                                  (* |s| Err(s) *)
| MMatchString (s : list byte)
| MMatchInsens (s : list byte)
| MMatchRange (lo hi : N)
| MMatchCharBy (ranges : list (N * N))  (* the closure's char set, as inclusive ranges *)
| MSkip (n : nat)
| MSkipUntil (ss : list (list byte))
| MSoi
| MEoi
| MStackPushLit (s : list byte)
| MStackPeek
| MStackPop
| MStackDrop
| MStackMatchPeek
| MStackMatchPop
| MPeekSlice (i : Z) (j : option Z) (d : dir)
| MTagNode (t : nat).

Inductive prog :=
| PPrim (o : prim)
| PRule (r : nat) (p : prog)
| PSequence (p : prog)
| PRepeat (p : prog)
| PRepeatLoop (p : prog)               (* the `loop` inside repeat, after inc_call *)
| POptional (p : prog)
| PLookahead (positive : bool) (p : prog)
| PAtomic (a : atom) (p : prog)
| PStackPush (p : prog)
| PRestoreOnErr (p : prog)
| PAndThen (p q : prog)
| POrElse (p q : prog)
| PIfNonAtomic (p q : prog)            (* if state.atomicity() == NonAtomic { p } else { q } *)
| PCall (f : nat).                     (* call of a named closure (recursion) *)

Definition env := nat -> option prog.
