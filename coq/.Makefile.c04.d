Iter/Queue.vo Iter/Queue.glob Iter/Queue.v.beautified Iter/Queue.required_vo: Iter/Queue.v 
Iter/Queue.vio: Iter/Queue.v 
Iter/Queue.vos Iter/Queue.vok Iter/Queue.required_vos: Iter/Queue.v 
Iter/QueueFacts.vo Iter/QueueFacts.glob Iter/QueueFacts.v.beautified Iter/QueueFacts.required_vo: Iter/QueueFacts.v Iter/Queue.vo
Iter/QueueFacts.vio: Iter/QueueFacts.v Iter/Queue.vio
Iter/QueueFacts.vos Iter/QueueFacts.vok Iter/QueueFacts.required_vos: Iter/QueueFacts.v Iter/Queue.vos
Iter/Model.vo Iter/Model.glob Iter/Model.v.beautified Iter/Model.required_vo: Iter/Model.v Iter/Queue.vo
Iter/Model.vio: Iter/Model.v Iter/Queue.vio
Iter/Model.vos Iter/Model.vok Iter/Model.required_vos: Iter/Model.v Iter/Queue.vos
Iter/Spec.vo Iter/Spec.glob Iter/Spec.v.beautified Iter/Spec.required_vo: Iter/Spec.v Iter/Queue.vo Iter/Model.vo
Iter/Spec.vio: Iter/Spec.v Iter/Queue.vio Iter/Model.vio
Iter/Spec.vos Iter/Spec.vok Iter/Spec.required_vos: Iter/Spec.v Iter/Queue.vos Iter/Model.vos
Iter/Support.vo Iter/Support.glob Iter/Support.v.beautified Iter/Support.required_vo: Iter/Support.v Iter/Queue.vo Iter/Model.vo
Iter/Support.vio: Iter/Support.v Iter/Queue.vio Iter/Model.vio
Iter/Support.vos Iter/Support.vok Iter/Support.required_vos: Iter/Support.v Iter/Queue.vos Iter/Model.vos
Iter/PairsProofs.vo Iter/PairsProofs.glob Iter/PairsProofs.v.beautified Iter/PairsProofs.required_vo: Iter/PairsProofs.v Iter/Queue.vo Iter/QueueFacts.vo Iter/Model.vo Iter/Spec.vo
Iter/PairsProofs.vio: Iter/PairsProofs.v Iter/Queue.vio Iter/QueueFacts.vio Iter/Model.vio Iter/Spec.vio
Iter/PairsProofs.vos Iter/PairsProofs.vok Iter/PairsProofs.required_vos: Iter/PairsProofs.v Iter/Queue.vos Iter/QueueFacts.vos Iter/Model.vos Iter/Spec.vos
Iter/Machines.vo Iter/Machines.glob Iter/Machines.v.beautified Iter/Machines.required_vo: Iter/Machines.v Iter/Queue.vo Iter/QueueFacts.vo Iter/Model.vo Iter/Spec.vo Iter/PairsProofs.vo
Iter/Machines.vio: Iter/Machines.v Iter/Queue.vio Iter/QueueFacts.vio Iter/Model.vio Iter/Spec.vio Iter/PairsProofs.vio
Iter/Machines.vos Iter/Machines.vok Iter/Machines.required_vos: Iter/Machines.v Iter/Queue.vos Iter/QueueFacts.vos Iter/Model.vos Iter/Spec.vos Iter/PairsProofs.vos
Iter/FlatTokens.vo Iter/FlatTokens.glob Iter/FlatTokens.v.beautified Iter/FlatTokens.required_vo: Iter/FlatTokens.v Iter/Queue.vo Iter/QueueFacts.vo Iter/Model.vo Iter/Spec.vo Iter/PairsProofs.vo Iter/Machines.vo
Iter/FlatTokens.vio: Iter/FlatTokens.v Iter/Queue.vio Iter/QueueFacts.vio Iter/Model.vio Iter/Spec.vio Iter/PairsProofs.vio Iter/Machines.vio
Iter/FlatTokens.vos Iter/FlatTokens.vok Iter/FlatTokens.required_vos: Iter/FlatTokens.v Iter/Queue.vos Iter/QueueFacts.vos Iter/Model.vos Iter/Spec.vos Iter/PairsProofs.vos Iter/Machines.vos
Extract/IterExtract.vo Extract/IterExtract.glob Extract/IterExtract.v.beautified Extract/IterExtract.required_vo: Extract/IterExtract.v Iter/Queue.vo Iter/Model.vo Iter/Spec.vo Iter/Support.vo
Extract/IterExtract.vio: Extract/IterExtract.v Iter/Queue.vio Iter/Model.vio Iter/Spec.vio Iter/Support.vio
Extract/IterExtract.vos Extract/IterExtract.vok Extract/IterExtract.required_vos: Extract/IterExtract.v Iter/Queue.vos Iter/Model.vos Iter/Spec.vos Iter/Support.vos
