gen/JsonGrammar.vo gen/JsonGrammar.glob gen/JsonGrammar.v.beautified gen/JsonGrammar.required_vo: gen/JsonGrammar.v Peg/Ast.vo
gen/JsonGrammar.vio: gen/JsonGrammar.v Peg/Ast.vio
gen/JsonGrammar.vos gen/JsonGrammar.vok gen/JsonGrammar.required_vos: gen/JsonGrammar.v Peg/Ast.vos
Json/Rfc8259.vo Json/Rfc8259.glob Json/Rfc8259.v.beautified Json/Rfc8259.required_vo: Json/Rfc8259.v Comb/PState.vo Comb/Utf8.vo Iter/Queue.vo Peg/Ast.vo
Json/Rfc8259.vio: Json/Rfc8259.v Comb/PState.vio Comb/Utf8.vio Iter/Queue.vio Peg/Ast.vio
Json/Rfc8259.vos Json/Rfc8259.vok Json/Rfc8259.required_vos: Json/Rfc8259.v Comb/PState.vos Comb/Utf8.vos Iter/Queue.vos Peg/Ast.vos
Json/Recogniser.vo Json/Recogniser.glob Json/Recogniser.v.beautified Json/Recogniser.required_vo: Json/Recogniser.v Comb/PState.vo Comb/Bytes.vo Comb/Utf8.vo Json/Rfc8259.vo
Json/Recogniser.vio: Json/Recogniser.v Comb/PState.vio Comb/Bytes.vio Comb/Utf8.vio Json/Rfc8259.vio
Json/Recogniser.vos Json/Recogniser.vok Json/Recogniser.required_vos: Json/Recogniser.v Comb/PState.vos Comb/Bytes.vos Comb/Utf8.vos Json/Rfc8259.vos
Json/EvalFacts.vo Json/EvalFacts.glob Json/EvalFacts.v.beautified Json/EvalFacts.required_vo: Json/EvalFacts.v Comb/PState.vo Comb/Bytes.vo Iter/Queue.vo Peg/Ast.vo Peg/Spec.vo Peg/SpecFacts.vo
Json/EvalFacts.vio: Json/EvalFacts.v Comb/PState.vio Comb/Bytes.vio Iter/Queue.vio Peg/Ast.vio Peg/Spec.vio Peg/SpecFacts.vio
Json/EvalFacts.vos Json/EvalFacts.vok Json/EvalFacts.required_vos: Json/EvalFacts.v Comb/PState.vos Comb/Bytes.vos Iter/Queue.vos Peg/Ast.vos Peg/Spec.vos Peg/SpecFacts.vos
Json/LexLib.vo Json/LexLib.glob Json/LexLib.v.beautified Json/LexLib.required_vo: Json/LexLib.v Comb/PState.vo Comb/Bytes.vo Comb/Utf8.vo Comb/Utf8b.vo Iter/Queue.vo Peg/Ast.vo Peg/Spec.vo Json/Rfc8259.vo Json/Recogniser.vo Json/EvalFacts.vo
Json/LexLib.vio: Json/LexLib.v Comb/PState.vio Comb/Bytes.vio Comb/Utf8.vio Comb/Utf8b.vio Iter/Queue.vio Peg/Ast.vio Peg/Spec.vio Json/Rfc8259.vio Json/Recogniser.vio Json/EvalFacts.vio
Json/LexLib.vos Json/LexLib.vok Json/LexLib.required_vos: Json/LexLib.v Comb/PState.vos Comb/Bytes.vos Comb/Utf8.vos Comb/Utf8b.vos Iter/Queue.vos Peg/Ast.vos Peg/Spec.vos Json/Rfc8259.vos Json/Recogniser.vos Json/EvalFacts.vos
Json/Lexical.vo Json/Lexical.glob Json/Lexical.v.beautified Json/Lexical.required_vo: Json/Lexical.v Comb/PState.vo Comb/Bytes.vo Comb/Utf8.vo Comb/Utf8b.vo Iter/Queue.vo Peg/Ast.vo Peg/Spec.vo gen/JsonGrammar.vo Json/Rfc8259.vo Json/Recogniser.vo Json/EvalFacts.vo Json/LexLib.vo
Json/Lexical.vio: Json/Lexical.v Comb/PState.vio Comb/Bytes.vio Comb/Utf8.vio Comb/Utf8b.vio Iter/Queue.vio Peg/Ast.vio Peg/Spec.vio gen/JsonGrammar.vio Json/Rfc8259.vio Json/Recogniser.vio Json/EvalFacts.vio Json/LexLib.vio
Json/Lexical.vos Json/Lexical.vok Json/Lexical.required_vos: Json/Lexical.v Comb/PState.vos Comb/Bytes.vos Comb/Utf8.vos Comb/Utf8b.vos Iter/Queue.vos Peg/Ast.vos Peg/Spec.vos gen/JsonGrammar.vos Json/Rfc8259.vos Json/Recogniser.vos Json/EvalFacts.vos Json/LexLib.vos
Json/ParseLib.vo Json/ParseLib.glob Json/ParseLib.v.beautified Json/ParseLib.required_vo: Json/ParseLib.v Comb/PState.vo Comb/Bytes.vo Comb/Utf8.vo Comb/Utf8b.vo Iter/Queue.vo Peg/Ast.vo Peg/Spec.vo Json/Rfc8259.vo Json/Recogniser.vo Json/EvalFacts.vo Json/LexLib.vo
Json/ParseLib.vio: Json/ParseLib.v Comb/PState.vio Comb/Bytes.vio Comb/Utf8.vio Comb/Utf8b.vio Iter/Queue.vio Peg/Ast.vio Peg/Spec.vio Json/Rfc8259.vio Json/Recogniser.vio Json/EvalFacts.vio Json/LexLib.vio
Json/ParseLib.vos Json/ParseLib.vok Json/ParseLib.required_vos: Json/ParseLib.v Comb/PState.vos Comb/Bytes.vos Comb/Utf8.vos Comb/Utf8b.vos Iter/Queue.vos Peg/Ast.vos Peg/Spec.vos Json/Rfc8259.vos Json/Recogniser.vos Json/EvalFacts.vos Json/LexLib.vos
Extract/JsonExtract.vo Extract/JsonExtract.glob Extract/JsonExtract.v.beautified Extract/JsonExtract.required_vo: Extract/JsonExtract.v Comb/PState.vo Comb/Bytes.vo Iter/Queue.vo Peg/Ast.vo Peg/Spec.vo gen/JsonGrammar.vo Json/Rfc8259.vo Json/Recogniser.vo
Extract/JsonExtract.vio: Extract/JsonExtract.v Comb/PState.vio Comb/Bytes.vio Iter/Queue.vio Peg/Ast.vio Peg/Spec.vio gen/JsonGrammar.vio Json/Rfc8259.vio Json/Recogniser.vio
Extract/JsonExtract.vos Extract/JsonExtract.vok Extract/JsonExtract.required_vos: Extract/JsonExtract.v Comb/PState.vos Comb/Bytes.vos Iter/Queue.vos Peg/Ast.vos Peg/Spec.vos gen/JsonGrammar.vos Json/Rfc8259.vos Json/Recogniser.vos
