gen/JsonGrammar.vo gen/JsonGrammar.glob gen/JsonGrammar.v.beautified gen/JsonGrammar.required_vo: gen/JsonGrammar.v Peg/Ast.vo
gen/JsonGrammar.vio: gen/JsonGrammar.v Peg/Ast.vio
gen/JsonGrammar.vos gen/JsonGrammar.vok gen/JsonGrammar.required_vos: gen/JsonGrammar.v Peg/Ast.vos
Json/Rfc8259.vo Json/Rfc8259.glob Json/Rfc8259.v.beautified Json/Rfc8259.required_vo: Json/Rfc8259.v Comb/PState.vo Comb/Utf8.vo Iter/Queue.vo Peg/Ast.vo
Json/Rfc8259.vio: Json/Rfc8259.v Comb/PState.vio Comb/Utf8.vio Iter/Queue.vio Peg/Ast.vio
Json/Rfc8259.vos Json/Rfc8259.vok Json/Rfc8259.required_vos: Json/Rfc8259.v Comb/PState.vos Comb/Utf8.vos Iter/Queue.vos Peg/Ast.vos
Json/Recogniser.vo Json/Recogniser.glob Json/Recogniser.v.beautified Json/Recogniser.required_vo: Json/Recogniser.v Comb/PState.vo Comb/Bytes.vo Comb/Utf8.vo Json/Rfc8259.vo
Json/Recogniser.vio: Json/Recogniser.v Comb/PState.vio Comb/Bytes.vio Comb/Utf8.vio Json/Rfc8259.vio
Json/Recogniser.vos Json/Recogniser.vok Json/Recogniser.required_vos: Json/Recogniser.v Comb/PState.vos Comb/Bytes.vos Comb/Utf8.vos Json/Rfc8259.vos
Extract/JsonExtract.vo Extract/JsonExtract.glob Extract/JsonExtract.v.beautified Extract/JsonExtract.required_vo: Extract/JsonExtract.v Comb/PState.vo Comb/Bytes.vo Iter/Queue.vo Peg/Ast.vo Peg/Spec.vo gen/JsonGrammar.vo Json/Rfc8259.vo Json/Recogniser.vo
Extract/JsonExtract.vio: Extract/JsonExtract.v Comb/PState.vio Comb/Bytes.vio Iter/Queue.vio Peg/Ast.vio Peg/Spec.vio gen/JsonGrammar.vio Json/Rfc8259.vio Json/Recogniser.vio
Extract/JsonExtract.vos Extract/JsonExtract.vok Extract/JsonExtract.required_vos: Extract/JsonExtract.v Comb/PState.vos Comb/Bytes.vos Iter/Queue.vos Peg/Ast.vos Peg/Spec.vos gen/JsonGrammar.vos Json/Rfc8259.vos Json/Recogniser.vos
