Stack/Model.vo Stack/Model.glob Stack/Model.v.beautified Stack/Model.required_vo: Stack/Model.v 
Stack/Model.vio: Stack/Model.v 
Stack/Model.vos Stack/Model.vok Stack/Model.required_vos: Stack/Model.v 
Stack/Proofs.vo Stack/Proofs.glob Stack/Proofs.v.beautified Stack/Proofs.required_vo: Stack/Proofs.v Stack/Model.vo
Stack/Proofs.vio: Stack/Proofs.v Stack/Model.vio
Stack/Proofs.vos Stack/Proofs.vok Stack/Proofs.required_vos: Stack/Proofs.v Stack/Model.vos
Stack/Top.vo Stack/Top.glob Stack/Top.v.beautified Stack/Top.required_vo: Stack/Top.v Stack/Model.vo Stack/Proofs.vo
Stack/Top.vio: Stack/Top.v Stack/Model.vio Stack/Proofs.vio
Stack/Top.vos Stack/Top.vok Stack/Top.required_vos: Stack/Top.v Stack/Model.vos Stack/Proofs.vos
Comb/PState.vo Comb/PState.glob Comb/PState.v.beautified Comb/PState.required_vo: Comb/PState.v Stack/Model.vo
Comb/PState.vio: Comb/PState.v Stack/Model.vio
Comb/PState.vos Comb/PState.vok Comb/PState.required_vos: Comb/PState.v Stack/Model.vos
Comb/Bytes.vo Comb/Bytes.glob Comb/Bytes.v.beautified Comb/Bytes.required_vo: Comb/Bytes.v Comb/PState.vo
Comb/Bytes.vio: Comb/Bytes.v Comb/PState.vio
Comb/Bytes.vos Comb/Bytes.vok Comb/Bytes.required_vos: Comb/Bytes.v Comb/PState.vos
Comb/Prog.vo Comb/Prog.glob Comb/Prog.v.beautified Comb/Prog.required_vo: Comb/Prog.v Comb/PState.vo
Comb/Prog.vio: Comb/Prog.v Comb/PState.vio
Comb/Prog.vos Comb/Prog.vok Comb/Prog.required_vos: Comb/Prog.v Comb/PState.vos
Comb/Exec.vo Comb/Exec.glob Comb/Exec.v.beautified Comb/Exec.required_vo: Comb/Exec.v Stack/Model.vo Comb/PState.vo Comb/Bytes.vo Comb/Prog.vo
Comb/Exec.vio: Comb/Exec.v Stack/Model.vio Comb/PState.vio Comb/Bytes.vio Comb/Prog.vio
Comb/Exec.vos Comb/Exec.vok Comb/Exec.required_vos: Comb/Exec.v Stack/Model.vos Comb/PState.vos Comb/Bytes.vos Comb/Prog.vos
Comb/Frame.vo Comb/Frame.glob Comb/Frame.v.beautified Comb/Frame.required_vo: Comb/Frame.v Stack/Model.vo Stack/Proofs.vo Comb/PState.vo Comb/Bytes.vo Comb/Prog.vo Comb/Exec.vo
Comb/Frame.vio: Comb/Frame.v Stack/Model.vio Stack/Proofs.vio Comb/PState.vio Comb/Bytes.vio Comb/Prog.vio Comb/Exec.vio
Comb/Frame.vos Comb/Frame.vok Comb/Frame.required_vos: Comb/Frame.v Stack/Model.vos Stack/Proofs.vos Comb/PState.vos Comb/Bytes.vos Comb/Prog.vos Comb/Exec.vos
Comb/Contracts.vo Comb/Contracts.glob Comb/Contracts.v.beautified Comb/Contracts.required_vo: Comb/Contracts.v Stack/Model.vo Stack/Proofs.vo Comb/PState.vo Comb/Bytes.vo Comb/Prog.vo Comb/Exec.vo Comb/Frame.vo
Comb/Contracts.vio: Comb/Contracts.v Stack/Model.vio Stack/Proofs.vio Comb/PState.vio Comb/Bytes.vio Comb/Prog.vio Comb/Exec.vio Comb/Frame.vio
Comb/Contracts.vos Comb/Contracts.vok Comb/Contracts.required_vos: Comb/Contracts.v Stack/Model.vos Stack/Proofs.vos Comb/PState.vos Comb/Bytes.vos Comb/Prog.vos Comb/Exec.vos Comb/Frame.vos
Comb/Utf8.vo Comb/Utf8.glob Comb/Utf8.v.beautified Comb/Utf8.required_vo: Comb/Utf8.v Comb/PState.vo Comb/Bytes.vo Comb/Frame.vo
Comb/Utf8.vio: Comb/Utf8.v Comb/PState.vio Comb/Bytes.vio Comb/Frame.vio
Comb/Utf8.vos Comb/Utf8.vok Comb/Utf8.required_vos: Comb/Utf8.v Comb/PState.vos Comb/Bytes.vos Comb/Frame.vos
Comb/Utf8b.vo Comb/Utf8b.glob Comb/Utf8b.v.beautified Comb/Utf8b.required_vo: Comb/Utf8b.v Comb/PState.vo Comb/Bytes.vo Comb/Frame.vo Comb/Utf8.vo
Comb/Utf8b.vio: Comb/Utf8b.v Comb/PState.vio Comb/Bytes.vio Comb/Frame.vio Comb/Utf8.vio
Comb/Utf8b.vos Comb/Utf8b.vok Comb/Utf8b.required_vos: Comb/Utf8b.v Comb/PState.vos Comb/Bytes.vos Comb/Frame.vos Comb/Utf8.vos
Comb/Utf8c.vo Comb/Utf8c.glob Comb/Utf8c.v.beautified Comb/Utf8c.required_vo: Comb/Utf8c.v Stack/Model.vo Stack/Proofs.vo Comb/PState.vo Comb/Bytes.vo Comb/Prog.vo Comb/Exec.vo Comb/Frame.vo Comb/Utf8.vo Comb/Utf8b.vo
Comb/Utf8c.vio: Comb/Utf8c.v Stack/Model.vio Stack/Proofs.vio Comb/PState.vio Comb/Bytes.vio Comb/Prog.vio Comb/Exec.vio Comb/Frame.vio Comb/Utf8.vio Comb/Utf8b.vio
Comb/Utf8c.vos Comb/Utf8c.vok Comb/Utf8c.required_vos: Comb/Utf8c.v Stack/Model.vos Stack/Proofs.vos Comb/PState.vos Comb/Bytes.vos Comb/Prog.vos Comb/Exec.vos Comb/Frame.vos Comb/Utf8.vos Comb/Utf8b.vos
Comb/Ref.vo Comb/Ref.glob Comb/Ref.v.beautified Comb/Ref.required_vo: Comb/Ref.v Comb/PState.vo Comb/Bytes.vo Comb/Prog.vo Comb/Exec.vo
Comb/Ref.vio: Comb/Ref.v Comb/PState.vio Comb/Bytes.vio Comb/Prog.vio Comb/Exec.vio
Comb/Ref.vos Comb/Ref.vok Comb/Ref.required_vos: Comb/Ref.v Comb/PState.vos Comb/Bytes.vos Comb/Prog.vos Comb/Exec.vos
