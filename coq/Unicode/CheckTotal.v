(* C16 - kernel-evaluated sweep: no table lookup of an advertised property indexes out of bounds. *)
From Coq Require Import NArith List Bool String.
Require Import PV.Unicode.Trie PV.Unicode.Names PV.Unicode.Fast PV.gen.UnicodeNames PV.Unicode.Spec PV.Unicode.Lift.
Import ListNotations.
Open Scope N_scope.

Lemma tables_check : total_check pest_unicode_functions = true.
Proof. vm_cast_no_check (eq_refl true). Qed.

Theorem lookups_total : forall n t, fn_table pest_unicode_functions n = Some t ->
  forall cp, cp <= max_code_point -> exists b, contains t cp = Some b.
Proof. exact (total_check_sound _ tables_check). Qed.
