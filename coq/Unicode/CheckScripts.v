(* C16 - kernel-evaluated sweep: the script rules are pairwise disjoint on 0..0x10FFFF. *)
From Coq Require Import NArith List Bool String.
Require Import PV.Unicode.Trie PV.Unicode.Names PV.Unicode.Fast PV.gen.UnicodeNames PV.Unicode.Spec PV.Unicode.Lift.
Import ListNotations.
Open Scope N_scope.

Lemma scripts_check : disjoint_check script_property_names = true.
Proof. vm_cast_no_check (eq_refl true). Qed.

Theorem scripts_disjoint : forall cp, cp <= max_code_point ->
  at_most_one (fun n => rule_matches n cp) script_property_names.
Proof. exact (disjoint_check_sound _ scripts_check). Qed.
