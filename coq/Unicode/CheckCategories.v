(* C16 - kernel-evaluated sweep over the 17408 chunks: the 30 two-letter categories partition
   0..0x10FFFF and every grouped category is the union of its members (tables regenerated from /repo). *)
From Coq Require Import NArith List Bool String.
Require Import PV.Unicode.Trie PV.Unicode.Names PV.Unicode.Fast PV.gen.UnicodeNames PV.Unicode.Spec PV.Unicode.Lift.
Import ListNotations.
Open Scope N_scope.

Lemma categories_check : partition_check two_letter_names = true.
Proof. vm_cast_no_check (eq_refl true). Qed.

Lemma groups_check : forallb union_check groups = true.
Proof. vm_cast_no_check (eq_refl true). Qed.

Theorem categories_partition : forall cp, cp <= max_code_point ->
  exactly_one (fun n => rule_matches n cp) two_letter_names.
Proof. exact (partition_check_sound _ categories_check). Qed.

Theorem groups_are_unions : forall cp, cp <= max_code_point ->
  forall g ms, In (g, ms) groups -> rule_matches g cp = existsb (fun m => rule_matches m cp) ms.
Proof.
  intros cp Hcp g ms Hin. pose proof groups_check as H. rewrite forallb_forall in H.
  exact (union_check_sound g ms (H _ Hin) cp Hcp).
Qed.
