(* C16 - model of the name handling around the Unicode tables (pure functions over the data that
   tools/unicode2v.py regenerates; this file is extracted, so it takes the data as arguments).

   pest/src/unicode/mod.rs
     property_functions!        pub fn $prop(c: char) -> bool { self::$module::$prop.contains_char(c) }
                                pub static $property_names: &[&str] = &[$(stringify!($prop),)*];
     unicode_property_names()   BINARY_PROPERTY_NAMES ++ CATEGORY_PROPERTY_NAMES ++ SCRIPT_PROPERTY_NAMES
     by_name(name)              for property in binary::BY_NAME   { if name == property.0.to_uppercase() { return Some(..property.1..) } }
                                for property in category::BY_NAME { .. }   for property in script::BY_NAME { .. }   None
   vm/src/lib.rs  Vm::parse_rule   match rule { "ANY" => .., .. "NEWLINE" => .., _ => () };
                                   if let Some(rule) = self.rules.get(rule) { .. } else {
                                     if let Some(property) = unicode::by_name(rule) { return state.match_char_by(property); }
                                     panic!("undefined rule {rule}") }
   generator/src/generator.rs      generate_builtin_rules: insert_builtin!(builtins, NAME, ..) .. ;
                                   for property in unicode_property_names() { builtins.push((property,
                                      quote!{ fn #property_ident(state) { state.match_char_by(::pest::unicode::#property_ident) } })) }
   meta/src/validator.rs           BUILTINS = [ "ANY", .. "NEWLINE" ] ++ unicode_property_names()   (a HashSet)

   `str::to_uppercase` / `to_lowercase` are modelled on ASCII only; the check `ascii_names` (all BY_NAME
   strings consist of bytes < 128) is part of what is proved about the regenerated data. *)
From Coq Require Import NArith List Bool String Ascii.
Require Import PV.Unicode.Trie.
Import ListNotations.
Open Scope N_scope.

Inductive xform := XId | XUpper | XLower.

Definition upper_ascii (c : ascii) : ascii :=
  let n := N_of_ascii c in if (97 <=? n) && (n <=? 122) then ascii_of_N (n - 32) else c.
Definition lower_ascii (c : ascii) : ascii :=
  let n := N_of_ascii c in if (65 <=? n) && (n <=? 90) then ascii_of_N (n + 32) else c.

Fixpoint map_string (f : ascii -> ascii) (s : string) : string :=
  match s with EmptyString => EmptyString | String c r => String (f c) (map_string f r) end.

Definition apply_xform (x : xform) (s : string) : string :=
  match x with XId => s | XUpper => map_string upper_ascii s | XLower => map_string lower_ascii s end.

Fixpoint is_ascii_string (s : string) : bool :=
  match s with EmptyString => true | String c r => (N_of_ascii c <? 128) && is_ascii_string r end.

Fixpoint mem (x : string) (l : list string) : bool :=
  match l with [] => false | y :: r => String.eqb x y || mem x r end.

(* ---- the function path: pest::unicode::NAME ---- *)
Fixpoint fn_table (fns : list (string * trie)) (name : string) : option trie :=
  match fns with
  | [] => None
  | (n, t) :: r => if String.eqb name n then Some t else fn_table r name
  end.

(* ---- pest::unicode::by_name ---- *)
Fixpoint find_in (x : xform) (name : string) (l : list (string * trie)) : option trie :=
  match l with
  | [] => None
  | (n, t) :: r => if String.eqb name (apply_xform x n) then Some t else find_in x name r
  end.

Fixpoint by_name (loops : list (xform * list (string * trie))) (name : string) : option trie :=
  match loops with
  | [] => None
  | (x, l) :: r => match find_in x name l with Some t => Some t | None => by_name r name end
  end.

(* ---- the VM: what Vm::parse_rule does with a name that is not a user rule ---- *)
Inductive vm_rule := VHard | VUnicode (t : trie) | VUndefined.   (* VUndefined = panic!("undefined rule") *)

Definition vm_builtin (hard : list string) (fallback : bool) (loops : list (xform * list (string * trie)))
           (name : string) : vm_rule :=
  if mem name hard then VHard
  else if fallback then match by_name loops name with Some t => VUnicode t | None => VUndefined end
  else VUndefined.

(* ---- generated code: which built-in function the generator emits for a name used by the grammar ---- *)
Inductive gen_rule := GLiteral | GUnicodeFn (fname : string) | GMissing.

Definition gen_builtin (lits : list string) (loop : bool) (names : list string) (name : string) : gen_rule :=
  if mem name lits then GLiteral
  else if loop && mem name names then GUnicodeFn name
  else GMissing.

(* ---- the validator's BUILTINS ---- *)
Definition validator_builtins (lits : list string) (chains : bool) (names : list string) : list string :=
  lits ++ (if chains then names else []).

(* ---- answers ---- *)
(* Unresolved: the name denotes nothing on this path; Shadowed: it denotes a non-Unicode built-in;
   Panics: the table lookup indexes out of bounds; Ans b: the rule matches (b = true) or not. *)
Inductive answer := Unresolved | Shadowed | Panics | Ans (b : bool).

Definition ask (ot : option trie) (cp : N) : answer :=
  match ot with
  | None => Unresolved
  | Some t => match contains t cp with None => Panics | Some b => Ans b end
  end.

Fixpoint leqb (x y : list N) : bool :=
  match x, y with
  | [], [] => true
  | p :: x', q :: y' => (p =? q) && leqb x' y'
  | _, _ => false
  end.

Definition trie_eqb (a b : trie) : bool :=
  leqb (tree1_level1 a) (tree1_level1 b) && leqb (tree2_level1 a) (tree2_level1 b) &&
  leqb (tree2_level2 a) (tree2_level2 b) && leqb (tree3_level1 a) (tree3_level1 b) &&
  leqb (tree3_level2 a) (tree3_level2 b) && leqb (tree3_level3 a) (tree3_level3 b).
