(* C16 - assembling the theorem from the four kernel-evaluated checks. *)
From Coq Require Import NArith List Bool String.
Require Import PV.Unicode.Trie PV.Unicode.Names PV.gen.UnicodeNames PV.Unicode.Spec PV.Unicode.Lift.
Require Import PV.Unicode.CheckCategories PV.Unicode.CheckScripts PV.Unicode.CheckTotal PV.Unicode.CheckNames.
Import ListNotations.
Open Scope N_scope.

Lemma nodupb_NoDup : forall l, nodupb l = true -> NoDup l.
Proof.
  induction l as [|x r IH]; intros H; cbn [nodupb] in H; constructor.
  - apply andb_true_iff in H. destruct H as [H _]. intros Hin. apply mem_In in Hin. rewrite Hin in H. discriminate.
  - apply IH. apply andb_true_iff in H. tauto.
Qed.

(* every advertised name: same table on the four paths, hence the same answer at every code point *)
Theorem paths_agree : forall n, In n unicode_property_names ->
  forall cp, cp <= max_code_point ->
  exists b, via_function n cp = Ans b /\ via_by_name n cp = Ans b /\ via_vm n cp = Ans b /\ via_generated n cp = Ans b.
Proof.
  intros n Hin cp Hcp. pose proof names_ok_all as H. rewrite forallb_forall in H.
  destruct (name_ok_sound n (H _ Hin)) as [t [Hf [Hb [Hv [Hg _]]]]].
  destruct (lookups_total n t Hf cp Hcp) as [b Hc].
  exists b. unfold via_function, via_by_name, via_vm, via_generated, via_function.
  rewrite Hg, Hv, Hb, Hf. unfold ask. rewrite Hc. auto.
Qed.

Theorem names_accepted : forall n, In n unicode_property_names -> validator_accepts n = true.
Proof.
  intros n Hin. pose proof names_ok_all as H. rewrite forallb_forall in H.
  destruct (name_ok_sound n (H _ Hin)) as [t [_ [_ [_ [_ Hv]]]]]. exact Hv.
Qed.

Theorem categories_listed : forall n,
  In n category_property_names <-> In n (two_letter_names ++ map fst groups).
Proof.
  intros n. pose proof categories_same as H. unfold same_names in H.
  apply andb_true_iff in H. destruct H as [H1 H2]. rewrite forallb_forall in H1, H2.
  split; intros Hin; apply mem_In; auto.
Qed.

Theorem names_unambiguous : NoDup unicode_property_names.
Proof. apply nodupb_NoDup. exact names_nodup. Qed.

Theorem C16_unicode_consistent :
  (forall cp, cp <= max_code_point ->
     exactly_one (fun n => rule_matches n cp) two_letter_names /\
     (forall g ms, In (g, ms) groups -> rule_matches g cp = existsb (fun m => rule_matches m cp) ms) /\
     at_most_one (fun n => rule_matches n cp) script_property_names /\
     (forall n, In n unicode_property_names ->
        exists b, via_function n cp = Ans b /\ via_by_name n cp = Ans b /\
                  via_vm n cp = Ans b /\ via_generated n cp = Ans b)) /\
  (forall n, In n unicode_property_names -> validator_accepts n = true) /\
  (forall n, In n category_property_names <-> In n (two_letter_names ++ map fst groups)) /\
  NoDup unicode_property_names.
Proof.
  split; [|split; [exact names_accepted|split; [exact categories_listed|exact names_unambiguous]]].
  intros cp Hcp. split; [exact (categories_partition cp Hcp)|].
  split; [exact (groups_are_unions cp Hcp)|].
  split; [exact (scripts_disjoint cp Hcp)|].
  intros n Hin. exact (paths_agree n Hin cp Hcp).
Qed.
