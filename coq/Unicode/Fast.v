(* C16 - machinery for the kernel-evaluated sweeps: the six arrays of a table are loaded into
   positive-indexed maps (so that a chunk lookup costs O(log n) instead of a list walk), the
   17408 chunk indices are enumerated, and word-level checks (running disjointness with
   land/lor) are related to counting set bits.  Everything here is general - no regenerated
   data is mentioned - and every fast function is proved equal to the literal one of Trie.v. *)
From Coq Require Import Arith NArith PArith List Bool Lia FMapPositive.
Require Import PV.Unicode.Trie.
Import ListNotations.
Open Scope N_scope.

Module PM := PositiveMap.

(* ---- arrays as positive maps ---- *)
Fixpoint fill (l : list N) (i : positive) (m : PM.t N) : PM.t N :=
  match l with
  | [] => m
  | x :: r => fill r (Pos.succ i) (PM.add i x m)
  end.

Definition arr (l : list N) : PM.t N := fill l 1%positive (PM.empty N).
Definition get (m : PM.t N) (i : N) : option N := PM.find (N.succ_pos i) m.

Lemma nth_error_nil : forall (A : Type) n, nth_error (@nil A) n = None.
Proof. intros A n. destruct n; reflexivity. Qed.

Lemma find_fill : forall l i m p,
  ((p < i)%positive -> PM.find p (fill l i m) = PM.find p m) /\
  ((i <= p)%positive -> PM.find p (fill l i m) =
      match nth_error l (Pos.to_nat p - Pos.to_nat i) with Some x => Some x | None => PM.find p m end).
Proof.
  induction l as [|x r IH]; intros i m p; cbn [fill].
  - split; intros _; [reflexivity|]. rewrite nth_error_nil. reflexivity.
  - destruct (IH (Pos.succ i) (PM.add i x m) p) as [IH1 IH2]. split; intros H.
    + rewrite IH1 by lia. apply PM.gso. lia.
    + destruct (Pos.eq_dec p i) as [->|Hne].
      * rewrite IH1 by lia. rewrite PM.gss. rewrite Nat.sub_diag. reflexivity.
      * rewrite IH2 by lia.
        replace (Pos.to_nat p - Pos.to_nat i)%nat with (S (Pos.to_nat p - Pos.to_nat (Pos.succ i)))%nat by lia.
        cbn [nth_error].
        destruct (nth_error r (Pos.to_nat p - Pos.to_nat (Pos.succ i))); [reflexivity|].
        apply PM.gso. exact Hne.
Qed.

Lemma get_arr : forall l i, get (arr l) i = idx l i.
Proof.
  intros l i. unfold get, arr, idx.
  destruct (find_fill l 1%positive (PM.empty N) (N.succ_pos i)) as [_ H].
  rewrite H by lia. rewrite PM.gempty.
  replace (Pos.to_nat (N.succ_pos i) - Pos.to_nat 1)%nat with (N.to_nat i).
  - destruct (nth_error l (N.to_nat i)); reflexivity.
  - pose proof (N.succ_pos_spec i) as E.
    assert (Pos.to_nat (N.succ_pos i) = S (N.to_nat i)).
    { rewrite <- N2Nat.inj_succ. rewrite <- E. reflexivity. }
    lia.
Qed.

(* ---- compiled tables ---- *)
Record ctrie := mk_ctrie { c1 : PM.t N; c21 : PM.t N; c22 : PM.t N; c31 : PM.t N; c32 : PM.t N; c33 : PM.t N }.

Definition compile (t : trie) : ctrie :=
  mk_ctrie (arr (tree1_level1 t)) (arr (tree2_level1 t)) (arr (tree2_level2 t))
           (arr (tree3_level1 t)) (arr (tree3_level2 t)) (arr (tree3_level3 t)).

Definition fchunk (c : ctrie) (k : N) : option N :=
  if k <? 32 then get (c1 c) k
  else if k <? 1024 then
    match get (c21 c) (k - 32) with
    | None => Some 0
    | Some leaf => get (c22 c) leaf
    end
  else
    match get (c31 c) (N.shiftr k 6 - 16) with
    | None => Some 0
    | Some child =>
      match get (c32 c) (child * 64 + N.land k 63) with
      | None => None
      | Some leaf => get (c33 c) leaf
      end
    end.

Lemma fchunk_compile : forall t k, fchunk (compile t) k = chunk_of t k.
Proof.
  intros t k. unfold fchunk, chunk_of, compile; cbn [c1 c21 c22 c31 c32 c33].
  destruct (k <? 32); [apply get_arr|].
  destruct (k <? 1024).
  - rewrite get_arr. destruct (idx (tree2_level1 t) (k - 32)); [apply get_arr|reflexivity].
  - rewrite get_arr. destruct (idx (tree3_level1 t) (N.shiftr k 6 - 16)) as [child|]; [|reflexivity].
    rewrite get_arr. destruct (idx (tree3_level2 t) (child * 64 + N.land k 63)); [apply get_arr|reflexivity].
Qed.

(* ---- the chunk indices 0 .. 17407 ---- *)
Fixpoint upfrom (fuel : nat) (i : N) : list N :=
  match fuel with O => [] | S f => i :: upfrom f (N.succ i) end.

Lemma In_upfrom : forall fuel i k, i <= k -> k < i + N.of_nat fuel -> In k (upfrom fuel i).
Proof.
  induction fuel as [|f IH]; intros i k H1 H2.
  - cbn in H2. lia.
  - cbn [upfrom]. destruct (N.eq_dec i k) as [->|Hne]; [left; reflexivity|].
    right. apply IH; lia.
Qed.

Definition chunks : list N := upfrom (N.to_nat nchunks) 0.

Lemma In_chunks : forall k, k < nchunks -> In k chunks.
Proof.
  intros k H. unfold chunks. apply In_upfrom; [lia|]. rewrite N2Nat.id. lia.
Qed.

(* ---- words of several tables at one chunk ---- *)
Fixpoint words_at (cs : list ctrie) (k : N) : option (list N) :=
  match cs with
  | [] => Some []
  | c :: r =>
    match fchunk c k, words_at r k with
    | Some w, Some ws => Some (w :: ws)
    | _, _ => None
    end
  end.

(* membership as a plain boolean: a panicking lookup counts as "no" (the theorems also state
   separately that no lookup panics) *)
Definition member (t : trie) (cp : N) : bool :=
  match contains t cp with Some true => true | _ => false end.

Lemma words_at_contains : forall ts k ws, words_at (map compile ts) k = Some ws ->
  forall cp, cp / 64 = k ->
  map (fun t => contains t cp) ts = map (fun w => Some (N.testbit w (cp mod 64))) ws.
Proof.
  induction ts as [|t r IH]; intros k ws H cp Hk; cbn [map words_at] in *.
  - inversion H. reflexivity.
  - rewrite fchunk_compile in H.
    destruct (chunk_of t k) as [w|] eqn:Hw; [|discriminate].
    destruct (words_at (map compile r) k) as [ws'|] eqn:Hr; [|discriminate].
    inversion H; subst ws. cbn [map]. f_equal.
    + rewrite contains_chunk, Hk, Hw. reflexivity.
    + eapply IH; eauto.
Qed.

Lemma words_at_member : forall ts k ws, words_at (map compile ts) k = Some ws ->
  forall cp, cp / 64 = k ->
  map (fun t => member t cp) ts = map (fun w => N.testbit w (cp mod 64)) ws.
Proof.
  intros ts k ws H cp Hk. pose proof (words_at_contains ts k ws H cp Hk) as E.
  clear H. revert ws E. induction ts as [|t r IH]; intros ws E; destruct ws as [|w ws']; cbn [map] in *; try discriminate; [reflexivity|].
  inversion E as [[E1 E2]]. f_equal; [|apply IH; exact E2].
  unfold member. rewrite E1. destruct (N.testbit w (cp mod 64)); reflexivity.
Qed.

(* ---- counting ---- *)
Lemma filter_length_map : forall (A B : Type) (p : A -> bool) (q : B -> bool) l l',
  map p l = map q l' -> length (filter p l) = length (filter q l').
Proof.
  induction l as [|a l IH]; intros l' H; destruct l' as [|b l'']; cbn [map] in H; try discriminate; [reflexivity|].
  inversion H as [[H1 H2]]. cbn [filter]. rewrite H1. destruct (q b); cbn [length]; [f_equal|]; apply IH; exact H2.
Qed.

Definition count_bit (b : N) (ws : list N) : nat := length (filter (fun w => N.testbit w b) ws).

(* running disjointness: every word is disjoint from the OR of the words before it *)
Fixpoint scan (ws : list N) (acc : N) : option N :=
  match ws with
  | [] => Some acc
  | w :: r => if N.land acc w =? 0 then scan r (N.lor acc w) else None
  end.

Lemma scan_count : forall ws acc acc', scan ws acc = Some acc' ->
  forall b, (count_bit b ws + Nat.b2n (N.testbit acc b) = Nat.b2n (N.testbit acc' b))%nat.
Proof.
  induction ws as [|w r IH]; intros acc acc' H b; cbn [scan] in H.
  - inversion H. reflexivity.
  - destruct (N.land acc w =? 0) eqn:Hd; [|discriminate].
    apply N.eqb_eq in Hd.
    assert (Hb : N.testbit acc b && N.testbit w b = false).
    { rewrite <- N.land_spec, Hd. apply N.bits_0. }
    specialize (IH _ _ H b). rewrite N.lor_spec in IH.
    unfold count_bit in *. cbn [filter].
    destruct (N.testbit acc b), (N.testbit w b); cbn [andb orb length Nat.b2n] in *; try discriminate; lia.
Qed.

Definition full : N := 18446744073709551615.     (* 2^64 - 1 *)

Lemma full_bits : forall b, b < 64 -> N.testbit full b = true.
Proof.
  intros b H. change full with (N.ones 64). apply N.ones_spec_low. exact H.
Qed.

Definition is_some {A : Type} (o : option A) : bool := match o with Some _ => true | None => false end.

(* exactly one of the tables has the bit, at every bit of chunk k *)
Definition partition_at (cs : list ctrie) (k : N) : bool :=
  match words_at cs k with
  | Some ws => match scan ws 0 with Some acc => acc =? full | None => false end
  | None => false
  end.

(* at most one *)
Definition disjoint_at (cs : list ctrie) (k : N) : bool :=
  match words_at cs k with
  | Some ws => is_some (scan ws 0)
  | None => false
  end.

(* one table = union of others *)
Definition union_at (g : ctrie) (ms : list ctrie) (k : N) : bool :=
  match fchunk g k, words_at ms k with
  | Some w, Some ws => w =? fold_right N.lor 0 ws
  | _, _ => false
  end.

Lemma partition_at_sound : forall ts k, partition_at (map compile ts) k = true ->
  forall cp, cp / 64 = k -> length (filter (fun t => member t cp) ts) = 1%nat.
Proof.
  intros ts k H cp Hk. unfold partition_at in H.
  destruct (words_at (map compile ts) k) as [ws|] eqn:Hw; [|discriminate].
  destruct (scan ws 0) as [acc|] eqn:Hs; [|discriminate].
  apply N.eqb_eq in H. subst acc.
  rewrite (filter_length_map _ _ _ _ _ _ (words_at_member ts k ws Hw cp Hk)).
  pose proof (scan_count ws 0 full Hs (cp mod 64)) as C.
  rewrite N.bits_0, full_bits in C by apply bit_index_bound.
  unfold count_bit in C. cbn [Nat.b2n] in C. lia.
Qed.

Lemma disjoint_at_sound : forall ts k, disjoint_at (map compile ts) k = true ->
  forall cp, cp / 64 = k -> (length (filter (fun t => member t cp) ts) <= 1)%nat.
Proof.
  intros ts k H cp Hk. unfold disjoint_at in H.
  destruct (words_at (map compile ts) k) as [ws|] eqn:Hw; [|discriminate].
  destruct (scan ws 0) as [acc|] eqn:Hs; [|discriminate].
  rewrite (filter_length_map _ _ _ _ _ _ (words_at_member ts k ws Hw cp Hk)).
  pose proof (scan_count ws 0 acc Hs (cp mod 64)) as C.
  rewrite N.bits_0 in C. unfold count_bit in C. cbn [Nat.b2n] in C.
  destruct (N.testbit acc (cp mod 64)); cbn [Nat.b2n] in C; lia.
Qed.

Lemma fold_lor_bit : forall ws b,
  N.testbit (fold_right N.lor 0 ws) b = existsb (fun w => N.testbit w b) ws.
Proof.
  induction ws as [|w r IH]; intros b; cbn [fold_right existsb].
  - apply N.bits_0.
  - rewrite N.lor_spec, IH. reflexivity.
Qed.

Lemma existsb_map : forall (A B : Type) (p : A -> bool) (q : B -> bool) l l',
  map p l = map q l' -> existsb p l = existsb q l'.
Proof.
  induction l as [|a l IH]; intros l' H; destruct l' as [|b l'']; cbn [map] in H; try discriminate; [reflexivity|].
  inversion H as [[H1 H2]]. cbn [existsb]. rewrite H1. f_equal. apply IH. exact H2.
Qed.

Lemma union_at_sound : forall g ms k, union_at (compile g) (map compile ms) k = true ->
  forall cp, cp / 64 = k -> member g cp = existsb (fun m => member m cp) ms.
Proof.
  intros g ms k H cp Hk. unfold union_at in H. rewrite fchunk_compile in H.
  destruct (chunk_of g k) as [w|] eqn:Hg; [|discriminate].
  destruct (words_at (map compile ms) k) as [ws|] eqn:Hw; [|discriminate].
  apply N.eqb_eq in H.
  rewrite (existsb_map _ _ _ _ _ _ (words_at_member ms k ws Hw cp Hk)).
  rewrite <- fold_lor_bit, <- H.
  unfold member. rewrite contains_chunk, Hk, Hg. cbn [option_map].
  destruct (N.testbit w (cp mod 64)); reflexivity.
Qed.

(* no lookup panics: every chunk of the table exists *)
Definition total_at (c : ctrie) (k : N) : bool := is_some (fchunk c k).

Lemma total_at_sound : forall t k, total_at (compile t) k = true ->
  forall cp, cp / 64 = k -> exists b, contains t cp = Some b.
Proof.
  intros t k H cp Hk. unfold total_at in H. rewrite fchunk_compile in H.
  rewrite contains_chunk, Hk. destruct (chunk_of t k) as [w|]; [|discriminate].
  eexists. reflexivity.
Qed.
