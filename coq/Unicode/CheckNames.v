(* C16 - finite check over the regenerated name lists. *)
From Coq Require Import NArith List Bool String.
Require Import PV.Unicode.Trie PV.Unicode.Names PV.gen.UnicodeNames PV.Unicode.Spec PV.Unicode.Lift.
Import ListNotations.

Lemma names_ok_all : forallb name_ok unicode_property_names = true.
Proof. vm_cast_no_check (eq_refl true). Qed.

Lemma names_nodup : nodupb unicode_property_names = true.
Proof. vm_cast_no_check (eq_refl true). Qed.

(* every BY_NAME string is ASCII, so that modelling to_uppercase on ASCII is adequate *)
Lemma names_ascii : ascii_names = true.
Proof. vm_cast_no_check (eq_refl true). Qed.

Lemma categories_same : same_names category_property_names (two_letter_names ++ map fst groups) = true.
Proof. vm_cast_no_check (eq_refl true). Qed.
