(* C16 - from checks on chunks of resolved tables to statements about rule names and code points. *)
From Coq Require Import Arith NArith List Bool String Lia.
Require Import PV.Unicode.Trie PV.Unicode.Names PV.Unicode.Fast PV.gen.UnicodeNames PV.Unicode.Spec.
Import ListNotations.
Open Scope N_scope.

(* the tables behind a list of rule names (function path); None if one of them names no function *)
Fixpoint resolve (names : list string) : option (list trie) :=
  match names with
  | [] => Some []
  | n :: r =>
    match fn_table pest_unicode_functions n, resolve r with
    | Some t, Some ts => Some (t :: ts)
    | _, _ => None
    end
  end.

Lemma rule_matches_member : forall n t cp, fn_table pest_unicode_functions n = Some t ->
  rule_matches n cp = member t cp.
Proof.
  intros n t cp H. unfold rule_matches, via_function, ask, member. rewrite H.
  destruct (contains t cp) as [[|]|]; reflexivity.
Qed.

Lemma resolve_matches : forall names ts cp, resolve names = Some ts ->
  map (fun n => rule_matches n cp) names = map (fun t => member t cp) ts.
Proof.
  induction names as [|n r IH]; intros ts cp H; cbn [resolve] in H.
  - inversion H. reflexivity.
  - destruct (fn_table pest_unicode_functions n) as [t|] eqn:Ht; [|discriminate].
    destruct (resolve r) as [ts'|] eqn:Hr; [|discriminate].
    inversion H; subst ts. cbn [map]. f_equal; [apply rule_matches_member; exact Ht|apply IH; reflexivity].
Qed.

(* ---- exactly one / at most one of a list of names ---- *)
Definition partition_check (names : list string) : bool :=
  match resolve names with
  | Some ts => let cs := map compile ts in forallb (partition_at cs) chunks
  | None => false
  end.

Definition disjoint_check (names : list string) : bool :=
  match resolve names with
  | Some ts => let cs := map compile ts in forallb (disjoint_at cs) chunks
  | None => false
  end.

Definition union_check (g : string * list string) : bool :=
  match fn_table pest_unicode_functions (fst g), resolve (snd g) with
  | Some t, Some ts => let c := compile t in let cs := map compile ts in forallb (union_at c cs) chunks
  | _, _ => false
  end.

Definition total_check (fns : list (string * trie)) : bool :=
  forallb (fun nt => let c := compile (snd nt) in forallb (total_at c) chunks) fns.

Lemma cp_chunk : forall cp, cp <= max_code_point -> In (cp / 64) chunks.
Proof. intros cp H. apply In_chunks. apply chunk_index_bound. exact H. Qed.

Lemma partition_check_sound : forall names, partition_check names = true ->
  forall cp, cp <= max_code_point -> exactly_one (fun n => rule_matches n cp) names.
Proof.
  intros names H cp Hcp. unfold partition_check in H.
  destruct (resolve names) as [ts|] eqn:Hr; [|discriminate]. cbv zeta in H.
  rewrite forallb_forall in H. specialize (H _ (cp_chunk cp Hcp)).
  unfold exactly_one. rewrite (filter_length_map _ _ _ _ _ _ (resolve_matches names ts cp Hr)).
  eapply partition_at_sound; [exact H|reflexivity].
Qed.

Lemma disjoint_check_sound : forall names, disjoint_check names = true ->
  forall cp, cp <= max_code_point -> at_most_one (fun n => rule_matches n cp) names.
Proof.
  intros names H cp Hcp. unfold disjoint_check in H.
  destruct (resolve names) as [ts|] eqn:Hr; [|discriminate]. cbv zeta in H.
  rewrite forallb_forall in H. specialize (H _ (cp_chunk cp Hcp)).
  unfold at_most_one. rewrite (filter_length_map _ _ _ _ _ _ (resolve_matches names ts cp Hr)).
  eapply disjoint_at_sound; [exact H|reflexivity].
Qed.

Lemma union_check_sound : forall g ms, union_check (g, ms) = true ->
  forall cp, cp <= max_code_point -> rule_matches g cp = existsb (fun m => rule_matches m cp) ms.
Proof.
  intros g ms H cp Hcp. unfold union_check in H. cbn [fst snd] in H.
  destruct (fn_table pest_unicode_functions g) as [t|] eqn:Ht; [|discriminate].
  destruct (resolve ms) as [ts|] eqn:Hr; [|discriminate]. cbv zeta in H.
  rewrite forallb_forall in H. specialize (H _ (cp_chunk cp Hcp)).
  rewrite (rule_matches_member g t cp Ht).
  rewrite (existsb_map _ _ _ _ _ _ (resolve_matches ms ts cp Hr)).
  eapply union_at_sound; [exact H|reflexivity].
Qed.

Lemma fn_table_In : forall fns n t, fn_table fns n = Some t -> In (n, t) fns.
Proof.
  induction fns as [|[m u] r IH]; intros n t H; cbn [fn_table] in H; [discriminate|].
  destruct (String.eqb n m) eqn:E.
  - apply String.eqb_eq in E. inversion H; subst. left. reflexivity.
  - right. apply IH. exact H.
Qed.

Lemma total_check_sound : forall fns, total_check fns = true ->
  forall n t, fn_table fns n = Some t ->
  forall cp, cp <= max_code_point -> exists b, contains t cp = Some b.
Proof.
  intros fns H n t Hn cp Hcp. unfold total_check in H.
  rewrite forallb_forall in H. specialize (H _ (fn_table_In _ _ _ Hn)). cbn [snd] in H. cbv zeta in H.
  rewrite forallb_forall in H. specialize (H _ (cp_chunk cp Hcp)).
  eapply total_at_sound; [exact H|reflexivity].
Qed.

(* ---- names ---- *)
Lemma leqb_eq : forall x y, leqb x y = true -> x = y.
Proof.
  induction x as [|p x IH]; intros y H; destruct y as [|q y]; cbn [leqb] in H; try discriminate; [reflexivity|].
  apply andb_true_iff in H. destruct H as [H1 H2]. apply N.eqb_eq in H1. subst. f_equal. apply IH. exact H2.
Qed.

Lemma trie_eqb_eq : forall a b, trie_eqb a b = true -> a = b.
Proof.
  intros [a1 a2 a3 a4 a5 a6] [b1 b2 b3 b4 b5 b6] H. unfold trie_eqb in H.
  cbn [tree1_level1 tree2_level1 tree2_level2 tree3_level1 tree3_level2 tree3_level3] in H.
  repeat (apply andb_true_iff in H; let H' := fresh "E" in destruct H as [H H']; apply leqb_eq in H').
  apply leqb_eq in H. subst. reflexivity.
Qed.

Lemma mem_In : forall x l, mem x l = true <-> In x l.
Proof.
  induction l as [|y r IH]; cbn [mem In]; [split; [discriminate|tauto]|].
  rewrite orb_true_iff, IH, String.eqb_eq. split; intros [H|H]; auto.
Qed.

(* what must hold of one advertised name *)
Definition name_ok (n : string) : bool :=
  match fn_table pest_unicode_functions n, by_name by_name_loops n with
  | Some t, Some t' =>
    trie_eqb t t' &&
    match vm_builtin vm_hardcoded vm_fallback_by_name by_name_loops n with VUnicode t'' => trie_eqb t t'' | _ => false end &&
    match gen_builtin generator_literals generator_unicode_loop unicode_property_names n with GUnicodeFn f => String.eqb f n | _ => false end &&
    validator_accepts n
  | _, _ => false
  end.

Definition same_names (a b : list string) : bool :=
  forallb (fun n => mem n b) a && forallb (fun n => mem n a) b.

Fixpoint nodupb (l : list string) : bool :=
  match l with [] => true | x :: r => negb (mem x r) && nodupb r end.

Definition ascii_names : bool :=
  forallb (fun xl => forallb (fun nt => is_ascii_string (fst nt)) (snd xl)) by_name_loops.

Lemma name_ok_sound : forall n, name_ok n = true ->
  exists t, fn_table pest_unicode_functions n = Some t /\
            by_name by_name_loops n = Some t /\
            vm_builtin vm_hardcoded vm_fallback_by_name by_name_loops n = VUnicode t /\
            gen_builtin generator_literals generator_unicode_loop unicode_property_names n = GUnicodeFn n /\
            validator_accepts n = true.
Proof.
  intros n H. unfold name_ok in H.
  destruct (fn_table pest_unicode_functions n) as [t|]; [|discriminate].
  destruct (by_name by_name_loops n) as [t'|]; [|discriminate].
  destruct (vm_builtin vm_hardcoded vm_fallback_by_name by_name_loops n) as [|t''|];
    try (rewrite andb_false_r in H; cbn in H; discriminate).
  destruct (gen_builtin generator_literals generator_unicode_loop unicode_property_names n) as [|f|];
    try (rewrite andb_false_r in H; cbn in H; discriminate).
  apply andb_true_iff in H. destruct H as [H Hv].
  apply andb_true_iff in H. destruct H as [H Hg].
  apply andb_true_iff in H. destruct H as [Hb Hm].
  apply trie_eqb_eq in Hb. apply trie_eqb_eq in Hm. apply String.eqb_eq in Hg. subst.
  exists t''. repeat split; auto.
Qed.
