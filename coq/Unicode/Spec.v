(* C16 - the vocabulary of the statement: the fixed lists of the Unicode standard (UAX #44,
   General_Category values and their groupings), the four access paths instantiated on the data
   regenerated from /repo (PV.gen.UnicodeNames), and the counting predicates. *)
From Coq Require Import NArith List Bool String.
Require Import PV.Unicode.Trie PV.Unicode.Names PV.gen.UnicodeNames.
Import ListNotations.
Open Scope string_scope.

(* The 30 two-letter General_Category values (Lu Ll Lt Lm Lo Mn Mc Me Nd Nl No Pc Pd Ps Pe Pi Pf Po
   Sm Sc Sk So Zs Zl Zp Cc Cf Cs Co Cn) under the names pest gives their rules. *)
Definition two_letter_names : list string :=
  ["UPPERCASE_LETTER"; "LOWERCASE_LETTER"; "TITLECASE_LETTER"; "MODIFIER_LETTER"; "OTHER_LETTER";
   "NONSPACING_MARK"; "SPACING_MARK"; "ENCLOSING_MARK";
   "DECIMAL_NUMBER"; "LETTER_NUMBER"; "OTHER_NUMBER";
   "CONNECTOR_PUNCTUATION"; "DASH_PUNCTUATION"; "OPEN_PUNCTUATION"; "CLOSE_PUNCTUATION";
   "INITIAL_PUNCTUATION"; "FINAL_PUNCTUATION"; "OTHER_PUNCTUATION";
   "MATH_SYMBOL"; "CURRENCY_SYMBOL"; "MODIFIER_SYMBOL"; "OTHER_SYMBOL";
   "SPACE_SEPARATOR"; "LINE_SEPARATOR"; "PARAGRAPH_SEPARATOR";
   "CONTROL"; "FORMAT"; "SURROGATE"; "PRIVATE_USE"; "UNASSIGNED"].

(* The grouped values: L, LC, M, N, P, S, Z, C. *)
Definition groups : list (string * list string) :=
  [("LETTER", ["UPPERCASE_LETTER"; "LOWERCASE_LETTER"; "TITLECASE_LETTER"; "MODIFIER_LETTER"; "OTHER_LETTER"]);
   ("CASED_LETTER", ["UPPERCASE_LETTER"; "LOWERCASE_LETTER"; "TITLECASE_LETTER"]);
   ("MARK", ["NONSPACING_MARK"; "SPACING_MARK"; "ENCLOSING_MARK"]);
   ("NUMBER", ["DECIMAL_NUMBER"; "LETTER_NUMBER"; "OTHER_NUMBER"]);
   ("PUNCTUATION", ["CONNECTOR_PUNCTUATION"; "DASH_PUNCTUATION"; "OPEN_PUNCTUATION"; "CLOSE_PUNCTUATION";
                    "INITIAL_PUNCTUATION"; "FINAL_PUNCTUATION"; "OTHER_PUNCTUATION"]);
   ("SYMBOL", ["MATH_SYMBOL"; "CURRENCY_SYMBOL"; "MODIFIER_SYMBOL"; "OTHER_SYMBOL"]);
   ("SEPARATOR", ["SPACE_SEPARATOR"; "LINE_SEPARATOR"; "PARAGRAPH_SEPARATOR"]);
   ("OTHER", ["CONTROL"; "FORMAT"; "SURROGATE"; "PRIVATE_USE"; "UNASSIGNED"])].

(* ---- the access paths, on the regenerated data ---- *)
(* pest::unicode::NAME(c) *)
Definition via_function (n : string) (cp : N) : answer := ask (fn_table pest_unicode_functions n) cp.

(* pest::unicode::by_name(NAME).map(|f| f(c)) *)
Definition via_by_name (n : string) (cp : N) : answer := ask (by_name by_name_loops n) cp.

(* the rule NAME (not defined by the grammar) run by pest_vm: parse_rule -> by_name -> match_char_by *)
Definition via_vm (n : string) (cp : N) : answer :=
  match vm_builtin vm_hardcoded vm_fallback_by_name by_name_loops n with
  | VUnicode t => ask (Some t) cp
  | VHard => Shadowed
  | VUndefined => Panics
  end.

(* the rule NAME in generated code: the built-in fn the generator emits calls ::pest::unicode::<fname> *)
Definition via_generated (n : string) (cp : N) : answer :=
  match gen_builtin generator_literals generator_unicode_loop unicode_property_names n with
  | GUnicodeFn f => via_function f cp
  | GLiteral => Shadowed
  | GMissing => Unresolved
  end.

(* meta::validator: a grammar that uses NAME without defining it is not rejected as "undefined" *)
Definition validator_accepts (n : string) : bool :=
  mem n (validator_builtins validator_literals validator_chains_unicode unicode_property_names).

(* "the rule NAME matches the code point" *)
Definition rule_matches (n : string) (cp : N) : bool :=
  match via_function n cp with Ans true => true | _ => false end.

Definition exactly_one {A : Type} (p : A -> bool) (l : list A) : Prop := List.length (filter p l) = 1%nat.
Definition at_most_one {A : Type} (p : A -> bool) (l : list A) : Prop := (List.length (filter p l) <= 1)%nat.

Definition max_code_point : N := 0x10FFFF%N.
