(* C16 - literal model of ucd-trie 0.1.7, `TrieSetSlice::contains` (src/lib.rs:95-116), over N.

     fn contains(&self, cp: usize) -> bool {
         if cp < 0x800 {
             self.chunk_contains(cp, self.tree1_level1[cp >> 6])
         } else if cp < 0x10000 {
             let leaf = match self.tree2_level1.get((cp >> 6) - 0x20) {
                 None => return false, Some(&leaf) => leaf };
             self.chunk_contains(cp, self.tree2_level2[leaf as usize])
         } else {
             let child = match self.tree3_level1.get((cp >> 12) - 0x10) {
                 None => return false, Some(&child) => child };
             let i = ((child as usize) * CHUNK_SIZE) + ((cp >> 6) & 0b111111);
             let leaf = self.tree3_level2[i];
             self.chunk_contains(cp, self.tree3_level3[leaf as usize])
         }
     }
     fn chunk_contains(&self, cp: usize, chunk: u64) -> bool { ((chunk >> (cp & 0b111111)) & 1) == 1 }

   `None` stands for a Rust panic: slice indexing `a[i]` out of bounds and `usize` subtraction
   underflow; `slice.get(i)` out of bounds is the ordinary `return false`.  The model is part of the
   trusted base (ucd-trie is re-modelled, not verified); it is tied to the crate by the per-table
   membership digests compared on every run. *)
From Coq Require Import NArith List Bool Lia.
Import ListNotations.
Open Scope N_scope.

Record trie := mk_trie {
  tree1_level1 : list N;   (* &[u64] *)
  tree2_level1 : list N;   (* &[u8]  *)
  tree2_level2 : list N;   (* &[u64] *)
  tree3_level1 : list N;   (* &[u8]  *)
  tree3_level2 : list N;   (* &[u8]  *)
  tree3_level3 : list N    (* &[u64] *)
}.

(* a[i] / a.get(i): None = out of bounds *)
Definition idx (l : list N) (i : N) : option N := nth_error l (N.to_nat i).

(* usize subtraction: None = underflow (panics with overflow checks on) *)
Definition csub (a b : N) : option N := if a <? b then None else Some (a - b).

Definition chunk_contains (cp chunk : N) : bool :=
  N.land (N.shiftr chunk (N.land cp 63)) 1 =? 1.

Definition contains (t : trie) (cp : N) : option bool :=
  if cp <? 0x800 then
    match idx (tree1_level1 t) (N.shiftr cp 6) with
    | None => None
    | Some w => Some (chunk_contains cp w)
    end
  else if cp <? 0x10000 then
    match csub (N.shiftr cp 6) 0x20 with
    | None => None
    | Some i =>
      match idx (tree2_level1 t) i with
      | None => Some false
      | Some leaf =>
        match idx (tree2_level2 t) leaf with
        | None => None
        | Some w => Some (chunk_contains cp w)
        end
      end
    end
  else
    match csub (N.shiftr cp 12) 0x10 with
    | None => None
    | Some c =>
      match idx (tree3_level1 t) c with
      | None => Some false
      | Some child =>
        let i := child * 64 + N.land (N.shiftr cp 6) 63 in
        match idx (tree3_level2 t) i with
        | None => None
        | Some leaf =>
          match idx (tree3_level3 t) leaf with
          | None => None
          | Some w => Some (chunk_contains cp w)
          end
        end
      end
    end.

(* contains_char(c) = contains(c as usize); contains_u32 adds the range test *)
Definition contains_u32 (t : trie) (cp : N) : option bool :=
  if 0x10FFFF <? cp then Some false else contains t cp.

(* The 64-bit word that holds the bits of code points 64k .. 64k+63 (k = cp / 64), following the same
   three trees.  None = the lookup panics for these code points. *)
Definition chunk_of (t : trie) (k : N) : option N :=
  if k <? 32 then idx (tree1_level1 t) k
  else if k <? 1024 then
    match idx (tree2_level1 t) (k - 32) with
    | None => Some 0
    | Some leaf => idx (tree2_level2 t) leaf
    end
  else
    match idx (tree3_level1 t) (N.shiftr k 6 - 16) with
    | None => Some 0
    | Some child =>
      match idx (tree3_level2 t) (child * 64 + N.land k 63) with
      | None => None
      | Some leaf => idx (tree3_level3 t) leaf
      end
    end.

Definition nchunks : N := 17408.      (* 0x110000 / 64 *)

(* ------------------------------------------------------------------------------------------- *)
(* The bit lemma: chunk-level word checks lift to code points.                                  *)

Lemma chunk_contains_testbit : forall cp w, chunk_contains cp w = N.testbit w (cp mod 64).
Proof.
  intros cp w. unfold chunk_contains.
  change 63 with (N.ones 6). rewrite N.land_ones. change (2 ^ 6) with 64.
  change 1 with (N.ones 1) at 1. rewrite N.land_ones. change (2 ^ 1) with 2.
  rewrite <- N.bit0_mod. rewrite N.shiftr_spec'. rewrite N.add_0_l.
  destruct (N.testbit w (cp mod 64)); reflexivity.
Qed.

Lemma shiftr6 : forall cp, N.shiftr cp 6 = cp / 64.
Proof. intros. rewrite N.shiftr_div_pow2. reflexivity. Qed.

Lemma shiftr12 : forall cp, N.shiftr cp 12 = N.shiftr (cp / 64) 6.
Proof.
  intros. rewrite <- shiftr6. rewrite N.shiftr_shiftr. reflexivity.
Qed.

Lemma lt_div64 : forall cp b, (cp <? b * 64) = (cp / 64 <? b).
Proof.
  intros cp b.
  destruct (N.ltb_spec cp (b * 64)) as [H|H]; destruct (N.ltb_spec (cp / 64) b) as [H'|H']; try reflexivity; exfalso.
  - assert (cp / 64 < b) by (apply N.div_lt_upper_bound; lia). lia.
  - pose proof (N.div_mod cp 64 ltac:(lia)) as E.
    pose proof (N.mod_lt cp 64 ltac:(lia)) as L. nia.
Qed.

Theorem contains_chunk : forall t cp,
  contains t cp = option_map (fun w => N.testbit w (cp mod 64)) (chunk_of t (cp / 64)).
Proof.
  intros t cp. unfold contains, chunk_of, csub.
  change 0x800 with (32 * 64). change 0x10000 with (1024 * 64).
  rewrite !lt_div64. rewrite shiftr12. rewrite !shiftr6.
  change 63 with (N.ones 6). rewrite !N.land_ones. change (2 ^ 6) with 64.
  destruct (cp / 64 <? 32) eqn:H1.
  - destruct (idx (tree1_level1 t) (cp / 64)); cbn [option_map]; [rewrite chunk_contains_testbit|]; reflexivity.
  - destruct (cp / 64 <? 1024) eqn:H2.
    + apply N.ltb_ge in H1.
      replace (cp / 64 <? 32) with false by (symmetry; apply N.ltb_ge; exact H1).
      destruct (idx (tree2_level1 t) (cp / 64 - 32)) as [leaf|]; cbn [option_map].
      * destruct (idx (tree2_level2 t) leaf); cbn [option_map]; [rewrite chunk_contains_testbit|]; reflexivity.
      * rewrite N.bits_0. reflexivity.
    + apply N.ltb_ge in H2.
      assert (H3 : (cp / 64 / 64 <? 16) = false).
      { apply N.ltb_ge. apply N.div_le_lower_bound; lia. }
      rewrite H3.
      destruct (idx (tree3_level1 t) (cp / 64 / 64 - 16)) as [child|]; cbn [option_map].
      * cbv zeta.
        destruct (idx (tree3_level2 t) (child * 64 + (cp / 64) mod 64)) as [leaf|]; cbn [option_map]; [|reflexivity].
        destruct (idx (tree3_level3 t) leaf); cbn [option_map]; [rewrite chunk_contains_testbit|]; reflexivity.
      * rewrite N.bits_0. reflexivity.
Qed.

(* the form quoted in DESIGN.md: for a table whose chunk exists, membership is one bit of the chunk *)
Corollary contains_testbit : forall t cp w,
  cp <= 0x10FFFF -> chunk_of t (cp / 64) = Some w -> contains t cp = Some (N.testbit w (cp mod 64)).
Proof. intros t cp w _ H. rewrite contains_chunk, H. reflexivity. Qed.

Lemma chunk_index_bound : forall cp, cp <= 0x10FFFF -> cp / 64 < nchunks.
Proof.
  intros cp H. unfold nchunks. apply N.div_lt_upper_bound; lia.
Qed.

Lemma bit_index_bound : forall cp, cp mod 64 < 64.
Proof. intros. apply N.mod_lt. lia. Qed.
