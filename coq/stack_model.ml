
type nat =
| O
| S of nat

(** val option_map : ('a1 -> 'a2) -> 'a1 option -> 'a2 option **)

let option_map f = function
| Some a -> Some (f a)
| None -> None

(** val length : 'a1 list -> nat **)

let rec length = function
| [] -> O
| _ :: l' -> S (length l')

(** val app : 'a1 list -> 'a1 list -> 'a1 list **)

let rec app l m =
  match l with
  | [] -> m
  | a :: l1 -> a :: (app l1 m)

(** val add : nat -> nat -> nat **)

let rec add n m =
  match n with
  | O -> m
  | S p -> S (add p m)

(** val sub : nat -> nat -> nat **)

let rec sub n m =
  match n with
  | O -> n
  | S k -> (match m with
            | O -> n
            | S l -> sub k l)

module Nat =
 struct
  (** val eqb : nat -> nat -> bool **)

  let rec eqb n m =
    match n with
    | O -> (match m with
            | O -> true
            | S _ -> false)
    | S n' -> (match m with
               | O -> false
               | S m' -> eqb n' m')

  (** val leb : nat -> nat -> bool **)

  let rec leb n m =
    match n with
    | O -> true
    | S n' -> (match m with
               | O -> false
               | S m' -> leb n' m')

  (** val ltb : nat -> nat -> bool **)

  let ltb n m =
    leb (S n) m

  (** val min : nat -> nat -> nat **)

  let rec min n m =
    match n with
    | O -> O
    | S n' -> (match m with
               | O -> O
               | S m' -> S (min n' m'))
 end

(** val hd_error : 'a1 list -> 'a1 option **)

let hd_error = function
| [] -> None
| x :: _ -> Some x

(** val tl : 'a1 list -> 'a1 list **)

let tl = function
| [] -> []
| _ :: m -> m

(** val rev : 'a1 list -> 'a1 list **)

let rec rev = function
| [] -> []
| x :: l' -> app (rev l') (x :: [])

(** val firstn : nat -> 'a1 list -> 'a1 list **)

let rec firstn n l =
  match n with
  | O -> []
  | S n0 -> (match l with
             | [] -> []
             | a :: l0 -> a :: (firstn n0 l0))

(** val skipn : nat -> 'a1 list -> 'a1 list **)

let rec skipn n l =
  match n with
  | O -> l
  | S n0 -> (match l with
             | [] -> []
             | _ :: l0 -> skipn n0 l0)

type 't stk = { cache : 't list; popped : 't list; lengths : (nat * nat) list }

(** val cache : 'a1 stk -> 'a1 list **)

let cache s =
  s.cache

(** val popped : 'a1 stk -> 'a1 list **)

let popped s =
  s.popped

(** val lengths : 'a1 stk -> (nat * nat) list **)

let lengths s =
  s.lengths

(** val empty : 'a1 stk **)

let empty =
  { cache = []; popped = []; lengths = [] }

(** val push : 'a1 stk -> 'a1 -> 'a1 stk **)

let push s x =
  { cache = (x :: s.cache); popped = s.popped; lengths = s.lengths }

(** val peek : 'a1 stk -> 'a1 option **)

let peek s =
  hd_error s.cache

(** val pop : 'a1 stk -> 'a1 stk * 'a1 option **)

let pop s =
  match s.cache with
  | [] -> (s, None)
  | x :: c' ->
    let len = S (length c') in
    (match s.lengths with
     | [] -> ({ cache = c'; popped = s.popped; lengths = [] }, (Some x))
     | p :: ls ->
       let (l, r) = p in
       if Nat.eqb len r
       then ({ cache = c'; popped = (x :: s.popped); lengths = ((l,
              (sub r (S O))) :: ls) }, (Some x))
       else ({ cache = c'; popped = s.popped; lengths = s.lengths }, (Some x)))

(** val snapshot : 'a1 stk -> 'a1 stk **)

let snapshot s =
  { cache = s.cache; popped = s.popped; lengths = (((length s.cache),
    (length s.cache)) :: s.lengths) }

(** val csub : nat -> nat -> nat option **)

let csub a b =
  if Nat.leb b a then Some (sub a b) else None

(** val clear_snapshot : 'a1 stk -> 'a1 stk option **)

let clear_snapshot s =
  match s.lengths with
  | [] -> Some s
  | p :: rest ->
    let (len, remained) = p in
    (match csub len remained with
     | Some popped_count ->
       (match rest with
        | [] ->
          (match csub (length s.popped) popped_count with
           | Some _ ->
             Some { cache = s.cache; popped = (skipn popped_count s.popped);
               lengths = [] }
           | None -> None)
        | p0 :: rest' ->
          let (pl, pr) = p0 in
          let merged = Nat.min pr remained in
          let parent_popped = sub pr merged in
          (match csub (length s.popped) popped_count with
           | Some popped_start ->
             (match csub (add popped_start popped_count) parent_popped with
              | Some drain_end ->
                if Nat.leb popped_start drain_end
                then Some { cache = s.cache; popped =
                       (app (firstn parent_popped s.popped)
                         (skipn popped_count s.popped)); lengths = ((pl,
                       merged) :: rest') }
                else None
              | None -> None)
           | None -> None))
     | None -> None)

(** val restore : 'a1 stk -> 'a1 stk option **)

let restore s =
  match s.lengths with
  | [] -> Some { cache = []; popped = s.popped; lengths = [] }
  | p :: rest ->
    let (len_stack, remained) = p in
    let c1 =
      if Nat.ltb remained (length s.cache)
      then skipn (sub (length s.cache) remained) s.cache
      else s.cache
    in
    if Nat.ltb remained len_stack
    then let rewind = sub len_stack remained in
         (match csub (length s.popped) rewind with
          | Some _ ->
            Some { cache = (app (rev (firstn rewind s.popped)) c1); popped =
              (skipn rewind s.popped); lengths = rest }
          | None -> None)
    else Some { cache = c1; popped = s.popped; lengths = rest }

type 't spec = { cur : 't list; snaps : 't list list }

(** val cur : 'a1 spec -> 'a1 list **)

let cur s =
  s.cur

(** val sempty : 'a1 spec **)

let sempty =
  { cur = []; snaps = [] }

(** val spush : 'a1 spec -> 'a1 -> 'a1 spec **)

let spush a x =
  { cur = (x :: a.cur); snaps = a.snaps }

(** val speek : 'a1 spec -> 'a1 option **)

let speek a =
  hd_error a.cur

(** val spop : 'a1 spec -> 'a1 spec * 'a1 option **)

let spop a =
  match a.cur with
  | [] -> (a, None)
  | x :: c -> ({ cur = c; snaps = a.snaps }, (Some x))

(** val ssnapshot : 'a1 spec -> 'a1 spec **)

let ssnapshot a =
  { cur = a.cur; snaps = (a.cur :: a.snaps) }

(** val sclear : 'a1 spec -> 'a1 spec **)

let sclear a =
  { cur = a.cur; snaps = (tl a.snaps) }

(** val srestore : 'a1 spec -> 'a1 spec **)

let srestore a =
  match a.snaps with
  | [] -> { cur = []; snaps = [] }
  | x :: r -> { cur = x; snaps = r }

type 't op =
| Push of 't
| Pop
| Peek
| Snapshot
| Clear
| Restore

(** val step_impl : 'a1 stk -> 'a1 op -> ('a1 stk * 'a1 option) option **)

let step_impl s = function
| Push x -> Some ((push s x), None)
| Pop -> Some (pop s)
| Peek -> Some (s, (peek s))
| Snapshot -> Some ((snapshot s), None)
| Clear -> option_map (fun s' -> (s', None)) (clear_snapshot s)
| Restore -> option_map (fun s' -> (s', None)) (restore s)

(** val step_spec : 'a1 spec -> 'a1 op -> 'a1 spec * 'a1 option **)

let step_spec a = function
| Push x -> ((spush a x), None)
| Pop -> spop a
| Peek -> (a, (speek a))
| Snapshot -> ((ssnapshot a), None)
| Clear -> ((sclear a), None)
| Restore -> ((srestore a), None)
