(* C13 - executable model of pest/src/pratt_parser.rs, written function by function.
   Every Rust panic site is an explicit [Panic] branch.  What is modelled by its documented meaning:
   BTreeMap<R,(Affix,Prec)> (an association list where a later insert shadows an earlier one),
   Peekable<I> over the pairs (a list: peek = head, next = head + tail), the user closures
   (free constructors of [tree]; a closure that was not supplied is a [maps] flag that is false).
   Not modelled: u32 overflow of `self.prec += PREC_STEP` (needs > 4*10^8 calls of .op()), the
   write-only fields has_prefix/has_postfix/has_infix, native stack depth. *)
From Coq Require Import List Arith Bool.
Import ListNotations.
Require Import PV.Pratt.Syntax.
Set Implicit Arguments.

Definition PREC_STEP : prec := 10.            (* const PREC_STEP: Prec = 10; *)

(* ---------------------------------------------------------------------------------------------
   Operator declarations and the two table constructors
   --------------------------------------------------------------------------------------------- *)

(* struct Op { rule, affix, next }: a non-empty chain, built by Op::prefix/postfix/infix and `|`
   (bitor appends at the end of the chain). *)
Definition opdecl := (rule * affix)%type.
Definition level := (opdecl * list opdecl)%type.          (* head of the chain, rest of the chain *)
Definition chain (lv : level) : list opdecl := fst lv :: snd lv.
Definition decl := list level.                             (* the arguments of successive .op(..) calls *)

(* struct PrattParser { prec, ops } ; `ops` newest binding first *)
Record builder := { b_prec : prec; b_ops : list (rule * entry) }.
(* PrattParser::new *)
Definition builder_new : builder := {| b_prec := PREC_STEP; b_ops := [] |}.
(* PrattParser::op : self.prec += PREC_STEP; walk the chain, self.ops.insert(rule, (affix, self.prec)) *)
Definition builder_op (b : builder) (lv : level) : builder :=
  let p := b_prec b + PREC_STEP in
  {| b_prec := p;
     b_ops := fold_left (fun m (o : opdecl) => (fst o, (snd o, p)) :: m) (chain lv) (b_ops b) |}.
Definition builder_table (d : decl) : builder := fold_left builder_op d builder_new.
(* PrattParser::get : self.ops.get(rule).copied() *)
Fixpoint assoc_find (m : list (rule * entry)) (r : rule) : option entry :=
  match m with
  | [] => None
  | (r', e) :: m' => if Nat.eqb r' r then Some e else assoc_find m' r
  end.
Definition builder_get (b : builder) : table := assoc_find (b_ops b).

(* struct ConstPrattParser { ops: [(R, Affix, Prec); N] } in array order *)
Definition const_table := list (rule * entry).
Inductive const_panic :=
| CEmpty      (* const { assert!(N > 0) } - a compile-time error *)
| CFirst      (* "the first operator must start a new precedence level (`true`)" *)
| CChain.     (* "chained operators (created with `|`) are not supported in ConstPrattParser" *)
(* the while loop of new_const: prec starts at 0 *)
Fixpoint const_loop (p : prec) (ops : list (level * bool)) : const_table + const_panic :=
  match ops with
  | [] => inl []
  | (lv, new_level) :: ops' =>
    match snd lv with
    | _ :: _ => inr CChain                                   (* assert!(op.next.is_none()) *)
    | [] =>
      let p' := if new_level then p + PREC_STEP else p in
      match const_loop p' ops' with
      | inl tl => inl ((fst (fst lv), (snd (fst lv), p')) :: tl)
      | inr e => inr e
      end
    end
  end.
(* ConstPrattParser::new_const *)
Definition new_const (ops : list (level * bool)) : const_table + const_panic :=
  match ops with
  | [] => inr CEmpty
  | (_, false) :: _ => inr CFirst                            (* assert!(ops[0].1) *)
  | _ => const_loop 0 ops
  end.
(* ConstPrattParser::get : i = N; while i > 0 { i -= 1; if ops[i].0 == *rule { return .. } } None
   = the LAST entry of the array with that rule *)
Definition const_get (t : const_table) : table := assoc_find (rev t).
(* pratt_precedence![ a | b | .., c | .., .. ] : first operator of each level tagged true, others false *)
Definition macro_level (lv : level) : list (level * bool) :=
  ((fst lv, []), true) :: map (fun o : opdecl => ((o, []), false)) (snd lv).
Definition macro_expand (d : decl) : list (level * bool) := flat_map macro_level d.

(* ---------------------------------------------------------------------------------------------
   PrattParserMap::{parse, expr, nud, led, lbp}
   --------------------------------------------------------------------------------------------- *)

(* which of map_prefix / map_postfix / map_infix were called (the Option<Box<dyn FnMut>> fields) *)
Record maps := { m_prefix : bool; m_postfix : bool; m_infix : bool }.
Definition all_maps : maps := {| m_prefix := true; m_postfix := true; m_infix := true |}.

Section Parse.
Variable A : Type.
Variable m : maps.
Variable get : table.
Notation tok := (tok A).
Notation tree := (tree A).
Notation res := (res A).

(* fn lbp: match pairs.peek() { Some(pair) => match get(rule) { Some((_, prec)) => prec, None => panic! }, None => 0 } *)
Definition lbp (ts : list tok) : prec + panic :=
  match ts with
  | [] => inl 0
  | a :: _ => match get (fst a) with Some (_, p) => inl p | None => inr PLbp end
  end.

(* checked `prec - 1` (overflow-checks on; the harness is built with them) *)
Definition pred_checked (p : prec) : option prec := match p with 0 => None | S p' => Some p' end.

(* fn nud, with the recursive call to expr passed in *)
Definition nud (rec : list tok -> prec -> res) (ts : list tok) : res :=
  match ts with
  | [] => Panic PEmpty                                       (* pairs.next().expect(..) *)
  | a :: ts' =>
    match get (fst a) with
    | Some (Prefix, p) =>
      match pred_checked p with
      | None => Panic PSub
      | Some rbp =>
        match rec ts' rbp with
        | Ok rhs rest => if m_prefix m then Ok (Pre a rhs) rest else Panic PNoMap
        | e => e
        end
      end
    | None => Ok (Leaf a) ts'                                (* (self.primary)(pair) *)
    | Some _ => Panic PNud
    end
  end.

(* fn led *)
Definition led (rec : list tok -> prec -> res) (ts : list tok) (lhs : tree) : res :=
  match ts with
  | [] => Panic PUnwrap                                      (* pairs.next().unwrap() *)
  | a :: ts' =>
    match get (fst a) with
    | Some (Infix s, p) =>
      match (match s with ALeft => Some p | ARight => pred_checked p end) with
      | None => Panic PSub
      | Some rbp =>
        match rec ts' rbp with
        | Ok rhs rest => if m_infix m then Ok (Bin lhs a rhs) rest else Panic PNoMap
        | e => e
        end
      end
    | Some (Postfix, _) => if m_postfix m then Ok (Post lhs a) ts' else Panic PNoMap
    | _ => Panic PLed
    end
  end.

(* fn expr: let mut lhs = nud(pairs); while rbp < lbp(pairs) { lhs = led(pairs, lhs) } lhs
   [loop] is the while loop.  One unit of fuel per call / iteration. *)
Fixpoint expr (fuel : nat) (ts : list tok) (rbp : prec) {struct fuel} : res :=
  match fuel with
  | 0 => OutOfFuel
  | S f =>
    match nud (expr f) ts with
    | Ok lhs ts1 => loop f lhs ts1 rbp
    | e => e
    end
  end
with loop (fuel : nat) (lhs : tree) (ts : list tok) (rbp : prec) {struct fuel} : res :=
  match fuel with
  | 0 => OutOfFuel
  | S f =>
    match lbp ts with
    | inr k => Panic k
    | inl l =>
      if Nat.ltb rbp l then
        match led (expr f) ts lhs with
        | Ok lhs' ts' => loop f lhs' ts' rbp
        | e => e
        end
      else Ok lhs ts
    end
  end.

(* fn parse: self.expr(&mut pairs.peekable(), 0).  The result also carries the tokens that were
   not consumed (Rust drops the iterator); 2*len+2 units of fuel always suffice (Proofs.v). *)
Definition pratt_parse (ts : list tok) : res := expr (2 * length ts + 2) ts 0.
End Parse.
