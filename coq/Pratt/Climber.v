(* C13 - executable model of pest/src/prec_climber.rs (deprecated PrecClimber):
   PrecClimber::new, get (FIRST entry with the rule), climb, climb_rec with its two nested while loops.
   `primary` is applied to whatever pair comes next (no look-up), exactly as in the code. *)
From Coq Require Import List Arith Bool.
Import ListNotations.
Require Import PV.Pratt.Syntax PV.Pratt.Model.
Set Implicit Arguments.

(* struct Operator { rule, assoc, next }: non-empty chain; Vec<Operator> *)
Definition copdecl := (rule * assoc)%type.
Definition clevel := (copdecl * list copdecl)%type.
Definition cchain (lv : clevel) : list copdecl := fst lv :: snd lv.
Definition cdecl := list clevel.

(* ops: [(R, u32, Assoc)] in Vec order *)
Definition climber := list (rule * (prec * assoc)).
(* PrecClimber::new : ops.into_iter().zip(1..).fold(Vec::new(), |vec, (op, prec)| push the chain) *)
Fixpoint climber_from (p : prec) (d : cdecl) : climber :=
  match d with
  | [] => []
  | lv :: d' => map (fun o : copdecl => (fst o, (p, snd o))) (cchain lv) ++ climber_from (S p) d'
  end.
Definition climber_new (d : cdecl) : climber := climber_from 1 d.
(* PrecClimber::new_const (cargo feature const_prec_climber): PrecClimber { ops: Cow::Borrowed(ops) } -
   the caller's slice of (rule, precedence, assoc) as it is: any order, any u32 precedences *)
Definition climber_new_const (ops : climber) : climber := ops.
(* prec_climber![ A r | r | .., A r | .., .. ]  (A = L | R, one associativity per level by construction):
   @precedences declares `const r: u32` = 1 for the rules of the first level, 1 + the previous level's
   value for the next ones (a rule written twice is a duplicate `const`: a compile-time error);
   @array lists (Rule::r, r, assoc of the level) in the order written; the result goes to new_const. *)
Definition mlevel := (assoc * (rule * list rule))%type.
Definition mrules (lv : mlevel) : list rule := fst (snd lv) :: snd (snd lv).
Fixpoint macro_entries (p : prec) (d : list mlevel) : climber :=
  match d with
  | [] => []
  | lv :: d' => map (fun r : rule => (r, (p, fst lv))) (mrules lv) ++ macro_entries (S p) d'
  end.
Definition climber_macro (d : list mlevel) : climber := climber_new_const (macro_entries 1 d).
(* fn get : self.ops.iter().find(|(r, _, _)| r == rule) *)
Definition ctable := rule -> option (prec * assoc).
Fixpoint climber_get (c : climber) (r : rule) : option (prec * assoc) :=
  match c with
  | [] => None
  | (r', e) :: c' => if Nat.eqb r' r then Some e else climber_get c' r
  end.

Section Climb.
Variable A : Type.
Variable get : ctable.
Notation tok := (tok A).
Notation tree := (tree A).
Notation res := (res A).

(* climb_rec: the outer `while pairs.peek().is_some()` loop, one unit of fuel per iteration/call;
   climb_inner: the inner `while pairs.peek().is_some()` loop that extends rhs. *)
Fixpoint climb_rec (fuel : nat) (lhs : tree) (min_prec : prec) (ts : list tok) {struct fuel} : res :=
  match fuel with
  | 0 => OutOfFuel
  | S f =>
    match ts with
    | [] => Ok lhs []
    | o :: ts1 =>
      match get (fst o) with
      | Some (p, _) =>
        if Nat.leb min_prec p then                           (* prec >= min_prec *)
          match ts1 with
          | [] => Panic PExpect                              (* pairs.next().expect(..) *)
          | a :: ts2 =>
            match climb_inner f (Leaf a) p ts2 with
            | Ok rhs rest => climb_rec f (Bin lhs o rhs) min_prec rest
            | e => e
            end
          end
        else Ok lhs ts
      | None => Ok lhs ts
      end
    end
  end
with climb_inner (fuel : nat) (rhs : tree) (p : prec) (ts : list tok) {struct fuel} : res :=
  match fuel with
  | 0 => OutOfFuel
  | S f =>
    match ts with
    | [] => Ok rhs []
    | o2 :: _ =>
      match get (fst o2) with
      | Some (np, s) =>
        (* new_prec > prec || assoc == Assoc::Right && new_prec == prec *)
        if Nat.ltb p np || (assoc_eqb s ARight && Nat.eqb np p) then
          match climb_rec f rhs np ts with
          | Ok rhs' rest => climb_inner f rhs' p rest
          | e => e
          end
        else Ok rhs ts
      | None => Ok rhs ts
      end
    end
  end.

(* fn climb: lhs = primary(pairs.next().expect(..)); climb_rec(lhs, 0, ..) *)
Definition climb (ts : list tok) : res :=
  match ts with
  | [] => Panic PEmpty
  | a :: ts' => climb_rec (2 * length ts' + 2) (Leaf a) 0 ts'
  end.
End Climb.

(* the climber table that corresponds to a Pratt table: its infix operators, same levels *)
Definition climber_of (g : table) : ctable :=
  fun r => match g r with Some (Infix s, p) => Some (p, s) | _ => None end.
(* and the Pratt table that corresponds to a climber table *)
Definition table_of (c : ctable) : table :=
  fun r => match c r with Some (p, s) => Some (Infix s, p) | None => None end.

(* An infix-only declaration written for PrecClimber::new, re-read as the argument of PrattParser::op
   (Operator::new(r, a) |-> Op::infix(r, a), same chains, same order of levels) *)
Definition pratt_op (o : copdecl) : opdecl := (fst o, Infix (snd o)).
Definition pratt_level (lv : clevel) : level := (pratt_op (fst lv), map pratt_op (snd lv)).
Definition pratt_decl (d : cdecl) : decl := map pratt_level d.
(* the rules a climber declaration mentions, in order *)
Definition crules (d : cdecl) : list rule := map fst (flat_map cchain d).
(* every level has a single associativity *)
Definition cuniform_decl (d : cdecl) : Prop :=
  Forall (fun lv : clevel => forall o, In o (cchain lv) -> snd o = snd (fst lv)) d.

(* a prec_climber! declaration re-read as the argument of PrecClimber::new
   (A r1 | r2 ..  |->  Operator::new(r1, A) | Operator::new(r2, A) ..) *)
Definition cdecl_of_macro (d : list mlevel) : cdecl :=
  map (fun lv : mlevel => ((fst (snd lv), fst lv), map (fun r : rule => (r, fst lv)) (snd (snd lv)))) d.
(* a slice given to new_const has one associativity per precedence value *)
Definition cuniform_slice (c : climber) : Prop :=
  forall r1 r2 p s1 s2, In (r1, (p, s1)) c -> In (r2, (p, s2)) c -> s1 = s2.
