(* C13 - PrattParser (Model.v) against the shunting-yard specification (Shunt.v):
   (1) simulation: whenever expr / the while loop return normally, the specification run over the
       same tokens moves between the corresponding two-stack states (no well-formedness needed);
   (2) totality: on well-formed input with every closure supplied and positive levels, expr returns
       normally with 2*len+2 units of fuel, consumes a well-formed prefix, and the in-order yield of
       the result is exactly what was consumed;
   (3) pratt_parse never runs out of fuel, on any input. *)
From Coq Require Import List Arith Bool Lia.
Import ListNotations.
Require Import PV.Pratt.Syntax PV.Pratt.Model PV.Pratt.Shunt.
Set Implicit Arguments.

Lemma expr_S A m get f (ts : list (tok A)) rbp :
  expr m get (S f) ts rbp =
  match nud m get (expr m get f) ts with Ok lhs ts1 => loop m get f lhs ts1 rbp | e => e end.
Proof. reflexivity. Qed.
Lemma loop_S A m get f lhs (ts : list (tok A)) rbp :
  loop m get (S f) lhs ts rbp =
  match lbp get ts with
  | inr k => Panic k
  | inl l => if Nat.ltb rbp l then
               match led m get (expr m get f) ts lhs with Ok lhs' ts' => loop m get f lhs' ts' rbp | e => e end
             else Ok lhs ts
  end.
Proof. reflexivity. Qed.

Section P.
Variable A : Type.
Variable m : maps.
Variable get : table.
Notation tok := (tok A).
Notation tree := (tree A).
Notation res := (res A).
Notation sop := (sop A).
Notation expr := (@Model.expr A m get).
Notation loop := (@Model.loop A m get).
Notation nud := (@Model.nud A m get).
Notation led := (@Model.led A m get).
Notation sy := (@Shunt.sy A get).

(* the top of the operator stack is not reduced by any operator the loop with this rbp accepts *)
Definition blocks (ops : list sop) (rbp : prec) : Prop :=
  match ops with [] => True | s :: _ => forall lp, rbp < lp -> reduces s lp = false end.
(* what follows the expression: nothing, or an operator whose level is <= rbp *)
Definition stops (rbp : prec) (rest : list tok) : Prop :=
  match rest with [] => True | a :: _ => exists af p, get (@fst rule A a) = Some (af, p) /\ p <= rbp end.

Lemma reduce_while_blocked lp ops (out : list tree) rbp :
  blocks ops rbp -> rbp < lp -> reduce_while lp ops out = Some (ops, out).
Proof.
  destruct ops as [|s ops]; cbn; intros B L; [reflexivity|]. now rewrite (B lp L).
Qed.

(* one reduction of the specification, triggered by whatever follows *)
Lemma sy_reduce_step s ops (out out' : list tree) rbp rest :
  stops rbp rest -> (forall lp, lp <= rbp -> reduces s lp = true) -> apply_op s out = Some out' ->
  sy false (s :: ops) out rest = sy false ops out' rest.
Proof.
  intros St R Ap. destruct rest as [|a rest]; cbn.
  - now rewrite Ap.
  - destruct St as (af & p & G & L). rewrite G. destruct af as [| |s']; try reflexivity.
    + cbn. rewrite (R p L), Ap. reflexivity.
    + cbn. rewrite (R p L), Ap. reflexivity.
Qed.

Lemma lbp_inl ts l : lbp get ts = inl l ->
  (ts = [] /\ l = 0) \/ (exists (a : tok) ts' af, ts = a :: ts' /\ get (fst a) = Some (af, l)).
Proof.
  destruct ts as [|a ts']; cbn.
  - intros H; inversion H; auto.
  - destruct (get (fst a)) as [[af p]|] eqn:G; intros H; inversion H; subst. right. now exists a, ts', af.
Qed.

(* ---------------- (1) simulation ---------------- *)

Definition sim_expr (f : nat) : Prop := forall ts rbp t rest,
  expr f ts rbp = Ok t rest ->
  stops rbp rest /\ forall ops out, blocks ops rbp -> sy true ops out ts = sy false ops (t :: out) rest.
Definition sim_loop (f : nat) : Prop := forall lhs ts rbp t rest,
  loop f lhs ts rbp = Ok t rest ->
  stops rbp rest /\ forall ops out, blocks ops rbp -> sy false ops (lhs :: out) ts = sy false ops (t :: out) rest.

Lemma sim_nud f : sim_expr f -> forall ts lhs ts1,
  nud (expr f) ts = Ok lhs ts1 -> forall ops out, sy true ops out ts = sy false ops (lhs :: out) ts1.
Proof.
  intros IH ts lhs ts1 H ops out. destruct ts as [|a ts']; cbn in H; [discriminate|].
  cbn [Shunt.sy]. destruct (get (fst a)) as [[af p]|] eqn:G.
  - destruct af as [| |s]; try discriminate.
    destruct p as [|p']; cbn in H; [discriminate|].
    destruct (expr f ts' p') as [rhs rest| |] eqn:E; try discriminate.
    destruct (m_prefix m); [|discriminate]. inversion H; subst; clear H.
    destruct (IH _ _ _ _ E) as [St Sim].
    rewrite (Sim (SPre a (S p') :: ops) out).
    + apply sy_reduce_step with (rbp := p'); auto.
      intros lp L. cbn [reduces]. apply Nat.ltb_lt. lia.
    + cbn [blocks reduces]. intros lp L. apply Nat.ltb_ge. lia.
  - inversion H; subst. reflexivity.
Qed.

Lemma sim_all : forall f, sim_expr f /\ sim_loop f.
Proof.
  induction f as [|f [IHe IHl]].
  - split; intros until rest; cbn; discriminate.
  - split.
    + intros ts rbp t rest H. rewrite expr_S in H.
      destruct (nud (expr f) ts) as [lhs ts1| |] eqn:N; try discriminate.
      destruct (IHl _ _ _ _ _ H) as [St Sim]. split; [exact St|].
      intros ops out B. rewrite (sim_nud IHe _ N). now apply Sim.
    + intros lhs ts rbp t rest H. rewrite loop_S in H.
      destruct (lbp get ts) as [l|k] eqn:L; [|discriminate].
      destruct (Nat.ltb rbp l) eqn:C.
      * apply Nat.ltb_lt in C.
        destruct (lbp_inl _ L) as [[-> ->]|(a & ts' & af & -> & G)]; [lia|].
        cbn [Model.led] in H. rewrite G in H.
        destruct af as [| |s]; cbn iota in H; try discriminate.
        -- (* postfix *)
           destruct (m_postfix m); [|discriminate].
           destruct (IHl _ _ _ _ _ H) as [St Sim]. split; [exact St|].
           intros ops out B. cbn [Shunt.sy]. rewrite G.
           rewrite (reduce_while_blocked _ _ B C). now apply Sim.
        -- (* infix *)
           destruct (match s with ALeft => Some l | ARight => pred_checked l end) as [rbp'|] eqn:R; [|discriminate].
           destruct (expr f ts' rbp') as [rhs rest1| |] eqn:E; try discriminate.
           destruct (m_infix m); [|discriminate].
           destruct (IHl _ _ _ _ _ H) as [St Sim]. split; [exact St|].
           intros ops out B. cbn [Shunt.sy]. rewrite G.
           rewrite (reduce_while_blocked _ _ B C).
           destruct (IHe _ _ _ _ E) as [St1 Sim1].
           rewrite (Sim1 (SInf a s l :: ops) (lhs :: out)).
           ++ rewrite sy_reduce_step with (rbp := rbp') (out' := Bin lhs a rhs :: out); auto.
              intros lp Hl. destruct s; cbn [reduces].
              ** inversion R; subst. apply Nat.leb_le. lia.
              ** destruct l; cbn in R; [discriminate|]. inversion R; subst. apply Nat.ltb_lt. lia.
           ++ cbn [blocks]. intros lp Hl. destruct s; cbn [reduces].
              ** inversion R; subst. apply Nat.leb_gt. lia.
              ** destruct l; cbn in R; [discriminate|]. inversion R; subst. apply Nat.ltb_ge. lia.
      * apply Nat.ltb_ge in C. inversion H; subst; clear H. split; [|reflexivity].
        destruct (lbp_inl _ L) as [[-> ->]|(a & ts' & af & -> & G)]; cbn; auto.
        now exists af, l.
Qed.

(* ---------------- (2) totality and yield on well-formed input ---------------- *)

Hypothesis pos : table_pos get.
Hypothesis maps_all : m = all_maps.

Definition tot_expr (f : nat) : Prop := forall ts rbp,
  2 * length ts + 2 <= f -> wf get true ts = true ->
  exists t rest, expr f ts rbp = Ok t rest /\ wf get false rest = true /\
                 ts = yield t ++ rest /\ length rest < length ts.
Definition tot_loop (f : nat) : Prop := forall lhs ts rbp,
  2 * length ts + 1 <= f -> wf get false ts = true ->
  exists t rest, loop f lhs ts rbp = Ok t rest /\ wf get false rest = true /\
                 yield lhs ++ ts = yield t ++ rest /\ length rest <= length ts.

Lemma tot_all : forall f, tot_expr f /\ tot_loop f.
Proof.
  assert (Mp : m_prefix m = true) by now rewrite maps_all.
  assert (Mq : m_postfix m = true) by now rewrite maps_all.
  assert (Mi : m_infix m = true) by now rewrite maps_all.
  induction f as [|f [IHe IHl]].
  - split; intros until rbp; intros F; exfalso; lia.
  - split.
    + intros ts rbp F W. destruct ts as [|a ts']; [discriminate|]. cbn in W. cbn [length] in F.
      assert (N : exists lhs ts1, nud (expr f) (a :: ts') = Ok lhs ts1 /\ wf get false ts1 = true /\
                   a :: ts' = yield lhs ++ ts1 /\ length ts1 <= length ts').
      { cbn. destruct (get (fst a)) as [[af p]|] eqn:G.
        - destruct af as [| |s]; try discriminate.
          assert (P : 1 <= p) by (eapply pos; eauto). destruct p as [|p']; [lia|]. cbn [pred_checked].
          destruct (IHe ts' p') as (rhs & rest & E & W1 & Y & Ln); [lia|exact W|].
          rewrite E, Mp. exists (Pre a rhs), rest. repeat split; auto.
          + cbn. now rewrite Y at 1.
          + lia.
        - exists (Leaf a), ts'. repeat split; auto. }
      destruct N as (lhs & ts1 & N & W1 & Y & Ln).
      destruct (IHl lhs ts1 rbp) as (t & rest & E & W2 & Y2 & Ln2); [lia|exact W1|].
      exists t, rest. rewrite expr_S, N. repeat split; auto.
      * rewrite Y. exact Y2.
      * cbn [length]. lia.
    + intros lhs ts rbp F W. rewrite loop_S.
      destruct ts as [|a ts'].
      * cbn. destruct (Nat.ltb rbp 0) eqn:C; [apply Nat.ltb_lt in C; lia|].
        exists lhs, []. repeat split; auto.
      * cbn in W. cbn [length] in F. cbn [lbp].
        destruct (get (fst a)) as [[af p]|] eqn:G; [|discriminate].
        destruct (Nat.ltb rbp p) eqn:C.
        2:{ exists lhs, (a :: ts'). repeat split; auto. cbn. now rewrite G. }
        cbn [Model.led]. rewrite G.
        destruct af as [| |s]; try discriminate.
        -- rewrite Mq. destruct (IHl (Post lhs a) ts' rbp) as (t & rest & E & W2 & Y2 & Ln2); [lia|exact W|].
           exists t, rest. rewrite E. repeat split; auto.
           ++ rewrite <- Y2. cbn. now rewrite <- app_assoc.
           ++ cbn [length]. lia.
        -- assert (P : 1 <= p) by (eapply pos; eauto).
           assert (R : exists rbp', (match s with ALeft => Some p | ARight => pred_checked p end) = Some rbp').
           { destruct s; [eauto|]. destruct p; [lia|]. cbn. eauto. }
           destruct R as [rbp' R]. rewrite R.
           destruct (IHe ts' rbp') as (rhs & rest1 & E & W1 & Y & Ln); [lia|exact W|].
           rewrite E, Mi.
           destruct (IHl (Bin lhs a rhs) rest1 rbp) as (t & rest & E2 & W2 & Y2 & Ln2); [lia|exact W1|].
           exists t, rest. rewrite E2. repeat split; auto.
           ++ rewrite <- Y2. cbn. rewrite Y. now rewrite <- app_assoc.
           ++ cbn [length]. lia.
Qed.

(* the main theorem about PrattParser, for one table and one sequence *)
Theorem pratt_correct : forall ts : list tok, well_formed get ts = true ->
  exists t, pratt_parse m get ts = Ok t [] /\ yield t = ts /\ shunt get ts = Some t.
Proof.
  intros ts W. unfold pratt_parse.
  destruct (tot_all (2 * length ts + 2)) as [Te _].
  destruct (Te ts 0) as (t & rest & E & W1 & Y & Ln); [lia|exact W|].
  destruct (sim_all (2 * length ts + 2)) as [Se _].
  destruct (Se _ _ _ _ E) as [St Sim].
  assert (rest = []) as ->.
  { destruct rest as [|a rest]; [reflexivity|]. destruct St as (af & p & G & L).
    assert (1 <= p) by (eapply pos; eauto). lia. }
  exists t. split; [exact E|]. split.
  - now rewrite Y, app_nil_r.
  - unfold shunt. rewrite (Sim [] []); cbn; auto.
Qed.
End P.

(* ---------------- (3) the fuel of pratt_parse always suffices ---------------- *)
Section Fuel.
Variable A : Type.
Variable m : maps.
Variable get : table.

Definition fuel_expr (f : nat) : Prop := forall (ts : list (tok A)) rbp,
  2 * length ts + 2 <= f ->
  expr m get f ts rbp <> OutOfFuel /\ forall t rest, expr m get f ts rbp = Ok t rest -> length rest < length ts.
Definition fuel_loop (f : nat) : Prop := forall lhs (ts : list (tok A)) rbp,
  2 * length ts + 1 <= f ->
  loop m get f lhs ts rbp <> OutOfFuel /\ forall t rest, loop m get f lhs ts rbp = Ok t rest -> length rest <= length ts.

Lemma fuel_all : forall f, fuel_expr f /\ fuel_loop f.
Proof.
  induction f as [|f [IHe IHl]].
  - split; intros until rbp; intros F; exfalso; lia.
  - split.
    + intros ts rbp F. rewrite expr_S.
      assert (N : nud m get (expr m get f) ts <> OutOfFuel /\
                  forall lhs ts1, nud m get (expr m get f) ts = Ok lhs ts1 -> length ts1 < length ts).
      { destruct ts as [|a ts']; cbn; [split; [discriminate|intros; discriminate]|].
        destruct (get (fst a)) as [[af p]|].
        - destruct af; try (split; [discriminate|intros; discriminate]).
          destruct (pred_checked p) as [rbp'|]; [|split; [discriminate|intros; discriminate]].
          cbn [length] in F. destruct (IHe ts' rbp') as [NF Ln]; [lia|].
          destruct (expr m get f ts' rbp') as [rhs rest| |] eqn:E; try congruence.
          + destruct (m_prefix m); split; try discriminate.
            intros lhs ts1 H. inversion H; subst. specialize (Ln _ _ eq_refl). cbn [length]. lia.
          + split; [discriminate|intros; discriminate].
        - split; [discriminate|]. intros lhs ts1 H. inversion H; subst. cbn [length]. lia. }
      destruct N as [NF NL].
      destruct (nud m get (expr m get f) ts) as [lhs ts1| |] eqn:N; try congruence.
      * specialize (NL _ _ eq_refl). destruct (IHl lhs ts1 rbp) as [LF LL]; [lia|].
        split; [exact LF|]. intros t rest H. specialize (LL _ _ H). lia.
      * split; [discriminate|intros; discriminate].
    + intros lhs ts rbp F. rewrite loop_S.
      destruct (lbp get ts) as [l|k] eqn:L; [|split; [discriminate|intros; discriminate]].
      destruct (Nat.ltb rbp l); [|split; [discriminate|intros t rest H; inversion H; subst; lia]].
      assert (N : led m get (expr m get f) ts lhs <> OutOfFuel /\
                  forall lhs' ts1, led m get (expr m get f) ts lhs = Ok lhs' ts1 -> length ts1 < length ts).
      { destruct ts as [|a ts']; cbn; [split; [discriminate|intros; discriminate]|].
        destruct (get (fst a)) as [[af p]|]; [|split; [discriminate|intros; discriminate]].
        destruct af as [| |s]; try (split; [discriminate|intros; discriminate]).
        - destruct (m_postfix m); split; try discriminate.
          intros lhs' ts1 H. inversion H; subst. cbn [length]. lia.
        - destruct (match s with ALeft => Some p | ARight => pred_checked p end) as [rbp'|];
            [|split; [discriminate|intros; discriminate]].
          cbn [length] in F. destruct (IHe ts' rbp') as [NF Ln]; [lia|].
          destruct (expr m get f ts' rbp') as [rhs rest| |] eqn:E; try congruence.
          + destruct (m_infix m); split; try discriminate.
            intros lhs' ts1 H. inversion H; subst. specialize (Ln _ _ eq_refl). cbn [length]. lia.
          + split; [discriminate|intros; discriminate]. }
      destruct N as [NF NL].
      destruct (led m get (expr m get f) ts lhs) as [lhs' ts1| |] eqn:N; try congruence.
      * specialize (NL _ _ eq_refl). destruct (IHl lhs' ts1 rbp) as [LF LL]; [lia|].
        split; [exact LF|]. intros t rest H. specialize (LL _ _ H). lia.
      * split; [discriminate|intros; discriminate].
Qed.

Theorem pratt_parse_fuel : forall ts : list (tok A), pratt_parse m get ts <> OutOfFuel.
Proof.
  intros ts. unfold pratt_parse. destruct (fuel_all (2 * length ts + 2)) as [Fe _].
  apply Fe. lia.
Qed.
End Fuel.
