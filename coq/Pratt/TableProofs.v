(* C13 - facts about tables:
   - the specification and well-formedness depend on a table only through the ORDER of its levels
     (invariance under a strictly monotone relabelling, in particular under pointwise equality);
   - PrattParser::new().op(..).. and ConstPrattParser::new_const(pratt_precedence![..]) for the same
     declaration give the same affixes and levels that differ by the constant PREC_STEP, the later
     declaration of a rule winning in both;
   - PrecClimber::new for an infix declaration without repeated rules gives level k where the
     PrattParser built from the same declaration gives 10*k+10. *)
From Coq Require Import List Arith Bool Lia.
Import ListNotations.
Require Import PV.Pratt.Syntax PV.Pratt.Model PV.Pratt.Climber PV.Pratt.Shunt.
Set Implicit Arguments.

Definition relabel (f : prec -> prec) (g : table) : table :=
  fun r => match g r with Some (af, p) => Some (af, f p) | None => None end.

Section Relabel.
Variable A : Type.
Variable f : prec -> prec.
Hypothesis f_le : forall p q, Nat.leb (f p) (f q) = Nat.leb p q.
Variables g1 g2 : table.
Hypothesis g2_eq : forall r, g2 r = relabel f g1 r.

Lemma f_lt p q : Nat.ltb (f p) (f q) = Nat.ltb p q.
Proof.
  destruct (Nat.ltb p q) eqn:E.
  - apply Nat.ltb_lt in E. apply Nat.ltb_lt.
    destruct (Nat.leb (f q) (f p)) eqn:E2.
    + rewrite f_le in E2. apply Nat.leb_le in E2. lia.
    + apply Nat.leb_gt in E2. exact E2.
  - apply Nat.ltb_ge in E. apply Nat.ltb_ge.
    apply Nat.leb_le. rewrite f_le. now apply Nat.leb_le.
Qed.

Lemma wf_relabel b (ts : list (tok A)) : wf g2 b ts = wf g1 b ts.
Proof.
  revert b. induction ts as [|a ts IH]; intros b; cbn; [reflexivity|].
  rewrite g2_eq. unfold relabel. destruct (g1 (fst a)) as [[af p]|]; destruct b; auto.
  - destruct af; auto.
  - destruct af; auto.
Qed.

Definition relabel_sop (s : sop A) : sop A :=
  match s with SPre o p => SPre o (f p) | SInf o a p => SInf o a (f p) end.

Lemma reduces_relabel s lp : reduces (relabel_sop s) (f lp) = reduces s lp.
Proof. destruct s as [o p|o [|] p]; cbn [relabel_sop reduces]; auto using f_le, f_lt. Qed.
Lemma apply_relabel s (out : list (tree A)) : apply_op (relabel_sop s) out = apply_op s out.
Proof. destruct s; reflexivity. Qed.

Lemma reduce_while_relabel lp ops (out : list (tree A)) :
  reduce_while (f lp) (map relabel_sop ops) out =
  match reduce_while lp ops out with Some (ops', out') => Some (map relabel_sop ops', out') | None => None end.
Proof.
  revert out. induction ops as [|s ops IH]; intros out; cbn [map reduce_while]; [reflexivity|].
  rewrite reduces_relabel, apply_relabel. destruct (reduces s lp); [|reflexivity].
  destruct (apply_op s out); auto.
Qed.
Lemma reduce_all_relabel ops (out : list (tree A)) :
  reduce_all (map relabel_sop ops) out = reduce_all ops out.
Proof.
  revert out. induction ops as [|s ops IH]; intros out; cbn [map reduce_all]; [reflexivity|].
  rewrite apply_relabel. destruct (apply_op s out); auto.
Qed.

Lemma sy_relabel b ops out (ts : list (tok A)) :
  sy g2 b (map relabel_sop ops) out ts = sy g1 b ops out ts.
Proof.
  revert b ops out. induction ts as [|a ts IH]; intros b ops out; cbn [sy].
  - now rewrite reduce_all_relabel.
  - rewrite g2_eq. unfold relabel. destruct (g1 (fst a)) as [[af p]|].
    + destruct b, af as [| |s]; auto.
      * apply (IH true (SPre a p :: ops)).
      * rewrite reduce_while_relabel. destruct (reduce_while p ops out) as [[ops' [|x out']]|]; auto.
      * rewrite reduce_while_relabel. destruct (reduce_while p ops out) as [[ops' out']|]; auto.
        apply (IH true (SInf a s p :: ops')).
    + destruct b; auto.
Qed.

Lemma shunt_relabel (ts : list (tok A)) : shunt g2 ts = shunt g1 ts.
Proof. unfold shunt. apply (sy_relabel true [] []). Qed.
End Relabel.

(* pointwise equal tables *)
Lemma relabel_id g r : relabel (fun p => p) g r = g r.
Proof. unfold relabel. destruct (g r) as [[af p]|]; auto. Qed.
Lemma shunt_ext A (g1 g2 : table) (ts : list (tok A)) : (forall r, g2 r = g1 r) -> shunt g2 ts = shunt g1 ts.
Proof. intros E. apply shunt_relabel with (f := fun p => p); auto. intros r. now rewrite relabel_id. Qed.
Lemma wf_ext A (g1 g2 : table) b (ts : list (tok A)) : (forall r, g2 r = g1 r) -> wf g2 b ts = wf g1 b ts.
Proof. intros E. apply wf_relabel with (f := fun p => p). intros r. now rewrite relabel_id. Qed.

(* ---------------------------------------------------------------------------------------------
   association lists
   --------------------------------------------------------------------------------------------- *)
Definition shift_entry (f : prec -> prec) (x : rule * entry) : rule * entry := (fst x, (fst (snd x), f (snd (snd x)))).

Lemma assoc_find_map f l r :
  assoc_find (map (shift_entry f) l) r =
  match assoc_find l r with Some (af, p) => Some (af, f p) | None => None end.
Proof.
  induction l as [|[r' [af p]] l IH]; cbn; [reflexivity|].
  destruct (Nat.eqb r' r); auto.
Qed.
Lemma assoc_find_app l1 l2 r :
  assoc_find (l1 ++ l2) r = match assoc_find l1 r with Some e => Some e | None => assoc_find l2 r end.
Proof.
  induction l1 as [|[r' e] l1 IH]; cbn; [reflexivity|]. destruct (Nat.eqb r' r); auto.
Qed.
Lemma assoc_find_in l r e : assoc_find l r = Some e -> In (r, e) l.
Proof.
  induction l as [|[r' e'] l IH]; cbn; [discriminate|].
  destruct (Nat.eqb r' r) eqn:E.
  - apply Nat.eqb_eq in E. subst. intros H; inversion H; auto.
  - auto.
Qed.
Lemma assoc_find_notin l r : ~ In r (map fst l) -> assoc_find l r = None.
Proof.
  induction l as [|[r' e'] l IH]; cbn; [reflexivity|]. intros H.
  destruct (Nat.eqb r' r) eqn:E.
  - apply Nat.eqb_eq in E. tauto.
  - apply IH. tauto.
Qed.
(* without repeated keys, the first and the last binding coincide *)
Lemma assoc_find_rev l r : NoDup (map fst l) -> assoc_find (rev l) r = assoc_find l r.
Proof.
  induction l as [|[r' e'] l IH]; cbn [rev map fst]; [reflexivity|].
  intros H. inversion H as [|? ? Hn Hd]; subst.
  rewrite assoc_find_app, (IH Hd). cbn [assoc_find].
  destruct (Nat.eqb r' r) eqn:E.
  - apply Nat.eqb_eq in E. subst. now rewrite (assoc_find_notin _ _ Hn).
  - destruct (assoc_find l r); auto.
Qed.

(* ---------------------------------------------------------------------------------------------
   the two Pratt table constructors
   --------------------------------------------------------------------------------------------- *)
(* all operators of a declaration in order, the level after [p] being p + PREC_STEP *)
Fixpoint entries_from (p : prec) (d : decl) : list (rule * entry) :=
  match d with
  | [] => []
  | lv :: d' =>
    map (fun o : opdecl => (fst o, (snd o, p + PREC_STEP))) (chain lv) ++ entries_from (p + PREC_STEP) d'
  end.

Lemma entries_from_shift k p d :
  entries_from (p + k) d = map (shift_entry (fun q => q + k)) (entries_from p d).
Proof.
  revert p. induction d as [|lv d IH]; intros p; cbn [entries_from]; [reflexivity|].
  rewrite map_app, map_map. f_equal.
  - apply map_ext. intros o. unfold shift_entry. cbn [fst snd]. f_equal. f_equal. lia.
  - replace (p + k + PREC_STEP) with (p + PREC_STEP + k) by lia. apply IH.
Qed.

Lemma entries_from_ge p d r af q : In (r, (af, q)) (entries_from p d) -> p + PREC_STEP <= q.
Proof.
  revert p. induction d as [|lv d IH]; intros p; cbn [entries_from]; [intros []|].
  rewrite in_app_iff, in_map_iff. intros [(o & E & _)|H].
  - inversion E; subst. lia.
  - apply IH in H. lia.
Qed.

Lemma fold_cons_rev (B C : Type) (h : B -> C) l acc :
  fold_left (fun m o => h o :: m) l acc = rev (map h l) ++ acc.
Proof.
  revert acc. induction l as [|x l IH]; intros acc; cbn; [reflexivity|].
  rewrite IH, <- app_assoc. reflexivity.
Qed.

Lemma builder_fold d : forall b,
  b_ops (fold_left builder_op d b) = rev (entries_from (b_prec b) d) ++ b_ops b.
Proof.
  induction d as [|lv d IH]; intros b; cbn [fold_left entries_from]; [reflexivity|].
  rewrite IH. unfold builder_op. cbn [b_prec b_ops].
  rewrite (fold_cons_rev (fun o : opdecl => (fst o, (snd o, b_prec b + PREC_STEP)))).
  rewrite rev_app_distr, <- app_assoc. reflexivity.
Qed.

Lemma builder_ops_eq d : b_ops (builder_table d) = rev (entries_from PREC_STEP d).
Proof. unfold builder_table. rewrite builder_fold. cbn. now rewrite app_nil_r. Qed.

Lemma builder_table_pos d : table_pos (builder_get (builder_table d)).
Proof.
  intros r af p H. unfold builder_get in H. rewrite builder_ops_eq in H.
  apply assoc_find_in in H. apply in_rev in H. apply entries_from_ge in H. unfold PREC_STEP in H. lia.
Qed.

Lemma const_loop_cons p lv (nl : bool) ops :
  const_loop p ((lv, nl) :: ops) =
  match snd lv with
  | _ :: _ => inr CChain
  | [] => let p' := if nl then p + PREC_STEP else p in
          match const_loop p' ops with
          | inl tl => inl ((fst (fst lv), (snd (fst lv), p')) :: tl)
          | inr e => inr e
          end
  end.
Proof. reflexivity. Qed.

Lemma const_loop_falses p (l : list opdecl) rest :
  const_loop p (map (fun o : opdecl => ((o, []), false)) l ++ rest) =
  match const_loop p rest with
  | inl tl => inl (map (fun o : opdecl => (fst o, (snd o, p))) l ++ tl)
  | inr e => inr e
  end.
Proof.
  induction l as [|o l IH]; cbn [map app const_loop].
  - destruct (const_loop p rest); reflexivity.
  - cbn [snd fst]. rewrite IH. destruct (const_loop p rest); reflexivity.
Qed.

Lemma const_loop_macro d : forall p, const_loop p (macro_expand d) = inl (entries_from p d).
Proof.
  induction d as [|lv d IH]; intros p; cbn [macro_expand flat_map entries_from const_loop]; [reflexivity|].
  unfold macro_level. cbn [app const_loop snd fst].
  fold (macro_expand d). rewrite const_loop_falses, IH. reflexivity.
Qed.

Theorem const_builder_tables : forall d : decl, d <> [] ->
  exists ct, new_const (macro_expand d) = inl ct /\
    (forall r, builder_get (builder_table d) r = relabel (fun p => p + PREC_STEP) (const_get ct) r) /\
    table_pos (const_get ct) /\ table_pos (builder_get (builder_table d)).
Proof.
  intros d Hd. exists (entries_from 0 d).
  assert (E1 : new_const (macro_expand d) = inl (entries_from 0 d)).
  { destruct d as [|lv d]; [congruence|]. rewrite <- const_loop_macro. reflexivity. }
  assert (E2 : forall r, builder_get (builder_table d) r = relabel (fun p => p + PREC_STEP) (const_get (entries_from 0 d)) r).
  { intros r. unfold builder_get, const_get, relabel. rewrite builder_ops_eq.
    change PREC_STEP with (0 + PREC_STEP) at 1. rewrite entries_from_shift, <- map_rev.
    apply assoc_find_map. }
  assert (P1 : table_pos (const_get (entries_from 0 d))).
  { intros r af p H. apply assoc_find_in in H. apply in_rev in H. apply entries_from_ge in H. unfold PREC_STEP in H. lia. }
  repeat split; auto.
  intros r af p H. rewrite E2 in H. unfold relabel in H.
  destruct (const_get (entries_from 0 d) r) as [[af' p']|]; [|discriminate]. inversion H; subst. unfold PREC_STEP. lia.
Qed.

(* every argument that new_const accepts is the expansion of a pratt_precedence! invocation *)
Theorem new_const_is_macro : forall l ct, new_const l = inl ct -> exists d, d <> [] /\ l = macro_expand d.
Proof.
  assert (G : forall l ct p, const_loop p l = inl ct ->
              exists (falses : list opdecl) (d : decl), l = map (fun o : opdecl => ((o, []), false)) falses ++ macro_expand d).
  { induction l as [|[[o ch] nl] l IH]; intros ct p H.
    - exists [], []. reflexivity.
    - destruct ch; [|discriminate H]. rewrite const_loop_cons in H. cbn [snd fst] in H. cbv zeta in H.
      destruct (const_loop _ l) as [tl|e] eqn:E in H; [|discriminate H].
      destruct (IH _ _ E) as (fs & d & ->).
      destruct nl.
      + exists [], ((o, fs) :: d). reflexivity.
      + exists (o :: fs), d. reflexivity. }
  intros l ct H. destruct l as [|[[o ch] [|]] l]; cbn [new_const] in H; try discriminate.
  destruct (G _ _ _ H) as (fs & d & E).
  destruct fs as [|x fs]; cbn [map app] in E.
  - destruct d as [|lv d]; [discriminate|]. exists (lv :: d). split; [discriminate|exact E].
  - inversion E.
Qed.

(* ---------------------------------------------------------------------------------------------
   PrecClimber::new against the PrattParser built from the same infix declaration
   --------------------------------------------------------------------------------------------- *)
Definition climb_level (k : prec) : prec := k * PREC_STEP + PREC_STEP.

Lemma climber_get_find c r :
  climber_get c r = match assoc_find (map (fun x : rule * (prec * assoc) => (fst x, (Infix (snd (snd x)), fst (snd x)))) c) r with
                    | Some (Infix s, p) => Some (p, s) | _ => None end.
Proof.
  induction c as [|[r' [p s]] c IH]; cbn; [reflexivity|]. destruct (Nat.eqb r' r); auto.
Qed.

Lemma entries_from_pratt_decl d : forall k,
  entries_from (k * PREC_STEP) (pratt_decl d) =
  map (fun x : rule * (prec * assoc) => (fst x, (Infix (snd (snd x)), climb_level (fst (snd x))))) (climber_from k d).
Proof.
  induction d as [|lv d IH]; intros k; cbn [pratt_decl map entries_from climber_from]; [reflexivity|].
  rewrite map_app. f_equal.
  - unfold chain, cchain, pratt_level. cbn [fst snd map]. unfold climb_level. cbn [fst snd].
    f_equal. rewrite !map_map. apply map_ext. intros o. reflexivity.
  - replace (k * PREC_STEP + PREC_STEP) with (S k * PREC_STEP) by lia. apply IH.
Qed.

Lemma climber_from_keys k d : map fst (climber_from k d) = crules d.
Proof.
  revert k. induction d as [|lv d IH]; intros k; cbn [climber_from]; [reflexivity|].
  unfold crules. cbn [flat_map]. rewrite !map_app, map_map. f_equal. apply IH.
Qed.

Lemma climber_from_ge k d r p s : In (r, (p, s)) (climber_from k d) -> k <= p.
Proof.
  revert k. induction d as [|lv d IH]; intros k; cbn [climber_from]; [intros []|].
  rewrite in_app_iff, in_map_iff. intros [(o & E & _)|H].
  - inversion E; subst. lia.
  - apply IH in H. lia.
Qed.

Lemma climber_from_uniform d : cuniform_decl d -> forall k r1 r2 p s1 s2,
  In (r1, (p, s1)) (climber_from k d) -> In (r2, (p, s2)) (climber_from k d) -> s1 = s2.
Proof.
  induction 1 as [|lv d Hlv Hd IH]; intros k r1 r2 p s1 s2; cbn [climber_from]; [intros []|].
  rewrite !in_app_iff, !in_map_iff. intros [(o1 & E1 & I1)|H1] [(o2 & E2 & I2)|H2].
  - inversion E1; inversion E2; subst. rewrite (Hlv _ I1), (Hlv _ I2). reflexivity.
  - inversion E1; subst. apply climber_from_ge in H2. lia.
  - inversion E2; subst. apply climber_from_ge in H1. lia.
  - eapply IH; eauto.
Qed.

Lemma climber_get_in c r e : climber_get c r = Some e -> In (r, e) c.
Proof.
  induction c as [|[r' e'] c IH]; cbn; [discriminate|].
  destruct (Nat.eqb r' r) eqn:E.
  - apply Nat.eqb_eq in E. subst. intros H; inversion H; auto.
  - auto.
Qed.

Theorem climber_builder_tables : forall d : cdecl, NoDup (crules d) -> cuniform_decl d ->
  (forall r, builder_get (builder_table (pratt_decl d)) r =
             relabel climb_level (table_of (climber_get (climber_new d))) r) /\
  (forall r1 r2 p s1 s2, climber_get (climber_new d) r1 = Some (p, s1) ->
                         climber_get (climber_new d) r2 = Some (p, s2) -> s1 = s2).
Proof.
  intros d ND U. split.
  - intros r. unfold builder_get. rewrite builder_ops_eq.
    change PREC_STEP with (1 * PREC_STEP) at 1. rewrite entries_from_pratt_decl.
    fold (climber_new d).
    rewrite assoc_find_rev.
    2:{ rewrite map_map. cbn [fst]. change (fun x : rule * (prec * assoc) => fst x) with (@fst rule (prec * assoc)).
        unfold climber_new. rewrite (climber_from_keys 1 d). exact ND. }
    unfold relabel, table_of. rewrite climber_get_find.
    set (c := climber_new d). clearbody c. clear.
    induction c as [|[r' [p s]] c IH]; cbn; [reflexivity|].
    destruct (Nat.eqb r' r); auto.
  - intros r1 r2 p s1 s2 H1 H2. apply climber_get_in in H1. apply climber_get_in in H2.
    eapply climber_from_uniform; eauto.
Qed.

Lemma climb_level_le p q : Nat.leb (climb_level p) (climb_level q) = Nat.leb p q.
Proof.
  unfold climb_level, PREC_STEP. destruct (Nat.leb p q) eqn:E.
  - apply Nat.leb_le in E. apply Nat.leb_le. lia.
  - apply Nat.leb_gt in E. apply Nat.leb_gt. lia.
Qed.
Lemma shift_le k p q : Nat.leb (p + k) (q + k) = Nat.leb p q.
Proof.
  destruct (Nat.leb p q) eqn:E.
  - apply Nat.leb_le in E. apply Nat.leb_le. lia.
  - apply Nat.leb_gt in E. apply Nat.leb_gt. lia.
Qed.
