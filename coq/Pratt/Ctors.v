(* C13 - the remaining public constructors:
   - PrecClimber::new_const on ANY slice (entries in any order, any precedence values) with one
     associativity per precedence value: climb = the shunting-yard tree of the table the slice denotes,
     and a slice without a repeated rule denotes the same table in every order of its entries;
   - prec_climber![..] builds literally the vector that PrecClimber::new builds from the same declaration;
   - ConstPrattParser::new_const on ANY array it accepts (not only pratt_precedence! expansions written
     by hand): levels >= 1, hence the PrattParser theorem applies to its table. *)
From Coq Require Import List Arith Bool Lia Permutation.
Import ListNotations.
Require Import PV.Pratt.Syntax PV.Pratt.Model PV.Pratt.Climber PV.Pratt.Shunt.
Require Import PV.Pratt.Proofs PV.Pratt.ClimberProofs PV.Pratt.TableProofs.
Set Implicit Arguments.

(* climb depends on the table only through its graph *)
Lemma climb_fuel_ext A (g1 g2 : ctable) : (forall r, g1 r = g2 r) ->
  forall f, (forall lhs min (ts : list (tok A)), climb_rec g1 f lhs min ts = climb_rec g2 f lhs min ts) /\
            (forall rhs p (ts : list (tok A)), climb_inner g1 f rhs p ts = climb_inner g2 f rhs p ts).
Proof.
  intros E. induction f as [|f [IHr IHi]]; [split; reflexivity|]. split.
  - intros lhs min ts. rewrite !climb_rec_S. destruct ts as [|o ts1]; [reflexivity|].
    rewrite E. destruct (g2 (fst o)) as [[p s]|]; [|reflexivity].
    destruct (Nat.leb min p); [|reflexivity]. destruct ts1 as [|a ts2]; [reflexivity|].
    rewrite IHi. destruct (climb_inner g2 f (Leaf a) p ts2); auto.
  - intros rhs p ts. rewrite !climb_inner_S. destruct ts as [|o2 ts']; [reflexivity|].
    rewrite E. destruct (g2 (fst o2)) as [[np s]|]; [|reflexivity].
    destruct (Nat.ltb p np || (assoc_eqb s ARight && Nat.eqb np p)); [|reflexivity].
    rewrite IHr. destruct (climb_rec g2 f rhs np (o2 :: ts')); auto.
Qed.
Lemma climb_ext A (g1 g2 : ctable) (ts : list (tok A)) : (forall r, g1 r = g2 r) -> climb g1 ts = climb g2 ts.
Proof.
  intros E. unfold climb. destruct ts as [|a ts']; [reflexivity|].
  destruct (@climb_fuel_ext A g1 g2 E (2 * length ts' + 2)) as [Hr _]. apply Hr.
Qed.

(* a slice without a repeated rule: `get` finds the one entry of a rule wherever it stands *)
Lemma climber_get_notin c r : ~ In r (map fst c) -> climber_get c r = None.
Proof.
  induction c as [|[r' e] c IH]; cbn; [reflexivity|]. intros H.
  destruct (Nat.eqb r' r) eqn:E.
  - apply Nat.eqb_eq in E. subst. exfalso. apply H. now left.
  - apply IH. intros I. apply H. now right.
Qed.
Lemma climber_get_unique c r e : NoDup (map fst c) -> In (r, e) c -> climber_get c r = Some e.
Proof.
  induction c as [|[r' e'] c IH]; cbn [map fst climber_get In]; [intros _ []|].
  intros ND [H|H]; inversion ND as [|? ? Hn Hd]; subst.
  - inversion H; subst. now rewrite Nat.eqb_refl.
  - destruct (Nat.eqb r' r) eqn:E.
    + apply Nat.eqb_eq in E. subst. exfalso. apply Hn. apply in_map_iff. exists (r, e). split; auto.
    + apply IH; auto.
Qed.
Lemma climber_get_perm c1 c2 : Permutation c1 c2 -> NoDup (map fst c1) -> forall r, climber_get c1 r = climber_get c2 r.
Proof.
  intros P ND r.
  assert (ND2 : NoDup (map fst c2)) by (eapply Permutation_NoDup; [apply Permutation_map; exact P|exact ND]).
  destruct (climber_get c1 r) as [e|] eqn:G.
  - apply climber_get_in in G. symmetry. apply climber_get_unique; auto. eapply Permutation_in; eauto.
  - destruct (climber_get c2 r) as [e|] eqn:G2; [|reflexivity].
    apply climber_get_in in G2. apply Permutation_sym in P.
    rewrite (@climber_get_unique c1 r e ND (Permutation_in _ P G2)) in G. discriminate.
Qed.

Lemma cuniform_of_slice c : cuniform_slice c -> cuniform (climber_get c).
Proof.
  intros U r1 r2 p s1 s2 H1 H2. apply climber_get_in in H1. apply climber_get_in in H2. eapply U; eauto.
Qed.

(* PrecClimber::new_const *)
Theorem climber_const_correct : forall (A : Type) (c : climber), cuniform_slice c ->
  forall ts : list (tok A), well_formed (table_of (climber_get (climber_new_const c))) ts = true ->
  exists t, climb (climber_get (climber_new_const c)) ts = Ok t [] /\
            shunt (table_of (climber_get (climber_new_const c))) ts = Some t /\
            (forall c', NoDup (map fst c) -> Permutation c c' ->
                        climb (climber_get (climber_new_const c')) ts = Ok t []).
Proof.
  intros A c U ts W. unfold climber_new_const in *.
  destruct (@climber_correct A _ (cuniform_of_slice U) ts W) as (t & E & S).
  exists t. split; [exact E|]. split; [exact S|].
  intros c' ND P. rewrite <- E. apply climb_ext. intros r. symmetry. now apply climber_get_perm.
Qed.

(* prec_climber! *)
Lemma macro_entries_new d : forall p, macro_entries p d = climber_from p (cdecl_of_macro d).
Proof.
  induction d as [|[s [r rs]] d IH]; intros p; cbn [macro_entries cdecl_of_macro map climber_from]; [reflexivity|].
  fold (cdecl_of_macro d). rewrite IH. f_equal.
  unfold mrules, cchain. cbn [fst snd map]. f_equal. rewrite map_map. reflexivity.
Qed.
Theorem climber_macro_is_new d : climber_macro d = climber_new (cdecl_of_macro d).
Proof. unfold climber_macro, climber_new_const, climber_new. apply macro_entries_new. Qed.
Lemma cdecl_of_macro_uniform d : cuniform_decl (cdecl_of_macro d).
Proof.
  unfold cuniform_decl, cdecl_of_macro. apply Forall_forall. intros lv H.
  apply in_map_iff in H. destruct H as ([s [r rs]] & <- & _). cbn [fst snd].
  intros o [<-|I]; [reflexivity|]. cbn [snd] in I. apply in_map_iff in I. destruct I as (r' & <- & _). reflexivity.
Qed.
Lemma crules_of_macro d : crules (cdecl_of_macro d) = flat_map mrules d.
Proof.
  unfold crules. induction d as [|[s [r rs]] d IH]; [reflexivity|].
  change (cdecl_of_macro ((s, (r, rs)) :: d)) with (((r, s), map (fun r : rule => (r, s)) rs) :: cdecl_of_macro d).
  cbn [flat_map]. rewrite map_app. f_equal; [|exact IH].
  unfold cchain, mrules. cbn [fst snd map]. f_equal. rewrite map_map. cbn [fst]. now rewrite map_id.
Qed.

(* ConstPrattParser::new_const on any array it accepts *)
Theorem new_const_table_pos : forall l ct, new_const l = inl ct -> table_pos (const_get ct).
Proof.
  intros l ct H. destruct (new_const_is_macro _ H) as (d & Hd & ->).
  destruct (const_builder_tables Hd) as (ct' & E & _ & P & _). rewrite H in E. inversion E; subst. exact P.
Qed.
