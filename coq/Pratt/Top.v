(* C13 - assembling the three parts of the statement. *)
From Coq Require Import List Arith Bool Lia Permutation.
Import ListNotations.
Require Import PV.Pratt.Syntax PV.Pratt.Model PV.Pratt.Climber PV.Pratt.Shunt.
Require Import PV.Pratt.Proofs PV.Pratt.ClimberProofs PV.Pratt.TableProofs PV.Pratt.WfRegex PV.Pratt.Ctors.
Set Implicit Arguments.

(* (1) any table with positive levels, any well-formed sequence *)
Theorem pratt_shunt_climb : forall (A : Type) (tbl : table) (ts : list (tok A)),
  table_pos tbl -> well_formed tbl ts = true ->
  exists t, pratt_parse all_maps tbl ts = Ok t [] /\ yield t = ts /\ shunt tbl ts = Some t /\
            (infix_only tbl -> one_assoc_per_level tbl -> climb (climber_of tbl) ts = Ok t []).
Proof.
  intros A tbl ts P W.
  destruct (@pratt_correct A all_maps tbl P eq_refl ts W) as (t & E & Y & S).
  exists t. repeat split; auto.
  intros IO OA.
  assert (Eq : forall r, table_of (climber_of tbl) r = tbl r).
  { intros r. unfold table_of, climber_of. destruct (tbl r) as [[af p]|] eqn:G; [|reflexivity].
    destruct (IO _ _ _ G) as [s ->]. reflexivity. }
  assert (U : cuniform (climber_of tbl)).
  { intros r1 r2 p s1 s2. unfold climber_of.
    destruct (tbl r1) as [[[| |a1] p1]|] eqn:G1; try discriminate.
    destruct (tbl r2) as [[[| |a2] p2]|] eqn:G2; try discriminate.
    intros H1 H2. inversion H1; inversion H2; subst. eapply OA; eauto. }
  assert (W' : well_formed (table_of (climber_of tbl)) ts = true).
  { unfold well_formed. rewrite (@wf_ext A tbl _ true ts Eq). exact W. }
  destruct (@climber_correct A _ U ts W') as (t' & Ec & Sc).
  rewrite (@shunt_ext A tbl _ ts Eq) in Sc. rewrite S in Sc. inversion Sc; subst. exact Ec.
Qed.

(* (2) the two ways of declaring a PrattParser table *)
Theorem const_builder : forall (A : Type) (d : decl), d <> [] ->
  exists ct, new_const (macro_expand d) = inl ct /\
    (forall r, builder_get (builder_table d) r =
               match const_get ct r with Some (af, p) => Some (af, p + PREC_STEP) | None => None end) /\
    table_pos (builder_get (builder_table d)) /\ table_pos (const_get ct) /\
    forall ts : list (tok A), well_formed (builder_get (builder_table d)) ts = true ->
      well_formed (const_get ct) ts = true /\
      pratt_parse all_maps (const_get ct) ts = pratt_parse all_maps (builder_get (builder_table d)) ts.
Proof.
  intros A d Hd. destruct (const_builder_tables Hd) as (ct & E & R & Pc & Pb).
  exists ct. split; [exact E|]. split; [exact R|]. split; [exact Pb|]. split; [exact Pc|].
  intros ts H.
  assert (Wc : well_formed (const_get ct) ts = true).
  { unfold well_formed in *. rewrite <- (@wf_relabel A (fun p => p + PREC_STEP) _ _ R true ts). exact H. }
  split; [exact Wc|].
  destruct (@pratt_correct A all_maps _ Pc eq_refl ts Wc) as (t1 & E1 & _ & S1).
  destruct (@pratt_correct A all_maps _ Pb eq_refl ts H) as (t2 & E2 & _ & S2).
  rewrite (@shunt_relabel A (fun p => p + PREC_STEP) (shift_le PREC_STEP) _ _ R ts) in S2.
  rewrite S1 in S2. inversion S2; subst. now rewrite E1, E2.
Qed.

(* (3) PrecClimber::new against PrattParser::op for the same infix declaration *)
Theorem climber_builder : forall (A : Type) (d : cdecl), NoDup (crules d) -> cuniform_decl d ->
  forall ts : list (tok A), well_formed (builder_get (builder_table (pratt_decl d))) ts = true ->
  exists t, pratt_parse all_maps (builder_get (builder_table (pratt_decl d))) ts = Ok t [] /\
            climb (climber_get (climber_new d)) ts = Ok t [].
Proof.
  intros A d ND U ts W.
  destruct (climber_builder_tables ND U) as [R Un].
  destruct (@pratt_correct A all_maps _ (builder_table_pos (pratt_decl d)) eq_refl ts W) as (t & E & _ & S).
  exists t. split; [exact E|].
  assert (W' : well_formed (table_of (climber_get (climber_new d))) ts = true).
  { unfold well_formed in *. rewrite <- (@wf_relabel A climb_level _ _ R true ts). exact W. }
  destruct (@climber_correct A _ Un ts W') as (t' & Ec & Sc).
  rewrite (@shunt_relabel A climb_level climb_level_le _ _ R ts) in S. rewrite S in Sc. inversion Sc; subst. exact Ec.
Qed.

(* (4) PrecClimber::new_const on any slice: entries in any order, any precedence values *)
Theorem climber_const : forall (A : Type) (c : climber), cuniform_slice c ->
  forall ts : list (tok A), well_formed (table_of (climber_get (climber_new_const c))) ts = true ->
  exists t, climb (climber_get (climber_new_const c)) ts = Ok t [] /\
            shunt (table_of (climber_get (climber_new_const c))) ts = Some t /\
            (table_pos (table_of (climber_get (climber_new_const c))) ->
             pratt_parse all_maps (table_of (climber_get (climber_new_const c))) ts = Ok t [] /\ yield t = ts) /\
            (forall c', NoDup (map fst c) -> Permutation c c' ->
                        climb (climber_get (climber_new_const c')) ts = Ok t []).
Proof.
  intros A c U ts W.
  destruct (@climber_const_correct A c U ts W) as (t & E & S & P).
  exists t. split; [exact E|]. split; [exact S|]. split; [|exact P].
  intros Pos. destruct (@pratt_correct A all_maps _ Pos eq_refl ts W) as (t' & E' & Y' & S').
  rewrite S in S'. inversion S' as [Et]. rewrite <- Et in *. split; [exact E'|exact Y'].
Qed.

(* (5) prec_climber![..] = PrecClimber::new of the same declaration, hence = PrattParser::op of it *)
Theorem climber_macro_builder : forall (A : Type) (d : list mlevel), NoDup (flat_map mrules d) ->
  climber_macro d = climber_new (cdecl_of_macro d) /\
  forall ts : list (tok A), well_formed (builder_get (builder_table (pratt_decl (cdecl_of_macro d)))) ts = true ->
  exists t, pratt_parse all_maps (builder_get (builder_table (pratt_decl (cdecl_of_macro d)))) ts = Ok t [] /\
            climb (climber_get (climber_macro d)) ts = Ok t [].
Proof.
  intros A d ND. split; [apply climber_macro_is_new|].
  intros ts W. rewrite climber_macro_is_new.
  apply climber_builder; [rewrite crules_of_macro; exact ND|apply cdecl_of_macro_uniform|exact W].
Qed.

(* (6) ConstPrattParser::new_const on any array it accepts *)
Theorem const_any_array : forall (A : Type) (ops : list (level * bool)) (ct : const_table), new_const ops = inl ct ->
  table_pos (const_get ct) /\
  forall ts : list (tok A), well_formed (const_get ct) ts = true ->
  exists t, pratt_parse all_maps (const_get ct) ts = Ok t [] /\ yield t = ts /\ shunt (const_get ct) ts = Some t.
Proof.
  intros A ops ct H. pose proof (new_const_table_pos _ H) as Pos. split; [exact Pos|].
  intros ts W. exact (@pratt_correct A all_maps _ Pos eq_refl ts W).
Qed.
