(* C13 - PrecClimber (Climber.v) against the shunting-yard specification, for climber tables whose
   levels each have one associativity: on a well-formed sequence  prim (infix prim)*  climb returns
   normally, consumes everything and builds the specification's tree. *)
From Coq Require Import List Arith Bool Lia.
Import ListNotations.
Require Import PV.Pratt.Syntax PV.Pratt.Climber PV.Pratt.Shunt.
Set Implicit Arguments.

Lemma climb_rec_S A ct f lhs min (ts : list (tok A)) :
  climb_rec ct (S f) lhs min ts =
  match ts with
  | [] => Ok lhs []
  | o :: ts1 =>
    match ct (fst o) with
    | Some (p, _) =>
      if Nat.leb min p then
        match ts1 with
        | [] => Panic PExpect
        | a :: ts2 =>
          match climb_inner ct f (Leaf a) p ts2 with
          | Ok rhs rest => climb_rec ct f (Bin lhs o rhs) min rest
          | e => e
          end
        end
      else Ok lhs ts
    | None => Ok lhs ts
    end
  end.
Proof. reflexivity. Qed.
Lemma climb_inner_S A ct f rhs p (ts : list (tok A)) :
  climb_inner ct (S f) rhs p ts =
  match ts with
  | [] => Ok rhs []
  | o2 :: _ =>
    match ct (fst o2) with
    | Some (np, s) =>
      if Nat.ltb p np || (assoc_eqb s ARight && Nat.eqb np p) then
        match climb_rec ct f rhs np ts with
        | Ok rhs' rest => climb_inner ct f rhs' p rest
        | e => e
        end
      else Ok rhs ts
    | None => Ok rhs ts
    end
  end.
Proof. reflexivity. Qed.

Section C.
Variable A : Type.
Variable ct : ctable.
Notation tok := (tok A).
Notation tree := (tree A).
Notation sop := (sop A).
Notation g := (table_of ct).
Notation sy := (@Shunt.sy A (table_of ct)).

Definition cuniform : Prop :=
  forall r1 r2 p s1 s2, ct r1 = Some (p, s1) -> ct r2 = Some (p, s2) -> s1 = s2.
Hypothesis uni : cuniform.

Definition cblocks (ops : list sop) (min : prec) : Prop :=
  match ops with [] => True | s :: _ => forall lp, min <= lp -> reduces s lp = false end.
(* the first token is an operator that the outer loop with this min_prec takes *)
Definition accepts (min : prec) (ts : list tok) : Prop :=
  match ts with [] => False | o :: _ => exists p s, ct (@fst rule A o) = Some (p, s) /\ min <= p end.

Lemma g_some r p s : ct r = Some (p, s) -> g r = Some (Infix s, p).
Proof. unfold table_of. now intros ->. Qed.
Lemma g_none r : ct r = None -> g r = None.
Proof. unfold table_of. now intros ->. Qed.

(* in operator position a well-formed sequence continues with an infix operator and an operand *)
Lemma wf_operator_inv (o : tok) ts1 : wf g false (o :: ts1) = true ->
  exists p s, ct (fst o) = Some (p, s) /\ wf g true ts1 = true.
Proof.
  cbn. unfold table_of. destruct (ct (fst o)) as [[p s]|]; [|discriminate]. eauto.
Qed.
Lemma wf_operand_inv ts1 : wf g true ts1 = true ->
  exists (a : tok) ts2, ts1 = a :: ts2 /\ ct (fst a) = None /\ wf g false ts2 = true.
Proof.
  destruct ts1 as [|a ts2]; cbn; [discriminate|]. unfold table_of.
  destruct (ct (fst a)) as [[p s]|] eqn:G; [discriminate|]. intros H. exists a, ts2. auto.
Qed.

Lemma reduce_while_cblocked lp ops (out : list tree) min :
  cblocks ops min -> min <= lp -> reduce_while lp ops out = Some (ops, out).
Proof.
  destruct ops as [|s ops]; cbn; intros B L; [reflexivity|]. now rewrite (B lp L).
Qed.

Definition c_rec (f : nat) : Prop := forall lhs min ts,
  2 * length ts + 1 <= f -> wf g false ts = true ->
  exists t rest, climb_rec ct f lhs min ts = Ok t rest /\ wf g false rest = true /\
    length rest <= length ts /\ (accepts min ts -> length rest < length ts) /\ (min = 0 -> rest = []) /\
    forall ops out, cblocks ops min -> sy false ops (lhs :: out) ts = sy false ops (t :: out) rest.
Definition c_inner (f : nat) : Prop := forall rhs (o : tok) s p ts,
  2 * length ts + 2 <= f -> wf g false ts = true -> ct (fst o) = Some (p, s) ->
  exists t rest, climb_inner ct f rhs p ts = Ok t rest /\ wf g false rest = true /\
    length rest <= length ts /\
    forall ops out lhs, sy false (SInf o s p :: ops) (rhs :: lhs :: out) ts = sy false ops (Bin lhs o t :: out) rest.

Lemma c_all : forall f, c_rec f /\ c_inner f.
Proof.
  induction f as [|f [IHr IHi]].
  - split; intros until ts; intros F; exfalso; lia.
  - split.
    + intros lhs min ts F W. rewrite climb_rec_S.
      destruct ts as [|o ts1].
      { exists lhs, []. repeat split; auto. cbn. tauto. }
      destruct (wf_operator_inv _ _ W) as (p & s & G & W1). rewrite G.
      destruct (Nat.leb min p) eqn:C.
      * apply Nat.leb_le in C.
        destruct (wf_operand_inv _ W1) as (a & ts2 & -> & Ga & W2).
        cbn [length] in F.
        destruct (IHi (Leaf a) o s p ts2) as (rhs & rest1 & E1 & Wr1 & L1 & S1); [lia|exact W2|exact G|].
        rewrite E1.
        destruct (IHr (Bin lhs o rhs) min rest1) as (t & rest & E2 & Wr & L2 & _ & Z2 & S2); [lia|exact Wr1|].
        exists t, rest. rewrite E2. repeat split; auto.
        -- cbn [length]. lia.
        -- intros _. cbn [length]. lia.
        -- intros ops out B. cbn [Shunt.sy]. rewrite (g_some G).
           rewrite (reduce_while_cblocked _ _ B C). rewrite (g_none Ga).
           rewrite S1. now apply S2.
      * apply Nat.leb_gt in C. exists lhs, (o :: ts1). repeat split; auto.
        -- intros (p' & s' & G' & L'). rewrite G in G'. inversion G'; subst. lia.
        -- intros ->. lia.
    + intros rhs o s p ts F W G. rewrite climb_inner_S.
      destruct ts as [|o2 ts'].
      { exists rhs, []. repeat split; auto. }
      destruct (wf_operator_inv _ _ W) as (np & s2 & G2 & W1). rewrite G2.
      destruct (Nat.ltb p np || (assoc_eqb s2 ARight && Nat.eqb np p)) eqn:C.
      * destruct (IHr rhs np (o2 :: ts')) as (rhs' & rest1 & E1 & Wr1 & L1 & Acc & _ & S1); [lia|exact W|].
        rewrite E1.
        assert (L1' : length rest1 < length (o2 :: ts')).
        { apply Acc. cbn. exists np, s2. split; [exact G2|lia]. }
        destruct (IHi rhs' o s p rest1) as (t & rest & E2 & Wr & L2 & S2); [lia|exact Wr1|exact G|].
        exists t, rest. rewrite E2. repeat split; auto; [lia|].
        intros ops out lhs. rewrite (S1 (SInf o s p :: ops) (lhs :: out)); [apply S2|].
        cbn [cblocks reduces]. intros lp Hl.
        apply orb_true_iff in C. destruct s.
        -- apply Nat.leb_gt. destruct C as [C|C]; [apply Nat.ltb_lt in C; lia|].
           apply andb_true_iff in C. destruct C as [C1 C2]. apply Nat.eqb_eq in C2. subst np.
           assert (Es : ALeft = s2) by (eapply uni; eauto). subst s2. discriminate.
        -- apply Nat.ltb_ge. destruct C as [C|C]; [apply Nat.ltb_lt in C; lia|].
           apply andb_true_iff in C. destruct C as [_ C2]. apply Nat.eqb_eq in C2. lia.
      * exists rhs, (o2 :: ts'). repeat split; auto.
        intros ops out lhs. cbn [Shunt.sy]. rewrite (g_some G2). cbn [reduce_while].
        assert (R : reduces (SInf o s p) np = true).
        { apply orb_false_iff in C. destruct C as [C1 C2]. apply Nat.ltb_ge in C1.
          destruct s; cbn [reduces]; [apply Nat.leb_le; lia|].
          apply Nat.ltb_lt. destruct (Nat.eq_dec np p) as [->|Ne]; [|lia].
          assert (Es : ARight = s2) by (eapply uni; eauto). subst s2.
          cbn in C2. rewrite Nat.eqb_refl in C2. discriminate. }
        rewrite R. cbn [apply_op]. reflexivity.
Qed.

Theorem climber_correct : forall ts : list tok, well_formed g ts = true ->
  exists t, climb ct ts = Ok t [] /\ shunt g ts = Some t.
Proof.
  intros ts W. unfold well_formed in W.
  destruct (wf_operand_inv _ W) as (a & ts' & -> & Ga & W').
  cbn [climb].
  destruct (c_all (2 * length ts' + 2)) as [Cr _].
  destruct (Cr (Leaf a) 0 ts') as (t & rest & E & _ & _ & _ & Z & S); [lia|exact W'|].
  rewrite (Z eq_refl) in *. exists t. split; [exact E|].
  unfold shunt. cbn [Shunt.sy]. rewrite (g_none Ga).
  rewrite (S [] []); cbn; auto.
Qed.
End C.
