(* C13 - the SPECIFICATION: the classical operator-precedence (shunting-yard) algorithm with two
   stacks, written independently of the Pratt code.

   Binding powers, as in the property text: an operator of level p binds what is on its LEFT with
   power p; it binds what is on its RIGHT with power p if it is a left-associative infix operator and
   with a power just below p (below p, above every level smaller than p) if it is right-associative
   or prefix.  When an operator with left power lp arrives, every operator on top of the operator
   stack whose right power is >= lp is reduced first:
        left-assoc infix of level p :  p >= lp
        right-assoc infix / prefix  :  (just below p) >= lp   iff   p > lp.
   A postfix operator, having no right operand, is applied immediately after those reductions.
   A prefix operator and a primary arrive where an operand is expected and reduce nothing. *)
From Coq Require Import List Arith Bool.
Import ListNotations.
Require Import PV.Pratt.Syntax.
Set Implicit Arguments.

Section Shunt.
Variable A : Type.
Variable get : table.
Notation tok := (tok A).
Notation tree := (tree A).

(* entries of the operator stack *)
Inductive sop :=
| SPre (o : tok) (p : prec)
| SInf (o : tok) (s : assoc) (p : prec).

(* right power of the stacked operator >= left power lp of the incoming one *)
Definition reduces (s : sop) (lp : prec) : bool :=
  match s with
  | SInf _ ALeft p => Nat.leb lp p
  | SInf _ ARight p => Nat.ltb lp p
  | SPre _ p => Nat.ltb lp p
  end.

(* pop the operator, pop its operand(s) from the output stack, push the node *)
Definition apply_op (s : sop) (out : list tree) : option (list tree) :=
  match s, out with
  | SPre o _, x :: out' => Some (Pre o x :: out')
  | SInf o _ _, r :: l :: out' => Some (Bin l o r :: out')
  | _, _ => None
  end.

Fixpoint reduce_while (lp : prec) (ops : list sop) (out : list tree) : option (list sop * list tree) :=
  match ops with
  | [] => Some ([], out)
  | s :: ops' =>
    if reduces s lp then
      match apply_op s out with
      | Some out' => reduce_while lp ops' out'
      | None => None
      end
    else Some (ops, out)
  end.

Fixpoint reduce_all (ops : list sop) (out : list tree) : option (list tree) :=
  match ops with
  | [] => Some out
  | s :: ops' => match apply_op s out with Some out' => reduce_all ops' out' | None => None end
  end.

(* operand = true: an operand (prefix operator or primary) is expected next *)
Fixpoint sy (operand : bool) (ops : list sop) (out : list tree) (ts : list tok) : option tree :=
  match ts with
  | [] =>
    if operand then None
    else match reduce_all ops out with Some [t] => Some t | _ => None end
  | a :: ts' =>
    match operand, get (fst a) with
    | true, None => sy false ops (Leaf a :: out) ts'
    | true, Some (Prefix, p) => sy true (SPre a p :: ops) out ts'
    | false, Some (Postfix, p) =>
      match reduce_while p ops out with
      | Some (ops', x :: out') => sy false ops' (Post x a :: out') ts'
      | _ => None
      end
    | false, Some (Infix s, p) =>
      match reduce_while p ops out with
      | Some (ops', out') => sy true (SInf a s p :: ops') out' ts'
      | None => None
      end
    | _, _ => None
    end
  end.

Definition shunt (ts : list tok) : option tree := sy true [] [] ts.
End Shunt.
