(* C13 - shared vocabulary of the operator-precedence development:
   rules, affixes, tokens, result trees, tables as lookup functions, token classification and
   the well-formed operator/operand sequences   prefix* prim postfix* (infix prefix* prim postfix* )* . *)
From Coq Require Import List Arith Bool.
Import ListNotations.
Set Implicit Arguments.

Definition rule := nat.                       (* R : RuleType, compared with == only *)
Definition prec := nat.                       (* pest::pratt_parser::Prec = u32 *)
Inductive assoc := ALeft | ARight.            (* pratt_parser::Assoc / prec_climber::Assoc *)
Inductive affix := Prefix | Postfix | Infix (a : assoc).   (* pratt_parser::Affix *)
Definition entry := (affix * prec)%type.      (* what `get` returns *)
Definition table := rule -> option entry.     (* PrattParserOps::get *)

Definition assoc_eqb (a b : assoc) : bool :=
  match a, b with ALeft, ALeft | ARight, ARight => true | _, _ => false end.

Section Tok.
(* A token is a Pair: its rule plus an opaque payload A (its span / identity).  Nothing below ever
   inspects the payload, so "yield t = ts" says that every token INSTANCE is used exactly once, in order. *)
Variable A : Type.
Definition tok := (rule * A)%type.

(* The value built by the user's closures when they are the free constructors. *)
Inductive tree :=
| Leaf (a : tok)                              (* primary(pair) *)
| Pre (o : tok) (t : tree)                    (* prefix(op, rhs) *)
| Post (t : tree) (o : tok)                   (* postfix(lhs, op) *)
| Bin (l : tree) (o : tok) (r : tree).        (* infix(lhs, op, rhs) *)

(* in-order token sequence of a tree *)
Fixpoint yield (t : tree) : list tok :=
  match t with
  | Leaf a => [a]
  | Pre o t => o :: yield t
  | Post t o => yield t ++ [o]
  | Bin l o r => yield l ++ o :: yield r
  end.

(* Well-formed sequences with respect to a table: the two-state automaton of
   prefix* prim postfix* (infix prefix* prim postfix* )*
   operand = true : a prefix operator or a primary is expected (start state);
   operand = false: a postfix or infix operator or the end is expected (accepting state).
   A primary is any token whose rule is not in the table. *)
Fixpoint wf (get : table) (operand : bool) (ts : list tok) : bool :=
  match ts with
  | [] => negb operand
  | a :: ts' =>
    match operand, get (fst a) with
    | true, None => wf get false ts'
    | true, Some (Prefix, _) => wf get true ts'
    | false, Some (Postfix, _) => wf get false ts'
    | false, Some (Infix _, _) => wf get true ts'
    | _, _ => false
    end
  end.
Definition well_formed (get : table) (ts : list tok) : bool := wf get true ts.

(* The same language, written as the regular expression of the documentation, as an inductive
   predicate (proved equivalent to [well_formed] in Pratt/WfRegex.v). *)
Definition is_prim (get : table) (a : tok) : Prop := get (fst a) = None.
Definition is_prefix (get : table) (a : tok) : Prop := exists p, get (fst a) = Some (Prefix, p).
Definition is_postfix (get : table) (a : tok) : Prop := exists p, get (fst a) = Some (Postfix, p).
Definition is_infix (get : table) (a : tok) : Prop := exists s p, get (fst a) = Some (Infix s, p).

(* operand ::= prefix* prim postfix* *)
Definition operand_seq (get : table) (ts : list tok) : Prop :=
  exists pre a post, ts = pre ++ a :: post /\ Forall (is_prefix get) pre /\ is_prim get a /\ Forall (is_postfix get) post.
(* tail ::= (infix operand)* *)
Inductive tail_seq (get : table) : list tok -> Prop :=
| tail_nil : tail_seq get []
| tail_cons o x rest : is_infix get o -> operand_seq get x -> tail_seq get rest -> tail_seq get (o :: x ++ rest).
Definition regex_seq (get : table) (ts : list tok) : Prop :=
  exists x rest, ts = x ++ rest /\ operand_seq get x /\ tail_seq get rest.

(* Conditions on tables used in the statement *)
Definition table_pos (get : table) : Prop := forall r af p, get r = Some (af, p) -> 1 <= p.
Definition infix_only (get : table) : Prop := forall r af p, get r = Some (af, p) -> exists s, af = Infix s.
Definition one_assoc_per_level (get : table) : Prop :=
  forall r1 r2 s1 s2 p, get r1 = Some (Infix s1, p) -> get r2 = Some (Infix s2, p) -> s1 = s2.

(* outcome of the modelled Rust functions *)
Inductive panic :=
| PEmpty      (* "Pratt parsing expects non-empty Pairs" / "precedence climbing requires a non-empty Pairs" *)
| PNud        (* "Expected prefix or primary expression, found .." *)
| PLed        (* "Expected postfix or infix expression, found .." *)
| PLbp        (* "Expected operator, found .." *)
| PNoMap      (* "Could not map .., no `.map_*(...)` specified" *)
| PSub        (* prec - 1 with prec = 0: "attempt to subtract with overflow" *)
| PUnwrap     (* pairs.next().unwrap() on None *)
| PExpect.    (* climber: "infix operator must be followed by a primary expression" *)
Inductive res :=
| Ok (t : tree) (rest : list tok)             (* value returned, tokens left in the iterator *)
| Panic (k : panic)
| OutOfFuel.                                   (* model artefact; never for the fuel used by the entry points *)
End Tok.

Arguments Leaf {A} a. Arguments Pre {A} o t. Arguments Post {A} t o. Arguments Bin {A} l o r.
Arguments Ok {A} t rest. Arguments Panic {A} k. Arguments OutOfFuel {A}.
Arguments tail_nil {A} get.
