(* C13 - the two-state automaton [well_formed] accepts exactly the language of the regular expression
   prefix* prim postfix* (infix prefix* prim postfix* )*   written out as [regex_seq]. *)
From Coq Require Import List Arith Bool Lia.
Import ListNotations.
Require Import PV.Pratt.Syntax.
Set Implicit Arguments.

Section R.
Variable A : Type.
Variable g : table.
Notation tok := (tok A).

Lemma wf_prefixes (pre l : list tok) : Forall (is_prefix g) pre -> wf g true (pre ++ l) = wf g true l.
Proof.
  induction 1 as [|a pre [p Ha] _ IH]; cbn [app wf]; [reflexivity|]. now rewrite Ha.
Qed.
Lemma wf_postfixes (post l : list tok) : Forall (is_postfix g) post -> wf g false (post ++ l) = wf g false l.
Proof.
  induction 1 as [|a post [p Ha] _ IH]; cbn [app wf]; [reflexivity|]. now rewrite Ha.
Qed.
Lemma wf_operand (x l : list tok) : operand_seq g x -> wf g true (x ++ l) = wf g false l.
Proof.
  intros (pre & a & post & -> & Hpre & Ha & Hpost).
  rewrite <- app_assoc, wf_prefixes by exact Hpre. cbn [app wf]. unfold is_prim in Ha. rewrite Ha.
  now apply wf_postfixes.
Qed.
Lemma wf_tail (rest : list tok) : tail_seq g rest -> wf g false rest = true.
Proof.
  induction 1 as [|o x rest (s & p & Ho) Hx _ IH]; [reflexivity|].
  cbn [wf]. rewrite Ho. now rewrite wf_operand.
Qed.

Lemma regex_wf (ts : list tok) : regex_seq g ts -> well_formed g ts = true.
Proof.
  intros (x & rest & -> & Hx & Ht). unfold well_formed. rewrite wf_operand by exact Hx. now apply wf_tail.
Qed.

Lemma wf_split (ts : list tok) :
  (wf g true ts = true -> exists x rest, ts = x ++ rest /\ operand_seq g x /\ tail_seq g rest) /\
  (wf g false ts = true -> exists post rest, ts = post ++ rest /\ Forall (is_postfix g) post /\ tail_seq g rest).
Proof.
  induction ts as [|a ts [IHt IHf]]; split; cbn [wf negb]; try discriminate.
  - intros _. exists [], []. repeat split; auto. constructor.
  - destruct (g (fst a)) as [[af p]|] eqn:G.
    + destruct af; try discriminate. intros W.
      destruct (IHt W) as (x & rest & -> & (pre & b & post & -> & Hpre & Hb & Hpost) & Ht).
      exists (a :: pre ++ b :: post), rest. repeat split; auto.
      exists (a :: pre), b, post. repeat split; auto. constructor; auto. now exists p.
    + intros W. destruct (IHf W) as (post & rest & -> & Hpost & Ht).
      exists (a :: post), rest. repeat split; auto. exists [], a, post. repeat split; auto.
  - destruct (g (fst a)) as [[af p]|] eqn:G; [|discriminate].
    destruct af as [| |s]; try discriminate; intros W.
    + destruct (IHf W) as (post & rest & -> & Hpost & Ht).
      exists (a :: post), rest. repeat split; auto. constructor; auto. now exists p.
    + destruct (IHt W) as (x & rest & -> & Hx & Ht).
      exists [], (a :: x ++ rest). repeat split; auto. constructor; auto. now exists s, p.
Qed.

Theorem well_formed_regex (ts : list tok) : well_formed g ts = true <-> regex_seq g ts.
Proof.
  split; [|apply regex_wf]. intros W. destruct (wf_split ts) as [H _].
  destruct (H W) as (x & rest & E & Hx & Ht). now exists x, rest.
Qed.
End R.
