(* C01, part 11: the side conditions as one boolean checker `grammar_okb` (sound for `grammar_ok`),
   including a UTF-8 validity checker for the string constants.                                      *)
From Coq Require Import List Arith NArith ZArith Bool String Lia.
Import ListNotations.
Require Import PV.Comb.PState PV.Comb.Bytes PV.Comb.Utf8 PV.Comb.Utf8b.
Require Import PV.Peg.Ast PV.Peg.VmCompile PV.Peg.Refine6.

Arguments skipn : simpl never.
Arguments firstn : simpl never.

(* ---------- UTF-8 validity, decidably ---------- *)
Fixpoint utf8b_fuel (k : nat) (l : list byte) : bool :=
  match l with
  | [] => true
  | _ :: _ =>
    match k with
    | O => false
    | S k' =>
      match decode1 l with
      | Some (c, n) => scalarb c && str_eqb (encode c) (firstn n l) && utf8b_fuel k' (skipn n l)
      | None => false
      end
    end
  end.
Definition utf8b (l : list byte) : bool := utf8b_fuel (List.length l) l.

Lemma utf8b_fuel_sound k : forall l, utf8b_fuel k l = true -> valid_utf8 l.
Proof.
  induction k as [|k IH]; intros l H.
  - destruct l; [apply valid_nil|discriminate].
  - destruct l as [|b l]; [apply valid_nil|]. cbn [utf8b_fuel] in H.
    destruct (decode1 (b :: l)) as [[c n]|]; [|discriminate].
    apply andb_true_iff in H. destruct H as [H H3]. apply andb_true_iff in H. destruct H as [H1 H2].
    apply scalarb_spec in H1. apply str_eqb_eq in H2.
    rewrite <- (firstn_skipn n (b :: l)), <- H2. apply valid_cons; [exact H1|]. now apply IH.
Qed.

Lemma utf8b_sound l : utf8b l = true -> valid_utf8 l.
Proof. apply utf8b_fuel_sound. Qed.

Fixpoint lits_validb (e : oexpr) : bool :=
  match e with
  | OStr s | OInsens s | OPushLiteral s => utf8b s
  | OSkip ss => forallb utf8b ss
  | OPosPred x | ONegPred x | OOpt x | ORep x | ORepOnce x | OPush x | ONodeTag x _ | ORestoreOnErr x => lits_validb x
  | OSeq l r | OChoice l r => lits_validb l && lits_validb r
  | _ => true
  end.

Lemma lits_validb_sound e : lits_validb e = true -> lits_valid e.
Proof.
  induction e; cbn [lits_validb lits_valid]; auto; try apply utf8b_sound.
  - intros H. apply andb_true_iff in H. destruct H. auto.
  - intros H. apply andb_true_iff in H. destruct H. auto.
  - intros H. rewrite forallb_forall in H. apply Forall_forall. intros x Hx. apply utf8b_sound. auto.
Qed.

(* ---------- unique rule names ---------- *)
Fixpoint nodupb (l : list name) : bool :=
  match l with [] => true | x :: r => negb (existsb (str_eqb x) r) && nodupb r end.

Lemma nodupb_sound l : nodupb l = true -> NoDup l.
Proof.
  induction l as [|x l IH]; [constructor|]. cbn [nodupb]. intros H. apply andb_true_iff in H. destruct H as [H1 H2].
  constructor; [|auto]. intros Hin. apply negb_true_iff in H1.
  assert (existsb (str_eqb x) l = true) by (apply existsb_exists; exists x; split; [exact Hin|apply str_eqb_refl]).
  congruence.
Qed.

(* ---------- the grammar-level checker ---------- *)
Section Check.
Variable OG : ogrammar.
Variable extras : bool.
Variable uranges : name -> option (list (N * N)).
Variable pp : bool.

Definition rule_okb (r : orule) : bool :=
  in_fragment OG extras uranges pp (oexpr_of r) && rok OG (K OG) (oexpr_of r) && lits_validb (oexpr_of r).

Definition grammar_okb : bool :=
  nodupb (map oname OG) && forallb (fun r => negb (is_builtin (oname r))) OG && forallb rule_okb OG &&
  (negb (has_orule OG (nm "WHITESPACE")) || fclean OG (K OG) (OIdent (nm "WHITESPACE"))) &&
  (negb (has_orule OG (nm "COMMENT")) || fclean OG (K OG) (OIdent (nm "COMMENT"))).

Lemma grammar_okb_sound : grammar_okb = true -> grammar_ok OG extras uranges pp.
Proof.
  unfold grammar_okb. intros H.
  apply andb_true_iff in H. destruct H as [H H4]. apply andb_true_iff in H. destruct H as [H H3].
  apply andb_true_iff in H. destruct H as [H H2]. apply andb_true_iff in H. destruct H as [H1 Hnames].
  rewrite forallb_forall in H2. rewrite forallb_forall in Hnames.
  assert (R : forall r, In r OG -> in_fragment OG extras uranges pp (oexpr_of r) = true /\
                                   rok OG (K OG) (oexpr_of r) = true /\ lits_validb (oexpr_of r) = true).
  { intros r Hr. specialize (H2 r Hr). unfold rule_okb in H2.
    apply andb_true_iff in H2. destruct H2 as [H2 Hc]. apply andb_true_iff in H2. tauto. }
  split.
  - now apply nodupb_sound.
  - intros r Hr. apply negb_true_iff. now apply Hnames.
  - intros r Hr. apply (R r Hr).
  - intros r Hr. apply rok_rokP. apply (R r Hr).
  - intros r Hr. apply lits_validb_sound. apply (R r Hr).
  - intros Hw. rewrite Hw in H3. exact H3.
  - intros Hc. rewrite Hc in H4. exact H4.
Qed.

End Check.

(* ---------- the side conditions under the names of the C01 brief ---------- *)
(* what the real `restore_on_err` pass establishes *)
Definition restore_ok (OG : ogrammar) (e : oexpr) : bool := rok OG (K OG) e.

(* "the Spec evaluation never consults PEEK / POP on an empty stack", in its simplest (static) form: there is
   no PEEK / POP at all.  The fragment with pp = true and this condition is the fragment with pp = false.  *)
Fixpoint no_empty_stack_read (e : oexpr) : bool :=
  match e with
  | OIdent n => negb (str_eqb n (nm "PEEK") || str_eqb n (nm "POP"))
  | OPosPred x | ONegPred x | OOpt x | ORep x | ORepOnce x | OPush x | ONodeTag x _ | ORestoreOnErr x => no_empty_stack_read x
  | OSeq l r | OChoice l r => no_empty_stack_read l && no_empty_stack_read r
  | _ => true
  end.

Lemma fragment_no_peek_pop OG extras uranges e :
  in_fragment OG extras uranges true e = true -> no_empty_stack_read e = true ->
  in_fragment OG extras uranges false e = true.
Proof.
  induction e; cbn [in_fragment no_empty_stack_read]; auto.
  - unfold ident_ok. destruct (is_builtin n); [|auto]. intros _ H. rewrite H. reflexivity.
  - intros H1 H2. apply andb_true_iff in H1. apply andb_true_iff in H2. apply andb_true_iff. tauto.
  - intros H1 H2. apply andb_true_iff in H1. apply andb_true_iff in H2. apply andb_true_iff. tauto.
  - intros H1 H2. apply andb_true_iff in H1. apply andb_true_iff. tauto.
  - intros H1 H2. apply andb_true_iff in H1. apply andb_true_iff. tauto.
Qed.
