(* Basic facts about Layer S: fuel monotonicity of `eval` (a result other than SFuel is stable
   under more fuel), hence determinism across fuels.                                          *)
From Coq Require Import List Arith NArith ZArith Bool Lia.
Import ListNotations.
Require Import PV.Comb.PState PV.Comb.Bytes PV.Iter.Queue PV.Peg.Ast PV.Peg.Spec.

Section Facts.
Variable G : grammar.
Variable extras : bool.
Variable uprop : name -> option (N -> bool).
Variable w : list byte.

Notation eval := (eval G extras uprop w).
Notation skip_with := (skip_with G).

(* `u2` extends `u1`: wherever u1 gives a definite answer, u2 gives the same *)
Definition ext_unit (u1 u2 : nat -> list str -> sres) : Prop :=
  forall p sg r, u1 p sg = r -> r <> SFuel -> u2 p sg = r.
Definition ext_ev (e1 e2 : evaluator) : Prop :=
  forall a emit x p sg r, e1 a emit x p sg = r -> r <> SFuel -> e2 a emit x p sg = r.

Lemma loop_mono n m u1 u2 p sg acc r :
  ext_unit u1 u2 -> n <= m -> loop n u1 p sg acc = r -> r <> SFuel -> loop m u2 p sg acc = r.
Proof.
  intros HU. revert m p sg acc. induction n as [|n IH]; intros m p sg acc Hm H Hr; [cbn in H; congruence|].
  destruct m as [|m]; [lia|]. cbn [loop] in *.
  destruct (u1 p sg) as [p1 sg1 f1| |] eqn:E1.
  - rewrite (HU _ _ _ E1) by discriminate. apply IH; auto; lia.
  - rewrite (HU _ _ _ E1) by discriminate. exact H.
  - congruence.
Qed.

Lemma many_mono e1 e2 n m a emit nm0 p sg acc r :
  ext_ev e1 e2 -> n <= m -> many_with e1 n a emit nm0 p sg acc = r -> r <> SFuel -> many_with e2 m a emit nm0 p sg acc = r.
Proof. intros HE Hm. unfold many_with. apply loop_mono; auto. intros p0 sg0 r0. apply HE. Qed.

Lemma skip_mono e1 e2 n m a emit p sg r :
  ext_ev e1 e2 -> n <= m -> skip_with e1 n a emit p sg = r -> r <> SFuel -> skip_with e2 m a emit p sg = r.
Proof.
  intros HE Hm. unfold Spec.skip_with. destruct (negb (atom_eqb a NonAtomic)); [auto|].
  destruct (has_rule G _), (has_rule G _); auto; try (apply many_mono; auto).
  intros H Hr.
  destruct (many_with e1 n a emit _ p sg []) as [p1 sg1 f1| |] eqn:E1; try congruence.
  - rewrite (many_mono e1 e2 n m _ _ _ _ _ _ _ HE Hm E1) by discriminate.
    revert H Hr. apply loop_mono; auto.
    intros p0 sg0 r0 H0 Hr0.
    destruct (e1 a emit (EIdent _) p0 sg0) as [p2 sg2 f2| |] eqn:E2; try congruence.
    + rewrite (HE _ _ _ _ _ _ E2) by discriminate. revert H0 Hr0. apply many_mono; auto.
    + rewrite (HE _ _ _ _ _ _ E2) by discriminate. exact H0.
  - rewrite (many_mono e1 e2 n m _ _ _ _ _ _ _ HE Hm E1) by discriminate. exact H.
Qed.

Lemma rep_unit_mono e1 e2 n m a emit x : ext_ev e1 e2 -> n <= m -> ext_unit (rep_unit G e1 n a emit x) (rep_unit G e2 m a emit x).
Proof.
  intros HE Hm p sg r H Hr. unfold rep_unit in *.
  destruct (skip_with e1 n a emit p sg) as [p1 sg1 f1| |] eqn:E1; try congruence.
  - rewrite (skip_mono e1 e2 n m _ _ _ _ _ HE Hm E1) by discriminate.
    destruct (e1 a emit x p1 sg1) as [p2 sg2 f2| |] eqn:E2; try congruence; rewrite (HE _ _ _ _ _ _ E2) by discriminate; exact H.
  - rewrite (skip_mono e1 e2 n m _ _ _ _ _ HE Hm E1) by discriminate. exact H.
Qed.

Lemma rep_from_mono e1 e2 n m a emit x p sg acc r :
  ext_ev e1 e2 -> n <= m -> rep_from_with G e1 n a emit x p sg acc = r -> r <> SFuel -> rep_from_with G e2 m a emit x p sg acc = r.
Proof. intros HE Hm. unfold rep_from_with. apply loop_mono; auto. now apply rep_unit_mono. Qed.

Theorem eval_mono : forall n m, n <= m -> ext_ev (eval n) (eval m).
Proof.
  induction n as [|n IH]; intros m Hm a emit e p sg r H Hr; [cbn in H; congruence|].
  destruct m as [|m]; [lia|]. assert (Hnm : n <= m) by lia. specialize (IH m Hnm).
  cbn [Spec.eval] in *.
  (* sub-evaluations: rewrite a definite result of eval n into eval m *)
  Ltac sub IH E := rewrite (IH _ _ _ _ _ _ E) by discriminate.
  destruct e; auto.
  - (* EIdent *)
    repeat match goal with |- context [if ?c then _ else _] => destruct c; [exact H|] end.
    destruct (ascii_builtin n0); [exact H|].
    destruct (find_rule G n0) as [rl|]; [|exact H].
    destruct (rule_mode _ _ _ _) as [tk a2].
    destruct (Spec.eval G extras uprop w n a2 emit (rexpr rl) p sg) as [q sg2 f2| |] eqn:E1; try congruence; sub IH E1; exact H.
  - (* EPosPred *)
    destruct (Spec.eval G extras uprop w n a false e p sg) as [q sg2 f2| |] eqn:E1; try congruence; sub IH E1; exact H.
  - (* ENegPred *)
    destruct (Spec.eval G extras uprop w n a false e p sg) as [q sg2 f2| |] eqn:E1; try congruence; sub IH E1; exact H.
  - (* ESeq *)
    destruct (Spec.eval G extras uprop w n a emit e1 p sg) as [p1 sg1 f1| |] eqn:E1; try congruence; sub IH E1; [|exact H].
    destruct (skip_with (Spec.eval G extras uprop w n) n a emit p1 sg1) as [p2 sg2 f2| |] eqn:E2; try congruence.
    + rewrite (skip_mono _ _ n m _ _ _ _ _ IH Hnm E2) by discriminate.
      destruct (Spec.eval G extras uprop w n a emit e2 p2 sg2) as [p3 sg3 f3| |] eqn:E3; try congruence; sub IH E3; exact H.
    + rewrite (skip_mono _ _ n m _ _ _ _ _ IH Hnm E2) by discriminate. exact H.
  - (* EChoice *)
    destruct (Spec.eval G extras uprop w n a emit e1 p sg) as [p1 sg1 f1| |] eqn:E1; try congruence; sub IH E1; [exact H|].
    now apply IH.
  - (* EOpt *)
    destruct (Spec.eval G extras uprop w n a emit e p sg) as [p1 sg1 f1| |] eqn:E1; try congruence; sub IH E1; exact H.
  - (* ERep *)
    destruct (Spec.eval G extras uprop w n a emit e p sg) as [p1 sg1 f1| |] eqn:E1; try congruence; sub IH E1; [|exact H].
    revert H Hr. apply rep_from_mono; auto.
  - (* ERepOnce *)
    destruct extras.
    + destruct (Spec.eval G true uprop w n a emit e p sg) as [p1 sg1 f1| |] eqn:E1; try congruence; sub IH E1; [|exact H].
      revert H Hr. apply rep_from_mono; auto.
    + now apply IH.
  - destruct (unroll_node extras (ERepExact e n0)); [now apply IH|exact H].
  - destruct (unroll_node extras (ERepMin e n0)); [now apply IH|exact H].
  - destruct (unroll_node extras (ERepMax e n0)); [now apply IH|exact H].
  - destruct (unroll_node extras (ERepMinMax e m0 n0)); [now apply IH|exact H].
  - (* EPush *)
    destruct (Spec.eval G extras uprop w n a emit e p sg) as [p1 sg1 f1| |] eqn:E1; try congruence; sub IH E1; exact H.
  - (* ENodeTag *)
    destruct (Spec.eval G extras uprop w n a emit e p sg) as [p1 sg1 f1| |] eqn:E1; try congruence; sub IH E1; exact H.
Qed.

(* two definite results of the same evaluation, at any two fuels, coincide *)
Corollary eval_deterministic n m a emit e p sg r1 r2 :
  eval n a emit e p sg = r1 -> eval m a emit e p sg = r2 -> r1 <> SFuel -> r2 <> SFuel -> r1 = r2.
Proof.
  intros H1 H2 N1 N2. destruct (Nat.le_ge_cases n m) as [L|L].
  - rewrite (eval_mono n m L _ _ _ _ _ _ H1 N1) in H2. congruence.
  - rewrite (eval_mono m n L _ _ _ _ _ _ H2 N2) in H1. congruence.
Qed.

End Facts.
