(* C01, part 3: the simulation relation between Layer S results and Layer C results, and the
   compositional toolkit: one lemma per combinator, `psim C q a emit p sg r` reading
   "from every machine state representing the Spec state (a, emit, p, sg), program q terminates with a
   result that matches the definite Spec result r".                                                  *)
From Coq Require Import List Arith NArith ZArith Bool Lia.
Import ListNotations.
Require Import PV.Iter.Queue PV.Iter.QueueFacts.
Require Import PV.Stack.Model PV.Stack.Proofs PV.Comb.PState PV.Comb.Bytes PV.Comb.Prog PV.Comb.Exec.
Require Import PV.Comb.Frame PV.Comb.Contracts PV.Comb.Utf8 PV.Comb.Utf8b PV.Comb.Utf8c.
Require Import PV.Peg.Ast PV.Peg.Spec PV.Peg.Refine0 PV.Peg.Refine1 PV.Peg.Refine2.

Arguments Nat.sub : simpl never.
Arguments Nat.mul : simpl never.
Arguments Nat.ltb : simpl never.
Arguments Nat.leb : simpl never.
Arguments Nat.eqb : simpl never.
Arguments skipn : simpl never.
Arguments firstn : simpl never.

(* ---------- Spec-side algebra ---------- *)
Definition sres_bind (r1 : sres) (k : nat -> list str -> sres) : sres :=
  match r1 with
  | SMatch p1 sg1 f1 =>
      match k p1 sg1 with SMatch p2 sg2 f2 => SMatch p2 sg2 (f1 ++ f2) | SFail => SFail | SFuel => SFuel end
  | SFail => SFail
  | SFuel => SFuel
  end.
Definition sres_opt (p : nat) (sg : list str) (r : sres) : sres :=
  match r with SMatch p1 sg1 f1 => SMatch p1 sg1 f1 | SFail => SMatch p sg [] | SFuel => SFuel end.
Definition sres_or (r1 r2 : sres) : sres :=
  match r1 with SMatch p1 sg1 f1 => SMatch p1 sg1 f1 | SFail => r2 | SFuel => SFuel end.
Definition sres_la (b : bool) (p : nat) (sg : list str) (r : sres) : sres :=
  match r with
  | SMatch _ _ _ => if b then SMatch p sg [] else SFail
  | SFail => if b then SFail else SMatch p sg []
  | SFuel => SFuel
  end.
Definition sres_node (tk : bool) (id : nat) (p : nat) (r : sres) : sres :=
  match r with
  | SMatch q sg2 f2 => SMatch q sg2 (if tk then [Node id None p q f2] else f2)
  | SFail => SFail
  | SFuel => SFuel
  end.

Lemma sres_bind_assoc r k1 k2 :
  sres_bind (sres_bind r k1) k2 = sres_bind r (fun p sg => sres_bind (k1 p sg) k2).
Proof.
  destruct r as [p1 sg1 f1| |]; cbn; auto. destruct (k1 p1 sg1) as [p2 sg2 f2| |]; cbn; auto.
  destruct (k2 p2 sg2) as [p3 sg3 f3| |]; cbn; auto. now rewrite app_assoc.
Qed.

Lemma loop_acc n (u : nat -> list str -> sres) : forall p sg acc,
  loop n u p sg acc = match loop n u p sg [] with SMatch p' sg' f => SMatch p' sg' (acc ++ f) | x => x end.
Proof.
  induction n as [|n IH]; intros p sg acc; [reflexivity|]. cbn [loop].
  destruct (u p sg) as [p1 sg1 f1| |]; auto.
  - rewrite (IH p1 sg1 (acc ++ f1)), (IH p1 sg1 ([] ++ f1)). cbn [app].
    destruct (loop n u p1 sg1 []); auto. now rewrite app_assoc.
  - now rewrite app_nil_r.
Qed.

Lemma loop_not_fail n (u : nat -> list str -> sres) : forall p sg acc, loop n u p sg acc <> SFail.
Proof.
  induction n as [|n IH]; intros p sg acc; [discriminate|]. cbn [loop].
  destruct (u p sg); auto; discriminate.
Qed.

(* one unrolling, in the algebra *)
Lemma loop_unroll n (u : nat -> list str -> sres) p sg :
  loop (S n) u p sg [] = sres_opt p sg (sres_bind (u p sg) (fun p1 sg1 => loop n u p1 sg1 [])).
Proof.
  cbn [loop]. destruct (u p sg) as [p1 sg1 f1| |]; cbn; auto.
  rewrite loop_acc. pose proof (loop_not_fail n u p1 sg1 []) as NF.
  destruct (loop n u p1 sg1 []); cbn; auto. congruence.
Qed.

Section Toolkit.
Variable cfg : config.
Variable E : env.
Variable w : list byte.
Variable pp : bool.      (* PEEK / POP may occur: the VM may then stop with the documented empty-stack panic *)
Hypothesis Hcfg : cfg_ok cfg.
Hypothesis HE : env_valid E.

Notation runs := (runs cfg E).

(* the machine state s represents the Spec state (a, emit, p, sg) on input w *)
Record rep (a : atom) (emit : bool) (p : nat) (sg : list str) (s : pst) : Prop := {
  r_good : good s;
  r_input : input s = w;
  r_at : atomicity s = a;
  r_emit : lk_eqb (lookahead s) LNone = emit;
  r_pos : pos s = p;
  r_stack : cache (stack s) = sg }.

(* result matching; C = "a failure of this expression leaves the stack contents alone" *)
Definition sim_res (C : Prop) (s : pst) (r : sres) (vr : res) : Prop :=
  match vr with
  | ROk s' => match r with
              | SMatch p' sg' f => pos s' = p' /\ cache (stack s') = sg' /\ queue s' = toks (length (queue s)) f ++ queue s
              | _ => False
              end
  | RErr s' => r = SFail /\ pos s' = pos s /\ queue s' = queue s /\ (C -> cache (stack s') = cache (stack s))
  | RPanic k => pp = true /\ k = PkEmptyStack
  | ROutOfFuel => False
  end.

(* inside a sequence body a failure need not restore anything: the queue only grew *)
Definition bsim (s : pst) (r : sres) (vr : res) : Prop :=
  match vr with
  | ROk s' => match r with
              | SMatch p' sg' f => pos s' = p' /\ cache (stack s') = sg' /\ queue s' = toks (length (queue s)) f ++ queue s
              | _ => False
              end
  | RErr s' => r = SFail /\ exists X, queue s' = X ++ queue s
  | RPanic k => pp = true /\ k = PkEmptyStack
  | ROutOfFuel => False
  end.

Definition psim (C : Prop) (q : prog) (a : atom) (emit : bool) (p : nat) (sg : list str) (r : sres) : Prop :=
  r <> SFuel -> forall s, rep a emit p sg s -> exists vr, runs q s vr /\ sim_res C s r vr.
Definition pbsim (q : prog) (a : atom) (emit : bool) (p : nat) (sg : list str) (r : sres) : Prop :=
  r <> SFuel -> forall s, rep a emit p sg s -> exists vr, runs q s vr /\ bsim s r vr.

Lemma sim_bsim C s r vr : sim_res C s r vr -> bsim s r vr.
Proof.
  destruct vr as [s'|s'|k|]; cbn; auto. intros (H1 & _ & H2 & _). split; [exact H1|]. exists []. exact H2.
Qed.

Lemma psim_pbsim C q a emit p sg r : psim C q a emit p sg r -> pbsim q a emit p sg r.
Proof. intros H N s R. destruct (H N s R) as (vr & R1 & S1). exists vr. split; [exact R1|]. eapply sim_bsim; eauto. Qed.

Lemma psim_weaken (C C' : Prop) q a emit p sg r : (C' -> C) -> psim C q a emit p sg r -> psim C' q a emit p sg r.
Proof.
  intros HC H N s R. destruct (H N s R) as (vr & R1 & S1). exists vr. split; [exact R1|].
  destruct vr as [s'|s'|k|]; cbn in *; auto. destruct S1 as (A1 & A2 & A3 & A4). repeat split; auto.
Qed.

Lemma psim_eq C q a emit p sg r r' : r = r' -> psim C q a emit p sg r -> psim C q a emit p sg r'.
Proof. intros ->. auto. Qed.

(* ---------- stepping the representation ---------- *)
Lemma rep_step q a emit p sg s s' p' sg' (okb : bool) : rep a emit p sg s -> prog_valid q ->
  runs q s (if okb then ROk s' else RErr s') -> pos s' = p' -> cache (stack s') = sg' -> rep a emit p' sg' s'.
Proof.
  intros [G I A L P S] V R P' S'.
  pose proof (run_inv cfg E Hcfg HE q s _ G V R) as K.
  assert (K' : good s' /\ keeps s s') by (destruct okb; exact K). destruct K' as [G' [k1 k2 k3 k4]].
  split; auto; congruence.
Qed.

Lemma rep_same a emit p sg s s' : rep a emit p sg s ->
  input s' = input s -> pos s' = pos s -> stack s' = stack s -> limit s' = limit s ->
  atomicity s' = atomicity s -> lookahead s' = lookahead s -> rep a emit p sg s'.
Proof.
  intros [G I A L P S] e1 e2 e3 e4 e5 e6. split; try congruence. eapply good_same; eauto.
Qed.

Lemma rep_checkpoint a emit p sg s : rep a emit p sg s -> rep a emit p sg (checkpoint s).
Proof. intros [G I A L P S]. split; auto. now apply good_checkpoint. Qed.

(* ---------- primitives ---------- *)
Lemma psim_prim_moved (C : Prop) o a emit p sg p' :
  (forall s, rep a emit p sg s -> exists t, exec_prim cfg o s = apply_pres s (PMoved p') t) ->
  psim C (PPrim o) a emit p sg (SMatch p' sg []).
Proof.
  intros H _ s R. destruct (H s R) as [t Ht]. destruct (apply_pres_moved s p' t) as (s' & A & B1 & B2 & B3).
  exists (ROk s'). split; [apply runs_prim; [congruence|discriminate]|].
  cbn. rewrite B3, B2. split; [exact B1|]. split; [apply (r_stack _ _ _ _ _ R)|reflexivity].
Qed.

Lemma psim_prim_stay (C : Prop) o a emit p sg :
  (forall s, rep a emit p sg s -> exists t, exec_prim cfg o s = apply_pres s PStay t) ->
  psim C (PPrim o) a emit p sg SFail.
Proof.
  intros H _ s R. destruct (H s R) as [t Ht]. destruct (apply_pres_stay s t) as (s' & A & B1 & B2 & B3).
  exists (RErr s'). split; [apply runs_prim; [congruence|discriminate]|].
  cbn. rewrite B3. auto.
Qed.

(* ---------- choice ---------- *)
Lemma psim_orelse (C1 C2 : Prop) q1 q2 a emit p sg r1 r2 : prog_valid q1 -> C1 ->
  psim C1 q1 a emit p sg r1 -> psim C2 q2 a emit p sg r2 ->
  psim C2 (POrElse q1 q2) a emit p sg (sres_or r1 r2).
Proof.
  intros V HC1 H1 H2 N s R.
  assert (N1 : r1 <> SFuel) by (intros ->; apply N; reflexivity).
  destruct (H1 N1 s R) as (vr1 & R1 & S1).
  destruct vr1 as [s1|s1|k|]; cbn in S1.
  - exists (ROk s1). split; [apply runs_orelse_stop; [exact R1|discriminate]|].
    destruct r1; try contradiction. exact S1.
  - destruct S1 as (-> & A1 & A2 & A3). cbn [sres_or] in *.
    assert (R' : rep a emit p sg s1).
    { apply (rep_step q1 a emit p sg s s1 p sg false R V R1).
      - rewrite A1. apply (r_pos _ _ _ _ _ R).
      - rewrite A3 by exact HC1. apply (r_stack _ _ _ _ _ R). }
    destruct (H2 N s1 R') as (vr2 & R2 & S2).
    exists vr2. split; [eapply runs_orelse_err; eauto|].
    destruct vr2 as [s2|s2|k|]; cbn in *; auto.
    + destruct r2; try contradiction. rewrite A2 in S2. exact S2.
    + destruct S2 as (B0 & B1 & B2 & B3). split; [exact B0|]. split; [congruence|]. split; [congruence|].
      intros HC. rewrite B3 by exact HC. apply A3. exact HC1.
  - exists (RPanic k). split; [apply runs_orelse_stop; [exact R1|discriminate]|exact S1].
  - contradiction.
Qed.

(* ---------- sequential composition inside a sequence body ---------- *)
Lemma pbsim_andthen q1 q2 a emit p sg r1 (k : nat -> list str -> sres) : prog_valid q1 ->
  pbsim q1 a emit p sg r1 ->
  (forall p1 sg1 f1, r1 = SMatch p1 sg1 f1 -> pbsim q2 a emit p1 sg1 (k p1 sg1)) ->
  pbsim (PAndThen q1 q2) a emit p sg (sres_bind r1 k).
Proof.
  intros V H1 H2 N s R.
  assert (N1 : r1 <> SFuel) by (intros ->; apply N; reflexivity).
  destruct (H1 N1 s R) as (vr1 & R1 & S1).
  destruct vr1 as [s1|s1|kk|]; cbn in S1.
  - destruct r1 as [p1 sg1 f1| |]; try contradiction. destruct S1 as (A1 & A2 & A3).
    cbn [sres_bind] in *.
    assert (N2 : k p1 sg1 <> SFuel) by (intros Hk; rewrite Hk in N; apply N; reflexivity).
    assert (R' : rep a emit p1 sg1 s1) by (apply (rep_step q1 a emit p sg s s1 p1 sg1 true R V R1 A1 A2)).
    destruct (H2 p1 sg1 f1 eq_refl N2 s1 R') as (vr2 & R2 & S2).
    exists vr2. split; [eapply runs_andthen_ok; eauto|].
    destruct vr2 as [s2|s2|kk|]; cbn in *; auto.
    + destruct (k p1 sg1) as [p2 sg2 f2| |]; try contradiction. destruct S2 as (B1 & B2 & B3).
      split; [exact B1|]. split; [exact B2|]. rewrite B3, A3, app_length, toks_length, toks_app, <- app_assoc.
      replace (2 * fsize f1 + length (queue s)) with (length (queue s) + 2 * fsize f1) by lia. reflexivity.
    + destruct S2 as (B0 & X & B1). rewrite B0. split; [reflexivity|]. exists (X ++ toks (length (queue s)) f1).
      rewrite B1, A3, app_assoc. reflexivity.
  - destruct S1 as (-> & X & A1). exists (RErr s1). split; [apply runs_andthen_stop; [exact R1|discriminate]|].
    cbn. split; [reflexivity|]. exists X. exact A1.
  - exists (RPanic kk). split; [apply runs_andthen_stop; [exact R1|discriminate]|exact S1].
  - contradiction.
Qed.

(* when the second program cannot fail, the composition still restores on failure *)
Lemma psim_andthen_total (C C2 : Prop) q1 q2 a emit p sg r1 (k : nat -> list str -> sres) : prog_valid q1 ->
  psim C q1 a emit p sg r1 ->
  (forall p1 sg1 f1, r1 = SMatch p1 sg1 f1 -> psim C2 q2 a emit p1 sg1 (k p1 sg1) /\ k p1 sg1 <> SFail) ->
  psim C (PAndThen q1 q2) a emit p sg (sres_bind r1 k).
Proof.
  intros V H1 H2 N s R.
  assert (N1 : r1 <> SFuel) by (intros ->; apply N; reflexivity).
  destruct (H1 N1 s R) as (vr1 & R1 & S1).
  destruct vr1 as [s1|s1|kk|]; cbn in S1.
  - destruct r1 as [p1 sg1 f1| |]; try contradiction. destruct S1 as (A1 & A2 & A3).
    cbn [sres_bind] in *.
    assert (N2 : k p1 sg1 <> SFuel) by (intros Hk; rewrite Hk in N; apply N; reflexivity).
    assert (R' : rep a emit p1 sg1 s1) by (apply (rep_step q1 a emit p sg s s1 p1 sg1 true R V R1 A1 A2)).
    destruct (H2 p1 sg1 f1 eq_refl) as [H2a H2b].
    destruct (H2a N2 s1 R') as (vr2 & R2 & S2).
    exists vr2. split; [eapply runs_andthen_ok; eauto|].
    destruct vr2 as [s2|s2|kk|]; cbn in *; auto.
    + destruct (k p1 sg1) as [p2 sg2 f2| |]; try contradiction. destruct S2 as (B1 & B2 & B3).
      split; [exact B1|]. split; [exact B2|]. rewrite B3, A3, app_length, toks_length, toks_app, <- app_assoc.
      replace (2 * fsize f1 + length (queue s)) with (length (queue s) + 2 * fsize f1) by lia. reflexivity.
    + destruct S2 as (B0 & _). contradiction.
  - destruct S1 as (-> & A). exists (RErr s1). split; [apply runs_andthen_stop; [exact R1|discriminate]|].
    cbn. split; [reflexivity|exact A].
  - exists (RPanic kk). split; [apply runs_andthen_stop; [exact R1|discriminate]|exact S1].
  - contradiction.
Qed.

(* ---------- sequence ---------- *)
Lemma psim_sequence (C : Prop) q a emit p sg r : pbsim q a emit p sg r -> psim C (PSequence q) a emit p sg r.
Proof.
  intros H N s R. pose proof (rep_checkpoint _ _ _ _ _ R) as R0.
  destruct (H N (checkpoint s) R0) as (vr & R1 & S1). pose proof (r_good _ _ _ _ _ R) as G.
  destruct vr as [s1|s1|k|]; cbn in S1.
  - destruct (seq_ok cfg E q s s1 G R1) as (s2 & R2 & B1 & B2 & B3).
    exists (ROk s2). split; [exact R2|]. cbn. destruct r; try contradiction.
    rewrite B1, B2, B3. exact S1.
  - destruct S1 as (-> & X & A1). destruct (seq_err cfg E q s s1 X G R1 A1) as (s2 & R2 & B1 & B2 & B3).
    exists (RErr s2). split; [exact R2|]. cbn. auto.
  - exists (RPanic k). split; [apply seq_panic; [apply (g_lim _ G)|exact R1]|exact S1].
  - contradiction.
Qed.

(* ---------- optional ---------- *)
Lemma psim_optional (C C' : Prop) q a emit p sg r : C -> psim C q a emit p sg r ->
  psim C' (POptional q) a emit p sg (sres_opt p sg r).
Proof.
  intros HC H N s R.
  assert (N1 : r <> SFuel) by (intros ->; apply N; reflexivity).
  destruct (H N1 s R) as (vr & R1 & S1). pose proof (g_lim _ (r_good _ _ _ _ _ R)) as L.
  pose proof (runs_optional cfg E q s vr L R1) as RO.
  destruct vr as [s1|s1|k|]; cbn [opt_fin] in RO; cbn in S1.
  - exists (ROk s1). split; [exact RO|]. destruct r; try contradiction. exact S1.
  - destruct S1 as (-> & A1 & A2 & A3). exists (ROk s1). split; [exact RO|]. cbn.
    rewrite A1, A2, A3 by exact HC. split; [apply (r_pos _ _ _ _ _ R)|]. split; [apply (r_stack _ _ _ _ _ R)|reflexivity].
  - exists (RPanic k). split; [exact RO|exact S1].
  - contradiction.
Qed.

End Toolkit.
