(* C01, part 5b: PEEK[i..j], PEEK_ALL, POP_ALL and tag_node against their Spec clauses.           *)
From Coq Require Import List Arith NArith ZArith Bool Lia.
Import ListNotations.
Require Import PV.Iter.Queue PV.Iter.QueueFacts.
Require Import PV.Stack.Model PV.Stack.Proofs PV.Comb.PState PV.Comb.Bytes PV.Comb.Prog PV.Comb.Exec.
Require Import PV.Comb.Frame PV.Comb.Contracts PV.Comb.Utf8 PV.Comb.Utf8b PV.Comb.Utf8c.
Require Import PV.Peg.Ast PV.Peg.Spec PV.Peg.Refine0 PV.Peg.Refine1 PV.Peg.Refine2 PV.Peg.Refine3 PV.Peg.Refine4 PV.Peg.Refine5.

Arguments Nat.sub : simpl never.
Arguments Nat.mul : simpl never.
Arguments Nat.ltb : simpl never.
Arguments Nat.leb : simpl never.
Arguments Nat.eqb : simpl never.
Arguments skipn : simpl never.
Arguments firstn : simpl never.

Section Prims2.
Variable cfg : config.
Variable E : env.
Variable w : list byte.
Variable pp : bool.
Hypothesis Hcfg : cfg_ok cfg.
Hypothesis HE : env_valid E.

Notation runs := (runs cfg E).
Notation rep := (rep w).
Notation psim := (psim cfg E w pp).
Notation sim_res := (sim_res pp).

(* two primitives with the same state function simulate the same results *)
Lemma psim_prim_ext (C : Prop) o1 o2 a emit p sg r :
  (forall s, exec_prim cfg o1 s = exec_prim cfg o2 s) -> psim C (PPrim o2) a emit p sg r -> psim C (PPrim o1) a emit p sg r.
Proof.
  intros Heq H N s R. destruct (H N s R) as (vr & [Nv [m A]] & S1). exists vr. split; [|exact S1].
  destruct m as [|m]; [cbn in A; congruence|]. cbn [exec] in A.
  apply runs_prim; [rewrite Heq; exact A|exact Nv].
Qed.

(* ---------- PEEK[i..j] in either direction ---------- *)
Definition slice_res (i : Z) (j : option Z) (d : dir) (p : nat) (sg : list (list byte)) : sres :=
  match constrain_idxs i j (length sg) with
  | None => SFail
  | Some (a0, b0) =>
    if Nat.leb b0 a0 then SMatch p sg []
    else match lit_all w (match d with BottomToTop => vslice a0 b0 sg | TopToBottom => rev (vslice a0 b0 sg) end) p with
         | Some q => SMatch q sg []
         | None => SFail
         end
  end.

Lemma psim_peek_slice (C : Prop) i j d a emit p (sg : list (list byte)) :
  psim C (PPrim (MPeekSlice i j d)) a emit p sg (slice_res i j d p sg).
Proof.
  unfold slice_res. destruct (constrain_idxs i j (length sg)) as [[a0 b0]|] eqn:Ec.
  - destruct (Nat.leb b0 a0) eqn:Le.
    + apply psim_prim_gen. intros s R. exists s. cbn [exec_prim]. unfold peek_slice.
      rewrite (r_stack _ _ _ _ _ _ R), Ec, Le.
      split; [reflexivity|]. split; [apply (r_pos _ _ _ _ _ _ R)|]. split; reflexivity.
    + destruct d; (destruct (lit_all w _ p) as [q|] eqn:La;
      [ apply psim_prim_gen; intros s R; cbn [exec_prim]; unfold peek_slice;
        rewrite (r_stack _ _ _ _ _ _ R), Ec, Le, (r_input _ _ _ _ _ _ R), (r_pos _ _ _ _ _ _ R), match_all_lit_all;
        cbv zeta; rewrite La; eexists; (split; [reflexivity|]); cbn;
        split; [reflexivity|]; split; [reflexivity|apply (r_stack _ _ _ _ _ _ R)]
      | apply psim_prim_err; intros s R; cbn [exec_prim]; unfold peek_slice;
        rewrite (r_stack _ _ _ _ _ _ R), Ec, Le, (r_input _ _ _ _ _ _ R), (r_pos _ _ _ _ _ _ R), match_all_lit_all;
        cbv zeta; rewrite La; exists s; repeat split; auto; try apply (r_pos _ _ _ _ _ _ R); intros _; apply (r_stack _ _ _ _ _ _ R) ]).
  - apply psim_prim_err. intros s R. cbn [exec_prim]. unfold peek_slice. rewrite (r_stack _ _ _ _ _ _ R), Ec.
    exists s. repeat split; auto; try apply (r_pos _ _ _ _ _ _ R); intros _; apply (r_stack _ _ _ _ _ _ R).
Qed.

(* the Spec clause of PEEK[i..j] is that function (bottom to top) *)
Lemma spec_peek_slice i j p (sg : list (list byte)) :
  (let len := length sg in
   match norm_idx i len, (match j with None => Some len | Some j' => norm_idx j' len end) with
   | Some s0, Some e0 =>
       if Nat.leb e0 s0 then SMatch p sg []
       else match lit_all w (firstn (e0 - s0) (skipn s0 (rev sg))) p with Some q => SMatch q sg [] | None => SFail end
   | _, _ => SFail
   end) = slice_res i j BottomToTop p sg.
Proof.
  cbv zeta. unfold slice_res, constrain_idxs. change (normalize_index i (length sg)) with (norm_idx i (length sg)).
  destruct (norm_idx i (length sg)) as [s0|]; [|reflexivity].
  destruct j as [j'|].
  - change (normalize_index j' (length sg)) with (norm_idx j' (length sg)).
    destruct (norm_idx j' (length sg)) as [e0|]; reflexivity.
  - reflexivity.
Qed.

(* PEEK_ALL = PEEK[0..] from the top *)
Lemma spec_peek_all p (sg : list (list byte)) :
  match lit_all w sg p with Some q => SMatch q sg [] | None => SFail end = slice_res 0%Z None TopToBottom p sg.
Proof.
  unfold slice_res, constrain_idxs, normalize_index.
  destruct (Z.ltb_spec (Z.of_nat (length sg)) 0); [lia|]. cbn [Z.leb Z.compare Z.to_nat].
  destruct (Nat.leb (length sg) 0) eqn:Le.
  - apply Nat.leb_le in Le. destruct sg; [reflexivity|cbn in Le; lia].
  - unfold vslice. rewrite Nat.sub_0_r. change (skipn 0 (rev sg)) with (rev sg).
    rewrite <- rev_length, firstn_all, rev_involutive. reflexivity.
Qed.

Lemma psim_peek_all (C : Prop) a emit p sg :
  psim C (PPrim MStackMatchPeek) a emit p sg (match lit_all w sg p with Some q => SMatch q sg [] | None => SFail end).
Proof.
  rewrite spec_peek_all. apply (psim_prim_ext C _ (MPeekSlice 0%Z None TopToBottom)); [reflexivity|apply psim_peek_slice].
Qed.

(* ---------- POP_ALL ---------- *)
Lemma match_pop_loop_spec : forall fuel (st : stk (list byte)) p, length (cache st) < fuel ->
  match lit_all w (cache st) p with
  | Some q => exists st', match_pop_loop fuel w st p = Some (st', q, true) /\ cache st' = []
  | None => exists st' p', match_pop_loop fuel w st p = Some (st', p', false)
  end.
Proof.
  induction fuel as [|fuel IH]; intros st p Hl; [lia|]. cbn [match_pop_loop].
  destruct (pop_cache st) as [P1 P2]. destruct (pop st) as [st1 o]. cbn [fst snd] in P1, P2.
  destruct (cache st) as [|x c] eqn:Ec; cbn in P2; subst o.
  - cbn [lit_all]. exists st1. cbn in P1. auto.
  - cbn [lit_all]. unfold match_string, lit. destruct (prefixb x (skipn p w)).
    + cbn in P1. specialize (IH st1 (p + length x)). rewrite P1 in IH. apply IH. cbn in Hl. lia.
    + eauto.
Qed.

Lemma psim_pop_all a emit p sg :
  psim False (PPrim MStackMatchPop) a emit p sg (match lit_all w sg p with Some q => SMatch q [] [] | None => SFail end).
Proof.
  destruct (lit_all w sg p) as [q|] eqn:La.
  - apply psim_prim_gen. intros s R. cbn [exec_prim].
    pose proof (match_pop_loop_spec (S (length (cache (stack s)))) (stack s) (pos s) (Nat.lt_succ_diag_r _)) as M.
    rewrite (r_stack _ _ _ _ _ _ R), (r_pos _ _ _ _ _ _ R), La in M. destruct M as (st' & M & Hc).
    rewrite (r_input _ _ _ _ _ _ R), (r_stack _ _ _ _ _ _ R), (r_pos _ _ _ _ _ _ R), M.
    eexists. split; [reflexivity|]. cbn. auto.
  - apply psim_prim_err. intros s R. cbn [exec_prim].
    pose proof (match_pop_loop_spec (S (length (cache (stack s)))) (stack s) (pos s) (Nat.lt_succ_diag_r _)) as M.
    rewrite (r_stack _ _ _ _ _ _ R), (r_pos _ _ _ _ _ _ R), La in M. destruct M as (st' & p' & M).
    rewrite (r_input _ _ _ _ _ _ R), (r_stack _ _ _ _ _ _ R), (r_pos _ _ _ _ _ _ R), M.
    eexists. split; [reflexivity|]. cbn. split; [apply (r_pos _ _ _ _ _ _ R)|]. split; [reflexivity|contradiction].
Qed.

End Prims2.
