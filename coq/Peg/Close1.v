(* C01, closing part 1: the optimizer's output, seen through `embed`, IS the output of the AST passes:
   embed (to_optimized e) = e, embed erases what restore_on_err adds; names are kept by every pass;
   literal validity survives the six passes; the two "built-in name" predicates agree; unique names
   from the validator's verdict.                                                                   *)
From Coq Require Import List Arith NArith ZArith Bool String Lia.
Import ListNotations.
Require Import PV.Comb.PState PV.Comb.Bytes PV.Comb.Utf8 PV.Peg.Ast PV.Peg.Spec.
Require Import PV.Opt.Sem PV.Opt.SemCong PV.Opt.MapExpr PV.Opt.MapExprProofs PV.Opt.Rotate PV.Opt.Skip PV.Opt.Unroll PV.Opt.Concat
  PV.Opt.Factor PV.Opt.List PV.Opt.Restore PV.Opt.Pipeline PV.Opt.PassProofs PV.Opt.Statement PV.Opt.SkipProofs
  PV.Opt.ConcatProofs PV.Opt.PipelineProofs.
Require Import PV.Valid.Validator.
Require Import PV.Peg.Refine0 PV.Peg.Refine6.

(* ---------- embed inverts to_optimized and erases RestoreOnErr ---------- *)
Lemma embed_to_optimized extras : forall e o, to_optimized extras e = Some o -> embed o = e.
Proof.
  induction e; intros o H; cbn [to_optimized] in H; try (injection H as <-; reflexivity); try discriminate;
    try (destruct (to_optimized extras e) as [y|]; [|discriminate]; injection H as <-; cbn [embed]; now rewrite (IHe y)).
  - destruct (to_optimized extras e1) as [y1|]; [|discriminate]. destruct (to_optimized extras e2) as [y2|]; [|discriminate].
    injection H as <-. cbn [embed]. now rewrite (IHe1 y1), (IHe2 y2).
  - destruct (to_optimized extras e1) as [y1|]; [|discriminate]. destruct (to_optimized extras e2) as [y2|]; [|discriminate].
    injection H as <-. cbn [embed]. now rewrite (IHe1 y1), (IHe2 y2).
  - destruct extras; [|discriminate]. destruct (to_optimized true e) as [y|]; [|discriminate]. injection H as <-.
    cbn [embed]. now rewrite (IHe y).
Qed.

Lemma embed_wrap_if fp fm rules x : embed (wrap_if fp fm rules x) = embed x.
Proof. unfold wrap_if. destruct (child_modifies_state fp fm rules x); reflexivity. Qed.

Lemma embed_wrap_branching fp fm rules e : embed (wrap_branching_exprs fp fm rules e) = embed e.
Proof. destruct e; cbn [wrap_branching_exprs embed]; rewrite ?embed_wrap_if; reflexivity. Qed.

Lemma embed_restore fp fm rules : forall e, embed (restore_expr fp fm rules e) = embed e.
Proof.
  unfold restore_expr. induction e; cbn [omap_bottom_up]; rewrite embed_wrap_branching; cbn [embed]; try reflexivity;
    try (now rewrite IHe); try (now rewrite IHe1, IHe2).
  - destruct fm; cbn [embed]; [now rewrite IHe|reflexivity].
  - destruct fm; cbn [embed]; [now rewrite IHe|reflexivity].
Qed.

Lemma embed_rule_eta r : {| rname := rname r; rty := rty r; rexpr := rexpr r |} = r.
Proof. destruct r; reflexivity. Qed.

Lemma embed_g_map_orules extras : forall G OG, map_orules (rule_to_optimized_rule extras) G = Some OG -> embed_g OG = G.
Proof.
  induction G as [|r G IH]; intros OG H; cbn [map_orules] in H.
  - injection H as <-. reflexivity.
  - unfold rule_to_optimized_rule in H at 1. destruct (to_optimized extras (rexpr r)) as [o|] eqn:Eo; [|discriminate].
    cbn [option_map obind] in H. destruct (map_orules (rule_to_optimized_rule extras) G) as [OG'|]; [|discriminate].
    cbn [obind] in H. injection H as <-. cbn [embed_g map]. fold (embed_g OG'). rewrite (IH OG' eq_refl).
    unfold embed_rule. cbn [oname oty oexpr_of]. rewrite (embed_to_optimized extras _ _ Eo), embed_rule_eta. reflexivity.
Qed.

Lemma embed_g_restore_all fp fm OG : embed_g (restore_all fp fm OG) = embed_g OG.
Proof.
  unfold restore_all, embed_g. rewrite map_map. apply map_ext. intros r.
  unfold embed_rule, restore_rule. cbn [oname oty oexpr_of]. now rewrite embed_restore.
Qed.

(* the optimizer, decomposed *)
Lemma optimize_inv ovf extras fp fm G OG : optimize ovf extras fp fm G = Some OG ->
  exists G6 OG0, optimize_ast ovf extras G = Some G6 /\ map_orules (rule_to_optimized_rule extras) G6 = Some OG0 /\
                 OG = restore_all fp fm OG0 /\ embed_g OG = G6.
Proof.
  unfold optimize, to_optimized_rules. destruct (optimize_ast ovf extras G) as [G6|]; [|discriminate]. cbn [obind].
  destruct (map_orules (rule_to_optimized_rule extras) G6) as [OG0|] eqn:Em; [|discriminate]. cbn [option_map]. cbv beta iota.
  intros [= <-]. exists G6, OG0. split; [reflexivity|]. split; [exact Em|]. split; [reflexivity|]. rewrite embed_g_restore_all. exact (embed_g_map_orules extras G6 OG0 Em).
Qed.

(* ---------- names and rule types are kept by the six passes ---------- *)
Lemma pipeline_rule_sig ovf extras M r r' : ast_pipeline_rule ovf extras M r = Some r' -> rname r' = rname r /\ rty r' = rty r.
Proof.
  unfold ast_pipeline_rule. intros H.
  destruct (rotate_rule r) as [r1|] eqn:E1; [|discriminate]. cbn [obind] in H.
  destruct (skip_rule M r1) as [r2|] eqn:E2; [|discriminate]. cbn [obind] in H.
  destruct (unroll_rule ovf extras r2) as [r3|] eqn:E3; [|discriminate]. cbn [obind] in H.
  destruct (concat_rule r3) as [r4|] eqn:E4; [|discriminate]. cbn [obind] in H.
  destruct (factor_rule r4) as [r5|] eqn:E5; [|discriminate]. cbn [obind] in H.
  apply with_expr_sig in E1, E2, E3, E4, E5, H. intuition congruence.
Qed.

Lemma optimize_ast_names ovf extras G G6 : optimize_ast ovf extras G = Some G6 -> map rname G6 = map rname G.
Proof.
  intros H. apply map_rules_F2 in H.
  exact (F2_names (ast_pipeline_rule ovf extras G) (pipeline_rule_sig ovf extras G) G G6 H).
Qed.

Lemma has_rule_names G G' : map rname G' = map rname G -> forall n, has_rule G' n = has_rule G n.
Proof.
  revert G'. induction G as [|r G IH]; intros [|r' G'] H n; try discriminate; [reflexivity|].
  cbn [map] in H. injection H as Hn Ht. unfold has_rule in *. cbn [find_rule]. specialize (IH G' Ht n).
  destruct (find_rule G' n), (find_rule G n); try discriminate; auto. rewrite Hn. destruct (str_eqb (rname r) n); reflexivity.
Qed.

(* ---------- literal validity along the whole pipeline ---------- *)
Lemma factor_fn_lits ty e : Forall valid_utf8 (estrs e) -> Forall valid_utf8 (estrs (factor_fn ty e)).
Proof.
  intros V. unfold factor_fn. destruct e; try exact V.
  destruct e1; try exact V; destruct e2; try exact V;
    repeat match goal with |- context [if ?c then _ else _] => destruct c end; try exact V;
    cbn [estrs] in *; repeat (rewrite Forall_app in *); intuition.
Qed.

Lemma factor_gvalid G G' : gvalid G -> map_rules factor_rule G = Some G' -> gvalid G'.
Proof.
  apply gvalid_step. intros r r' H V. apply with_expr_inv in H. unfold factor_expr in H.
  eapply (map_top_down_lits valid_utf8 (fun x => Some (factor_fn (rty r) x))); [|exact V|exact H].
  intros x y Vx [= <-]. now apply factor_fn_lits.
Qed.

Lemma list_fn_lits e : Forall valid_utf8 (estrs e) -> Forall valid_utf8 (estrs (list_fn e)).
Proof.
  intros V. unfold list_fn. destruct e; try exact V. destruct e1; try exact V. destruct e1; try exact V.
  destruct (expr_eqb e1_1 e2); [|exact V]. cbn [estrs] in *. repeat (rewrite Forall_app in *). intuition.
Qed.

Lemma list_gvalid G G' : gvalid G -> map_rules list_rule G = Some G' -> gvalid G'.
Proof.
  apply gvalid_step. intros r r' H V. apply with_expr_inv in H. unfold list_expr in H.
  eapply (map_bottom_up_lits valid_utf8 (fun x => Some (list_fn x))); [|exact V|exact H].
  intros x y Vx [= <-]. now apply list_fn_lits.
Qed.

Lemma optimize_ast_gvalid ovf extras G G6 : literals_valid G -> optimize_ast ovf extras G = Some G6 -> literals_valid G6.
Proof.
  intros V H. destruct (optimize_ast_stages _ _ _ _ H) as (G1 & G2 & G3 & G4 & G5 & H1 & H2 & H3 & H4 & H5 & H6 & _).
  assert (V1 := rotate_gvalid _ _ V H1).
  assert (V2 : literals_valid G2) by (eapply skip_gvalid; eauto; now apply gvalid_map).
  assert (V3 := unroll_gvalid _ _ _ _ V2 H3).
  assert (V4 := concat_gvalid _ _ V3 H4). assert (V5 := factor_gvalid _ _ V4 H5). exact (list_gvalid _ _ V5 H6).
Qed.

Lemma lits_valid_of_estrs : forall o, Forall valid_utf8 (estrs (embed o)) -> lits_valid o.
Proof.
  induction o; cbn [embed estrs lits_valid]; auto; intros H;
    try (inversion H; subst; assumption);
    try (apply Forall_app in H; destruct H; split; auto).
Qed.

(* ---------- the two predicates for hard-coded names ---------- *)
Lemma is_builtin_builtin_name n : is_builtin n = true -> builtin_name n = true.
Proof.
  intros B. apply builtin_in in B. unfold builtin_names in B. cbn [In] in B.
  repeat (destruct B as [<-|B]); try contradiction; reflexivity.
Qed.

(* ---------- unique names from the validator's verdict ---------- *)
Lemma mem_In n l : mem n l = true <-> In n l.
Proof.
  unfold mem. rewrite existsb_exists. split.
  - intros (x & Hx & E). apply Refine6.str_eqb_eq in E. now subst.
  - intros H. exists n. split; [exact H|apply Refine6.str_eqb_refl].
Qed.

Lemma already_defined_nodup l : forall seen, already_defined seen l = [] -> NoDup l /\ forall x, In x l -> ~ In x seen.
Proof.
  induction l as [|n l IH]; intros seen H; [split; [constructor|intros x []]|].
  cbn [already_defined] in H. destruct (mem n seen) eqn:M; [discriminate|].
  destruct (IH (n :: seen) H) as [ND Hs]. split.
  - constructor; [|exact ND]. intros Hin. apply (Hs n Hin). now left.
  - intros x [<-|Hx] Hc.
    + apply mem_In in Hc. congruence.
    + apply (Hs x Hx). now right.
Qed.

Lemma validate_unique kw builtin vcfg G : validate kw builtin vcfg G = [] -> NoDup (map rname G).
Proof.
  unfold validate. destruct (validate_pairs kw builtin G) eqn:Ep; [|discriminate]. intros _.
  unfold validate_pairs in Ep. apply app_eq_nil in Ep. destruct Ep as [_ Ep]. apply app_eq_nil in Ep. destruct Ep as [Ep _].
  exact (proj1 (already_defined_nodup _ _ Ep)).
Qed.
