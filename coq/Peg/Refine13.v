(* C01, part 13: `vm_terminates_spec`: if the VM returns (Ok / Err) on an expression of the fragment within
   fuel m, the Spec evaluation with fuel m is definite.  By induction on m, following the VM run with the
   forward simulation.                                                                               *)
From Coq Require Import List Arith NArith ZArith Bool String Lia.
Import ListNotations.
Require Import PV.Iter.Queue PV.Iter.QueueFacts.
Require Import PV.Stack.Model PV.Stack.Proofs PV.Comb.PState PV.Comb.Bytes PV.Comb.Prog PV.Comb.Exec.
Require Import PV.Comb.Frame PV.Comb.Contracts PV.Comb.Utf8 PV.Comb.Utf8b PV.Comb.Utf8c.
Require Import PV.Peg.Ast PV.Peg.Spec PV.Peg.SpecFacts PV.Peg.VmCompile.
Require Import PV.Peg.Refine0 PV.Peg.Refine1 PV.Peg.Refine2 PV.Peg.Refine3 PV.Peg.Refine4 PV.Peg.Refine5 PV.Peg.Refine5b
  PV.Peg.Refine6 PV.Peg.Refine7 PV.Peg.Refine8 PV.Peg.Refine9 PV.Peg.Refine12.

Arguments Nat.sub : simpl never.
Arguments Nat.mul : simpl never.
Arguments Nat.ltb : simpl never.
Arguments Nat.leb : simpl never.
Arguments Nat.eqb : simpl never.
Arguments skipn : simpl never.
Arguments firstn : simpl never.

(* Spec results of the leaves are never SFuel *)
Lemma one_char_def w ok p sg : one_char w ok p sg <> SFuel.
Proof. unfold one_char. destruct (char_here w p) as [[c n]|]; [destruct (ok c)|]; discriminate. Qed.
Lemma lit_def w s p (sg' : list str) : match lit w s p with Some q => SMatch q sg' [] | None => SFail end <> SFuel.
Proof. destruct (lit w s p); discriminate. Qed.
Lemma lit_all_def w l p (sg' : list str) : match lit_all w l p with Some q => SMatch q sg' [] | None => SFail end <> SFuel.
Proof. destruct (lit_all w l p); discriminate. Qed.
Lemma ite_def (b : bool) p (sg : list str) f : (if b then SMatch p sg f else SFail) <> SFuel.
Proof. destruct b; discriminate. Qed.

Section TermMain.
Variable OG : ogrammar.
Variable extras : bool.
Variable uranges : name -> option (list (N * N)).
Variable pp : bool.
Variable cfg : config.
Variable w : list byte.
Hypothesis Hcfg : cfg_ok cfg.
Hypothesis HG : grammar_ok OG extras uranges pp.

Notation G := (embed_g OG).
Notation E := (vm_env OG uranges).
Notation ev := (eval G extras (uprop uranges) w).
Notation psim := (psim cfg E w pp).
Notation pbsim := (pbsim cfg E w pp).
Notation tdef := (tdef cfg E w).
Notation vm_expr := (vm_expr OG uranges).
Notation vm_call := (vm_call OG uranges).
Notation vm_skip := (vm_skip OG uranges).
Notation in_fragment := (in_fragment OG extras uranges pp).
Notation K := (K OG).
Notation Cl := (Cl OG).
Notation ClS := (ClS OG).
Notation HE := (HE OG extras uranges pp HG).
Notation fwd := (vm_refines_spec_psim OG extras uranges pp cfg w Hcfg HG).

Definition term_at (m : nat) : Prop :=
  forall e a emit p sg, in_fragment e = true -> rokP OG K e -> lits_valid e ->
    tdef (vm_expr e) a emit p sg (ev m a emit (embed e) p sg) m.

Lemma builtin_definite f n a emit p sg : is_builtin n = true -> ev (S f) a emit (EIdent n) p sg <> SFuel.
Proof.
  intros B. apply builtin_in in B. unfold builtin_names in B. cbn [In] in B.
  repeat (destruct B as [<-|B]); try contradiction; try exact (one_char_def w _ p sg).
  - (* EOI *) exact (ite_def _ _ _ _).
  - (* SOI *) exact (ite_def _ _ _ _).
  - (* PEEK *) change (match sg with top :: _ => match lit w top p with Some q => SMatch q sg [] | None => SFail end | [] => SFail end <> SFuel).
    destruct sg; [discriminate|apply lit_def].
  - (* PEEK_ALL *) exact (lit_all_def w sg p sg).
  - (* POP *) change (match sg with top :: r => match lit w top p with Some q => SMatch q r [] | None => SFail end | [] => SFail end <> SFuel).
    destruct sg; [discriminate|apply lit_def].
  - (* POP_ALL *) exact (lit_all_def w sg p []).
  - (* DROP *) change (match sg with _ :: r => SMatch p r [] | [] => SFail end <> SFuel). destruct sg; discriminate.
  - (* NEWLINE *)
    change (match lit w [10%N] p with Some q => SMatch q sg [] | None =>
            match lit w [13%N; 10%N] p with Some q => SMatch q sg [] | None =>
            match lit w [13%N] p with Some q => SMatch q sg [] | None => SFail end end end <> SFuel).
    destruct (lit w [10%N] p), (lit w [13%N; 10%N] p), (lit w [13%N] p); discriminate.
Qed.

(* a call of a defined rule, as a loop body *)
Lemma term_rule_call m n a emit p sg : term_at m -> has_orule OG n = true -> is_builtin n = false ->
  tdef (vm_call n) a emit p sg (ev m a emit (EIdent n) p sg) m.
Proof.
  intros IH Hr NB. apply (IH (OIdent n)); [|exact Logic.I|exact Logic.I].
  cbn [Refine6.in_fragment]. unfold ident_ok. rewrite NB, Hr. reflexivity.
Qed.

Lemma term_many m n a emit p sg : term_at m -> has_orule OG n = true -> is_builtin n = false ->
  fclean OG K (OIdent n) = true ->
  tdef (PRepeat (vm_call n)) a emit p sg (many_with (ev m) m a emit n p sg []) m.
Proof.
  intros IH Hr NB Hc. unfold many_with. apply (tdef_le cfg E w _ _ _ _ _ _ (S m)); [lia|]. apply tdef_repeat.
  apply (tdef_loop cfg E w pp Hcfg HE (vm_call n) a emit (fun p0 sg0 => ev m a emit (EIdent n) p0 sg0) m); [apply pv_call| | |lia].
  - intros p0 sg0. apply sim_rule_call; auto. apply fwd.
  - intros p0 sg0. now apply term_rule_call.
Qed.

(* forward simulation of the `COMMENT ~ WHITESPACE*` unit of the implicit skip *)
Lemma sim_cm_unit m emit p sg :
  has_orule OG (nm "WHITESPACE") = true -> has_orule OG (nm "COMMENT") = true ->
  psim True (PSequence (PAndThen (vm_call (nm "COMMENT")) (PRepeat (vm_call (nm "WHITESPACE"))))) NonAtomic emit p sg
    (sres_bind (ev m NonAtomic emit (EIdent (nm "COMMENT")) p sg)
       (fun p2 sg2 => many_with (ev m) m NonAtomic emit (nm "WHITESPACE") p2 sg2 [])).
Proof.
  intros HW HC. apply psim_sequence. apply pbsim_andthen; [exact Hcfg|exact HE|apply pv_call| |].
  - eapply psim_pbsim. apply sim_rule_call; auto using cm_nb; [apply fwd|apply (go_cm _ _ _ _ HG HC)].
  - intros p2 sg2 f2 _. eapply psim_pbsim. apply sim_many; auto using ws_nb; [apply fwd|apply (go_ws _ _ _ _ HG HW)].
Qed.

Lemma term_skip m a emit p sg : term_at m -> tdef vm_skip a emit p sg (skip_with G (ev m) m a emit p sg) m.
Proof.
  intros IH. unfold skip_with, VmCompile.vm_skip. rewrite !has_rule_embed.
  pose proof (go_ws _ _ _ _ HG) as CW. pose proof (go_cm _ _ _ _ HG) as CC.
  destruct (has_orule OG (nm "WHITESPACE")) eqn:HW, (has_orule OG (nm "COMMENT")) eqn:HC.
  - (* both *)
    destruct a; cbn [atom_eqb negb]; try (apply tdef_definite; discriminate).
    rewrite skip_tt_eq. apply (tdef_le cfg E w _ _ _ _ _ _ (S (S (S m)))); [lia|]. apply tdef_ifna. cbn [atom_eqb].
    apply tdef_sequence. apply (tdef_andthen cfg E w pp Hcfg HE); [apply pv_call| | |].
    + eapply psim_pbsim. apply sim_many; auto using ws_nb. apply fwd.
    + apply term_many; auto using ws_nb.
    + intros p1 sg1 f1 _. apply (tdef_le cfg E w _ _ _ _ _ _ (S m)); [lia|]. apply tdef_repeat.
      apply (tdef_loop cfg E w pp Hcfg HE _ NonAtomic emit
               (fun p0 sg0 => sres_bind (ev m NonAtomic emit (EIdent (nm "COMMENT")) p0 sg0)
                                (fun p2 sg2 => many_with (ev m) m NonAtomic emit (nm "WHITESPACE") p2 sg2 [])) m); [| | |lia].
      * cbn. split; apply pv_call.
      * intros p0 sg0. now apply sim_cm_unit.
      * intros p0 sg0. apply (tdef_le cfg E w _ _ _ _ _ _ (S (S m))); [lia|]. apply tdef_sequence.
        apply (tdef_andthen cfg E w pp Hcfg HE); [apply pv_call| | |].
        -- eapply psim_pbsim. apply sim_rule_call; auto using cm_nb. apply fwd.
        -- apply term_rule_call; auto using cm_nb.
        -- intros p2 sg2 f2 _. apply term_many; auto using ws_nb.
  - destruct a; cbn [atom_eqb negb]; try (apply tdef_definite; discriminate).
    apply (tdef_le cfg E w _ _ _ _ _ _ (S m)); [lia|]. apply tdef_ifna. cbn [atom_eqb]. apply term_many; auto using ws_nb.
  - destruct a; cbn [atom_eqb negb]; try (apply tdef_definite; discriminate).
    apply (tdef_le cfg E w _ _ _ _ _ _ (S m)); [lia|]. apply tdef_ifna. cbn [atom_eqb]. apply term_many; auto using cm_nb.
  - apply tdef_definite. destruct (negb _); discriminate.
Qed.

Lemma term_rep_unit m x a emit p sg : term_at m ->
  in_fragment x = true -> rokP OG K x -> lits_valid x ->
  tdef (PSequence (PAndThen vm_skip (vm_expr x))) a emit p sg (rep_unit G (ev m) m a emit (embed x) p sg) m.
Proof.
  intros IH Fx Rx Lx. apply (tdef_le cfg E w _ _ _ _ _ _ (S (S m))); [lia|]. apply tdef_sequence.
  change (rep_unit G (ev m) m a emit (embed x) p sg) with
    (sres_bind (skip_with G (ev m) m a emit p sg) (fun p1 sg1 => ev m a emit (embed x) p1 sg1)).
  apply (tdef_andthen cfg E w pp Hcfg HE); [apply pv_skip| | |].
  - eapply psim_pbsim. apply sim_skip; auto. apply fwd.
  - now apply term_skip.
  - intros p1 sg1 f1 _. now apply IH.
Qed.

Lemma term_rep_loop m x a emit p sg : term_at m ->
  in_fragment x = true -> rokP OG K x -> lits_valid x ->
  tdef (PRepeat (PSequence (PAndThen vm_skip (vm_expr x)))) a emit p sg
    (loop m (rep_unit G (ev m) m a emit (embed x)) p sg []) m.
Proof.
  intros IH Fx Rx Lx. apply (tdef_le cfg E w _ _ _ _ _ _ (S m)); [lia|]. apply tdef_repeat.
  apply (tdef_loop cfg E w pp Hcfg HE _ a emit (rep_unit G (ev m) m a emit (embed x)) m); [| | |lia].
  - cbn. split; [apply pv_skip|now apply pvx].
  - intros p0 sg0. apply sim_rep_unit; auto. apply fwd.
  - intros p0 sg0. now apply term_rep_unit.
Qed.

Ltac definite :=
  apply tdef_definite; cbn [eval]; unfold one_char, char_here, lit;
  repeat match goal with
         | |- context [match ?x with _ => _ end] => destruct x
         end; discriminate.

Lemma term_user m n a emit p sg : term_at m -> is_builtin n = false -> ident_ok OG uranges pp n = true ->
  tdef (vm_call n) a emit p sg (ev (S m) a emit (EIdent n) p sg) (S m).
Proof.
  intros IH NB IO. rewrite (eval_user OG extras uranges w m a emit n p sg NB), (vm_call_user OG uranges n NB).
  unfold ident_ok in IO. rewrite NB in IO. unfold has_orule in *.
  destruct (find_orule OG n) as [r|] eqn:Ef.
  - destruct (find_orule_some OG n r Ef) as [Hin Hn].
    pose proof (go_frag _ _ _ _ HG r Hin) as Fr. pose proof (go_rok _ _ _ _ HG r Hin) as Ro.
    pose proof (go_lits _ _ _ _ HG r Hin) as Li.
    assert (B : forall a2, tdef (vm_expr (oexpr_of r)) a2 emit p sg (ev m a2 emit (embed (oexpr_of r)) p sg) m).
    { intros a2. apply IH; assumption. }
    apply (tdef_call cfg E w _ (vm_rule_body OG uranges r)); [apply env_lookup; [apply (go_nodup _ _ _ _ HG)|exact Ef]|].
    unfold vm_rule_body. rewrite Hn. change (is_special_name n) with (is_special n).
    unfold rule_mode. destruct (is_special n), (oty r);
      try (apply (tdef_le cfg E w _ _ _ _ _ _ (S (S m))); [lia|apply tdef_rule, tdef_atomic, B]);
      try (apply (tdef_le cfg E w _ _ _ _ _ _ (S (S m))); [lia|apply tdef_atomic, tdef_rule, B]).
    + apply (tdef_le cfg E w _ _ _ _ _ _ (S m)); [lia|]. rewrite sres_node_false. apply tdef_atomic, B.
    + apply (tdef_le cfg E w _ _ _ _ _ _ (S m)); [lia|]. apply tdef_rule, B.
    + apply (tdef_le cfg E w _ _ _ _ _ _ m); [lia|]. rewrite sres_node_false. apply B.
  - cbn [orb] in IO. destruct (uranges n) as [rs|]; [|discriminate]. apply tdef_definite. apply one_char_def.
Qed.

Lemma term_step m : term_at m -> term_at (S m).
Proof.
  intros IH e a emit p sg Fr Ro Li.
  destruct e; cbn [embed VmCompile.vm_expr]; cbn [Refine6.in_fragment Refine6.rokP lits_valid] in Fr, Ro, Li.
  - (* OStr *) definite.
  - (* OInsens *) definite.
  - (* ORange *) definite.
  - (* OIdent *)
    destruct (is_builtin n) eqn:B.
    + apply tdef_definite. now apply builtin_definite.
    + now apply term_user.
  - (* OPeekSlice *)
    apply tdef_definite. cbn [eval]. rewrite (spec_peek_slice w). unfold slice_res.
    destruct (constrain_idxs _ _ _) as [[a0 b0]|]; [|discriminate]. destruct (Nat.leb b0 a0); [discriminate|].
    destruct (lit_all _ _ _); discriminate.
  - (* OPosPred *) cbn [eval]. apply (tdef_lookahead cfg E w true). now apply IH.
  - (* ONegPred *) cbn [eval]. apply (tdef_lookahead cfg E w false). now apply IH.
  - (* OSeq *)
    apply andb_true_iff in Fr. destruct Fr as [F1 F2]. destruct Ro as [R1 R2]. destruct Li as [L1 L2].
    assert (PB : forall p0 sg0, pbsim (PAndThen (vm_expr e1) vm_skip) a emit p0 sg0
                   (sres_bind (ev m a emit (embed e1) p0 sg0) (fun p1 sg1 => skip_with G (ev m) m a emit p1 sg1))).
    { intros p0 sg0. apply pbsim_andthen; [exact Hcfg|exact HE|now apply pvx| |].
      - eapply psim_pbsim. now apply fwd.
      - intros p1 sg1 f1 _. eapply psim_pbsim. apply sim_skip; auto. apply fwd. }
    eapply tdef_eq; [|apply (tdef_le cfg E w _ _ _ _ _ _ (S (S m))); [lia|]; apply tdef_sequence;
      apply (tdef_andthen cfg E w pp Hcfg HE _ _ a emit p sg
               (sres_bind (ev m a emit (embed e1) p sg) (fun p1 sg1 => skip_with G (ev m) m a emit p1 sg1))
               (fun p2 sg2 => ev m a emit (embed e2) p2 sg2));
      [cbn; split; [now apply pvx|apply pv_skip]
      |apply PB
      |apply (tdef_le cfg E w _ _ _ _ _ _ (S m)); [lia|];
       apply (tdef_andthen cfg E w pp Hcfg HE _ _ a emit p sg (ev m a emit (embed e1) p sg)
                (fun p1 sg1 => skip_with G (ev m) m a emit p1 sg1));
        [now apply pvx
        |eapply psim_pbsim; now apply fwd
        |now apply IH
        |intros p1 sg1 f1 _; now apply term_skip]
      |intros p2 sg2 f2 _; now apply IH]].
    cbn [eval]. destruct (eval _ _ _ _ m a emit (embed e1) p sg) as [p1 sg1 f1| |]; cbn [sres_bind]; auto.
    destruct (skip_with _ _ _ _ _ _ _) as [p2 sg2 f2| |]; cbn [sres_bind]; auto.
    destruct (eval _ _ _ _ m a emit (embed e2) p2 sg2) as [p3 sg3 f3| |]; cbn [sres_bind]; auto.
    now rewrite app_assoc.
  - (* OChoice *)
    apply andb_true_iff in Fr. destruct Fr as [F1 F2]. destruct Ro as (R1 & R2 & R3). destruct Li as [L1 L2].
    cbn [eval].
    apply (tdef_orelse cfg E w pp Hcfg HE (ClS e1)); [now apply pvx|now apply cls_of_cleanP|now apply fwd|now apply IH|now apply IH].
  - (* OOpt *)
    destruct Ro as [R1 R2]. cbn [eval]. apply tdef_optional. now apply IH.
  - (* ORep *)
    destruct Ro as [R1 R2]. cbn [eval]. unfold rep_from_with. rewrite rep_eq.
    apply (tdef_le cfg E w _ _ _ _ _ _ (S (S (S m)))); [lia|].
    apply tdef_sequence. apply tdef_optional.
    apply (tdef_andthen cfg E w pp Hcfg HE); [now apply pvx| | |].
    + eapply psim_pbsim. now apply fwd.
    + now apply IH.
    + intros p1 sg1 f1 _. now apply term_rep_loop.
  - (* ORepOnce *)
    apply andb_true_iff in Fr. destruct Fr as [Hx F1]. cbn [eval]. rewrite (if_true_eq extras _ _ Hx).
    unfold rep_from_with. rewrite rep_once_eq.
    apply (tdef_le cfg E w _ _ _ _ _ _ (S (S m))); [lia|].
    apply tdef_sequence. apply (tdef_andthen cfg E w pp Hcfg HE); [now apply pvx| | |].
    + eapply psim_pbsim. now apply fwd.
    + now apply IH.
    + intros p1 sg1 f1 _. now apply term_rep_loop.
  - (* OSkip *) apply tdef_definite. cbn [eval]. discriminate.
  - (* OPush *) cbn [eval]. apply tdef_push. now apply IH.
  - (* OPushLiteral *) apply tdef_definite. cbn [eval]. discriminate.
  - (* ONodeTag *)
    apply andb_true_iff in Fr. destruct Fr as [F1 F2]. cbn [eval]. apply tdef_tag. now apply IH.
  - (* ORestoreOnErr *)
    apply (tdef_impl cfg E w _ _ _ _ _ (ev m a emit (embed e) p sg)).
    + intros N. rewrite (eval_mono G extras (uprop uranges) w m (S m) ltac:(lia) a emit (embed e) p sg _ eq_refl N). exact N.
    + apply tdef_restore. now apply IH.
Qed.

(* TERMINATION TRANSFERS from the VM to the Spec *)
Theorem vm_terminates_spec : forall m, term_at m.
Proof.
  induction m as [|m IH]; [|now apply term_step].
  intros e a emit p sg _ _ _ s vr R (N & k & L & A) _. assert (k = 0) by lia. subst k. cbn in A. congruence.
Qed.

End TermMain.
