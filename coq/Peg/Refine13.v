(* C01, part 13: `vm_terminates_spec`: if the VM returns (Ok / Err) on an expression of the fragment within
   fuel m, the Spec evaluation with fuel m is definite.  By induction on m, following the VM run with the
   forward simulation.                                                                               *)
From Coq Require Import List Arith NArith ZArith Bool String Lia.
Import ListNotations.
Require Import PV.Iter.Queue PV.Iter.QueueFacts.
Require Import PV.Stack.Model PV.Stack.Proofs PV.Comb.PState PV.Comb.Bytes PV.Comb.Prog PV.Comb.Exec.
Require Import PV.Comb.Frame PV.Comb.Contracts PV.Comb.Utf8 PV.Comb.Utf8b PV.Comb.Utf8c.
Require Import PV.Peg.Ast PV.Peg.Spec PV.Peg.SpecFacts PV.Peg.VmCompile.
Require Import PV.Peg.Refine0 PV.Peg.Refine1 PV.Peg.Refine2 PV.Peg.Refine3 PV.Peg.Refine4 PV.Peg.Refine5 PV.Peg.Refine5b
  PV.Peg.Refine6 PV.Peg.Refine7 PV.Peg.Refine8 PV.Peg.Refine9 PV.Peg.Refine12.

Arguments Nat.sub : simpl never.
Arguments Nat.mul : simpl never.
Arguments Nat.ltb : simpl never.
Arguments Nat.leb : simpl never.
Arguments Nat.eqb : simpl never.
Arguments skipn : simpl never.
Arguments firstn : simpl never.

(* Spec results of the leaves are never SFuel *)
Lemma one_char_def w ok p sg : one_char w ok p sg <> SFuel.
Proof. unfold one_char. destruct (char_here w p) as [[c n]|]; [destruct (ok c)|]; discriminate. Qed.
Lemma lit_def w s p (sg sg' : list str) : match lit w s p with Some q => SMatch q sg' [] | None => SFail end <> SFuel.
Proof. destruct (lit w s p); discriminate. Qed.
Lemma lit_all_def w l p (sg sg' : list str) : match lit_all w l p with Some q => SMatch q sg' [] | None => SFail end <> SFuel.
Proof. destruct (lit_all w l p); discriminate. Qed.
Lemma ite_def (b : bool) p (sg : list str) f : (if b then SMatch p sg f else SFail) <> SFuel.
Proof. destruct b; discriminate. Qed.

Section TermMain.
Variable OG : ogrammar.
Variable extras : bool.
Variable uranges : name -> option (list (N * N)).
Variable pp : bool.
Variable cfg : config.
Variable w : list byte.
Hypothesis Hcfg : cfg_ok cfg.
Hypothesis HG : grammar_ok OG extras uranges pp.

Notation G := (embed_g OG).
Notation E := (vm_env OG uranges).
Notation ev := (eval G extras (uprop uranges) w).
Notation psim := (psim cfg E w pp).
Notation pbsim := (pbsim cfg E w pp).
Notation tdef := (tdef cfg E w).
Notation vm_expr := (vm_expr OG uranges).
Notation vm_call := (vm_call OG uranges).
Notation vm_skip := (vm_skip OG uranges).
Notation in_fragment := (in_fragment OG extras uranges pp).
Notation K := (K OG).
Notation Cl := (Cl OG).
Notation HE := (HE OG extras uranges pp HG).
Notation fwd := (vm_refines_spec_psim OG extras uranges pp cfg w Hcfg HG).

Definition term_at (m : nat) : Prop :=
  forall e a emit p sg, in_fragment e = true -> rok OG K e = true -> lits_valid e ->
    tdef (vm_expr e) a emit p sg (ev m a emit (embed e) p sg) m.

Lemma builtin_definite f n a emit p sg : is_builtin n = true -> ev (S f) a emit (EIdent n) p sg <> SFuel.
Proof.
  intros B. apply builtin_in in B. unfold builtin_names in B. cbn [In] in B.
  repeat (destruct B as [<-|B]); try contradiction; try exact (one_char_def w _ p sg).
  - (* EOI *) exact (ite_def _ _ _ _).
  - (* SOI *) exact (ite_def _ _ _ _).
  - (* PEEK *) change (match sg with top :: _ => match lit w top p with Some q => SMatch q sg [] | None => SFail end | [] => SFail end <> SFuel).
    destruct sg; [discriminate|apply lit_def].
  - (* PEEK_ALL *) exact (lit_all_def w sg p sg sg).
  - (* POP *) change (match sg with top :: r => match lit w top p with Some q => SMatch q r [] | None => SFail end | [] => SFail end <> SFuel).
    destruct sg; [discriminate|apply lit_def].
  - (* POP_ALL *) exact (lit_all_def w sg p sg []).
  - (* DROP *) change (match sg with _ :: r => SMatch p r [] | [] => SFail end <> SFuel). destruct sg; discriminate.
  - (* NEWLINE *)
    change (match lit w [10%N] p with Some q => SMatch q sg [] | None =>
            match lit w [13%N; 10%N] p with Some q => SMatch q sg [] | None =>
            match lit w [13%N] p with Some q => SMatch q sg [] | None => SFail end end end <> SFuel).
    destruct (lit w [10%N] p), (lit w [13%N; 10%N] p), (lit w [13%N] p); discriminate.
Qed.

(* a call of a defined rule, as a loop body *)
Lemma term_rule_call m n a emit p sg : term_at m -> has_orule OG n = true -> is_builtin n = false ->
  tdef (vm_call n) a emit p sg (ev m a emit (EIdent n) p sg) m.
Proof.
  intros IH Hr NB. apply (IH (OIdent n)); [|reflexivity|exact Logic.I].
  cbn [Refine6.in_fragment]. unfold ident_ok. rewrite NB, Hr. reflexivity.
Qed.

Lemma term_many m n a emit p sg : term_at m -> has_orule OG n = true -> is_builtin n = false ->
  fclean OG K (OIdent n) = true ->
  tdef (PRepeat (vm_call n)) a emit p sg (many_with (ev m) m a emit n p sg []) m.
Proof.
  intros IH Hr NB Hc. unfold many_with. apply (tdef_le cfg E w _ _ _ _ _ _ (S m)); [lia|]. apply tdef_repeat.
  apply (tdef_loop cfg E w pp Hcfg HE (vm_call n) a emit (fun p0 sg0 => ev m a emit (EIdent n) p0 sg0) m); [apply pv_call| | |lia].
  - intros p0 sg0. apply sim_rule_call; auto. apply fwd.
  - intros p0 sg0. now apply term_rule_call.
Qed.

(* forward simulation of the `COMMENT ~ WHITESPACE*` unit of the implicit skip *)
Lemma sim_cm_unit m emit p sg :
  has_orule OG (nm "WHITESPACE") = true -> has_orule OG (nm "COMMENT") = true ->
  psim True (PSequence (PAndThen (vm_call (nm "COMMENT")) (PRepeat (vm_call (nm "WHITESPACE"))))) NonAtomic emit p sg
    (sres_bind (ev m NonAtomic emit (EIdent (nm "COMMENT")) p sg)
       (fun p2 sg2 => many_with (ev m) m NonAtomic emit (nm "WHITESPACE") p2 sg2 [])).
Proof.
  intros HW HC. apply psim_sequence. apply pbsim_andthen; [exact Hcfg|exact HE|apply pv_call| |].
  - eapply psim_pbsim. apply sim_rule_call; auto using cm_nb; [apply fwd|apply (go_cm _ _ _ _ HG HC)].
  - intros p2 sg2 f2 _. eapply psim_pbsim. apply sim_many; auto using ws_nb; [apply fwd|apply (go_ws _ _ _ _ HG HW)].
Qed.

Lemma term_skip m a emit p sg : term_at m -> tdef vm_skip a emit p sg (skip_with G (ev m) m a emit p sg) m.
Proof.
  intros IH. unfold skip_with, VmCompile.vm_skip. rewrite !has_rule_embed.
  pose proof (go_ws _ _ _ _ HG) as CW. pose proof (go_cm _ _ _ _ HG) as CC.
  destruct (has_orule OG (nm "WHITESPACE")) eqn:HW, (has_orule OG (nm "COMMENT")) eqn:HC.
  - (* both *)
    destruct a; cbn [atom_eqb negb]; try (apply tdef_definite; discriminate).
    rewrite skip_tt_eq. apply (tdef_le cfg E w _ _ _ _ _ _ (S (S (S m)))); [lia|]. apply tdef_ifna. cbn [atom_eqb].
    apply tdef_sequence. apply (tdef_andthen cfg E w pp Hcfg HE); [apply pv_call| | |].
    + eapply psim_pbsim. apply sim_many; auto using ws_nb. apply fwd.
    + apply term_many; auto using ws_nb.
    + intros p1 sg1 f1 _. apply (tdef_le cfg E w _ _ _ _ _ _ (S m)); [lia|]. apply tdef_repeat.
      apply (tdef_loop cfg E w pp Hcfg HE _ NonAtomic emit
               (fun p0 sg0 => sres_bind (ev m NonAtomic emit (EIdent (nm "COMMENT")) p0 sg0)
                                (fun p2 sg2 => many_with (ev m) m NonAtomic emit (nm "WHITESPACE") p2 sg2 [])) m); [| | |lia].
      * cbn. split; apply pv_call.
      * intros p0 sg0. now apply sim_cm_unit.
      * intros p0 sg0. apply (tdef_le cfg E w _ _ _ _ _ _ (S (S m))); [lia|]. apply tdef_sequence.
        apply (tdef_andthen cfg E w pp Hcfg HE); [apply pv_call| | |].
        -- eapply psim_pbsim. apply sim_rule_call; auto using cm_nb. apply fwd.
        -- apply term_rule_call; auto using cm_nb.
        -- intros p2 sg2 f2 _. apply term_many; auto using ws_nb.
  - destruct a; cbn [atom_eqb negb]; try (apply tdef_definite; discriminate).
    apply (tdef_le cfg E w _ _ _ _ _ _ (S m)); [lia|]. apply tdef_ifna. cbn [atom_eqb]. apply term_many; auto using ws_nb.
  - destruct a; cbn [atom_eqb negb]; try (apply tdef_definite; discriminate).
    apply (tdef_le cfg E w _ _ _ _ _ _ (S m)); [lia|]. apply tdef_ifna. cbn [atom_eqb]. apply term_many; auto using cm_nb.
  - apply tdef_definite. destruct (negb _); discriminate.
Qed.

Lemma term_rep_unit m x a emit p sg : term_at m ->
  in_fragment x = true -> rok OG K x = true -> lits_valid x ->
  tdef (PSequence (PAndThen vm_skip (vm_expr x))) a emit p sg (rep_unit G (ev m) m a emit (embed x) p sg) m.
Proof.
  intros IH Fx Rx Lx. apply (tdef_le cfg E w _ _ _ _ _ _ (S (S m))); [lia|]. apply tdef_sequence.
  change (rep_unit G (ev m) m a emit (embed x) p sg) with
    (sres_bind (skip_with G (ev m) m a emit p sg) (fun p1 sg1 => ev m a emit (embed x) p1 sg1)).
  apply (tdef_andthen cfg E w pp Hcfg HE); [apply pv_skip| | |].
  - eapply psim_pbsim. apply sim_skip; auto. apply fwd.
  - now apply term_skip.
  - intros p1 sg1 f1 _. now apply IH.
Qed.

Lemma term_rep_loop m x a emit p sg : term_at m ->
  in_fragment x = true -> rok OG K x = true -> lits_valid x ->
  tdef (PRepeat (PSequence (PAndThen vm_skip (vm_expr x)))) a emit p sg
    (loop m (rep_unit G (ev m) m a emit (embed x)) p sg []) m.
Proof.
  intros IH Fx Rx Lx. apply (tdef_le cfg E w _ _ _ _ _ _ (S m)); [lia|]. apply tdef_repeat.
  apply (tdef_loop cfg E w pp Hcfg HE _ a emit (rep_unit G (ev m) m a emit (embed x)) m); [| | |lia].
  - cbn. split; [apply pv_skip|now apply pvx].
  - intros p0 sg0. apply sim_rep_unit; auto. apply fwd.
  - intros p0 sg0. now apply term_rep_unit.
Qed.

End TermMain.
