(* C01, part 7: identifiers (hard-coded names, user rules of the five types incl. WHITESPACE/COMMENT,
   Unicode properties) and the implicit skip, under the induction hypothesis `sim_at f`.          *)
From Coq Require Import List Arith NArith ZArith Bool String Lia.
Import ListNotations.
Require Import PV.Iter.Queue PV.Iter.QueueFacts.
Require Import PV.Stack.Model PV.Stack.Proofs PV.Comb.PState PV.Comb.Bytes PV.Comb.Prog PV.Comb.Exec.
Require Import PV.Comb.Frame PV.Comb.Contracts PV.Comb.Utf8 PV.Comb.Utf8b PV.Comb.Utf8c.
Require Import PV.Peg.Ast PV.Peg.Spec PV.Peg.VmCompile.
Require Import PV.Peg.Refine0 PV.Peg.Refine1 PV.Peg.Refine2 PV.Peg.Refine3 PV.Peg.Refine4 PV.Peg.Refine5 PV.Peg.Refine5b PV.Peg.Refine6.

Arguments Nat.sub : simpl never.
Arguments Nat.mul : simpl never.
Arguments Nat.ltb : simpl never.
Arguments Nat.leb : simpl never.
Arguments Nat.eqb : simpl never.
Arguments skipn : simpl never.
Arguments firstn : simpl never.

Section Sim.
Variable OG : ogrammar.
Variable extras : bool.
Variable uranges : name -> option (list (N * N)).
Variable pp : bool.
Variable cfg : config.
Variable w : list byte.
Hypothesis Hcfg : cfg_ok cfg.
Hypothesis HG : grammar_ok OG extras uranges pp.

Notation G := (embed_g OG).
Notation E := (vm_env OG uranges).
Notation ev := (eval G extras (uprop uranges) w).
Notation psim := (psim cfg E w pp).
Notation pbsim := (pbsim cfg E w pp).
Notation vm_expr := (vm_expr OG uranges).
Notation vm_call := (vm_call OG uranges).
Notation vm_skip := (vm_skip OG uranges).
Notation in_fragment := (in_fragment OG extras uranges pp).
Notation fclean := (fclean OG).
Notation rok := (rok OG).
Notation K := (K OG).

Lemma HE : env_valid E.
Proof. apply env_valid_vm. apply (go_lits _ _ _ _ HG). Qed.

Definition Cl (e : oexpr) : Prop := exists k, fclean k e = true.

(* ... or in the semantic sense *)
Definition ClS (e : oexpr) : Prop := Cl e \/ sem_clean OG e.

Lemma psim_sem (C : Prop) e a emit p sg r :
  psim C (vm_expr e) a emit p sg r -> psim (C \/ sem_clean OG e) (vm_expr e) a emit p sg r.
Proof.
  intros H N s R. destruct (H N s R) as (vr & R1 & S1). exists vr. split; [exact R1|].
  destruct vr as [s'|s'|k|]; cbn in *; auto. destruct S1 as (A0 & A1 & A2 & A3).
  split; [exact A0|]. split; [exact A1|]. split; [exact A2|]. intros [HC|HS]; [auto|].
  destruct R1 as [_ [m A]]. destruct (r_good _ _ _ _ _ _ R) as [W [a0 I0] _ _].
  exact (HS cfg uranges m s a0 s' W I0 A).
Qed.

Definition sim_at (n : nat) : Prop :=
  forall e a emit p sg, in_fragment e = true -> rokP OG K e -> lits_valid e ->
    psim (ClS e) (vm_expr e) a emit p sg (ev n a emit (embed e) p sg).

(* ---------- Spec and VM on an identifier that is not a hard-coded name ---------- *)
Ltac nb_rewrite NB :=
  repeat match goal with
  | |- context [str_eqb ?n ?c] =>
      rewrite (not_builtin n c NB) by (unfold builtin_names; repeat (first [left; reflexivity|right]))
  end.

Lemma eval_user f a emit n p sg : is_builtin n = false ->
  ev (S f) a emit (EIdent n) p sg =
  match find_orule OG n with
  | Some r => let '(tk, a2) := rule_mode (is_special n) (oty r) a emit in
              sres_node tk (orule_id OG n) p (ev f a2 emit (embed (oexpr_of r)) p sg)
  | None => match uranges n with Some rs => one_char w (in_ranges rs) p sg | None => SFail end
  end.
Proof.
  intros NB. cbn [eval]. nb_rewrite NB. unfold ascii_builtin. nb_rewrite NB.
  rewrite find_rule_embed. destruct (find_orule OG n) as [r|]; cbn [option_map].
  - cbn [rty rexpr embed_rule]. destruct (rule_mode _ _ _ _) as [tk a2]. rewrite rule_id_embed. unfold sres_node. destruct (eval _ _ _ _ _ _ _ _ _ _); reflexivity.
  - unfold uprop. destruct (uranges n); reflexivity.
Qed.

Lemma vm_call_user n : is_builtin n = false ->
  vm_call n = if has_orule OG n then PCall (orule_id OG n)
              else match uranges n with Some rs => PPrim (MMatchCharBy rs) | None => PCall (S (List.length OG)) end.
Proof. intros NB. unfold VmCompile.vm_call. nb_rewrite NB. destruct (has_orule OG n); reflexivity. Qed.

Lemma tok_compound emit : tok CompoundAtomic emit = emit. Proof. unfold tok. cbn. apply andb_true_r. Qed.
Lemma tok_nonatomic emit : tok NonAtomic emit = emit. Proof. unfold tok. cbn. apply andb_true_r. Qed.
Lemma tok_atomic emit : tok Atomic emit = false. Proof. unfold tok. cbn. apply andb_false_r. Qed.
Lemma sres_node_false id p r : sres_node false id p r = r. Proof. destruct r; reflexivity. Qed.

(* a user rule or a Unicode property *)
Lemma sim_user f n a emit p sg : sim_at f -> is_builtin n = false -> ident_ok OG uranges pp n = true ->
  psim (Cl (OIdent n)) (vm_call n) a emit p sg (ev (S f) a emit (EIdent n) p sg).
Proof.
  intros IH NB IO. rewrite (eval_user f a emit n p sg NB), (vm_call_user n NB).
  unfold ident_ok in IO. rewrite NB in IO. unfold has_orule in *.
  destruct (find_orule OG n) as [r|] eqn:Ef.
  - (* user rule *)
    destruct (find_orule_some OG n r Ef) as [Hin Hn].
    pose proof (go_frag _ _ _ _ HG r Hin) as Fr. pose proof (go_rok _ _ _ _ HG r Hin) as Ro.
    pose proof (go_lits _ _ _ _ HG r Hin) as Li.
    assert (CB : Cl (OIdent n) -> ClS (oexpr_of r)).
    { intros [k Hk]. left. destruct k as [|k]; cbn [Refine6.fclean fclean_e] in Hk; rewrite NB, Ef in Hk; [discriminate|exists k; exact Hk]. }
    assert (B : forall a2, psim (Cl (OIdent n)) (vm_expr (oexpr_of r)) a2 emit p sg (ev f a2 emit (embed (oexpr_of r)) p sg)).
    { intros a2. eapply psim_weaken; [exact CB|]. apply IH; assumption. }
    apply (psim_call cfg E w pp _ _ (vm_rule_body OG uranges r)); [apply env_lookup; [apply (go_nodup _ _ _ _ HG)|exact Ef]|].
    unfold vm_rule_body. rewrite Hn. change (is_special_name n) with (is_special n).
    unfold rule_mode. destruct (is_special n), (oty r).
    + apply psim_rule, psim_atomic, B.
    + rewrite sres_node_false. apply psim_atomic, B.
    + apply psim_rule, psim_atomic, B.
    + eapply psim_eq; [|apply psim_atomic, psim_rule, B]. rewrite tok_compound. reflexivity.
    + eapply psim_eq; [|apply psim_atomic, psim_rule, B]. rewrite tok_atomic. reflexivity.
    + apply psim_rule, B.
    + rewrite sres_node_false. apply B.
    + apply psim_rule, psim_atomic, B.
    + eapply psim_eq; [|apply psim_atomic, psim_rule, B]. rewrite tok_compound. reflexivity.
    + eapply psim_eq; [|apply psim_atomic, psim_rule, B]. rewrite tok_nonatomic. reflexivity.
  - cbn [orb] in IO. destruct (uranges n) as [rs|]; [|discriminate]. apply psim_charby.
Qed.

(* ---------- the hard-coded names ---------- *)
Lemma cl_pop_false : Cl (OIdent (nm "POP")) -> False.
Proof. intros [k Hk]. destruct k; cbn in Hk; discriminate. Qed.
Lemma cl_pop_all_false : Cl (OIdent (nm "POP_ALL")) -> False.
Proof. intros [k Hk]. destruct k; cbn in Hk; discriminate. Qed.

Lemma newline_eq p sg :
  match lit w [10%N] p with Some q => SMatch q sg [] | None =>
  match lit w [13%N; 10%N] p with Some q => SMatch q sg [] | None =>
  match lit w [13%N] p with Some q => SMatch q sg [] | None => SFail end end end =
  sres_or (sres_or (match lit w [10%N] p with Some q => SMatch q sg [] | None => SFail end)
                   (match lit w [13%N; 10%N] p with Some q => SMatch q sg [] | None => SFail end))
          (match lit w [13%N] p with Some q => SMatch q sg [] | None => SFail end).
Proof. destruct (lit w [10%N] p), (lit w [13%N; 10%N] p), (lit w [13%N] p); reflexivity. Qed.

Lemma sim_builtin f n a emit p sg : is_builtin n = true -> ident_ok OG uranges pp n = true ->
  psim (Cl (OIdent n)) (vm_call n) a emit p sg (ev (S f) a emit (EIdent n) p sg).
Proof.
  intros B IO. unfold ident_ok in IO. rewrite B in IO.
  assert (HN : has_orule OG n = false) by (apply builtin_not_rule; [apply (go_names _ _ _ _ HG)|exact B]).
  apply builtin_in in B. unfold builtin_names in B. cbn [In] in B.
  pose proof HE as HE'.
  repeat (destruct B as [<-|B]); try contradiction.
  - (* ANY *) unfold VmCompile.vm_call. rewrite HN. exact (psim_any cfg E w pp _ a emit p sg).
  - (* EOI *)
    replace (vm_call (nm "EOI")) with (PRule (orule_id OG (nm "EOI")) (PPrim MEoi)) by (unfold VmCompile.vm_call; rewrite HN; reflexivity).
    eapply psim_eq; [|apply psim_rule, psim_eoi_prim].
    change (ev (S f) a emit (EIdent (nm "EOI")) p sg) with
      (if Nat.eqb p (List.length w) then SMatch p sg (if tok a emit then [Node (rule_id G (nm "EOI")) None p p []] else []) else SFail).
    rewrite rule_id_embed. destruct (Nat.eqb p (List.length w)); reflexivity.
  - (* SOI *) unfold VmCompile.vm_call. rewrite HN. exact (psim_soi cfg E w pp _ a emit p sg).
  - (* PEEK *)
    unfold VmCompile.vm_call. rewrite HN. apply (psim_peek cfg E w pp). intros _. cbn in IO. now rewrite orb_false_r in IO.
  - (* PEEK_ALL *) unfold VmCompile.vm_call. rewrite HN. exact (psim_peek_all cfg E w pp _ a emit p sg).
  - (* POP *)
    unfold VmCompile.vm_call. rewrite HN. eapply psim_weaken; [apply cl_pop_false|]. apply (psim_pop cfg E w pp). intros _. cbn in IO. now rewrite orb_false_r in IO.
  - (* POP_ALL *)
    unfold VmCompile.vm_call. rewrite HN. eapply psim_weaken; [apply cl_pop_all_false|]. exact (psim_pop_all cfg E w pp a emit p sg).
  - (* DROP *) unfold VmCompile.vm_call. rewrite HN. exact (psim_drop cfg E w pp _ a emit p sg).
  - unfold VmCompile.vm_call. rewrite HN. exact (psim_range cfg E w pp _ 48 57 a emit p sg).
  - unfold VmCompile.vm_call. rewrite HN. exact (psim_range cfg E w pp _ 49 57 a emit p sg).
  - unfold VmCompile.vm_call. rewrite HN. exact (psim_range cfg E w pp _ 48 49 a emit p sg).
  - unfold VmCompile.vm_call. rewrite HN. exact (psim_range cfg E w pp _ 48 55 a emit p sg).
  - (* HEX *)
    unfold VmCompile.vm_call. rewrite HN.
    change (psim (Cl (OIdent (nm "ASCII_HEX_DIGIT"))) (POrElse (POrElse (prim_range 48 57) (prim_range 97 102)) (prim_range 65 70)) a emit p sg
             (one_char w (fun c => (fun c => in_range 48 57 c || in_range 97 102 c) c || in_range 65 70 c) p sg)).
    apply (psim_class_or cfg E w pp Hcfg HE'); [exact (conj Logic.I Logic.I)| |apply psim_range].
    apply (psim_class_or cfg E w pp Hcfg HE'); [exact Logic.I|apply psim_range|apply psim_range].
  - unfold VmCompile.vm_call. rewrite HN. exact (psim_range cfg E w pp _ 97 122 a emit p sg).
  - unfold VmCompile.vm_call. rewrite HN. exact (psim_range cfg E w pp _ 65 90 a emit p sg).
  - (* ALPHA *)
    unfold VmCompile.vm_call. rewrite HN.
    change (psim (Cl (OIdent (nm "ASCII_ALPHA"))) (POrElse (prim_range 97 122) (prim_range 65 90)) a emit p sg
             (one_char w (fun c => in_range 97 122 c || in_range 65 90 c) p sg)).
    apply (psim_class_or cfg E w pp Hcfg HE'); [exact Logic.I|apply psim_range|apply psim_range].
  - (* ALPHANUMERIC *)
    unfold VmCompile.vm_call. rewrite HN.
    change (psim (Cl (OIdent (nm "ASCII_ALPHANUMERIC"))) (POrElse (POrElse (prim_range 97 122) (prim_range 65 90)) (prim_range 48 57)) a emit p sg
             (one_char w (fun c => (fun c => in_range 97 122 c || in_range 65 90 c) c || in_range 48 57 c) p sg)).
    apply (psim_class_or cfg E w pp Hcfg HE'); [exact (conj Logic.I Logic.I)| |apply psim_range].
    apply (psim_class_or cfg E w pp Hcfg HE'); [exact Logic.I|apply psim_range|apply psim_range].
  - unfold VmCompile.vm_call. rewrite HN. exact (psim_range cfg E w pp _ 0 127 a emit p sg).
  - (* NEWLINE *)
    change (ev (S f) a emit (EIdent (nm "NEWLINE")) p sg) with
      (match lit w [10%N] p with Some q => SMatch q sg [] | None =>
       match lit w [13%N; 10%N] p with Some q => SMatch q sg [] | None =>
       match lit w [13%N] p with Some q => SMatch q sg [] | None => SFail end end end).
    rewrite newline_eq.
    replace (vm_call (nm "NEWLINE")) with
      (POrElse (POrElse (PPrim (MMatchString [10%N])) (PPrim (MMatchString [13%N; 10%N]))) (PPrim (MMatchString [13%N])))
      by (unfold VmCompile.vm_call; rewrite HN; reflexivity).
    apply (psim_orelse cfg E w pp Hcfg HE' True); [| exact Logic.I | | apply psim_str].
    + cbn. split; apply valid_ascii; repeat constructor.
    + apply (psim_orelse cfg E w pp Hcfg HE' True); [| exact Logic.I | apply psim_str | apply psim_str].
      cbn. apply valid_ascii; repeat constructor.
Qed.

End Sim.
