(* C01, part 5: the primitives against their Spec clauses: strings, character classes, SOI/EOI,
   skip_until, and the stack operations.                                                           *)
From Coq Require Import List Arith NArith ZArith Bool Lia.
Import ListNotations.
Require Import PV.Iter.Queue PV.Iter.QueueFacts.
Require Import PV.Stack.Model PV.Stack.Proofs PV.Comb.PState PV.Comb.Bytes PV.Comb.Prog PV.Comb.Exec.
Require Import PV.Comb.Frame PV.Comb.Contracts PV.Comb.Utf8 PV.Comb.Utf8b PV.Comb.Utf8c.
Require Import PV.Peg.Ast PV.Peg.Spec PV.Peg.Refine0 PV.Peg.Refine1 PV.Peg.Refine2 PV.Peg.Refine3 PV.Peg.Refine4.

Arguments Nat.sub : simpl never.
Arguments Nat.mul : simpl never.
Arguments Nat.ltb : simpl never.
Arguments Nat.leb : simpl never.
Arguments Nat.eqb : simpl never.
Arguments skipn : simpl never.
Arguments firstn : simpl never.

Section Prims.
Variable cfg : config.
Variable E : env.
Variable w : list byte.
Variable pp : bool.
Hypothesis Hcfg : cfg_ok cfg.
Hypothesis HE : env_valid E.

Notation runs := (runs cfg E).
Notation rep := (rep w).
Notation psim := (psim cfg E w pp).
Notation sim_res := (sim_res pp).

Lemma rep_boundary a emit p sg s : rep a emit p sg s -> boundaryb w p = true.
Proof. intros [[_ _ (_ & B & _) _] I _ _ P _]. rewrite <- I, <- P. exact B. Qed.

(* generic primitive lemmas *)
Lemma psim_prim_gen (C : Prop) o a emit p sg p' sg' :
  (forall s, rep a emit p sg s -> exists s', exec_prim cfg o s = ROk s' /\ pos s' = p' /\ queue s' = queue s /\
                                             cache (stack s') = sg') ->
  psim C (PPrim o) a emit p sg (SMatch p' sg' []).
Proof.
  intros H _ s R. destruct (H s R) as (s' & A & B1 & B2 & B3).
  exists (ROk s'). split; [apply runs_prim; [exact A|discriminate]|]. cbn. rewrite B2. auto.
Qed.

Lemma psim_prim_err (C : Prop) o a emit p sg :
  (forall s, rep a emit p sg s -> exists s', exec_prim cfg o s = RErr s' /\ pos s' = pos s /\ queue s' = queue s /\
                                             (C -> cache (stack s') = cache (stack s))) ->
  psim C (PPrim o) a emit p sg SFail.
Proof.
  intros H _ s R. destruct (H s R) as (s' & A & B1 & B2 & B3).
  exists (RErr s'). split; [apply runs_prim; [exact A|discriminate]|]. cbn. auto.
Qed.

Lemma psim_prim_panic (C : Prop) o a emit p sg r : pp = true ->
  (forall s, rep a emit p sg s -> exec_prim cfg o s = RPanic PkEmptyStack) ->
  psim C (PPrim o) a emit p sg r.
Proof.
  intros Hpp H _ s R. exists (RPanic PkEmptyStack). split; [apply runs_prim; [exact (H s R)|discriminate]|].
  cbn. auto.
Qed.

(* ---------- strings ---------- *)
Lemma psim_str (C : Prop) str a emit p sg :
  psim C (PPrim (MMatchString str)) a emit p sg (match lit w str p with Some q => SMatch q sg [] | None => SFail end).
Proof.
  unfold lit. destruct (prefixb str (skipn p w)) eqn:Pf.
  - apply psim_prim_moved. intros s R. exists (Some (TSens str)). cbn [exec_prim]. unfold st_match_string, match_string.
    rewrite (r_input _ _ _ _ _ _ R), (r_pos _ _ _ _ _ _ R), Pf. reflexivity.
  - apply psim_prim_stay. intros s R. exists (Some (TSens str)). cbn [exec_prim]. unfold st_match_string, match_string.
    rewrite (r_input _ _ _ _ _ _ R), (r_pos _ _ _ _ _ _ R), Pf. reflexivity.
Qed.

Lemma psim_insens (C : Prop) str a emit p sg :
  psim C (PPrim (MMatchInsens str)) a emit p sg
    (if boundaryb w (p + length str) && prefixb_ci str (skipn p w) then SMatch (p + length str) sg [] else SFail).
Proof.
  destruct (boundaryb w (p + length str) && prefixb_ci str (skipn p w)) eqn:Pf.
  - apply psim_prim_moved. intros s R. exists (Some (TInsens str)). cbn [exec_prim]. unfold match_insensitive.
    rewrite (r_input _ _ _ _ _ _ R), (r_pos _ _ _ _ _ _ R), (rep_boundary _ _ _ _ _ R), Pf. reflexivity.
  - apply psim_prim_stay. intros s R. exists (Some (TInsens str)). cbn [exec_prim]. unfold match_insensitive.
    rewrite (r_input _ _ _ _ _ _ R), (r_pos _ _ _ _ _ _ R), (rep_boundary _ _ _ _ _ R), Pf. reflexivity.
Qed.

(* ---------- character classes ---------- *)
Lemma psim_range (C : Prop) lo hi a emit p sg :
  psim C (PPrim (MMatchRange lo hi)) a emit p sg (one_char w (in_range lo hi) p sg).
Proof.
  unfold one_char, char_here. destruct (decode1 (skipn p w)) as [[c n]|] eqn:D; [destruct (in_range lo hi c) eqn:O|].
  - apply psim_prim_moved. intros s R. exists (Some (TRange lo hi)). cbn [exec_prim]. unfold match_range, char_at.
    rewrite (r_input _ _ _ _ _ _ R), (r_pos _ _ _ _ _ _ R), (rep_boundary _ _ _ _ _ R), D.
    unfold in_range in O. rewrite O. reflexivity.
  - apply psim_prim_stay. intros s R. exists (Some (TRange lo hi)). cbn [exec_prim]. unfold match_range, char_at.
    rewrite (r_input _ _ _ _ _ _ R), (r_pos _ _ _ _ _ _ R), (rep_boundary _ _ _ _ _ R), D.
    unfold in_range in O. rewrite O. reflexivity.
  - apply psim_prim_stay. intros s R. exists (Some (TRange lo hi)). cbn [exec_prim]. unfold match_range, char_at.
    rewrite (r_input _ _ _ _ _ _ R), (r_pos _ _ _ _ _ _ R), (rep_boundary _ _ _ _ _ R), D. reflexivity.
Qed.

Lemma psim_charby (C : Prop) rs a emit p sg :
  psim C (PPrim (MMatchCharBy rs)) a emit p sg (one_char w (in_ranges rs) p sg).
Proof.
  unfold one_char, char_here. destruct (decode1 (skipn p w)) as [[c n]|] eqn:D; [destruct (in_ranges rs c) eqn:O|].
  - apply psim_prim_moved. intros s R. exists (Some TBuiltin). cbn [exec_prim]. unfold match_char_by, char_at.
    rewrite (r_input _ _ _ _ _ _ R), (r_pos _ _ _ _ _ _ R), (rep_boundary _ _ _ _ _ R), D, O. reflexivity.
  - apply psim_prim_stay. intros s R. exists (Some TBuiltin). cbn [exec_prim]. unfold match_char_by, char_at.
    rewrite (r_input _ _ _ _ _ _ R), (r_pos _ _ _ _ _ _ R), (rep_boundary _ _ _ _ _ R), D, O. reflexivity.
  - apply psim_prim_stay. intros s R. exists (Some TBuiltin). cbn [exec_prim]. unfold match_char_by, char_at.
    rewrite (r_input _ _ _ _ _ _ R), (r_pos _ _ _ _ _ _ R), (rep_boundary _ _ _ _ _ R), D. reflexivity.
Qed.

Lemma psim_any (C : Prop) a emit p sg :
  psim C (PPrim (MSkip 1)) a emit p sg (one_char w (fun _ => true) p sg).
Proof.
  unfold one_char, char_here. destruct (decode1 (skipn p w)) as [[c n]|] eqn:D.
  - apply psim_prim_moved. intros s R. exists None. cbn [exec_prim]. unfold skip.
    rewrite (r_input _ _ _ _ _ _ R), (r_pos _ _ _ _ _ _ R), (rep_boundary _ _ _ _ _ R). cbn [skip_len]. rewrite D.
    rewrite Nat.add_0_r. reflexivity.
  - apply psim_prim_stay. intros s R. exists None. cbn [exec_prim]. unfold skip.
    rewrite (r_input _ _ _ _ _ _ R), (r_pos _ _ _ _ _ _ R), (rep_boundary _ _ _ _ _ R). cbn [skip_len]. rewrite D. reflexivity.
Qed.

(* a union of classes tried in order is the class of the union *)
Lemma one_char_or ok1 ok2 p sg :
  one_char w (fun c => ok1 c || ok2 c) p sg = sres_or (one_char w ok1 p sg) (one_char w ok2 p sg).
Proof.
  unfold one_char. destruct (char_here w p) as [[c n]|]; [|reflexivity].
  destruct (ok1 c); cbn; [reflexivity|]. reflexivity.
Qed.

Lemma psim_class_or (C : Prop) q1 q2 ok1 ok2 a emit p sg : prog_valid q1 ->
  psim True q1 a emit p sg (one_char w ok1 p sg) -> psim C q2 a emit p sg (one_char w ok2 p sg) ->
  psim C (POrElse q1 q2) a emit p sg (one_char w (fun c => ok1 c || ok2 c) p sg).
Proof. intros V H1 H2. rewrite one_char_or. exact (psim_orelse cfg E w pp Hcfg HE True C q1 q2 a emit p sg _ _ V I H1 H2). Qed.

(* ---------- SOI / EOI / skip_until ---------- *)
Lemma psim_soi (C : Prop) a emit p sg :
  psim C (PPrim MSoi) a emit p sg (if Nat.eqb p 0 then SMatch p sg [] else SFail).
Proof.
  destruct (Nat.eqb p 0) eqn:P0.
  - apply psim_prim_gen. intros s R. exists s. cbn [exec_prim]. rewrite (r_pos _ _ _ _ _ _ R), P0.
    split; [reflexivity|]. split; [reflexivity|]. split; [reflexivity|apply (r_stack _ _ _ _ _ _ R)].
  - apply psim_prim_err. intros s R. exists s. cbn [exec_prim]. rewrite (r_pos _ _ _ _ _ _ R), P0. auto.
Qed.

Lemma psim_eoi_prim (C : Prop) a emit p sg :
  psim C (PPrim MEoi) a emit p sg (if Nat.eqb p (length w) then SMatch p sg [] else SFail).
Proof.
  destruct (Nat.eqb p (length w)) eqn:P0.
  - apply psim_prim_gen. intros s R. exists s. cbn [exec_prim]. rewrite (r_pos _ _ _ _ _ _ R), (r_input _ _ _ _ _ _ R), P0.
    split; [reflexivity|]. split; [reflexivity|]. split; [reflexivity|apply (r_stack _ _ _ _ _ _ R)].
  - apply psim_prim_err. intros s R. exists s. cbn [exec_prim]. rewrite (r_pos _ _ _ _ _ _ R), (r_input _ _ _ _ _ _ R), P0. auto.
Qed.

Lemma psim_skip_until (C : Prop) ss a emit p sg : Forall valid_utf8 ss ->
  psim C (PPrim (MSkipUntil ss)) a emit p sg (SMatch (skip_until_basic w p ss) sg []).
Proof.
  intros Vs. apply psim_prim_gen. intros s R. cbn [exec_prim].
  rewrite (r_input _ _ _ _ _ _ R), (r_pos _ _ _ _ _ _ R).
  rewrite (skip_until_eq_basic cfg w p ss Hcfg (rep_boundary _ _ _ _ _ R) Vs).
  eexists. split; [reflexivity|]. cbn. split; [reflexivity|]. split; [reflexivity|apply (r_stack _ _ _ _ _ _ R)].
Qed.

(* ---------- the stack ---------- *)
Lemma psim_push_lit (C : Prop) str a emit p sg :
  psim C (PPrim (MStackPushLit str)) a emit p sg (SMatch p (str :: sg) []).
Proof.
  apply psim_prim_gen. intros s R. cbn [exec_prim]. eexists. split; [reflexivity|]. cbn.
  rewrite (r_pos _ _ _ _ _ _ R), (r_stack _ _ _ _ _ _ R). auto.
Qed.

Lemma match_all_lit_all l : forall p, match_all w p l = lit_all w l p.
Proof.
  induction l as [|x l IH]; intros p; [reflexivity|]. cbn [match_all lit_all]. unfold match_string, lit.
  destruct (prefixb x (skipn p w)); [apply IH|reflexivity].
Qed.

Lemma st_match_string_sim s str a emit p sg : rep a emit p sg s ->
  match lit w str p with
  | Some q => exists s', st_match_string s str = ROk s' /\ pos s' = q /\ queue s' = queue s /\ stack s' = stack s
  | None => exists s', st_match_string s str = RErr s' /\ pos s' = pos s /\ queue s' = queue s /\ stack s' = stack s
  end.
Proof.
  intros R. unfold st_match_string, match_string, lit. rewrite (r_input _ _ _ _ _ _ R), (r_pos _ _ _ _ _ _ R).
  destruct (prefixb str (skipn p w)).
  - destruct (apply_pres_moved s (p + length str) (Some (TSens str))) as (s' & A & B). exists s'. auto.
  - destruct (apply_pres_stay s (Some (TSens str))) as (s' & A & B). exists s'. rewrite <- (r_pos _ _ _ _ _ _ R). auto.
Qed.

(* PEEK *)
Lemma psim_peek (C : Prop) a emit p sg : (sg = [] -> pp = true) ->
  psim C (PPrim MStackPeek) a emit p sg
    (match sg with top :: _ => match lit w top p with Some q => SMatch q sg [] | None => SFail end | [] => SFail end).
Proof.
  intros Hpp. destruct sg as [|top rest].
  - apply psim_prim_panic; [auto|]. intros s R. cbn [exec_prim]. unfold peek. rewrite (r_stack _ _ _ _ _ _ R). reflexivity.
  - destruct (lit w top p) as [q|] eqn:Lq.
    + apply psim_prim_gen. intros s R. cbn [exec_prim]. unfold peek. rewrite (r_stack _ _ _ _ _ _ R). cbn [hd_error].
      pose proof (st_match_string_sim s top _ _ _ _ R) as M. rewrite Lq in M. destruct M as (s' & A & B1 & B2 & B3).
      exists s'. rewrite B3. split; [exact A|]. split; [exact B1|]. split; [exact B2|apply (r_stack _ _ _ _ _ _ R)].
    + apply psim_prim_err. intros s R. cbn [exec_prim]. unfold peek. rewrite (r_stack _ _ _ _ _ _ R). cbn [hd_error].
      pose proof (st_match_string_sim s top _ _ _ _ R) as M. rewrite Lq in M. destruct M as (s' & A & B1 & B2 & B3).
      exists s'. rewrite B3. repeat split; auto. intros _. apply (r_stack _ _ _ _ _ _ R).
Qed.

Lemma rep_set_stack a emit p sg s st sg' : rep a emit p sg s -> cache st = sg' -> (exists x : sspec, Inv st x) ->
  Forall valid_utf8 sg' -> rep a emit p sg' (set_stack s st).
Proof.
  intros [[W I U L] In A La P S] Hc Hi Hv. split; auto. split; auto.
  destruct U as (U1 & U2 & U3). split; [exact U1|]. split; [exact U2|]. cbn. rewrite Hc. exact Hv.
Qed.

Lemma pop_rep a emit p top rest s : rep a emit p (top :: rest) s ->
  pop (stack s) = (fst (pop (stack s)), Some top) /\ cache (fst (pop (stack s))) = rest /\
  rep a emit p rest (set_stack s (fst (pop (stack s)))).
Proof.
  intros R. destruct (pop_cache (stack s)) as [P1 P2]. rewrite (r_stack _ _ _ _ _ _ R) in P1, P2. cbn in P1, P2.
  split; [rewrite (surjective_pairing (pop (stack s))) at 1; rewrite P2; reflexivity|]. split; [exact P1|].
  destruct (g_inv _ (r_good _ _ _ _ _ _ R)) as [x Ix]. destruct (inv_pop Ix) as [Ip _].
  eapply rep_set_stack; eauto.
  destruct (r_good _ _ _ _ _ _ R) as [_ _ (_ & _ & U3) _]. rewrite (r_stack _ _ _ _ _ _ R) in U3. now inversion U3.
Qed.

(* POP: on a mismatch the stack stays popped, so the failure is not clean *)
Lemma psim_pop a emit p sg : (sg = [] -> pp = true) ->
  psim False (PPrim MStackPop) a emit p sg
    (match sg with top :: r => match lit w top p with Some q => SMatch q r [] | None => SFail end | [] => SFail end).
Proof.
  intros Hpp. destruct sg as [|top rest].
  - apply psim_prim_panic; [auto|]. intros s R. cbn [exec_prim]. destruct (pop_cache (stack s)) as [_ P2].
    rewrite (r_stack _ _ _ _ _ _ R) in P2. cbn in P2. destruct (pop (stack s)) as [st o]. cbn in P2. subst o. reflexivity.
  - destruct (lit w top p) as [q|] eqn:Lq.
    + apply psim_prim_gen. intros s R. cbn [exec_prim]. destruct (pop_rep _ _ _ _ _ _ R) as (P1 & P2 & R').
      rewrite P1. pose proof (st_match_string_sim _ top _ _ _ _ R') as M. rewrite Lq in M.
      destruct M as (s' & A & B1 & B2 & B3). exists s'. rewrite B3. cbn. auto.
    + apply psim_prim_err. intros s R. cbn [exec_prim]. destruct (pop_rep _ _ _ _ _ _ R) as (P1 & P2 & R').
      rewrite P1. pose proof (st_match_string_sim _ top _ _ _ _ R') as M. rewrite Lq in M.
      destruct M as (s' & A & B1 & B2 & B3). exists s'. split; [exact A|]. cbn in *. repeat split; auto. contradiction.
Qed.

(* DROP *)
Lemma psim_drop (C : Prop) a emit p sg :
  psim C (PPrim MStackDrop) a emit p sg (match sg with _ :: r => SMatch p r [] | [] => SFail end).
Proof.
  destruct sg as [|top rest].
  - apply psim_prim_err. intros s R. cbn [exec_prim]. destruct (pop_cache (stack s)) as [_ P2].
    rewrite (r_stack _ _ _ _ _ _ R) in P2. cbn in P2. destruct (pop (stack s)) as [st o]. cbn in P2. subst o.
    exists s. auto.
  - apply psim_prim_gen. intros s R. cbn [exec_prim]. destruct (pop_rep _ _ _ _ _ _ R) as (P1 & P2 & R').
    rewrite P1. eexists. split; [reflexivity|]. cbn. split; [apply (r_pos _ _ _ _ _ _ R)|]. auto.
Qed.

End Prims.
