(* C01, part 6: grammar-level definitions: the fragment, the side conditions (restore_ok, literal
   validity, defined identifiers), name resolution of Spec vs VM, validity of the compiled programs.  *)
From Coq Require Import List Arith NArith ZArith Bool String Lia.
Import ListNotations.
Require Import PV.Iter.Queue PV.Iter.QueueFacts.
Require Import PV.Stack.Model PV.Stack.Proofs PV.Comb.PState PV.Comb.Bytes PV.Comb.Prog PV.Comb.Exec.
Require Import PV.Comb.Frame PV.Comb.Contracts PV.Comb.Utf8 PV.Comb.Utf8b PV.Comb.Utf8c.
Require Import PV.Peg.Ast PV.Peg.Spec PV.Peg.VmCompile.
Require Import PV.Peg.Refine0 PV.Peg.Refine1 PV.Peg.Refine2 PV.Peg.Refine3 PV.Peg.Refine4 PV.Peg.Refine5.

(* ---------- names ---------- *)
Lemma str_eqb_eq a : forall b, str_eqb a b = true -> a = b.
Proof.
  induction a as [|x a IH]; intros [|y b]; cbn; try discriminate; auto.
  rewrite andb_true_iff, N.eqb_eq. intros [-> H]. f_equal. now apply IH.
Qed.
Lemma str_eqb_refl a : str_eqb a a = true.
Proof. induction a as [|x a IH]; cbn; auto. now rewrite N.eqb_refl, IH. Qed.
Lemma str_eqb_neq a b : a <> b -> str_eqb a b = false.
Proof. intros H. destruct (str_eqb a b) eqn:Eq; auto. apply str_eqb_eq in Eq. contradiction. Qed.

Definition builtin_names : list name :=
  [nm "ANY"; nm "EOI"; nm "SOI"; nm "PEEK"; nm "PEEK_ALL"; nm "POP"; nm "POP_ALL"; nm "DROP";
   nm "ASCII_DIGIT"; nm "ASCII_NONZERO_DIGIT"; nm "ASCII_BIN_DIGIT"; nm "ASCII_OCT_DIGIT"; nm "ASCII_HEX_DIGIT";
   nm "ASCII_ALPHA_LOWER"; nm "ASCII_ALPHA_UPPER"; nm "ASCII_ALPHA"; nm "ASCII_ALPHANUMERIC"; nm "ASCII"; nm "NEWLINE"].
Definition is_builtin (n : name) : bool := existsb (str_eqb n) builtin_names.

Lemma builtin_in n : is_builtin n = true -> In n builtin_names.
Proof.
  unfold is_builtin. rewrite existsb_exists. intros (x & Hx & Eq). apply str_eqb_eq in Eq. now subst.
Qed.
Lemma not_builtin n c : is_builtin n = false -> In c builtin_names -> str_eqb n c = false.
Proof.
  unfold is_builtin. intros H Hc. destruct (str_eqb n c) eqn:Eq; auto.
  assert (existsb (str_eqb n) builtin_names = true) by (apply existsb_exists; eauto). congruence.
Qed.

Section Gram.
Variable OG : ogrammar.
Variable extras : bool.
Variable uranges : name -> option (list (N * N)).
Variable pp : bool.

Definition uprop (n : name) : option (N -> bool) := option_map in_ranges (uranges n).

(* ---------- side conditions ---------- *)
(* a failing expression leaves the stack contents alone (k bounds the chain of rule names followed) *)
Fixpoint fclean_e (rec : oexpr -> bool) (e : oexpr) : bool :=
  match e with
  | OIdent n =>
      if is_builtin n then negb (str_eqb n (nm "POP") || str_eqb n (nm "POP_ALL"))
      else match find_orule OG n with Some r => rec (oexpr_of r) | None => true end
  | OChoice l r => fclean_e rec l && fclean_e rec r
  | OPush x => fclean_e rec x
  | ONodeTag x _ => fclean_e rec x
  | _ => true
  end.
Fixpoint fclean (k : nat) (e : oexpr) : bool :=
  match k with O => fclean_e (fun _ => false) e | S k' => fclean_e (fclean k') e end.

(* what restore_on_err establishes: wherever the VM goes on after a failure without a sequence or a
   look-ahead around it (first alternative of a choice, body of an optional, first iteration of a
   repetition), that failure is clean *)
Fixpoint rok (k : nat) (e : oexpr) : bool :=
  match e with
  | OChoice l r => rok k l && rok k r && fclean k l
  | OOpt x | ORep x => rok k x && fclean k x
  | OPosPred x | ONegPred x | ORepOnce x | OPush x | ONodeTag x _ | ORestoreOnErr x => rok k x
  | OSeq l r => rok k l && rok k r
  | _ => true
  end.

(* the semantic reading of "fails clean" (what C05 proves of restore_on_err's output: Opt.Statement.fails_clean) *)
Definition sem_clean (c : oexpr) : Prop :=
  forall cfg uranges' fuel s a s', wf s -> Inv (stack s) a ->
    exec cfg (vm_env OG uranges') fuel (vm_expr OG uranges' c) s = RErr s' -> cache (stack s') = cache (stack s).
Definition cleanP (k : nat) (e : oexpr) : Prop := fclean k e = true \/ sem_clean e.

(* `rok` with either reading of cleanliness at each alternative *)
Fixpoint rokP (k : nat) (e : oexpr) : Prop :=
  match e with
  | OChoice l r => rokP k l /\ rokP k r /\ cleanP k l
  | OOpt x | ORep x => rokP k x /\ cleanP k x
  | OPosPred x | ONegPred x | ORepOnce x | OPush x | ONodeTag x _ | ORestoreOnErr x => rokP k x
  | OSeq l r => rokP k l /\ rokP k r
  | _ => True
  end.

Lemma rok_rokP k e : rok k e = true -> rokP k e.
Proof.
  induction e; cbn [rok rokP]; auto; intros H; repeat (apply andb_true_iff in H; destruct H as [H ?]);
    repeat split; auto; left; assumption.
Qed.

Definition is_some {A} (o : option A) : bool := match o with Some _ => true | None => false end.

(* identifiers: hard-coded names (PEEK/POP only when pp), defined rules, Unicode properties *)
Definition ident_ok (n : name) : bool :=
  if is_builtin n then pp || negb (str_eqb n (nm "PEEK") || str_eqb n (nm "POP"))
  else has_orule OG n || is_some (uranges n).

(* a tagged expression must produce a node of its own whenever it matches (else the VM tags the previous node) *)
Fixpoint emits_last (e : oexpr) : bool :=
  match e with
  | OIdent n =>
      negb (is_builtin n) && negb (is_special_name n) &&
      match find_orule OG n with
      | Some r => match oty r with RCompound | RNonAtomic => true | _ => false end
      | None => false
      end
  | OSeq _ r => emits_last r
  | OChoice l r => emits_last l && emits_last r
  | ORepOnce x | OPush x | ONodeTag x _ | ORestoreOnErr x => emits_last x
  | _ => false
  end.

Fixpoint in_fragment (e : oexpr) : bool :=
  match e with
  | OStr _ | OInsens _ | ORange _ _ | OSkip _ | OPushLiteral _ | OPeekSlice _ _ => true
  | OIdent n => ident_ok n
  | OPosPred x | ONegPred x | OOpt x | ORep x | OPush x | ORestoreOnErr x => in_fragment x
  | ORepOnce x => extras && in_fragment x
  | OSeq l r | OChoice l r => in_fragment l && in_fragment r
  | ONodeTag x _ => in_fragment x && emits_last x
  end.

(* string constants are Rust &str: valid UTF-8 *)
Fixpoint lits_valid (e : oexpr) : Prop :=
  match e with
  | OStr s | OInsens s | OPushLiteral s => valid_utf8 s
  | OSkip ss => Forall valid_utf8 ss
  | OPosPred x | ONegPred x | OOpt x | ORep x | ORepOnce x | OPush x | ONodeTag x _ | ORestoreOnErr x => lits_valid x
  | OSeq l r | OChoice l r => lits_valid l /\ lits_valid r
  | _ => True
  end.

Definition K : nat := List.length OG.

Record grammar_ok : Prop := {
  go_nodup : NoDup (map oname OG);
  (* pest_vm lets a rule of the grammar shadow a hard-coded name (fix 76a77f3), the Spec resolves the hard-coded names
     first: the two agree only when no rule bears such a name *)
  go_names : forall r, In r OG -> is_builtin (oname r) = false;
  go_frag : forall r, In r OG -> in_fragment (oexpr_of r) = true;
  go_rok : forall r, In r OG -> rokP K (oexpr_of r);
  go_lits : forall r, In r OG -> lits_valid (oexpr_of r);
  (* the implicit-skip repetitions `WHITESPACE*` / `COMMENT*` go on after a failed call *)
  go_ws : has_orule OG (nm "WHITESPACE") = true -> fclean K (OIdent (nm "WHITESPACE")) = true;
  go_cm : has_orule OG (nm "COMMENT") = true -> fclean K (OIdent (nm "COMMENT")) = true }.

(* ---------- name resolution: Spec on embed_g OG  vs  VM on OG ---------- *)
Lemma find_rule_embed n : find_rule (embed_g OG) n = option_map embed_rule (find_orule OG n).
Proof.
  induction OG as [|r g IH]; [reflexivity|]. cbn [embed_g map find_rule find_orule].
  fold (embed_g g). rewrite IH. destruct (find_orule g n); cbn; [reflexivity|].
  destruct (str_eqb (oname r) n); reflexivity.
Qed.

Lemma has_rule_embed n : has_rule (embed_g OG) n = has_orule OG n.
Proof. unfold has_rule, has_orule. rewrite find_rule_embed. destruct (find_orule OG n); reflexivity. Qed.

Lemma rule_names_embed : map rname (embed_g OG) = map oname OG.
Proof. unfold embed_g. rewrite map_map. apply map_ext. reflexivity. Qed.

Lemma rule_id_embed n : rule_id (embed_g OG) n = orule_id OG n.
Proof.
  unfold rule_id, orule_id, rule_names, onames. rewrite rule_names_embed. unfold embed_g. rewrite map_length. reflexivity.
Qed.

Lemma find_orule_some g n r : find_orule g n = Some r -> In r g /\ oname r = n.
Proof.
  induction g as [|r0 g IH]; [discriminate|]. cbn [find_orule].
  destruct (find_orule g n) as [x|] eqn:Ef.
  - intros [= <-]. destruct (IH eq_refl) as [H1 H2]. split; [right; exact H1|exact H2].
  - destruct (str_eqb (oname r0) n) eqn:Eq; [|discriminate]. intros [= <-].
    split; [left; reflexivity|now apply str_eqb_eq].
Qed.

Lemma builtin_not_rule n : (forall r, In r OG -> is_builtin (oname r) = false) -> is_builtin n = true -> has_orule OG n = false.
Proof.
  intros H B. unfold has_orule. destruct (find_orule OG n) as [r|] eqn:Ef; [|reflexivity].
  destruct (find_orule_some OG n r Ef) as [Hin Hn]. specialize (H r Hin). congruence.
Qed.

Lemma index_of_find g n r : NoDup (map oname g) -> find_orule g n = Some r ->
  forall k, exists i, index_of (map oname g) n k = Some (k + i) /\ nth_error g i = Some r.
Proof.
  induction g as [|r0 g IH]; [discriminate|]. intros ND Hf k. cbn [find_orule] in Hf. cbn [map index_of].
  inversion ND as [|? ? Hnin ND']; subst.
  destruct (find_orule g n) as [x|] eqn:Ef.
  - injection Hf as ->. destruct (find_orule_some g n r Ef) as [Hin Hn].
    assert (Ne : oname r0 <> n). { intros Heq. apply Hnin. rewrite Heq, <- Hn. now apply in_map. }
    rewrite (str_eqb_neq _ _ Ne). destruct (IH ND' eq_refl (S k)) as (i & H1 & H2).
    exists (S i). split; [rewrite H1; f_equal; lia|exact H2].
  - destruct (str_eqb (oname r0) n) eqn:Eq; [|discriminate]. injection Hf as ->.
    exists 0. split; [f_equal; lia|reflexivity].
Qed.

Lemma env_lookup n r : NoDup (map oname OG) -> find_orule OG n = Some r ->
  vm_env OG uranges (orule_id OG n) = Some (vm_rule_body OG uranges r).
Proof.
  intros ND Hf. destruct (index_of_find OG n r ND Hf 0) as (i & H1 & H2).
  unfold vm_env, orule_id, onames. rewrite H1. cbn [plus]. rewrite H2. reflexivity.
Qed.

(* ---------- validity of the compiled programs (for the boundary invariant) ---------- *)
Lemma valid_ascii l : Forall (fun b => (b < 128)%N) l -> valid_utf8 l.
Proof.
  intros H. exists l. split.
  - eapply Forall_impl; [|exact H]. intros b Hb. left. cbn in Hb. lia.
  - induction H as [|b l Hb _ IH]; [reflexivity|]. cbn [flat_map]. rewrite <- IH. unfold encode.
    destruct (N.ltb_spec b 128); [reflexivity|lia].
Qed.

Lemma pv_call n : prog_valid (vm_call OG uranges n).
Proof.
  unfold vm_call, prim_range. destruct (has_orule OG n); [exact I|].
  repeat match goal with |- prog_valid (if str_eqb ?a ?b then _ else _) => destruct (str_eqb a b); [cbn; auto|] end.
  - cbn. repeat split; apply valid_ascii; repeat constructor.
  - destruct (uranges n); cbn; auto.
Qed.

Lemma pv_skip : prog_valid (vm_skip OG uranges).
Proof.
  unfold vm_skip. pose proof (pv_call (nm "WHITESPACE")). pose proof (pv_call (nm "COMMENT")).
  destruct (has_orule OG _), (has_orule OG _); cbn [prog_valid prim_valid]; auto.
Qed.

Lemma pv_expr e : lits_valid e -> prog_valid (vm_expr OG uranges e).
Proof.
  induction e; cbn [lits_valid vm_expr prog_valid prim_valid]; auto; try tauto.
  - intros _. apply pv_call.
  - intros [H1 H2]. pose proof pv_skip. auto.
  - intros H. pose proof pv_skip. auto.
  - intros H. pose proof pv_skip. auto.
Qed.

Lemma pv_rule_body r : lits_valid (oexpr_of r) -> prog_valid (vm_rule_body OG uranges r).
Proof.
  intros H. apply pv_expr in H. unfold vm_rule_body. destruct (is_special_name _), (oty r); cbn; exact H.
Qed.

Lemma env_valid_vm : (forall r, In r OG -> lits_valid (oexpr_of r)) -> env_valid (vm_env OG uranges).
Proof.
  intros H f q. unfold vm_env. destruct (nth_error OG f) as [r|] eqn:En; [|discriminate].
  intros [= <-]. apply pv_rule_body. apply H. eapply nth_error_In; eauto.
Qed.

End Gram.
