(* Layer S: the documented PEG semantics of the pest grammar language (DESIGN.md Appendix A).
   spec_eval is a total function with fuel (bounding recursion depth and loop iterations).
   A failing expression returns NO state: the stack and the position are simply those of the caller.
   Tokens are returned directly as a forest  Node rule tag start end children.                 *)
From Coq Require Import List Arith NArith ZArith Bool String Ascii.
Import ListNotations.
Require Import PV.Comb.PState PV.Comb.Bytes PV.Iter.Queue PV.Peg.Ast.

Inductive sres := SMatch (p : nat) (sg : list str) (f : list tree) | SFail | SFuel.

(* the stack sg is a plain list, top first *)

Section Spec.
Variable G : grammar.
Variable extras : bool.                      (* the grammar-extras feature set *)
Variable uprop : name -> option (N -> bool). (* Unicode property rules by name (C16) *)
Variable w : list byte.                      (* the input *)

Definition rule_names : list name := map rname G.
Definition rule_id (n : name) : nat :=
  match index_of rule_names n 0 with Some k => k | None => List.length G end.   (* EOI: one past the end *)
Definition tag_id (t : name) : nat :=                                      (* tags numbered by content *)
  fold_left (fun acc b => acc * 256 + N.to_nat b) t 0.

Definition has_rule (n : name) : bool := match find_rule G n with Some _ => true | None => false end.

Definition lit (s : str) (p : nat) : option nat :=
  if prefixb s (skipn p w) then Some (p + List.length s) else None.

Fixpoint lit_all (l : list str) (p : nat) : option nat :=
  match l with [] => Some p | s :: r => match lit s p with Some q => lit_all r q | None => None end end.

Definition char_here (p : nat) : option (N * nat) := decode1 (skipn p w).

Definition one_char (ok : N -> bool) (p : nat) (sg : list str) : sres :=
  match char_here p with
  | Some (c, n) => if ok c then SMatch (p + n) sg [] else SFail
  | None => SFail
  end.

Definition in_range (lo hi c : N) : bool := (lo <=? c)%N && (c <=? hi)%N.

(* built-in rules that are single characters / fixed strings *)
Definition ascii_builtin (n : name) : option (N -> bool) :=
  if str_eqb n (nm "ASCII_DIGIT") then Some (in_range 48 57)
  else if str_eqb n (nm "ASCII_NONZERO_DIGIT") then Some (in_range 49 57)
  else if str_eqb n (nm "ASCII_BIN_DIGIT") then Some (in_range 48 49)
  else if str_eqb n (nm "ASCII_OCT_DIGIT") then Some (in_range 48 55)
  else if str_eqb n (nm "ASCII_HEX_DIGIT") then Some (fun c => in_range 48 57 c || in_range 97 102 c || in_range 65 70 c)
  else if str_eqb n (nm "ASCII_ALPHA_LOWER") then Some (in_range 97 122)
  else if str_eqb n (nm "ASCII_ALPHA_UPPER") then Some (in_range 65 90)
  else if str_eqb n (nm "ASCII_ALPHA") then Some (fun c => in_range 97 122 c || in_range 65 90 c)
  else if str_eqb n (nm "ASCII_ALPHANUMERIC") then Some (fun c => in_range 97 122 c || in_range 65 90 c || in_range 48 57 c)
  else if str_eqb n (nm "ASCII") then Some (in_range 0 127)
  else if str_eqb n (nm "ANY") then Some (fun _ => true)
  else None.

(* index normalisation of PEEK[i..j] against the stack size (negative = from the top) *)
Definition norm_idx (i : Z) (len : nat) : option nat :=
  if (Z.of_nat len <? i)%Z then None
  else if (0 <=? i)%Z then Some (Z.to_nat i)
  else if (0 <=? Z.of_nat len + i)%Z then Some (Z.to_nat (Z.of_nat len + i)) else None.

(* iterate a unit while it matches; a failing unit contributes nothing *)
Fixpoint loop (n : nat) (unit : nat -> list str -> sres) (p : nat) (sg : list str) (acc : list tree) : sres :=
  match n with
  | O => SFuel
  | S n' =>
    match unit p sg with
    | SMatch p' sg' f => loop n' unit p' sg' (acc ++ f)
    | SFail => SMatch p sg acc
    | SFuel => SFuel
    end
  end.

Definition tok (a : atom) (emit : bool) : bool := emit && negb (atom_eqb a Atomic).

Definition is_special (n : name) : bool := str_eqb n (nm "WHITESPACE") || str_eqb n (nm "COMMENT").

(* (does the rule produce its own node?, atomicity of its body) *)
Definition rule_mode (special : bool) (m : rtype) (a : atom) (emit : bool) : bool * atom :=
  if special then
    match m with
    | RNormal | RAtomic => (tok a emit, Atomic)
    | RSilent => (false, Atomic)
    | RCompound => (emit, CompoundAtomic)
    | RNonAtomic => (false, Atomic)
    end
  else
    match m with
    | RNormal => (tok a emit, a)
    | RSilent => (false, a)
    | RAtomic => (tok a emit, Atomic)
    | RCompound => (emit, CompoundAtomic)
    | RNonAtomic => (emit, NonAtomic)
    end.

(* label the last top-level node of a forest *)
Fixpoint tag_last (f : list tree) (t : nat) : list tree :=
  match f with
  | [] => []
  | [Node r _ s e ch] => [Node r (Some t) s e ch]
  | x :: r => x :: tag_last r t
  end.

(* the helpers of `eval`, parametric in the evaluator `ev` for sub-expressions (= eval with the
   remaining fuel) and in the iteration budget f *)
Definition evaluator := atom -> bool -> expr -> nat -> list str -> sres.

Definition many_with (ev : evaluator) (f : nat) (a : atom) (emit : bool) (n : name) (p : nat) (sg : list str) (acc : list tree) : sres :=
  loop f (fun p sg => ev a emit (EIdent n) p sg) p sg acc.

(* implicit whitespace between the elements of sequences and repetitions *)
Definition skip_with (ev : evaluator) (f : nat) (a : atom) (emit : bool) (p : nat) (sg : list str) : sres :=
  if negb (atom_eqb a NonAtomic) then SMatch p sg [] else
  match has_rule (nm "WHITESPACE"), has_rule (nm "COMMENT") with
  | false, false => SMatch p sg []
  | true, false => many_with ev f a emit (nm "WHITESPACE") p sg []
  | false, true => many_with ev f a emit (nm "COMMENT") p sg []
  | true, true =>
    match many_with ev f a emit (nm "WHITESPACE") p sg [] with
    | SMatch p1 sg1 f1 =>
      loop f (fun p sg => match ev a emit (EIdent (nm "COMMENT")) p sg with
                          | SMatch p2 sg2 f2 => many_with ev f a emit (nm "WHITESPACE") p2 sg2 f2
                          | r => r end) p1 sg1 f1
    | r => r
    end
  end.

(* one more iteration of a repetition: [skip ; x]; a unit whose x fails contributes nothing *)
Definition rep_unit (ev : evaluator) (f : nat) (a : atom) (emit : bool) (x : expr) (p : nat) (sg : list str) : sres :=
  match skip_with ev f a emit p sg with
  | SMatch p1 sg1 f1 =>
    match ev a emit x p1 sg1 with SMatch p2 sg2 f2 => SMatch p2 sg2 (f1 ++ f2) | r => r end
  | r => r
  end.
Definition rep_from_with (ev : evaluator) (f : nat) (a : atom) (emit : bool) (x : expr) (p : nat) (sg : list str) (acc : list tree) : sres :=
  loop f (rep_unit ev f a emit x) p sg acc.

Fixpoint eval (fuel : nat) (a : atom) (emit : bool) (e : expr) (p : nat) (sg : list str) {struct fuel} : sres :=
  match fuel with
  | O => SFuel
  | S f =>
    let ev := eval f in
    let skip := skip_with ev f a emit in
    let rep_from := rep_from_with ev f a emit in
    match e with
    | EStr s => match lit s p with Some q => SMatch q sg [] | None => SFail end
    | EInsens s =>
        if boundaryb w (p + List.length s) && prefixb_ci s (skipn p w) then SMatch (p + List.length s) sg [] else SFail
    | ERange lo hi => one_char (in_range lo hi) p sg
    | EPeekSlice i j =>
        let len := List.length sg in
        match norm_idx i len, (match j with None => Some len | Some j' => norm_idx j' len end) with
        | Some s0, Some e0 =>
            if Nat.leb e0 s0 then SMatch p sg []
            else match lit_all (firstn (e0 - s0) (skipn s0 (rev sg))) p with Some q => SMatch q sg [] | None => SFail end
        | _, _ => SFail
        end
    | EIdent n =>
        if str_eqb n (nm "SOI") then (if Nat.eqb p 0 then SMatch p sg [] else SFail)
        else if str_eqb n (nm "EOI") then
          (if Nat.eqb p (List.length w) then SMatch p sg (if tok a emit then [Node (rule_id (nm "EOI")) None p p []] else []) else SFail)
        else if str_eqb n (nm "PEEK") then
          match sg with top :: _ => match lit top p with Some q => SMatch q sg [] | None => SFail end | [] => SFail end
        else if str_eqb n (nm "POP") then
          match sg with top :: r => match lit top p with Some q => SMatch q r [] | None => SFail end | [] => SFail end
        else if str_eqb n (nm "DROP") then
          match sg with _ :: r => SMatch p r [] | [] => SFail end
        else if str_eqb n (nm "PEEK_ALL") then
          match lit_all sg p with Some q => SMatch q sg [] | None => SFail end
        else if str_eqb n (nm "POP_ALL") then
          match lit_all sg p with Some q => SMatch q [] [] | None => SFail end
        else if str_eqb n (nm "NEWLINE") then
          match lit [10%N] p with Some q => SMatch q sg [] | None =>
          match lit [13%N; 10%N] p with Some q => SMatch q sg [] | None =>
          match lit [13%N] p with Some q => SMatch q sg [] | None => SFail end end end
        else match ascii_builtin n with
        | Some ok => one_char ok p sg
        | None =>
          match find_rule G n with
          | Some r =>
              let '(tk, a2) := rule_mode (is_special n) (rty r) a emit in
              match ev a2 emit (rexpr r) p sg with
              | SMatch q sg2 f2 => SMatch q sg2 (if tk then [Node (rule_id n) None p q f2] else f2)
              | r => r
              end
          | None =>
              match uprop n with
              | Some ok => one_char ok p sg
              | None => SFail            (* undefined rule: rejected by the validator *)
              end
          end
        end
    | ESeq l r =>
        match ev a emit l p sg with
        | SMatch p1 sg1 f1 =>
          match skip p1 sg1 with
          | SMatch p2 sg2 f2 =>
            match ev a emit r p2 sg2 with
            | SMatch p3 sg3 f3 => SMatch p3 sg3 (f1 ++ f2 ++ f3)
            | x => x
            end
          | x => x
          end
        | x => x
        end
    | EChoice l r =>
        match ev a emit l p sg with
        | SFail => ev a emit r p sg
        | x => x
        end
    | EOpt x =>
        match ev a emit x p sg with
        | SFail => SMatch p sg []
        | r => r
        end
    | ERep x =>
        match ev a emit x p sg with
        | SMatch p1 sg1 f1 => rep_from x p1 sg1 f1
        | SFail => SMatch p sg []
        | SFuel => SFuel
        end
    | ERepOnce x =>
        if extras then
          match ev a emit x p sg with
          | SMatch p1 sg1 f1 => rep_from x p1 sg1 f1
          | r => r
          end
        else ev a emit (ESeq x (ERep x)) p sg
    | ERepExact _ _ | ERepMin _ _ | ERepMax _ _ | ERepMinMax _ _ _ =>
        match unroll_node extras e with
        | Some u => ev a emit u p sg
        | None => SFail                  (* count rejected by the grammar reader *)
        end
    | EPosPred x =>
        match ev a false x p sg with
        | SMatch _ _ _ => SMatch p sg []
        | r => r
        end
    | ENegPred x =>
        match ev a false x p sg with
        | SMatch _ _ _ => SFail
        | SFail => SMatch p sg []
        | SFuel => SFuel
        end
    | EPush x =>
        match ev a emit x p sg with
        | SMatch q sg2 f2 => SMatch q (firstn (q - p) (skipn p w) :: sg2) f2
        | r => r
        end
    | EPushLiteral s => SMatch p (s :: sg) []
    | ESkip ss =>
        SMatch (skip_until_basic w p ss) sg []
    | ENodeTag x t =>
        match ev a emit x p sg with
        | SMatch q sg2 f2 => SMatch q sg2 (tag_last f2 (tag_id t))
        | r => r
        end
    end
  end.

(* parsing from a rule: the rule's own expression from position 0 with an empty stack *)
Definition spec_parse (fuel : nat) (r : name) : sres := eval fuel NonAtomic true (EIdent r) 0 [].

End Spec.
