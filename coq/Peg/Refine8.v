(* C01, part 8: the implicit skip and node tags under the induction hypothesis.                    *)
From Coq Require Import List Arith NArith ZArith Bool String Lia.
Import ListNotations.
Require Import PV.Iter.Queue PV.Iter.QueueFacts.
Require Import PV.Stack.Model PV.Stack.Proofs PV.Comb.PState PV.Comb.Bytes PV.Comb.Prog PV.Comb.Exec.
Require Import PV.Comb.Frame PV.Comb.Contracts PV.Comb.Utf8 PV.Comb.Utf8b PV.Comb.Utf8c.
Require Import PV.Peg.Ast PV.Peg.Spec PV.Peg.VmCompile.
Require Import PV.Peg.Refine0 PV.Peg.Refine1 PV.Peg.Refine2 PV.Peg.Refine3 PV.Peg.Refine4 PV.Peg.Refine5 PV.Peg.Refine5b
  PV.Peg.Refine6 PV.Peg.Refine7.

Arguments Nat.sub : simpl never.
Arguments Nat.mul : simpl never.
Arguments Nat.ltb : simpl never.
Arguments Nat.leb : simpl never.
Arguments Nat.eqb : simpl never.
Arguments skipn : simpl never.
Arguments firstn : simpl never.

Lemma loop_ext n (u1 u2 : nat -> list str -> sres) : (forall p sg, u1 p sg = u2 p sg) ->
  forall p sg acc, loop n u1 p sg acc = loop n u2 p sg acc.
Proof.
  intros H. induction n as [|n IH]; intros p sg acc; [reflexivity|]. cbn [loop]. rewrite H.
  destruct (u2 p sg); auto.
Qed.

Section Skip.
Variable OG : ogrammar.
Variable extras : bool.
Variable uranges : name -> option (list (N * N)).
Variable pp : bool.
Variable cfg : config.
Variable w : list byte.
Hypothesis Hcfg : cfg_ok cfg.
Hypothesis HG : grammar_ok OG extras uranges pp.

Notation G := (embed_g OG).
Notation E := (vm_env OG uranges).
Notation ev := (eval G extras (uprop uranges) w).
Notation psim := (psim cfg E w pp).
Notation pbsim := (pbsim cfg E w pp).
Notation vm_expr := (vm_expr OG uranges).
Notation vm_call := (vm_call OG uranges).
Notation vm_skip := (vm_skip OG uranges).
Notation sim_at := (sim_at OG extras uranges pp cfg w).
Notation K := (K OG).
Notation HE := (HE OG extras uranges pp HG).

(* a call of a defined, clean rule, as a loop body *)
Lemma sim_rule_call f n a emit p sg : sim_at f -> has_orule OG n = true -> is_builtin n = false ->
  fclean OG K (OIdent n) = true -> psim True (vm_call n) a emit p sg (ev f a emit (EIdent n) p sg).
Proof.
  intros IH Hr NB Hc.
  assert (Fr : in_fragment OG extras uranges pp (OIdent n) = true).
  { cbn [in_fragment]. unfold ident_ok. rewrite NB, Hr. reflexivity. }
  apply (psim_weaken cfg E w pp (ClS OG (OIdent n)) True); [intros _; left; exists K; exact Hc|].
  apply (IH (OIdent n)); [exact Fr|exact Logic.I|exact Logic.I].
Qed.

Lemma sim_many f n a emit p sg : sim_at f -> has_orule OG n = true -> is_builtin n = false ->
  fclean OG K (OIdent n) = true ->
  psim True (PRepeat (vm_call n)) a emit p sg (many_with (ev f) f a emit n p sg []).
Proof.
  intros IH Hr NB Hc. unfold many_with. apply psim_repeat.
  apply (psim_loop cfg E w pp Hcfg HE True (vm_call n) a emit (fun p0 sg0 => ev f a emit (EIdent n) p0 sg0)).
  - apply pv_call.
  - intros p0 sg0. now apply sim_rule_call.
Qed.

Lemma ws_nb : is_builtin (nm "WHITESPACE") = false. Proof. reflexivity. Qed.
Lemma cm_nb : is_builtin (nm "COMMENT") = false. Proof. reflexivity. Qed.

Lemma skip_tt_eq (evl : evaluator) f a emit p sg :
  match many_with evl f a emit (nm "WHITESPACE") p sg [] with
  | SMatch p1 sg1 f1 =>
      loop f (fun p sg => match evl a emit (EIdent (nm "COMMENT")) p sg with
                          | SMatch p2 sg2 f2 => many_with evl f a emit (nm "WHITESPACE") p2 sg2 f2
                          | r => r end) p1 sg1 f1
  | r => r
  end =
  sres_bind (many_with evl f a emit (nm "WHITESPACE") p sg [])
    (fun p1 sg1 => loop f (fun p sg => sres_bind (evl a emit (EIdent (nm "COMMENT")) p sg)
                                          (fun p2 sg2 => many_with evl f a emit (nm "WHITESPACE") p2 sg2 [])) p1 sg1 []).
Proof.
  destruct (many_with evl f a emit (nm "WHITESPACE") p sg []) as [p1 sg1 f1| |]; cbn [sres_bind]; auto.
  rewrite loop_acc. erewrite loop_ext; [reflexivity|]. intros p0 sg0. cbn beta.
  destruct (evl a emit (EIdent (nm "COMMENT")) p0 sg0) as [p2 sg2 f2| |]; cbn [sres_bind]; auto.
  unfold many_with. apply loop_acc.
Qed.

Lemma sim_skip f a emit p sg : sim_at f -> psim True vm_skip a emit p sg (skip_with G (ev f) f a emit p sg).
Proof.
  intros IH. unfold skip_with, VmCompile.vm_skip. rewrite !has_rule_embed.
  pose proof (go_ws _ _ _ _ HG) as CW. pose proof (go_cm _ _ _ _ HG) as CC.
  destruct (has_orule OG (nm "WHITESPACE")) eqn:HW, (has_orule OG (nm "COMMENT")) eqn:HC.
  - (* both *)
    apply psim_ifna. destruct a; cbn [atom_eqb negb]; try apply psim_ok.
    rewrite skip_tt_eq. apply psim_sequence. apply pbsim_andthen; [exact Hcfg|exact HE|apply pv_call| |].
    + eapply psim_pbsim. apply sim_many; auto using ws_nb.
    + intros p1 sg1 f1 _. eapply psim_pbsim. apply psim_repeat.
      apply (psim_loop cfg E w pp Hcfg HE True _ NonAtomic emit
               (fun p0 sg0 => sres_bind (ev f NonAtomic emit (EIdent (nm "COMMENT")) p0 sg0)
                                (fun p2 sg2 => many_with (ev f) f NonAtomic emit (nm "WHITESPACE") p2 sg2 []))).
      * cbn. split; apply pv_call.
      * intros p0 sg0. apply psim_sequence. apply pbsim_andthen; [exact Hcfg|exact HE|apply pv_call| |].
        -- eapply psim_pbsim. apply sim_rule_call; auto using cm_nb.
        -- intros p2 sg2 f2 _. eapply psim_pbsim. apply sim_many; auto using ws_nb.
  - apply psim_ifna. destruct a; cbn [atom_eqb negb]; try apply psim_ok. apply sim_many; auto using ws_nb.
  - apply psim_ifna. destruct a; cbn [atom_eqb negb]; try apply psim_ok. apply sim_many; auto using cm_nb.
  - destruct (negb (atom_eqb a NonAtomic)); apply psim_ok.
Qed.

Lemma skip_not_fail (evl : evaluator) f a emit p sg : skip_with G evl f a emit p sg <> SFail.
Proof.
  unfold skip_with. destruct (negb _); [discriminate|].
  destruct (has_rule G _), (has_rule G _); try discriminate; try apply loop_not_fail.
  destruct (many_with _ _ _ _ _ _ _ _) eqn:Em; try discriminate; [apply loop_not_fail|].
  exfalso. eapply loop_not_fail; exact Em.
Qed.

(* one more iteration of a repetition *)
Lemma sim_rep_unit f x a emit p sg : sim_at f ->
  in_fragment OG extras uranges pp x = true -> rokP OG K x -> lits_valid x ->
  psim True (PSequence (PAndThen vm_skip (vm_expr x))) a emit p sg (rep_unit G (ev f) f a emit (embed x) p sg).
Proof.
  intros IH Fx Rx Lx. apply psim_sequence.
  change (rep_unit G (ev f) f a emit (embed x) p sg) with
    (sres_bind (skip_with G (ev f) f a emit p sg) (fun p1 sg1 => ev f a emit (embed x) p1 sg1)).
  apply pbsim_andthen; [exact Hcfg|exact HE|apply pv_skip| |].
  - eapply psim_pbsim. now apply sim_skip.
  - intros p1 sg1 f1 _. eapply psim_pbsim. now apply IH.
Qed.

End Skip.
