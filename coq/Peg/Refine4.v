(* C01, part 4: the toolkit continued: look-ahead, rule, atomic, push, restore_on_err, call,
   repetition, and the matching primitives (strings, character classes).                          *)
From Coq Require Import List Arith NArith ZArith Bool Lia.
Import ListNotations.
Require Import PV.Iter.Queue PV.Iter.QueueFacts.
Require Import PV.Stack.Model PV.Stack.Proofs PV.Comb.PState PV.Comb.Bytes PV.Comb.Prog PV.Comb.Exec.
Require Import PV.Comb.Frame PV.Comb.Contracts PV.Comb.Utf8 PV.Comb.Utf8b PV.Comb.Utf8c.
Require Import PV.Peg.Ast PV.Peg.Spec PV.Peg.Refine0 PV.Peg.Refine1 PV.Peg.Refine2 PV.Peg.Refine3.

Arguments Nat.sub : simpl never.
Arguments Nat.mul : simpl never.
Arguments Nat.ltb : simpl never.
Arguments Nat.leb : simpl never.
Arguments Nat.eqb : simpl never.
Arguments skipn : simpl never.
Arguments firstn : simpl never.

Section Toolkit2.
Variable cfg : config.
Variable E : env.
Variable w : list byte.
Variable pp : bool.
Hypothesis Hcfg : cfg_ok cfg.
Hypothesis HE : env_valid E.

Notation runs := (runs cfg E).
Notation rep := (rep w).
Notation psim := (psim cfg E w pp).
Notation pbsim := (pbsim cfg E w pp).
Notation sim_res := (sim_res pp).

(* ---------- look-ahead ---------- *)
Lemma rep_la_state b a emit p sg s : rep a emit p sg s -> rep a false p sg (la_state b s).
Proof.
  intros [G I A L P S]. split; auto.
  - now apply good_la_state.
  - cbn. destruct b, (lookahead s); reflexivity.
Qed.

Lemma psim_lookahead (C C' : Prop) b q a emit p sg r : psim C q a false p sg r ->
  psim C' (PLookahead b q) a emit p sg (sres_la b p sg r).
Proof.
  intros H N s R.
  assert (N1 : r <> SFuel) by (intros ->; apply N; reflexivity).
  destruct (H N1 (la_state b s) (rep_la_state b _ _ _ _ _ R)) as (vr & R1 & S1).
  pose proof (r_good _ _ _ _ _ _ R) as G.
  destruct vr as [s1|s1|k|]; cbn in S1.
  - destruct (la_run cfg E b q s s1 true G R1) as (s2 & R2 & B1 & B2 & B3).
    destruct r as [p1 sg1 f1| |]; try contradiction. cbn [sres_la].
    destruct b; cbn [Bool.eqb] in R2; eexists; (split; [exact R2|]); cbn.
    + rewrite B1, B2, B3. split; [apply (r_pos _ _ _ _ _ _ R)|]. split; [apply (r_stack _ _ _ _ _ _ R)|reflexivity].
    + auto.
  - destruct S1 as (-> & _). destruct (la_run cfg E b q s s1 false G R1) as (s2 & R2 & B1 & B2 & B3).
    cbn [sres_la]. destruct b; cbn [Bool.eqb] in R2; eexists; (split; [exact R2|]); cbn.
    + auto.
    + rewrite B1, B2, B3. split; [apply (r_pos _ _ _ _ _ _ R)|]. split; [apply (r_stack _ _ _ _ _ _ R)|reflexivity].
  - exists (RPanic k). split; [apply la_panic; [apply (g_lim _ G)|exact R1]|exact S1].
  - contradiction.
Qed.

(* ---------- rule ---------- *)
Lemma rep_rule_enter a emit p sg s : rep a emit p sg s -> rep a emit p sg (snd (rule_enter s)).
Proof.
  intros R. destruct (rule_enter_facts s) as (_ & e1 & e2 & e3 & e4 & e5 & e6). eapply rep_same; eauto.
Qed.

Lemma emits_tok a emit p sg s : rep a emit p sg s -> emits s = tok a emit.
Proof. intros [G I A L P S]. unfold emits, tok. rewrite L, A. reflexivity. Qed.

Lemma psim_rule (C : Prop) id q a emit p sg r : psim C q a emit p sg r ->
  psim C (PRule id q) a emit p sg (sres_node (tok a emit) id p r).
Proof.
  intros H N s R.
  assert (N1 : r <> SFuel) by (intros ->; apply N; reflexivity).
  destruct (H N1 _ (rep_rule_enter _ _ _ _ _ R)) as (vr & R1 & S1).
  pose proof (r_good _ _ _ _ _ _ R) as G. pose proof (emits_tok _ _ _ _ _ R) as Em.
  destruct (rule_enter_facts s) as (Q & e1 & e2 & e3 & e4 & e5 & e6). cbv zeta in Q.
  destruct vr as [sb|sb|k|]; cbn in S1.
  - destruct r as [p1 sg1 f1| |]; try contradiction. destruct S1 as (A1 & A2 & A3).
    destruct (rule_ok_run cfg E id q s sb _ G R1 A3) as (s' & R2 & B1 & B2 & B3).
    exists (ROk s'). split; [exact R2|]. cbn. rewrite B1, B2. split; [exact A1|]. split; [exact A2|].
    rewrite B3, Em. rewrite Em in Q. destruct (tok a emit).
    + rewrite toks_node, Q, toks_length. cbn [length app]. rewrite <- app_assoc. cbn [app].
      rewrite A1, (r_pos _ _ _ _ _ _ R).
      replace (S (2 * fsize f1 + length (queue s))) with (S (length (queue s)) + 2 * fsize f1) by lia. reflexivity.
    + rewrite A3, Q. reflexivity.
  - destruct S1 as (-> & A1 & A2 & A3).
    destruct (rule_err_run cfg E id q s sb [] G R1 A2) as (s' & R2 & B1 & B2 & B3).
    exists (RErr s'). split; [exact R2|]. cbn. split; [reflexivity|]. split; [congruence|]. split.
    + rewrite B3, Em. rewrite Em in Q. destruct (tok a emit); [reflexivity|]. rewrite A2, Q. reflexivity.
    + intros HC. rewrite B2, A3 by exact HC. rewrite e5. reflexivity.
  - exists (RPanic k). split; [apply rule_panic; [apply (g_lim _ G)|exact R1]|exact S1].
  - contradiction.
Qed.

(* ---------- atomic ---------- *)
Lemma rep_at_enter a2 a emit p sg s : rep a emit p sg s -> rep a2 emit p sg (at_enter a2 s).
Proof.
  intros [G I A L P S]. destruct (at_enter_facts a2 s) as (e0 & e1 & e2 & e3 & e4 & e5 & e6).
  split; try congruence. now apply good_at_enter.
Qed.

Lemma psim_atomic (C : Prop) a2 q a emit p sg r : psim C q a2 emit p sg r -> psim C (PAtomic a2 q) a emit p sg r.
Proof.
  intros H N s R. destruct (H N _ (rep_at_enter a2 _ _ _ _ _ R)) as (vr & R1 & S1).
  pose proof (g_lim _ (r_good _ _ _ _ _ _ R)) as L.
  pose proof (runs_atomic cfg E a2 q s vr L R1) as RA.
  destruct (at_enter_facts a2 s) as (e0 & e1 & e2 & e3 & e4 & e5 & e6).
  exists (at_fin a2 s vr). split; [exact RA|].
  destruct vr as [s1|s1|k|]; cbn [at_fin]; cbn in S1; auto;
    destruct (at_leave_facts a2 s s1) as (l1 & l2 & l3); cbn; rewrite l1, l2, l3.
  - destruct r; try contradiction. rewrite e3 in S1. exact S1.
  - rewrite e2, e3, e5 in S1. exact S1.
Qed.

(* ---------- stack_push ---------- *)
Lemma psim_push (C : Prop) q a emit p sg r : prog_valid q -> psim C q a emit p sg r ->
  psim C (PStackPush q) a emit p sg
    (match r with SMatch q' sg2 f2 => SMatch q' (firstn (q' - p) (skipn p w) :: sg2) f2 | SFail => SFail | SFuel => SFuel end).
Proof.
  intros V H N s R.
  assert (N1 : r <> SFuel) by (intros ->; apply N; reflexivity).
  destruct (H N1 s R) as (vr & R1 & S1). pose proof (r_good _ _ _ _ _ _ R) as G. pose proof (g_lim _ G) as L.
  destruct vr as [s1|s1|k|]; cbn in S1.
  - destruct r as [p1 sg1 f1| |]; try contradiction. destruct S1 as (A1 & A2 & A3).
    pose proof (run_inv cfg E Hcfg HE q s _ G V R1) as [G1 K1]. destruct K1 as [k1 k2 k3 k4].
    eexists. split; [apply push_ok_run; [exact L|exact k4|exact R1]|]. cbn.
    rewrite A1, A2, k1, (r_pos _ _ _ _ _ _ R), (r_input _ _ _ _ _ _ R). auto.
  - exists (RErr s1). split; [|destruct S1 as (-> & S1); cbn; auto].
    exact (runs_push cfg E q s _ L R1).
  - exists (RPanic k). split; [exact (runs_push cfg E q s _ L R1)|exact S1].
  - contradiction.
Qed.

(* ---------- restore_on_err ---------- *)
Lemma psim_restore (C C' : Prop) q a emit p sg r : psim C q a emit p sg r -> psim C' (PRestoreOnErr q) a emit p sg r.
Proof.
  intros H N s R. destruct (H N _ (rep_checkpoint _ _ _ _ _ _ R)) as (vr & R1 & S1).
  pose proof (r_good _ _ _ _ _ _ R) as G.
  destruct vr as [s1|s1|k|]; cbn in S1.
  - destruct (roe_ok cfg E q s s1 G R1) as (s2 & R2 & B1 & B2 & B3).
    exists (ROk s2). split; [exact R2|]. cbn. destruct r; try contradiction. rewrite B1, B2, B3. exact S1.
  - destruct S1 as (-> & A1 & A2 & _). destruct (roe_err cfg E q s s1 G R1) as (s2 & R2 & B1 & B2 & B3).
    exists (RErr s2). split; [exact R2|]. cbn. rewrite B1, B2. auto.
  - exists (RPanic k). split; [exact (runs_restore cfg E q s _ R1)|exact S1].
  - contradiction.
Qed.

(* ---------- call / if-non-atomic ---------- *)
Lemma psim_call (C : Prop) f q a emit p sg r : E f = Some q -> psim C q a emit p sg r -> psim C (PCall f) a emit p sg r.
Proof.
  intros Ef H N s R. destruct (H N s R) as (vr & R1 & S1). exists vr. split; [eapply runs_call; eauto|exact S1].
Qed.

Lemma psim_ifna (C : Prop) q1 q2 a emit p sg r :
  psim C (if atom_eqb a NonAtomic then q1 else q2) a emit p sg r -> psim C (PIfNonAtomic q1 q2) a emit p sg r.
Proof.
  intros H N s R. destruct (H N s R) as (vr & R1 & S1). exists vr. split; [|exact S1].
  apply runs_ifna. rewrite (r_at _ _ _ _ _ _ R). exact R1.
Qed.

Lemma psim_ok (C : Prop) a emit p sg : psim C (PPrim MOk) a emit p sg (SMatch p sg []).
Proof.
  intros _ s R. exists (ROk s). split; [apply runs_prim; [reflexivity|discriminate]|].
  cbn. split; [apply (r_pos _ _ _ _ _ _ R)|]. split; [apply (r_stack _ _ _ _ _ _ R)|reflexivity].
Qed.

(* ---------- repetition ---------- *)
Lemma psim_loop (C : Prop) body a emit (u : nat -> list str -> sres) : prog_valid body ->
  (forall p sg, psim True body a emit p sg (u p sg)) ->
  forall n p sg, psim C (PRepeatLoop body) a emit p sg (loop n u p sg []).
Proof.
  intros V H. induction n as [|n IH]; intros p sg N s R; [exfalso; apply N; reflexivity|].
  rewrite loop_unroll in *.
  assert (N1 : u p sg <> SFuel) by (intros Hu; rewrite Hu in N; apply N; reflexivity).
  destruct (H p sg N1 s R) as (vr1 & R1 & S1).
  destruct vr1 as [s1|s1|k|]; cbn in S1.
  - destruct (u p sg) as [p1 sg1 f1| |]; try contradiction. destruct S1 as (A1 & A2 & A3).
    cbn [sres_bind sres_opt] in *.
    pose proof (loop_not_fail n u p1 sg1 []) as NF.
    assert (N2 : loop n u p1 sg1 [] <> SFuel).
    { intros Hl. rewrite Hl in N. apply N. reflexivity. }
    assert (R' : rep a emit p1 sg1 s1) by (apply (rep_step cfg E w Hcfg HE body a emit p sg s s1 p1 sg1 true R V R1 A1 A2)).
    destruct (IH p1 sg1 N2 s1 R') as (vr2 & R2 & S2).
    exists vr2. split; [eapply runs_loop_ok; eauto|].
    destruct vr2 as [s2|s2|k|]; cbn in *; auto.
    + destruct (loop n u p1 sg1 []) as [p2 sg2 f2| |]; try contradiction. destruct S2 as (B1 & B2 & B3). cbn.
      split; [exact B1|]. split; [exact B2|]. rewrite B3, A3, app_length, toks_length, toks_app, <- app_assoc.
      replace (2 * fsize f1 + length (queue s)) with (length (queue s) + 2 * fsize f1) by lia. reflexivity.
    + destruct S2 as (B0 & _). congruence.
  - destruct S1 as (Hu & A1 & A2 & A3). rewrite Hu in *. cbn [sres_bind sres_opt].
    exists (ROk s1). split; [eapply runs_loop_err; eauto|]. cbn. rewrite A1, A2, A3 by exact I.
    split; [apply (r_pos _ _ _ _ _ _ R)|]. split; [apply (r_stack _ _ _ _ _ _ R)|reflexivity].
  - exists (RPanic k). split; [apply runs_loop_panic; exact R1|exact S1].
  - contradiction.
Qed.

Lemma psim_repeat (C : Prop) body a emit p sg r :
  psim C (PRepeatLoop body) a emit p sg r -> psim C (PRepeat body) a emit p sg r.
Proof.
  intros H N s R. destruct (H N s R) as (vr & R1 & S1). exists vr. split; [|exact S1].
  apply runs_repeat; [apply (g_lim _ (r_good _ _ _ _ _ _ R))|exact R1].
Qed.

End Toolkit2.
