(* C01, part 2: rule(), atomic(), stack_push() and the matching primitives: exact effect on position,
   queue and stack when the sub-run is known.                                                      *)
From Coq Require Import List Arith NArith ZArith Bool Lia.
Import ListNotations.
Require Import PV.Iter.Queue PV.Iter.QueueFacts.
Require Import PV.Stack.Model PV.Stack.Proofs PV.Comb.PState PV.Comb.Bytes PV.Comb.Prog PV.Comb.Exec.
Require Import PV.Comb.Frame PV.Comb.Contracts PV.Comb.Utf8 PV.Comb.Utf8b PV.Comb.Utf8c PV.Peg.Ast.
Require Import PV.Peg.Refine0 PV.Peg.Refine1.

Arguments Nat.sub : simpl never.
Arguments Nat.mul : simpl never.
Arguments Nat.ltb : simpl never.
Arguments Nat.leb : simpl never.
Arguments Nat.eqb : simpl never.
Arguments skipn : simpl never.
Arguments firstn : simpl never.

Section Know2.
Variable cfg : config.
Variable E : env.

Notation runs := (runs cfg E).

(* ---------- rule ---------- *)
Lemma rule_enter_facts s :
  let s2 := snd (rule_enter s) in
  queue s2 = (if emits s then QStart 0 (pos s) :: queue s else queue s) /\
  input s2 = input s /\ pos s2 = pos s /\ lookahead s2 = lookahead s /\ atomicity s2 = atomicity s /\
  stack s2 = stack s /\ limit s2 = limit s.
Proof.
  destruct (rule_enter_spec s) as (_ & _ & _ & _ & Q & SQ). cbv zeta in *. destruct SQ. repeat split; auto.
Qed.

Lemma good_rule_enter s : good s -> good (snd (rule_enter s)).
Proof.
  intros G. destruct (rule_enter_facts s) as (_ & e1 & e2 & _ & _ & e3 & e4). eapply good_same; eauto.
Qed.

Lemma rule_ok_run rule p s sb X : good s -> runs p (snd (rule_enter s)) (ROk sb) ->
  queue sb = X ++ queue (snd (rule_enter s)) ->
  exists s', runs (PRule rule p) s (ROk s') /\ pos s' = pos sb /\ stack s' = stack sb /\
    queue s' = (if emits s
                then QEnd (length (queue s)) rule None (pos sb) :: X ++
                     QStart (S (length X + length (queue s))) (pos s) :: queue s
                else queue sb).
Proof.
  intros [W [a I] U L] R Qsb.
  destruct (rule_enter_spec s) as (Rp & Ri & Rc & Rm & Q & SQ). cbv zeta in *.
  set (fr := fst (rule_enter s)) in *. set (s2 := snd (rule_enter s)) in *. dsq SQ.
  assert (W2 : wf s2) by (unfold wf in *; congruence).
  assert (I2 : Inv (stack s2) a) by (rewrite q_stack0; exact I).
  assert (K : exists s', rule_ok rule fr sb = ROk s' /\ pos s' = pos sb /\ stack s' = stack sb /\
    queue s' = (if emits s
                then QEnd (length (queue s)) rule None (pos sb) :: X ++
                     QStart (S (length X + length (queue s))) (pos s) :: queue s
                else queue sb)).
  { destruct R as [_ [m A]]. pose proof (exec_post cfg E m p s2 a W2 I2) as P. rewrite A in P.
    cbn in P. destruct P as (F & Wb & ab & Ib & Sb).
    pose proof (rule_ok_post rule s sb a ab Wb F Ib Sb) as PO. fold fr in PO.
    destruct F as [f_input0 f_la0 f_at0 f_lim0 f_en0 f_calls0 f_pos0 f_mp0 f_cs0 f_queue0].
    unfold rule_ok in *.
    set (sa := if lk_eqb (lookahead sb) LNeg then track sb rule (rf_pos fr) (rf_pai fr) (rf_nai fr) (rf_attempts fr) else sb) in *.
    assert (T : same_but_attempts sb sa) by (unfold sa; destruct (lk_eqb (lookahead sb) LNeg); [apply track_same|split; reflexivity]).
    dtr T.
    assert (Em : emits sa = emits s). { unfold emits. rewrite t_la0, t_at0, f_la0, f_at0, q_la0, q_at0. reflexivity. }
    rewrite Em in *.
    destruct (emits s) eqn:Ee.
    - rewrite Q in Qsb. rewrite Ri, t_queue0, Qsb in *. rewrite set_start_end_exact in *.
      rewrite app_length in *. cbn [length] in *.
      set (sb' := set_queue sa _) in *.
      assert (FIN : forall y, same_core sb' y ->
        pos y = pos sb /\ stack y = stack sb /\
        queue y = QEnd (length (queue s)) rule None (pos sb) :: X ++ QStart (S (length X + length (queue s))) (pos s) :: queue s).
      { intros y C. pose proof (c_queue _ _ C) as cq. pose proof (c_pos _ _ C) as cp. pose proof (c_stack _ _ C) as cs.
        cbn in cq, cp, cs. split; [congruence|]. split; [congruence|]. rewrite cq, t_pos0.
        replace (length X + S (length (queue s))) with (S (length X + length (queue s))) by lia. reflexivity. }
      change (pa_enabled sb') with (pa_enabled sa) in *.
      destruct (pa_enabled sa).
      + destruct (try_add_rule_to_stack sb' rule (rf_csn fr) (rf_max fr)) as [y|] eqn:Ey; cbn [lift] in *.
        * exists y. split; [reflexivity|]. apply FIN. eapply try_add_rule_to_stack_core; eauto.
        * cbn in PO. congruence.
      + exists sb'. split; [reflexivity|]. apply FIN. apply same_core_refl.
    - destruct (pa_enabled sa).
      + destruct (try_add_rule_to_stack sa rule (rf_csn fr) (rf_max fr)) as [y|] eqn:Ey; cbn [lift] in *.
        * apply try_add_rule_to_stack_core in Ey. exists y. split; [reflexivity|].
          pose proof (c_queue _ _ Ey). pose proof (c_pos _ _ Ey). pose proof (c_stack _ _ Ey). repeat split; congruence.
        * cbn in PO. congruence.
      + exists sa. split; [reflexivity|]. repeat split; congruence. }
  destruct K as (s' & K1 & K2).
  exists s'. split; [|exact K2].
  pose proof (runs_rule cfg E rule p s (ROk sb) L R) as RR. cbn [rule_fin] in RR. fold fr in RR.
  rewrite K1 in RR. apply RR. discriminate.
Qed.

Lemma rule_err_run rule p s sb X : good s -> runs p (snd (rule_enter s)) (RErr sb) ->
  queue sb = X ++ queue (snd (rule_enter s)) ->
  exists s', runs (PRule rule p) s (RErr s') /\ pos s' = pos sb /\ stack s' = stack sb /\
    queue s' = (if emits s then queue s else queue sb).
Proof.
  intros [W [a I] U L] R Qsb.
  destruct (rule_enter_spec s) as (Rp & Ri & Rc & Rm & Q & SQ). cbv zeta in *.
  set (fr := fst (rule_enter s)) in *. set (s2 := snd (rule_enter s)) in *. dsq SQ.
  assert (W2 : wf s2) by (unfold wf in *; congruence).
  assert (I2 : Inv (stack s2) a) by (rewrite q_stack0; exact I).
  assert (K : exists s', rule_err rule fr sb = RErr s' /\ pos s' = pos sb /\ stack s' = stack sb /\
    queue s' = (if emits s then queue s else queue sb)).
  { destruct R as [_ [m A]]. pose proof (exec_post cfg E m p s2 a W2 I2) as P. rewrite A in P.
    cbn in P. destruct P as (F & Wb & ab & Ib & Sb).
    pose proof (rule_err_post rule s sb a ab Wb F Ib Sb) as PO. fold fr in PO.
    destruct F as [f_input0 f_la0 f_at0 f_lim0 f_en0 f_calls0 f_pos0 f_mp0 f_cs0 f_queue0].
    unfold rule_err in *.
    assert (FIN : forall y, queue y = queue sb -> pos y = pos sb -> stack y = stack sb ->
              lookahead y = lookahead sb -> atomicity y = atomicity sb ->
              let z := (if emits y then set_queue y (vtruncate (rf_index fr) (queue y)) else y) in
              pos z = pos sb /\ stack z = stack sb /\ queue z = (if emits s then queue s else queue sb)).
    { intros y Qy Py Sy Ly Ay. assert (Em : emits y = emits s).
      { unfold emits. rewrite Ly, Ay, f_la0, f_at0, q_la0, q_at0. reflexivity. }
      cbv zeta. rewrite Em. destruct (emits s) eqn:Ee; cbn; [|repeat split; congruence].
      split; [congruence|]. split; [congruence|].
      rewrite Qy, Ri, Qsb, Q. replace (X ++ QStart 0 (pos s) :: queue s) with ((X ++ [QStart 0 (pos s)]) ++ queue s)
        by (rewrite <- app_assoc; reflexivity).
      apply vtruncate_app. reflexivity. }
    destruct (negb (lk_eqb (lookahead sb) LNeg)).
    - set (t := track sb rule (rf_pos fr) (rf_pai fr) (rf_nai fr) (rf_attempts fr)) in *.
      pose proof (track_same sb rule (rf_pos fr) (rf_pai fr) (rf_nai fr) (rf_attempts fr)) as T. fold t in T. dtr T.
      destruct (pa_enabled t).
      + destruct (try_add_rule_to_stack t rule (rf_csn fr) (rf_max fr)) as [y|] eqn:Ey.
        * apply try_add_rule_to_stack_core in Ey. eexists. split; [reflexivity|].
          apply (FIN y); [rewrite (c_queue _ _ Ey)|rewrite (c_pos _ _ Ey)|rewrite (c_stack _ _ Ey)
                         |rewrite (c_la _ _ Ey)|rewrite (c_at _ _ Ey)]; congruence.
        * cbn in PO. congruence.
      + eexists. split; [reflexivity|]. apply (FIN t); congruence.
    - eexists. split; [reflexivity|]. apply (FIN sb); reflexivity. }
  destruct K as (s' & K1 & K2).
  exists s'. split; [|exact K2].
  pose proof (runs_rule cfg E rule p s (RErr sb) L R) as RR. cbn [rule_fin] in RR. fold fr in RR.
  rewrite K1 in RR. apply RR. discriminate.
Qed.

Lemma rule_panic rule p s k : limit s = None -> runs p (snd (rule_enter s)) (RPanic k) -> runs (PRule rule p) s (RPanic k).
Proof. intros L R. apply (runs_rule cfg E rule p s (RPanic k) L R). discriminate. Qed.

(* ---------- atomic ---------- *)
Lemma at_enter_facts a s :
  atomicity (at_enter a s) = a /\ input (at_enter a s) = input s /\ pos (at_enter a s) = pos s /\
  queue (at_enter a s) = queue s /\ lookahead (at_enter a s) = lookahead s /\ stack (at_enter a s) = stack s /\
  limit (at_enter a s) = limit s.
Proof.
  unfold at_enter. destruct (atom_eqb (atomicity s) a) eqn:Ea; cbn; repeat split; auto.
  destruct (atomicity s), a; cbn in Ea; congruence.
Qed.

Lemma good_at_enter a s : good s -> good (at_enter a s).
Proof. intros G. destruct (at_enter_facts a s) as (_ & e1 & e2 & _ & _ & e3 & e4). eapply good_same; eauto. Qed.

Lemma at_leave_facts a s s' :
  pos (at_leave a s s') = pos s' /\ queue (at_leave a s s') = queue s' /\ stack (at_leave a s s') = stack s'.
Proof. unfold at_leave. destruct (negb _); cbn; auto. Qed.

(* ---------- stack_push ---------- *)
Lemma push_ok_run p s s' : limit s = None -> pos s <= pos s' -> runs p s (ROk s') ->
  runs (PStackPush p) s (ROk (set_stack s' (push (stack s') (firstn (pos s' - pos s) (skipn (pos s) (input s')))))).
Proof.
  intros L P R. pose proof (runs_push cfg E p s _ L R) as RP. cbn [push_fin] in RP.
  destruct (Nat.ltb (pos s') (pos s)) eqn:Lt; [apply Nat.ltb_lt in Lt; lia|exact RP].
Qed.

(* ---------- primitives through apply_pres ---------- *)
Lemma apply_pres_moved s p' t :
  exists s', apply_pres s (PMoved p') t = ROk s' /\ pos s' = p' /\ queue s' = queue s /\ stack s' = stack s.
Proof.
  unfold apply_pres. destruct t as [tk|]; [destruct (pa_enabled s)|].
  - destruct (handle_token_core (set_pos s p') (pos s) tk true) as [C _].
    eexists. split; [reflexivity|]. rewrite (c_pos _ _ C), (c_queue _ _ C), (c_stack _ _ C). cbn. auto.
  - eexists. split; [reflexivity|]. cbn. auto.
  - eexists. split; [reflexivity|]. cbn. auto.
Qed.

Lemma apply_pres_stay s t :
  exists s', apply_pres s PStay t = RErr s' /\ pos s' = pos s /\ queue s' = queue s /\ stack s' = stack s.
Proof.
  unfold apply_pres. destruct t as [tk|]; [destruct (pa_enabled s)|].
  - destruct (handle_token_core s (pos s) tk false) as [C _].
    eexists. split; [reflexivity|]. rewrite (c_pos _ _ C), (c_queue _ _ C), (c_stack _ _ C). auto.
  - eexists. split; [reflexivity|]. auto.
  - eexists. split; [reflexivity|]. auto.
Qed.

End Know2.
