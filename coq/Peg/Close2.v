(* C01, closing part 2: `C01_conformance`.  The hypotheses of props/C01.v's Section FromParts are discharged
   with C05 (pipeline_preserves_outside_class, restorer_fixed) and the validator's verdict; what cannot be
   derived is collected in the boolean `in_class`.                                                    *)
From Coq Require Import List Arith NArith ZArith Bool String Lia.
Import ListNotations.
Require Import PV.Iter.Queue PV.Stack.Model PV.Comb.PState PV.Comb.Bytes PV.Comb.Prog PV.Comb.Exec PV.Comb.Utf8 PV.Comb.Utf8c.
Require Import PV.Peg.Ast PV.Peg.Spec PV.Peg.VmCompile.
Require Import PV.Opt.Sem PV.Opt.SemCong PV.Opt.MapExpr PV.Opt.List PV.Opt.Restore PV.Opt.Pipeline PV.Opt.Statement PV.Opt.PipelineProofs.
Require Import PV.Valid.Validator.
Require Import PV.Peg.Refine0 PV.Peg.Refine3 PV.Peg.Refine6 PV.Peg.Refine10 PV.Peg.Refine11 PV.Peg.Close1.

(* ---------- what restore_on_err establishes (C05, operational) is what the simulation needs ---------- *)
Lemma alts_rokP RG k : forall e, (forall c, In c (alternatives e) -> fails_clean RG c) -> rokP RG k e.
Proof.
  induction e; cbn [alternatives rokP]; intros H; auto.
  - split; [apply IHe1|apply IHe2]; intros c Hc; apply H; apply in_or_app; auto.
  - split; [|split].
    + apply IHe1. intros c Hc. apply H. right. right. apply in_or_app. auto.
    + apply IHe2. intros c Hc. apply H. right. right. apply in_or_app. auto.
    + right. apply H. now left.
  - split; [apply IHe; intros c Hc; apply H; now right|right; apply H; now left].
  - split; [apply IHe; intros c Hc; apply H; now right|right; apply H; now left].
Qed.

Lemma find_rule_some g n r : find_rule g n = Some r -> In r g /\ rname r = n.
Proof.
  induction g as [|r0 g IH]; [discriminate|]. cbn [find_rule]. destruct (find_rule g n) as [x|].
  - intros [= <-]. destruct (IH eq_refl). split; [now right|assumption].
  - destruct (str_eqb (rname r0) n) eqn:E; [|discriminate]. intros [= <-]. split; [now left|now apply Refine6.str_eqb_eq].
Qed.

(* ---------- the class ---------- *)
Definition names_okb (G : grammar) : bool := forallb (fun r => negb (builtin_name (rname r))) G.
Definition literals_validb (G : grammar) : bool := forallb (fun r => forallb utf8b (estrs (rexpr r))) G.
Definition frag_okb (OG : ogrammar) (extras : bool) (uranges : name -> option (list (N * N))) : bool :=
  forallb (fun r => in_fragment OG extras uranges false (oexpr_of r)) OG &&
  (negb (has_orule OG (nm "WHITESPACE")) || fclean OG (K OG) (OIdent (nm "WHITESPACE"))) &&
  (negb (has_orule OG (nm "COMMENT")) || fclean OG (K OG) (OIdent (nm "COMMENT"))).

(* Every conjunct, and why it is there:
   1. lister_class false/true extras G = false   KNOWN FINDING (C05-lister): the lister rewrite `(a ~ b)* ~ a => a ~ (b ~ a)*`
      changes the language; C05 proves the pipeline only outside this class (both arithmetic variants of the unroller).
   2. names_okb G        hypothesis of C05 (`names_ok`): no rule is named like a name the semantics resolves before the user's
      rules (SOI, EOI, PEEK, POP, DROP, PEEK_ALL, POP_ALL, NEWLINE, ANY, the ASCII_ classes); validator.rs only rejects the pest keywords.
   3. literals_validb G  string constants are valid UTF-8 (always true of Rust Strings; needed by the char-boundary invariant).
   4. optimize .. G = Some OG   the optimizer returns normally: NOT YET PROVED for the whole pipeline (C05 proves totality of
      rotate, factor, unroll with reader-accepted counts), so it is checked.
   5. every rule body of OG is `in_fragment .. false`:
        - no PEEK / POP               KNOWN FINDING (C01-emptystack): the VM panics on an empty stack where Spec says no match;
                                      with them `C01_sound` / `C01_forward` still hold up to that panic;
        - `#t = e` only with `emits_last e`   KNOWN FINDING (C02/C01 row 13): otherwise the VM tags the previous node;
        - identifiers defined (validator: VUndef) and ORepOnce only with grammar-extras (to_optimized): derivable, NOT YET
          PROVED through the six passes, so checked on OG.
   6. WHITESPACE / COMMENT fail with an unmodified stack (`fclean`): restore_on_err does not wrap the implicit-skip loops;
      a WHITESPACE = _{ POP } would leave the stack popped where Spec restores it (potential finding, not in the suite).
   (That no rule of OG is named like a hard-coded VM name - `go_names`, needed since pest_vm lets rules shadow them - follows
   from conjunct 2.)  The restorer's job (`rok`) is NOT in the class: it is C05_restorer_fixed (flags fixpop = fixmap = true, the repaired code). *)
Definition in_class (ovf extras : bool) (uranges : name -> option (list (N * N))) (G : grammar) : bool :=
  negb (lister_class false extras G) && negb (lister_class true extras G) &&
  names_okb G && literals_validb G &&
  match optimize ovf extras true true G with
  | Some OG => frag_okb OG extras uranges
  | None => false
  end.

Section Conformance.
Variable kw builtin : name -> bool.
Variable vcfg : Validator.vcfg.
Variable ovf extras : bool.
Variable uranges : name -> option (list (N * N)).
Variable cfg : config.
Hypothesis Hcfg : cfg_ok cfg.
Variable G : grammar.
Hypothesis Hvalid : validate kw builtin vcfg G = [].
Hypothesis Hclass : in_class ovf extras uranges G = true.

Lemma class_parts :
  (forall o, lister_class o extras G = false) /\ valid_grammar G /\
  exists OG, optimize ovf extras true true G = Some OG /\ frag_okb OG extras uranges = true.
Proof.
  unfold in_class in Hclass. apply andb_true_iff in Hclass. destruct Hclass as [H H5].
  apply andb_true_iff in H. destruct H as [H H4]. apply andb_true_iff in H. destruct H as [H H3].
  apply andb_true_iff in H. destruct H as [H1 H2]. apply negb_true_iff in H1, H2.
  split; [intros [|]; assumption|]. split.
  - split; [|split].
    + intros r Hr. unfold literals_validb in H4. rewrite forallb_forall in H4. specialize (H4 r Hr).
      rewrite forallb_forall in H4. apply Forall_forall. intros x Hx. apply utf8b_sound. auto.
    + intros r Hr. unfold names_okb in H3. rewrite forallb_forall in H3. apply negb_true_iff. auto.
    + exact (validate_unique kw builtin vcfg G Hvalid).
  - destruct (optimize ovf extras true true G) as [OG|]; [|discriminate]. eauto.
Qed.

Theorem optimized_grammar_ok OG : optimize ovf extras true true G = Some OG -> frag_okb OG extras uranges = true ->
  valid_grammar G -> (forall o, lister_class o extras G = false) ->
  grammar_ok OG extras uranges false /\ same_meaning extras G (embed_g OG) /\ map rname (embed_g OG) = map rname G.
Proof.
  intros Ho Hf (VL & VN & VU) HL.
  destruct (optimize_inv _ _ _ _ _ _ Ho) as (G6 & OG0 & Ha & Hm & HR & He).
  pose proof (optimize_ast_names _ _ _ _ Ha) as Hn.
  pose proof (optimize_ast_gvalid _ _ _ _ VL Ha) as VL6.
  assert (V6 : valid_grammar G6).
  { split; [exact VL6|]. split.
    - intros r Hr. assert (Hin : In (rname r) (map rname G)) by (rewrite <- Hn; now apply in_map).
      apply in_map_iff in Hin. destruct Hin as (r0 & E0 & H0). rewrite <- E0. now apply VN.
    - unfold unique_names. rewrite Hn. exact VU. }
  assert (Hro : restorer_ok true true OG0).
  { apply (restorer_fixed extras G6 V6). unfold to_optimized_rules. rewrite Hm. reflexivity. }
  unfold frag_okb in Hf. apply andb_true_iff in Hf. destruct Hf as [Hf Hcm]. apply andb_true_iff in Hf. destruct Hf as [Hfr Hws].
  rewrite forallb_forall in Hfr. rewrite He. split; [|split; [|exact Hn]].
  - split.
    + rewrite <- (rule_names_embed OG), He, Hn. exact VU.
    + intros r Hr. assert (Hin : In (oname r) (map rname G)).
      { rewrite <- Hn, <- He, (rule_names_embed OG). now apply in_map. }
      apply in_map_iff in Hin. destruct Hin as (r0 & E0 & H0). pose proof (VN r0 H0) as Hb. rewrite E0 in Hb.
      destruct (is_builtin (oname r)) eqn:B; [apply is_builtin_builtin_name in B; congruence|reflexivity].
    + exact Hfr.
    + intros r Hr. apply alts_rokP. intros c Hc. rewrite HR in Hr |- *. exact (Hro r Hr c Hc).
    + intros r Hr. apply lits_valid_of_estrs.
      assert (Hin : In (embed_rule r) G6) by (rewrite <- He; unfold embed_g; now apply in_map).
      exact (VL6 _ Hin).
    + intros Hw. rewrite Hw in Hws. exact Hws.
    + intros Hc. rewrite Hc in Hcm. exact Hcm.
  - apply (pipeline_preserves_outside_class extras G (conj VL (conj VN VU)) HL ovf G6 Ha).
Qed.

(* C01, closed with C05 and the validator: for every grammar the validator accepts, in the class *)
Theorem conformance :
  exists OG, optimize ovf extras true true G = Some OG /\
  forall r w f, valid_utf8 w -> has_rule G r = true ->
    ((exists m q, vm_parse OG uranges cfg w m r false = OPairs q /\ forest q = f) <->
     (exists n p sg, spec_parse G extras (uprop uranges) w n r = SMatch p sg f)).
Proof.
  destruct class_parts as (HL & HV & OG & Ho & Hf). exists OG. split; [exact Ho|].
  destruct (optimized_grammar_ok OG Ho Hf HV HL) as (HG & HS & Hn). intros r w f Hw Hr.
  assert (IO : ident_ok OG uranges false r = true).
  { unfold ident_ok. unfold has_rule in Hr. destruct (find_rule G r) as [rr|] eqn:Ef; [|discriminate].
    destruct (find_rule_some _ _ _ Ef) as [Hin Hnm]. destruct HV as (_ & VN & _). pose proof (VN rr Hin) as Hb. rewrite Hnm in Hb.
    destruct (is_builtin r) eqn:B; [apply is_builtin_builtin_name in B; congruence|].
    rewrite <- has_rule_embed, (has_rule_names _ _ Hn). unfold has_rule. rewrite Ef. reflexivity. }
  rewrite (parse_iff_spec_total OG extras uranges false cfg w Hcfg HG Hw r false f eq_refl IO).
  assert (EQ : forall res, res <> SFuel ->
            ((exists n, spec_parse (embed_g OG) extras (uprop uranges) w n r = res) <->
             (exists n, spec_parse G extras (uprop uranges) w n r = res))).
  { intros res Hres. unfold spec_parse.
    pose proof (HS (uprop uranges) w NonAtomic true (EIdent r) 0 [] res Hw (Forall_nil _) (boundaryb_0 w Hw) (Forall_nil _)) as X.
    unfold evaluates, definite in X. split.
    - intros [n Hn']. destruct (proj1 X (ex_intro _ n (conj Hn' Hres))) as [n' [H' _]]. eauto.
    - intros [n Hn']. destruct (proj2 X (ex_intro _ n (conj Hn' Hres))) as [n' [H' _]]. eauto. }
  split.
  - intros (n & p & sg & Hn'). destruct (proj1 (EQ (SMatch p sg f) ltac:(discriminate)) (ex_intro _ n Hn')) as [n' H']. eauto.
  - intros (n & p & sg & Hn'). destruct (proj2 (EQ (SMatch p sg f) ltac:(discriminate)) (ex_intro _ n Hn')) as [n' H']. eauto.
Qed.

End Conformance.
