(* C01, part 1: what each combinator of Layer C does to position, token queue and stack CONTENTS when
   its sub-run is known (exact queues, no tag erasure), for states without a call limit.  The frame
   facts (input/lookahead/atomicity/limit unchanged, wf, stack ghost, UTF-8 boundary) of any run are
   packaged in `run_inv`.  Also: the token list `toks b f` of a forest on the reversed queue.       *)
From Coq Require Import List Arith NArith ZArith Bool Lia.
Import ListNotations.
Require Import PV.Iter.Queue PV.Iter.QueueFacts.
Require Import PV.Stack.Model PV.Stack.Proofs PV.Comb.PState PV.Comb.Bytes PV.Comb.Prog PV.Comb.Exec.
Require Import PV.Comb.Frame PV.Comb.Contracts PV.Comb.Utf8 PV.Comb.Utf8b PV.Comb.Utf8c PV.Peg.Ast PV.Peg.Refine0.

Arguments Nat.sub : simpl never.
Arguments Nat.mul : simpl never.
Arguments Nat.ltb : simpl never.
Arguments Nat.leb : simpl never.
Arguments Nat.eqb : simpl never.
Arguments skipn : simpl never.
Arguments firstn : simpl never.

(* ---------- tokens of a forest on the reversed queue ---------- *)
Definition unconv (t : Queue.qtoken) : qtoken :=
  match t with Queue.QStart e p => QStart e p | Queue.QEnd si r tg p => QEnd si r tg p end.
Definition conv (t : qtoken) : Queue.qtoken :=
  match t with QStart e p => Queue.QStart e p | QEnd si r tg p => Queue.QEnd si r tg p end.
Definition toks (b : nat) (f : list tree) : list qtoken := rev (map unconv (tokens_at b f)).

Lemma conv_unconv t : conv (unconv t) = t. Proof. destruct t; reflexivity. Qed.

Lemma toks_nil b : toks b [] = [].
Proof. reflexivity. Qed.

Lemma toks_app b f1 f2 : toks b (f1 ++ f2) = toks (b + 2 * fsize f1) f2 ++ toks b f1.
Proof. unfold toks. rewrite tokens_at_app, map_app, rev_app_distr. reflexivity. Qed.

Lemma toks_length b f : length (toks b f) = 2 * fsize f.
Proof. unfold toks. rewrite rev_length, map_length. apply length_tokens_at. Qed.

Lemma toks_node b r tg s e ch :
  toks b [Node r tg s e ch] = QEnd b r tg e :: toks (S b) ch ++ [QStart (S b + 2 * fsize ch) s].
Proof.
  unfold toks. rewrite tokens_at_cons. cbn [tokens_at]. cbn [map rev]. rewrite map_app, rev_app_distr.
  cbn [map rev app unconv]. reflexivity.
Qed.

Lemma toks_empty_inv b f : toks b f = [] -> f = [].
Proof.
  intros H. apply (f_equal (@length _)) in H. rewrite toks_length in H. cbn in H.
  destruct f as [|t f]; [reflexivity|]. cbn [fsize] in H. pose proof (tsize_pos t). lia.
Qed.

(* the stream-order queue of a whole parse is the token list of the forest *)
Lemma map_conv_rev_toks b f : map conv (rev (toks b f)) = tokens_at b f.
Proof.
  unfold toks. rewrite rev_involutive, map_map. rewrite <- (map_id (tokens_at b f)) at 2.
  apply map_ext. apply conv_unconv.
Qed.

Lemma set_start_end_exact X e p old ni :
  set_start_end (X ++ QStart e p :: old) (length old) ni = Some (X ++ QStart ni p :: old).
Proof.
  unfold set_start_end. rewrite app_length. cbn [length].
  destruct (Nat.ltb (length old) (length X + S (length old))) eqn:L; [|apply Nat.ltb_ge in L; lia].
  replace (length X + S (length old) - 1 - length old) with (length X) by lia.
  rewrite nth_error_app2 by lia. rewrite Nat.sub_diag. cbn [nth_error].
  rewrite firstn_app, firstn_all, Nat.sub_diag. cbn [firstn]. rewrite app_nil_r.
  replace (S (length X)) with (length X + 1) by lia. rewrite skipn_app.
  rewrite skipn_all2 by lia. replace (length X + 1 - length X) with 1 by lia. reflexivity.
Qed.

(* ---------- the invariants every state of a parse satisfies ---------- *)
Record good (s : pst) : Prop := {
  g_wf : wf s;
  g_inv : exists a : sspec, Inv (stack s) a;
  g_utf : utf8_ok s;
  g_lim : limit s = None }.

Record keeps (s s' : pst) : Prop := {
  k_input : input s' = input s;
  k_la : lookahead s' = lookahead s;
  k_at : atomicity s' = atomicity s;
  k_pos : pos s <= pos s' }.

Lemma keeps_refl s : keeps s s. Proof. split; auto. Qed.
Lemma keeps_trans s1 s2 s3 : keeps s1 s2 -> keeps s2 s3 -> keeps s1 s3.
Proof. intros [] []. split; try congruence. lia. Qed.

Lemma good_same s s' :
  good s -> input s' = input s -> pos s' = pos s -> stack s' = stack s -> limit s' = limit s -> good s'.
Proof.
  intros [W [a I] U L] E1 E2 E3 E4. split.
  - unfold wf in *. congruence.
  - exists a. congruence.
  - eapply utf8_ok_same; eauto. congruence.
  - congruence.
Qed.

Lemma good_checkpoint s : good s -> good (checkpoint s).
Proof.
  intros [W [a I] U L]. split; auto.
  - exists (ssnapshot a). cbn. now apply inv_snapshot.
Qed.

Section Know.
Variable cfg : config.
Variable E : env.
Hypothesis Hcfg : cfg_ok cfg.
Hypothesis HE : env_valid E.

Notation runs := (runs cfg E).

(* a run from a good state: frame facts of the result, no internal or boundary panic *)
Lemma run_inv p s r : good s -> prog_valid p -> runs p s r ->
  match r with
  | ROk s' | RErr s' => good s' /\ keeps s s'
  | RPanic k => k <> PkInternal /\ k <> PkBoundary
  | ROutOfFuel => False
  end.
Proof.
  intros [W [a I] U L] V [N [m A]].
  pose proof (exec_post cfg E m p s a W I) as P. pose proof (exec_boundary cfg E Hcfg HE m p s a V W I U) as B.
  rewrite A in P, B. destruct r as [s'|s'|k|]; cbn in P, B; try congruence.
  - destruct P as (F & W' & a' & I' & _). destruct F. split; [split; eauto; congruence|split; auto].
  - destruct P as (F & W' & a' & I' & _). destruct F. split; [split; eauto; congruence|split; auto].
  - split; assumption.
Qed.

(* with the ghost stack: the snapshots are those of the start *)
Lemma run_ghost p s a r : wf s -> Inv (stack s) a -> runs p s r ->
  match r with
  | ROk s' | RErr s' => exists a', Inv (stack s') a' /\ snaps a' = snaps a
  | _ => True
  end.
Proof.
  intros W I [N [m A]]. pose proof (exec_post cfg E m p s a W I) as P. rewrite A in P.
  destruct r as [s'|s'|k|]; cbn in P; auto; destruct P as (_ & _ & a' & I' & S'); eauto.
Qed.

(* ---------- sequence ---------- *)
Lemma seq_ok p s s' : good s -> runs p (checkpoint s) (ROk s') ->
  exists s'', runs (PSequence p) s (ROk s'') /\ pos s'' = pos s' /\ queue s'' = queue s' /\
              cache (stack s'') = cache (stack s').
Proof.
  intros [W [a I] U L] R. pose proof (runs_sequence cfg E p s _ L R) as RS. cbn [seq_fin] in RS.
  assert (I1 : Inv (stack (checkpoint s)) (ssnapshot a)) by (cbn; now apply inv_snapshot).
  destruct (run_ghost p (checkpoint s) _ _ W I1 R) as (a' & I' & S').
  destruct (inv_clear I') as (st & Ec & I2). unfold checkpoint_ok in RS. rewrite Ec in RS. cbn [option_map lift] in RS.
  eexists. split; [exact RS|]. cbn. repeat split.
  rewrite (inv_cache _ _ I2), (inv_cache _ _ I'). reflexivity.
Qed.

Lemma seq_err p s s' X : good s -> runs p (checkpoint s) (RErr s') -> queue s' = X ++ queue s ->
  exists s'', runs (PSequence p) s (RErr s'') /\ pos s'' = pos s /\ queue s'' = queue s /\
              cache (stack s'') = cache (stack s).
Proof.
  intros [W [a I] U L] R Q. pose proof (runs_sequence cfg E p s _ L R) as RS. cbn [seq_fin] in RS.
  assert (I1 : Inv (stack (checkpoint s)) (ssnapshot a)) by (cbn; now apply inv_snapshot).
  destruct (run_ghost p (checkpoint s) _ _ W I1 R) as (a' & I' & S').
  unfold restore_st in RS. cbn [stack set_queue set_pos] in RS.
  destruct (inv_restore I') as (st & Er & I2). rewrite Er in RS. cbn [option_map lift] in RS.
  eexists. split; [exact RS|]. cbn. split; [reflexivity|]. split.
  - rewrite Q. apply vtruncate_app. reflexivity.
  - rewrite (inv_cache _ _ I2). unfold srestore. rewrite S'. cbn. symmetry. now apply inv_cache.
Qed.

Lemma seq_panic p s k : limit s = None -> runs p (checkpoint s) (RPanic k) -> runs (PSequence p) s (RPanic k).
Proof. intros L R. exact (runs_sequence cfg E p s _ L R). Qed.

(* ---------- restore_on_err ---------- *)
Lemma roe_ok p s s' : good s -> runs p (checkpoint s) (ROk s') ->
  exists s'', runs (PRestoreOnErr p) s (ROk s'') /\ pos s'' = pos s' /\ queue s'' = queue s' /\
              cache (stack s'') = cache (stack s').
Proof.
  intros [W [a I] U L] R. pose proof (runs_restore cfg E p s _ R) as RS. cbn [roe_fin] in RS.
  assert (I1 : Inv (stack (checkpoint s)) (ssnapshot a)) by (cbn; now apply inv_snapshot).
  destruct (run_ghost p (checkpoint s) _ _ W I1 R) as (a' & I' & S').
  destruct (inv_clear I') as (st & Ec & I2). unfold checkpoint_ok in RS. rewrite Ec in RS. cbn [option_map lift] in RS.
  eexists. split; [exact RS|]. cbn. repeat split.
  rewrite (inv_cache _ _ I2), (inv_cache _ _ I'). reflexivity.
Qed.

Lemma roe_err p s s' : good s -> runs p (checkpoint s) (RErr s') ->
  exists s'', runs (PRestoreOnErr p) s (RErr s'') /\ pos s'' = pos s' /\ queue s'' = queue s' /\
              cache (stack s'') = cache (stack s).
Proof.
  intros [W [a I] U L] R. pose proof (runs_restore cfg E p s _ R) as RS. cbn [roe_fin] in RS.
  assert (I1 : Inv (stack (checkpoint s)) (ssnapshot a)) by (cbn; now apply inv_snapshot).
  destruct (run_ghost p (checkpoint s) _ _ W I1 R) as (a' & I' & S').
  unfold restore_st in RS. destruct (inv_restore I') as (st & Er & I2). rewrite Er in RS. cbn [option_map lift] in RS.
  eexists. split; [exact RS|]. cbn. repeat split.
  rewrite (inv_cache _ _ I2). unfold srestore. rewrite S'. cbn. symmetry. now apply inv_cache.
Qed.

(* ---------- look-ahead ---------- *)
Definition la_state (b : bool) (s : pst) : pst := checkpoint (set_lookahead s (enter_lookahead b (lookahead s))).

Lemma la_state_la b s : lookahead (la_state b s) <> LNone.
Proof. cbn. destruct b, (lookahead s); cbn; congruence. Qed.

Lemma good_la_state b s : good s -> good (la_state b s).
Proof.
  intros [W [a I] U L]. split; auto.
  exists (ssnapshot a). cbn. now apply inv_snapshot.
Qed.

Lemma la_run b p s s' (okb : bool) : good s ->
  runs p (la_state b s) (if okb then ROk s' else RErr s') ->
  exists s'', runs (PLookahead b p) s (if Bool.eqb b okb then ROk s'' else RErr s'') /\
              pos s'' = pos s /\ queue s'' = queue s /\ cache (stack s'') = cache (stack s).
Proof.
  intros G R. pose proof (good_la_state b s G) as G1. destruct G as [W [a I] U L].
  pose proof (runs_lookahead cfg E b p s _ L R) as RS.
  assert (I1 : Inv (stack (la_state b s)) (ssnapshot a)) by (cbn; now apply inv_snapshot).
  assert (W1 : wf (la_state b s)) by exact W.
  assert (Q : queue s' = queue s).
  { destruct R as [_ [m A]].
    apply (exec_quiet cfg E m p (la_state b s) (ssnapshot a) s' W1 I1 (la_state_la b s)).
    destruct okb; [left|right]; exact A. }
  assert (GH : exists a', Inv (stack s') a' /\ snaps a' = snaps (ssnapshot a)).
  { pose proof (run_ghost p (la_state b s) _ _ W1 I1 R) as GH. destruct okb; exact GH. }
  destruct GH as (a' & I' & S').
  destruct (inv_restore I') as (st & Er & I2).
  assert (C : cache st = cache (stack s)).
  { rewrite (inv_cache _ _ I2). unfold srestore. rewrite S'. cbn. symmetry. now apply inv_cache. }
  exists (set_stack (set_lookahead (set_pos s' (pos s)) (lookahead s)) st).
  split; [|cbn; auto].
  destruct okb; cbn [la_fin] in RS; unfold restore_st in RS; cbn [stack set_lookahead set_pos] in RS;
    rewrite Er in RS; cbn [option_map lift] in RS; destruct b; exact RS.
Qed.

Lemma la_panic b p s k : limit s = None -> runs p (la_state b s) (RPanic k) -> runs (PLookahead b p) s (RPanic k).
Proof. intros L R. exact (runs_lookahead cfg E b p s _ L R). Qed.

End Know.
