(* C01, part 0: the embedding of optimized rules into the grammar language, fuel monotonicity of
   `exec`, and the fuel-free big-step view `runs` of Layer C with one composition lemma per
   combinator.  Everything here is independent of the grammar.                                  *)
From Coq Require Import List Arith NArith ZArith Bool Lia.
Import ListNotations.
Require Import PV.Stack.Model PV.Stack.Proofs PV.Comb.PState PV.Comb.Bytes PV.Comb.Prog PV.Comb.Exec.
Require Import PV.Comb.Frame PV.Comb.Contracts PV.Peg.Ast.

Arguments Nat.sub : simpl never.
Arguments Nat.ltb : simpl never.
Arguments Nat.leb : simpl never.
Arguments Nat.eqb : simpl never.
Arguments skipn : simpl never.
Arguments firstn : simpl never.

(* ---------- the embedding oexpr -> expr ---------- *)
Fixpoint embed (e : oexpr) : expr :=
  match e with
  | OStr s => EStr s
  | OInsens s => EInsens s
  | ORange lo hi => ERange lo hi
  | OIdent n => EIdent n
  | OPeekSlice i j => EPeekSlice i j
  | OPosPred x => EPosPred (embed x)
  | ONegPred x => ENegPred (embed x)
  | OSeq l r => ESeq (embed l) (embed r)
  | OChoice l r => EChoice (embed l) (embed r)
  | OOpt x => EOpt (embed x)
  | ORep x => ERep (embed x)
  | ORepOnce x => ERepOnce (embed x)
  | OSkip ss => ESkip ss
  | OPush x => EPush (embed x)
  | OPushLiteral s => EPushLiteral s
  | ONodeTag x t => ENodeTag (embed x) t
  | ORestoreOnErr x => embed x
  end.
Definition embed_rule (r : orule) : rule := {| rname := oname r; rty := oty r; rexpr := embed (oexpr_of r) |}.
Definition embed_g (g : ogrammar) : grammar := map embed_rule g.

(* ---------- fuel monotonicity of exec ---------- *)
Section Mono.
Variable cfg : config.
Variable E : env.

Definition rle (r r' : res) : Prop := r = ROutOfFuel \/ r = r'.

Ltac sub IH f' p s :=
  let X := fresh "X" in
  destruct (IH f' p s ltac:(lia)) as [X|X];
  [rewrite X; left; reflexivity|rewrite <- X; clear X].

Lemma exec_rle : forall f f' p s, f <= f' -> rle (exec cfg E f p s) (exec cfg E f' p s).
Proof.
  induction f as [|f IH]; intros f' p s Hle; [left; reflexivity|].
  destruct f' as [|f']; [lia|]. cbn [exec]. destruct p.
  - right; reflexivity.
  - destruct (inc_call s) as [s1|]; [|right; reflexivity]. destruct (rule_enter s1) as [fr s2].
    sub IH f' p s2. right; reflexivity.
  - destruct (inc_call s) as [s1|]; [|right; reflexivity].
    sub IH f' p (checkpoint s1). right; reflexivity.
  - destruct (inc_call s) as [s1|]; [|right; reflexivity]. apply IH; lia.
  - sub IH f' p s. destruct (exec cfg E f p s); try (right; reflexivity). apply IH; lia.
  - destruct (inc_call s) as [s1|]; [|right; reflexivity]. sub IH f' p s1. right; reflexivity.
  - destruct (inc_call s) as [s1|]; [|right; reflexivity].
    sub IH f' p (checkpoint (set_lookahead s1 (enter_lookahead positive (lookahead s1)))). right; reflexivity.
  - destruct (inc_call s) as [s1|]; [|right; reflexivity].
    sub IH f' p (if negb (atom_eqb (atomicity s1) a) then set_atomicity s1 a else s1). right; reflexivity.
  - destruct (inc_call s) as [s1|]; [|right; reflexivity]. sub IH f' p s1. right; reflexivity.
  - sub IH f' p (checkpoint s). right; reflexivity.
  - sub IH f' p1 s. destruct (exec cfg E f p1 s); try (right; reflexivity). apply IH; lia.
  - sub IH f' p1 s. destruct (exec cfg E f p1 s); try (right; reflexivity). apply IH; lia.
  - destruct (atom_eqb (atomicity s) NonAtomic); apply IH; lia.
  - destruct (E f0); [apply IH; lia|right; reflexivity].
Qed.

(* a definite result is stable under more fuel *)
Theorem exec_mono f f' p s :
  f <= f' -> exec cfg E f p s <> ROutOfFuel -> exec cfg E f' p s = exec cfg E f p s.
Proof. intros Hle H. destruct (exec_rle f f' p s Hle) as [X|X]; [contradiction|symmetry; exact X]. Qed.

Corollary exec_fuel_irrelevant f1 f2 p s :
  exec cfg E f1 p s <> ROutOfFuel -> exec cfg E f2 p s <> ROutOfFuel -> exec cfg E f1 p s = exec cfg E f2 p s.
Proof.
  intros H1 H2. destruct (Nat.le_ge_cases f1 f2) as [L|L].
  - symmetry. now apply exec_mono.
  - now apply exec_mono.
Qed.

(* ---------- the fuel-free view ---------- *)
Definition runs (p : prog) (s : pst) (r : res) : Prop :=
  r <> ROutOfFuel /\ exists m, exec cfg E m p s = r.

Lemma runs_det p s r1 r2 : runs p s r1 -> runs p s r2 -> r1 = r2.
Proof.
  intros [N1 [m1 E1]] [N2 [m2 E2]]. rewrite <- E1, <- E2. apply exec_fuel_irrelevant; congruence.
Qed.

Lemma runs_at p s r : runs p s r -> exists m, forall m', m <= m' -> exec cfg E m' p s = r.
Proof.
  intros [N [m Em]]. exists m. intros m' L. rewrite (exec_mono m m' p s L); congruence.
Qed.

Lemma runs_prim o s r : exec_prim cfg o s = r -> r <> ROutOfFuel -> runs (PPrim o) s r.
Proof. intros H N. split; [exact N|]. exists 1. exact H. Qed.

Lemma runs_andthen_ok p q s s1 r : runs p s (ROk s1) -> runs q s1 r -> runs (PAndThen p q) s r.
Proof.
  intros H1 [N2 H2]. destruct (runs_at _ _ _ H1) as [m1 A1]. destruct (runs_at _ _ _ (conj N2 H2)) as [m2 A2].
  split; [exact N2|]. exists (S (Nat.max m1 m2)). cbn [exec].
  rewrite A1 by lia. apply A2. lia.
Qed.

Lemma runs_andthen_stop p q s r : runs p s r -> (forall x, r <> ROk x) -> runs (PAndThen p q) s r.
Proof.
  intros [N [m A]] K. split; [exact N|]. exists (S m). cbn [exec]. rewrite A.
  destruct r; try reflexivity. exfalso. eapply K; reflexivity.
Qed.

Lemma runs_orelse_err p q s s1 r : runs p s (RErr s1) -> runs q s1 r -> runs (POrElse p q) s r.
Proof.
  intros H1 [N2 H2]. destruct (runs_at _ _ _ H1) as [m1 A1]. destruct (runs_at _ _ _ (conj N2 H2)) as [m2 A2].
  split; [exact N2|]. exists (S (Nat.max m1 m2)). cbn [exec].
  rewrite A1 by lia. apply A2. lia.
Qed.

Lemma runs_orelse_stop p q s r : runs p s r -> (forall x, r <> RErr x) -> runs (POrElse p q) s r.
Proof.
  intros [N [m A]] K. split; [exact N|]. exists (S m). cbn [exec]. rewrite A.
  destruct r; try reflexivity. exfalso. eapply K; reflexivity.
Qed.

Lemma runs_ifna p q s r :
  runs (if atom_eqb (atomicity s) NonAtomic then p else q) s r -> runs (PIfNonAtomic p q) s r.
Proof.
  intros [N [m A]]. split; [exact N|]. exists (S m). cbn [exec].
  destruct (atom_eqb (atomicity s) NonAtomic); exact A.
Qed.

Lemma runs_call f q s r : E f = Some q -> runs q s r -> runs (PCall f) s r.
Proof. intros Ef [N [m A]]. split; [exact N|]. exists (S m). cbn [exec]. rewrite Ef. exact A. Qed.

Lemma inc_call_none s : limit s = None -> inc_call s = Some s.
Proof. intros L. unfold inc_call, limit_reached. rewrite L. reflexivity. Qed.

Definition opt_fin (r : res) : res := match r with ROk s' | RErr s' => ROk s' | x => x end.
Lemma runs_optional p s r : limit s = None -> runs p s r -> runs (POptional p) s (opt_fin r).
Proof.
  intros L [N [m A]]. split; [destruct r; cbn; congruence|]. exists (S m). cbn [exec].
  rewrite (inc_call_none s L), A. destruct r; reflexivity.
Qed.

Lemma runs_repeat p s r : limit s = None -> runs (PRepeatLoop p) s r -> runs (PRepeat p) s r.
Proof.
  intros L [N [m A]]. split; [exact N|]. exists (S m). cbn [exec]. rewrite (inc_call_none s L). exact A.
Qed.

Lemma runs_loop_ok p s s1 r : runs p s (ROk s1) -> runs (PRepeatLoop p) s1 r -> runs (PRepeatLoop p) s r.
Proof.
  intros H1 [N2 H2]. destruct (runs_at _ _ _ H1) as [m1 A1]. destruct (runs_at _ _ _ (conj N2 H2)) as [m2 A2].
  split; [exact N2|]. exists (S (Nat.max m1 m2)). cbn [exec].
  rewrite A1 by lia. apply A2. lia.
Qed.

Lemma runs_loop_err p s s1 : runs p s (RErr s1) -> runs (PRepeatLoop p) s (ROk s1).
Proof. intros [N [m A]]. split; [discriminate|]. exists (S m). cbn [exec]. rewrite A. reflexivity. Qed.

Lemma runs_loop_panic p s k : runs p s (RPanic k) -> runs (PRepeatLoop p) s (RPanic k).
Proof. intros [N [m A]]. split; [discriminate|]. exists (S m). cbn [exec]. rewrite A. reflexivity. Qed.

Definition seq_fin (s : pst) (r : res) : res :=
  match r with
  | ROk s' => lift ROk (checkpoint_ok s')
  | RErr s' => lift RErr (restore_st (set_queue (set_pos s' (pos s)) (vtruncate (length (queue s)) (queue s'))))
  | x => x
  end.
Lemma runs_sequence p s r : limit s = None -> runs p (checkpoint s) r -> runs (PSequence p) s (seq_fin s r).
Proof.
  intros L [N [m A]]. split.
  - destruct r as [x|x|k|]; cbn [seq_fin]; try congruence.
    + destruct (checkpoint_ok x); cbn; discriminate.
    + destruct (restore_st _); cbn; discriminate.
  - exists (S m). cbn [exec]. rewrite (inc_call_none s L), A. destruct r; reflexivity.
Qed.

Definition la_fin (b : bool) (s : pst) (r : res) : res :=
  match r with
  | ROk s' => lift (fun x => if b then ROk x else RErr x) (restore_st (set_lookahead (set_pos s' (pos s)) (lookahead s)))
  | RErr s' => lift (fun x => if b then RErr x else ROk x) (restore_st (set_lookahead (set_pos s' (pos s)) (lookahead s)))
  | x => x
  end.
Lemma runs_lookahead b p s r : limit s = None ->
  runs p (checkpoint (set_lookahead s (enter_lookahead b (lookahead s)))) r -> runs (PLookahead b p) s (la_fin b s r).
Proof.
  intros L [N [m A]]. split.
  - destruct r as [x|x|k|]; cbn [la_fin]; try congruence; destruct (restore_st _); cbn; try discriminate; destruct b; discriminate.
  - exists (S m). cbn [exec]. rewrite (inc_call_none s L), A. destruct r; reflexivity.
Qed.

Definition at_enter (a : atom) (s : pst) : pst := if negb (atom_eqb (atomicity s) a) then set_atomicity s a else s.
Definition at_leave (a : atom) (s s' : pst) : pst := if negb (atom_eqb (atomicity s) a) then set_atomicity s' (atomicity s) else s'.
Definition at_fin (a : atom) (s : pst) (r : res) : res :=
  match r with ROk s' => ROk (at_leave a s s') | RErr s' => RErr (at_leave a s s') | x => x end.
Lemma runs_atomic a p s r : limit s = None -> runs p (at_enter a s) r -> runs (PAtomic a p) s (at_fin a s r).
Proof.
  intros L [N [m A]]. split; [destruct r; cbn; congruence|]. exists (S m). cbn [exec].
  rewrite (inc_call_none s L). unfold at_enter in A. rewrite A. destruct r; reflexivity.
Qed.

Definition push_fin (s : pst) (r : res) : res :=
  match r with
  | ROk s' => if Nat.ltb (pos s') (pos s) then RPanic PkInternal
              else ROk (set_stack s' (push (stack s') (firstn (pos s' - pos s) (skipn (pos s) (input s')))))
  | x => x
  end.
Lemma runs_push p s r : limit s = None -> runs p s r -> runs (PStackPush p) s (push_fin s r).
Proof.
  intros L [N [m A]]. split.
  - destruct r as [x|x|k|]; cbn [push_fin]; try congruence. destruct (Nat.ltb _ _); discriminate.
  - exists (S m). cbn [exec]. rewrite (inc_call_none s L), A. destruct r; reflexivity.
Qed.

Definition roe_fin (r : res) : res :=
  match r with ROk s' => lift ROk (checkpoint_ok s') | RErr s' => lift RErr (restore_st s') | x => x end.
Lemma runs_restore p s r : runs p (checkpoint s) r -> runs (PRestoreOnErr p) s (roe_fin r).
Proof.
  intros [N [m A]]. split.
  - destruct r as [x|x|k|]; cbn [roe_fin]; try congruence.
    + destruct (checkpoint_ok x); cbn; discriminate.
    + destruct (restore_st x); cbn; discriminate.
  - exists (S m). cbn [exec]. rewrite A. destruct r; reflexivity.
Qed.

Definition rule_fin (rule : nat) (s : pst) (r : res) : res :=
  match r with
  | ROk s' => rule_ok rule (fst (rule_enter s)) s'
  | RErr s' => rule_err rule (fst (rule_enter s)) s'
  | x => x
  end.
Lemma runs_rule rule p s r : limit s = None ->
  runs p (snd (rule_enter s)) r -> rule_fin rule s r <> ROutOfFuel -> runs (PRule rule p) s (rule_fin rule s r).
Proof.
  intros L [N [m A]] NF. split; [exact NF|]. exists (S m). cbn [exec]. rewrite (inc_call_none s L).
  unfold rule_fin. destruct (rule_enter s) as [fr s2]. cbn [fst snd] in *. rewrite A. destruct r; reflexivity.
Qed.

End Mono.
