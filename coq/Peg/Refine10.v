(* C01, part 10: the simulation theorem in explicit form (`vm_refines_spec`) and its corollary for whole
   parses (`parse_refines_spec`, `parse_iff_spec`).                                                   *)
From Coq Require Import List Arith NArith ZArith Bool Lia.
Import ListNotations.
Require Import PV.Iter.Queue PV.Iter.QueueFacts.
Require Import PV.Stack.Model PV.Stack.Proofs PV.Comb.PState PV.Comb.Bytes PV.Comb.Prog PV.Comb.Exec.
Require Import PV.Comb.Frame PV.Comb.Contracts PV.Comb.Utf8 PV.Comb.Utf8b PV.Comb.Utf8c.
Require Import PV.Peg.Ast PV.Peg.Spec PV.Peg.VmCompile.
Require Import PV.Peg.Refine0 PV.Peg.Refine1 PV.Peg.Refine2 PV.Peg.Refine3 PV.Peg.Refine4 PV.Peg.Refine5 PV.Peg.Refine5b
  PV.Peg.Refine6 PV.Peg.Refine7 PV.Peg.Refine8 PV.Peg.Refine9.

(* the forest of a token queue in stream order (what `Pairs` shows) *)
Definition forest (q : list qtoken) : list tree := forest_of (map conv q) 0 (length q).

Lemma forest_rev_toks f : forest (rev (toks 0 f)) = f.
Proof.
  unfold forest. rewrite map_conv_rev_toks, rev_length, toks_length.
  change (tokens_at 0 f) with (tokens_of f). rewrite <- (length_tokens_at f 0). apply forest_of_tokens_of.
Qed.

Section Top.
Variable OG : ogrammar.
Variable extras : bool.
Variable uranges : name -> option (list (N * N)).
Variable pp : bool.
Variable cfg : config.
Variable w : list byte.
Hypothesis Hcfg : cfg_ok cfg.
Hypothesis HG : grammar_ok OG extras uranges pp.

Notation G := (embed_g OG).
Notation E := (vm_env OG uranges).
Notation ev := (eval G extras (uprop uranges) w).
Notation K := (K OG).

(* ---------- the simulation, explicit ---------- *)
Theorem vm_refines_spec n e a emit p sg s :
  in_fragment OG extras uranges pp e = true -> rok OG K e = true -> lits_valid e ->
  rep w a emit p sg s ->
  match ev n a emit (embed e) p sg with
  | SMatch p' sg' f =>
      exists m vr, exec cfg E m (vm_expr OG uranges e) s = vr /\
      match vr with
      | ROk s' => pos s' = p' /\ cache (stack s') = sg' /\ queue s' = toks (length (queue s)) f ++ queue s /\
                  rep w a emit p' sg' s'
      | RPanic k => pp = true /\ k = PkEmptyStack
      | _ => False
      end
  | SFail =>
      exists m vr, exec cfg E m (vm_expr OG uranges e) s = vr /\
      match vr with
      | RErr s' => pos s' = pos s /\ queue s' = queue s /\
                   ((exists k, fclean OG k e = true) -> cache (stack s') = cache (stack s)) /\
                   good s' /\ keeps s s'
      | RPanic k => pp = true /\ k = PkEmptyStack
      | _ => False
      end
  | SFuel => True
  end.
Proof.
  intros Fr Ro Li R.
  pose proof (vm_refines_spec_psim OG extras uranges pp cfg w Hcfg HG n e a emit p sg Fr Ro Li) as H.
  pose proof (HE OG extras uranges pp HG) as HE'.
  destruct (ev n a emit (embed e) p sg) as [p' sg' f| |] eqn:Ev; [| |exact I].
  - destruct (H ltac:(discriminate) s R) as (vr & R1 & S1). pose proof R1 as [_ [m A]].
    exists m, vr. split; [exact A|]. destruct vr as [s'|s'|k|]; cbn in S1.
    + destruct S1 as (A1 & A2 & A3). split; [exact A1|]. split; [exact A2|]. split; [exact A3|].
      apply (rep_step cfg E w Hcfg HE' (vm_expr OG uranges e) a emit p sg s s' p' sg' true R (pv_expr OG uranges e Li) R1 A1 A2).
    + destruct S1; discriminate.
    + exact S1.
    + exact S1.
  - destruct (H ltac:(discriminate) s R) as (vr & R1 & S1). pose proof R1 as [_ [m A]].
    exists m, vr. split; [exact A|]. destruct vr as [s'|s'|k|]; cbn in S1.
    + exact S1.
    + destruct S1 as (_ & A1 & A2 & A3). split; [exact A1|]. split; [exact A2|]. split; [exact A3|].
      exact (run_inv cfg E Hcfg HE' _ s _ (r_good _ _ _ _ _ _ R) (pv_expr OG uranges e Li) R1).
    + exact S1.
    + exact S1.
Qed.

(* ---------- whole parses ---------- *)
Hypothesis Hw : valid_utf8 w.

Lemma rep_init detail : rep w NonAtomic true 0 [] (init w None detail).
Proof.
  destruct (init_wf_inv w None detail) as [W I]. split; try reflexivity.
  split; [exact W|eexists; exact I|now apply init_utf8_ok|reflexivity].
Qed.

Lemma limit_reached_none s : limit s = None -> limit_reached s = false.
Proof. unfold limit_reached. now intros ->. Qed.

(* the parse of rule r, as an observable outcome *)
Definition vm_parse (m : nat) (r : name) (detail : bool) : outcome :=
  outcome_of cfg (run_state cfg E m (vm_start OG uranges r) w None detail).

Theorem parse_refines_spec r detail n :
  ident_ok OG uranges pp r = true ->
  match spec_parse G extras (uprop uranges) w n r with
  | SMatch p sg f =>
      exists m, (exists q, vm_parse m r detail = OPairs q /\ forest q = f) \/ (pp = true /\ vm_parse m r detail = OPanic)
  | SFail =>
      exists m, (exists ps ns ap, vm_parse m r detail = OParsingError ps ns ap) \/ (pp = true /\ vm_parse m r detail = OPanic)
  | SFuel => True
  end.
Proof.
  intros IO. unfold spec_parse, vm_parse, run_state, vm_start.
  pose proof (vm_refines_spec n (OIdent r) NonAtomic true 0 [] (init w None detail) IO eq_refl I (rep_init detail)) as H.
  cbn [embed VmCompile.vm_expr] in H.
  destruct (ev n NonAtomic true (EIdent r) 0 []) as [p sg f| |]; [| |exact I].
  - destruct H as (m & vr & A & S1). exists m. rewrite A. destruct vr as [s'|s'|k|]; try contradiction.
    + left. destruct S1 as (_ & _ & Q & R'). cbn [outcome_of].
      rewrite (limit_reached_none s' (g_lim _ (r_good _ _ _ _ _ _ R'))), andb_false_r.
      eexists. split; [reflexivity|]. rewrite Q. cbn [init queue length]. rewrite app_nil_r. apply forest_rev_toks.
    + right. split; [apply S1|reflexivity].
  - destruct H as (m & vr & A & S1). exists m. rewrite A. destruct vr as [s'|s'|k|]; try contradiction.
    + left. destruct S1 as (_ & _ & _ & G' & _). cbn [outcome_of].
      rewrite (limit_reached_none s' (g_lim _ G')). eauto.
    + right. split; [apply S1|reflexivity].
Qed.

(* both directions, given that the Spec evaluation of this parse terminates (validated grammars: C06) *)
Theorem parse_iff_spec r detail f : pp = false ->
  ident_ok OG uranges pp r = true ->
  (exists n, spec_parse G extras (uprop uranges) w n r <> SFuel) ->
  ((exists m q, vm_parse m r detail = OPairs q /\ forest q = f) <->
   (exists n p sg, spec_parse G extras (uprop uranges) w n r = SMatch p sg f)).
Proof.
  intros Hpp IO [n0 T]. split.
  - intros (m & q & Hq & Hf). pose proof (parse_refines_spec r detail n0 IO) as H.
    destruct (spec_parse G extras (uprop uranges) w n0 r) as [p sg f'| |] eqn:Es; [| |congruence].
    + exists n0, p, sg. f_equal. destruct H as (m' & [(q' & Hq' & Hf')|[Hc _]]); [|congruence].
      assert (Heq : vm_parse m r detail = vm_parse m' r detail).
      { unfold vm_parse, run_state. f_equal. apply exec_fuel_irrelevant.
        - intros Ho. unfold vm_parse, run_state in Hq. rewrite Ho in Hq. discriminate.
        - intros Ho. unfold vm_parse, run_state in Hq'. rewrite Ho in Hq'. discriminate. }
      rewrite Hq, Hq' in Heq. injection Heq as <-. congruence.
    + exfalso. destruct H as (m' & [(ps & ns & ap & Hq')|[Hc _]]); [|congruence].
      assert (Heq : vm_parse m r detail = vm_parse m' r detail).
      { unfold vm_parse, run_state. f_equal. apply exec_fuel_irrelevant.
        - intros Ho. unfold vm_parse, run_state in Hq. rewrite Ho in Hq. discriminate.
        - intros Ho. unfold vm_parse, run_state in Hq'. rewrite Ho in Hq'. discriminate. }
      rewrite Hq, Hq' in Heq. discriminate.
  - intros (n & p & sg & Es). pose proof (parse_refines_spec r detail n IO) as H. rewrite Es in H.
    destruct H as (m & [(q & Hq & Hf)|[Hc _]]); [eauto|congruence].
Qed.

End Top.
