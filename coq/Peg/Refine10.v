(* C01, part 10: the simulation theorem in explicit form (`vm_refines_spec`) and its corollary for whole
   parses (`parse_refines_spec`, `parse_iff_spec`).                                                   *)
From Coq Require Import List Arith NArith ZArith Bool Lia.
Import ListNotations.
Require Import PV.Iter.Queue PV.Iter.QueueFacts.
Require Import PV.Stack.Model PV.Stack.Proofs PV.Comb.PState PV.Comb.Bytes PV.Comb.Prog PV.Comb.Exec.
Require Import PV.Comb.Frame PV.Comb.Contracts PV.Comb.Utf8 PV.Comb.Utf8b PV.Comb.Utf8c.
Require Import PV.Peg.Ast PV.Peg.Spec PV.Peg.VmCompile.
Require Import PV.Peg.Refine0 PV.Peg.Refine1 PV.Peg.Refine2 PV.Peg.Refine3 PV.Peg.Refine4 PV.Peg.Refine5 PV.Peg.Refine5b
  PV.Peg.Refine6 PV.Peg.Refine7 PV.Peg.Refine8 PV.Peg.Refine9 PV.Peg.Refine12 PV.Peg.Refine13.

(* the forest of a token queue in stream order (what `Pairs` shows) *)
Definition forest (q : list qtoken) : list tree := forest_of (map conv q) 0 (length q).

Lemma forest_rev_toks f : forest (rev (toks 0 f)) = f.
Proof.
  unfold forest. rewrite map_conv_rev_toks, rev_length, toks_length.
  change (tokens_at 0 f) with (tokens_of f). rewrite <- (length_tokens_at f 0). apply forest_of_tokens_of.
Qed.

Section Top.
Variable OG : ogrammar.
Variable extras : bool.
Variable uranges : name -> option (list (N * N)).
Variable pp : bool.
Variable cfg : config.
Variable w : list byte.
Hypothesis Hcfg : cfg_ok cfg.
Hypothesis HG : grammar_ok OG extras uranges pp.

Notation G := (embed_g OG).
Notation E := (vm_env OG uranges).
Notation ev := (eval G extras (uprop uranges) w).
Notation K := (K OG).

(* ---------- the simulation, explicit ---------- *)
Theorem vm_refines_spec n e a emit p sg s :
  in_fragment OG extras uranges pp e = true -> rok OG K e = true -> lits_valid e ->
  rep w a emit p sg s ->
  match ev n a emit (embed e) p sg with
  | SMatch p' sg' f =>
      exists m vr, exec cfg E m (vm_expr OG uranges e) s = vr /\
      match vr with
      | ROk s' => pos s' = p' /\ cache (stack s') = sg' /\ queue s' = toks (length (queue s)) f ++ queue s /\
                  rep w a emit p' sg' s'
      | RPanic k => pp = true /\ k = PkEmptyStack
      | _ => False
      end
  | SFail =>
      exists m vr, exec cfg E m (vm_expr OG uranges e) s = vr /\
      match vr with
      | RErr s' => pos s' = pos s /\ queue s' = queue s /\
                   ((exists k, fclean OG k e = true) -> cache (stack s') = cache (stack s)) /\
                   good s' /\ keeps s s'
      | RPanic k => pp = true /\ k = PkEmptyStack
      | _ => False
      end
  | SFuel => True
  end.
Proof.
  intros Fr Ro Li R.
  pose proof (vm_refines_spec_psim OG extras uranges pp cfg w Hcfg HG n e a emit p sg Fr (rok_rokP OG K e Ro) Li) as H.
  pose proof (HE OG extras uranges pp HG) as HE'.
  destruct (ev n a emit (embed e) p sg) as [p' sg' f| |] eqn:Ev; [| |exact I].
  - destruct (H ltac:(discriminate) s R) as (vr & R1 & S1). pose proof R1 as [_ [m A]].
    exists m, vr. split; [exact A|]. destruct vr as [s'|s'|k|]; cbn in S1.
    + destruct S1 as (A1 & A2 & A3). split; [exact A1|]. split; [exact A2|]. split; [exact A3|].
      apply (rep_step cfg E w Hcfg HE' (vm_expr OG uranges e) a emit p sg s s' p' sg' true R (pv_expr OG uranges e Li) R1 A1 A2).
    + destruct S1; discriminate.
    + exact S1.
    + exact S1.
  - destruct (H ltac:(discriminate) s R) as (vr & R1 & S1). pose proof R1 as [_ [m A]].
    exists m, vr. split; [exact A|]. destruct vr as [s'|s'|k|]; cbn in S1.
    + exact S1.
    + destruct S1 as (_ & A1 & A2 & A3). split; [exact A1|]. split; [exact A2|]. split; [intros Hc; apply A3; left; exact Hc|].
      exact (run_inv cfg E Hcfg HE' _ s _ (r_good _ _ _ _ _ _ R) (pv_expr OG uranges e Li) R1).
    + exact S1.
    + exact S1.
Qed.

(* ---------- whole parses ---------- *)
Hypothesis Hw : valid_utf8 w.

Lemma rep_init detail : rep w NonAtomic true 0 [] (init w None detail).
Proof.
  destruct (init_wf_inv w None detail) as [W I]. split; try reflexivity.
  split; [exact W|eexists; exact I|now apply init_utf8_ok|reflexivity].
Qed.

Lemma limit_reached_none s : limit s = None -> limit_reached s = false.
Proof. unfold limit_reached. now intros ->. Qed.

(* the parse of rule r, as an observable outcome *)
Definition vm_parse (m : nat) (r : name) (detail : bool) : outcome :=
  outcome_of cfg (run_state cfg E m (vm_start OG uranges r) w None detail).

Theorem parse_refines_spec r detail n :
  ident_ok OG uranges pp r = true ->
  match spec_parse G extras (uprop uranges) w n r with
  | SMatch p sg f =>
      exists m, (exists q, vm_parse m r detail = OPairs q /\ forest q = f) \/ (pp = true /\ vm_parse m r detail = OPanic)
  | SFail =>
      exists m, (exists ps ns ap, vm_parse m r detail = OParsingError ps ns ap) \/ (pp = true /\ vm_parse m r detail = OPanic)
  | SFuel => True
  end.
Proof.
  intros IO. unfold spec_parse, vm_parse, run_state, vm_start.
  pose proof (vm_refines_spec n (OIdent r) NonAtomic true 0 [] (init w None detail) IO eq_refl I (rep_init detail)) as H.
  cbn [embed VmCompile.vm_expr] in H.
  destruct (ev n NonAtomic true (EIdent r) 0 []) as [p sg f| |]; [| |exact I].
  - destruct H as (m & vr & A & S1). exists m. rewrite A. destruct vr as [s'|s'|k|]; try contradiction.
    + left. destruct S1 as (_ & _ & Q & R'). cbn [outcome_of].
      rewrite (limit_reached_none s' (g_lim _ (r_good _ _ _ _ _ _ R'))), andb_false_r.
      eexists. split; [reflexivity|]. rewrite Q. cbn [init queue length]. rewrite app_nil_r. apply forest_rev_toks.
    + right. split; [apply S1|reflexivity].
  - destruct H as (m & vr & A & S1). exists m. rewrite A. destruct vr as [s'|s'|k|]; try contradiction.
    + left. destruct S1 as (_ & _ & _ & G' & _). cbn [outcome_of].
      rewrite (limit_reached_none s' (g_lim _ G')). eauto.
    + right. split; [apply S1|reflexivity].
Qed.

(* both directions, given that the Spec evaluation of this parse terminates (validated grammars: C06) *)
Theorem parse_iff_spec r detail f : pp = false ->
  ident_ok OG uranges pp r = true ->
  (exists n, spec_parse G extras (uprop uranges) w n r <> SFuel) ->
  ((exists m q, vm_parse m r detail = OPairs q /\ forest q = f) <->
   (exists n p sg, spec_parse G extras (uprop uranges) w n r = SMatch p sg f)).
Proof.
  intros Hpp IO [n0 T]. split.
  - intros (m & q & Hq & Hf). pose proof (parse_refines_spec r detail n0 IO) as H.
    destruct (spec_parse G extras (uprop uranges) w n0 r) as [p sg f'| |] eqn:Es; [| |congruence].
    + exists n0, p, sg. f_equal. destruct H as (m' & [(q' & Hq' & Hf')|[Hc _]]); [|congruence].
      assert (Heq : vm_parse m r detail = vm_parse m' r detail).
      { unfold vm_parse, run_state. f_equal. apply exec_fuel_irrelevant.
        - intros Ho. unfold vm_parse, run_state in Hq. rewrite Ho in Hq. discriminate.
        - intros Ho. unfold vm_parse, run_state in Hq'. rewrite Ho in Hq'. discriminate. }
      rewrite Hq, Hq' in Heq. injection Heq as <-. congruence.
    + exfalso. destruct H as (m' & [(ps & ns & ap & Hq')|[Hc _]]); [|congruence].
      assert (Heq : vm_parse m r detail = vm_parse m' r detail).
      { unfold vm_parse, run_state. f_equal. apply exec_fuel_irrelevant.
        - intros Ho. unfold vm_parse, run_state in Hq. rewrite Ho in Hq. discriminate.
        - intros Ho. unfold vm_parse, run_state in Hq'. rewrite Ho in Hq'. discriminate. }
      rewrite Hq, Hq' in Heq. discriminate.
  - intros (n & p & sg & Es). pose proof (parse_refines_spec r detail n IO) as H. rewrite Es in H.
    destruct H as (m & [(q & Hq & Hf)|[Hc _]]); [eauto|congruence].
Qed.

(* ---------- termination transfers from the VM to the Spec: no hypothesis on the Spec side ---------- *)
Theorem vm_terminates_spec_explicit m e a emit p sg s :
  in_fragment OG extras uranges pp e = true -> rok OG K e = true -> lits_valid e ->
  rep w a emit p sg s ->
  (exists s', exec cfg E m (vm_expr OG uranges e) s = ROk s' \/ exec cfg E m (vm_expr OG uranges e) s = RErr s') ->
  ev m a emit (embed e) p sg <> SFuel.
Proof.
  intros Fr Ro Li R (s' & Hs).
  apply (vm_terminates_spec OG extras uranges pp cfg w Hcfg HG m e a emit p sg Fr (rok_rokP OG K e Ro) Li s
           (exec cfg E m (vm_expr OG uranges e) s) R).
  - split; [destruct Hs as [-> | ->]; discriminate|]. exists m. split; [apply Nat.le_refl|reflexivity].
  - intros k Hk. destruct Hs as [Hs|Hs]; congruence.
Qed.

Lemma vm_parse_ok_inv m r detail q : vm_parse m r detail = OPairs q ->
  exists s', exec cfg E m (vm_call OG uranges r) (init w None detail) = ROk s' /\ q = rev (queue s').
Proof.
  unfold vm_parse, run_state, vm_start. destruct (exec cfg E m _ _) as [s'|s'|k|]; cbn [outcome_of]; try discriminate.
  - destruct (fixedlim cfg && limit_reached s'); [discriminate|]. intros [= <-]. eauto.
  - destruct (limit_reached s'); discriminate.
Qed.

Lemma vm_parse_err_inv m r detail ps ns ap : vm_parse m r detail = OParsingError ps ns ap ->
  exists s', exec cfg E m (vm_call OG uranges r) (init w None detail) = RErr s'.
Proof.
  unfold vm_parse, run_state, vm_start. destruct (exec cfg E m _ _) as [s'|s'|k|]; cbn [outcome_of]; try discriminate; eauto.
  destruct (fixedlim cfg && limit_reached s'); discriminate.
Qed.

Lemma vm_parse_det m m' r detail :
  vm_parse m r detail <> OOutOfFuel -> vm_parse m' r detail <> OOutOfFuel -> vm_parse m r detail = vm_parse m' r detail.
Proof.
  unfold vm_parse, run_state. intros H1 H2. f_equal. apply exec_fuel_irrelevant.
  - intros Ho. rewrite Ho in H1. apply H1. reflexivity.
  - intros Ho. rewrite Ho in H2. apply H2. reflexivity.
Qed.

(* soundness of a successful VM parse, PEEK / POP allowed: the Spec matches with the same forest *)
Theorem parse_ok_sound r detail m q : ident_ok OG uranges pp r = true ->
  vm_parse m r detail = OPairs q ->
  exists n p sg, spec_parse G extras (uprop uranges) w n r = SMatch p sg (forest q).
Proof.
  intros IO Hq. destruct (vm_parse_ok_inv m r detail q Hq) as (s' & Hs & _).
  assert (T : spec_parse G extras (uprop uranges) w m r <> SFuel).
  { apply (vm_terminates_spec_explicit m (OIdent r) NonAtomic true 0 [] (init w None detail) IO eq_refl Logic.I (rep_init detail)).
    exists s'. left. exact Hs. }
  pose proof (parse_refines_spec r detail m IO) as H.
  destruct (spec_parse G extras (uprop uranges) w m r) as [p sg f| |] eqn:Es; [| |congruence].
  - exists m, p, sg. rewrite Es. f_equal. destruct H as (m' & [(q' & Hq' & Hf')|[_ Hc]]).
    + pose proof (vm_parse_det m m' r detail ltac:(congruence) ltac:(congruence)) as Heq.
      rewrite Hq, Hq' in Heq. injection Heq as <-. symmetry. exact Hf'.
    + pose proof (vm_parse_det m m' r detail ltac:(congruence) ltac:(congruence)) as Heq. congruence.
  - exfalso. destruct H as (m' & [(ps & ns & ap & Hq')|[_ Hc]]);
      pose proof (vm_parse_det m m' r detail ltac:(congruence) ltac:(congruence)) as Heq; congruence.
Qed.

(* and of a failed one *)
Theorem parse_err_sound r detail m ps ns ap : ident_ok OG uranges pp r = true ->
  vm_parse m r detail = OParsingError ps ns ap ->
  exists n, spec_parse G extras (uprop uranges) w n r = SFail.
Proof.
  intros IO Hq. destruct (vm_parse_err_inv m r detail ps ns ap Hq) as (s' & Hs).
  assert (T : spec_parse G extras (uprop uranges) w m r <> SFuel).
  { apply (vm_terminates_spec_explicit m (OIdent r) NonAtomic true 0 [] (init w None detail) IO eq_refl Logic.I (rep_init detail)).
    exists s'. right. exact Hs. }
  pose proof (parse_refines_spec r detail m IO) as H.
  destruct (spec_parse G extras (uprop uranges) w m r) as [p sg f| |] eqn:Es; [| |congruence].
  - exfalso. destruct H as (m' & [(q' & Hq' & Hf')|[_ Hc]]);
      pose proof (vm_parse_det m m' r detail ltac:(congruence) ltac:(congruence)) as Heq; congruence.
  - exists m. exact Es.
Qed.

(* both directions, unconditionally, for grammars without PEEK / POP *)
Theorem parse_iff_spec_total r detail f : pp = false -> ident_ok OG uranges pp r = true ->
  ((exists m q, vm_parse m r detail = OPairs q /\ forest q = f) <->
   (exists n p sg, spec_parse G extras (uprop uranges) w n r = SMatch p sg f)).
Proof.
  intros Hpp IO. split.
  - intros (m & q & Hq & <-). eapply parse_ok_sound; eauto.
  - intros (n & p & sg & Es). pose proof (parse_refines_spec r detail n IO) as H. rewrite Es in H.
    destruct H as (m & [(q & Hq & Hf)|[Hc _]]); [eauto|congruence].
Qed.

Theorem parse_fail_iff_spec_total r detail : pp = false -> ident_ok OG uranges pp r = true ->
  ((exists m ps ns ap, vm_parse m r detail = OParsingError ps ns ap) <->
   (exists n, spec_parse G extras (uprop uranges) w n r = SFail)).
Proof.
  intros Hpp IO. split.
  - intros (m & ps & ns & ap & Hq). eapply parse_err_sound; eauto.
  - intros (n & Es). pose proof (parse_refines_spec r detail n IO) as H. rewrite Es in H.
    destruct H as (m & [(ps & ns & ap & Hq)|[Hc _]]); [eauto 6|congruence].
Qed.

End Top.
