(* C01, part 9: node tags, and the simulation theorem `vm_refines_spec` by induction on the Spec fuel. *)
From Coq Require Import List Arith NArith ZArith Bool String Lia.
Import ListNotations.
Require Import PV.Iter.Queue PV.Iter.QueueFacts.
Require Import PV.Stack.Model PV.Stack.Proofs PV.Comb.PState PV.Comb.Bytes PV.Comb.Prog PV.Comb.Exec.
Require Import PV.Comb.Frame PV.Comb.Contracts PV.Comb.Utf8 PV.Comb.Utf8b PV.Comb.Utf8c.
Require Import PV.Peg.Ast PV.Peg.Spec PV.Peg.VmCompile.
Require Import PV.Peg.Refine0 PV.Peg.Refine1 PV.Peg.Refine2 PV.Peg.Refine3 PV.Peg.Refine4 PV.Peg.Refine5 PV.Peg.Refine5b
  PV.Peg.Refine6 PV.Peg.Refine7 PV.Peg.Refine8.

Arguments Nat.sub : simpl never.
Arguments Nat.mul : simpl never.
Arguments Nat.ltb : simpl never.
Arguments Nat.leb : simpl never.
Arguments Nat.eqb : simpl never.
Arguments skipn : simpl never.
Arguments firstn : simpl never.

(* ---------- tagging the last node ---------- *)
Lemma tag_last_cons2 x y f t : tag_last (x :: y :: f) t = x :: tag_last (y :: f) t.
Proof. destruct x. reflexivity. Qed.

Lemma toks_tag_last f t : forall b, f <> [] ->
  exists si r tg p q', toks b f = QEnd si r tg p :: q' /\ toks b (tag_last f t) = QEnd si r (Some t) p :: q'.
Proof.
  induction f as [|x f IH]; intros b Hne; [congruence|].
  destruct f as [|y f].
  - destruct x as [r tg s e ch]. cbn [tag_last]. rewrite !toks_node. eauto 8.
  - rewrite tag_last_cons2.
    change (x :: y :: f) with ([x] ++ (y :: f)). change (x :: tag_last (y :: f) t) with ([x] ++ tag_last (y :: f) t).
    rewrite !toks_app. destruct (IH (b + 2 * fsize [x])) as (si & r & tg & p & q' & H1 & H2); [discriminate|].
    rewrite H1, H2. cbn [app]. eauto 8.
Qed.

Lemma tag_last_nonempty f t : f <> [] -> tag_last f t <> [].
Proof.
  intros H. destruct (toks_tag_last f t 0 H) as (si & r & tg & p & q' & _ & H2).
  intros Heq. rewrite Heq in H2. discriminate.
Qed.

Section Tag.
Variable cfg : config.
Variable E : env.
Variable w : list byte.
Variable pp : bool.
Hypothesis Hcfg : cfg_ok cfg.
Hypothesis HE : env_valid E.

Notation psim := (psim cfg E w pp).

Lemma psim_tag (C : Prop) q a emit p sg r t : prog_valid q -> psim C q a emit p sg r ->
  (forall p' sg' f, r = SMatch p' sg' f -> emit = true -> f <> []) ->
  psim C (PAndThen q (PPrim (MTagNode t))) a emit p sg
    (match r with SMatch q' sg2 f2 => SMatch q' sg2 (tag_last f2 t) | SFail => SFail | SFuel => SFuel end).
Proof.
  intros V H NE N s R.
  assert (N1 : r <> SFuel) by (intros ->; apply N; reflexivity).
  destruct (H N1 s R) as (vr & R1 & S1). pose proof (r_good _ _ _ _ _ _ R) as G.
  destruct vr as [s1|s1|k|]; cbn in S1.
  - destruct r as [p1 sg1 f1| |]; try contradiction. destruct S1 as (A1 & A2 & A3).
    pose proof (run_inv cfg E Hcfg HE q s _ G V R1) as [G1 [k1 k2 k3 k4]].
    destruct emit eqn:Em.
    + (* tokens are produced: the last node is this expression's own *)
      destruct (toks_tag_last f1 t (List.length (queue s)) (NE _ _ _ eq_refl eq_refl)) as (si & r & tg & p0 & q' & T1 & T2).
      eexists. split.
      * eapply runs_andthen_ok; [exact R1|]. apply runs_prim;
        [cbn [exec_prim]; rewrite k2, (r_emit _ _ _ _ _ _ R); cbn [negb]; rewrite A3, T1; cbn [app]; reflexivity|discriminate].
      * cbn. rewrite T2. auto.
    + (* under look-ahead nothing was produced and nothing is tagged *)
      assert (Q : queue s1 = queue s).
      { destruct R1 as [_ [m A]]. destruct G as [W [a0 I] U L].
        apply (exec_quiet cfg E m q s a0 s1 W I); [|left; exact A].
        intros HL. pose proof (r_emit _ _ _ _ _ _ R) as Hm. rewrite HL in Hm. discriminate. }
      assert (F0 : f1 = []).
      { rewrite Q in A3. apply (toks_empty_inv (List.length (queue s))).
        apply (app_inv_tail (queue s)). rewrite <- A3. reflexivity. }
      subst f1. exists (ROk s1). split.
      * eapply runs_andthen_ok; [exact R1|]. apply runs_prim;
        [cbn [exec_prim]; rewrite k2, (r_emit _ _ _ _ _ _ R); reflexivity|discriminate].
      * cbn. auto.
  - destruct S1 as (-> & S1). exists (RErr s1). split; [apply runs_andthen_stop; [exact R1|discriminate]|cbn; auto].
  - exists (RPanic k). split; [apply runs_andthen_stop; [exact R1|discriminate]|exact S1].
  - contradiction.
Qed.

End Tag.

(* ---------- Spec-side equations for the repetitions ---------- *)
Lemma rep_eq (r1 : sres) f (U : nat -> list str -> sres) p sg :
  match r1 with SMatch p1 sg1 f1 => loop f U p1 sg1 f1 | SFail => SMatch p sg [] | SFuel => SFuel end =
  sres_opt p sg (sres_bind r1 (fun p1 sg1 => loop f U p1 sg1 [])).
Proof.
  destruct r1 as [p1 sg1 f1| |]; cbn; auto. rewrite loop_acc.
  destruct (loop f U p1 sg1 []) eqn:El; cbn; auto. exfalso. eapply loop_not_fail; exact El.
Qed.

Lemma if_true_eq {T} (c : bool) (x y : T) : c = true -> (if c then x else y) = x.
Proof. intros ->. reflexivity. Qed.

Lemma rep_once_eq (r1 : sres) f (U : nat -> list str -> sres) :
  match r1 with SMatch p1 sg1 f1 => loop f U p1 sg1 f1 | SFail => SFail | SFuel => SFuel end =
  sres_bind r1 (fun p1 sg1 => loop f U p1 sg1 []).
Proof. destruct r1 as [p1 sg1 f1| |]; cbn; auto. rewrite loop_acc. destruct (loop f U p1 sg1 []); reflexivity. Qed.

Section Main.
Variable OG : ogrammar.
Variable extras : bool.
Variable uranges : name -> option (list (N * N)).
Variable pp : bool.
Variable cfg : config.
Variable w : list byte.
Hypothesis Hcfg : cfg_ok cfg.
Hypothesis HG : grammar_ok OG extras uranges pp.

Notation G := (embed_g OG).
Notation E := (vm_env OG uranges).
Notation ev := (eval G extras (uprop uranges) w).
Notation psim := (psim cfg E w pp).
Notation pbsim := (pbsim cfg E w pp).
Notation vm_expr := (vm_expr OG uranges).
Notation vm_skip := (vm_skip OG uranges).
Notation sim_at := (sim_at OG extras uranges pp cfg w).
Notation in_fragment := (in_fragment OG extras uranges pp).
Notation K := (K OG).
Notation Cl := (Cl OG).
Notation ClS := (ClS OG).
Notation HE := (HE OG extras uranges pp HG).

Lemma cl_of_K x : fclean OG K x = true -> Cl x.
Proof. intros H. exists K. exact H. Qed.
Lemma cls_of_cleanP x : cleanP OG K x -> ClS x.
Proof. intros [H|H]; [left; now apply cl_of_K|right; exact H]. Qed.

(* a tagged expression of the fragment produces at least one node whenever it matches and tokens are on *)
Lemma emits_last_nonempty e : emits_last OG e = true -> in_fragment e = true ->
  forall n a p sg p' sg' f, ev n a true (embed e) p sg = SMatch p' sg' f -> f <> [].
Proof.
  induction e; cbn [emits_last Refine6.in_fragment]; try discriminate; intros EL Fr n0 a p sg p' sg' f H;
    (destruct n0 as [|n0]; [discriminate|]); cbn [embed] in H.
  - (* OIdent *)
    apply andb_true_iff in EL. destruct EL as [EL EL3]. apply andb_true_iff in EL. destruct EL as [EL1 EL2].
    apply negb_true_iff in EL1. apply negb_true_iff in EL2.
    rewrite (eval_user OG extras uranges w n0 a true n p sg EL1) in H.
    change (is_special n) with (is_special_name n) in H. rewrite EL2 in H.
    destruct (find_orule OG n) as [r|]; [|discriminate]. unfold rule_mode in H.
    destruct (oty r); try discriminate; cbv zeta in H;
      destruct (eval _ _ _ _ _ _ _ _ _ _); cbn in H; try discriminate; injection H as <- <- <-; discriminate.
  - (* OSeq *)
    apply andb_true_iff in Fr. destruct Fr as [F1 F2]. cbn [eval] in H.
    destruct (eval _ _ _ _ n0 a true (embed e1) p sg) as [p1 sg1 f1| |]; try discriminate.
    destruct (skip_with _ _ _ _ _ _ _) as [p2 sg2 f2| |]; try discriminate.
    destruct (eval _ _ _ _ n0 a true (embed e2) p2 sg2) as [p3 sg3 f3| |] eqn:E3; try discriminate.
    injection H as <- <- <-. pose proof (IHe2 EL F2 _ _ _ _ _ _ _ E3) as N3.
    intros Heq. apply app_eq_nil in Heq. destruct Heq as [_ Heq]. apply app_eq_nil in Heq. tauto.
  - (* OChoice *)
    apply andb_true_iff in Fr. destruct Fr as [F1 F2]. apply andb_true_iff in EL. destruct EL as [L1 L2]. cbn [eval] in H.
    destruct (eval _ _ _ _ n0 a true (embed e1) p sg) as [p1 sg1 f1| |] eqn:E1; try discriminate.
    + injection H as <- <- <-. eapply IHe1; eauto.
    + eapply IHe2; eauto.
  - (* ORepOnce *)
    apply andb_true_iff in Fr. destruct Fr as [-> F1]. cbn [eval] in H.
    destruct (eval _ _ _ _ n0 a true (embed e) p sg) as [p1 sg1 f1| |] eqn:E1; try discriminate.
    unfold rep_from_with in H. rewrite loop_acc in H. destruct (loop _ _ _ _ _); try discriminate.
    injection H as <- <- <-. pose proof (IHe EL F1 _ _ _ _ _ _ _ E1) as N1.
    intros Heq. apply app_eq_nil in Heq. tauto.
  - (* OPush *)
    cbn [eval] in H. destruct (eval _ _ _ _ n0 a true (embed e) p sg) as [p1 sg1 f1| |] eqn:E1; try discriminate.
    injection H as <- <- <-. eapply IHe; eauto.
  - (* ONodeTag *)
    apply andb_true_iff in Fr. destruct Fr as [F1 F2]. cbn [eval] in H.
    destruct (eval _ _ _ _ n0 a true (embed e) p sg) as [p1 sg1 f1| |] eqn:E1; try discriminate.
    injection H as <- <- <-. apply tag_last_nonempty. eapply IHe; eauto.
  - (* ORestoreOnErr *)
    eapply (IHe EL Fr (S n0)); eauto.
Qed.

Lemma pvx x : lits_valid x -> prog_valid (vm_expr x).
Proof. apply pv_expr. Qed.

Lemma sim_step f : sim_at f -> sim_at (S f).
Proof.
  intros IH e. induction e; intros a emit p sg Fr Ro Li; apply psim_sem;
    cbn [embed VmCompile.vm_expr]; cbn [Refine6.in_fragment Refine6.rokP lits_valid] in Fr, Ro, Li.
  - (* OStr *) cbn [eval]. apply psim_str.
  - (* OInsens *) cbn [eval]. apply psim_insens.
  - (* ORange *) cbn [eval]. apply psim_range.
  - (* OIdent *)
    destruct (is_builtin n) eqn:B.
    + now apply sim_builtin.
    + now apply sim_user.
  - (* OPeekSlice *)
    eapply psim_eq; [|apply psim_peek_slice]. symmetry. cbn [eval]. apply spec_peek_slice.
  - (* OPosPred *)
    cbn [eval]. apply (psim_lookahead cfg E w pp (ClS e) _ true). now apply IH.
  - (* ONegPred *)
    cbn [eval]. apply (psim_lookahead cfg E w pp (ClS e) _ false). now apply IH.
  - (* OSeq *)
    apply andb_true_iff in Fr. destruct Fr as [F1 F2]. destruct Ro as [R1 R2]. destruct Li as [L1 L2].
    eapply psim_eq; [|apply psim_sequence;
      apply (pbsim_andthen cfg E w pp Hcfg HE _ _ a emit p sg
               (sres_bind (ev f a emit (embed e1) p sg) (fun p1 sg1 => skip_with G (ev f) f a emit p1 sg1))
               (fun p2 sg2 => ev f a emit (embed e2) p2 sg2));
      [cbn; split; [now apply pvx|apply pv_skip]
      |apply (pbsim_andthen cfg E w pp Hcfg HE _ _ a emit p sg (ev f a emit (embed e1) p sg)
                (fun p1 sg1 => skip_with G (ev f) f a emit p1 sg1));
        [now apply pvx
        |eapply psim_pbsim; now apply IH
        |intros p1 sg1 f1 _; eapply psim_pbsim; now apply sim_skip]
      |intros p2 sg2 f2 _; eapply psim_pbsim; now apply IH]].
    cbn [eval]. destruct (eval _ _ _ _ f a emit (embed e1) p sg) as [p1 sg1 f1| |]; cbn [sres_bind]; auto.
    destruct (skip_with _ _ _ _ _ _ _) as [p2 sg2 f2| |]; cbn [sres_bind]; auto.
    destruct (eval _ _ _ _ f a emit (embed e2) p2 sg2) as [p3 sg3 f3| |]; cbn [sres_bind]; auto.
    now rewrite app_assoc.
  - (* OChoice *)
    apply andb_true_iff in Fr. destruct Fr as [F1 F2]. destruct Ro as (R1 & R2 & R3). destruct Li as [L1 L2].
    cbn [eval].
    apply (psim_weaken cfg E w pp (ClS e2)).
    { intros [k Hk]. left. exists k. destruct k; cbn [Refine6.fclean fclean_e] in Hk |- *; apply andb_true_iff in Hk; tauto. }
    apply (psim_orelse cfg E w pp Hcfg HE (ClS e1) (ClS e2)); [now apply pvx|now apply cls_of_cleanP|now apply IH|now apply IH].
  - (* OOpt *)
    destruct Ro as [R1 R2]. cbn [eval].
    apply (psim_optional cfg E w pp (ClS e)); [now apply cls_of_cleanP|now apply IH].
  - (* ORep *)
    destruct Ro as [R1 R2]. cbn [eval]. unfold rep_from_with. rewrite rep_eq.
    apply psim_sequence. eapply psim_pbsim.
    apply (psim_optional cfg E w pp (ClS e) True); [now apply cls_of_cleanP|].
    apply (psim_andthen_total cfg E w pp Hcfg HE (ClS e) True); [now apply pvx|now apply IH|].
    intros p1 sg1 f1 _. split; [|apply loop_not_fail].
    apply psim_repeat. apply (psim_loop cfg E w pp Hcfg HE True _ a emit (rep_unit G (ev f) f a emit (embed e))).
    + cbn. split; [apply pv_skip|now apply pvx].
    + intros p0 sg0. now apply sim_rep_unit.
  - (* ORepOnce *)
    apply andb_true_iff in Fr. destruct Fr as [Hx F1]. cbn [eval]. rewrite (if_true_eq extras _ _ Hx). unfold rep_from_with. rewrite rep_once_eq.
    apply psim_sequence. apply pbsim_andthen; [exact Hcfg|exact HE|now apply pvx| |].
    + eapply psim_pbsim. now apply IH.
    + intros p1 sg1 f1 _. eapply psim_pbsim. apply psim_repeat.
      apply (psim_loop cfg E w pp Hcfg HE True _ a emit (rep_unit G (ev f) f a emit (embed e))).
      * cbn. split; [apply pv_skip|now apply pvx].
      * intros p0 sg0. now apply sim_rep_unit.
  - (* OSkip *) cbn [eval]. now apply psim_skip_until.
  - (* OPush *)
    cbn [eval]. apply (psim_weaken cfg E w pp (ClS e)).
    { intros [k Hk]. left. exists k. destruct k; exact Hk. }
    apply psim_push; [exact Hcfg|exact HE|now apply pvx|now apply IH].
  - (* OPushLiteral *) cbn [eval]. apply psim_push_lit.
  - (* ONodeTag *)
    apply andb_true_iff in Fr. destruct Fr as [F1 F2]. cbn [eval].
    apply (psim_weaken cfg E w pp (ClS e)).
    { intros [k Hk]. left. exists k. destruct k; exact Hk. }
    apply (psim_tag cfg E w pp Hcfg HE); [now apply pvx|now apply IH|].
    intros p' sg' f0 Hr ->. eapply emits_last_nonempty; eauto.
  - (* ORestoreOnErr *)
    apply (psim_restore cfg E w pp (ClS e)). now apply IHe.
Qed.

(* THE SIMULATION: for every Spec fuel, every expression of the fragment, every represented state *)
Theorem vm_refines_spec_psim : forall n, sim_at n.
Proof.
  induction n as [|n IH]; [|now apply sim_step].
  intros e a emit p sg _ _ _ N. exfalso. apply N. reflexivity.
Qed.

End Main.
