(* Layer B, part 1: the interpreting VM (vm/src/lib.rs) as a compiler from optimized rules to
   Layer-C programs.  Vm::parse(rule, input) = state(input, |s| parse_rule(rule, s)); since the VM
   is an interpreter, running it IS running `exec` on these programs.                          *)
From Coq Require Import List Arith NArith ZArith Bool String Ascii.
Import ListNotations.
Require Import PV.Comb.PState PV.Comb.Prog PV.Peg.Ast.

Section Vm.
Variable G : ogrammar.
Variable uranges : name -> option (list (N * N)).   (* Unicode property rules as code-point ranges *)

Definition onames : list name := map oname G.
Definition orule_id (n : name) : nat :=
  match index_of onames n 0 with Some k => k | None => List.length G end.   (* EOI: one past the end *)
Definition otag_id (t : name) : nat := fold_left (fun acc b => acc * 256 + N.to_nat b) t 0.
Definition has_orule (n : name) : bool := match find_orule G n with Some _ => true | None => false end.

Definition prim_range (lo hi : N) : prog := PPrim (MMatchRange lo hi).

(* parse_rule: the rules of the grammar first (fix: commit `pest_vm ignored user rules named like its hard-coded built-ins`),
   then the hard-coded names, then the Unicode properties *)
Definition vm_call (n : name) : prog :=
  (* `_ if self.rules.contains_key(rule) => ()`: a rule of the grammar shadows a hard-coded built-in *)
  if has_orule n then PCall (orule_id n)
  else if str_eqb n (nm "ANY") then PPrim (MSkip 1)
  else if str_eqb n (nm "EOI") then PRule (orule_id (nm "EOI")) (PPrim MEoi)
  else if str_eqb n (nm "SOI") then PPrim MSoi
  else if str_eqb n (nm "PEEK") then PPrim MStackPeek
  else if str_eqb n (nm "PEEK_ALL") then PPrim MStackMatchPeek
  else if str_eqb n (nm "POP") then PPrim MStackPop
  else if str_eqb n (nm "POP_ALL") then PPrim MStackMatchPop
  else if str_eqb n (nm "DROP") then PPrim MStackDrop
  else if str_eqb n (nm "ASCII_DIGIT") then prim_range 48 57
  else if str_eqb n (nm "ASCII_NONZERO_DIGIT") then prim_range 49 57
  else if str_eqb n (nm "ASCII_BIN_DIGIT") then prim_range 48 49
  else if str_eqb n (nm "ASCII_OCT_DIGIT") then prim_range 48 55
  else if str_eqb n (nm "ASCII_HEX_DIGIT") then POrElse (POrElse (prim_range 48 57) (prim_range 97 102)) (prim_range 65 70)
  else if str_eqb n (nm "ASCII_ALPHA_LOWER") then prim_range 97 122
  else if str_eqb n (nm "ASCII_ALPHA_UPPER") then prim_range 65 90
  else if str_eqb n (nm "ASCII_ALPHA") then POrElse (prim_range 97 122) (prim_range 65 90)
  else if str_eqb n (nm "ASCII_ALPHANUMERIC") then POrElse (POrElse (prim_range 97 122) (prim_range 65 90)) (prim_range 48 57)
  else if str_eqb n (nm "ASCII") then prim_range 0 127
  else if str_eqb n (nm "NEWLINE") then
    POrElse (POrElse (PPrim (MMatchString [10%N])) (PPrim (MMatchString [13%N; 10%N]))) (PPrim (MMatchString [13%N]))
  else if has_orule n then PCall (orule_id n)
  else match uranges n with
       | Some rs => PPrim (MMatchCharBy rs)
       | None => PCall (S (List.length G))          (* panic!("undefined rule") *)
       end.

Definition vm_skip : prog :=
  let ws := PRepeat (vm_call (nm "WHITESPACE")) in
  let cm := vm_call (nm "COMMENT") in
  match has_orule (nm "WHITESPACE"), has_orule (nm "COMMENT") with
  | false, false => PPrim MOk
  | true, false => PIfNonAtomic ws (PPrim MOk)
  | false, true => PIfNonAtomic (PRepeat cm) (PPrim MOk)
  | true, true =>
      PIfNonAtomic (PSequence (PAndThen ws (PRepeat (PSequence (PAndThen cm ws))))) (PPrim MOk)
  end.

Fixpoint vm_expr (e : oexpr) : prog :=
  match e with
  | OStr s => PPrim (MMatchString s)
  | OInsens s => PPrim (MMatchInsens s)
  | ORange lo hi => PPrim (MMatchRange lo hi)
  | OIdent n => vm_call n
  | OPeekSlice i j => PPrim (MPeekSlice i j BottomToTop)
  | OPosPred x => PLookahead true (vm_expr x)
  | ONegPred x => PLookahead false (vm_expr x)
  | OSeq l r => PSequence (PAndThen (PAndThen (vm_expr l) vm_skip) (vm_expr r))
  | OChoice l r => POrElse (vm_expr l) (vm_expr r)
  | OOpt x => POptional (vm_expr x)
  | ORep x =>
      PSequence (POptional (PAndThen (vm_expr x) (PRepeat (PSequence (PAndThen vm_skip (vm_expr x))))))
  | ORepOnce x =>
      PSequence (PAndThen (vm_expr x) (PRepeat (PSequence (PAndThen vm_skip (vm_expr x)))))
  | OSkip ss => PPrim (MSkipUntil ss)
  | OPush x => PStackPush (vm_expr x)
  | OPushLiteral s => PPrim (MStackPushLit s)
  | ONodeTag x t => PAndThen (vm_expr x) (PPrim (MTagNode (otag_id t)))
  | ORestoreOnErr x => PRestoreOnErr (vm_expr x)
  end.

Definition is_special_name (n : name) : bool := str_eqb n (nm "WHITESPACE") || str_eqb n (nm "COMMENT").

Definition vm_rule_body (r : orule) : prog :=
  let id := orule_id (oname r) in
  let body := vm_expr (oexpr_of r) in
  if is_special_name (oname r) then
    match oty r with
    | RNormal => PRule id (PAtomic Atomic body)
    | RSilent => PAtomic Atomic body
    | RAtomic => PRule id (PAtomic Atomic body)
    | RCompound => PAtomic CompoundAtomic (PRule id body)
    | RNonAtomic => PAtomic Atomic (PRule id body)
    end
  else
    match oty r with
    | RNormal => PRule id body
    | RSilent => body
    | RAtomic => PRule id (PAtomic Atomic body)
    | RCompound => PAtomic CompoundAtomic (PRule id body)
    | RNonAtomic => PAtomic NonAtomic (PRule id body)
    end.

(* closure environment: closure k = the k-th rule; a later duplicate name wins in the HashMap, which
   orule_id (first index) does not model - the validator rejects duplicates *)
Definition vm_env : env := fun k => option_map vm_rule_body (nth_error G k).

(* Vm::parse(rule, input) *)
Definition vm_start (r : name) : prog := vm_call r.

End Vm.
