(* Layer S/F, part 1: the abstract syntax of pest grammars (meta/src/ast.rs, optimizer/mod.rs).
   Strings are UTF-8 byte lists, rule names too; Range bounds are the code points of the
   one-character strings the AST stores; counts are N (u32 in Rust).                        *)
From Coq Require Import List Arith NArith ZArith Bool String Ascii.
Import ListNotations.
Require Import PV.Comb.PState.

Definition str := list byte.
Definition name := list byte.

Fixpoint bytes_of_string (s : string) : list byte :=
  match s with EmptyString => [] | String c r => N_of_ascii c :: bytes_of_string r end.
Notation "'nm' s" := (bytes_of_string s) (at level 0, s at level 0).

Fixpoint str_eqb (a b : list byte) : bool :=
  match a, b with
  | [], [] => true
  | x :: a', y :: b' => N.eqb x y && str_eqb a' b'
  | _, _ => false
  end.

Inductive rtype := RNormal | RSilent | RAtomic | RCompound | RNonAtomic.

Inductive expr :=
| EStr (s : str)
| EInsens (s : str)
| ERange (lo hi : N)
| EIdent (n : name)
| EPeekSlice (i : Z) (j : option Z)
| EPosPred (e : expr)
| ENegPred (e : expr)
| ESeq (a b : expr)
| EChoice (a b : expr)
| EOpt (e : expr)
| ERep (e : expr)
| ERepOnce (e : expr)
| ERepExact (e : expr) (n : N)
| ERepMin (e : expr) (n : N)
| ERepMax (e : expr) (n : N)
| ERepMinMax (e : expr) (m n : N)
| ESkip (ss : list str)
| EPush (e : expr)
| EPushLiteral (s : str)            (* grammar-extras *)
| ENodeTag (e : expr) (t : name).   (* grammar-extras *)

Record rule := { rname : name; rty : rtype; rexpr : expr }.
Definition grammar := list rule.

Inductive oexpr :=
| OStr (s : str)
| OInsens (s : str)
| ORange (lo hi : N)
| OIdent (n : name)
| OPeekSlice (i : Z) (j : option Z)
| OPosPred (e : oexpr)
| ONegPred (e : oexpr)
| OSeq (a b : oexpr)
| OChoice (a b : oexpr)
| OOpt (e : oexpr)
| ORep (e : oexpr)
| ORepOnce (e : oexpr)              (* grammar-extras *)
| OSkip (ss : list str)
| OPush (e : oexpr)
| OPushLiteral (s : str)            (* grammar-extras *)
| ONodeTag (e : oexpr) (t : name)   (* grammar-extras *)
| ORestoreOnErr (e : oexpr).

Record orule := { oname : name; oty : rtype; oexpr_of : oexpr }.
Definition ogrammar := list orule.

(* rule lookup: Vm::new collects the rules into a HashMap (a later duplicate overwrites an earlier
   one; the validator rejects duplicates, so for accepted grammars the order is immaterial) *)
Fixpoint find_rule (g : grammar) (n : name) : option rule :=
  match g with
  | [] => None
  | r :: g' => match find_rule g' n with Some x => Some x | None => if str_eqb (rname r) n then Some r else None end
  end.
Fixpoint find_orule (g : ogrammar) (n : name) : option orule :=
  match g with
  | [] => None
  | r :: g' => match find_orule g' n with Some x => Some x | None => if str_eqb (oname r) n then Some r else None end
  end.
(* numeric id of a rule = its index in the rule list; EOI gets the id just past the end *)
Fixpoint index_of (names : list name) (n : name) (k : nat) : option nat :=
  match names with [] => None | x :: r => if str_eqb x n then Some k else index_of r n (S k) end.

(* ---- the unrolling of bounded repetitions (optimizer/unroller.rs), which DEFINES their meaning ---- *)
(* right-nested sequence of a non-empty list *)
Fixpoint seq_of (l : list expr) : option expr :=
  match l with
  | [] => None
  | [e] => Some e
  | e :: r => match seq_of r with Some x => Some (ESeq e x) | None => Some e end
  end.
Definition repeatn (n : nat) (e : expr) : list expr := List.repeat e n.

(* None = `.unwrap()` on an empty fold: a count that yields no element (RepExact 0, RepMax 0, RepMinMax _ 0);
   the grammar reader rejects those counts, see meta/src/parser.rs *)
Definition unroll_node (extras : bool) (e : expr) : option expr :=
  match e with
  | ERepOnce x => if extras then Some e else Some (ESeq x (ERep x))
  | ERepExact x n => seq_of (repeatn (N.to_nat n) x)
  | ERepMin x n => seq_of (repeatn (N.to_nat n) x ++ [ERep x])
  | ERepMax x n => seq_of (repeatn (N.to_nat n) (EOpt x))
  | ERepMinMax x m n =>
      seq_of (repeatn (Nat.min (N.to_nat m) (N.to_nat n)) x ++ repeatn (N.to_nat n - N.to_nat m) (EOpt x))
  | _ => Some e
  end.
