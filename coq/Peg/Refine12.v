(* C01, part 12: termination transfers from the VM to the Spec.  `tdef q a emit p sg r m` reads: whenever
   program q, started in a state representing (a, emit, p, sg), returns (Ok or Err, not a panic) within
   fuel m, the Spec result r is definite.  One lemma per combinator; the forward simulation (`psim`)
   of the first component identifies the intermediate state.                                         *)
From Coq Require Import List Arith NArith ZArith Bool Lia.
Import ListNotations.
Require Import PV.Iter.Queue PV.Iter.QueueFacts.
Require Import PV.Stack.Model PV.Stack.Proofs PV.Comb.PState PV.Comb.Bytes PV.Comb.Prog PV.Comb.Exec.
Require Import PV.Comb.Frame PV.Comb.Contracts PV.Comb.Utf8 PV.Comb.Utf8b PV.Comb.Utf8c.
Require Import PV.Peg.Ast PV.Peg.Spec PV.Peg.Refine0 PV.Peg.Refine1 PV.Peg.Refine2 PV.Peg.Refine3 PV.Peg.Refine4.

Arguments Nat.sub : simpl never.
Arguments Nat.mul : simpl never.
Arguments Nat.ltb : simpl never.
Arguments Nat.leb : simpl never.
Arguments Nat.eqb : simpl never.
Arguments skipn : simpl never.
Arguments firstn : simpl never.

Section Term.
Variable cfg : config.
Variable E : env.
Variable w : list byte.
Variable pp : bool.
Hypothesis Hcfg : cfg_ok cfg.
Hypothesis HE : env_valid E.

Notation runs := (runs cfg E).
Notation rep := (rep w).
Notation psim := (psim cfg E w pp).
Notation pbsim := (pbsim cfg E w pp).
Notation sim_res := (sim_res pp).
Notation bsim := (bsim pp).

Definition runs_le (m : nat) (q : prog) (s : pst) (vr : res) : Prop :=
  vr <> ROutOfFuel /\ exists k, k <= m /\ exec cfg E k q s = vr.
Definition nopanic (vr : res) : Prop := forall k, vr <> RPanic k.

Definition tdef (q : prog) (a : atom) (emit : bool) (p : nat) (sg : list str) (r : sres) (m : nat) : Prop :=
  forall s vr, rep a emit p sg s -> runs_le m q s vr -> nopanic vr -> r <> SFuel.

Lemma runs_le_runs m q s vr : runs_le m q s vr -> runs q s vr.
Proof. intros (N & k & _ & A). split; [exact N|eauto]. Qed.

Lemma runs_le_mono m m' q s vr : m <= m' -> runs_le m q s vr -> runs_le m' q s vr.
Proof. intros L (N & k & Lk & A). split; [exact N|]. exists k. split; [lia|exact A]. Qed.

Lemma tdef_le q a emit p sg r m m' : m' <= m -> tdef q a emit p sg r m -> tdef q a emit p sg r m'.
Proof. intros L T s vr R RL NP. eapply T; eauto. eapply runs_le_mono; eauto. Qed.

Lemma tdef_eq q a emit p sg r r' m : r = r' -> tdef q a emit p sg r m -> tdef q a emit p sg r' m.
Proof. intros ->. auto. Qed.

Lemma tdef_definite q a emit p sg r m : r <> SFuel -> tdef q a emit p sg r m.
Proof. intros N s vr _ _ _. exact N. Qed.

(* the forward simulation identifies what a terminating run returned *)
Lemma identify (C : Prop) q a emit p sg r m s vr :
  psim C q a emit p sg r -> tdef q a emit p sg r m -> rep a emit p sg s -> runs_le m q s vr -> nopanic vr ->
  r <> SFuel /\ sim_res C s r vr.
Proof.
  intros P T R RL NP. pose proof (T s vr R RL NP) as N. split; [exact N|].
  destruct (P N s R) as (vr' & R' & S'). rewrite (runs_det cfg E q s vr vr' (runs_le_runs _ _ _ _ RL) R'). exact S'.
Qed.

Lemma identify_b q a emit p sg r m s vr :
  pbsim q a emit p sg r -> tdef q a emit p sg r m -> rep a emit p sg s -> runs_le m q s vr -> nopanic vr ->
  r <> SFuel /\ bsim s r vr.
Proof.
  intros P T R RL NP. pose proof (T s vr R RL NP) as N. split; [exact N|].
  destruct (P N s R) as (vr' & R' & S'). rewrite (runs_det cfg E q s vr vr' (runs_le_runs _ _ _ _ RL) R'). exact S'.
Qed.

(* ---------- inversion of one interpreter step ---------- *)
Tactic Notation "inv_run" hyp(RL) ident(N) ident(k) ident(L) ident(A) :=
  destruct RL as (N & k & L & A); destruct k as [|k]; [cbn in A; congruence|]; cbn [exec] in A.

Lemma sub_run m k q s (vr : res) (X : res -> res) :
  S k <= S m -> X (exec cfg E k q s) = vr -> vr <> ROutOfFuel -> X ROutOfFuel = ROutOfFuel ->
  runs_le m q s (exec cfg E k q s).
Proof.
  intros L A N HX. split; [intros Ho; rewrite Ho in A; congruence|]. exists k. split; [lia|reflexivity].
Qed.

Lemma inv_andthen m p q s vr : runs_le (S m) (PAndThen p q) s vr -> nopanic vr ->
  exists vr1, runs_le m p s vr1 /\ nopanic vr1 /\
              match vr1 with ROk s1 => runs_le m q s1 vr | _ => vr = vr1 end.
Proof.
  intros RL NP. inv_run RL N k L A. exists (exec cfg E k p s).
  assert (R1 : runs_le m p s (exec cfg E k p s)).
  { split; [intros Ho; rewrite Ho in A; congruence|]. exists k. split; [lia|reflexivity]. }
  split; [exact R1|]. destruct (exec cfg E k p s) as [s1|s1|kk|] eqn:Ex.
  - split; [intros kk; discriminate|]. split; [exact N|]. exists k. split; [lia|exact A].
  - split; [intros kk; discriminate|]. congruence.
  - exfalso. apply (NP kk). congruence.
  - congruence.
Qed.

Lemma inv_orelse m p q s vr : runs_le (S m) (POrElse p q) s vr -> nopanic vr ->
  exists vr1, runs_le m p s vr1 /\ nopanic vr1 /\
              match vr1 with RErr s1 => runs_le m q s1 vr | _ => vr = vr1 end.
Proof.
  intros RL NP. inv_run RL N k L A. exists (exec cfg E k p s).
  assert (R1 : runs_le m p s (exec cfg E k p s)).
  { split; [intros Ho; rewrite Ho in A; congruence|]. exists k. split; [lia|reflexivity]. }
  split; [exact R1|]. destruct (exec cfg E k p s) as [s1|s1|kk|] eqn:Ex.
  - split; [intros kk; discriminate|]. congruence.
  - split; [intros kk; discriminate|]. split; [exact N|]. exists k. split; [lia|exact A].
  - exfalso. apply (NP kk). congruence.
  - congruence.
Qed.

(* a wrapper that runs its body once from state s0 and post-processes the result *)
Lemma inv_wrap m k q s0 vr (X : res -> res) :
  k <= m -> X (exec cfg E k q s0) = vr -> vr <> ROutOfFuel -> nopanic vr ->
  X ROutOfFuel = ROutOfFuel -> (forall kk, X (RPanic kk) = RPanic kk) ->
  runs_le m q s0 (exec cfg E k q s0) /\ nopanic (exec cfg E k q s0).
Proof.
  intros L A N NP H1 H2. split.
  - split; [intros Ho; rewrite Ho in A; congruence|]. exists k. split; [lia|reflexivity].
  - intros kk Hk. rewrite Hk, H2 in A. apply (NP kk). congruence.
Qed.

(* ---------- the combinators ---------- *)
Lemma tdef_orelse (C1 : Prop) q1 q2 a emit p sg r1 r2 m : prog_valid q1 -> C1 ->
  psim C1 q1 a emit p sg r1 -> tdef q1 a emit p sg r1 m -> tdef q2 a emit p sg r2 m ->
  tdef (POrElse q1 q2) a emit p sg (sres_or r1 r2) (S m).
Proof.
  intros V HC P1 T1 T2 s vr R RL NP. destruct (inv_orelse m q1 q2 s vr RL NP) as (vr1 & R1 & NP1 & K).
  destruct (identify C1 q1 a emit p sg r1 m s vr1 P1 T1 R R1 NP1) as [N1 S1].
  destruct vr1 as [s1|s1|kk|]; cbn in S1; try contradiction.
  - destruct r1; try contradiction. discriminate.
  - destruct S1 as (-> & A1 & A2 & A3). cbn [sres_or].
    assert (R' : rep a emit p sg s1).
    { apply (rep_step cfg E w Hcfg HE q1 a emit p sg s s1 p sg false R V (runs_le_runs _ _ _ _ R1)).
      - rewrite A1. apply (r_pos _ _ _ _ _ _ R).
      - rewrite A3 by exact HC. apply (r_stack _ _ _ _ _ _ R). }
    exact (T2 s1 vr R' K NP).
  - exfalso. exact (NP1 kk eq_refl).
Qed.

Lemma tdef_andthen q1 q2 a emit p sg r1 (k : nat -> list str -> sres) m : prog_valid q1 ->
  pbsim q1 a emit p sg r1 -> tdef q1 a emit p sg r1 m ->
  (forall p1 sg1 f1, r1 = SMatch p1 sg1 f1 -> tdef q2 a emit p1 sg1 (k p1 sg1) m) ->
  tdef (PAndThen q1 q2) a emit p sg (sres_bind r1 k) (S m).
Proof.
  intros V P1 T1 T2 s vr R RL NP. destruct (inv_andthen m q1 q2 s vr RL NP) as (vr1 & R1 & NP1 & K).
  destruct (identify_b q1 a emit p sg r1 m s vr1 P1 T1 R R1 NP1) as [N1 S1].
  destruct vr1 as [s1|s1|kk|]; cbn in S1; try contradiction.
  - destruct r1 as [p1 sg1 f1| |]; try contradiction. destruct S1 as (A1 & A2 & A3). cbn [sres_bind].
    assert (R' : rep a emit p1 sg1 s1)
      by (apply (rep_step cfg E w Hcfg HE q1 a emit p sg s s1 p1 sg1 true R V (runs_le_runs _ _ _ _ R1) A1 A2)).
    pose proof (T2 p1 sg1 f1 eq_refl s1 vr R' K NP) as N2. destruct (k p1 sg1); congruence.
  - destruct S1 as (-> & _). discriminate.
  - exfalso. exact (NP1 kk eq_refl).
Qed.

Lemma tdef_sequence q a emit p sg r m : tdef q a emit p sg r m -> tdef (PSequence q) a emit p sg r (S m).
Proof.
  intros T s vr R RL NP. inv_run RL N k L A. rewrite (inc_call_none s (g_lim _ (r_good _ _ _ _ _ _ R))) in A.
  destruct (inv_wrap m k q (checkpoint s) vr (seq_fin s) ltac:(lia) ltac:(destruct (exec cfg E k q (checkpoint s)); exact A) N NP eq_refl
              (fun _ => eq_refl)) as [R1 NP1].
  exact (T _ _ (rep_checkpoint _ _ _ _ _ _ R) R1 NP1).
Qed.

Lemma tdef_optional q a emit p sg r m : tdef q a emit p sg r m -> tdef (POptional q) a emit p sg (sres_opt p sg r) (S m).
Proof.
  intros T s vr R RL NP. inv_run RL N k L A. rewrite (inc_call_none s (g_lim _ (r_good _ _ _ _ _ _ R))) in A.
  destruct (inv_wrap m k q s vr opt_fin ltac:(lia) ltac:(destruct (exec cfg E k q s); exact A) N NP eq_refl
              (fun _ => eq_refl)) as [R1 NP1].
  pose proof (T _ _ R R1 NP1) as N1. destruct r; cbn; congruence.
Qed.

Lemma tdef_lookahead b q a emit p sg r m : tdef q a false p sg r m ->
  tdef (PLookahead b q) a emit p sg (sres_la b p sg r) (S m).
Proof.
  intros T s vr R RL NP. inv_run RL N k L A. rewrite (inc_call_none s (g_lim _ (r_good _ _ _ _ _ _ R))) in A.
  destruct (inv_wrap m k q (la_state b s) vr (la_fin b s) ltac:(lia)
              ltac:(unfold la_state; destruct (exec cfg E k q _); exact A) N NP eq_refl (fun _ => eq_refl)) as [R1 NP1].
  pose proof (T _ _ (rep_la_state w b _ _ _ _ _ R) R1 NP1) as N1. destruct r, b; cbn; congruence.
Qed.

Lemma tdef_rule id tk q a emit p sg r m : tdef q a emit p sg r m ->
  tdef (PRule id q) a emit p sg (sres_node tk id p r) (S m).
Proof.
  intros T s vr R RL NP. inv_run RL N k L A. rewrite (inc_call_none s (g_lim _ (r_good _ _ _ _ _ _ R))) in A.
  destruct (rule_enter s) as [fr s2] eqn:Er.
  assert (Hs2 : s2 = snd (rule_enter s)) by now rewrite Er.
  destruct (inv_wrap m k q s2 vr (fun x => match x with ROk s' => rule_ok id fr s' | RErr s' => rule_err id fr s' | y => y end)
              ltac:(lia) ltac:(destruct (exec cfg E k q s2); exact A) N NP eq_refl (fun _ => eq_refl)) as [R1 NP1].
  rewrite Hs2 in R1, NP1. pose proof (T _ _ (rep_rule_enter w _ _ _ _ _ R) R1 NP1) as N1. destruct r; cbn; congruence.
Qed.

Lemma tdef_atomic a2 q a emit p sg r m : tdef q a2 emit p sg r m -> tdef (PAtomic a2 q) a emit p sg r (S m).
Proof.
  intros T s vr R RL NP. inv_run RL N k L A. rewrite (inc_call_none s (g_lim _ (r_good _ _ _ _ _ _ R))) in A.
  destruct (inv_wrap m k q (at_enter a2 s) vr (at_fin a2 s) ltac:(lia)
              ltac:(unfold at_enter, at_fin, at_leave; destruct (exec cfg E k q _); exact A) N NP eq_refl (fun _ => eq_refl)) as [R1 NP1].
  exact (T _ _ (rep_at_enter w a2 _ _ _ _ _ R) R1 NP1).
Qed.

Lemma tdef_push q a emit p sg r m : tdef q a emit p sg r m ->
  tdef (PStackPush q) a emit p sg
    (match r with SMatch q' sg2 f2 => SMatch q' (firstn (q' - p) (skipn p w) :: sg2) f2 | SFail => SFail | SFuel => SFuel end) (S m).
Proof.
  intros T s vr R RL NP. inv_run RL N k L A. rewrite (inc_call_none s (g_lim _ (r_good _ _ _ _ _ _ R))) in A.
  assert (R1 : runs_le m q s (exec cfg E k q s)).
  { split; [intros Ho; rewrite Ho in A; congruence|]. exists k. split; [lia|reflexivity]. }
  assert (NP1 : nopanic (exec cfg E k q s)).
  { intros kk Hk. rewrite Hk in A. apply (NP kk). congruence. }
  pose proof (T _ _ R R1 NP1) as N1. destruct r; congruence.
Qed.

Lemma tdef_restore q a emit p sg r m : tdef q a emit p sg r m -> tdef (PRestoreOnErr q) a emit p sg r (S m).
Proof.
  intros T s vr R RL NP. inv_run RL N k L A.
  destruct (inv_wrap m k q (checkpoint s) vr roe_fin ltac:(lia) ltac:(destruct (exec cfg E k q (checkpoint s)); exact A) N NP eq_refl
              (fun _ => eq_refl)) as [R1 NP1].
  exact (T _ _ (rep_checkpoint _ _ _ _ _ _ R) R1 NP1).
Qed.

Lemma tdef_call f q a emit p sg r m : E f = Some q -> tdef q a emit p sg r m -> tdef (PCall f) a emit p sg r (S m).
Proof.
  intros Ef T s vr R RL NP. inv_run RL N k L A. rewrite Ef in A.
  apply (T s vr R); [|exact NP]. split; [exact N|]. exists k. split; [lia|exact A].
Qed.

Lemma tdef_ifna q1 q2 a emit p sg r m :
  tdef (if atom_eqb a NonAtomic then q1 else q2) a emit p sg r m -> tdef (PIfNonAtomic q1 q2) a emit p sg r (S m).
Proof.
  intros T s vr R RL NP. inv_run RL N k L A. rewrite (r_at _ _ _ _ _ _ R) in A.
  apply (T s vr R); [|exact NP]. split; [exact N|]. exists k. split; [lia|].
  destruct (atom_eqb a NonAtomic); exact A.
Qed.

Lemma tdef_tag q a emit p sg r t m : tdef q a emit p sg r m ->
  tdef (PAndThen q (PPrim (MTagNode t))) a emit p sg
    (match r with SMatch q' sg2 f2 => SMatch q' sg2 (tag_last f2 t) | SFail => SFail | SFuel => SFuel end) (S m).
Proof.
  intros T s vr R RL NP. destruct (inv_andthen m _ _ s vr RL NP) as (vr1 & R1 & NP1 & _).
  pose proof (T _ _ R R1 NP1) as N1. destruct r; congruence.
Qed.

(* ---------- repetition ---------- *)
Lemma tdef_loop body a emit (u : nat -> list str -> sres) m : prog_valid body ->
  (forall p sg, psim True body a emit p sg (u p sg)) ->
  (forall p sg, tdef body a emit p sg (u p sg) m) ->
  forall j, j <= S m -> forall p sg, tdef (PRepeatLoop body) a emit p sg (loop j u p sg []) j.
Proof.
  intros V P T. induction j as [|j IH]; intros Lj p sg s vr R RL NP.
  - destruct RL as (N & k & L & A). assert (k = 0) by lia. subst k. cbn in A. congruence.
  - rewrite loop_unroll. destruct RL as (N & k & L & A). destruct k as [|k]; [cbn in A; congruence|]. cbn [exec] in A.
    assert (R1 : runs_le m body s (exec cfg E k body s)).
    { split; [intros Ho; rewrite Ho in A; congruence|]. exists k. split; [lia|reflexivity]. }
    assert (NP1 : nopanic (exec cfg E k body s)).
    { intros kk Hk. rewrite Hk in A. apply (NP kk). congruence. }
    destruct (identify True body a emit p sg (u p sg) m s _ (P p sg) (T p sg) R R1 NP1) as [N1 S1].
    destruct (exec cfg E k body s) as [s1|s1|kk|] eqn:Ex; cbn in S1; try contradiction.
    + destruct (u p sg) as [p1 sg1 f1| |]; try contradiction. destruct S1 as (A1 & A2 & A3). cbn [sres_bind].
      assert (R' : rep a emit p1 sg1 s1)
        by (apply (rep_step cfg E w Hcfg HE body a emit p sg s s1 p1 sg1 true R V (runs_le_runs _ _ _ _ R1) A1 A2)).
      assert (RL' : runs_le j (PRepeatLoop body) s1 vr) by (split; [exact N|exists k; split; [lia|exact A]]).
      pose proof (IH ltac:(lia) p1 sg1 s1 vr R' RL' NP) as N2.
      destruct (loop j u p1 sg1 []); cbn; congruence.
    + destruct S1 as (-> & _). cbn. discriminate.
    + exfalso. exact (NP1 kk eq_refl).
Qed.

Lemma tdef_repeat body a emit p sg r j :
  tdef (PRepeatLoop body) a emit p sg r j -> tdef (PRepeat body) a emit p sg r (S j).
Proof.
  intros T s vr R RL NP. inv_run RL N k L A. rewrite (inc_call_none s (g_lim _ (r_good _ _ _ _ _ _ R))) in A.
  apply (T s vr R); [|exact NP]. split; [exact N|]. exists k. split; [lia|exact A].
Qed.

Lemma tdef_impl q a emit p sg (r r' : sres) m : (r <> SFuel -> r' <> SFuel) ->
  tdef q a emit p sg r m -> tdef q a emit p sg r' m.
Proof. intros H T s vr R RL NP. apply H. eapply T; eauto. Qed.

End Term.
