(* Extraction of the Pratt / ConstPratt / PrecClimber models and of the shunting-yard specification
   (ExtrOcamlBasic only; nat stays the extracted datatype). *)
From Coq Require Import ExtrOcamlBasic Extraction.
Require Import PV.Pratt.Syntax PV.Pratt.Model PV.Pratt.Climber PV.Pratt.Shunt.
Extraction Language OCaml.
Extraction "../ocaml/gen/pratt_model.ml"
  builder_table builder_get new_const const_get macro_expand pratt_parse
  climber_new climber_new_const climber_macro climber_get climb climber_of table_of
  shunt well_formed yield.
