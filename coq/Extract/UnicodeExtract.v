(* Extraction of the C16 models (ExtrOcamlBasic only).  Only the generic functions are extracted;
   the regenerated tables are NOT (the OCaml runner reads coq/gen/Unicode*.v itself and feeds the
   very same literals to these functions). *)
From Coq Require Import ExtrOcamlBasic Extraction.
Require Import PV.Unicode.Trie PV.Unicode.Names PV.Unicode.Fast.
Extraction Language OCaml.
Extraction "../ocaml/gen/unicode_model.ml"
  mk_trie contains contains_u32 chunk_of compile fchunk
  fn_table by_name vm_builtin gen_builtin validator_builtins mem apply_xform trie_eqb.
