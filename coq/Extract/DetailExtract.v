(* Extraction for C15: the Layer-C interpreter together with the model of the help message
   (ExtrOcamlBasic only). *)
From Coq Require Import ExtrOcamlBasic Extraction.
Require Import PV.Stack.Model PV.Comb.PState PV.Comb.Bytes PV.Comb.Prog PV.Comb.Exec PV.Comb.Detail PV.Comb.Help.
Require PV.Pos.Model PV.Pos.ErrorFmt.
Extraction Language OCaml.
Extraction "../ocaml/gen/c15_model.ml" exec init outcome_of parse_with run_state limit_reached erase_detail
  cache popped lengths input pos queue lookahead pos_attempts neg_attempts attempt_pos atomicity stack calls limit
  pa_enabled call_stacks expected unexpected max_position
  chars_of help_message parse_attempts_error help_render
  PV.Pos.ErrorFmt.new_from_pos PV.Pos.ErrorFmt.format PV.Pos.ErrorFmt.e_message PV.Pos.ErrorFmt.spacing boundaryb.
