(* C07 - extraction of the grammar reader's model (Consume), of the specification side (Spell) and of
   the transcription of grammar.pest for the OCaml runner.  ExtrOcamlBasic only. *)
From Coq Require Import ExtrOcamlBasic Extraction.
Require Import PV.Peg.Ast PV.Peg.Spec PV.Meta.Tokens PV.Meta.Unescape PV.Meta.Consume PV.Meta.Spell.
Extraction "../ocaml/gen/meta_model.ml"
  consume read meta_grammar all_mrules mrule_name of_tree unescape spec_parse
  abs abs_grammar wp writable nested_bar depth tokens_of_grammar fe shape_list_eqb known_class known_insens_gap known_nested_bar min_parens decode_all shipped repaired.
