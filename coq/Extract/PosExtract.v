(* Extraction of the line/column + error-rendering model and of its specification (ExtrOcamlBasic only). *)
From Coq Require Import ExtrOcamlBasic Extraction.
Require Import PV.Pos.Model PV.Pos.ErrorFmt PV.Pos.Spec.
Extraction Language OCaml.
Extraction "../ocaml/gen/pos_model.ml"
  blen split_at position_new line_col line_of find_line_start find_line_end
  pair_line_col pair_line_col_upto span_new span_get merge_spans lines_span lines
  new_from_pos new_from_span with_path format render_pos render_span
  spec_line_col line_start line_end the_line lines_meeting ordered_boundaries before after
  spec_pos_layout pos_render_okb span_shows KnownClass_pos KnownClass_span text_aligned pos_vis span_vis.
