(* Extraction of the front-end model of C09 (ExtrOcamlBasic only). *)
From Coq Require Import ExtrOcamlBasic Extraction.
Require Import PV.Pos.Model PV.Front.Shape PV.Front.Consume PV.Front.Validate PV.Front.Optimize PV.Front.Frontend.
Extraction Language OCaml.
Extraction "../ocaml/gen/front_model.ml"
  frontend shape_ok docs_consume validate_steps default_fuel shipped repaired consume_rules_with_spans validate_ast
  fdepth blen re_matchb top_re word forest_okb.
