(* Extraction of the validator model (C06) together with Layer S (for the termination oracle). *)
From Coq Require Import ExtrOcamlBasic Extraction.
Require Import PV.Comb.PState PV.Comb.Bytes PV.Iter.Queue PV.Peg.Ast PV.Peg.Spec PV.Valid.Validator PV.Valid.Known.
Extraction Language OCaml.
Extraction "../ocaml/gen/valid_model.ml" validate validate_ast validate_pairs np nf check check_root no_stack_builtins readable
  ws_reaches_nonatomic starts_with_char_b eval spec_parse bytes_of_string cfg_current cfg_fixed.
