(* Extraction of the instrumented Layer-C model and of the C08 specification (ExtrOcamlBasic only). *)
From Coq Require Import ExtrOcamlBasic Extraction.
Require Import PV.Stack.Model PV.Comb.PState PV.Comb.Bytes PV.Comb.Prog PV.Comb.Exec PV.Comb.Attempts.
Extraction Language OCaml.
Extraction "../ocaml/gen/attempts_model.ml" exec_log run_state_log parse_with_log outcome_of limit_reached
  pos_attempts neg_attempts attempt_pos
  counts nodes_of max_reportable_pos report_of_log report_counted KnownClass sort_dedup.
