(* Extraction for C18: Layer S (Spec) on the grammar regenerated from json.pest, and the RFC 8259 recogniser. *)
From Coq Require Import ExtrOcamlBasic Extraction.
Require Import PV.Comb.PState PV.Comb.Bytes PV.Iter.Queue PV.Peg.Ast PV.Peg.Spec PV.gen.JsonGrammar PV.Json.Rfc8259 PV.Json.Recogniser.
Extraction Language OCaml.
Extraction "../ocaml/gen/json_model.ml" spec_parse json_grammar rfc_parse rfc_accepts tree_top rule_id bytes_of_string.
