(* Extraction of the generator model (Layer B, part 2) together with the VM compiler, the class H
   and the Layer-C interpreter (ExtrOcamlBasic only). *)
From Coq Require Import ExtrOcamlBasic Extraction.
Require Import PV.Stack.Model PV.Comb.PState PV.Comb.Bytes PV.Comb.Prog PV.Comb.Exec PV.Peg.Ast PV.Peg.VmCompile
  PV.Gen.GenCompile PV.Gen.ClassH.
Extraction Language OCaml.
Extraction "../ocaml/gen/gen_model.ml" gen_env gen_start gen_rule gen_skip gen_expr gen_expr_atomic fixed_builtins
  ulookup vm_env vm_start vm_rule_body exec init outcome_of run_state in_H why_not_H cleanset orule_id bytes_of_string limit_reached.
