(* Extraction of the iterator model (code as is / code as fixed) and of its specification. ExtrOcamlBasic only. *)
From Coq Require Import ExtrOcamlBasic Extraction.
Require Import PV.Iter.Queue PV.Iter.Model PV.Iter.Spec PV.Iter.Support.
Extraction Language OCaml.
Extraction "../ocaml/gen/iter_model.ml"
  fixes_none fixes_all
  tokens_of tokens_at forest_of wfqb forest_okb preorder token_list is_char_boundary
  pairs_new state_line_index pairs_peek pairs_next pairs_next_back pairs_len pairs_is_empty pairs_as_str
  pairs_collect pairs_flatten pairs_tokens pairs_single pairs_concat pairs_find_first_tagged pairs_find_tagged
  tokens_new create_token tokens_len tokens_next tokens_next_back
  pair_as_rule pair_as_node_tag pair_as_str pair_as_span pair_into_inner pair_tokens pair_line_col
  flat_next flat_next_back flat_len flat_tokens flat_collect
  walk_pair walk_pairs debug_pair debug_pairs alt_pair display_pair display_pairs pair_to_json pairs_to_json
  run_bops build_queue build build_line_index
  pairs_step flat_step tokens_step run_machine
  list_step run_list last_error
  tree_str forest_str forest_concat forest_find_tagged spec_line_col tree_line_col
  debug_tree debug_forest alt_tree display_forest json_tree json_forest
  requeue nat_str.
