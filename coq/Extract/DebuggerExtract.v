(* Extraction of the debugger transition system (ExtrOcamlBasic only). *)
From Coq Require Import ExtrOcamlBasic Extraction.
Require Import PV.Debugger.Proto.
Extraction Language OCaml.
Extraction "../ocaml/gen/debugger_model.ml" init step exec enabled deadlocked c_finished literal repaired.
