(* Extraction of the Layer-C model (ExtrOcamlBasic only). *)
From Coq Require Import ExtrOcamlBasic Extraction.
Require Import PV.Stack.Model PV.Comb.PState PV.Comb.Bytes PV.Comb.Prog PV.Comb.Exec PV.Comb.Ref.
Extraction Language OCaml.
Extraction "../ocaml/gen/comb_model.ml" exec init outcome_of parse_with run_state limit_reached
  cache popped lengths input pos queue lookahead pos_attempts neg_attempts attempt_pos atomicity stack calls limit
  pa_enabled call_stacks expected unexpected max_position
  rexec rinit notag r_pos r_queue r_stack r_look r_atom.
