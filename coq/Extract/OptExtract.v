(* Extraction of Layer F (optimizer passes) together with Layer S (Spec), for ocaml/c05_runner.ml. *)
From Coq Require Import ExtrOcamlBasic Extraction.
Require Import PV.Comb.PState PV.Comb.Bytes PV.Iter.Queue PV.Peg.Ast PV.Peg.Spec
  PV.Opt.MapExpr PV.Opt.Rotate PV.Opt.Skip PV.Opt.Unroll PV.Opt.Concat PV.Opt.Factor PV.Opt.List PV.Opt.Restore PV.Opt.Pipeline.
Extraction Language OCaml.
Extraction "../ocaml/gen/opt_model.ml" apply_pass to_optimized_rules optimize optimize_ast front5 lister_class lister_applies
  child_modifies_state restore_all expr_eqb eval spec_parse bytes_of_string.
