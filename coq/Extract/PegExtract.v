(* Extraction of Layer S (Spec) and Layer B (VM compile) together with the Layer-C interpreter. *)
From Coq Require Import ExtrOcamlBasic Extraction.
Require Import PV.Stack.Model PV.Comb.PState PV.Comb.Bytes PV.Comb.Prog PV.Comb.Exec PV.Iter.Queue PV.Peg.Ast PV.Peg.Spec PV.Peg.VmCompile.
Extraction Language OCaml.
Extraction "../ocaml/gen/peg_model.ml" eval spec_parse vm_env vm_start vm_expr vm_rule_body exec init outcome_of run_state
  unroll_node find_rule orule_id rule_id bytes_of_string.
