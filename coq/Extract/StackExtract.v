(* Extraction of the stack model and its naive specification (ExtrOcamlBasic only). *)
From Coq Require Import ExtrOcamlBasic Extraction.
Require Import PV.Stack.Model PV.Stack.Top.
Extraction Language OCaml.
Extraction "../ocaml/gen/stack_model.ml" empty sempty step_impl step_spec cache popped lengths cur.
