(* C02 proofs, part 4: what a failing expression leaves behind when the VM runs it.
   For every optimized expression e, when `vm_expr e` fails it leaves the position and the token
   queue (up to node tags) as they were; if moreover `fail_clean C e` (ClassH.v) for a consistent
   set C of rule names, it leaves the stack contents as they were.                            *)
From Coq Require Import List Arith NArith ZArith Bool String Ascii Lia.
Import ListNotations.
Require Import PV.Stack.Model PV.Stack.Proofs PV.Comb.PState PV.Comb.Bytes PV.Comb.Prog PV.Comb.Exec
               PV.Comb.Frame PV.Comb.Contracts PV.Comb.CallLimit PV.Peg.Ast PV.Peg.VmCompile
               PV.Gen.GenCompile PV.Gen.ClassH PV.Gen.Lookup PV.Gen.Rel.

Arguments Nat.sub : simpl never.
Arguments Nat.ltb : simpl never.
Arguments Nat.leb : simpl never.
Arguments Nat.eqb : simpl never.
Arguments skipn : simpl never.
Arguments firstn : simpl never.

Definition rest (m : bool) (s s' : pst) : Prop :=
  pos s' = pos s /\ untagq (queue s') = untagq (queue s) /\ (m = true -> cache (stack s') = cache (stack s)).

Lemma rest_refl m s : rest m s s.
Proof. repeat split; auto. Qed.
Lemma rest_trans m s1 s2 s3 : rest m s1 s2 -> rest m s2 s3 -> rest m s1 s3.
Proof. intros (A1 & A2 & A3) (B1 & B2 & B3). repeat split; try congruence; intros M; rewrite B3, A3; auto. Qed.
Lemma rest_weaken m s s' : rest true s s' -> rest m s s'.
Proof. intros (A1 & A2 & A3). repeat split; auto. Qed.
Lemma rest_core m s s' : same_core s s' -> rest m s s'.
Proof. intros []. repeat split; try congruence; intros _; congruence. Qed.

Lemma apply_pres_err s r t s' : apply_pres s r t = RErr s' -> same_core s s'.
Proof.
  unfold apply_pres. destruct r as [p| |]; cbv zeta; intros H; try discriminate H.
  injection H as <-. destruct t as [tk|]; [destruct (pa_enabled s)|]; try apply same_core_refl.
  apply (proj1 (handle_token_core s (pos s) tk false)).
Qed.

Definition dirty_prim (o : prim) : bool := match o with MStackPop | MStackMatchPop => true | _ => false end.

Lemma prim_err cfg o s s' m : (m = true -> dirty_prim o = false) -> exec_prim cfg o s = RErr s' -> rest m s s'.
Proof.
  intros Hm. destruct o; cbn [exec_prim]; try discriminate;
    try (intros H; apply rest_core; eapply apply_pres_err; exact H).
  - intros [= <-]. apply rest_refl.
  - destruct (skip_until _ _ _ _); discriminate.
  - destruct (Nat.eqb _ _); [discriminate|]. intros [= <-]. apply rest_refl.
  - destruct (Nat.eqb _ _); [discriminate|]. intros [= <-]. apply rest_refl.
  - destruct (peek (stack s)); [|discriminate]. intros H. apply rest_core. eapply apply_pres_err; exact H.
  - destruct (pop (stack s)) as [st' [x|]]; [|discriminate]. intros H.
    apply apply_pres_err in H. destruct H. repeat split; cbn in *; try congruence. intros M. specialize (Hm M). discriminate.
  - destruct (pop (stack s)) as [st' [x|]]; [discriminate|]. intros [= <-]. apply rest_refl.
  - unfold peek_slice. destruct (constrain_idxs _ _ _) as [[a b]|]; [|intros [= <-]; apply rest_refl].
    destruct (Nat.leb b a); [discriminate|]. destruct (match_all _ _ _); [discriminate|]. intros [= <-]. apply rest_refl.
  - destruct (match_pop_loop _ _ _ _) as [[[st' p] b]|]; [|discriminate]. destruct b; [discriminate|].
    intros [= <-]. repeat split; auto. intros M. specialize (Hm M). discriminate.
  - unfold peek_slice. destruct (constrain_idxs _ _ _) as [[a b]|]; [|intros [= <-]; apply rest_refl].
    destruct (Nat.leb b a); [discriminate|]. destruct (match_all _ _ _); [discriminate|]. intros [= <-]. apply rest_refl.
  - destruct (negb _); [discriminate|]. destruct (queue s) as [|[e p|si r tg p] q]; discriminate.
Qed.

Section Clean.
Variable cfg : config.
Variable E : env.

(* cl m f p: within fuel f, a failure of p leaves position/queue (and for m = true the stack) alone *)
Definition cl (m : bool) (f : nat) (p : prog) : Prop :=
  forall f' s s' a, f' <= f -> wf s -> Inv (stack s) a -> limit s = None ->
    exec cfg E f' p s = RErr s' -> rest m s s'.

Lemma cl_le m f f' p : f <= f' -> cl m f' p -> cl m f p.
Proof. intros Hle H g s s' a Hg. apply H. lia. Qed.
Lemma cl_weaken m f p : cl true f p -> cl m f p.
Proof. intros H g s s' a Hg W I L Ex. apply rest_weaken. eapply H; eauto. Qed.

Ltac start g Ex := destruct g as [|g]; [discriminate Ex|]; cbn [exec] in Ex.

Lemma cl_prim m f o : (m = true -> dirty_prim o = false) -> cl m f (PPrim o).
Proof. intros Hm g s s' a Hg W I L Ex. start g Ex. eapply prim_err; eauto. Qed.

Lemma restored_rest m s s' : restored s s' -> rest m s s'.
Proof. intros (A & B & C & _). repeat split; auto. Qed.

Lemma cl_seq m f p : cl m f (PSequence p).
Proof. intros g s s' a Hg W I L Ex. apply restored_rest. eapply sequence_err_restores; eauto. Qed.
Lemma cl_look m f b p : cl m f (PLookahead b p).
Proof. intros g s s' a Hg W I L Ex. apply restored_rest. eapply lookahead_restores; eauto. Qed.
Lemma cl_opt m f p : cl m f (POptional p).
Proof.
  intros g s s' a Hg W I L Ex. start g Ex. rewrite (inc_call_none s L) in Ex.
  destruct (exec cfg E g p s); discriminate.
Qed.
Lemma loop_no_err p : forall g s s', exec cfg E g (PRepeatLoop p) s <> RErr s'.
Proof.
  induction g as [|g IH]; intros s s'; [discriminate|]. cbn [exec].
  destruct (exec cfg E g p s); try discriminate. apply IH.
Qed.
Lemma cl_rep m f p : cl m f (PRepeat p).
Proof.
  intros g s s' a Hg W I L Ex. start g Ex. rewrite (inc_call_none s L) in Ex. exfalso. eapply loop_no_err; eauto.
Qed.

Lemma cl_else m f p q : cl m f p -> cl m f q -> cl m (S f) (POrElse p q).
Proof.
  intros Hp Hq g s s' a Hg W I L Ex. start g Ex.
  pose proof (exec_post cfg E g p s a W I) as P.
  destruct (exec cfg E g p s) as [s1|s1|k|] eqn:Ep; try discriminate.
  cbn in P. destruct P as (F & W1 & a1 & I1 & _).
  assert (L1 : limit s1 = None) by (rewrite (f_lim _ _ F); exact L).
  eapply rest_trans; [exact (Hp g s s1 a ltac:(lia) W I L Ep)|].
  exact (Hq g s1 s' a1 ltac:(lia) W1 I1 L1 Ex).
Qed.

Lemma cl_then_tag m f p t : cl m f p -> cl m (S f) (PAndThen p (PPrim (MTagNode t))).
Proof.
  intros Hp g s s' a Hg W I L Ex. start g Ex.
  destruct (exec cfg E g p s) as [s1|s1|k|] eqn:Ep; try discriminate.
  - destruct g as [|g]; [discriminate|]. cbn [exec exec_prim] in Ex.
    destruct (negb _); [discriminate|]. destruct (queue s1) as [|[e p0|si r tg p0] q]; discriminate.
  - injection Ex as <-. exact (Hp g s s1 a ltac:(lia) W I L Ep).
Qed.

Lemma cl_push m f p : cl m f p -> cl m (S f) (PStackPush p).
Proof.
  intros Hp g s s' a Hg W I L Ex. start g Ex. rewrite (inc_call_none s L) in Ex.
  destruct (exec cfg E g p s) as [s1|s1|k|] eqn:Ep; try discriminate.
  - destruct (Nat.ltb _ _); discriminate.
  - injection Ex as <-. exact (Hp g s s1 a ltac:(lia) W I L Ep).
Qed.

Lemma cl_roe m f p : cl false f p -> cl m (S f) (PRestoreOnErr p).
Proof.
  intros Hp g s s' a Hg W I L Ex. start g Ex.
  assert (W1 : wf (checkpoint s)) by exact W.
  pose proof (inv_snapshot I) as I1. change (snapshot (stack s)) with (stack (checkpoint s)) in I1.
  pose proof (exec_post cfg E g p (checkpoint s) (ssnapshot a) W1 I1) as P.
  destruct (exec cfg E g p (checkpoint s)) as [s1|s1|k|] eqn:Ep; try discriminate.
  - cbn in P. destruct P as (_ & _ & a1 & Ia1 & _). unfold checkpoint_ok in Ex.
    destruct (inv_clear Ia1) as (st & Ec & _). rewrite Ec in Ex. discriminate.
  - cbn in P. destruct P as (_ & _ & a1 & Ia1 & Sa1). unfold restore_st in Ex.
    destruct (inv_restore Ia1) as (st & Er & Ir). rewrite Er in Ex. cbn in Ex. injection Ex as <-.
    destruct (Hp g (checkpoint s) s1 (ssnapshot a) ltac:(lia) W1 I1 L Ep) as (A1 & A2 & _).
    repeat split; auto. intros _. cbn [stack set_stack]. rewrite (inv_cache' _ _ Ir). unfold srestore. rewrite Sa1. cbn.
    symmetry. apply (inv_cache' _ _ I).
Qed.

Lemma cl_atomic m f a0 p : cl m f p -> cl m (S f) (PAtomic a0 p).
Proof.
  intros Hp g s s' a Hg W I L Ex. start g Ex. rewrite (inc_call_none s L) in Ex.
  set (s2 := if negb (atom_eqb (atomicity s) a0) then set_atomicity s a0 else s) in *.
  assert (X : wf s2 /\ stack s2 = stack s /\ limit s2 = None /\ pos s2 = pos s /\ queue s2 = queue s).
  { unfold s2. destruct (negb _); cbn; auto. }
  destruct X as (W2 & S2 & L2 & P2 & Q2).
  destruct (exec cfg E g p s2) as [s1|s1|k|] eqn:Ep; try discriminate.
  injection Ex as <-.
  assert (I2 : Inv (stack s2) a) by (rewrite S2; exact I).
  pose proof (Hp g s2 s1 a ltac:(lia) W2 I2 L2 Ep) as R.
  destruct R as (A1 & A2 & A3). destruct (negb _); repeat split; cbn; try congruence; intros M; rewrite A3, S2; auto.
Qed.

Lemma rule_err_shape r fr y s' : rule_err r fr y = RErr s' ->
  pos s' = pos y /\ stack s' = stack y /\ queue s' = (if emits y then vtruncate (rf_index fr) (queue y) else queue y).
Proof.
  unfold rule_err. destruct (negb (lk_eqb (lookahead y) LNeg)).
  - pose proof (track_same y r (rf_pos fr) (rf_pai fr) (rf_nai fr) (rf_attempts fr)) as T.
    set (y1 := track y r _ _ _ _) in *.
    assert (Em : emits y1 = emits y) by (apply emits_frame; [apply (t_la _ _ T)|apply (t_at _ _ T)]).
    destruct (pa_enabled y1).
    + destruct (try_add_rule_to_stack y1 r _ _) as [y2|] eqn:E2; [|discriminate].
      pose proof (try_add_rule_to_stack_core _ _ _ _ _ E2) as C2.
      assert (Em2 : emits y2 = emits y1) by (apply emits_frame; [apply (c_la _ _ C2)|apply (c_at _ _ C2)]).
      intros [= <-]. rewrite Em2, Em. destruct (emits y); cbn;
        rewrite ?(c_pos _ _ C2), ?(c_stack _ _ C2), ?(c_queue _ _ C2), (t_pos _ _ T), (t_stack _ _ T), ?(t_queue _ _ T); auto.
    + intros [= <-]. rewrite Em. destruct (emits y); cbn; rewrite (t_pos _ _ T), (t_stack _ _ T), ?(t_queue _ _ T); auto.
  - intros [= <-]. destruct (emits y); cbn; auto.
Qed.

Lemma cl_rule m f r p : cl m f p -> cl m (S f) (PRule r p).
Proof.
  intros Hp g s s' a Hg W I L Ex. start g Ex. rewrite (inc_call_none s L) in Ex.
  destruct (rule_enter_spec s) as (_ & Ri & _ & _ & Q & SQ).
  destruct (rule_enter s) as [fr s2] eqn:Er. cbn in Ri, Q, SQ.
  assert (W2 : wf s2) by (unfold wf in *; rewrite (q_pos _ _ SQ), (q_input _ _ SQ); exact W).
  assert (I2 : Inv (stack s2) a) by (rewrite (q_stack _ _ SQ); exact I).
  assert (L2 : limit s2 = None) by (rewrite (q_lim _ _ SQ); exact L).
  pose proof (exec_post cfg E g p s2 a W2 I2) as P.
  destruct (exec cfg E g p s2) as [s1|s1|k|] eqn:Ep; try discriminate.
  - (* rule_ok never fails *) exfalso. revert Ex. unfold rule_ok.
    match goal with |- context [if emits ?x then _ else _] => destruct (emits x) end.
    + destruct (set_start_end _ _ _); [|discriminate]. destruct (pa_enabled _); [|discriminate].
      destruct (try_add_rule_to_stack _ _ _ _); discriminate.
    + destruct (pa_enabled _); [|discriminate]. destruct (try_add_rule_to_stack _ _ _ _); discriminate.
  - cbn in P. destruct P as (F & _).
    destruct (Hp g s2 s1 a ltac:(lia) W2 I2 L2 Ep) as (A1 & A2 & A3).
    destruct (rule_err_shape _ _ _ _ Ex) as (B1 & B2 & B3).
    assert (Em : emits s1 = emits s).
    { rewrite (emits_frame s2 s1 (f_la _ _ F) (f_at _ _ F)). apply emits_frame; [apply (q_la _ _ SQ)|apply (q_at _ _ SQ)]. }
    repeat split.
    + rewrite B1, A1. apply (q_pos _ _ SQ).
    + rewrite B3, Em, Ri. rewrite Q in A2. destruct (emits s).
      * rewrite untagq_vtruncate, A2.
        change (untagq (QStart 0 (pos s) :: queue s)) with ([QStart 0 (pos s)] ++ untagq (queue s)).
        apply vtruncate_app. apply untagq_length.
      * exact A2.
    + intros M. rewrite B2, (A3 M). now rewrite (q_stack _ _ SQ).
Qed.

Lemma cl_call m f k p : E k = Some p -> cl m f p -> cl m (S f) (PCall k).
Proof. intros Ek Hp g s s' a Hg W I L Ex. start g Ex. rewrite Ek in Ex. exact (Hp g s s' a ltac:(lia) W I L Ex). Qed.
Lemma cl_call_none m f k : E k = None -> cl m f (PCall k).
Proof. intros Ek g s s' a Hg W I L Ex. start g Ex. rewrite Ek in Ex. discriminate. Qed.

Lemma cl_zero m p : cl m 0 p.
Proof. intros g s s' a Hg W I L Ex. destruct g; [discriminate Ex|inversion Hg]. Qed.

(* same-index corollaries *)
Lemma cl_else' m f p q : cl m f p -> cl m f q -> cl m f (POrElse p q).
Proof. intros. eapply cl_le; [|apply cl_else; eauto]. lia. Qed.
Lemma cl_then_tag' m f p t : cl m f p -> cl m f (PAndThen p (PPrim (MTagNode t))).
Proof. intros. eapply cl_le; [|apply cl_then_tag; eauto]. lia. Qed.
Lemma cl_push' m f p : cl m f p -> cl m f (PStackPush p).
Proof. intros. eapply cl_le; [|apply cl_push; eauto]. lia. Qed.
Lemma cl_roe' m f p : cl false f p -> cl m f (PRestoreOnErr p).
Proof. intros. eapply cl_le; [|apply cl_roe; eauto]. lia. Qed.
Lemma cl_atomic' m f a0 p : cl m f p -> cl m f (PAtomic a0 p).
Proof. intros. eapply cl_le; [|apply cl_atomic; eauto]. lia. Qed.
Lemma cl_rule' m f r p : cl m f p -> cl m f (PRule r p).
Proof. intros. eapply cl_le; [|apply cl_rule; eauto]. lia. Qed.

End Clean.

(* ---------- the programs of the VM ---------- *)
Section VmClean.
Variable cfg : config.
Variable G : ogrammar.
Variable ur : name -> option (list (N * N)).
Variable C : list name.
Hypothesis HC : consistent G C = true.
Let Ev := vm_env G ur.

Lemma in_C_clean n : existsb (str_eqb n) C = true ->
  exists r, nth_error G (orule_id G n) = Some r /\ fail_clean G C (oexpr_of r) = true.
Proof.
  intros H. apply existsb_exists in H. destruct H as (x & Hin & Ex). apply str_eqb_eq in Ex. subst x.
  unfold consistent in HC. rewrite forallb_forall in HC. specialize (HC _ Hin).
  unfold rule_clean, first_rule in HC. destruct (nth_error G (orule_id G n)) as [r|]; [|discriminate]. eauto.
Qed.

Lemma cl_body m f r : cl cfg Ev m f (vm_expr G ur (oexpr_of r)) -> cl cfg Ev m f (vm_rule_body G ur r).
Proof.
  intros H. unfold vm_rule_body. destruct (is_special_name (oname r)), (oty r);
    repeat first [exact H | apply cl_rule' | apply cl_atomic'].
Qed.

Lemma cl_vm_call m f n :
  (m = true -> negb (str_eqb n (nm "POP") || str_eqb n (nm "POP_ALL")) && (negb (has_orule G n) || existsb (str_eqb n) C) = true) ->
  (forall r, nth_error G (orule_id G n) = Some r -> (m = true -> fail_clean G C (oexpr_of r) = true) -> cl cfg Ev m f (vm_rule_body G ur r)) ->
  cl cfg Ev m (S f) (vm_call G ur n).
Proof.
  intros Hn IH. unfold vm_call, prim_range.
  destruct (has_orule G n) eqn:Ho.
  - destruct (has_orule_first G n Ho) as (r & Er & _).
    eapply cl_call; [unfold Ev; apply vm_env_at; exact Er|]. apply IH; auto.
    intros M. specialize (Hn M). apply andb_prop in Hn. destruct Hn as [_ Hn]. cbn in Hn.
    destruct (in_C_clean n Hn) as (r' & Er' & Fc). congruence.
  - repeat match goal with |- cl _ _ _ _ (if str_eqb ?a ?b then _ else _) => destruct (str_eqb a b) eqn:? end;
      try (first [ apply cl_prim; intros _; reflexivity
                 | apply cl_rule', cl_prim; intros _; reflexivity
                 | apply cl_else'; [apply cl_else'|]; apply cl_prim; intros _; reflexivity
                 | apply cl_else'; apply cl_prim; intros _; reflexivity ]).
    + (* POP *) apply cl_prim. intros M. specialize (Hn M).
      repeat match goal with H : str_eqb n ?x = ?b |- _ => try rewrite H in Hn; clear H end. discriminate Hn.
    + (* POP_ALL *) apply cl_prim. intros M. specialize (Hn M).
      repeat match goal with H : str_eqb n ?x = ?b |- _ => try rewrite H in Hn; clear H end. discriminate Hn.
    + destruct (ur n); [apply cl_prim; intros _; reflexivity|].
      apply cl_call_none. unfold Ev, vm_env. replace (nth_error G (S (List.length G))) with (@None orule); [reflexivity|].
      symmetry. apply nth_error_None. lia.
Qed.

Theorem vm_clean : forall f m e, (m = true -> fail_clean G C e = true) -> cl cfg Ev m f (vm_expr G ur e).
Proof.
  induction f as [|f IHf]; intros m e; [intros _; apply cl_zero|].
  revert m. induction e; intros m Hm; cbn [vm_expr];
    try (apply cl_prim; intros _; reflexivity); try apply cl_seq; try apply cl_look; try apply cl_opt.
  - (* OIdent *) apply cl_vm_call; [exact Hm|]. intros r Er Hr. apply cl_body. apply IHf. exact Hr.
  - (* OChoice *) apply cl_else'; [apply IHe1|apply IHe2]; intros M; specialize (Hm M); cbn in Hm; apply andb_prop in Hm; tauto.
  - (* OPush *) apply cl_push'. apply IHe. exact Hm.
  - (* ONodeTag *) apply cl_then_tag'. apply IHe. exact Hm.
  - (* ORestoreOnErr *) apply cl_roe'. apply IHe. discriminate.
Qed.

End VmClean.
