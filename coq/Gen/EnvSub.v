(* Running a program depends only on the closures it can reach: if every closure of E is also a
   closure of E' with the same body, and the program and E's bodies only call closures E defines,
   then the run under E is the run under E'.  (Used for the checked-in parser, which holds the
   built-ins its grammar uses, against gen_env, which holds all of them.)                     *)
From Coq Require Import List Arith NArith ZArith Bool Lia.
Import ListNotations.
Require Import PV.Comb.PState PV.Comb.Bytes PV.Comb.Prog PV.Comb.Exec.

Fixpoint calls_in (p : prog) : list nat :=
  match p with
  | PPrim _ => []
  | PRule _ q | PSequence q | PRepeat q | PRepeatLoop q | POptional q | PLookahead _ q | PAtomic _ q | PStackPush q | PRestoreOnErr q => calls_in q
  | PAndThen a b | POrElse a b | PIfNonAtomic a b => calls_in a ++ calls_in b
  | PCall f => [f]
  end.

Definition closed (E : env) (p : prog) : Prop := forall k, In k (calls_in p) -> E k <> None.

Section Sub.
Variable cfg : config.
Variable E E' : env.
Hypothesis Hsub : forall k p, E k = Some p -> E' k = Some p.
Hypothesis Hclosed : forall k p, E k = Some p -> closed E p.

Lemma exec_sub : forall f p s, closed E p -> exec cfg E f p s = exec cfg E' f p s.
Proof.
  induction f as [|f IH]; intros p s Hc; [reflexivity|].
  destruct p; cbn [exec]; cbn [calls_in] in Hc.
  - reflexivity.
  - destruct (inc_call s); [|reflexivity]. destruct (rule_enter p0). rewrite IH by exact Hc. reflexivity.
  - destruct (inc_call s); [|reflexivity]. rewrite IH by exact Hc. reflexivity.
  - destruct (inc_call s); [|reflexivity]. apply IH. exact Hc.
  - rewrite IH by exact Hc. destruct (exec cfg E' f p s); try reflexivity. apply IH. exact Hc.
  - destruct (inc_call s); [|reflexivity]. rewrite IH by exact Hc. reflexivity.
  - destruct (inc_call s); [|reflexivity]. rewrite IH by exact Hc. reflexivity.
  - destruct (inc_call s); [|reflexivity]. rewrite IH by exact Hc. reflexivity.
  - destruct (inc_call s); [|reflexivity]. rewrite IH by exact Hc. reflexivity.
  - rewrite IH by exact Hc. reflexivity.
  - assert (H1 : closed E p1) by (intros k Hk; apply Hc, in_or_app; auto).
    assert (H2 : closed E p2) by (intros k Hk; apply Hc, in_or_app; auto).
    rewrite IH by exact H1. destruct (exec cfg E' f p1 s); try reflexivity. apply IH. exact H2.
  - assert (H1 : closed E p1) by (intros k Hk; apply Hc, in_or_app; auto).
    assert (H2 : closed E p2) by (intros k Hk; apply Hc, in_or_app; auto).
    rewrite IH by exact H1. destruct (exec cfg E' f p1 s); try reflexivity. apply IH. exact H2.
  - assert (H1 : closed E p1) by (intros k Hk; apply Hc, in_or_app; auto).
    assert (H2 : closed E p2) by (intros k Hk; apply Hc, in_or_app; auto).
    destruct (atom_eqb (atomicity s) NonAtomic); apply IH; assumption.
  - destruct (E f0) as [q|] eqn:Ef; [|exfalso; apply (Hc f0); [left; reflexivity|exact Ef]].
    rewrite (Hsub _ _ Ef). apply IH. eapply Hclosed; eauto.
Qed.
End Sub.

(* an environment given as a finite table *)
Fixpoint assoc (l : list (nat * prog)) (k : nat) : option prog :=
  match l with [] => None | (i, p) :: r => if Nat.eqb i k then Some p else assoc r k end.
Definition table_env (l : list (nat * prog)) : env := assoc l.

Lemma assoc_in l k p : assoc l k = Some p -> In (k, p) l.
Proof.
  induction l as [|[i q] r IH]; cbn; [discriminate|].
  destruct (Nat.eqb_spec i k); [intros [= <-]; subst; left; reflexivity|intros H; right; auto].
Qed.

(* decidable forms of the two hypotheses, for tables *)
Definition closedb (l : list (nat * prog)) (p : prog) : bool :=
  forallb (fun k => match assoc l k with Some _ => true | None => false end) (calls_in p).
Lemma closedb_closed l p : closedb l p = true -> closed (table_env l) p.
Proof.
  unfold closedb, closed, table_env. rewrite forallb_forall. intros H k Hk. specialize (H k Hk).
  destruct (assoc l k); [discriminate|discriminate H].
Qed.
