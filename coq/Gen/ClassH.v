(* The class H of optimized grammars on which the generated parser and the VM are proved to agree
   (decidable: `in_H : bool -> ogrammar -> bool`).  What it excludes are the genuine differences
   between the two back-ends (DESIGN.md section 4, rows 11a, 11b, 13, and row 3 as long as the
   restorer does not know POP_ALL); each has a `C02_*_refuted` witness in props/C02.v.          *)
From Coq Require Import List Arith NArith ZArith Bool String Ascii.
Import ListNotations.
Require Import PV.Comb.PState PV.Comb.Prog PV.Peg.Ast PV.Peg.VmCompile PV.Gen.GenCompile.

(* the names vm/src/lib.rs matches before it looks at the user's rules *)
Definition is_fixed (n : name) : bool :=
  match bindex (fixed_builtins 0) n 0 with Some _ => true | None => false end.

Fixpoint subexprs_ok (p : oexpr -> bool) (e : oexpr) : bool :=
  p e &&
  match e with
  | OPosPred x | ONegPred x | OOpt x | ORep x | ORepOnce x | OPush x | ONodeTag x _ | ORestoreOnErr x => subexprs_ok p x
  | OSeq a b | OChoice a b => subexprs_ok p a && subexprs_ok p b
  | _ => true
  end.

(* (13) node tags: `#t = e?` and `#t = e*` are compiled differently by the two back-ends *)
Definition tag_ok (e : oexpr) : bool :=
  match e with ONodeTag (OOpt _) _ | ONodeTag (ORep _) _ => false | _ => true end.
(* without grammar-extras the three extra constructors do not exist *)
Definition plain_ok (e : oexpr) : bool :=
  match e with ORepOnce _ | OPushLiteral _ | ONodeTag _ _ => false | _ => true end.

Section H.
Variable G : ogrammar.

Definition first_rule (n : name) : option orule := nth_error G (orule_id G n).

(* "when it fails, it leaves the stack as it was": by the shape of the expression; C is the set of
   user rules assumed to have the property *)
Fixpoint fail_clean (C : list name) (e : oexpr) : bool :=
  match e with
  | OIdent n =>
      negb (str_eqb n (nm "POP") || str_eqb n (nm "POP_ALL")) && (negb (has_orule G n) || existsb (str_eqb n) C)
  | OChoice a b => fail_clean C a && fail_clean C b
  | OPush x | ONodeTag x _ => fail_clean C x
  | _ => true     (* primitives that fail in place; sequence, look-ahead, restore_on_err restore; ?, * never fail *)
  end.

Definition rule_clean (C : list name) (n : name) : bool :=
  match first_rule n with Some r => fail_clean C (oexpr_of r) | None => false end.
Definition clean_step (C : list name) : list name := filter (rule_clean C) C.
Fixpoint iter {A} (k : nat) (f : A -> A) (x : A) : A := match k with O => x | S k' => iter k' f (f x) end.
(* greatest consistent set, by |G| rounds of removal *)
Definition cleanset : list name := iter (List.length G) clean_step (map oname G).
Definition consistent (C : list name) : bool := forallb (rule_clean C) C.

(* the rules whose bodies go through generate_expr_atomic *)
Definition atomic_compiled (r : orule) : bool := is_atomic_ty (oty r) || is_special_name (oname r).

(* inside such a body the generator emits `repeat(e)` for e*, the VM its sequence/optional/repeat
   nest, which restores the stack when a later iteration fails: equal iff e fails cleanly *)
Definition rep_ok (C : list name) (e : oexpr) : bool :=
  match e with ORep x => fail_clean C x | _ => true end.

Definition rule_in_H (extras : bool) (r : orule) : bool :=
  (* 11b (a user rule named like a hard-coded built-in) is no longer excluded: since /repo fix 76a77f3 the VM looks the
     user's rules up first, as the generated module does *)
  negb (is_special_name (oname r) && match oty r with RNonAtomic => true | _ => false end) &&   (* 11a *)
  subexprs_ok (if extras then tag_ok else plain_ok) (oexpr_of r) &&                   (* 13 *)
  (if atomic_compiled r then subexprs_ok (rep_ok cleanset) (oexpr_of r) else true).  (* row 3 *)

Definition in_H (extras : bool) : bool := consistent cleanset && forallb (rule_in_H extras) G.

(* which clause fails first: 0 = in H (1 was the shadowed built-ins, fixed in /repo) *)
Definition why_not_H (extras : bool) : nat :=
  if negb (forallb (fun r => negb (is_special_name (oname r) && match oty r with RNonAtomic => true | _ => false end)) G) then 2
  else if negb (forallb (fun r => subexprs_ok (if extras then tag_ok else plain_ok) (oexpr_of r)) G) then 3
  else if negb (in_H extras) then 4 else 0.
End H.
