(* Small facts about rule lookup (orule_id / has_orule), names, and the closure tables. *)
From Coq Require Import List Arith NArith ZArith Bool String Ascii Lia.
Import ListNotations.
Require Import PV.Comb.PState PV.Comb.Prog PV.Peg.Ast PV.Peg.VmCompile PV.Gen.GenCompile PV.Gen.ClassH.

Lemma str_eqb_eq a b : str_eqb a b = true -> a = b.
Proof.
  revert b; induction a as [|x a IH]; intros [|y b]; cbn; try discriminate; auto.
  intros H. apply andb_prop in H. destruct H as [H1 H2]. apply N.eqb_eq in H1. f_equal; auto.
Qed.
Lemma str_eqb_refl a : str_eqb a a = true.
Proof. induction a; cbn; auto. rewrite N.eqb_refl. exact IHa. Qed.
Lemma str_eqb_sym a b : str_eqb a b = str_eqb b a.
Proof.
  destruct (str_eqb a b) eqn:E1.
  - apply str_eqb_eq in E1. subst. symmetry. apply str_eqb_refl.
  - destruct (str_eqb b a) eqn:E2; auto. apply str_eqb_eq in E2. subst. rewrite str_eqb_refl in E1. discriminate.
Qed.

Lemma index_of_spec names n k i : index_of names n k = Some i ->
  k <= i /\ exists x, nth_error names (i - k) = Some x /\ str_eqb x n = true.
Proof.
  revert k; induction names as [|x r IH]; intros k; cbn; [discriminate|].
  destruct (str_eqb x n) eqn:E.
  - intros [= <-]. split; [lia|]. exists x. rewrite Nat.sub_diag. auto.
  - intros H. apply IH in H. destruct H as (H1 & y & H2 & H3). split; [lia|]. exists y. split; auto.
    replace (i - k) with (S (i - S k)) by lia. exact H2.
Qed.
Lemma index_of_none names n k : index_of names n k = None -> forall x, In x names -> str_eqb x n = false.
Proof.
  revert k; induction names as [|y r IH]; intros k; cbn; [tauto|].
  destruct (str_eqb y n) eqn:E; [discriminate|]. intros H x [<-|Hx]; eauto.
Qed.

Lemma find_orule_some G n : (exists r, In r G /\ str_eqb (oname r) n = true) -> has_orule G n = true.
Proof.
  unfold has_orule. induction G as [|r g IH]; intros (x & Hin & Hx); [destruct Hin|]. cbn.
  destruct (find_orule g n) eqn:Ef; [reflexivity|].
  destruct Hin as [->|Hin]; [rewrite Hx; reflexivity|].
  exfalso. assert (X : false = true) by (apply IH; eauto). discriminate.
Qed.
Lemma find_orule_none G n : has_orule G n = false -> forall r, In r G -> str_eqb (oname r) n = false.
Proof.
  intros H r Hin. destruct (str_eqb (oname r) n) eqn:E; auto.
  rewrite find_orule_some in H; [discriminate|eauto].
Qed.

(* a name that has a rule: the closure called is the first rule of that name *)
Lemma has_orule_first G n : has_orule G n = true ->
  exists r, nth_error G (orule_id G n) = Some r /\ oname r = n /\ orule_id G n < List.length G.
Proof.
  intros H. unfold orule_id, onames. destruct (index_of (map oname G) n 0) as [i|] eqn:Ei.
  - destruct (index_of_spec _ _ _ _ Ei) as (_ & x & Hx & Ex). rewrite Nat.sub_0_r in Hx.
    rewrite nth_error_map in Hx. destruct (nth_error G i) as [r|] eqn:Er; [|discriminate]. cbn in Hx. injection Hx as <-.
    exists r. split; auto. split; [now apply str_eqb_eq|]. apply nth_error_Some. congruence.
  - exfalso. pose proof (index_of_none _ _ _ Ei) as X.
    unfold has_orule in H. destruct (find_orule G n) as [r|] eqn:Ef; [|discriminate].
    assert (Y : exists r, In r G /\ str_eqb (oname r) n = true).
    { clear - Ef. induction G as [|y g IH]; cbn in Ef; [discriminate|].
      destruct (find_orule g n) eqn:E2.
      - destruct IH as (z & Hz & Ez); eauto. exists z. split; [right; auto|auto].
      - destruct (str_eqb (oname y) n) eqn:E3; [|discriminate]. exists y. split; [left; auto|auto]. }
    destruct Y as (z & Hz & Ez). rewrite (X (oname z)) in Ez; [discriminate|]. now apply in_map.
Qed.
Lemma no_orule_id G n : has_orule G n = false -> orule_id G n = List.length G.
Proof.
  intros H. unfold orule_id, onames. destruct (index_of (map oname G) n 0) as [i|] eqn:Ei; auto.
  exfalso. destruct (index_of_spec _ _ _ _ Ei) as (_ & x & Hx & Ex). rewrite Nat.sub_0_r in Hx.
  rewrite nth_error_map in Hx. destruct (nth_error G i) as [r|] eqn:Er; [|discriminate]. cbn in Hx. injection Hx as <-.
  rewrite (find_orule_none G n H r) in Ex; [discriminate|]. eapply nth_error_In; eauto.
Qed.

Lemma vm_env_at G ur k r : nth_error G k = Some r -> vm_env G ur k = Some (vm_rule_body G ur r).
Proof. intros H. unfold vm_env. rewrite H. reflexivity. Qed.
Lemma gen_env_at G U k r : nth_error G k = Some r -> gen_env G U k = Some (gen_rule G U r).
Proof.
  intros H. unfold gen_env. assert (k < base G) by (apply nth_error_Some; congruence).
  destruct (Nat.ltb_spec k (base G)); [|lia]. rewrite H. reflexivity.
Qed.
