(* C02 proofs, part 1: the relation between a state of the generated parser and a state of the VM.
   The two back-ends wrap different numbers of `sequence` calls around the same work, so their
   stacks differ in the snapshot bookkeeping (popped / lengths vectors of stack.rs) while holding
   the same contents; every other field is equal (with no call limit the call counter is never
   touched).  `srel s t`: t is s with another stack whose contents are the same, both stacks in
   the representation invariant of C11, both states well-formed.                               *)
From Coq Require Import List Arith NArith ZArith Bool Lia.
Import ListNotations.
Require Import PV.Stack.Model PV.Stack.Proofs PV.Comb.PState PV.Comb.Bytes PV.Comb.Prog PV.Comb.Exec
               PV.Comb.Frame PV.Comb.Contracts PV.Comb.CallLimit.

Arguments Nat.sub : simpl never.
Arguments Nat.ltb : simpl never.
Arguments Nat.leb : simpl never.
Arguments Nat.eqb : simpl never.
Arguments skipn : simpl never.
Arguments firstn : simpl never.

Notation sspec := (spec (list byte)).
Notation bstk := (stk (list byte)).

Definition rmap (g : pst -> pst) (r : res) : res :=
  match r with ROk s => ROk (g s) | RErr s => RErr (g s) | x => x end.
Definition sw (st : bstk) (s : pst) : pst := set_stack s st.

Ltac fields := cbn [input pos queue lookahead pos_attempts neg_attempts attempt_pos atomicity stack calls limit pa_enabled
  call_stacks expected unexpected max_position set_pos set_queue set_lookahead set_pos_attempts set_neg_attempts
  set_attempt_pos set_atomicity set_stack set_calls set_limit set_pa_enabled set_call_stacks set_expected set_unexpected
  set_max_position sw rmap fst snd option_map lift].
Ltac fields_in H := cbn [input pos queue lookahead pos_attempts neg_attempts attempt_pos atomicity stack calls limit pa_enabled
  call_stacks expected unexpected max_position set_pos set_queue set_lookahead set_pos_attempts set_neg_attempts
  set_attempt_pos set_atomicity set_stack set_calls set_limit set_pa_enabled set_call_stacks set_expected set_unexpected
  set_max_position sw rmap fst snd option_map lift] in H.

(* ---------- stack-oblivious functions commute with replacing the stack ---------- *)
Lemma sw_sw a b s : sw a (sw b s) = sw a s.
Proof. reflexivity. Qed.
Lemma sw_id s : sw (stack s) s = s.
Proof. destruct s; reflexivity. Qed.

Lemma inc_call_none s : limit s = None -> inc_call s = Some s.
Proof. unfold inc_call, limit_reached. intros ->. reflexivity. Qed.

Lemma rule_enter_sw st s : rule_enter (sw st s) = (fst (rule_enter s), sw st (snd (rule_enter s))).
Proof.
  unfold rule_enter, emits, attempts_at. fields.
  destruct (Nat.eqb (pos s) (attempt_pos s)); destruct (_ && _); fields; reflexivity.
Qed.

Lemma track_sw st s r p a b c : track (sw st s) r p a b c = sw st (track s r p a b c).
Proof.
  unfold track, attempts_at. fields.
  destruct (atom_eqb (atomicity s) Atomic); [reflexivity|].
  destruct (_ && _); [reflexivity|].
  destruct (Nat.eqb p (attempt_pos s)) eqn:E1; fields.
  - destruct (Nat.ltb (attempt_pos s) p) eqn:E2; fields.
    + rewrite Nat.eqb_refl. destruct (negb (lk_eqb (lookahead s) LNeg)); reflexivity.
    + rewrite E1. destruct (negb (lk_eqb (lookahead s) LNeg)); reflexivity.
  - destruct (Nat.ltb (attempt_pos s) p) eqn:E2; fields.
    + rewrite Nat.eqb_refl. destruct (negb (lk_eqb (lookahead s) LNeg)); reflexivity.
    + rewrite E1. reflexivity.
Qed.

Lemma try_add_rule_to_stack_sw st s r c m :
  try_add_rule_to_stack (sw st s) r c m = option_map (sw st) (try_add_rule_to_stack s r c m).
Proof.
  unfold try_add_rule_to_stack, try_add_new_stack_rule. fields.
  destruct (negb (atom_eqb (atomicity s) Atomic)); [|reflexivity].
  destruct (Nat.ltb (length (call_stacks s)) _); [reflexivity|].
  match goal with |- context [if Nat.leb ?c ?d then _ else _] => destruct (Nat.leb c d) end; reflexivity.
Qed.

Lemma stack_track s r p a b c : stack (track s r p a b c) = stack s.
Proof. apply (t_stack _ _ (track_same s r p a b c)). Qed.

Lemma rule_ok_sw st r fr s : rule_ok r fr (sw st s) = rmap (sw st) (rule_ok r fr s).
Proof.
  unfold rule_ok, emits. fields.
  assert (K : forall x, (if pa_enabled x then lift ROk (try_add_rule_to_stack (sw st x) r (rf_csn fr) (rf_max fr)) else ROk (sw st x))
                      = rmap (sw st) (if pa_enabled x then lift ROk (try_add_rule_to_stack x r (rf_csn fr) (rf_max fr)) else ROk x)).
  { intros x. destruct (pa_enabled x); [|reflexivity]. rewrite try_add_rule_to_stack_sw.
    destruct (try_add_rule_to_stack x r _ _); reflexivity. }
  destruct (lk_eqb (lookahead s) LNeg).
  - rewrite track_sw. fields. set (s1 := track s r _ _ _ _).
    destruct (_ && _); fields.
    + destruct (set_start_end _ _ _); fields; [|reflexivity].
      change (set_queue (sw st s1) ?q) with (sw st (set_queue s1 q)). apply (K (set_queue s1 _)).
    + apply (K s1).
  - destruct (_ && _); fields.
    + destruct (set_start_end _ _ _); fields; [|reflexivity].
      change (set_queue (sw st s) ?q) with (sw st (set_queue s q)). apply (K (set_queue s _)).
    + apply (K s).
Qed.

Lemma rule_err_sw st r fr s : rule_err r fr (sw st s) = rmap (sw st) (rule_err r fr s).
Proof.
  unfold rule_err, emits. fields.
  destruct (negb (lk_eqb (lookahead s) LNeg)).
  - rewrite track_sw. fields. set (s1 := track s r _ _ _ _).
    destruct (pa_enabled s1).
    + rewrite try_add_rule_to_stack_sw. destruct (try_add_rule_to_stack s1 r _ _) as [y|]; fields; [|reflexivity].
      destruct (_ && _); reflexivity.
    + fields. destruct (_ && _); reflexivity.
  - fields. destruct (_ && _); reflexivity.
Qed.

Lemma push_token_sw st s t n : push_token (sw st s) t n = sw st (push_token s t n).
Proof. unfold push_token. destruct n; reflexivity. Qed.

Lemma try_add_new_token_sw st s t sp p n : try_add_new_token (sw st s) t sp p n = sw st (try_add_new_token s t sp p n).
Proof.
  unfold try_add_new_token. fields.
  destruct (Nat.ltb (max_position s) p).
  - destruct (n && _); [reflexivity|]. rewrite push_token_sw. destruct n; reflexivity.
  - destruct (Nat.eqb p (max_position s)); [|reflexivity]. rewrite push_token_sw. reflexivity.
Qed.

Lemma handle_token_sw st s sp t ok : handle_token_parse_result (sw st s) sp t ok = sw st (handle_token_parse_result s sp t ok).
Proof.
  unfold handle_token_parse_result, nullify_expected_tokens. fields.
  destruct ok.
  - destruct (lk_eqb (lookahead s) LNeg); [apply try_add_new_token_sw|].
    destruct (Nat.ltb (max_position s) (pos s)); reflexivity.
  - destruct (negb (lk_eqb (lookahead s) LNeg)); [apply try_add_new_token_sw|reflexivity].
Qed.

Lemma apply_pres_sw st s r t : apply_pres (sw st s) r t = rmap (sw st) (apply_pres s r t).
Proof.
  unfold apply_pres. destruct r as [p| |]; fields; [| |reflexivity].
  - destruct t as [tk|]; [|reflexivity]. destruct (pa_enabled s); [|reflexivity].
    change (set_pos (sw st s) p) with (sw st (set_pos s p)). rewrite handle_token_sw. reflexivity.
  - destruct t as [tk|]; [|reflexivity]. destruct (pa_enabled s); [|reflexivity].
    rewrite handle_token_sw. reflexivity.
Qed.

Lemma st_match_string_sw st s str : st_match_string (sw st s) str = rmap (sw st) (st_match_string s str).
Proof. unfold st_match_string. rewrite apply_pres_sw. reflexivity. Qed.

(* ---------- the relation ---------- *)
Definition srel (s t : pst) : Prop :=
  exists st, t = sw st s /\ cache st = cache (stack s) /\ wf s /\ (exists a, Inv (stack s) a) /\ (exists b, Inv st b) /\ limit s = None.

Definition rrel (r1 r2 : res) : Prop :=
  match r1, r2 with
  | ROk s, ROk t | RErr s, RErr t => srel s t
  | RPanic k, RPanic k' => k = k'
  | _, _ => False
  end.

Lemma srel_refl s a : wf s -> Inv (stack s) a -> limit s = None -> srel s s.
Proof. intros W I L. exists (stack s). repeat split; auto; try (exists a; exact I). symmetry. apply sw_id. Qed.

Lemma r_wf s t : srel s t -> wf s.
Proof. intros (st & _ & _ & W & _). exact W. Qed.
Lemma r_lim s t : srel s t -> limit s = None.
Proof. intros (st & _ & _ & _ & _ & _ & L). exact L. Qed.
Lemma r_is s t : srel s t -> exists a, Inv (stack s) a.
Proof. intros (st & _ & _ & _ & I & _). exact I. Qed.
Lemma r_it s t : srel s t -> exists b, Inv (stack t) b.
Proof. intros (st & -> & _ & _ & _ & I & _). exact I. Qed.
Lemma srel_wft s t : srel s t -> wf t.
Proof. intros (st & -> & _ & W & _). exact W. Qed.
Lemma srel_limt s t : srel s t -> limit t = None.
Proof. intros (st & -> & _ & _ & _ & _ & L). exact L. Qed.
Lemma srel_at s t : srel s t -> atomicity t = atomicity s.
Proof. intros (st & -> & _). reflexivity. Qed.

(* from the frame theorem on both sides, only the two core facts remain to be shown *)
Definition core (s t : pst) : Prop := exists st, t = sw st s /\ cache st = cache (stack s).
Definition rcore (r1 r2 : res) : Prop :=
  match r1, r2 with
  | ROk s, ROk t | RErr s, RErr t => core s t
  | RPanic k, RPanic k' => k = k'
  | _, _ => False
  end.

Lemma rrel_of_core s a t b r1 r2 :
  limit s = None -> post s a r1 -> post t b r2 -> rcore r1 r2 -> rrel r1 r2.
Proof.
  intros L P1 P2 C. destruct r1 as [s'|s'|k|], r2 as [t'|t'|k'|]; cbn in *; try contradiction; auto.
  - destruct P1 as (F1 & W1 & a1 & I1 & _), P2 as (_ & _ & b1 & I2 & _), C as (st & -> & C2).
    exists st. repeat split; auto; [exists a1; auto|exists b1; auto|rewrite (f_lim _ _ F1); auto].
  - destruct P1 as (F1 & W1 & a1 & I1 & _), P2 as (_ & _ & b1 & I2 & _), C as (st & -> & C2).
    exists st. repeat split; auto; [exists a1; auto|exists b1; auto|rewrite (f_lim _ _ F1); auto].
Qed.

Lemma core_of_srel s t : srel s t -> core s t.
Proof. intros (st & A & B & _). exists st; auto. Qed.

(* ---------- checkpoints ---------- *)
Lemma srel_checkpoint s t : srel s t -> srel (checkpoint s) (checkpoint t).
Proof.
  intros (st & -> & C & W & [a Ia] & [b Ib] & L). unfold checkpoint. fields.
  exists (snapshot st). repeat split; fields; auto.
  - exists (ssnapshot a). now apply inv_snapshot.
  - exists (ssnapshot b). now apply inv_snapshot.
Qed.

Lemma inv_cache' (st : bstk) (a : sspec) : Inv st a -> cache st = cur a.
Proof. intros [H _]. exact H. Qed.

(* clearing the snapshot on both sides *)
Lemma clear_core (k : pst -> res) (kk : (forall x, k x = ROk x) \/ (forall x, k x = RErr x)) s t :
  srel s t -> rcore (lift k (checkpoint_ok s)) (lift k (checkpoint_ok t)).
Proof.
  intros (st & -> & C & W & [a Ia] & [b Ib] & L). unfold checkpoint_ok. fields.
  destruct (inv_clear Ia) as (st1 & E1 & I1). destruct (inv_clear Ib) as (st2 & E2 & I2).
  rewrite E1, E2. fields.
  assert (X : core (set_stack s st1) (set_stack s st2)).
  { exists st2. split; fields; [reflexivity|].
    rewrite (inv_cache' _ _ I1), (inv_cache' _ _ I2). cbn. rewrite <- (inv_cache' _ _ Ia), <- (inv_cache' _ _ Ib). exact C. }
  destruct kk as [K|K]; rewrite !K; exact X.
Qed.

(* restoring the snapshot on both sides: the snapshots restored must hold the same contents *)
Lemma restore_core (k : pst -> res) (kk : (forall x, k x = ROk x) \/ (forall x, k x = RErr x)) s st a b c ra rb :
  Inv (stack s) a -> Inv st b -> snaps a = c :: ra -> snaps b = c :: rb ->
  rcore (lift k (restore_st s)) (lift k (restore_st (sw st s))).
Proof.
  intros Ia Ib Sa Sb. unfold restore_st. fields.
  destruct (inv_restore Ia) as (st1 & E1 & I1). destruct (inv_restore Ib) as (st2 & E2 & I2).
  rewrite E1, E2. fields.
  assert (X : core (set_stack s st1) (set_stack s st2)).
  { exists st2. split; fields; [reflexivity|].
    rewrite (inv_cache' _ _ I1), (inv_cache' _ _ I2). unfold srestore. rewrite Sa, Sb. reflexivity. }
  destruct kk as [K|K]; rewrite !K; exact X.
Qed.

(* ---------- results of stack-oblivious steps ---------- *)
Definition keeps_stack (s : pst) (r : res) : Prop :=
  match r with ROk s' | RErr s' => stack s' = stack s | RPanic _ => True | ROutOfFuel => False end.

Lemma oblivious_core s st r : keeps_stack s r -> cache st = cache (stack s) -> rcore r (rmap (sw st) r).
Proof.
  intros K C. destruct r as [s'|s'|k|]; cbn in *; auto; unfold core; exists st; rewrite K; auto.
Qed.

Lemma apply_pres_keeps s r t : keeps_stack s (apply_pres s r t).
Proof.
  unfold apply_pres. destruct r as [p| |]; cbn [keeps_stack]; auto.
  - destruct t as [tk|]; [destruct (pa_enabled s)|]; try reflexivity.
    destruct (handle_token_core (set_pos s p) (pos s) tk true) as [C _]. rewrite (c_stack _ _ C). reflexivity.
  - destruct t as [tk|]; [destruct (pa_enabled s)|]; try reflexivity.
    destruct (handle_token_core s (pos s) tk false) as [C _]. apply (c_stack _ _ C).
Qed.

Lemma rule_ok_keeps r fr s : keeps_stack s (rule_ok r fr s).
Proof.
  unfold rule_ok.
  set (s1 := if lk_eqb (lookahead s) LNeg then track s r _ _ _ _ else s).
  assert (S1 : stack s1 = stack s) by (unfold s1; destruct (lk_eqb _ _); [apply stack_track|reflexivity]).
  destruct (emits s1).
  - destruct (set_start_end _ _ _) as [q|]; cbn; auto.
    destruct (pa_enabled _); cbn; auto.
    destruct (try_add_rule_to_stack _ _ _ _) as [y|] eqn:E; cbn; auto.
    rewrite (c_stack _ _ (try_add_rule_to_stack_core _ _ _ _ _ E)). exact S1.
  - destruct (pa_enabled s1); cbn; auto.
    destruct (try_add_rule_to_stack _ _ _ _) as [y|] eqn:E; cbn; auto.
    rewrite (c_stack _ _ (try_add_rule_to_stack_core _ _ _ _ _ E)). exact S1.
Qed.

Lemma rule_err_keeps r fr s : keeps_stack s (rule_err r fr s).
Proof.
  unfold rule_err. destruct (negb (lk_eqb (lookahead s) LNeg)).
  - set (s1 := track s r _ _ _ _). assert (S1 : stack s1 = stack s) by apply stack_track.
    destruct (pa_enabled s1).
    + destruct (try_add_rule_to_stack _ _ _ _) as [y|] eqn:E; cbn; auto.
      pose proof (c_stack _ _ (try_add_rule_to_stack_core _ _ _ _ _ E)) as Y.
      destruct (emits y); fields; congruence.
    + cbn. destruct (emits s1); fields; congruence.
  - cbn. destruct (emits s); reflexivity.
Qed.

(* ---------- the stack primitives on two stacks with the same contents ---------- *)
Lemma pop_same (a b : bstk) : cache a = cache b ->
  snd (pop a) = snd (pop b) /\ cache (fst (pop a)) = cache (fst (pop b)).
Proof.
  intros C. unfold pop. destruct (cache a) as [|x c1] eqn:Ea, (cache b) as [|y c2] eqn:Eb; try discriminate C.
  - cbn. rewrite Ea, Eb. auto.
  - injection C as -> ->.
    destruct (lengths a) as [|[l r] ls], (lengths b) as [|[l' r'] ls'];
      repeat match goal with |- context [if ?c then _ else _] => destruct c end; cbn; auto.
Qed.

Lemma match_pop_loop_S f inp (st : bstk) p :
  match_pop_loop (S f) inp st p =
  match pop st with
  | (st', None) => Some (st', p, true)
  | (st', Some x) => match match_string inp p x with PMoved p' => match_pop_loop f inp st' p' | _ => Some (st', p, false) end
  end.
Proof. reflexivity. Qed.

Lemma match_pop_loop_same f inp (a b : bstk) p : cache a = cache b ->
  match match_pop_loop f inp a p, match_pop_loop f inp b p with
  | Some (a', pa, ba), Some (b', pb, bb) => cache a' = cache b' /\ pa = pb /\ ba = bb
  | _, _ => False
  end.
Proof.
  revert a b p; induction f as [|f IH]; intros a b p C.
  - cbn. repeat split; auto.
  - rewrite !match_pop_loop_S. destruct (pop_same a b C) as [E1 E2]. destruct (pop a) as [a1 oa], (pop b) as [b1 ob]. cbn in E1, E2. subst ob.
    destruct oa as [x|]; [|repeat split; auto].
    destruct (match_string inp p x); [apply IH; exact E2|repeat split; auto|repeat split; auto].
Qed.

Lemma peek_slice_sw st s i j d : cache st = cache (stack s) -> peek_slice (sw st s) i j d = rmap (sw st) (peek_slice s i j d).
Proof.
  intros C. unfold peek_slice. fields. rewrite C.
  destruct (constrain_idxs i j _) as [[a b]|]; [|reflexivity].
  destruct (Nat.leb b a); [reflexivity|]. destruct (match_all _ _ _); reflexivity.
Qed.
Lemma peek_slice_keeps s i j d : keeps_stack s (peek_slice s i j d).
Proof.
  unfold peek_slice. destruct (constrain_idxs i j _) as [[a b]|]; cbn; auto.
  destruct (Nat.leb b a); cbn; auto. destruct (match_all _ _ _); cbn; auto.
Qed.

Lemma exec_prim_core cfg o s st : cache st = cache (stack s) -> rcore (exec_prim cfg o s) (exec_prim cfg o (sw st s)).
Proof.
  intros C. destruct o; cbn [exec_prim].
  - exists st; auto.
  - exists st; auto.
  - rewrite st_match_string_sw. apply (oblivious_core s); auto. apply apply_pres_keeps.
  - fields. rewrite apply_pres_sw. apply (oblivious_core s); auto. apply apply_pres_keeps.
  - fields. rewrite apply_pres_sw. apply (oblivious_core s); auto. apply apply_pres_keeps.
  - fields. rewrite apply_pres_sw. apply (oblivious_core s); auto. apply apply_pres_keeps.
  - fields. rewrite apply_pres_sw. apply (oblivious_core s); auto. apply apply_pres_keeps.
  - fields. destruct (skip_until _ _ _ _); cbn; auto. exists st; auto.
  - fields. destruct (Nat.eqb (pos s) 0); exists st; auto.
  - fields. destruct (Nat.eqb (pos s) _); exists st; auto.
  - fields. exists (push st s0). split; [reflexivity|]. unfold push. simpl. f_equal. exact C.
  - fields. unfold peek. rewrite C. destruct (hd_error (cache (stack s))); cbn; auto.
    rewrite st_match_string_sw. apply (oblivious_core s); auto. apply apply_pres_keeps.
  - fields. destruct (pop_same st (stack s) C) as [X1 X2]. destruct (pop st) as [st1 o1], (pop (stack s)) as [st2 o2].
    cbn in X1, X2. subst o2. destruct o1 as [x|]; cbn; auto.
    change (set_stack (sw st s) st1) with (sw st1 (set_stack s st2)). rewrite st_match_string_sw.
    apply (oblivious_core (set_stack s st2)); auto. apply apply_pres_keeps.
  - fields. destruct (pop_same st (stack s) C) as [X1 X2]. destruct (pop st) as [st1 o1], (pop (stack s)) as [st2 o2].
    cbn in X1, X2. subst o2. destruct o1 as [x|]; [exists st1; auto|exists st; auto].
  - rewrite peek_slice_sw; auto. apply (oblivious_core s); auto. apply peek_slice_keeps.
  - fields. rewrite C. pose proof (match_pop_loop_same (S (length (cache (stack s)))) (input s) st (stack s) (pos s) C) as X.
    destruct (match_pop_loop _ _ st _) as [[[a1 p1] b1]|], (match_pop_loop _ _ (stack s) _) as [[[a2 p2] b2]|]; try contradiction.
    destruct X as (X1 & -> & ->). destruct b2; exists a1; auto.
  - rewrite peek_slice_sw; auto. apply (oblivious_core s); auto. apply peek_slice_keeps.
  - fields. destruct (negb (lk_eqb (lookahead s) LNone)); [exists st; auto|].
    destruct (queue s) as [|[e p|si r tg p] q]; exists st; auto.
Qed.
