(* C02 proofs, part 6: the converse simulation - whenever the VM returns, so does the generated
   parser, with a related result.  Mirror of Equiv.v: the source is now vm_env, the target gen_env;
   the program laws are used from right to left, in the environment of the generated module.   *)
From Coq Require Import List Arith NArith ZArith Bool String Ascii Lia.
Import ListNotations.
Require Import PV.Stack.Model PV.Stack.Proofs PV.Comb.PState PV.Comb.Bytes PV.Comb.Prog PV.Comb.Exec
               PV.Comb.Frame PV.Comb.Contracts PV.Comb.CallLimit PV.Peg.Ast PV.Peg.VmCompile
               PV.Gen.GenCompile PV.Gen.ClassH PV.Gen.Lookup PV.Gen.Rel PV.Gen.Cong PV.Gen.Laws PV.Gen.Clean PV.Gen.Equiv.

Arguments Nat.sub : simpl never.
Arguments Nat.ltb : simpl never.
Arguments Nat.leb : simpl never.
Arguments Nat.eqb : simpl never.

Section EquivRev.
Variable cfg : config.
Variable G : ogrammar.
Variable U : utable.
Variable extras : bool.
Hypothesis HH : in_H G extras = true.

Let ur := ulookup U.
Let Eg := gen_env G U.
Let Ev := vm_env G ur.
Let C := cleanset G.
Notation simvg := (sim cfg Ev Eg).
Notation gx := (gen_expr G U).
Notation ga := (gen_expr_atomic G U).
Notation vx := (vm_expr G ur).
Notation vsk := (vm_skip G ur).
Notation csk := (call_skip G).

Ltac closed := repeat first [apply sim_prim | apply cong_else' | apply cong_rule'].

Definition CallsR (n : nat) : Prop :=
  forall k r, nth_error G k = Some r -> simvg false n (vm_rule_body G ur r) (gen_rule G U r).

Lemma sim_call_rev A n x : CallsR n -> simvg A (S n) (vm_call G ur x) (gen_call G U x).
Proof.
  intros HCalls. unfold gen_call.
  destruct (has_orule G x) eqn:Ho.
  - pose proof (vm_call_special G U x Ho) as Ecall. fold ur in Ecall. rewrite Ecall.
    destruct (has_orule_first G x Ho) as (r & Er & _).
    eapply cong_call; [apply vm_env_at; exact Er|apply gen_env_at; exact Er|].
    destruct A; [apply sim_weaken|]; apply (HCalls _ _ Er).
  - unfold vm_call, prim_range, fixed_builtins, rng. rewrite Ho. cbn [bindex].
    repeat match goal with |- simvg _ _ (if str_eqb x ?b then _ else _) _ =>
      rewrite (str_eqb_sym x b); destruct (str_eqb b x);
      [eapply cong_call_right; [apply (Eg_fixed G U); reflexivity|cbn [snd]; closed]|] end.
    pose proof (ulookup_uindex U x 0) as X. fold ur in X.
    destruct (ur x) as [rs|], (uindex U x 0) as [j|]; try contradiction.
    + destruct X as (_ & y & Hy). rewrite Nat.sub_0_r in Hy.
      eapply cong_call_right; [apply (Eg_unicode G U); exact Hy|apply sim_prim].
    + apply cong_call_none; [apply (Ev_undef G U)|apply (Eg_undef G U)].
Qed.

Lemma sim_rule_call_rev A n x : CallsR n -> has_orule G x = true -> simvg A (S n) (PCall (orule_id G x)) (PCall (orule_id G x)).
Proof.
  intros HCalls Ho. destruct (has_orule_first G x Ho) as (r & Er & _).
  eapply cong_call; [apply vm_env_at; exact Er|apply gen_env_at; exact Er|].
  destruct A; [apply sim_weaken|]; apply (HCalls _ _ Er).
Qed.

Lemma sim_skip_rev A n : CallsR n -> simvg A (S n) vsk csk.
Proof.
  intros HCalls. eapply cong_call_right; [apply (Eg_skip G U)|].
  unfold gen_skip, vm_skip.
  pose proof (vm_call_special G U (nm "WHITESPACE")) as Ew. pose proof (vm_call_special G U (nm "COMMENT")) as Ec. fold ur in Ew, Ec.
  destruct (has_orule G (nm "WHITESPACE")) eqn:Hw, (has_orule G (nm "COMMENT")) eqn:Hc;
    rewrite ?(Ew eq_refl), ?(Ec eq_refl).
  - apply cong_ifna'; [|apply sim_prim]. apply cong_seq', cong_then'; [apply cong_rep', sim_rule_call_rev; auto|].
    apply cong_rep', cong_seq', cong_then'; [apply sim_rule_call_rev; auto|apply cong_rep', sim_rule_call_rev; auto].
  - apply cong_ifna'; [|apply sim_prim]. apply cong_rep', sim_rule_call_rev; auto.
  - apply cong_ifna'; [|apply sim_prim]. apply cong_rep', sim_rule_call_rev; auto.
  - apply sim_prim.
Qed.

(* hidden::skip is the identity in atomic mode *)
Lemma csk_id : skip_id cfg Eg csk.
Proof.
  intros s HA. split; [discriminate|]. exists 3. unfold call_skip. cbn [exec]. unfold Eg. rewrite (Eg_skip G U).
  assert (X : atom_eqb (atomicity s) NonAtomic = false) by (destruct (atomicity s); auto; congruence).
  unfold gen_skip. destruct (has_orule G (nm "WHITESPACE")), (has_orule G (nm "COMMENT")); cbn [exec exec_prim]; rewrite ?X; reflexivity.
Qed.

Lemma vsk_id' : skip_id cfg Ev vsk.
Proof. exact (vsk_id cfg G U). Qed.

(* the VM's skip on the source side disappears in atomic mode *)
Lemma skip_src_r n p q : simvg true n p q -> simvg true n (PAndThen p vsk) q.
Proof.
  intros H f s t Hf R HA Hne. destruct f as [|f]; [exfalso; apply Hne; reflexivity|].
  assert (E : exec cfg Ev (S f) (PAndThen p vsk) s = exec cfg Ev f p s).
  { cbn [exec] in Hne |- *. destruct (exec cfg Ev f p s) as [s1|s1|k|] eqn:Ep; auto.
    destruct (r_is _ _ R) as [a Ia]. pose proof (exec_post cfg Ev f p s a (r_wf _ _ R) Ia) as P. rewrite Ep in P. cbn in P. destruct P as (F & _).
    assert (A1 : atomicity s1 <> NonAtomic) by (rewrite (f_at _ _ F); apply HA; reflexivity).
    destruct (vsk_id' s1 A1) as [_ [f0 E0]].
    rewrite <- E0. apply exec_fuel_irrelevant; [exact Hne|rewrite E0; discriminate]. }
  rewrite E in *. apply (H f s t); auto. lia.
Qed.
Lemma skip_src_l n p q : simvg true n p q -> simvg true n (PAndThen vsk p) q.
Proof.
  intros H f s t Hf R HA Hne. destruct f as [|f]; [exfalso; apply Hne; reflexivity|].
  assert (A0 : atomicity s <> NonAtomic) by (apply HA; reflexivity).
  assert (E : exec cfg Ev (S f) (PAndThen vsk p) s = exec cfg Ev f p s).
  { cbn [exec] in Hne |- *. destruct (vsk_id' s A0) as [_ [f0 E0]].
    assert (X : exec cfg Ev f vsk s = ROk s).
    { rewrite <- E0. apply exec_fuel_irrelevant; [|rewrite E0; discriminate]. intros Y. rewrite Y in Hne. apply Hne. reflexivity. }
    rewrite X. reflexivity. }
  rewrite E in *. apply (H f s t); auto. lia.
Qed.

(* a failing atomic expression of the generated parser fails cleanly: through the forward simulation *)
Lemma gen_clean x : okm G true x -> fail_clean G C x = true -> fails_clean cfg Eg (ga x).
Proof.
  intros Hok Hc s s' a W I L HA [_ [f Ef]]. unfold Eg in Ef.
  destruct (expr_sim cfg G U extras HH f (all_calls cfg G U extras HH f) x true Hok) as (P & _).
  assert (R : srel s s) by (eapply srel_refl; eauto).
  assert (Hne : exec cfg (gen_env G U) f (ga x) s <> ROutOfFuel) by (rewrite Ef; discriminate).
  destruct (P f s s ltac:(lia) R (fun _ => HA) Hne) as [f' Hr]. unfold gm in Hr. rewrite Ef in Hr.
  destruct (exec cfg (vm_env G (ulookup U)) f' (vm_expr G (ulookup U) x) s) as [t'|t'|kk|] eqn:Ev'; cbn in Hr; try contradiction.
  destruct (vm_clean cfg G ur C (HC G extras HH) f' true x (fun _ => Hc) f' s t' a (le_n _) W I L Ev') as (A1 & A2 & A3).
  destruct Hr as (st & -> & Cc & _). fields_in A1. fields_in A2. fields_in A3.
  split; [exact A1|]. split; [|rewrite <- Cc; apply A3; reflexivity].
  rewrite <- (untagq_length (queue s')), <- (untagq_length (queue s)), A2. reflexivity.
Qed.

(* ---------- expressions ---------- *)
Definition prem (A : bool) : prog -> prog := if A then (fun a => a) else (fun a => PAndThen a csk).

Lemma prem_push A X y z : peq cfg Eg (PAndThen X (lkp (prem A) y z)) (lkp (prem A) (PAndThen X y) z).
Proof. destruct A; unfold lkp, prem; [apply then_assoc_rev|apply assoc4_rev]. Qed.
Lemma prem_cong A a a' x : peq cfg Eg a a' -> peq cfg Eg (lkp (prem A) a x) (lkp (prem A) a' x).
Proof. intros H. destruct A; unfold lkp, prem; [apply peq_then_l; exact H|apply peq_then_l, peq_then_l; exact H]. Qed.
Lemma gm_seq A l r : gm G U A (OSeq l r) = PSequence (seq_chain (gm G U A) (lkp (prem A)) (gm G U A l) r).
Proof. destruct A; reflexivity. Qed.
Lemma gm_cho A l r : gm G U A (OChoice l r) = cho_chain (gm G U A) POrElse (gm G U A l) r.
Proof. destruct A; reflexivity. Qed.

Definition TR (A : bool) (N : nat) (e : oexpr) : Prop :=
  simvg A N (vx e) (gm G U A e) /\
  simvg A N (vx e) (nest (gm G U A) (prem A) e) /\
  simvg A N (vx e) (nestc (gm G U A) e).

Section Level.
Variable n : nat.
Hypothesis HCalls : CallsR n.
Notation N := (S n).

Lemma nest_leaf A e : not_seq e -> nest (gm G U A) (prem A) e = gm G U A e.
Proof. destruct e; cbn; auto; contradiction. Qed.
Lemma nestc_leaf A e : not_cho e -> nestc (gm G U A) e = gm G U A e.
Proof. destruct e; cbn; auto; contradiction. Qed.
Lemma TR_leaf A e : not_seq e -> not_cho e -> simvg A N (vx e) (gm G U A e) -> TR A N e.
Proof. intros H1 H2 P. split; [exact P|]. rewrite nest_leaf, nestc_leaf by assumption. split; exact P. Qed.

Lemma pre_sim A l : simvg A N (vx l) (gm G U A l) -> simvg A N (PAndThen (vx l) vsk) (prem A (gm G U A l)).
Proof.
  intros P. destruct A; unfold prem.
  - apply skip_src_r. exact P.
  - apply cong_then'; [exact P|apply sim_skip_rev; exact HCalls].
Qed.

Lemma expr_sim_rev : forall e A, okm G A e -> TR A N e.
Proof.
  induction e; intros A Hok.
  - apply TR_leaf; cbn; auto. destruct A; apply sim_prim.
  - apply TR_leaf; cbn; auto. destruct A; apply sim_prim.
  - apply TR_leaf; cbn; auto. destruct A; apply sim_prim.
  - apply TR_leaf; cbn; auto. destruct A; apply sim_call_rev; exact HCalls.
  - apply TR_leaf; cbn; auto. destruct A; apply sim_prim.
  - destruct (IHe A (okm1 G A OPosPred e (fun q => eq_refl) Hok)) as (P & _).
    apply TR_leaf; cbn; auto. destruct A; apply cong_look'; exact P.
  - destruct (IHe A (okm1 G A ONegPred e (fun q => eq_refl) Hok)) as (P & _).
    apply TR_leaf; cbn; auto. destruct A; apply cong_look'; exact P.
  - (* OSeq *) destruct (okm2 G A OSeq e1 e2 (fun q => eq_refl) Hok) as [O1 O2].
    destruct (IHe1 A O1) as (P1 & _). destruct (IHe2 A O2) as (_ & Q2 & _).
    assert (Q : simvg A N (vx (OSeq e1 e2)) (nest (gm G U A) (prem A) (OSeq e1 e2))).
    { cbn [vm_expr nest]. unfold lkp. apply cong_seq', cong_then'; [apply pre_sim; exact P1|exact Q2]. }
    assert (P : simvg A N (vx (OSeq e1 e2)) (gm G U A (OSeq e1 e2))).
    { eapply sim_trans; [exact Q|]. apply eqv_sim.
      apply (nest_flat cfg Eg (gm G U A) (prem A) (prem_push A) (prem_cong A) (gm_seq A)). }
    split; [exact P|]. split; [exact Q|]. rewrite nestc_leaf by exact I. exact P.
  - (* OChoice *) destruct (okm2 G A OChoice e1 e2 (fun q => eq_refl) Hok) as [O1 O2].
    destruct (IHe1 A O1) as (P1 & _). destruct (IHe2 A O2) as (_ & _ & R2).
    assert (R : simvg A N (vx (OChoice e1 e2)) (nestc (gm G U A) (OChoice e1 e2))).
    { cbn [vm_expr nestc]. apply cong_else'; [exact P1|exact R2]. }
    assert (P : simvg A N (vx (OChoice e1 e2)) (gm G U A (OChoice e1 e2))).
    { eapply sim_trans; [exact R|]. apply eqv_sim. apply (nestc_flat cfg Eg (gm G U A) (gm_cho A)). }
    split; [exact P|]. split; [|exact R]. rewrite nest_leaf by exact I. exact P.
  - destruct (IHe A (okm1 G A OOpt e (fun q => eq_refl) Hok)) as (P & _).
    apply TR_leaf; cbn; auto. destruct A; apply cong_opt'; exact P.
  - (* ORep *) destruct (IHe A (okm1 G A ORep e (fun q => eq_refl) Hok)) as (P & _).
    apply TR_leaf; cbn; auto. destruct A.
    + eapply sim_trans with (q := PSequence (POptional (PAndThen (ga e) (PRepeat (PSequence (PAndThen csk (ga e))))))).
      * cbn [vm_expr]. apply cong_seq', cong_opt', cong_then'; [exact P|].
        apply cong_rep', cong_seq', cong_then'; [apply sim_skip_rev; exact HCalls|exact P].
      * apply eqv_sim. apply (rep_atomic_rev cfg Eg (ga e) csk csk_id). apply gen_clean.
        -- exact (okm1 G true ORep e (fun q => eq_refl) Hok).
        -- destruct Hok as [_ H2]. specialize (H2 eq_refl). cbn in H2. apply andb_prop in H2. tauto.
    + cbn [gm gen_expr vm_expr]. apply cong_seq', cong_opt', cong_then'; [exact P|].
      apply cong_rep', cong_seq', cong_then'; [apply sim_skip_rev; exact HCalls|exact P].
  - (* ORepOnce *) destruct (IHe A (okm1 G A ORepOnce e (fun q => eq_refl) Hok)) as (P & _).
    apply TR_leaf; cbn; auto. destruct A.
    + cbn [gm gen_expr_atomic vm_expr]. apply cong_seq', cong_then'; [exact P|].
      apply cong_rep', cong_seq'. apply skip_src_l. exact P.
    + cbn [gm gen_expr vm_expr]. apply cong_seq', cong_then'; [exact P|].
      apply cong_rep', cong_seq', cong_then'; [apply sim_skip_rev; exact HCalls|exact P].
  - apply TR_leaf; cbn; auto. destruct A; apply sim_prim.
  - destruct (IHe A (okm1 G A OPush e (fun q => eq_refl) Hok)) as (P & _).
    apply TR_leaf; cbn; auto. destruct A; apply cong_push'; exact P.
  - apply TR_leaf; cbn; auto. destruct A; apply sim_prim.
  - (* ONodeTag *) destruct (IHe A (okm1 G A (fun x => ONodeTag x t) e (fun q => eq_refl) Hok)) as (P & _).
    assert (Tg : tag_ok (ONodeTag e t) = true).
    { destruct Hok as [H1 _]. cbn [subexprs_ok] in H1. apply andb_prop in H1. tauto. }
    destruct (gen_tag_general G U e t Tg) as [E1 E2].
    apply TR_leaf; cbn [not_seq not_cho]; auto. unfold gm. destruct A; [rewrite E2|rewrite E1]; cbn [vm_expr];
      (apply cong_then'; [exact P|apply sim_prim]).
  - destruct (IHe A (okm1 G A ORestoreOnErr e (fun q => eq_refl) Hok)) as (P & _).
    apply TR_leaf; cbn; auto. destruct A; apply cong_roe'; exact P.
Qed.

End Level.

Lemma rule_sim_rev n : CallsR n -> CallsR (S n).
Proof.
  intros HCalls k r Er.
  pose proof (HR G extras HH r (nth_error_In _ _ Er)) as X. unfold rule_in_H in X.
  apply andb_prop in X. destruct X as [X X4]. apply andb_prop in X. destruct X as [X2 X3].
  assert (Tg : subexprs_ok tag_ok (oexpr_of r) = true).
  { eapply subexprs_ok_impl; [|exact X3]. intros e. destruct extras; auto. destruct e; cbn; try discriminate; auto. }
  assert (Pn : simvg false (S n) (vx (oexpr_of r)) (gx (oexpr_of r))).
  { apply (expr_sim_rev n HCalls (oexpr_of r) false). split; [exact Tg|discriminate]. }
  assert (Pa : atomic_compiled r = true -> simvg true (S n) (vx (oexpr_of r)) (ga (oexpr_of r))).
  { intros Ac. rewrite Ac in X4. apply (expr_sim_rev n HCalls (oexpr_of r) true). split; [exact Tg|intros _; exact X4]. }
  unfold atomic_compiled in Pa.
  unfold gen_rule, vm_rule_body.
  destruct (oty r) eqn:Ety, (is_special_name (oname r)) eqn:Esp; cbn [is_atomic_ty orb] in *;
    try discriminate X2;
    repeat first [ apply cong_rule'
                 | apply (cong_atomic' cfg Ev Eg false true); [discriminate|]
                 | apply (cong_atomic' cfg Ev Eg false false); [discriminate|]
                 | apply (cong_atomic' cfg Ev Eg true true); [discriminate|]
                 | exact Pn | apply Pa; reflexivity ].
Qed.

Lemma all_calls_rev : forall n, CallsR n.
Proof. induction n as [|n IH]; [intros k r _; apply sim_zero|now apply rule_sim_rev]. Qed.

Theorem start_sim_rev : forall n x, simvg false n (vm_start G ur x) (gen_start G U x).
Proof. intros [|n] x; [apply sim_zero|]. apply sim_call_rev. apply all_calls_rev. Qed.

End EquivRev.

(* whenever the VM returns, the generated parser returns a related result *)
Theorem vm_gen_agree cfg G U extras : in_H G extras = true ->
  forall x inp detail f2,
    exec cfg (vm_env G (ulookup U)) f2 (vm_start G (ulookup U) x) (init inp None detail) <> ROutOfFuel ->
    exists f1, exec cfg (gen_env G U) f1 (gen_start G U x) (init inp None detail) <> ROutOfFuel.
Proof.
  intros HH x inp detail f2 Hv.
  assert (R0 : srel (init inp None detail) (init inp None detail)).
  { eapply srel_refl; [unfold wf; cbn; lia|cbn; apply (@inv_empty (list byte))|reflexivity]. }
  destruct (start_sim_rev cfg G U extras HH f2 x f2 _ _ (le_n _) R0 (fun X => ltac:(discriminate X)) Hv) as [f' Hr].
  exists f'. eapply rrel_nofuel. exact Hr.
Qed.
