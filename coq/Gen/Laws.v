(* C02 proofs, part 3: laws of Layer-C programs within ONE closure environment, up to the relation
   of Rel.v (same observable state, possibly different snapshot bookkeeping):
     - and_then / or_else are associative;
     - a `sequence` around the tail of a `sequence` is absorbed:
           sequence(X ; Y)  ~  sequence(X ; sequence(Y))
     - in atomic mode, for a body that fails cleanly and a skip that is the identity:
           repeat(x)  ~  sequence(optional(x ; repeat(sequence(skip ; x))))
   These are the differences between the code generate_expr/_atomic emits and what the VM runs. *)
From Coq Require Import List Arith NArith ZArith Bool Lia.
Import ListNotations.
Require Import PV.Stack.Model PV.Stack.Proofs PV.Comb.PState PV.Comb.Bytes PV.Comb.Prog PV.Comb.Exec
               PV.Comb.Frame PV.Comb.Contracts PV.Comb.CallLimit PV.Gen.Rel PV.Gen.Cong.

Arguments Nat.sub : simpl never.
Arguments Nat.ltb : simpl never.
Arguments Nat.leb : simpl never.
Arguments Nat.eqb : simpl never.
Arguments skipn : simpl never.
Arguments firstn : simpl never.

Section Laws.
Variable cfg : config.
Variable E : env.

(* terminating runs, fuel hidden *)
Definition runs (p : prog) (s : pst) (r : res) : Prop := r <> ROutOfFuel /\ exists f, exec cfg E f p s = r.

Lemma runs_det p s r r' : runs p s r -> runs p s r' -> r = r'.
Proof.
  intros [N1 [f1 E1]] [N2 [f2 E2]]. rewrite <- E1, <- E2. apply exec_fuel_irrelevant; congruence.
Qed.
Lemma runs_at p s r : runs p s r -> (exists f0, forall f', f0 <= f' -> exec cfg E f' p s = r).
Proof. intros [N [f0 E0]]. exists f0. intros f' Hle. rewrite <- E0. apply exec_mono; auto. congruence. Qed.
Lemma runs_post p s a r : wf s -> Inv (stack s) a -> runs p s r -> post s a r.
Proof. intros W I [_ [f <-]]. now apply exec_post. Qed.

Definition eqv (A : bool) (q q' : prog) : Prop :=
  forall s t r, srel s t -> amode A s -> runs q s r -> exists r', runs q' t r' /\ rrel r r'.

Lemma eqv_sim A q q' : eqv A q q' -> forall m, sim cfg E E A m q q'.
Proof.
  intros H m f s t Hf R HA Hne.
  destruct (H s t _ R HA (conj Hne (ex_intro _ f eq_refl))) as (r' & [N [f' Ef]] & Hr).
  exists f'. rewrite Ef. exact Hr.
Qed.
Lemma sim_eqv A q q' : (forall m, sim cfg E E A m q q') -> eqv A q q'.
Proof.
  intros H s t r R HA [N [f Ef]]. subst r.
  destruct (H f f s t (le_n _) R HA N) as [f' Hr].
  exists (exec cfg E f' q' t). split; [split; [eapply rrel_nofuel; eauto|eauto]|exact Hr].
Qed.
Lemma eqv_refl A q : eqv A q q.
Proof. apply sim_eqv. intros m. apply sim_refl. Qed.
Lemma eqv_trans A q1 q2 q3 : eqv A q1 q2 -> eqv A q2 q3 -> eqv A q1 q3.
Proof.
  intros H1 H2 s t r R HA Hr. destruct (H1 s t r R HA Hr) as (r2 & Hr2 & R12).
  assert (Rt : srel t t).
  { destruct (r_it _ _ R) as [b Ib]. eapply srel_refl; [eapply srel_wft; eauto|exact Ib|eapply srel_limt; eauto]. }
  assert (At : amode A t) by (intros X; rewrite (srel_at _ _ R); auto).
  destruct (H2 t t r2 Rt At Hr2) as (r3 & Hr3 & R23). exists r3. split; auto. eapply rrel_trans; eauto.
Qed.

(* same state, same result *)
Definition peq (q q' : prog) : Prop := forall s r, runs q s r -> runs q' s r.
Lemma eqv_of_peq A q q' : peq q q' -> eqv A q q'.
Proof. intros H s t r R HA Hr. apply (eqv_refl A q' s t r R HA). now apply H. Qed.

(* ---------- introduction / inversion of runs ---------- *)
Lemma runs_then_inv p q s r : runs (PAndThen p q) s r ->
  (exists s1, runs p s (ROk s1) /\ runs q s1 r) \/ (runs p s r /\ forall s1, r <> ROk s1).
Proof.
  intros [N [f Ef]]. destruct f as [|f]; [cbn in Ef; congruence|]. cbn [exec] in Ef.
  destruct (exec cfg E f p s) as [s1|s1|k|] eqn:Ep.
  - left. exists s1. split; [split; [discriminate|eauto]|split; eauto].
  - right. subst r. split; [split; eauto|discriminate].
  - right. subst r. split; [split; eauto|discriminate].
  - congruence.
Qed.
Lemma runs_then_ok p q s s1 r : runs p s (ROk s1) -> runs q s1 r -> runs (PAndThen p q) s r.
Proof.
  intros [_ [f1 E1]] [N [f2 E2]]. split; auto. exists (S (Nat.max f1 f2)). cbn [exec].
  rewrite (exec_mono cfg E f1 (Nat.max f1 f2) p s ltac:(lia)) by (rewrite E1; discriminate). rewrite E1.
  rewrite (exec_mono cfg E f2 (Nat.max f1 f2) q s1 ltac:(lia)) by (rewrite E2; exact N). exact E2.
Qed.
Lemma runs_then_stop p q s r : runs p s r -> (forall s1, r <> ROk s1) -> runs (PAndThen p q) s r.
Proof.
  intros [N [f1 E1]] H. split; auto. exists (S f1). cbn [exec]. rewrite E1.
  destruct r; auto. exfalso. eapply H; eauto.
Qed.

Lemma runs_else_inv p q s r : runs (POrElse p q) s r ->
  (exists s1, runs p s (RErr s1) /\ runs q s1 r) \/ (runs p s r /\ forall s1, r <> RErr s1).
Proof.
  intros [N [f Ef]]. destruct f as [|f]; [cbn in Ef; congruence|]. cbn [exec] in Ef.
  destruct (exec cfg E f p s) as [s1|s1|k|] eqn:Ep.
  - right. subst r. split; [split; eauto|discriminate].
  - left. exists s1. split; [split; [discriminate|eauto]|split; eauto].
  - right. subst r. split; [split; eauto|discriminate].
  - congruence.
Qed.
Lemma runs_else_err p q s s1 r : runs p s (RErr s1) -> runs q s1 r -> runs (POrElse p q) s r.
Proof.
  intros [_ [f1 E1]] [N [f2 E2]]. split; auto. exists (S (Nat.max f1 f2)). cbn [exec].
  rewrite (exec_mono cfg E f1 (Nat.max f1 f2) p s ltac:(lia)) by (rewrite E1; discriminate). rewrite E1.
  rewrite (exec_mono cfg E f2 (Nat.max f1 f2) q s1 ltac:(lia)) by (rewrite E2; exact N). exact E2.
Qed.
Lemma runs_else_stop p q s r : runs p s r -> (forall s1, r <> RErr s1) -> runs (POrElse p q) s r.
Proof.
  intros [N [f1 E1]] H. split; auto. exists (S f1). cbn [exec]. rewrite E1.
  destruct r; auto. exfalso. eapply H; eauto.
Qed.

(* ---------- associativity ---------- *)
Lemma then_assoc p q r0 : peq (PAndThen (PAndThen p q) r0) (PAndThen p (PAndThen q r0)).
Proof.
  intros s r H. destruct (runs_then_inv _ _ _ _ H) as [(s2 & H1 & H2)|[H1 Hn]].
  - destruct (runs_then_inv _ _ _ _ H1) as [(s1 & Hp & Hq)|[Hp Hn]]; [|exfalso; eapply Hn; eauto].
    eapply runs_then_ok; [exact Hp|]. eapply runs_then_ok; eauto.
  - destruct (runs_then_inv _ _ _ _ H1) as [(s1 & Hp & Hq)|[Hp _]].
    + eapply runs_then_ok; [exact Hp|]. apply runs_then_stop; auto.
    + apply runs_then_stop; auto.
Qed.
Lemma else_assoc p q r0 : peq (POrElse (POrElse p q) r0) (POrElse p (POrElse q r0)).
Proof.
  intros s r H. destruct (runs_else_inv _ _ _ _ H) as [(s2 & H1 & H2)|[H1 Hn]].
  - destruct (runs_else_inv _ _ _ _ H1) as [(s1 & Hp & Hq)|[Hp Hn]]; [|exfalso; eapply Hn; eauto].
    eapply runs_else_err; [exact Hp|]. eapply runs_else_err; eauto.
  - destruct (runs_else_inv _ _ _ _ H1) as [(s1 & Hp & Hq)|[Hp _]].
    + eapply runs_else_err; [exact Hp|]. apply runs_else_stop; auto.
    + apply runs_else_stop; auto.
Qed.

End Laws.
